import EdVerif.Ssa.Common
/-!
# MiniSSA semantics with leakage (executable; core Lean only)

A small-step interpreter for the programs printed by `go2lean ssa` (`EdVerif/Gen/Ssa.lean`), i.e. for
the go/ssa form of the two packages of `/repo`.  It is the meaning given to the regenerated SSA
data: the interpreter is run against the real code on every check (`ssarun`, the same line protocol
as the Go harness), it is the semantics in which the constant-time theorem
(`EdVerif/Ssa/NI.lean`) is stated.

## Memory model

Go types are static, so every type is flattened (by the `Ty` table of the program) into a sequence
of *scalars*.  A run-time scalar is a `Val`; a register holds the flat list of scalars of its value
(`RVal`); the heap is an array of blocks, a block an array of scalars; a pointer is `(block, offset)`;
a slice header `(block, offset, len, cap)` is ONE scalar.  `FieldAddr` adds a static offset,
`IndexAddr` adds `i * size(elem)` after a bounds test.

Every scalar has a *class* (`Val.cls`): `data` (integers, booleans — what can be secret) or `addr`
(pointers, slice headers, functions, strings/errors/`sync.Once` flags — public by definition).
A store must preserve the class of every cell it overwrites and a load must find the classes its
static type predicts, otherwise the step is a `fault` (the semantics does not apply).  This is the
dynamic form of Go's memory typing and is what makes "address-like values are public" an invariant.

## Leakage

Every step emits events `(function, kind, values)`: the condition of every `If`; the index of every
`IndexAddr/Index`; the bounds of every `Slice`; the count of every non-constant shift; both
operands of every `quo/rem`; the lengths of every `MakeSlice`; the outcome of every `==`/`!=` on an
aggregate; the address and size of every memory access; call targets, returns, panics.
-/
namespace EdVerif.Ssa

/-! ## values -/

/-- run-time scalar -/
inductive Val
  | int (n : Nat)
  | bool (b : Bool)
  | nil
  | ptr (blk off : Nat)
  | slice (blk off len cap : Nat)
  | fn (f : Nat)
  /-- strings, errors, the `done` flag of a `sync.Once`: compared by identity only -/
  | opaque (n : Nat)
deriving DecidableEq, Repr, Inhabited

/-- class of a scalar -/
inductive SC | data | addr
deriving DecidableEq, Repr, Inhabited

def Val.cls : Val → SC
  | .int _ | .bool _ => .data
  | _ => .addr

/-- value of a register: the flat scalars of a Go value -/
abbrev RVal := List Val

/-! leak-event kinds that are not site kinds of the checker -/
namespace EK
def addr : Nm := nm! "addr"
def call : Nm := nm! "call"
def ret : Nm := nm! "ret"
def panic : Nm := nm! "panic"
def once : Nm := nm! "once"
end EK

structure Event where
  fn : Nm
  kind : Nm
  vals : List Val
deriving DecidableEq, Repr, Inhabited

/-! ## types -/

def Program.tyOf (p : Program) (id : Nat) : Ty := (p.types[id]?).getD .unsupported

def replicateFlat {α} : Nat → List α → List α
  | 0, _ => []
  | n + 1, xs => xs ++ replicateFlat n xs

/-- zero value of a type as flat scalars (`fuel` bounds the nesting depth) -/
def zerosF (p : Program) : Nat → Nat → Option (List Val)
  | 0, _ => none
  | fuel + 1, id =>
    match p.tyOf id with
    | .int _ _ => some [.int 0]
    | .bool => some [.bool false]
    | .ptr _ => some [.nil]
    | .func => some [.nil]
    | .iface => some [.nil]
    | .slice _ => some [.slice 0 0 0 0]
    | .str => some [.opaque 0]
    | .once => some [.opaque 0]
    | .arr n e => (zerosF p fuel e).map (replicateFlat n)
    | .struct fs => (fs.mapM (zerosF p fuel)).map List.flatten
    | .unsupported => none

def tyFuel : Nat := 12

def Program.zeros (p : Program) (id : Nat) : Option (List Val) := zerosF p tyFuel id

/-- number of scalars of a type -/
def sizeF (p : Program) : Nat → Nat → Option Nat
  | 0, _ => none
  | fuel + 1, id =>
    match p.tyOf id with
    | .arr n e => (sizeF p fuel e).map (n * ·)
    | .struct fs => (fs.mapM (sizeF p fuel)).map List.sum
    | .unsupported => none
    | _ => some 1

def Program.size (p : Program) (id : Nat) : Option Nat := sizeF p tyFuel id

/-- offset and size of component `i` of a struct / tuple with component types `fs` -/
def Program.fieldSpan (p : Program) (fs : List Nat) (i : Nat) : Option (Nat × Nat) := do
  let before ← (fs.take i).mapM p.size
  let t ← fs[i]?
  let sz ← p.size t
  pure (before.sum, sz)

/-! ## heap -/

structure Heap where
  blocks : Array (Array Val)
deriving Repr, Inhabited

def Heap.alloc (h : Heap) (vs : List Val) : Heap × Nat :=
  -- the size is read first so that `push` can update the (unshared) array in place
  let n := h.blocks.size
  (⟨h.blocks.push vs.toArray⟩, n)

def readCells (b : Array Val) (off : Nat) : Nat → Option (List Val)
  | 0 => some []
  | n + 1 => do
    let v ← b[off]?
    let vs ← readCells b (off + 1) n
    pure (v :: vs)

def Heap.read (h : Heap) (blk off n : Nat) : Option (List Val) := do
  let b ← h.blocks[blk]?
  readCells b off n

/-- write `vs` at `off`, each cell keeping its class -/
def writeCells (b : Array Val) (off : Nat) : List Val → Option (Array Val)
  | [] => some b
  | v :: vs =>
    match b[off]? with
    | some old => if old.cls = v.cls then writeCells (b.setIfInBounds off v) (off + 1) vs else none
    | none => none

def Heap.write (h : Heap) (blk off : Nat) (vs : List Val) : Option Heap :=
  match h.blocks[blk]? with
  | none => none
  | some b =>
    -- the block is taken out of the heap while it is updated, so that it is updated in place
    let blocks := h.blocks.setIfInBounds blk #[]
    match writeCells b off vs with
    | some b' => some ⟨blocks.setIfInBounds blk b'⟩
    | none => none

/-! ## integer arithmetic of Go -/

def wrap (w n : Nat) : Nat := n % 2 ^ w

def toInt (w n : Nat) : Int := if n < 2 ^ (w - 1) then (n : Int) else (n : Int) - (2 ^ w : Nat)

def ofInt (w : Nat) (i : Int) : Nat := (i % ((2 ^ w : Nat) : Int)).toNat

/-- value of an integer scalar as a mathematical integer, by signedness -/
def asInt (w : Nat) (signed : Bool) (n : Nat) : Int := if signed then toInt w n else (n : Int)

inductive ArithRes
  | ok (v : Val)
  | panic
  | bad

/-- binary operation on two integers of width `w` (shifts excluded) -/
def intBinop (op : BinOp) (w : Nat) (signed : Bool) (a b : Nat) : ArithRes :=
  match op with
  | .add => .ok (.int (wrap w (a + b)))
  | .sub => .ok (.int (wrap w (a + 2 ^ w - b % 2 ^ w)))
  | .mul => .ok (.int (wrap w (a * b)))
  | .quo =>
    if b = 0 then .panic
    else if signed then .ok (.int (ofInt w (Int.tdiv (toInt w a) (toInt w b))))
    else .ok (.int (a / b))
  | .rem =>
    if b = 0 then .panic
    else if signed then .ok (.int (ofInt w (Int.tmod (toInt w a) (toInt w b))))
    else .ok (.int (a % b))
  | .and => .ok (.int (a &&& b))
  | .or => .ok (.int (a ||| b))
  | .xor => .ok (.int (a ^^^ b))
  | .andnot => .ok (.int (a &&& ((2 ^ w - 1) ^^^ b)))
  | .eq => .ok (.bool (a == b))
  | .ne => .ok (.bool (a != b))
  | .lt => .ok (.bool (asInt w signed a < asInt w signed b))
  | .le => .ok (.bool (asInt w signed a ≤ asInt w signed b))
  | .gt => .ok (.bool (asInt w signed a > asInt w signed b))
  | .ge => .ok (.bool (asInt w signed a ≥ asInt w signed b))
  | .shl | .shr => .bad

/-- shift of `a : (w, signed)` by the count `c : (cw, csigned)` -/
def intShift (left : Bool) (w : Nat) (signed : Bool) (a : Nat) (cw : Nat) (csigned : Bool) (c : Nat) : ArithRes :=
  if csigned && decide (toInt cw c < 0) then .panic
  else if left then .ok (.int (if c ≥ w then 0 else wrap w (a <<< c)))
  else if signed then .ok (.int (ofInt w (toInt w a >>> c)))
  else .ok (.int (a >>> c))

def intKind? : VK → Option (Nat × Bool)
  | .int w s => some (w, s)
  | _ => none

/-! ## machine state -/

structure Frame where
  /-- index of the function in `prog.funcs` -/
  fi : Nat
  f : Func
  regs : Array RVal
  params : Array RVal
  /-- current block -/
  blk : Nat
  /-- instructions of the current block still to be executed -/
  rest : List Instr
  /-- register of the *caller* that receives the result -/
  dest : Option Nat
deriving Repr, Inhabited

structure State where
  heap : Heap
  stack : List Frame
deriving Repr, Inhabited

inductive Step
  /-- one instruction executed -/
  | cont (s : State) (ev : List Event)
  /-- the outermost frame returned -/
  | done (s : State) (rets : List RVal) (ev : List Event)
  /-- Go panic (explicit `panic`, or a run-time error: `code` says which) -/
  | panic (s : State) (code : Val) (ev : List Event)
  /-- the semantics does not cover this step (unsupported instruction, ill-typed access) -/
  | fault (why : String)
deriving Inhabited

/-! run-time error codes -/
namespace RT
def nilDeref : Val := .opaque 1
def index : Val := .opaque 2
def sliceBounds : Val := .opaque 3
def divide : Val := .opaque 4
def shift : Val := .opaque 5
def makeSlice : Val := .opaque 6
def sliceToArray : Val := .opaque 7
end RT

def regSet (a : Array RVal) (id : Nat) (v : RVal) : Array RVal :=
  if id < a.size then a.setIfInBounds id v else (a ++ Array.replicate (id - a.size) []).push v

def evalOpnd (p : Program) (fr : Frame) (ty : Nat) : Opnd → Option RVal
  | .reg id => fr.regs[id]?
  | .param i => fr.params[i]?
  | .freeVar _ => none
  | .cint _ v => some [.int v]
  | .cbool b => some [.bool b]
  | .cstr s => some [.opaque (Nm.ofString s + 16)]
  | .nil k => some [match k with | .slice => .slice 0 0 0 0 | _ => .nil]
  | .zero _ => p.zeros ty
  | .cother => none
  | .global g => some [.ptr (g + 1) 0]
  | .fn f => some [.fn f]
  | .extern _ => none
  | .builtin _ => none

def evalOpnds (p : Program) (fr : Frame) : List Opnd → List Nat → Option (List RVal)
  | [], _ => some []
  | o :: os, tys => do
    let v ← evalOpnd p fr (tys.headD 0) o
    let vs ← evalOpnds p fr os tys.tail
    pure (v :: vs)

/-- the leading `Phi`s of a block and the rest -/
def splitPhis : List Instr → List Instr × List Instr
  | [] => ([], [])
  | i :: is =>
    match i.op with
    | .phi _ => let r := splitPhis is; (i :: r.1, r.2)
    | _ => ([], i :: is)

def phiEdge (pred : Nat) : List (Nat × Opnd) → Option Opnd
  | [] => none
  | e :: es => if e.1 == pred then some e.2 else phiEdge pred es

/-- values of the phis on entry from `pred`, all read in the old register file -/
def evalPhis (p : Program) (fr : Frame) (pred : Nat) : List Instr → Option (List (Nat × RVal))
  | [] => some []
  | i :: is =>
    match i.op with
    | .phi es => do
      let o ← phiEdge pred es
      let v ← evalOpnd p fr i.ty o
      let r ← evalPhis p fr pred is
      pure ((i.id, v) :: r)
    | _ => none

def assignAll (regs : Array RVal) : List (Nat × RVal) → Array RVal
  | [] => regs
  | (id, v) :: r => assignAll (regSet regs id v) r

/-- transfer control of the top frame to block `t` -/
def jumpTo (p : Program) (fr : Frame) (t : Nat) : Option Frame := do
  let b ← fr.f.blocks[t]?
  let (phis, rest) := splitPhis b.instrs
  let vals ← evalPhis p fr fr.blk phis
  pure { fr with regs := assignAll fr.regs vals, blk := t, rest := rest }

def mkFrame (fi : Nat) (f : Func) (args : List RVal) (dest : Option Nat) : Option Frame := do
  let b ← f.blocks[0]?
  pure { fi := fi, f := f, regs := #[], params := args.toArray, blk := 0, rest := b.instrs, dest := dest }

/-! ## one step -/

def evName (fr : Frame) : Nm := fr.f.name

def ev (fr : Frame) (kind : Nm) (vals : List Val) : Event := ⟨fr.f.name, kind, vals⟩

/-- continue in the top frame with register `id := v` -/
def contReg (fr : Frame) (frs : List Frame) (id : Nat) (v : RVal) (heap : Heap) (evs : List Event) : Step :=
  .cont { heap := heap, stack := { fr with regs := regSet fr.regs id v } :: frs } evs

def contNoReg (fr : Frame) (frs : List Frame) (heap : Heap) (evs : List Event) : Step :=
  .cont { heap := heap, stack := fr :: frs } evs

def listEqClasses (a b : List Val) : Bool := a.map Val.cls == b.map Val.cls

/-- index operand as a natural number below `len`, or a panic -/
def checkIndex (w : Nat) (signed : Bool) (v len : Nat) : Option Nat :=
  let i := asInt w signed v
  if i < 0 then none else if i.toNat < len then some i.toNat else none

def intOfTy (p : Program) (ty : Nat) : Option (Nat × Bool) :=
  match p.tyOf ty with
  | .int w s => some (w, s)
  | _ => none

def stepBinop (p : Program) (hp : Heap) (fr : Frame) (frs : List Frame) (i : Instr) (op : BinOp) (xk : VK) (x y : Opnd) : Step :=
  match evalOpnd p fr (i.opTys.headD 0) x, evalOpnd p fr (i.opTys.tail.headD 0) y with
  | some vx, some vy =>
    match xk with
    | .int w sg =>
      match vx, vy with
      | [.int a], [.int b] =>
        match op with
        | .shl | .shr =>
          match intOfTy p (i.opTys.tail.headD 0) with
          | some (cw, cs) =>
            match intShift (op == .shl) w sg a cw cs b with
            | .ok v => contReg fr frs i.id [v] hp (if y.isConst then [] else [ev fr K.shiftCount [.int b]])
            | .panic => .panic ⟨hp, fr :: frs⟩ RT.shift [ev fr EK.panic [RT.shift]]
            | .bad => .fault "shift"
          | none => .fault "shift count type"
        | .quo | .rem =>
          match intBinop op w sg a b with
          | .ok v => contReg fr frs i.id [v] hp [ev fr K.divmod [.int a, .int b]]
          | .panic => .panic ⟨hp, fr :: frs⟩ RT.divide [ev fr K.divmod [.int a, .int b], ev fr EK.panic [RT.divide]]
          | .bad => .fault "quo/rem"
        | _ =>
          match intBinop op w sg a b with
          | .ok v => contReg fr frs i.id [v] hp []
          | _ => .fault "int binop"
      | _, _ => .fault "int binop operands"
    | .bool =>
      match vx, vy, op with
      | [.bool a], [.bool b], .eq => contReg fr frs i.id [.bool (a == b)] hp []
      | [.bool a], [.bool b], .ne => contReg fr frs i.id [.bool (a != b)] hp []
      | [.bool a], [.bool b], .and => contReg fr frs i.id [.bool (a && b)] hp []
      | [.bool a], [.bool b], .or => contReg fr frs i.id [.bool (a || b)] hp []
      | _, _, _ => .fault "bool binop"
    | .agg _ =>
      match op with
      | .eq => let r := decide (vx = vy); contReg fr frs i.id [.bool r] hp [ev fr K.aggCompare [.bool r]]
      | .ne => let r := !decide (vx = vy); contReg fr frs i.id [.bool r] hp [ev fr K.aggCompare [.bool r]]
      | _ => .fault "aggregate binop"
    | .ptr | .slice | .func | .iface =>
      match vx, vy, op with
      | [a], [b], .eq => contReg fr frs i.id [.bool (decide (a = b))] hp []
      | [a], [b], .ne => contReg fr frs i.id [.bool (!decide (a = b))] hp []
      | _, _, _ => .fault "pointer binop"
    | _ => .fault "binop kind"
  | _, _ => .fault "binop operand"

def stepUnop (p : Program) (hp : Heap) (fr : Frame) (frs : List Frame) (i : Instr) (op : UnOp) (x : Opnd) : Step :=
  match evalOpnd p fr (i.opTys.headD 0) x, op, i.k with
  | some [.int a], .not, .int w _ => contReg fr frs i.id [.int ((2 ^ w - 1) ^^^ a)] hp []
  | some [.int a], .neg, .int w _ => contReg fr frs i.id [.int (wrap w (2 ^ w - a % 2 ^ w))] hp []
  | some [.bool a], .lnot, .bool => contReg fr frs i.id [.bool (!a)] hp []
  | _, _, _ => .fault "unop"

def stepConvert (p : Program) (hp : Heap) (fr : Frame) (frs : List Frame) (i : Instr) (fromK : VK) (x : Opnd) : Step :=
  match evalOpnd p fr (i.opTys.headD 0) x, fromK, i.k with
  | some [.int a], .int w1 s1, .int w2 _ =>
    contReg fr frs i.id [.int (if s1 then ofInt w2 (toInt w1 a) else wrap w2 a)] hp []
  | _, _, _ => .fault "convert"

def stepLoad (p : Program) (hp : Heap) (fr : Frame) (frs : List Frame) (i : Instr) (x : Opnd) : Step :=
  match evalOpnd p fr (i.opTys.headD 0) x with
  | some [.ptr b o] =>
    match p.zeros i.ty with
    | some zs =>
      match hp.read b o zs.length with
      | some vs =>
        if listEqClasses vs zs then contReg fr frs i.id vs hp [ev fr EK.addr [.ptr b o, .int zs.length]]
        else .fault "load: cell classes do not match the static type"
      | none => .fault "load: out of block"
    | none => .fault "load: type"
  | some [.nil] => .panic ⟨hp, fr :: frs⟩ RT.nilDeref [ev fr EK.panic [RT.nilDeref]]
  | _ => .fault "load: address"

def stepStore (p : Program) (hp : Heap) (fr : Frame) (frs : List Frame) (i : Instr) (a v : Opnd) : Step :=
  match evalOpnd p fr (i.opTys.headD 0) a, evalOpnd p fr (i.opTys.tail.headD 0) v with
  | some [.ptr b o], some vs =>
    match hp.write b o vs with
    | some h => contNoReg fr frs h [ev fr EK.addr [.ptr b o, .int vs.length]]
    | none => .fault "store: out of block or class change"
  | some [.nil], some _ => .panic ⟨hp, fr :: frs⟩ RT.nilDeref [ev fr EK.panic [RT.nilDeref]]
  | _, _ => .fault "store: operands"

def stepFieldAddr (p : Program) (hp : Heap) (fr : Frame) (frs : List Frame) (i : Instr) (x : Opnd) (fld : Nat) : Step :=
  match evalOpnd p fr (i.opTys.headD 0) x, p.tyOf (i.opTys.headD 0) with
  | some [.ptr b o], .ptr st =>
    match p.tyOf st with
    | .struct fs =>
      match p.fieldSpan fs fld with
      | some (off, _) => contReg fr frs i.id [.ptr b (o + off)] hp []
      | none => .fault "fieldAddr: field"
    | _ => .fault "fieldAddr: not a struct"
  | some [.nil], _ => .panic ⟨hp, fr :: frs⟩ RT.nilDeref [ev fr EK.panic [RT.nilDeref]]
  | _, _ => .fault "fieldAddr"

def stepField (p : Program) (hp : Heap) (fr : Frame) (frs : List Frame) (i : Instr) (x : Opnd) (fld : Nat) : Step :=
  match evalOpnd p fr (i.opTys.headD 0) x, p.tyOf (i.opTys.headD 0) with
  | some vs, .struct fs =>
    match p.fieldSpan fs fld with
    | some (off, sz) => if off + sz ≤ vs.length then contReg fr frs i.id ((vs.drop off).take sz) hp [] else .fault "field: short value"
    | none => .fault "field: field"
  | _, _ => .fault "field"

def stepExtract (p : Program) (hp : Heap) (fr : Frame) (frs : List Frame) (i : Instr) (x : Opnd) (idx : Nat) : Step :=
  stepField p hp fr frs i x idx

def stepIndexAddr (p : Program) (hp : Heap) (fr : Frame) (frs : List Frame) (i : Instr) (x ix : Opnd) : Step :=
  match evalOpnd p fr (i.opTys.headD 0) x, evalOpnd p fr (i.opTys.tail.headD 0) ix, intOfTy p (i.opTys.tail.headD 0) with
  | some [xv], some [.int n], some (w, sg) =>
    match xv, p.tyOf (i.opTys.headD 0) with
    | .ptr b o, .ptr aty =>
      match p.tyOf aty with
      | .arr len e =>
        match p.size e, checkIndex w sg n len with
        | some sz, some k => contReg fr frs i.id [.ptr b (o + k * sz)] hp [ev fr K.index [.int n]]
        | some _, none => .panic ⟨hp, fr :: frs⟩ RT.index [ev fr K.index [.int n], ev fr EK.panic [RT.index]]
        | none, _ => .fault "indexAddr: element type"
      | _ => .fault "indexAddr: not an array"
    | .slice b o len _, .slice e =>
      match p.size e, checkIndex w sg n len with
      | some sz, some k => contReg fr frs i.id [.ptr b (o + k * sz)] hp [ev fr K.index [.int n]]
      | some _, none => .panic ⟨hp, fr :: frs⟩ RT.index [ev fr K.index [.int n], ev fr EK.panic [RT.index]]
      | none, _ => .fault "indexAddr: element type"
    | .nil, .ptr _ => .panic ⟨hp, fr :: frs⟩ RT.nilDeref [ev fr EK.panic [RT.nilDeref]]
    | _, _ => .fault "indexAddr: base"
  | _, _, _ => .fault "indexAddr"

def stepIndex (p : Program) (hp : Heap) (fr : Frame) (frs : List Frame) (i : Instr) (x ix : Opnd) : Step :=
  match evalOpnd p fr (i.opTys.headD 0) x, evalOpnd p fr (i.opTys.tail.headD 0) ix, intOfTy p (i.opTys.tail.headD 0),
        p.tyOf (i.opTys.headD 0) with
  | some vs, some [.int n], some (w, sg), .arr len e =>
    match p.size e, checkIndex w sg n len with
    | some sz, some k =>
      if (k + 1) * sz ≤ vs.length then contReg fr frs i.id ((vs.drop (k * sz)).take sz) hp [ev fr K.index [.int n]]
      else .fault "index: short value"
    | some _, none => .panic ⟨hp, fr :: frs⟩ RT.index [ev fr K.index [.int n], ev fr EK.panic [RT.index]]
    | none, _ => .fault "index: element type"
  | _, _, _, _ => .fault "index"

/-- optional bound operand: `(value as Nat, leaked scalars)`; negative = `none` in the first component -/
def evalBound (p : Program) (fr : Frame) (ty : Nat) (dflt : Nat) : Option Opnd → Option (Option Nat × List Val)
  | none => some (some dflt, [])
  | some o =>
    match evalOpnd p fr ty o, intOfTy p ty with
    | some [.int n], some (w, sg) =>
      let i := asInt w sg n
      some (if i < 0 then none else some i.toNat, [.int n])
    | _, _ => none

def stepSlice (p : Program) (hp : Heap) (fr : Frame) (frs : List Frame) (i : Instr) (x : Opnd) (lo hi mx : Option Opnd) : Step :=
  -- operand types: x, then the present bounds in order
  let tys := i.opTys.tail
  let tLo := tys.headD 0
  let tys2 := if lo.isSome then tys.tail else tys
  let tHi := tys2.headD 0
  let tys3 := if hi.isSome then tys2.tail else tys2
  let tMx := tys3.headD 0
  let go (b o len cap esz : Nat) : Step :=
    match evalBound p fr tLo 0 lo, evalBound p fr tHi len hi, evalBound p fr tMx cap mx with
    | some (l, e1), some (h, e2), some (m, e3) =>
      let evs := [ev fr K.sliceBound (e1 ++ e2 ++ e3)]
      match l, h, m with
      | some l, some h, some m =>
        if l ≤ h && h ≤ m && m ≤ cap then contReg fr frs i.id [.slice b (o + l * esz) (h - l) (m - l)] hp evs
        else .panic ⟨hp, fr :: frs⟩ RT.sliceBounds (evs ++ [ev fr EK.panic [RT.sliceBounds]])
      | _, _, _ => .panic ⟨hp, fr :: frs⟩ RT.sliceBounds (evs ++ [ev fr EK.panic [RT.sliceBounds]])
    | _, _, _ => .fault "slice: bounds"
  match evalOpnd p fr (i.opTys.headD 0) x, p.tyOf (i.opTys.headD 0) with
  | some [.ptr b o], .ptr aty =>
    match p.tyOf aty with
    | .arr n e => match p.size e with | some sz => go b o n n sz | none => .fault "slice: element type"
    | _ => .fault "slice: not an array"
  | some [.slice b o len cap], .slice e =>
    match p.size e with | some sz => go b o len cap sz | none => .fault "slice: element type"
  | some [.nil], .ptr _ => .panic ⟨hp, fr :: frs⟩ RT.nilDeref [ev fr EK.panic [RT.nilDeref]]
  | _, _ => .fault "slice"

def maxAlloc : Nat := 2 ^ 24

def stepMakeSlice (p : Program) (hp : Heap) (fr : Frame) (frs : List Frame) (i : Instr) (l c : Opnd) : Step :=
  match evalOpnd p fr (i.opTys.headD 0) l, evalOpnd p fr (i.opTys.tail.headD 0) c, intOfTy p (i.opTys.headD 0), p.tyOf i.ty with
  | some [.int ln], some [.int cp], some (w, sg), .slice e =>
    let evs := [ev fr K.makeSlice [.int ln, .int cp]]
    match p.zeros e with
    | some zs =>
      let li := asInt w sg ln
      let ci := asInt w sg cp
      if li < 0 || ci < li then .panic ⟨hp, fr :: frs⟩ RT.makeSlice (evs ++ [ev fr EK.panic [RT.makeSlice]])
      else if ci.toNat * zs.length > maxAlloc then .fault "makeSlice: too large"
      else
        let (h, b) := hp.alloc (replicateFlat ci.toNat zs)
        contReg fr frs i.id [.slice b 0 li.toNat ci.toNat] h evs
    | none => .fault "makeSlice: element type"
  | _, _, _, _ => .fault "makeSlice"

def stepSliceToArrayPointer (p : Program) (hp : Heap) (fr : Frame) (frs : List Frame) (i : Instr) (x : Opnd) : Step :=
  match evalOpnd p fr (i.opTys.headD 0) x, p.tyOf i.ty with
  | some [.slice b o len _], .ptr aty =>
    match p.tyOf aty with
    | .arr n _ =>
      if n ≤ len then contReg fr frs i.id [.ptr b o] hp [ev fr K.sliceBound [.int len]]
      else .panic ⟨hp, fr :: frs⟩ RT.sliceToArray [ev fr K.sliceBound [.int len], ev fr EK.panic [RT.sliceToArray]]
    | _ => .fault "sliceToArrayPointer: not an array"
  | _, _ => .fault "sliceToArrayPointer"

def stepAlloc (p : Program) (hp : Heap) (fr : Frame) (frs : List Frame) (i : Instr) : Step :=
  match p.tyOf i.ty with
  | .ptr e =>
    match p.zeros e with
    | some zs =>
      if zs.length > maxAlloc then .fault "alloc: too large" else
      let (h, b) := hp.alloc zs
      contReg fr frs i.id [.ptr b 0] h []
    | none => .fault "alloc: type"
  | _ => .fault "alloc"

def stepMakeInterface (p : Program) (hp : Heap) (fr : Frame) (frs : List Frame) (i : Instr) (x : Opnd) : Step :=
  match evalOpnd p fr (i.opTys.headD 0) x with
  | some [v] => if v.cls = .addr then contReg fr frs i.id [v] hp [] else .fault "makeInterface: data value"
  | _ => .fault "makeInterface"

/-- the value a `Return` hands to the caller: one result as it is, several concatenated (a tuple) -/
def retValue (vs : List RVal) : RVal := vs.flatten

def stepRet (p : Program) (hp : Heap) (fr : Frame) (frs : List Frame) (vals : List Opnd) : Step :=
  match evalOpnds p fr vals fr.f.resultTys with
  | some vs =>
    let e := [ev fr EK.ret []]
    match frs with
    | [] => .done { heap := hp, stack := [] } vs e
    | caller :: rest =>
      match fr.dest with
      | some id => .cont { heap := hp, stack := { caller with regs := regSet caller.regs id (retValue vs) } :: rest } e
      | none => .cont { heap := hp, stack := caller :: rest } e
  | none => .fault "return: operands"

/-! ### modelled externals -/

def bytesToNat : List Val → Option Nat
  | [] => some 0
  | .int b :: r => (bytesToNat r).map (fun x => b + 256 * x)
  | _ => none

def natToBytes : Nat → Nat → List Val
  | 0, _ => []
  | n + 1, x => .int (x % 256) :: natToBytes n (x / 256)

def stepExtern (p : Program) (hp : Heap) (fr : Frame) (frs : List Frame) (i : Instr) (name : Nm) (args : List RVal) : Step :=
  if name == Ext.mul64 then
    match args with
    | [[.int x], [.int y]] => contReg fr frs i.id [.int (x * y / 2 ^ 64), .int (x * y % 2 ^ 64)] hp []
    | _ => .fault "Mul64"
  else if name == Ext.add64 then
    match args with
    | [[.int x], [.int y], [.int c]] => contReg fr frs i.id [.int ((x + y + c) % 2 ^ 64), .int ((x + y + c) / 2 ^ 64)] hp []
    | _ => .fault "Add64"
  else if name == Ext.sub64 then
    match args with
    | [[.int x], [.int y], [.int b]] =>
      contReg fr frs i.id [.int ((x + 2 ^ 65 - y - b) % 2 ^ 64), .int (if x < y + b then 1 else 0)] hp []
    | _ => .fault "Sub64"
  else if name == Ext.ctByteEq then
    match args with
    | [[.int x], [.int y]] => contReg fr frs i.id [.int (if x = y then 1 else 0)] hp []
    | _ => .fault "ConstantTimeByteEq"
  else if name == Ext.ctCompare then
    match args with
    | [[.slice b1 o1 l1 _], [.slice b2 o2 l2 _]] =>
      if l1 ≠ l2 then contReg fr frs i.id [.int 0] hp [ev fr K.sliceBound [.int l1, .int l2]]
      else
        match hp.read b1 o1 l1, hp.read b2 o2 l2 with
        | some x, some y =>
          if x.all (·.cls = .data) && y.all (·.cls = .data) then
            contReg fr frs i.id [.int (if x = y then 1 else 0)] hp
              [ev fr K.sliceBound [.int l1, .int l2], ev fr EK.addr [.ptr b1 o1, .int l1], ev fr EK.addr [.ptr b2 o2, .int l2]]
          else .fault "ConstantTimeCompare: not bytes"
        | _, _ => .fault "ConstantTimeCompare: out of block"
    | _ => .fault "ConstantTimeCompare"
  else if name == Ext.leUint64 then
    match args with
    | [_, [.slice b o l _]] =>
      if l < 8 then .panic ⟨hp, fr :: frs⟩ RT.index [ev fr K.sliceBound [.int l], ev fr EK.panic [RT.index]]
      else
        match (hp.read b o 8).bind bytesToNat with
        | some v => contReg fr frs i.id [.int v] hp [ev fr K.sliceBound [.int l], ev fr EK.addr [.ptr b o, .int 8]]
        | none => .fault "Uint64: not bytes"
    | _ => .fault "Uint64"
  else if name == Ext.lePutUint64 then
    match args with
    | [_, [.slice b o l _], [.int v]] =>
      if l < 8 then .panic ⟨hp, fr :: frs⟩ RT.index [ev fr K.sliceBound [.int l], ev fr EK.panic [RT.index]]
      else
        match hp.write b o (natToBytes 8 v) with
        | some h => contReg fr frs i.id [] h [ev fr K.sliceBound [.int l], ev fr EK.addr [.ptr b o, .int 8]]
        | none => .fault "PutUint64: not bytes"
    | _ => .fault "PutUint64"
  else if name == Ext.errorsNew then
    match args with
    | [[.opaque n]] => contReg fr frs i.id [.opaque n] hp []
    | _ => .fault "errors.New"
  else if name == Ext.onceDo then
    match args with
    | [[.ptr b o], [.fn g]] =>
      match hp.read b o 1 with
      | some [.opaque 0] =>
        match hp.write b o [.opaque 1], p.funcs[g]? with
        | some h, some gf =>
          match mkFrame g gf [] none with
          | some nf => .cont { heap := h, stack := nf :: { fr with regs := regSet fr.regs i.id [] } :: frs }
                          [ev fr EK.once [.opaque 0], ev fr EK.call [.fn g]]
          | none => .fault "Once.Do: closure"
        | _, _ => .fault "Once.Do: closure"
      | some [.opaque _] => contReg fr frs i.id [] hp [ev fr EK.once [.opaque 1]]
      | _ => .fault "Once.Do: flag"
    | _ => .fault "Once.Do"
  else if Nm.isSuffix (nm! ".init") name then
    -- initialisers of imported packages: no effect on the state modelled here
    contReg fr frs i.id [] hp []
  else .fault s!"external function {Nm.toString name}"

def stepBuiltin (hp : Heap) (fr : Frame) (frs : List Frame) (i : Instr) (name : Nm) (args : List RVal) : Step :=
  if name == Ext.len then
    match args with
    | [[.slice _ _ l _]] => contReg fr frs i.id [.int l] hp []
    | _ => .fault "len"
  else if name == Ext.cap then
    match args with
    | [[.slice _ _ _ c]] => contReg fr frs i.id [.int c] hp []
    | _ => .fault "cap"
  else if name == Ext.copy then
    match args with
    | [[.slice b1 o1 l1 _], [.slice b2 o2 l2 _]] =>
      let n := min l1 l2
      match hp.read b2 o2 n with
      | some vs =>
        if vs.all (·.cls = .data) then
          match hp.write b1 o1 vs with
          | some h => contReg fr frs i.id [.int n] h
                        [ev fr K.sliceBound [.int l1, .int l2], ev fr EK.addr [.ptr b2 o2, .int n], ev fr EK.addr [.ptr b1 o1, .int n]]
          | none => .fault "copy: destination"
        else .fault "copy: not bytes"
      | none => .fault "copy: source"
    | _ => .fault "copy"
  else .fault s!"builtin {Nm.toString name}"

def stepCall (p : Program) (hp : Heap) (fr : Frame) (frs : List Frame) (i : Instr) (callee : Callee) (args : List Opnd) : Step :=
  match evalOpnds p fr args i.opTys with
  | some vs =>
    match callee with
    | .fn g =>
      match p.funcs[g]? with
      | some gf =>
        match mkFrame g gf vs (some i.id) with
        | some nf => .cont { heap := hp, stack := nf :: fr :: frs } [ev fr EK.call [.fn g]]
        | none => .fault "call: no entry block"
      | none => .fault "call: no such function"
    | .extern n => stepExtern p hp fr frs i n vs
    | .builtin n => stepBuiltin hp fr frs i n vs
    | .dynamic _ => .fault "dynamic call"
    | .invoke _ _ => .fault "interface call"
  | none => .fault "call: operands"

/-- execute the next instruction of the top frame -/
def step (p : Program) (s : State) : Step :=
  match s with
  | ⟨_, []⟩ => .fault "empty stack"
  | ⟨hp, fr0 :: frs⟩ =>
    match fr0.rest with
    | [] => .fault "fell off a block"
    | i :: rest =>
      let fr := { fr0 with rest := rest }
      match i.op with
      | .alloc _ _ => stepAlloc p hp fr frs i
      | .binop op xk x y => stepBinop p hp fr frs i op xk x y
      | .unop op x => stepUnop p hp fr frs i op x
      | .load x => stepLoad p hp fr frs i x
      | .call c args => stepCall p hp fr frs i c args
      | .changeType x =>
        match evalOpnd p fr (i.opTys.headD 0) x with
        | some v => contReg fr frs i.id v hp []
        | none => .fault "changeType"
      | .convert fk x => stepConvert p hp fr frs i fk x
      | .sliceToArrayPointer x => stepSliceToArrayPointer p hp fr frs i x
      | .extract x idx => stepExtract p hp fr frs i x idx
      | .fieldAddr x f _ => stepFieldAddr p hp fr frs i x f
      | .field x f _ => stepField p hp fr frs i x f
      | .indexAddr _ x ix => stepIndexAddr p hp fr frs i x ix
      | .index x ix => stepIndex p hp fr frs i x ix
      | .lookup _ _ => .fault "lookup"
      | .slice _ x lo hi mx => stepSlice p hp fr frs i x lo hi mx
      | .makeSlice l c => stepMakeSlice p hp fr frs i l c
      | .makeClosure _ _ => .fault "makeClosure"
      | .makeInterface x => stepMakeInterface p hp fr frs i x
      | .phi _ => .fault "phi outside block entry"
      | .store _ a v => stepStore p hp fr frs i a v
      | .if c t f =>
        match evalOpnd p fr (i.opTys.headD 0) c with
        | some [.bool b] =>
          match jumpTo p fr (if b then t else f) with
          | some fr' => .cont { heap := hp, stack := fr' :: frs } [ev fr K.branch [.bool b]]
          | none => .fault "if: target"
        | _ => .fault "if: condition"
      | .jump t =>
        match jumpTo p fr t with
        | some fr' => .cont { heap := hp, stack := fr' :: frs } []
        | none => .fault "jump: target"
      | .ret vals => stepRet p hp fr frs vals
      | .panic x =>
        match evalOpnd p fr (i.opTys.headD 0) x with
        | some [v] => .panic ⟨hp, fr :: frs⟩ v [ev fr EK.panic [v]]
        | _ => .fault "panic: operand"
      | .unsupported _ _ => .fault "unsupported instruction"

/-! ## running -/

inductive Outcome
  | done (s : State) (rets : List RVal)
  | panic (s : State) (code : Val)
  | fault (why : String)
  | outOfFuel (s : State)
deriving Inhabited

/-- run for at most `fuel` steps, collecting the leakage trace (most recent event first) -/
def runTrace (p : Program) : Nat → State → List Event → Outcome × List Event
  | 0, s, tr => (.outOfFuel s, tr)
  | fuel + 1, s, tr =>
    match step p s with
    | .cont s' ev => runTrace p fuel s' (ev.reverse ++ tr)
    | .done s' rets ev => (.done s' rets, ev.reverse ++ tr)
    | .panic s' c ev => (.panic s' c, ev.reverse ++ tr)
    | .fault why => (.fault why, tr)

/-- the same without the trace (what the correspondence driver uses) -/
def run (p : Program) : Nat → State → Outcome
  | 0, s => .outOfFuel s
  | fuel + 1, s =>
    match step p s with
    | .cont s' _ => run p fuel s'
    | .done s' rets _ => .done s' rets
    | .panic s' c _ => .panic s' c
    | .fault why => .fault why

/-- the heap before any code ran: block 0 is reserved (empty), block `g + 1` holds global `g` -/
def initHeap (p : Program) : Option Heap :=
  let rec go : List Global → Array (Array Val) → Option (Array (Array Val))
    | [], acc => some acc
    | g :: gs, acc =>
      match p.zeros g.tyId with
      | some zs => go gs (acc.push zs.toArray)
      | none => none
  (go p.globals #[#[]]).map Heap.mk

/-- call function `fi` with `args` on `heap` -/
def callState (p : Program) (heap : Heap) (fi : Nat) (args : List RVal) : Option State := do
  let f ← p.funcs[fi]?
  let fr ← mkFrame fi f args none
  pure { heap := heap, stack := [fr] }

end EdVerif.Ssa
