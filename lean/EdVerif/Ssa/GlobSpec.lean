import EdVerif.Ssa.ProvSpec
/-!
# C18 (F1–F3) / C19 — what the globals-discipline checker is supposed to guarantee (statement only)

`globalsDiscipline` (`Prov.lean`) is evaluated by the kernel on the regenerated SSA.  This file states, against the
execution semantics of `Sem.lean`: API calls never modify a package-level variable — except that the lazily built
tables are filled, once, behind their `sync.Once` flag.  Proof: `EdVerif/Ssa/GlobSound/*.lean`.

`globalsOkSimple` also contains decidable *side conditions* on the program (`GlobSide.*`, reasons in
`EdVerif/Ssa/GlobSound/STATUS.md`), and the statement assumes that the heap contains the blocks of the package-level
variables (`HeapHasGlobals`): without either the statement is false.
-/
namespace EdVerif.Ssa

/-- the resolved once-tables of the policy -/
def onceTablesOf (prog : Program) (pol : GlobalsPolicy) : List OnceTable := someTables (resolveOnce prog pol pol.onceTables)

/-! ## side conditions

Decidable conditions on the program that the soundness proof (`EdVerif/Ssa/GlobSound`) relies on beyond what
`globalsSelector` checks.  Each is listed with its reason (a counterexample) in `EdVerif/Ssa/GlobSound/STATUS.md`. -/
namespace GlobSide

/-- the label bits of the globals of the once-tables -/
def tablesMask : List OnceTable → Prov
  | [] => 0
  | t :: ts => Prov.global t.g ||| tablesMask ts

/-- function number `fi` is the closure of a once-table -/
def isClosure (tables : List OnceTable) (fi : Nat) : Bool := tables.any (fun t => t.clo == fi)

/-- every `(*sync.Once).Do` has the shape `Do(a0, closure of a once-table)` (the closure as a constant), and the flag
    cell `a0` lies in the variable of a once-table (or in fresh memory) -/
def sInstr (c : PCtx) (tables : List OnceTable) (i : Instr) : List Nm :=
  match i.op with
  | .call (.extern e) args =>
    if e == Ext.onceDo then
      (match args with
       | [a0, .fn clo] =>
         if isClosure tables clo && Prov.subset (Prov.minus (c.lab a0).roots Prov.fresh) (tablesMask tables) then []
         else [K.malformed]
       | _ => [K.malformed])
    else []
  | _ => []

/-- exported functions and once-closures are not the package initialiser -/
def fnOk (tables : List OnceTable) (fi : Nat) (f : Func) : Bool :=
  !((f.exported || isClosure tables fi) && isPkgInit f)

def sideSelector (prog : Program) (hints : List FuncHints) (pol : GlobalsPolicy) : Selector :=
  let tables := onceTablesOf prog pol
  fun fi f h =>
    some { fnKinds := if fnOk tables fi f then [] else [K.malformed],
           instr := fun _ _ i => sInstr { prog := prog, hints := hints, f := f, h := h } tables i }

end GlobSide

def globalsOkSimple (prog : Program) (hints : List FuncHints) (pol : GlobalsPolicy) : Bool :=
  allClean (globalsSelector prog hints pol) prog.funcs hints 0 && (globalsProgramIssues prog pol).isEmpty &&
  -- side conditions: `Prov.globalMask` covers the label bits of 44 globals only
  decide (prog.globals.length ≤ 44) &&
  allClean (GlobSide.sideSelector prog hints pol) prog.funcs hints 0

/-- no argument points into the block of a package-level variable (callers cannot obtain such pointers: no exported
    function returns one — `fresh_returns_sound` / the receiver rule) -/
def ArgsAvoidGlobals (prog : Program) (args : List RVal) : Prop :=
  ∀ a ∈ args, ∀ v ∈ a, match v with
    | .ptr b _ => isGlobalBlock prog b = false
    | .slice b _ _ _ => isGlobalBlock prog b = false
    | _ => True

/-- the heap contains the blocks `1 … globals.length` of the package-level variables (true of `initHeap` and of
    every heap reached from it: blocks are never removed).  Without it a fresh allocation may land on the index
    `g + 1` of a variable. -/
def HeapHasGlobals (prog : Program) (heap : Heap) : Prop := prog.globals.length < heap.blocks.size

/-- **C18 F1–F3 / C19 (no hidden state)**: at every point of the execution of an exported function (any fuel; return,
    panic or still running), every package-level variable that is not one of the policy's once-tables has exactly the
    content it had before the call. -/
def GlobalsStatement : Prop :=
  ∀ (prog : Program) (hints : List FuncHints) (pol : GlobalsPolicy),
    provOkSimple prog hints = true → globalsOkSimple prog hints pol = true →
    ∀ (fi : Nat) (f : Func), prog.funcs[fi]? = some f → f.exported = true →
    ∀ (heap : Heap) (args : List RVal) (s : State), ArgsOk prog f args → ArgsAvoidGlobals prog args →
      HeapHasGlobals prog heap →
      callState prog heap fi args = some s →
    ∀ fuel h', (run prog fuel s).heap? = some h' →
      ∀ g, g < prog.globals.length → (∀ t ∈ onceTablesOf prog pol, t.g ≠ g) →
        h'.blocks[g + 1]? = heap.blocks[g + 1]?

end EdVerif.Ssa
