import EdVerif.Ssa.GuardSound.Exec
import EdVerif.Gen.Ssa
/-!
# The guard function of the regenerated program: `checkInitialized` (function 93) satisfies `GuardFnSpec`

```go
func checkInitialized(points ...*Point) {
	for _, p := range points {
		if p.x == (field.Element{}) && p.y == (field.Element{}) { panic("edwards25519: use of uninitialized Point") }
	}
}
```
By symbolic execution of its SSA (`EdVerif.Gen.Ssa.f93`): block 0 `len`, block 1 loop head (`i+1 < len`), blocks 2 / 5 the two
aggregate comparisons, block 4 the panic, block 3 the return.
* no instruction stores or calls: memory that existed before the call never changes (`calm_heap`);
* with an uninitialized point at index `i0 < len < 2^63`: the iterations `k < i0` are followed generically (every
  instruction of blocks 2, 4, 5 is quiet and leaves registers 0 and 3 alone), iteration `i0` is executed exactly and ends
  in the `Panic`; block 3 is never entered.
-/
namespace EdVerif.Ssa.CI

open EdVerif.Ssa EdVerif.Gen.Ssa EdVerif.Ssa.PS EdVerif.Ssa.ES EdVerif.Ssa.GS EdVerif.Ssa.GuardSide

theorem hf93 : prog.funcs[93]? = some f93 := rfl

/-- instruction number `k` of `checkInitialized` -/
def ins (k : Nat) : Instr := f93.instrs.getD k default

/-- a frame of `checkInitialized` -/
def F (fi : Nat) (d : Option Nat) (regs : Array RVal) (a : RVal) (blk : Nat) (rest : List Instr) : Frame :=
  ⟨fi, f93, regs, #[a], blk, rest, d⟩

theorem f93_calm : ∀ bl ∈ f93.blocks, ∀ i ∈ bl.instrs, calm i = true := by decide

theorem callState_93 (heap : Heap) (a : RVal) :
    callState prog heap 93 [a] = some ⟨heap, [F 93 none #[] a 0 [ins 0, ins 1]]⟩ := rfl

/-! ## part 1: memory that existed before the call never changes -/

theorem heap_unchanged (heap : Heap) (a : RVal) (fuel : Nat) (h' : Heap)
    (h : (run prog fuel ⟨heap, [F 93 none #[] a 0 [ins 0, ins 1]]⟩).heap? = some h') : HeapExt heap h' := by
  refine calm_heap (P := prog) (f := f93) f93_calm fuel _ heap h' rfl ?_ (HeapExt.refl _) h
  intro i hi
  exact f93_calm _ (List.mem_of_getElem? (show f93.blocks[0]? = some ⟨[ins 0, ins 1], [], [1]⟩ from rfl)) i hi

/-! ## part 2 -/

theorem stepCall_builtin {P : Program} {hp : Heap} {fr : Frame} {frs : List Frame} {i : Instr} {n : Nm} {args : List Opnd} {vs : List RVal}
    (hvs : evalOpnds P fr args i.opTys = some vs) :
    stepCall P hp fr frs i (.builtin n) args = stepBuiltin hp fr frs i n vs := by
  unfold stepCall; simp only [hvs]

theorem checkIndex_ok {v len : Nat} (h1 : v < len) (h2 : v < 2 ^ 63) : checkIndex 64 true v len = some v := by
  unfold checkIndex asInt toInt
  have : v < 2 ^ (64 - 1) := h2
  simp [this, h1]

theorem asInt_lt {k len : Nat} (hk : k < 2 ^ 63) (hl : len < 2 ^ 63) : (asInt 64 true k < asInt 64 true len) ↔ k < len := by
  unfold asInt toInt
  have h1 : k < 2 ^ (64 - 1) := hk
  have h2 : len < 2 ^ (64 - 1) := hl
  simp [h1, h2]

section
variable {heap : Heap} {b o len cap i0 pb po : Nat}

/-- the situation: an uninitialized point at index `i0` of the argument slice -/
structure Setup (heap : Heap) (b o len cap i0 pb po : Nat) : Prop where
  hlen : len < 2 ^ 63
  hi0 : i0 < len
  hcell : heap.cell? b (o + i0) = some (.ptr pb po)
  hun : UninitAt heap pb po

local notation "A" => ([Val.slice b o len cap] : RVal)

/-! ### single instructions -/

theorem s0 (fi : Nat) (d : Option Nat) (regs : Array RVal) (hp : Heap) (rest : List Instr) :
    ∃ ev, step prog ⟨hp, [F fi d regs A 0 (ins 0 :: rest)]⟩ = .cont ⟨hp, [F fi d (regSet regs 0 [.int len]) A 0 rest]⟩ ev := by
  refine ⟨[], (step_call_eq (rest := rest) rfl (show (ins 0).op = .call (.builtin Ext.len) [.param 0] from rfl)).trans ?_⟩
  rw [stepCall_builtin (vs := [A]) rfl]
  exact stepBuiltin_len b o len cap

theorem s1 (fi : Nat) (d : Option Nat) (regs : Array RVal) (hp : Heap) (rest : List Instr) :
    ∃ ev, step prog ⟨hp, [F fi d regs A 0 (ins 1 :: rest)]⟩ =
      .cont ⟨hp, [F fi d (regSet regs 2 [.int 18446744073709551615]) A 1 [ins 3, ins 4, ins 5]]⟩ ev :=
  ⟨_, step_jump_eq (rest := rest) rfl (show (ins 1).op = .jump 1 from rfl)⟩

theorem s3 (fi : Nat) (d : Option Nat) {regs : Array RVal} (hp : Heap) (rest : List Instr) {r2 : Nat} (h2 : regs[2]? = some [.int r2]) :
    ∃ ev, step prog ⟨hp, [F fi d regs A 1 (ins 3 :: rest)]⟩ = .cont ⟨hp, [F fi d (regSet regs 3 [.int (wrap 64 (r2 + 1))]) A 1 rest]⟩ ev :=
  ⟨_, (step_binop_eq (rest := rest) rfl (show (ins 3).op = .binop .add i64 (.reg 2) (.cint i64 1) from rfl)).trans
    (stepBinop_add (by exact h2) rfl)⟩

theorem s4 (fi : Nat) (d : Option Nat) {regs : Array RVal} (hp : Heap) (rest : List Instr) {k : Nat} (h3 : regs[3]? = some [.int k]) (h0 : regs[0]? = some [.int len]) :
    ∃ ev, step prog ⟨hp, [F fi d regs A 1 (ins 4 :: rest)]⟩ =
      .cont ⟨hp, [F fi d (regSet regs 4 [.bool (decide (asInt 64 true k < asInt 64 true len))]) A 1 rest]⟩ ev :=
  ⟨_, (step_binop_eq (rest := rest) rfl (show (ins 4).op = .binop .lt i64 (.reg 3) (.reg 0) from rfl)).trans
    (stepBinop_lt (by exact h3) (by exact h0))⟩

theorem s5 (fi : Nat) (d : Option Nat) {regs : Array RVal} (hp : Heap) (rest : List Instr) (h4 : regs[4]? = some [.bool true]) :
    ∃ ev, step prog ⟨hp, [F fi d regs A 1 (ins 5 :: rest)]⟩ =
      .cont ⟨hp, [F fi d regs A 2 [ins 6, ins 7, ins 8, ins 9, ins 10, ins 11]]⟩ ev :=
  ⟨_, step_if_eq (rest := rest) (b := true) rfl (show (ins 5).op = .if (.reg 4) 2 3 from rfl) (by exact h4)⟩

theorem s6 (fi : Nat) (d : Option Nat) {regs : Array RVal} (hp : Heap) (rest : List Instr) {k : Nat} (h3 : regs[3]? = some [.int k]) (hk : k < len) (hl : len < 2 ^ 63) :
    ∃ ev, step prog ⟨hp, [F fi d regs A 2 (ins 6 :: rest)]⟩ = .cont ⟨hp, [F fi d (regSet regs 6 [.ptr b (o + k * 1)]) A 2 rest]⟩ ev :=
  ⟨_, (step_indexAddr_eq (rest := rest) rfl (show (ins 6).op = .indexAddr .slice (.param 0) (.reg 3) from rfl)).trans
    (stepIndexAddr_slice (e := 6) (sz := 1) (w := 64) (sg := true) (k := k) rfl (by exact h3) rfl rfl rfl (checkIndex_ok hk (by omega)))⟩

theorem s7 (fi : Nat) (d : Option Nat) {regs : Array RVal} (hp : Heap) (rest : List Instr) {q : Nat} {v : Val} (h6 : regs[6]? = some [.ptr b q])
    (hrd : hp.read b q 1 = some [v]) (hc : v.cls = .addr) :
    ∃ ev, step prog ⟨hp, [F fi d regs A 2 (ins 7 :: rest)]⟩ = .cont ⟨hp, [F fi d (regSet regs 7 [v]) A 2 rest]⟩ ev :=
  ⟨_, (step_load_eq (rest := rest) rfl (show (ins 7).op = .load (.reg 6) from rfl)).trans
    (stepLoad_ok (zs := [.nil]) (by exact h6) rfl hrd (by unfold listEqClasses; simp only [List.map, hc]; decide))⟩

theorem s8 (fi : Nat) (d : Option Nat) {regs : Array RVal} (hp : Heap) (rest : List Instr) {pb po : Nat} (h7 : regs[7]? = some [.ptr pb po]) :
    ∃ ev, step prog ⟨hp, [F fi d regs A 2 (ins 8 :: rest)]⟩ = .cont ⟨hp, [F fi d (regSet regs 8 [.ptr pb (po + 0)]) A 2 rest]⟩ ev :=
  ⟨_, (step_fieldAddr_eq (rest := rest) rfl (show (ins 8).op = .fieldAddr (.reg 7) 1 N17 from rfl)).trans
    (stepFieldAddr_ok (st := 5) (fs := [2, 4, 4, 4, 4]) (off := 0) (sz := 5) (by exact h7) rfl rfl (by decide +kernel))⟩

theorem s9 (fi : Nat) (d : Option Nat) {regs : Array RVal} (hp : Heap) (rest : List Instr) {pb q : Nat} {vs : List Val} (h8 : regs[8]? = some [.ptr pb q])
    (hrd : hp.read pb q 5 = some vs) (hc : listEqClasses vs [.int 0, .int 0, .int 0, .int 0, .int 0] = true) :
    ∃ ev, step prog ⟨hp, [F fi d regs A 2 (ins 9 :: rest)]⟩ = .cont ⟨hp, [F fi d (regSet regs 9 vs) A 2 rest]⟩ ev :=
  ⟨_, (step_load_eq (rest := rest) rfl (show (ins 9).op = .load (.reg 8) from rfl)).trans
    (stepLoad_ok (zs := [.int 0, .int 0, .int 0, .int 0, .int 0]) (by exact h8) rfl hrd hc)⟩

theorem s10 (fi : Nat) (d : Option Nat) {regs : Array RVal} (hp : Heap) (rest : List Instr) {vs : List Val} (h9 : regs[9]? = some vs) :
    ∃ ev, step prog ⟨hp, [F fi d regs A 2 (ins 10 :: rest)]⟩ =
      .cont ⟨hp, [F fi d (regSet regs 10 [.bool (decide (vs = [.int 0, .int 0, .int 0, .int 0, .int 0]))]) A 2 rest]⟩ ev :=
  ⟨_, (step_binop_eq (rest := rest) rfl (show (ins 10).op = .binop .eq (.agg false) (.reg 9) (.zero (.agg false)) from rfl)).trans
    (stepBinop_agg_eq (by exact h9) rfl)⟩

theorem s11 (fi : Nat) (d : Option Nat) {regs : Array RVal} (hp : Heap) (rest : List Instr) (h10 : regs[10]? = some [.bool true]) :
    ∃ ev, step prog ⟨hp, [F fi d regs A 2 (ins 11 :: rest)]⟩ = .cont ⟨hp, [F fi d regs A 5 [ins 15, ins 16, ins 17, ins 18]]⟩ ev :=
  ⟨_, step_if_eq (rest := rest) (b := true) rfl (show (ins 11).op = .if (.reg 10) 5 1 from rfl) (by exact h10)⟩

theorem s15 (fi : Nat) (d : Option Nat) {regs : Array RVal} (hp : Heap) (rest : List Instr) {pb po : Nat} (h7 : regs[7]? = some [.ptr pb po]) :
    ∃ ev, step prog ⟨hp, [F fi d regs A 5 (ins 15 :: rest)]⟩ = .cont ⟨hp, [F fi d (regSet regs 15 [.ptr pb (po + 5)]) A 5 rest]⟩ ev :=
  ⟨_, (step_fieldAddr_eq (rest := rest) rfl (show (ins 15).op = .fieldAddr (.reg 7) 2 N19 from rfl)).trans
    (stepFieldAddr_ok (st := 5) (fs := [2, 4, 4, 4, 4]) (off := 5) (sz := 5) (by exact h7) rfl rfl (by decide +kernel))⟩

theorem s16 (fi : Nat) (d : Option Nat) {regs : Array RVal} (hp : Heap) (rest : List Instr) {pb q : Nat} {vs : List Val} (h15 : regs[15]? = some [.ptr pb q])
    (hrd : hp.read pb q 5 = some vs) (hc : listEqClasses vs [.int 0, .int 0, .int 0, .int 0, .int 0] = true) :
    ∃ ev, step prog ⟨hp, [F fi d regs A 5 (ins 16 :: rest)]⟩ = .cont ⟨hp, [F fi d (regSet regs 16 vs) A 5 rest]⟩ ev :=
  ⟨_, (step_load_eq (rest := rest) rfl (show (ins 16).op = .load (.reg 15) from rfl)).trans
    (stepLoad_ok (zs := [.int 0, .int 0, .int 0, .int 0, .int 0]) (by exact h15) rfl hrd hc)⟩

theorem s17 (fi : Nat) (d : Option Nat) {regs : Array RVal} (hp : Heap) (rest : List Instr) {vs : List Val} (h16 : regs[16]? = some vs) :
    ∃ ev, step prog ⟨hp, [F fi d regs A 5 (ins 17 :: rest)]⟩ =
      .cont ⟨hp, [F fi d (regSet regs 17 [.bool (decide (vs = [.int 0, .int 0, .int 0, .int 0, .int 0]))]) A 5 rest]⟩ ev :=
  ⟨_, (step_binop_eq (rest := rest) rfl (show (ins 17).op = .binop .eq (.agg false) (.reg 16) (.zero (.agg false)) from rfl)).trans
    (stepBinop_agg_eq (by exact h16) rfl)⟩

theorem s18 (fi : Nat) (d : Option Nat) {regs : Array RVal} (hp : Heap) (rest : List Instr) (h17 : regs[17]? = some [.bool true]) :
    ∃ ev, step prog ⟨hp, [F fi d regs A 5 (ins 18 :: rest)]⟩ = .cont ⟨hp, [F fi d regs A 4 [ins 13, ins 14]]⟩ ev :=
  ⟨_, step_if_eq (rest := rest) (b := true) rfl (show (ins 18).op = .if (.reg 17) 4 1 from rfl) (by exact h17)⟩

theorem s13 (fi : Nat) (d : Option Nat) (regs : Array RVal) (hp : Heap) (rest : List Instr) :
    ∃ ev v, step prog ⟨hp, [F fi d regs A 4 (ins 13 :: rest)]⟩ = .cont ⟨hp, [F fi d (regSet regs 13 [.opaque v]) A 4 rest]⟩ ev :=
  ⟨_, _, (step_makeInterface_eq (rest := rest) rfl
    (show (ins 13).op = .makeInterface (.cstr "edwards25519: use of uninitialized Point") from rfl)).trans
    (stepMakeInterface_ok rfl rfl)⟩

theorem s14 (fi : Nat) (d : Option Nat) {regs : Array RVal} (hp : Heap) (rest : List Instr) {v : Val} (h13 : regs[13]? = some [v]) :
    ∃ s c ev, step prog ⟨hp, [F fi d regs A 4 (ins 14 :: rest)]⟩ = .panic s c ev :=
  ⟨_, _, _, step_panic_eq (rest := rest) rfl (show (ins 14).op = .panic (.reg 13) from rfl) (by exact h13)⟩

/-! ### iteration `i0`: both comparisons succeed, the `Panic` is reached -/

theorem z5_get (t : Nat) (ht : t < ([.int 0, .int 0, .int 0, .int 0, .int 0] : List Val).length) :
    ([.int 0, .int 0, .int 0, .int 0, .int 0] : List Val)[t] = .int 0 := by
  match t, ht with
  | 0, _ => rfl
  | 1, _ => rfl
  | 2, _ => rfl
  | 3, _ => rfl
  | 4, _ => rfl
  | n + 5, h => exact absurd h (by simp)

theorem read_limbs {hp : Heap} {pb q : Nat} (h : ∀ t, t < 5 → hp.cell? pb (q + t) = some (.int 0)) :
    hp.read pb q 5 = some [.int 0, .int 0, .int 0, .int 0, .int 0] := by
  refine Heap.read_of_cells [.int 0, .int 0, .int 0, .int 0, .int 0] (by simp) ?_
  intro t ht
  rw [z5_get t ht]
  exact h t (by simpa using ht)

theorem iter_exact (S : Setup heap b o len cap i0 pb po) (fi : Nat) (d : Option Nat) {regs : Array RVal} {hp : Heap}
    (hext : HeapExt heap hp) (h3 : regs[3]? = some [.int i0]) :
    AllSafe prog ⟨hp, [F fi d regs A 2 [ins 6, ins 7, ins 8, ins 9, ins 10, ins 11]]⟩ := by
  have hun := hext.uninit S.hun
  have hrd1 : hp.read b (o + i0 * 1) 1 = some [.ptr pb po] := by
    refine Heap.read_of_cells [.ptr pb po] (by simp) ?_
    intro t ht
    have : t = 0 := by simpa using ht
    subst this
    rw [show o + i0 * 1 + 0 = o + i0 by omega]
    exact hext.cell S.hcell
  have hrdx : hp.read pb (po + 0) 5 = some [.int 0, .int 0, .int 0, .int 0, .int 0] :=
    read_limbs fun t ht => by rw [show po + 0 + t = po + t by omega]; exact hun t (by omega)
  have hrdy : hp.read pb (po + 5) 5 = some [.int 0, .int 0, .int 0, .int 0, .int 0] :=
    read_limbs fun t ht => by rw [show po + 5 + t = po + (5 + t) by omega]; exact hun (5 + t) (by omega)
  obtain ⟨_, e6⟩ := s6 fi d hp [ins 7, ins 8, ins 9, ins 10, ins 11] h3 S.hi0 S.hlen
  refine AllSafe.of_cont e6 ?_
  obtain ⟨_, e7⟩ := s7 fi d (b := b) (o := o) (len := len) (cap := cap) hp [ins 8, ins 9, ins 10, ins 11]
    (regSet_self regs 6 _) hrd1 rfl
  refine AllSafe.of_cont e7 ?_
  obtain ⟨_, e8⟩ := s8 fi d (b := b) (o := o) (len := len) (cap := cap) hp [ins 9, ins 10, ins 11] (regSet_self _ 7 _)
  refine AllSafe.of_cont e8 ?_
  obtain ⟨_, e9⟩ := s9 fi d (b := b) (o := o) (len := len) (cap := cap) hp [ins 10, ins 11] (regSet_self _ 8 _) hrdx rfl
  refine AllSafe.of_cont e9 ?_
  obtain ⟨_, e10⟩ := s10 fi d (b := b) (o := o) (len := len) (cap := cap) hp [ins 11] (regSet_self _ 9 _)
  refine AllSafe.of_cont e10 ?_
  obtain ⟨_, e11⟩ := s11 fi d (b := b) (o := o) (len := len) (cap := cap) hp []
    (regs := regSet (regSet (regSet (regSet (regSet regs 6 [.ptr b (o + i0 * 1)]) 7 [.ptr pb po]) 8 [.ptr pb (po + 0)]) 9
      [.int 0, .int 0, .int 0, .int 0, .int 0]) 10 [.bool (decide (([.int 0, .int 0, .int 0, .int 0, .int 0] : List Val) = [.int 0, .int 0, .int 0, .int 0, .int 0]))])
    (regSet_self _ 10 _)
  refine AllSafe.of_cont e11 ?_
  obtain ⟨_, e15⟩ := s15 fi d (b := b) (o := o) (len := len) (cap := cap) hp [ins 16, ins 17, ins 18]
    (regSet_other (k := 7) (id := 10) (by decide) (regSet_other (k := 7) (id := 9) (by decide)
      (regSet_other (k := 7) (id := 8) (by decide) (regSet_self _ 7 [.ptr pb po]))))
  refine AllSafe.of_cont e15 ?_
  obtain ⟨_, e16⟩ := s16 fi d (b := b) (o := o) (len := len) (cap := cap) hp [ins 17, ins 18] (regSet_self _ 15 _) hrdy rfl
  refine AllSafe.of_cont e16 ?_
  obtain ⟨_, e17⟩ := s17 fi d (b := b) (o := o) (len := len) (cap := cap) hp [ins 18] (regSet_self _ 16 _)
  refine AllSafe.of_cont e17 ?_
  obtain ⟨_, e18⟩ := s18 fi d (b := b) (o := o) (len := len) (cap := cap) hp [] (regSet_self _ 17 _)
  refine AllSafe.of_cont e18 ?_
  obtain ⟨_, v, e13⟩ := s13 fi d (b := b) (o := o) (len := len) (cap := cap)
    (regSet (regSet (regSet (regSet (regSet (regSet (regSet (regSet regs 6 [.ptr b (o + i0 * 1)]) 7 [.ptr pb po]) 8 [.ptr pb (po + 0)]) 9
      [.int 0, .int 0, .int 0, .int 0, .int 0]) 10 [.bool (decide (([.int 0, .int 0, .int 0, .int 0, .int 0] : List Val) = [.int 0, .int 0, .int 0, .int 0, .int 0]))])
      15 [.ptr pb (po + 5)]) 16 [.int 0, .int 0, .int 0, .int 0, .int 0]) 17
      [.bool (decide (([.int 0, .int 0, .int 0, .int 0, .int 0] : List Val) = [.int 0, .int 0, .int 0, .int 0, .int 0]))]) hp [ins 14]
  refine AllSafe.of_cont e13 ?_
  obtain ⟨_, _, _, e14⟩ := s14 fi d (b := b) (o := o) (len := len) (cap := cap) hp [] (regSet_self _ 13 _)
  exact AllSafe.of_panic e14

/-! ### iterations `k < i0`, generically -/

/-- quiet, leaves registers 0 and 3 alone, jumps only to blocks 1, 4, 5 -/
def GoodI (i : Instr) : Bool := quiet i && i.id != 0 && i.id != 3 && targetsIn [1, 4, 5] i.op

theorem jt5 (fi : Nat) (regs : Array RVal) (params : Array RVal) (blk : Nat) (rest : List Instr) (dest : Option Nat) :
    jumpTo prog ⟨fi, f93, regs, params, blk, rest, dest⟩ 5 = some ⟨fi, f93, regs, params, 5, [ins 15, ins 16, ins 17, ins 18], dest⟩ := rfl

theorem jt4 (fi : Nat) (regs : Array RVal) (params : Array RVal) (blk : Nat) (rest : List Instr) (dest : Option Nat) :
    jumpTo prog ⟨fi, f93, regs, params, blk, rest, dest⟩ 4 = some ⟨fi, f93, regs, params, 4, [ins 13, ins 14], dest⟩ := rfl

theorem jt1_2 (fi : Nat) (regs : Array RVal) (params : Array RVal) (rest : List Instr) (dest : Option Nat) {v : RVal}
    (h3 : regs[3]? = some v) :
    jumpTo prog ⟨fi, f93, regs, params, 2, rest, dest⟩ 1 =
      some ⟨fi, f93, regSet regs 2 v, params, 1, [ins 3, ins 4, ins 5], dest⟩ := by
  have e : jumpTo prog ⟨fi, f93, regs, params, 2, rest, dest⟩ 1 =
      ((regs[3]?).bind fun v => some [(2, v)]).bind fun vals =>
        some ⟨fi, f93, assignAll regs vals, params, 1, [ins 3, ins 4, ins 5], dest⟩ := rfl
  rw [e, h3]
  rfl

theorem jt1_5 (fi : Nat) (regs : Array RVal) (params : Array RVal) (rest : List Instr) (dest : Option Nat) {v : RVal}
    (h3 : regs[3]? = some v) :
    jumpTo prog ⟨fi, f93, regs, params, 5, rest, dest⟩ 1 =
      some ⟨fi, f93, regSet regs 2 v, params, 1, [ins 3, ins 4, ins 5], dest⟩ := by
  have e : jumpTo prog ⟨fi, f93, regs, params, 5, rest, dest⟩ 1 =
      ((regs[3]?).bind fun v => some [(2, v)]).bind fun vals =>
        some ⟨fi, f93, assignAll regs vals, params, 1, [ins 3, ins 4, ins 5], dest⟩ := rfl
  rw [e, h3]
  rfl

theorem jt1_4 (fi : Nat) (regs : Array RVal) (params : Array RVal) (rest : List Instr) (dest : Option Nat) :
    jumpTo prog ⟨fi, f93, regs, params, 4, rest, dest⟩ 1 = none := rfl

structure BodyInv (len k : Nat) (a : RVal) (fr : Frame) : Prop where
  f : fr.f = f93
  params : fr.params = #[a]
  blk : fr.blk = 2 ∨ fr.blk = 5 ∨ fr.blk = 4
  r0 : fr.regs[0]? = some [.int len]
  r3 : fr.regs[3]? = some [.int k]
  good : ∀ i ∈ fr.rest, GoodI i = true

theorem good5 : ∀ i ∈ [ins 15, ins 16, ins 17, ins 18], GoodI i = true := by decide
theorem good4 : ∀ i ∈ [ins 13, ins 14], GoodI i = true := by decide
theorem good2 : ∀ i ∈ [ins 6, ins 7, ins 8, ins 9, ins 10, ins 11], GoodI i = true := by decide

theorem body_generic {k : Nat}
    (hnext : ∀ fi d regs hp, HeapExt heap hp → regs[0]? = some [.int len] → regs[2]? = some [.int k] →
      AllSafe prog ⟨hp, [F fi d regs A 1 [ins 3, ins 4, ins 5]]⟩) :
    ∀ (n : Nat) (fr : Frame) (hp : Heap), BodyInv len k A fr → HeapExt heap hp → Safe prog n ⟨hp, [fr]⟩ := by
  intro n
  induction n with
  | zero => intro fr hp _ _; exact Safe.zero _ _
  | succ n ih =>
    intro fr hp I hext
    obtain ⟨fi, f, regs, params, blk, rest0, dest⟩ := fr
    obtain ⟨hf, hpar, hblk, h0, h3, hgood⟩ := I
    simp only at hf hpar hblk h0 h3 hgood
    subst hf; subst hpar
    cases rest0 with
    | nil => exact Safe.of_fault (step_nil_rest rfl) _
    | cons i rest =>
      have hgi := hgood i (by simp)
      have hgr : ∀ j ∈ rest, GoodI j = true := fun j hj => hgood j (List.mem_cons_of_mem _ hj)
      simp only [GoodI, Bool.and_eq_true, bne_iff_ne, ne_eq] at hgi
      obtain ⟨⟨⟨hq, hi0⟩, hi3⟩, htg⟩ := hgi
      have hs := quiet_step (P := prog) (hp := hp) (frs := []) (fr0 := ⟨fi, f93, regs, #[A], blk, i :: rest, dest⟩) rfl hq
      generalize hst : step prog ⟨hp, [⟨fi, f93, regs, #[A], blk, i :: rest, dest⟩]⟩ = r at hs
      cases hs with
      | fault w => exact Safe.of_fault hst _
      | panic st c evs => exact Safe.of_panic hst _
      | next fr' hp' evs h1 h2 h3' h4 h5 h6 =>
        refine Safe.of_cont hst (ih fr' hp' ⟨h1, h2, by rw [h3']; exact hblk, ?_, ?_, by rw [h4]; exact hgr⟩ (hext.trans h5))
        · exact h6 0 _ (fun e => hi0 e.symm) h0
        · exact h6 3 _ (fun e => hi3 e.symm) h3
      | jump t tb fr' evs ht _ _ _ _ _ hj =>
        have hmem := jumpTarget_mem ht htg
        simp only [List.mem_cons, List.mem_nil_iff, or_false] at hmem
        have hj' : jumpTo prog ⟨fi, f93, regs, #[A], blk, rest, dest⟩ t = some fr' := hj
        rcases hmem with e | e | e
        · -- back to the loop head
          subst e
          have hfr' : fr' = F fi dest (regSet regs 2 [.int k]) A 1 [ins 3, ins 4, ins 5] := by
            rcases hblk with e | e | e
            · subst e; rw [jt1_2 _ _ _ _ _ h3] at hj'; exact (Option.some.inj hj').symm
            · subst e; rw [jt1_5 _ _ _ _ _ h3] at hj'; exact (Option.some.inj hj').symm
            · subst e; rw [jt1_4] at hj'; cases hj'
          subst hfr'
          exact Safe.of_cont hst (hnext fi dest _ hp hext (regSet_other (by decide) h0) (regSet_self _ _ _) n)
        · subst e
          rw [jt4] at hj'
          have hfr' := (Option.some.inj hj').symm
          subst hfr'
          exact Safe.of_cont hst (ih _ hp ⟨rfl, rfl, Or.inr (Or.inr rfl), h0, h3, good4⟩ hext)
        · subst e
          rw [jt5] at hj'
          have hfr' := (Option.some.inj hj').symm
          subst hfr'
          exact Safe.of_cont hst (ih _ hp ⟨rfl, rfl, Or.inr (Or.inl rfl), h0, h3, good5⟩ hext)

/-! ### the loop -/

theorem head_safe (S : Setup heap b o len cap i0 pb po) :
    ∀ (dd k : Nat), i0 - k = dd → k ≤ i0 → ∀ (fi : Nat) (d : Option Nat) (regs : Array RVal) (hp : Heap) (r2 : Nat),
      HeapExt heap hp → regs[0]? = some [.int len] → regs[2]? = some [.int r2] → wrap 64 (r2 + 1) = k →
      AllSafe prog ⟨hp, [F fi d regs A 1 [ins 3, ins 4, ins 5]]⟩ := by
  intro dd
  induction dd with
  | zero =>
    intro k hd hk fi d regs hp r2 hext h0 h2 hw
    have hki : k = i0 := by omega
    subst hki
    obtain ⟨_, e3⟩ := s3 fi d (b := b) (o := o) (len := len) (cap := cap) hp [ins 4, ins 5] h2
    refine AllSafe.of_cont e3 ?_
    rw [hw]
    obtain ⟨_, e4⟩ := s4 fi d (b := b) (o := o) (len := len) (cap := cap) hp [ins 5]
      (regSet_self regs 3 [.int k]) (regSet_other (by decide) h0)
    refine AllSafe.of_cont e4 ?_
    have hlt : decide (asInt 64 true k < asInt 64 true len) = true :=
      decide_eq_true ((asInt_lt (by have := S.hi0; have := S.hlen; omega) S.hlen).2 S.hi0)
    rw [hlt]
    obtain ⟨_, e5⟩ := s5 fi d (b := b) (o := o) (len := len) (cap := cap) hp [] (regSet_self _ 4 [.bool true])
    refine AllSafe.of_cont e5 ?_
    exact iter_exact S fi d hext (regSet_other (by decide) (regSet_self regs 3 [.int k]))
  | succ dd ih =>
    intro k hd hk fi d regs hp r2 hext h0 h2 hw
    have hki : k < i0 := by omega
    have hkl : k < len := Nat.lt_trans hki S.hi0
    obtain ⟨_, e3⟩ := s3 fi d (b := b) (o := o) (len := len) (cap := cap) hp [ins 4, ins 5] h2
    refine AllSafe.of_cont e3 ?_
    rw [hw]
    obtain ⟨_, e4⟩ := s4 fi d (b := b) (o := o) (len := len) (cap := cap) hp [ins 5]
      (regSet_self regs 3 [.int k]) (regSet_other (by decide) h0)
    refine AllSafe.of_cont e4 ?_
    have hlt : decide (asInt 64 true k < asInt 64 true len) = true :=
      decide_eq_true ((asInt_lt (by have := S.hlen; omega) S.hlen).2 hkl)
    rw [hlt]
    obtain ⟨_, e5⟩ := s5 fi d (b := b) (o := o) (len := len) (cap := cap) hp [] (regSet_self _ 4 [.bool true])
    refine AllSafe.of_cont e5 ?_
    intro n
    refine body_generic (k := k) ?_ n _ hp
      ⟨rfl, rfl, Or.inl rfl, regSet_other (by decide) (regSet_other (by decide) h0),
       regSet_other (by decide) (regSet_self regs 3 [.int k]), good2⟩ hext
    intro fi' d' regs' hp' hext' h0' h2'
    refine ih (k + 1) (by omega) (by omega) fi' d' regs' hp' k hext' h0' h2' ?_
    unfold wrap
    have := S.hlen
    exact Nat.mod_eq_of_lt (by omega)

theorem entry_safe (S : Setup heap b o len cap i0 pb po) :
    AllSafe prog ⟨heap, [F 93 none #[] A 0 [ins 0, ins 1]]⟩ := by
  obtain ⟨_, e0⟩ := s0 93 none (b := b) (o := o) (len := len) (cap := cap) #[] heap [ins 1]
  refine AllSafe.of_cont e0 ?_
  obtain ⟨_, e1⟩ := s1 93 none (b := b) (o := o) (len := len) (cap := cap) (regSet #[] 0 [.int len]) heap []
  refine AllSafe.of_cont e1 ?_
  exact head_safe S i0 0 rfl (Nat.zero_le _) 93 none _ heap 18446744073709551615 (HeapExt.refl _)
    (regSet_other (by decide) (regSet_self _ 0 _)) (regSet_self _ 2 _) (by decide)

end

end EdVerif.Ssa.CI

namespace EdVerif.Ssa

open EdVerif.Gen.Ssa EdVerif.Ssa.GS EdVerif.Ssa.CI

theorem checkInitialized_idx : prog.funcIdx? (nm! "checkInitialized") = some 93 := by decide +kernel

/-- `checkInitialized` of the regenerated program satisfies what `GuardStatement` assumes of the guard function -/
theorem checkInitialized_spec : GuardFnSpec prog 93 := by
  intro heap a s hs
  rw [callState_93] at hs
  cases hs
  refine ⟨?_, ?_⟩
  · intro fuel h' hrun b hb
    exact (heap_unchanged heap a fuel h' hrun).2 b hb
  · rintro ⟨b, o, len, cap, rfl, hu⟩ fuel s' rets
    obtain ⟨hlen, i0, pb, po, hi0, hcell, hun⟩ := hu
    exact entry_safe ⟨hlen, hi0, hcell, hun⟩ fuel s' rets

end EdVerif.Ssa
