import EdVerif.Ssa.GuardSound.Quiet
/-!
# Exact outcomes of single instructions (for the variadic-array window and the guard function)

Each lemma says: the step is a fault / a panic, or it continues in an explicitly given state.
-/
namespace EdVerif.Ssa.GS

open EdVerif.Ssa EdVerif.Ssa.PS EdVerif.Ssa.ES EdVerif.Ssa.GuardSide

/-! ## cells -/

theorem writeCells_spec : ∀ (vs : List Val) (b : Array Val) (off : Nat) (b' : Array Val), writeCells b off vs = some b' →
    b'.size = b.size ∧ ∀ c, c < off → b'[c]? = b[c]? := by
  intro vs
  induction vs with
  | nil => intro b off b' h; simp only [writeCells, Option.some.injEq] at h; subst h; exact ⟨rfl, fun _ _ => rfl⟩
  | cons v vs ih =>
    intro b off b' h
    simp only [writeCells] at h
    cases hb : b[off]? with
    | none => simp [hb] at h
    | some old =>
      simp only [hb] at h
      split at h
      · obtain ⟨h1, h2⟩ := ih _ _ _ h
        refine ⟨by simpa using h1, ?_⟩
        intro c hc
        rw [h2 c (by omega), Array.getElem?_setIfInBounds]
        have : ¬ off = c := by omega
        simp [this]
      · cases h

theorem writeCells_head {v : Val} {vs : List Val} {b b' : Array Val} {off : Nat}
    (h : writeCells b off (v :: vs) = some b') : b'[off]? = some v := by
  simp only [writeCells] at h
  cases hb : b[off]? with
  | none => simp [hb] at h
  | some old =>
    simp only [hb] at h
    split at h
    · obtain ⟨_, h2⟩ := writeCells_spec _ _ _ _ h
      rw [h2 off (by omega), Array.getElem?_setIfInBounds]
      have : off < b.size := by
        rcases Nat.lt_or_ge off b.size with h' | h'
        · exact h'
        · rw [Array.getElem?_eq_none h'] at hb; cases hb
      simp [this]
    · cases h

theorem Heap.write_block {h h' : Heap} {blk off : Nat} {vs : List Val} (hw : h.write blk off vs = some h') :
    ∃ bl b', h.blocks[blk]? = some bl ∧ writeCells bl off vs = some b' ∧ h'.blocks[blk]? = some b' := by
  unfold Heap.write at hw
  cases hb : h.blocks[blk]? with
  | none => simp [hb] at hw
  | some bl =>
    simp only [hb] at hw
    cases hc : writeCells bl off vs with
    | none => simp [hc] at hw
    | some b' =>
      simp only [hc, Option.some.injEq] at hw
      subst hw
      refine ⟨bl, b', rfl, hc, ?_⟩
      have : blk < h.blocks.size := by
        rcases Nat.lt_or_ge blk h.blocks.size with h' | h'
        · exact h'
        · rw [Array.getElem?_eq_none h'] at hb; cases hb
      simp [this]

theorem Heap.write_cell_lt {h h' : Heap} {blk off c : Nat} {vs : List Val} (hw : h.write blk off vs = some h') (hc : c < off) :
    h'.cell? blk c = h.cell? blk c := by
  obtain ⟨bl, b', h1, h2, h3⟩ := Heap.write_block hw
  unfold Heap.cell?
  rw [h1, h3]
  simp only [Option.bind_some]
  exact (writeCells_spec _ _ _ _ h2).2 c hc

theorem Heap.write_cell_head {h h' : Heap} {blk off : Nat} {v : Val} {vs : List Val} (hw : h.write blk off (v :: vs) = some h') :
    h'.cell? blk off = some v := by
  obtain ⟨bl, b', h1, h2, h3⟩ := Heap.write_block hw
  unfold Heap.cell?
  rw [h3]
  simp only [Option.bind_some]
  exact writeCells_head h2

theorem Heap.write_ext {h0 h h' : Heap} {blk off : Nat} {vs : List Val} (hw : h.write blk off vs = some h')
    (hge : h0.blocks.size ≤ blk) (he : HeapExt h0 h) : HeapExt h0 h' := by
  obtain ⟨_, h2, h3⟩ := Heap.write_spec hw
  refine ⟨by rw [h2]; exact he.1, ?_⟩
  intro b hb
  rw [h3 b (by omega)]
  exact he.2 b hb

theorem Heap.alloc_ext {h0 h : Heap} (vs : List Val) (he : HeapExt h0 h) : HeapExt h0 (h.alloc vs).1 := by
  obtain ⟨_, h2, h3⟩ := Heap.alloc_spec h vs
  refine ⟨by rw [h2]; have := he.1; omega, ?_⟩
  intro b hb
  rw [h3 b (Nat.lt_of_lt_of_le hb he.1)]
  exact he.2 b hb

/-! ## dispatch -/

section dispatch
variable {P : Program} {hp : Heap} {fr0 : Frame} {frs : List Frame} {i : Instr} {rest : List Instr}

theorem step_alloc_eq (hr : fr0.rest = i :: rest) {hf : Bool} {ek : VK} (hop : i.op = .alloc hf ek) :
    step P ⟨hp, fr0 :: frs⟩ = stepAlloc P hp (popI fr0 rest) frs i := by
  unfold step; simp only [hr, hop]

theorem step_indexAddr_eq (hr : fr0.rest = i :: rest) {xk : VK} {x ix : Opnd} (hop : i.op = .indexAddr xk x ix) :
    step P ⟨hp, fr0 :: frs⟩ = stepIndexAddr P hp (popI fr0 rest) frs i x ix := by
  unfold step; simp only [hr, hop]

theorem step_store_eq (hr : fr0.rest = i :: rest) {vk : VK} {a v : Opnd} (hop : i.op = .store vk a v) :
    step P ⟨hp, fr0 :: frs⟩ = stepStore P hp (popI fr0 rest) frs i a v := by
  unfold step; simp only [hr, hop]

theorem step_slice_eq (hr : fr0.rest = i :: rest) {xk : VK} {x : Opnd} {lo hi mx : Option Opnd} (hop : i.op = .slice xk x lo hi mx) :
    step P ⟨hp, fr0 :: frs⟩ = stepSlice P hp (popI fr0 rest) frs i x lo hi mx := by
  unfold step; simp only [hr, hop]

theorem step_call_eq (hr : fr0.rest = i :: rest) {c : Callee} {args : List Opnd} (hop : i.op = .call c args) :
    step P ⟨hp, fr0 :: frs⟩ = stepCall P hp (popI fr0 rest) frs i c args := by
  unfold step; simp only [hr, hop]

theorem step_load_eq (hr : fr0.rest = i :: rest) {x : Opnd} (hop : i.op = .load x) :
    step P ⟨hp, fr0 :: frs⟩ = stepLoad P hp (popI fr0 rest) frs i x := by
  unfold step; simp only [hr, hop]

theorem step_fieldAddr_eq (hr : fr0.rest = i :: rest) {x : Opnd} {fld : Nat} {nm : Nm} (hop : i.op = .fieldAddr x fld nm) :
    step P ⟨hp, fr0 :: frs⟩ = stepFieldAddr P hp (popI fr0 rest) frs i x fld := by
  unfold step; simp only [hr, hop]

theorem step_binop_eq (hr : fr0.rest = i :: rest) {op : BinOp} {xk : VK} {x y : Opnd} (hop : i.op = .binop op xk x y) :
    step P ⟨hp, fr0 :: frs⟩ = stepBinop P hp (popI fr0 rest) frs i op xk x y := by
  unfold step; simp only [hr, hop]

theorem step_makeInterface_eq (hr : fr0.rest = i :: rest) {x : Opnd} (hop : i.op = .makeInterface x) :
    step P ⟨hp, fr0 :: frs⟩ = stepMakeInterface P hp (popI fr0 rest) frs i x := by
  unfold step; simp only [hr, hop]

end dispatch

/-! ## outcomes -/

section outcomes
variable {P : Program} {hp : Heap} {fr : Frame} {frs : List Frame} {i : Instr}

theorem stepAlloc_cases (P : Program) (hp : Heap) (fr : Frame) (frs : List Frame) (i : Instr) :
    (∃ w, stepAlloc P hp fr frs i = .fault w) ∨
    ∃ e zs, P.tyOf i.ty = .ptr e ∧ P.zeros e = some zs ∧
      stepAlloc P hp fr frs i = contReg fr frs i.id [.ptr hp.blocks.size 0] (hp.alloc zs).1 [] := by
  unfold stepAlloc
  split
  · rename_i e he
    split
    · rename_i zs hz
      split
      · exact Or.inl ⟨_, rfl⟩
      · exact Or.inr ⟨e, zs, he, hz, rfl⟩
    · exact Or.inl ⟨_, rfl⟩
  · exact Or.inl ⟨_, rfl⟩

theorem checkIndex_some {w : Nat} {sg : Bool} {v len k : Nat} (h : checkIndex w sg v len = some k) (hv : v < 2 ^ (w - 1)) :
    k = v ∧ v < len := by
  unfold checkIndex at h
  have hi : asInt w sg v = (v : Int) := by
    unfold asInt toInt
    cases sg <;> simp [hv]
  simp only [hi] at h
  split at h
  · cases h
  · split at h
    · rename_i h2
      simp only [Option.some.injEq] at h
      simp only [Int.toNat_natCast] at h h2
      exact ⟨h.symm, h2⟩
    · cases h

/-- `IndexAddr` into an array through a pointer, with a constant index -/
theorem stepIndexAddr_arr {x ix : Opnd} {b o v aty len e sz : Nat}
    (hx : evalOpnd P fr (i.opTys.headD 0) x = some [.ptr b o])
    (hix : evalOpnd P fr (i.opTys.tail.headD 0) ix = some [.int v])
    (hty : P.tyOf (i.opTys.headD 0) = .ptr aty) (harr : P.tyOf aty = .arr len e) (hsz : P.size e = some sz) :
    (∃ w, stepIndexAddr P hp fr frs i x ix = .fault w) ∨
    (∃ s c evs, stepIndexAddr P hp fr frs i x ix = .panic s c evs) ∨
    (∃ w sg k, intOfTy P (i.opTys.tail.headD 0) = some (w, sg) ∧ checkIndex w sg v len = some k ∧
      stepIndexAddr P hp fr frs i x ix = contReg fr frs i.id [.ptr b (o + k * sz)] hp [ev fr K.index [.int v]]) := by
  unfold stepIndexAddr
  simp only [hx, hix]
  cases hio : intOfTy P (i.opTys.tail.headD 0) with
  | none => exact Or.inl ⟨_, rfl⟩
  | some ws =>
    obtain ⟨w, sg⟩ := ws
    simp only [hty, harr, hsz]
    cases hc : checkIndex w sg v len with
    | none => exact Or.inr (Or.inl ⟨_, _, _, rfl⟩)
    | some k => exact Or.inr (Or.inr ⟨w, sg, k, rfl, hc, rfl⟩)

theorem stepStore_ptr {a v : Opnd} {b o : Nat}
    (ha : evalOpnd P fr (i.opTys.headD 0) a = some [.ptr b o]) :
    (∃ w, stepStore P hp fr frs i a v = .fault w) ∨
    (∃ vs h, evalOpnd P fr (i.opTys.tail.headD 0) v = some vs ∧ hp.write b o vs = some h ∧
      stepStore P hp fr frs i a v = contNoReg fr frs h [ev fr EK.addr [.ptr b o, .int vs.length]]) := by
  unfold stepStore
  simp only [ha]
  cases hv : evalOpnd P fr (i.opTys.tail.headD 0) v with
  | none => exact Or.inl ⟨_, rfl⟩
  | some vs =>
    simp only
    cases hw : hp.write b o vs with
    | none => exact Or.inl ⟨_, rfl⟩
    | some h => exact Or.inr ⟨vs, h, rfl, hw, rfl⟩

/-- `a[:]` of an array through a pointer -/
theorem stepSlice_arr {x : Opnd} {b o aty n e sz : Nat}
    (hx : evalOpnd P fr (i.opTys.headD 0) x = some [.ptr b o])
    (hty : P.tyOf (i.opTys.headD 0) = .ptr aty) (harr : P.tyOf aty = .arr n e) (hsz : P.size e = some sz) :
    stepSlice P hp fr frs i x none none none = contReg fr frs i.id [.slice b o n n] hp [ev fr K.sliceBound []] := by
  unfold stepSlice
  simp only [hx, hty, harr, hsz, evalBound]
  simp

theorem stepCall_fn_cases (P : Program) (hp : Heap) (fr : Frame) (frs : List Frame) (i : Instr) (g : Nat) (cargs : List Opnd) :
    (∃ w, stepCall P hp fr frs i (.fn g) cargs = .fault w) ∨
    ∃ vs gf nf, evalOpnds P fr cargs i.opTys = some vs ∧ P.funcs[g]? = some gf ∧ mkFrame g gf vs (some i.id) = some nf ∧
      stepCall P hp fr frs i (.fn g) cargs = .cont ⟨hp, nf :: fr :: frs⟩ [ev fr EK.call [.fn g]] := by
  unfold stepCall
  cases hv : evalOpnds P fr cargs i.opTys with
  | none => exact Or.inl ⟨_, rfl⟩
  | some vs =>
    simp only
    cases hg : P.funcs[g]? with
    | none => exact Or.inl ⟨_, rfl⟩
    | some gf =>
      simp only
      cases hn : mkFrame g gf vs (some i.id) with
      | none => exact Or.inl ⟨_, rfl⟩
      | some nf => exact Or.inr ⟨vs, gf, nf, rfl, rfl, hn, rfl⟩

theorem evalOpnds_cons_some {fr : Frame} {o : Opnd} {os : List Opnd} {tys : List Nat} {vs : List RVal}
    (h : evalOpnds P fr (o :: os) tys = some vs) :
    ∃ v ws, evalOpnd P fr (tys.headD 0) o = some v ∧ evalOpnds P fr os tys.tail = some ws ∧ vs = v :: ws := by
  unfold evalOpnds at h
  cases hv : evalOpnd P fr (tys.headD 0) o with
  | none => rw [hv] at h; simp at h
  | some v =>
    cases hvs : evalOpnds P fr os tys.tail with
    | none => rw [hv, hvs] at h; simp at h
    | some ws =>
      rw [hv, hvs] at h
      simp at h
      exact ⟨v, ws, rfl, rfl, h.symm⟩

/-- the value of argument `k` of a call, when the operand is a parameter -/
theorem evalOpnds_param {fr : Frame} : ∀ (os : List Opnd) (tys : List Nat) (vs : List RVal) (k jj : Nat),
    evalOpnds P fr os tys = some vs → os[k]? = some (.param jj) → vs[k]? = fr.params[jj]? ∧ (fr.params[jj]?).isSome := by
  intro os
  induction os with
  | nil => intro tys vs k jj _ h; simp at h
  | cons o os ih =>
    intro tys vs k jj h hk
    obtain ⟨v, ws, hv, hvs, e⟩ := evalOpnds_cons_some h
    subst e
    cases k with
    | zero =>
      simp at hk; subst hk
      simp only [evalOpnd] at hv
      simp [hv]
    | succ k =>
      simp at hk
      simpa using ih tys.tail ws k jj hvs hk

end outcomes

/-! ## exact outcomes (all operands known) -/

section exact
variable {P : Program} {hp : Heap} {fr0 fr : Frame} {frs : List Frame} {i : Instr} {rest : List Instr}

theorem step_jump_eq (hr : fr0.rest = i :: rest) {t : Nat} (hop : i.op = .jump t) :
    step P ⟨hp, fr0 :: frs⟩ =
      (match jumpTo P (popI fr0 rest) t with
       | some fr' => .cont { heap := hp, stack := fr' :: frs } []
       | none => .fault "jump: target") := by
  unfold step; simp only [hr, hop]; rfl

theorem step_if_eq (hr : fr0.rest = i :: rest) {c : Opnd} {t e : Nat} (hop : i.op = .if c t e) {b : Bool}
    (hc : evalOpnd P (popI fr0 rest) (i.opTys.headD 0) c = some [.bool b]) :
    step P ⟨hp, fr0 :: frs⟩ =
      (match jumpTo P (popI fr0 rest) (if b then t else e) with
       | some fr' => .cont { heap := hp, stack := fr' :: frs } [ev (popI fr0 rest) K.branch [.bool b]]
       | none => .fault "if: target") := by
  unfold step; simp only [hr, hop, hc]; rfl

theorem step_panic_eq (hr : fr0.rest = i :: rest) {x : Opnd} (hop : i.op = .panic x) {v : Val}
    (hx : evalOpnd P (popI fr0 rest) (i.opTys.headD 0) x = some [v]) :
    step P ⟨hp, fr0 :: frs⟩ = .panic ⟨hp, popI fr0 rest :: frs⟩ v [ev (popI fr0 rest) EK.panic [v]] := by
  unfold step; simp only [hr, hop, hx]

theorem stepBuiltin_len (b o l c : Nat) :
    stepBuiltin hp fr frs i Ext.len [[.slice b o l c]] = contReg fr frs i.id [.int l] hp [] := by
  unfold stepBuiltin; simp

theorem stepBinop_add {x y : Opnd} {w : Nat} {sg : Bool} {a b : Nat}
    (hx : evalOpnd P fr (i.opTys.headD 0) x = some [.int a]) (hy : evalOpnd P fr (i.opTys.tail.headD 0) y = some [.int b]) :
    stepBinop P hp fr frs i .add (.int w sg) x y = contReg fr frs i.id [.int (wrap w (a + b))] hp [] := by
  unfold stepBinop; simp only [hx, hy, intBinop]

theorem stepBinop_lt {x y : Opnd} {w : Nat} {sg : Bool} {a b : Nat}
    (hx : evalOpnd P fr (i.opTys.headD 0) x = some [.int a]) (hy : evalOpnd P fr (i.opTys.tail.headD 0) y = some [.int b]) :
    stepBinop P hp fr frs i .lt (.int w sg) x y = contReg fr frs i.id [.bool (decide (asInt w sg a < asInt w sg b))] hp [] := by
  unfold stepBinop; simp only [hx, hy, intBinop]

theorem stepBinop_agg_eq {x y : Opnd} {h : Bool} {vx vy : RVal}
    (hx : evalOpnd P fr (i.opTys.headD 0) x = some vx) (hy : evalOpnd P fr (i.opTys.tail.headD 0) y = some vy) :
    stepBinop P hp fr frs i .eq (.agg h) x y =
      contReg fr frs i.id [.bool (decide (vx = vy))] hp [ev fr K.aggCompare [.bool (decide (vx = vy))]] := by
  unfold stepBinop; simp only [hx, hy]

theorem stepIndexAddr_slice {x ix : Opnd} {b o len cap v w k e sz : Nat} {sg : Bool}
    (hx : evalOpnd P fr (i.opTys.headD 0) x = some [.slice b o len cap])
    (hix : evalOpnd P fr (i.opTys.tail.headD 0) ix = some [.int v])
    (hio : intOfTy P (i.opTys.tail.headD 0) = some (w, sg))
    (hty : P.tyOf (i.opTys.headD 0) = .slice e) (hsz : P.size e = some sz) (hci : checkIndex w sg v len = some k) :
    stepIndexAddr P hp fr frs i x ix = contReg fr frs i.id [.ptr b (o + k * sz)] hp [ev fr K.index [.int v]] := by
  unfold stepIndexAddr; simp only [hx, hix, hio, hty, hsz, hci]

theorem stepLoad_ok {x : Opnd} {b o : Nat} {zs vs : List Val}
    (hx : evalOpnd P fr (i.opTys.headD 0) x = some [.ptr b o]) (hz : P.zeros i.ty = some zs)
    (hrd : hp.read b o zs.length = some vs) (hc : listEqClasses vs zs = true) :
    stepLoad P hp fr frs i x = contReg fr frs i.id vs hp [ev fr EK.addr [.ptr b o, .int zs.length]] := by
  unfold stepLoad; simp only [hx, hz, hrd, hc, if_true]

theorem stepFieldAddr_ok {x : Opnd} {fld b o st off sz : Nat} {fs : List Nat}
    (hx : evalOpnd P fr (i.opTys.headD 0) x = some [.ptr b o]) (hty : P.tyOf (i.opTys.headD 0) = .ptr st)
    (hst : P.tyOf st = .struct fs) (hfs : P.fieldSpan fs fld = some (off, sz)) :
    stepFieldAddr P hp fr frs i x fld = contReg fr frs i.id [.ptr b (o + off)] hp [] := by
  unfold stepFieldAddr; simp only [hx, hty, hst, hfs]

theorem stepMakeInterface_ok {x : Opnd} {v : Val}
    (hx : evalOpnd P fr (i.opTys.headD 0) x = some [v]) (hc : v.cls = .addr) :
    stepMakeInterface P hp fr frs i x = contReg fr frs i.id [v] hp [] := by
  unfold stepMakeInterface; simp only [hx, hc, if_true]

end exact

/-! ## reading known cells -/

theorem readCells_of (bl : Array Val) : ∀ (vs : List Val) (off : Nat),
    (∀ t (ht : t < vs.length), bl[off + t]? = some vs[t]) → readCells bl off vs.length = some vs := by
  intro vs
  induction vs with
  | nil => intro off _; rfl
  | cons v vs ih =>
    intro off h
    simp only [List.length_cons, readCells]
    have h0 := h 0 (by simp)
    simp only [Nat.add_zero, List.getElem_cons_zero] at h0
    rw [h0]
    have := ih (off + 1) (by
      intro t ht
      have := h (t + 1) (by simp; omega)
      simp only [List.getElem_cons_succ] at this
      rw [show off + 1 + t = off + (t + 1) by omega]; exact this)
    simp [this]

theorem Heap.read_of_cells {h : Heap} {b o : Nat} (vs : List Val) (hpos : 0 < vs.length)
    (hc : ∀ t (ht : t < vs.length), h.cell? b (o + t) = some vs[t]) : h.read b o vs.length = some vs := by
  have h0 := hc 0 hpos
  unfold Heap.cell? at h0
  cases hb : h.blocks[b]? with
  | none => rw [hb] at h0; simp at h0
  | some bl =>
    unfold Heap.read
    simp only [hb, Option.bind_eq_bind, Option.bind_some]
    apply readCells_of
    intro t ht
    have := hc t ht
    unfold Heap.cell? at this
    rw [hb] at this
    simpa using this

/-! ## safe for every fuel -/

def AllSafe (P : Program) (s : State) : Prop := ∀ n, Safe P n s

theorem AllSafe.of_fault {P : Program} {s : State} {w : String} (h : step P s = .fault w) : AllSafe P s :=
  fun n => Safe.of_fault h n

theorem AllSafe.of_panic {P : Program} {s s1 : State} {c : Val} {ev : List Event} (h : step P s = .panic s1 c ev) : AllSafe P s :=
  fun n => Safe.of_panic h n

theorem AllSafe.of_cont {P : Program} {s s1 : State} {ev : List Event} (h : step P s = .cont s1 ev) (h1 : AllSafe P s1) : AllSafe P s := by
  intro n
  cases n with
  | zero => exact Safe.zero _ _
  | succ n => exact Safe.of_cont h (h1 n)

/-! ## functions without stores and calls never change existing memory -/

/-- quiet, or a `Return` -/
def calm (i : Instr) : Bool :=
  quiet i || (match i.op with | .ret _ => true | _ => false)

theorem splitPhis_mem : ∀ (is : List Instr) (i : Instr), i ∈ (splitPhis is).2 → i ∈ is := by
  intro is
  induction is with
  | nil => intro i h; exact h
  | cons j js ih =>
    intro i h
    unfold splitPhis at h
    split at h
    · exact List.mem_cons_of_mem _ (ih i h)
    · exact h

theorem calm_heap {P : Program} {f : Func} {heap0 : Heap} (hcalm : ∀ bl ∈ f.blocks, ∀ i ∈ bl.instrs, calm i = true) :
    ∀ (n : Nat) (fr : Frame) (hp h' : Heap), fr.f = f → (∀ i ∈ fr.rest, calm i = true) → HeapExt heap0 hp →
      (run P n ⟨hp, [fr]⟩).heap? = some h' → HeapExt heap0 h' := by
  intro n
  induction n with
  | zero =>
    intro fr hp h' _ _ hext hrun
    simp only [run, Outcome.heap?, Option.some.injEq] at hrun
    subst hrun; exact hext
  | succ n ih =>
    intro fr hp h' hf hc hext hrun
    cases hrest : fr.rest with
    | nil =>
      simp only [run, step_nil_rest hrest, Outcome.heap?] at hrun
      cases hrun
    | cons i rest =>
      have hci := hc i (by rw [hrest]; simp)
      have hcr : ∀ j ∈ rest, calm j = true := fun j hj => hc j (by rw [hrest]; exact List.mem_cons_of_mem _ hj)
      by_cases hq : quiet i = true
      · have hs := quiet_step (P := P) (hp := hp) (frs := []) hrest hq
        generalize hst : step P ⟨hp, [fr]⟩ = r at hs
        cases hs with
        | fault w => simp only [run, hst, Outcome.heap?] at hrun; cases hrun
        | panic st c evs =>
          simp only [run, hst, Outcome.heap?, Option.some.injEq] at hrun
          subst hrun; exact hext
        | next fr' hp' evs h1 h2 h3 h4 h5 _ =>
          simp only [run, hst] at hrun
          exact ih fr' hp' h' (h1.trans hf) (by rw [h4]; exact hcr) (hext.trans h5) hrun
        | jump t tb fr' evs ht htb h1 h2 h3 h4 _ =>
          simp only [run, hst] at hrun
          refine ih fr' hp h' (h1.trans hf) ?_ hext hrun
          rw [h4]
          intro j hj
          rw [hf] at htb
          exact hcalm tb (List.mem_of_getElem? htb) j (splitPhis_mem _ _ hj)
      · have hret : ∃ vals, i.op = .ret vals := by
          unfold calm at hci
          simp only [hq, Bool.false_or] at hci
          split at hci
          · rename_i vals hop; exact ⟨vals, hop⟩
          · cases hci
        obtain ⟨vals, hop⟩ := hret
        have hst : step P ⟨hp, [fr]⟩ = stepRet P hp { fr with rest := rest } [] vals := step_ret hrest hop
        cases hv : evalOpnds P ({ fr with rest := rest } : Frame) vals ({ fr with rest := rest } : Frame).f.resultTys with
        | none =>
          rw [stepRet_none hv] at hst
          simp only [run, hst, Outcome.heap?] at hrun; cases hrun
        | some vs =>
          rw [stepRet_nil hv] at hst
          simp only [run, hst, Outcome.heap?, Option.some.injEq] at hrun
          subst hrun; exact hext

end EdVerif.Ssa.GS
