import EdVerif.Ssa.GuardSound.Quiet
/-!
# From the entry of a reader to the site

Until the site is reached the reader's frame is alone on the stack, sits in the quiet region (or in the quiet
prefix of the site's block), and the heap only grows.
-/
namespace EdVerif.Ssa.GS

open EdVerif.Ssa EdVerif.Ssa.PS EdVerif.Ssa.ES EdVerif.Ssa.GuardSide

section
variable (P : Program) (pol : GuardPolicy) (gi j : Nat) (p : Param) (f : Func) (args : Array RVal) (heap0 : Heap) (B : Nat)

/-- where the frame is: in the quiet prefix of block `B`, or in a block of the quiet region -/
def Pos (fr : Frame) : Prop :=
  (fr.blk = B ∧ preSite P pol gi j p fr.rest = true) ∨
  (B ≠ 0 ∧ (avoiding f B).testBit fr.blk = true ∧ ∃ bl', f.blocks[fr.blk]? = some bl' ∧ allQuiet bl'.succs fr.rest = true)

/-- what has to be shown at the site, for `m` steps -/
def SiteGoal (m : Nat) : Prop :=
  ∀ (fr : Frame) (hp : Heap), fr.f = f → fr.params = args → HeapExt heap0 hp →
    siteStart P pol gi j p fr.rest = true → Safe P m ⟨hp, [fr]⟩

variable {P pol gi j p f args heap0 B}

theorem phase1 {bl : Block} (hBl : f.blocks[B]? = some bl) (hpreB : preSite P pol gi j p bl.instrs = true)
    (hreg : regionOk f B = true) :
    ∀ (n : Nat) (fr : Frame) (hp : Heap), fr.f = f → fr.params = args → HeapExt heap0 hp → Pos P pol gi j p f B fr →
      (∀ m, m ≤ n → SiteGoal P pol gi j p f args heap0 m) → Safe P n ⟨hp, [fr]⟩ := by
  intro n
  induction n with
  | zero => intro fr hp _ _ _ _ _; exact Safe.zero _ _
  | succ n ih =>
    intro fr hp hf hpar hext hpos hgoal
    have hgoal' : ∀ m, m ≤ n → SiteGoal P pol gi j p f args heap0 m := fun m hm => hgoal m (by omega)
    rcases hpos with ⟨hblk, hpre⟩ | ⟨hB0, hA, bl', hbl', hq⟩
    · -- in the prefix of block `B`
      cases hrest : fr.rest with
      | nil => rw [hrest] at hpre; simp [preSite] at hpre
      | cons i is =>
        rw [hrest] at hpre
        simp only [preSite, Bool.or_eq_true, Bool.and_eq_true, Bool.not_eq_true'] at hpre
        rcases hpre with hsite | ⟨⟨hqi, hctl⟩, hpre'⟩
        · exact hgoal (n + 1) (Nat.le_refl _) fr hp hf hpar hext (by rw [hrest]; exact hsite)
        · have hs := quiet_step (P := P) (hp := hp) (frs := []) hrest hqi
          generalize hst : step P ⟨hp, [fr]⟩ = r at hs
          cases hs with
          | fault w => exact Safe.of_fault hst _
          | panic s c evs => exact Safe.of_panic hst _
          | next fr' hp' evs h1 h2 h3 h4 h5 _ =>
            refine Safe.of_cont hst (ih fr' hp' (h1.trans hf) (h2.trans hpar) (hext.trans h5) ?_ hgoal')
            exact Or.inl ⟨h3.trans hblk, by rw [h4]; exact hpre'⟩
          | jump t tb fr' evs ht _ _ _ _ _ _ =>
            have := jumpTarget_isCtl ht
            rw [hctl] at this; cases this
    · -- in a block of the region
      have R := region_of_ok hreg hB0
      cases hrest : fr.rest with
      | nil => exact Safe.of_fault (step_nil_rest hrest) _
      | cons i is =>
        rw [hrest] at hq
        simp only [allQuiet, Bool.and_eq_true] at hq
        obtain ⟨⟨hqi, htg⟩, hq'⟩ := hq
        have hs := quiet_step (P := P) (hp := hp) (frs := []) hrest hqi
        generalize hst : step P ⟨hp, [fr]⟩ = r at hs
        cases hs with
        | fault w => exact Safe.of_fault hst _
        | panic s c evs => exact Safe.of_panic hst _
        | next fr' hp' evs h1 h2 h3 h4 h5 _ =>
          refine Safe.of_cont hst (ih fr' hp' (h1.trans hf) (h2.trans hpar) (hext.trans h5) ?_ hgoal')
          refine Or.inr ⟨hB0, by rw [h3]; exact hA, bl', by rw [h3]; exact hbl', by rw [h4]; exact hq'⟩
        | jump t tb fr' evs ht htb h1 h2 h3 h4 _ =>
          refine Safe.of_cont hst (ih fr' hp (h1.trans hf) (h2.trans hpar) hext ?_ hgoal')
          have hmem := jumpTarget_mem ht htg
          rw [hf] at htb
          rcases R.closed fr.blk bl' t hbl' hA hmem with hAt | hBt
          · refine Or.inr ⟨hB0, by rw [h3]; exact hAt, tb, by rw [h3]; exact htb, ?_⟩
            rw [h4]
            exact splitPhis_allQuiet _ _ (R.quiet t tb htb hAt)
          · subst hBt
            rw [hBl] at htb
            cases htb
            exact Or.inl ⟨h3, by rw [h4]; exact splitPhis_preSite _ _ _ _ _ _ hpreB⟩

end

end EdVerif.Ssa.GS
