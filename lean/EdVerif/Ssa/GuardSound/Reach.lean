import EdVerif.Ssa.ErrSound.Graph
/-!
# `reach` with blocked nodes computes a closed set

`closeN` stops after `masks.length` rounds; as in `ErrSound/Graph.lean` (nothing blocked) a counting argument shows
that this is long enough, here for a start set disjoint from the blocked set.
-/
namespace EdVerif.Ssa.GS

open EdVerif.Ssa EdVerif.Ssa.PS EdVerif.Ssa.ES

/-- no element of `s` is blocked -/
def Disj (bl s : Nat) : Prop := ∀ k, s.testBit k = true → bl.testBit k = false

theorem testBit_closeStep_bl (masks : List Nat) (bl s k : Nat) :
    (closeStep masks bl s).testBit k = true ↔
      (bl.testBit k = false ∧ (s.testBit k = true ∨ ∃ j m, masks[j]? = some m ∧ s.testBit j = true ∧ m.testBit k = true)) := by
  unfold closeStep
  simp only
  rw [testBit_sub_and]
  simp only [Bool.and_eq_true, Bool.not_eq_true']
  rw [testBit_closeStepGo]
  simp only [Nat.zero_add]
  constructor
  · rintro ⟨h1, h2⟩; exact ⟨h2, h1⟩
  · rintro ⟨h1, h2⟩; exact ⟨h2, h1⟩

theorem closeStep_disj (masks : List Nat) (bl s : Nat) : Disj bl (closeStep masks bl s) :=
  fun k hk => ((testBit_closeStep_bl masks bl s k).1 hk).1

theorem closeStep_ge_bl {masks : List Nat} {bl s : Nat} (hd : Disj bl s) {k : Nat} (h : s.testBit k = true) :
    (closeStep masks bl s).testBit k = true :=
  (testBit_closeStep_bl masks bl s k).2 ⟨hd k h, Or.inl h⟩

theorem closeN_ge_bl (masks : List Nat) (bl : Nat) : ∀ (n s : Nat), Disj bl s → ∀ k, s.testBit k = true →
    (closeN masks bl n s).testBit k = true := by
  intro n
  induction n with
  | zero => intro s _ k h; simpa [closeN] using h
  | succ n ih =>
    intro s hd k h
    simp only [closeN]
    split
    · exact h
    · exact ih _ (closeStep_disj masks bl s) k (closeStep_ge_bl hd h)

theorem closeN_disj (masks : List Nat) (bl : Nat) : ∀ (n s : Nat), Disj bl s → Disj bl (closeN masks bl n s) := by
  intro n
  induction n with
  | zero => intro s hd; simpa [closeN] using hd
  | succ n ih =>
    intro s hd
    simp only [closeN]
    split
    · exact hd
    · exact ih _ (closeStep_disj masks bl s)

theorem closeStep_idem_bl {masks : List Nat} {bl s : Nat}
    (hcore : ∀ j, j < masks.length → (closeStep masks bl s).testBit j = true → s.testBit j = true) :
    closeStep masks bl (closeStep masks bl s) = closeStep masks bl s := by
  apply Nat.eq_of_testBit_eq
  intro k
  cases hb : (closeStep masks bl s).testBit k with
  | true => exact closeStep_ge_bl (closeStep_disj masks bl s) hb
  | false =>
    cases hb2 : (closeStep masks bl (closeStep masks bl s)).testBit k with
    | false => rfl
    | true =>
      rw [testBit_closeStep_bl] at hb2
      obtain ⟨hbl, h | ⟨j, m, hj, hsj, hm⟩⟩ := hb2
      · rw [hb] at h; cases h
      · have : (closeStep masks bl s).testBit k = true :=
          (testBit_closeStep_bl masks bl s k).2 ⟨hbl, Or.inr ⟨j, m, hj, hcore j (lt_of_getElem?_some hj) hsj, hm⟩⟩
        rw [hb] at this; cases this

theorem closeN_of_fix_bl {masks : List Nat} {bl t : Nat} (h : closeStep masks bl t = t) : ∀ k, closeN masks bl k t = t := by
  intro k
  cases k with
  | zero => rfl
  | succ k => simp [closeN, h]

theorem closeN_isFix_bl (masks : List Nat) (bl : Nat) : ∀ (k s : Nat), Disj bl s → masks.length + 1 ≤ k + cntBits s masks.length →
    closeStep masks bl (closeN masks bl k s) = closeN masks bl k s := by
  intro k
  induction k with
  | zero =>
    intro s _ h
    have := cntBits_le s masks.length
    omega
  | succ k ih =>
    intro s hd h
    simp only [closeN]
    split
    · rename_i he
      simpa using he
    · obtain ⟨h1, h2⟩ := cntBits_mono (s := s) (t := closeStep masks bl s) (fun k hk => closeStep_ge_bl hd hk) masks.length
      by_cases hlt : cntBits s masks.length < cntBits (closeStep masks bl s) masks.length
      · exact ih _ (closeStep_disj masks bl s) (by omega)
      · have hfix := closeStep_idem_bl (masks := masks) (bl := bl) (s := s) (h2 (by omega))
        rw [closeN_of_fix_bl hfix]
        exact hfix

/-- the set `reach` computes is closed under the masks, up to blocked nodes -/
theorem reach_fix_bl (masks : List Nat) (bl s : Nat) (hd : Disj bl s) :
    closeStep masks bl (reach masks bl s) = reach masks bl s := by
  unfold reach
  by_cases hc : cntBits s masks.length = 0
  · have hz := cntBits_eq_zero hc
    have hfix : closeStep masks bl s = s := by
      apply Nat.eq_of_testBit_eq
      intro k
      cases hb : s.testBit k with
      | true => exact closeStep_ge_bl hd hb
      | false =>
        cases hb2 : (closeStep masks bl s).testBit k with
        | false => rfl
        | true =>
          rw [testBit_closeStep_bl] at hb2
          obtain ⟨_, h | ⟨j, m, hj, hsj, _⟩⟩ := hb2
          · rw [hb] at h; cases h
          · rw [hz j (lt_of_getElem?_some hj)] at hsj; cases hsj
    rw [closeN_of_fix_bl hfix]
    exact hfix
  · exact closeN_isFix_bl masks bl _ s hd (by omega)

theorem disj_one_shl {B : Nat} (hB : B ≠ 0) : Disj (1 <<< B) 1 := by
  intro k hk
  have hk0 : k = 0 := by
    have : (1 <<< 0).testBit k = true := by simpa using hk
    rw [testBit_one_shl] at this
    exact (of_decide_eq_true this).symm
  subst hk0
  rw [testBit_one_shl]
  simp [hB]

/-- `avoiding f B` (for `B ≠ 0`) contains the entry block and is closed under the successor masks up to `B` -/
theorem avoiding_entry {f : Func} {B : Nat} (hB : B ≠ 0) : (avoiding f B).testBit 0 = true := by
  unfold avoiding
  have : (B == 0) = false := by simpa using hB
  simp only [this, Bool.false_eq_true, if_false]
  exact closeN_ge_bl _ _ _ 1 (disj_one_shl hB) 0 (by decide)

theorem avoiding_fix {f : Func} {B : Nat} (hB : B ≠ 0) :
    closeStep (succMasks f.blocks) (1 <<< B) (avoiding f B) = avoiding f B := by
  unfold avoiding
  have : (B == 0) = false := by simpa using hB
  simp only [this, Bool.false_eq_true, if_false]
  exact reach_fix_bl _ _ 1 (disj_one_shl hB)

end EdVerif.Ssa.GS
