import EdVerif.Ssa.GuardSound.Main
import EdVerif.Ssa.GuardSound.CheckInitialized
import EdVerif.Ssa.Policy
/-!
# C15 on the regenerated program

The verdict (checker + side conditions) evaluated by the kernel, and `GuardStatement` instantiated with the real
program, the real policy and the real guard function.
-/
namespace EdVerif.Ssa

open EdVerif.Gen.Ssa

theorem guardOk_real : guardOkSimple prog hints Policy.guards = true := by decide +kernel

/-- every reader of `Policy.guards`, called with an uninitialized Point in a guarded position, never returns normally -/
theorem guard_real {fi : Nat} {f : Func} {names : List Nm} (hf : prog.funcs[fi]? = some f)
    (hnames : lookupGuarded f.name Policy.guards.guarded = some names)
    {j : Nat} (hbit : (namesMask f.params names 0).testBit j = true)
    {heap : Heap} {args : List RVal} {s : State} (hs : callState prog heap fi args = some s)
    (harg : ∃ a, args[j]? = some a ∧ ArgForm prog f j a ∧ ArgUninit heap a) :
    ∀ fuel s' rets, run prog fuel s ≠ .done s' rets :=
  guard_sound_core guardOk_real checkInitialized_idx checkInitialized_spec hf hnames hbit hs harg

end EdVerif.Ssa
