import EdVerif.Ssa.Sem
/-!
# A callee that never finishes on its own never returns to its caller

`step` looks only at the top frame; the frames below are handed through, and the `dest` field of a frame is
read only when that frame returns to a caller.  Hence a run of a stack `top ++ rest` follows the run of `top`
alone (with another `dest` in its bottom frame) until `top` is exhausted: if the standalone run is never
`.done`, the lifted run never gets back into `rest`, in particular it is never `.done`.
-/
namespace EdVerif.Ssa.GS

open EdVerif.Ssa

@[reducible] def setDest (d : Option Nat) (fr : Frame) : Frame := { fr with dest := d }

section eval
variable {P : Program} {d : Option Nat} {fr : Frame}

@[simp] theorem evalOpnd_setDest (ty : Nat) (o : Opnd) : evalOpnd P (setDest d fr) ty o = evalOpnd P fr ty o := by
  cases o <;> rfl

@[simp] theorem evalOpnds_setDest : ∀ (os : List Opnd) (tys : List Nat), evalOpnds P (setDest d fr) os tys = evalOpnds P fr os tys := by
  intro os
  induction os with
  | nil => intro tys; rfl
  | cons o os ih => intro tys; simp only [evalOpnds, evalOpnd_setDest, ih]

@[simp] theorem evalBound_setDest (ty dflt : Nat) (o : Option Opnd) :
    evalBound P (setDest d fr) ty dflt o = evalBound P fr ty dflt o := by
  cases o with
  | none => rfl
  | some o => simp only [evalBound, evalOpnd_setDest]

@[simp] theorem evalPhis_setDest (pred : Nat) : ∀ (is : List Instr), evalPhis P (setDest d fr) pred is = evalPhis P fr pred is := by
  intro is
  induction is with
  | nil => rfl
  | cons i is ih =>
    simp only [evalPhis]
    split
    · simp only [evalOpnd_setDest, ih]
    · rfl

theorem jumpTo_setDest (t : Nat) : jumpTo P (setDest d fr) t = (jumpTo P fr t).map (setDest d) := by
  unfold jumpTo
  show (do
    let b ← fr.f.blocks[t]?
    let vals ← evalPhis P (setDest d fr) fr.blk (splitPhis b.instrs).1
    pure ({ setDest d fr with regs := assignAll fr.regs vals, blk := t, rest := (splitPhis b.instrs).2 } : Frame)) = _
  cases fr.f.blocks[t]? with
  | none => rfl
  | some b =>
    simp only [evalPhis_setDest, Option.bind_eq_bind, Option.bind_some]
    cases evalPhis P fr fr.blk (splitPhis b.instrs).1 with
    | none => rfl
    | some vals => rfl

end eval

/-- outcomes of one step of `fr :: frs` and of `setDest d fr :: frs'` -/
inductive StepRel (d0 d : Option Nat) (frs frs' : List Frame) : Step → Step → Prop
  | fault (w : String) : StepRel d0 d frs frs' (.fault w) (.fault w)
  | panic (s s' : State) (c c' : Val) (ev ev' : List Event) : StepRel d0 d frs frs' (.panic s c ev) (.panic s' c' ev')
  | cont (h : Heap) (x : Frame) (ev : List Event) : x.dest = d0 →
      StepRel d0 d frs frs' (.cont ⟨h, x :: frs⟩ ev) (.cont ⟨h, setDest d x :: frs'⟩ ev)
  | push (h : Heap) (nf x : Frame) (ev : List Event) : x.dest = d0 →
      StepRel d0 d frs frs' (.cont ⟨h, nf :: x :: frs⟩ ev) (.cont ⟨h, nf :: setDest d x :: frs'⟩ ev)

section helpers
variable {P : Program} {hp : Heap} {fr : Frame} {frs frs' : List Frame} {i : Instr} {d0 d : Option Nat}

theorem contReg_rel (hd : fr.dest = d0) (id : Nat) (v : RVal) (h : Heap) (evs : List Event) :
    StepRel d0 d frs frs' (contReg fr frs id v h evs) (contReg (setDest d fr) frs' id v h evs) :=
  StepRel.cont h { fr with regs := regSet fr.regs id v } evs hd

theorem contNoReg_rel (hd : fr.dest = d0) (h : Heap) (evs : List Event) :
    StepRel d0 d frs frs' (contNoReg fr frs h evs) (contNoReg (setDest d fr) frs' h evs) :=
  StepRel.cont h fr evs hd

macro "rel_leaves " hd:term : tactic =>
  `(tactic| all_goals first
      | exact StepRel.fault _
      | exact StepRel.panic _ _ _ _ _ _
      | exact contReg_rel $hd _ _ _ _
      | exact contNoReg_rel $hd _ _)

theorem stepAlloc_rel (hd : fr.dest = d0) :
    StepRel d0 d frs frs' (stepAlloc P hp fr frs i) (stepAlloc P hp (setDest d fr) frs' i) := by
  unfold stepAlloc
  repeat' split
  rel_leaves hd

theorem stepBinop_rel (hd : fr.dest = d0) (op : BinOp) (xk : VK) (x y : Opnd) :
    StepRel d0 d frs frs' (stepBinop P hp fr frs i op xk x y) (stepBinop P hp (setDest d fr) frs' i op xk x y) := by
  unfold stepBinop
  simp only [evalOpnd_setDest]
  repeat' split
  rel_leaves hd

theorem stepUnop_rel (hd : fr.dest = d0) (op : UnOp) (x : Opnd) :
    StepRel d0 d frs frs' (stepUnop P hp fr frs i op x) (stepUnop P hp (setDest d fr) frs' i op x) := by
  unfold stepUnop
  simp only [evalOpnd_setDest]
  repeat' split
  rel_leaves hd

theorem stepConvert_rel (hd : fr.dest = d0) (fk : VK) (x : Opnd) :
    StepRel d0 d frs frs' (stepConvert P hp fr frs i fk x) (stepConvert P hp (setDest d fr) frs' i fk x) := by
  unfold stepConvert
  simp only [evalOpnd_setDest]
  repeat' split
  rel_leaves hd

theorem stepLoad_rel (hd : fr.dest = d0) (x : Opnd) :
    StepRel d0 d frs frs' (stepLoad P hp fr frs i x) (stepLoad P hp (setDest d fr) frs' i x) := by
  unfold stepLoad
  simp only [evalOpnd_setDest]
  repeat' split
  rel_leaves hd

theorem stepStore_rel (hd : fr.dest = d0) (a v : Opnd) :
    StepRel d0 d frs frs' (stepStore P hp fr frs i a v) (stepStore P hp (setDest d fr) frs' i a v) := by
  unfold stepStore
  simp only [evalOpnd_setDest]
  repeat' split
  rel_leaves hd

theorem stepFieldAddr_rel (hd : fr.dest = d0) (x : Opnd) (fld : Nat) :
    StepRel d0 d frs frs' (stepFieldAddr P hp fr frs i x fld) (stepFieldAddr P hp (setDest d fr) frs' i x fld) := by
  unfold stepFieldAddr
  simp only [evalOpnd_setDest]
  repeat' split
  rel_leaves hd

theorem stepField_rel (hd : fr.dest = d0) (x : Opnd) (fld : Nat) :
    StepRel d0 d frs frs' (stepField P hp fr frs i x fld) (stepField P hp (setDest d fr) frs' i x fld) := by
  unfold stepField
  simp only [evalOpnd_setDest]
  repeat' split
  rel_leaves hd

theorem stepIndexAddr_rel (hd : fr.dest = d0) (x ix : Opnd) :
    StepRel d0 d frs frs' (stepIndexAddr P hp fr frs i x ix) (stepIndexAddr P hp (setDest d fr) frs' i x ix) := by
  unfold stepIndexAddr
  simp only [evalOpnd_setDest]
  repeat' split
  rel_leaves hd

theorem stepIndex_rel (hd : fr.dest = d0) (x ix : Opnd) :
    StepRel d0 d frs frs' (stepIndex P hp fr frs i x ix) (stepIndex P hp (setDest d fr) frs' i x ix) := by
  unfold stepIndex
  simp only [evalOpnd_setDest]
  repeat' split
  rel_leaves hd

theorem stepSlice_rel (hd : fr.dest = d0) (x : Opnd) (lo hi mx : Option Opnd) :
    StepRel d0 d frs frs' (stepSlice P hp fr frs i x lo hi mx) (stepSlice P hp (setDest d fr) frs' i x lo hi mx) := by
  unfold stepSlice
  simp only [evalOpnd_setDest, evalBound_setDest]
  repeat' split
  rel_leaves hd

theorem stepMakeSlice_rel (hd : fr.dest = d0) (l c : Opnd) :
    StepRel d0 d frs frs' (stepMakeSlice P hp fr frs i l c) (stepMakeSlice P hp (setDest d fr) frs' i l c) := by
  unfold stepMakeSlice
  simp only [evalOpnd_setDest]
  repeat' split
  rel_leaves hd

theorem stepSliceToArrayPointer_rel (hd : fr.dest = d0) (x : Opnd) :
    StepRel d0 d frs frs' (stepSliceToArrayPointer P hp fr frs i x) (stepSliceToArrayPointer P hp (setDest d fr) frs' i x) := by
  unfold stepSliceToArrayPointer
  simp only [evalOpnd_setDest]
  repeat' split
  rel_leaves hd

theorem stepMakeInterface_rel (hd : fr.dest = d0) (x : Opnd) :
    StepRel d0 d frs frs' (stepMakeInterface P hp fr frs i x) (stepMakeInterface P hp (setDest d fr) frs' i x) := by
  unfold stepMakeInterface
  simp only [evalOpnd_setDest]
  repeat' split
  rel_leaves hd

theorem stepBuiltin_rel (hd : fr.dest = d0) (name : Nm) (vs : List RVal) :
    StepRel d0 d frs frs' (stepBuiltin hp fr frs i name vs) (stepBuiltin hp (setDest d fr) frs' i name vs) := by
  unfold stepBuiltin
  repeat' first | split | dsimp only
  rel_leaves hd

theorem stepExtern_rel (hd : fr.dest = d0) (name : Nm) (vs : List RVal) :
    StepRel d0 d frs frs' (stepExtern P hp fr frs i name vs) (stepExtern P hp (setDest d fr) frs' i name vs) := by
  unfold stepExtern
  by_cases h1 : (name == Ext.mul64) = true
  · simp only [if_pos h1]; repeat' split
    rel_leaves hd
  simp only [if_neg h1]
  by_cases h2 : (name == Ext.add64) = true
  · simp only [if_pos h2]; repeat' split
    rel_leaves hd
  simp only [if_neg h2]
  by_cases h3 : (name == Ext.sub64) = true
  · simp only [if_pos h3]; repeat' split
    rel_leaves hd
  simp only [if_neg h3]
  by_cases h4 : (name == Ext.ctByteEq) = true
  · simp only [if_pos h4]; repeat' split
    rel_leaves hd
  simp only [if_neg h4]
  by_cases h5 : (name == Ext.ctCompare) = true
  · simp only [if_pos h5]; repeat' split
    rel_leaves hd
  simp only [if_neg h5]
  by_cases h6 : (name == Ext.leUint64) = true
  · simp only [if_pos h6]; repeat' split
    rel_leaves hd
  simp only [if_neg h6]
  by_cases h7 : (name == Ext.lePutUint64) = true
  · simp only [if_pos h7]; repeat' split
    rel_leaves hd
  simp only [if_neg h7]
  by_cases h8 : (name == Ext.errorsNew) = true
  · simp only [if_pos h8]; repeat' split
    rel_leaves hd
  simp only [if_neg h8]
  by_cases h9 : (name == Ext.onceDo) = true
  · simp only [if_pos h9]; repeat' split
    all_goals first
      | exact StepRel.fault _
      | exact contReg_rel hd _ _ _ _
      | exact StepRel.push _ _ { fr with regs := regSet fr.regs i.id [] } _ hd
  simp only [if_neg h9]
  repeat' split
  rel_leaves hd

theorem stepCall_rel (hd : fr.dest = d0) (callee : Callee) (args : List Opnd) :
    StepRel d0 d frs frs' (stepCall P hp fr frs i callee args) (stepCall P hp (setDest d fr) frs' i callee args) := by
  unfold stepCall
  simp only [evalOpnds_setDest]
  split
  · split
    · split
      · split
        · exact StepRel.push _ _ fr _ hd
        · exact StepRel.fault _
      · exact StepRel.fault _
    · exact stepExtern_rel hd _ _
    · exact stepBuiltin_rel hd _ _
    · exact StepRel.fault _
    · exact StepRel.fault _
  · exact StepRel.fault _

theorem jumpTo_dest {t : Nat} {fr' : Frame} (h : jumpTo P fr t = some fr') : fr'.dest = fr.dest := by
  unfold jumpTo at h
  cases hb : fr.f.blocks[t]? with
  | none => simp [hb] at h
  | some b =>
    simp only [hb, Option.bind_eq_bind, Option.bind_some] at h
    cases hv : evalPhis P fr fr.blk (splitPhis b.instrs).1 with
    | none => simp [hv] at h
    | some vals =>
      simp only [hv, Option.bind_some] at h
      cases h
      rfl

theorem jumpCont_rel (hd : fr.dest = d0) (t : Nat) (evs : List Event) (w : String) :
    StepRel d0 d frs frs'
      (match jumpTo P fr t with
       | some fr' => .cont { heap := hp, stack := fr' :: frs } evs
       | none => .fault w)
      (match jumpTo P (setDest d fr) t with
       | some fr' => .cont { heap := hp, stack := fr' :: frs' } evs
       | none => .fault w) := by
  rw [jumpTo_setDest (P := P) (d := d) (fr := fr) t]
  cases hj : jumpTo P fr t with
  | none => exact StepRel.fault _
  | some fr' => exact StepRel.cont _ fr' _ ((jumpTo_dest hj).trans hd)

theorem stepIf_rel (hd : fr.dest = d0) (ty : Nat) (c : Opnd) (t el : Nat) :
    StepRel d0 d frs frs'
      (match evalOpnd P fr ty c with
       | some [.bool b] =>
         match jumpTo P fr (if b then t else el) with
         | some fr' => .cont { heap := hp, stack := fr' :: frs } [ev fr K.branch [.bool b]]
         | none => .fault "if: target"
       | _ => .fault "if: condition")
      (match evalOpnd P (setDest d fr) ty c with
       | some [.bool b] =>
         match jumpTo P (setDest d fr) (if b then t else el) with
         | some fr' => .cont { heap := hp, stack := fr' :: frs' } [ev (setDest d fr) K.branch [.bool b]]
         | none => .fault "if: target"
       | _ => .fault "if: condition") := by
  simp only [evalOpnd_setDest]
  split
  · exact jumpCont_rel hd _ _ _
  · exact StepRel.fault _

theorem stepChangeType_rel (hd : fr.dest = d0) (ty : Nat) (x : Opnd) :
    StepRel d0 d frs frs'
      (match evalOpnd P fr ty x with
       | some v => contReg fr frs i.id v hp []
       | none => .fault "changeType")
      (match evalOpnd P (setDest d fr) ty x with
       | some v => contReg (setDest d fr) frs' i.id v hp []
       | none => .fault "changeType") := by
  simp only [evalOpnd_setDest]
  split
  · exact contReg_rel hd _ _ _ _
  · exact StepRel.fault _

theorem stepPanic_rel (ty : Nat) (x : Opnd) :
    StepRel d0 d frs frs'
      (match evalOpnd P fr ty x with
       | some [v] => .panic ⟨hp, fr :: frs⟩ v [ev fr EK.panic [v]]
       | _ => .fault "panic: operand")
      (match evalOpnd P (setDest d fr) ty x with
       | some [v] => .panic ⟨hp, setDest d fr :: frs'⟩ v [ev (setDest d fr) EK.panic [v]]
       | _ => .fault "panic: operand") := by
  simp only [evalOpnd_setDest]
  split
  · exact StepRel.panic _ _ _ _ _ _
  · exact StepRel.fault _

end helpers

/-- one step of a non-returning instruction -/
theorem step_rel {P : Program} {hp : Heap} {fr0 : Frame} {frs frs' : List Frame} {d : Option Nat}
    {i : Instr} {rest : List Instr} (hr : fr0.rest = i :: rest) (hnr : ∀ vals, i.op ≠ .ret vals) :
    StepRel fr0.dest d frs frs' (step P ⟨hp, fr0 :: frs⟩) (step P ⟨hp, setDest d fr0 :: frs'⟩) := by
  have hd : ({ fr0 with rest := rest } : Frame).dest = fr0.dest := rfl
  unfold step
  simp only [hr]
  cases hop : i.op with
  | alloc hpf ek => exact stepAlloc_rel hd
  | binop op xk x y => exact stepBinop_rel hd _ _ _ _
  | unop op x => exact stepUnop_rel hd _ _
  | load x => exact stepLoad_rel hd _
  | call callee args => exact stepCall_rel hd _ _
  | changeType x => exact stepChangeType_rel hd _ _
  | convert fk x => exact stepConvert_rel hd _ _
  | sliceToArrayPointer x => exact stepSliceToArrayPointer_rel hd _
  | extract x idx => exact stepField_rel hd _ _
  | fieldAddr x f fname => exact stepFieldAddr_rel hd _ _
  | field x f fname => exact stepField_rel hd _ _
  | indexAddr xk x ix => exact stepIndexAddr_rel hd _ _
  | index x ix => exact stepIndex_rel hd _ _
  | lookup x ix => exact StepRel.fault _
  | slice xk x lo hi mx => exact stepSlice_rel hd _ _ _ _
  | makeSlice l c => exact stepMakeSlice_rel hd _ _
  | makeClosure fn bs => exact StepRel.fault _
  | makeInterface x => exact stepMakeInterface_rel hd _
  | phi es => exact StepRel.fault _
  | store vk a v => exact stepStore_rel hd _ _
  | «if» c t e => exact stepIf_rel hd _ _ _ _
  | jump t => exact jumpCont_rel hd _ _ _
  | ret vals => exact absurd hop (hnr vals)
  | panic x => exact stepPanic_rel _ _
  | unsupported w os => exact StepRel.fault _

/-! ## runs -/

theorem step_nil_rest {P : Program} {hp : Heap} {fr0 : Frame} {frs : List Frame} (hr : fr0.rest = []) :
    step P ⟨hp, fr0 :: frs⟩ = .fault "fell off a block" := by
  unfold step
  simp only [hr]

theorem step_ret {P : Program} {hp : Heap} {fr0 : Frame} {frs : List Frame} {i : Instr} {rest : List Instr} {vals : List Opnd}
    (hr : fr0.rest = i :: rest) (hop : i.op = .ret vals) :
    step P ⟨hp, fr0 :: frs⟩ = stepRet P hp { fr0 with rest := rest } frs vals := by
  unfold step
  simp only [hr, hop]

theorem run_succ_cont {P : Program} {s s1 : State} {ev : List Event} (h : step P s = .cont s1 ev) (n : Nat) :
    run P (n + 1) s = run P n s1 := by
  simp only [run, h]

/-- the caller's frame after a callee with destination `dest` returned `vs` -/
def retInto (caller : Frame) (dest : Option Nat) (vs : List RVal) : Frame :=
  match dest with
  | some id => { caller with regs := regSet caller.regs id (retValue vs) }
  | none => caller

theorem stepRet_none {P : Program} {hp : Heap} {fr : Frame} {frs : List Frame} {vals : List Opnd}
    (h : evalOpnds P fr vals fr.f.resultTys = none) : stepRet P hp fr frs vals = .fault "return: operands" := by
  unfold stepRet; simp only [h]

theorem stepRet_nil {P : Program} {hp : Heap} {fr : Frame} {vals : List Opnd} {vs : List RVal}
    (h : evalOpnds P fr vals fr.f.resultTys = some vs) :
    stepRet P hp fr [] vals = .done { heap := hp, stack := [] } vs [ev fr EK.ret []] := by
  unfold stepRet; simp only [h]

theorem stepRet_cons {P : Program} {hp : Heap} {fr caller : Frame} {tl : List Frame} {vals : List Opnd} {vs : List RVal}
    (h : evalOpnds P fr vals fr.f.resultTys = some vs) :
    stepRet P hp fr (caller :: tl) vals = .cont { heap := hp, stack := retInto caller fr.dest vs :: tl } [ev fr EK.ret []] := by
  unfold stepRet; simp only [h, retInto]
  cases fr.dest <;> rfl

theorem retInto_setDest (c : Frame) (d dd : Option Nat) (vs : List RVal) :
    retInto (setDest d c) dd vs = setDest d (retInto c dd vs) := by
  cases dd <;> rfl

/-- the stack `s0` with another `dest` in its bottom frame, on top of `rest` -/
inductive StackRel (d : Option Nat) (rest : List Frame) : List Frame → List Frame → Prop
  | base (x : Frame) : StackRel d rest [x] (setDest d x :: rest)
  | cons (y : Frame) {s s' : List Frame} : StackRel d rest s s' → StackRel d rest (y :: s) (y :: s')

theorem setDest_self {x : Frame} {d : Option Nat} (h : x.dest = d) : setDest d x = x := by
  cases x; simp only [setDest] at *; subst h; rfl

/-- **lifting**: if the run of `s0` is never `.done` within `n` steps, neither is the run of `s0` (with another
    `dest` at the bottom) on top of `rest` -/
theorem lift_run {P : Program} {d : Option Nat} {rest : List Frame} :
    ∀ (n : Nat) (s0 s1 : List Frame) (hp : Heap), StackRel d rest s0 s1 →
      (∀ m, m ≤ n → ∀ s' r, run P m ⟨hp, s0⟩ ≠ .done s' r) → ∀ s' r, run P n ⟨hp, s1⟩ ≠ .done s' r := by
  intro n
  induction n with
  | zero => intro s0 s1 hp _ _ s' r h; simp [run] at h
  | succ n ih =>
    intro s0 s1 hp hrel hsafe s' r hrun
    -- what a related pair of `cont` outcomes gives
    have next : ∀ (t0 t1 : List Frame) (h : Heap) (ev ev' : List Event), StackRel d rest t0 t1 →
        step P ⟨hp, s0⟩ = .cont ⟨h, t0⟩ ev → step P ⟨hp, s1⟩ = .cont ⟨h, t1⟩ ev' → False := by
      intro t0 t1 h ev ev' hr2 h0 h1
      rw [run_succ_cont h1] at hrun
      refine ih t0 t1 h hr2 ?_ s' r hrun
      intro m hm s'' r'' hm2
      rw [← run_succ_cont h0] at hm2
      exact hsafe (m + 1) (by omega) s'' r'' hm2
    have nofault : ∀ w, step P ⟨hp, s1⟩ = .fault w → False := by
      intro w h1
      simp [run, h1] at hrun
    cases hrel with
    | base x =>
      cases hxr : x.rest with
      | nil => exact nofault _ (step_nil_rest (fr0 := setDest d x) hxr)
      | cons i is =>
        by_cases hret : ∃ vals, i.op = .ret vals
        · obtain ⟨vals, hop⟩ := hret
          have h0 : step P ⟨hp, [x]⟩ = stepRet P hp { x with rest := is } [] vals := step_ret hxr hop
          have h1 : step P ⟨hp, setDest d x :: rest⟩ = stepRet P hp (setDest d { x with rest := is }) rest vals :=
            step_ret (fr0 := setDest d x) hxr hop
          cases hv : evalOpnds P ({ x with rest := is } : Frame) vals ({ x with rest := is } : Frame).f.resultTys with
          | none =>
            have hv1 : evalOpnds P (setDest d { x with rest := is }) vals (setDest d { x with rest := is }).f.resultTys = none := by
              rw [evalOpnds_setDest]; exact hv
            rw [stepRet_none hv1] at h1
            exact nofault _ h1
          | some vs =>
            rw [stepRet_nil hv] at h0
            exact hsafe 1 (by omega) { heap := hp, stack := [] } vs (by simp only [run, h0])
        · have hnr : ∀ vals, i.op ≠ .ret vals := fun vals h => hret ⟨vals, h⟩
          have hsr := step_rel (P := P) (hp := hp) (frs := []) (frs' := rest) (d := d) hxr hnr
          generalize h0 : step P ⟨hp, [x]⟩ = r0 at hsr
          generalize h1 : step P ⟨hp, setDest d x :: rest⟩ = r1 at hsr
          cases hsr with
          | fault w => exact nofault _ h1
          | panic => simp [run, h1] at hrun
          | cont h y ev hy => exact next [y] _ h ev ev (.base y) h0 h1
          | push h nf y ev hy => exact next [nf, y] _ h ev ev (.cons nf (.base y)) h0 h1
    | cons y hs =>
      rename_i s s'
      cases hyr : y.rest with
      | nil => exact nofault _ (step_nil_rest hyr)
      | cons i is =>
        by_cases hret : ∃ vals, i.op = .ret vals
        · obtain ⟨vals, hop⟩ := hret
          have h0 : step P ⟨hp, y :: s⟩ = stepRet P hp { y with rest := is } s vals := step_ret hyr hop
          have h1 : step P ⟨hp, y :: s'⟩ = stepRet P hp { y with rest := is } s' vals := step_ret hyr hop
          cases hv : evalOpnds P ({ y with rest := is } : Frame) vals ({ y with rest := is } : Frame).f.resultTys with
          | none =>
            rw [stepRet_none hv] at h1
            exact nofault _ h1
          | some vs =>
            cases hs with
            | base x =>
              rw [stepRet_cons hv] at h0 h1
              rw [retInto_setDest] at h1
              exact next [_] _ hp _ _ (.base _) h0 h1
            | cons z ht =>
              rw [stepRet_cons hv] at h0 h1
              exact next (_ :: _) _ hp _ _ (.cons _ ht) h0 h1
        · have hnr : ∀ vals, i.op ≠ .ret vals := fun vals h => hret ⟨vals, h⟩
          have hsr := step_rel (P := P) (hp := hp) (frs := s) (frs' := s') (d := y.dest) hyr hnr
          have ey : setDest y.dest y = y := setDest_self rfl
          rw [ey] at hsr
          generalize h0 : step P ⟨hp, y :: s⟩ = r0 at hsr
          generalize h1 : step P ⟨hp, y :: s'⟩ = r1 at hsr
          cases hsr with
          | fault w => exact nofault _ h1
          | panic => simp [run, h1] at hrun
          | cont h x ev hx =>
            rw [setDest_self hx] at h1
            exact next (x :: s) _ h ev ev (.cons x hs) h0 h1
          | push h nf x ev hx =>
            rw [setDest_self hx] at h1
            exact next (nf :: x :: s) _ h ev ev (.cons nf (.cons x hs)) h0 h1

/-- fuel-indexed "never returns normally" -/
def Safe (P : Program) (n : Nat) (s : State) : Prop := ∀ s' r, run P n s ≠ .done s' r

theorem Safe.zero (P : Program) (s : State) : Safe P 0 s := by intro s' r h; simp [run] at h

theorem Safe.of_fault {P : Program} {s : State} {w : String} (h : step P s = .fault w) (n : Nat) : Safe P n s := by
  intro s' r hr
  cases n with
  | zero => simp [run] at hr
  | succ n => simp [run, h] at hr

theorem Safe.of_panic {P : Program} {s s1 : State} {c : Val} {ev : List Event} (h : step P s = .panic s1 c ev) (n : Nat) : Safe P n s := by
  intro s' r hr
  cases n with
  | zero => simp [run] at hr
  | succ n => simp [run, h] at hr

theorem Safe.of_cont {P : Program} {s s1 : State} {ev : List Event} (h : step P s = .cont s1 ev) {n : Nat}
    (h1 : Safe P n s1) : Safe P (n + 1) s := by
  intro s' r hr
  rw [run_succ_cont h] at hr
  exact h1 s' r hr

/-- a call of `g`: if the callee alone is safe for `n` steps, so is the stack with the callee on top -/
theorem lift_call {P : Program} {hp : Heap} {g : Nat} {gf : Func} {vs : List RVal} {id : Nat} {nf : Frame} {rest : List Frame}
    (hgf : P.funcs[g]? = some gf) (hnf : mkFrame g gf vs (some id) = some nf) :
    ∃ s0, callState P hp g vs = some s0 ∧
      ∀ n, (∀ m, m ≤ n → Safe P m s0) → Safe P n ⟨hp, nf :: rest⟩ := by
  unfold mkFrame at hnf
  cases hb : gf.blocks[0]? with
  | none => simp [hb] at hnf
  | some b =>
    simp only [hb, Option.bind_eq_bind, Option.bind_some] at hnf
    cases hnf
    refine ⟨⟨hp, [{ fi := g, f := gf, regs := #[], params := vs.toArray, blk := 0, rest := b.instrs, dest := none }]⟩, ?_, ?_⟩
    · unfold callState mkFrame
      simp [hgf, hb]
    · intro n hsafe
      exact lift_run (d := some id) (rest := rest) n _ _ hp
        (StackRel.base { fi := g, f := gf, regs := #[], params := vs.toArray, blk := 0, rest := b.instrs, dest := none }) hsafe

end EdVerif.Ssa.GS
