import EdVerif.Ssa.ErrSound.Graph
import EdVerif.Ssa.GuardSpec
import EdVerif.Ssa.GuardSound.Lift
import EdVerif.Ssa.GuardSound.Reach
/-!
# Before the site: quiet instructions, the block graph

A *quiet* instruction keeps the frame alone on the stack, keeps every block of the heap that exists, and
does not return.  The region `avoiding f B` is closed under the successor lists up to `B`.
-/
namespace EdVerif.Ssa.GS

open EdVerif.Ssa EdVerif.Ssa.PS EdVerif.Ssa.ES EdVerif.Ssa.GuardSide

/-! ## heaps that only grew -/

/-- every block of `h` is still there, unchanged -/
def HeapExt (h h' : Heap) : Prop :=
  h.blocks.size ≤ h'.blocks.size ∧ ∀ b, b < h.blocks.size → h'.blocks[b]? = h.blocks[b]?

theorem HeapExt.refl (h : Heap) : HeapExt h h := ⟨Nat.le_refl _, fun _ _ => rfl⟩

theorem HeapExt.trans {a b c : Heap} (h1 : HeapExt a b) (h2 : HeapExt b c) : HeapExt a c :=
  ⟨Nat.le_trans h1.1 h2.1, fun k hk => (h2.2 k (Nat.lt_of_lt_of_le hk h1.1)).trans (h1.2 k hk)⟩

theorem HeapExt.of_heapStep {W : Nat → Prop} {hp hp' : Heap} (h : HeapStep W hp hp') (hW : ∀ b, ¬ W b) : HeapExt hp hp' :=
  ⟨h.1, fun b hb => h.2 b hb (hW b)⟩

theorem cell_lt {h : Heap} {b o : Nat} {v : Val} (hc : h.cell? b o = some v) : b < h.blocks.size := by
  unfold Heap.cell? at hc
  rcases Nat.lt_or_ge b h.blocks.size with h' | h'
  · exact h'
  · rw [Array.getElem?_eq_none h'] at hc; simp at hc

theorem HeapExt.cell {h h' : Heap} (he : HeapExt h h') {b o : Nat} {v : Val} (hc : h.cell? b o = some v) :
    h'.cell? b o = some v := by
  have hb := cell_lt hc
  unfold Heap.cell? at hc ⊢
  rw [he.2 b hb]; exact hc

theorem HeapExt.uninit {h h' : Heap} (he : HeapExt h h') {b o : Nat} (hu : UninitAt h b o) : UninitAt h' b o :=
  fun k hk => he.cell (hu k hk)

theorem HeapExt.argUninit {h h' : Heap} (he : HeapExt h h') {a : RVal} (hu : ArgUninit h a) : ArgUninit h' a := by
  unfold ArgUninit at hu ⊢
  split
  · rename_i b o
    simp only at hu
    exact he.uninit hu
  · rename_i b o len cap
    simp only at hu
    obtain ⟨hl, i, pb, po, hi, hc, hu'⟩ := hu
    exact ⟨hl, i, pb, po, hi, he.cell hc, he.uninit hu'⟩
  · rename_i h1 h2
    split at hu
    · exact absurd rfl (h1 _ _)
    · exact absurd rfl (h2 _ _ _ _)
    · exact hu

/-! ## one quiet step -/

theorem quiet_noWAddr {P : Program} {i : Instr} (hq : quiet i = true) (fr : Frame) (b : Nat) : ¬ WAddr P fr i b := by
  unfold WAddr
  unfold quiet at hq
  cases hop : i.op with
  | store vk a v => simp [hop] at hq
  | call callee args =>
    cases callee with
    | builtin n =>
      simp only [hop] at hq ⊢
      rintro ⟨hn, _⟩
      subst hn
      revert hq
      decide
    | fn g => simp [hop] at hq
    | extern n => simp [hop] at hq
    | dynamic v => simp [hop] at hq
    | invoke v m => simp [hop] at hq
  | _ => simp

theorem jumpTo_spec {P : Program} {fr fr' : Frame} {t : Nat} (h : jumpTo P fr t = some fr') :
    ∃ tb vals, fr.f.blocks[t]? = some tb ∧
      fr' = { fr with regs := assignAll fr.regs vals, blk := t, rest := (splitPhis tb.instrs).2 } := by
  unfold jumpTo at h
  cases hb : fr.f.blocks[t]? with
  | none => simp [hb] at h
  | some b =>
    simp only [hb, Option.bind_eq_bind, Option.bind_some] at h
    cases hv : evalPhis P fr fr.blk (splitPhis b.instrs).1 with
    | none => simp [hv] at h
    | some vals =>
      simp only [hv, Option.bind_some] at h
      cases h
      exact ⟨b, vals, rfl, rfl⟩

/-- outcome of a quiet instruction `i` of the frame `fr0` (rest `i :: rest`) alone on the stack `frs` -/
inductive QStep (P : Program) (hp : Heap) (fr0 : Frame) (frs : List Frame) (i : Instr) (rest : List Instr) : Step → Prop
  | fault (w : String) : QStep P hp fr0 frs i rest (.fault w)
  | panic (st : List Frame) (c : Val) (evs : List Event) : QStep P hp fr0 frs i rest (.panic ⟨hp, st⟩ c evs)
  | next (fr' : Frame) (hp' : Heap) (evs : List Event) : fr'.f = fr0.f → fr'.params = fr0.params → fr'.blk = fr0.blk →
      fr'.rest = rest → HeapExt hp hp' → (∀ k v, k ≠ i.id → fr0.regs[k]? = some v → fr'.regs[k]? = some v) →
      QStep P hp fr0 frs i rest (.cont ⟨hp', fr' :: frs⟩ evs)
  | jump (t : Nat) (tb : Block) (fr' : Frame) (evs : List Event) : JumpTarget i.op t → fr0.f.blocks[t]? = some tb →
      fr'.f = fr0.f → fr'.params = fr0.params → fr'.blk = t → fr'.rest = (splitPhis tb.instrs).2 →
      jumpTo P (popI fr0 rest) t = some fr' →
      QStep P hp fr0 frs i rest (.cont ⟨hp, fr' :: frs⟩ evs)

theorem quiet_step {P : Program} {hp : Heap} {fr0 : Frame} {frs : List Frame} {i : Instr} {rest : List Instr}
    (hr : fr0.rest = i :: rest) (hq : quiet i = true) : QStep P hp fr0 frs i rest (step P ⟨hp, fr0 :: frs⟩) := by
  have hs := step_shape (P := P) (hp := hp) (frs := frs) hr
  generalize step P ⟨hp, fr0 :: frs⟩ = r at hs
  have hW := quiet_noWAddr (P := P) hq (popI fr0 rest)
  cases hs with
  | fault w => exact .fault w
  | panic c evs => exact .panic _ c evs
  | reg v hp' evs _ hh _ _ =>
    refine .next { popI fr0 rest with regs := regSet (popI fr0 rest).regs i.id v } hp' evs rfl rfl rfl rfl (HeapExt.of_heapStep hh hW) ?_
    intro k w hk hw
    exact regSet_other hk hw
  | noreg hp' evs hh _ => exact .next (popI fr0 rest) hp' evs rfl rfl rfl rfl (HeapExt.of_heapStep hh hW) (fun _ _ _ h => h)
  | jump t fr' evs ht hj =>
    obtain ⟨tb, vals, hb, e⟩ := jumpTo_spec hj
    subst e
    exact .jump t tb _ evs ht hb rfl rfl rfl rfl hj
  | call g gf cargs vs nf evs hop _ _ _ => simp [quiet, hop] at hq
  | once b o g gf nf hp' args evs hop _ _ _ _ => simp [quiet, hop] at hq
  | ret vals vs hop _ => simp [quiet, hop] at hq

theorem jumpTarget_isCtl {op : Op} {t : Nat} (h : JumpTarget op t) : isCtl op = true := by
  cases op <;> simp [JumpTarget] at h <;> rfl

theorem jumpTarget_mem {op : Op} {t : Nat} {succs : List Nat} (h : JumpTarget op t) (hs : targetsIn succs op = true) : t ∈ succs := by
  cases op <;> simp [JumpTarget] at h
  · rename_i c t1 e1
    simp only [targetsIn, Bool.and_eq_true] at hs
    rcases h with h | h
    · subst h; exact (memNat_iff _ _).1 hs.1
    · subst h; exact (memNat_iff _ _).1 hs.2
  · subst h
    simp only [targetsIn] at hs
    exact (memNat_iff _ _).1 hs

/-! ## the block graph: `avoiding f B` is closed under the successor lists, up to `B` -/

theorem succMasks_get : ∀ (bs : List Block) (j : Nat) (bl : Block), bs[j]? = some bl →
    (succMasks bs)[j]? = some (listMask bl.succs 0) := by
  intro bs
  induction bs with
  | nil => intro j bl h; simp at h
  | cons b bs ih =>
    intro j bl h
    cases j with
    | zero => simp at h; subst h; simp [succMasks]
    | succ j => simp at h; simpa [succMasks] using ih j bl h

theorem closed_of_fix_blocked {masks : List Nat} {blocked S : Nat} (hfix : (closeStep masks blocked S == S) = true)
    {j m k : Nat} (hj : masks[j]? = some m) (hS : S.testBit j = true) (hm : m.testBit k = true) :
    S.testBit k = true ∨ blocked.testBit k = true := by
  have e : closeStep masks blocked S = S := by simpa using hfix
  cases hb : blocked.testBit k with
  | true => exact Or.inr rfl
  | false =>
    left
    rw [← e]
    unfold closeStep
    simp only
    rw [testBit_sub_and, hb]
    simp only [Bool.not_false, Bool.and_true]
    rw [testBit_closeStepGo]
    exact Or.inr ⟨j, m, hj, by simpa using hS, hm⟩

theorem regionQuiet_get (A : Nat) : ∀ (bs : List Block) (b0 j : Nat) (bl : Block), regionQuiet A bs b0 = true →
    bs[j]? = some bl → A.testBit (b0 + j) = true → allQuiet bl.succs bl.instrs = true := by
  intro bs
  induction bs with
  | nil => intro b0 j bl _ h; simp at h
  | cons c cs ih =>
    intro b0 j bl h hj hA
    simp only [regionQuiet, Bool.and_eq_true, Bool.or_eq_true, Bool.not_eq_true'] at h
    cases j with
    | zero =>
      simp at hj; subst hj
      rcases h.1 with h1 | h1
      · simp only [Nat.add_zero] at hA; rw [hA] at h1; cases h1
      · exact h1
    | succ j =>
      simp at hj
      exact ih (b0 + 1) j bl h.2 hj (by rw [show b0 + 1 + j = b0 + (j + 1) by omega]; exact hA)

/-- what `regionOk` says for `B ≠ 0` -/
structure Region (f : Func) (B : Nat) : Prop where
  entry : (avoiding f B).testBit 0 = true
  closed : ∀ b bl t, f.blocks[b]? = some bl → (avoiding f B).testBit b = true → t ∈ bl.succs →
    (avoiding f B).testBit t = true ∨ t = B
  quiet : ∀ b bl, f.blocks[b]? = some bl → (avoiding f B).testBit b = true → allQuiet bl.succs bl.instrs = true

theorem region_of_ok {f : Func} {B : Nat} (h : regionOk f B = true) (hB : B ≠ 0) : Region f B := by
  unfold regionOk at h
  rw [forceNat_eq] at h
  simp only [Bool.or_eq_true, beq_iff_eq] at h
  rcases h with h | h3
  · exact absurd h hB
  · refine ⟨avoiding_entry hB, ?_, ?_⟩
    · intro b bl t hb hA ht
      have hfix : (closeStep (succMasks f.blocks) (1 <<< B) (avoiding f B) == avoiding f B) = true := by
        rw [avoiding_fix hB]; simp
      have := closed_of_fix_blocked hfix (succMasks_get f.blocks b bl hb) hA
        ((testBit_listMask bl.succs 0 t).2 (Or.inr ht))
      rcases this with h | h
      · exact Or.inl h
      · right
        rw [testBit_one_shl] at h
        exact (of_decide_eq_true h).symm
    · intro b bl hb hA
      exact regionQuiet_get _ f.blocks 0 b bl h3 hb (by simpa using hA)

/-! ## leading phis -/

theorem splitPhis_allQuiet (succs : List Nat) : ∀ (is : List Instr), allQuiet succs is = true →
    allQuiet succs (splitPhis is).2 = true := by
  intro is
  induction is with
  | nil => intro h; exact h
  | cons i is ih =>
    intro h
    simp only [allQuiet, Bool.and_eq_true] at h
    unfold splitPhis
    split
    · exact ih h.2
    · simp only [allQuiet, Bool.and_eq_true]; exact h

theorem splitPhis_preSite (P : Program) (pol : GuardPolicy) (gi j : Nat) (p : Param) : ∀ (is : List Instr),
    preSite P pol gi j p is = true → preSite P pol gi j p (splitPhis is).2 = true := by
  intro is
  induction is with
  | nil => intro h; exact h
  | cons i is ih =>
    intro h
    unfold splitPhis
    split
    · rename_i es hop
      simp only [preSite, siteStart, hop, Bool.false_or, Bool.and_eq_true] at h
      exact ih h.2
    · exact h

end EdVerif.Ssa.GS
