import EdVerif.Ssa.GuardSound.Exec
/-!
# At the site: the fill of the variadic array, the guard call, the delegating call
-/
namespace EdVerif.Ssa.GS

open EdVerif.Ssa EdVerif.Ssa.PS EdVerif.Ssa.ES EdVerif.Ssa.GuardSide

/-- what is used of the guard function -/
def GuardSafe (P : Program) (gi : Nat) : Prop :=
  ∀ (hp : Heap) (sl : RVal) (s0 : State), (∃ b o len cap, sl = [.slice b o len cap]) → ArgUninit hp sl →
    callState P hp gi [sl] = some s0 → ∀ m, Safe P m s0

/-- what is used of the readers a reader delegates to (for runs of at most `m` steps) -/
def DelegSafe (P : Program) (pol : GuardPolicy) (m : Nat) : Prop :=
  ∀ (g : Nat) (gf : Func) (names : List Nm) (k : Nat) (hp : Heap) (vs : List RVal) (a : RVal) (s0 : State),
    P.funcs[g]? = some gf → lookupGuarded gf.name pol.guarded = some names → (namesMask gf.params names 0).testBit k = true →
    vs[k]? = some a → ArgForm P gf k a → ArgUninit hp a → callState P hp g vs = some s0 → ∀ m', m' ≤ m → Safe P m' s0

structure WinInv (heap0 : Heap) (args : Array RVal) (a nb n pb po : Nat) (k : Nat) (found : Bool) (fr : Frame) (hp : Heap) : Prop where
  params : fr.params = args
  rega : fr.regs[a]? = some [.ptr nb 0]
  fresh : heap0.blocks.size ≤ nb
  ext : HeapExt heap0 hp
  cell : found = true → ∃ kt, kt < n ∧ kt < k ∧ hp.cell? nb kt = some (.ptr pb po)

section fill
variable {P : Program} {gi a T j aty n e : Nat} {heap0 : Heap} {args : Array RVal} {pb po : Nat}

theorem fill_safe (hT : P.tyOf T = .ptr aty) (harr : P.tyOf aty = .arr n e) (hsz : P.size e = some 1) (hn : n < 2 ^ 63)
    (GS : GuardSafe P gi) (haj : args[j]? = some [.ptr pb po]) (hu : UninitAt heap0 pb po) :
    ∀ (L : Nat) (is : List Instr), is.length ≤ L → ∀ (k : Nat) (found : Bool) (fr : Frame) (hp : Heap) (nb m : Nat), fr.rest = is →
      fillOk P gi a T j is k found = true → WinInv heap0 args a nb n pb po k found fr hp → Safe P m ⟨hp, [fr]⟩ := by
  intro L
  induction L with
  | zero =>
    intro is hL k found fr hp nb m _ hfill _
    have : is = [] := List.eq_nil_of_length_eq_zero (by omega)
    subst this
    simp [fillOk] at hfill
  | succ L ih =>
    intro is hL k found fr hp nb m hrest hfill W
    unfold fillOk at hfill
    split at hfill
    · rename_i ia st rest
      split at hfill
      · -- `&a[k]`, `*_ = param j'`
        rename_i xk a' ck k' vk r j' hia hst
        simp only [Bool.and_eq_true, beq_iff_eq, bne_iff_ne, ne_eq] at hfill
        obtain ⟨⟨⟨⟨⟨⟨ha', hk'⟩, hr⟩, hne⟩, hTy⟩, hidx⟩, hrec⟩ := hfill
        subst ha'; subst hk'; subst hr
        cases m with
        | zero => exact Safe.zero _ _
        | succ m =>
          have hs1 : step P ⟨hp, [fr]⟩ = _ := step_indexAddr_eq hrest hia
          have hc := stepIndexAddr_arr (P := P) (hp := hp) (fr := popI fr (st :: rest)) (frs := []) (i := ia)
            (x := .reg a') (ix := .cint ck k') (b := nb) (o := 0) (v := k')
            (by simp only [evalOpnd]; exact W.rega) rfl (by rw [hTy]; exact hT) harr hsz
          rcases hc with ⟨w, hc⟩ | ⟨s, c, evs, hc⟩ | ⟨w, sg, kk, hio, hci, hc⟩
          · exact Safe.of_fault (hs1.trans hc) _
          · exact Safe.of_panic (hs1.trans hc) _
          · have hkw : k' < 2 ^ (w - 1) := by
              unfold idxOk at hidx
              rw [hio] at hidx
              simpa using hidx
            obtain ⟨ekk, hkn⟩ := checkIndex_some hci hkw
            subst ekk
            refine Safe.of_cont (hs1.trans hc) ?_
            cases m with
            | zero => exact Safe.zero _ _
            | succ m =>
              have hs2 : step P ⟨hp, [{ popI fr (st :: rest) with regs := regSet (popI fr (st :: rest)).regs ia.id [.ptr nb (0 + kk * 1)] }]⟩ = _ :=
                step_store_eq (rest := rest) rfl hst
              have hc2 := stepStore_ptr (P := P) (hp := hp)
                (fr := popI { popI fr (st :: rest) with regs := regSet (popI fr (st :: rest)).regs ia.id [.ptr nb (0 + kk * 1)] } rest)
                (frs := []) (i := st) (a := .reg ia.id) (v := .param j') (b := nb) (o := 0 + kk * 1)
                (by simp only [evalOpnd]; exact regSet_self _ _ _)
              rcases hc2 with ⟨w2, hc2⟩ | ⟨vs, h, hv, hw, hc2⟩
              · exact Safe.of_fault (hs2.trans hc2) _
              · refine Safe.of_cont (hs2.trans hc2) ?_
                refine ih rest (by simp at hL; omega) (kk + 1) (found || j' == j) _ h nb m rfl hrec ?_
                have hoff : 0 + kk * 1 = kk := by omega
                rw [hoff] at hw
                refine ⟨W.params, ?_, W.fresh, Heap.write_ext hw W.fresh W.ext, ?_⟩
                · exact regSet_other (fun e => hne e.symm) W.rega
                · intro hf
                  by_cases hfound : found = true
                  · obtain ⟨kt, h1, h2, h3⟩ := W.cell hfound
                    exact ⟨kt, h1, by omega, by rw [Heap.write_cell_lt hw h2]; exact h3⟩
                  · have hj : j' = j := by
                      cases found <;> simp_all
                    subst hj
                    simp only [evalOpnd] at hv
                    have hv' : (popI fr (st :: rest)).params[j']? = some vs := hv
                    have : vs = [.ptr pb po] := by
                      have h1 : fr.params[j']? = some vs := hv'
                      rw [W.params, haj] at h1
                      exact (Option.some.inj h1).symm
                    subst this
                    exact ⟨kk, hkn, by omega, Heap.write_cell_head hw⟩
      · -- `a[:]`, the guard call
        rename_i xk a' g s hia hst
        simp only [Bool.and_eq_true, beq_iff_eq] at hfill
        obtain ⟨⟨⟨⟨ha', hg⟩, hs⟩, hTy⟩, hfound⟩ := hfill
        subst ha'; subst hg; subst hs
        cases m with
        | zero => exact Safe.zero _ _
        | succ m =>
          have hs1 : step P ⟨hp, [fr]⟩ = _ := step_slice_eq hrest hia
          have hc := stepSlice_arr (P := P) (hp := hp) (fr := popI fr (st :: rest)) (frs := []) (i := ia)
            (x := .reg a') (b := nb) (o := 0)
            (by simp only [evalOpnd]; exact W.rega) (by rw [hTy]; exact hT) harr hsz
          refine Safe.of_cont (hs1.trans hc) ?_
          cases m with
          | zero => exact Safe.zero _ _
          | succ m =>
            have hs2 : step P ⟨hp, [{ popI fr (st :: rest) with regs := regSet (popI fr (st :: rest)).regs ia.id [.slice nb 0 n n] }]⟩ = _ :=
              step_call_eq (rest := rest) rfl hst
            rcases stepCall_fn_cases P hp
                (popI { popI fr (st :: rest) with regs := regSet (popI fr (st :: rest)).regs ia.id [.slice nb 0 n n] } rest)
                [] st g [.reg ia.id] with ⟨w, hc2⟩ | ⟨vs, gf, nf, hvs, hgf, hnf, hc2⟩
            · exact Safe.of_fault (hs2.trans hc2) _
            · refine Safe.of_cont (hs2.trans hc2) ?_
              obtain ⟨v, ws, hv, hws, e⟩ := evalOpnds_cons_some hvs
              subst e
              simp only [evalOpnds, Option.some.injEq] at hws
              subst hws
              simp only [evalOpnd] at hv
              have hv' : (regSet fr.regs ia.id [.slice nb 0 n n])[ia.id]? = some v := hv
              rw [regSet_self] at hv'
              cases hv'
              obtain ⟨s0, hcs, hlift⟩ := lift_call (hp := hp) (rest := [popI { popI fr (st :: rest) with regs := regSet (popI fr (st :: rest)).regs ia.id [.slice nb 0 n n] } rest]) hgf hnf
              apply hlift m
              intro m' _
              refine GS hp _ s0 ⟨nb, 0, n, n, rfl⟩ ?_ hcs m'
              obtain ⟨kt, h1, _, h3⟩ := W.cell hfound
              show n < 2 ^ 63 ∧ ∃ i pb po, i < n ∧ hp.cell? nb (0 + i) = some (.ptr pb po) ∧ UninitAt hp pb po
              exact ⟨hn, kt, pb, po, h1, by rw [Nat.zero_add]; exact h3, W.ext.uninit hu⟩
      · simp at hfill
    · simp at hfill

end fill

end EdVerif.Ssa.GS
