import EdVerif.Ssa.GuardSound.Phase1
import EdVerif.Ssa.GuardSound.Window
/-!
# Soundness of the guard-dominance checker (+ side conditions): `GuardStatement`
-/
namespace EdVerif.Ssa.GS

open EdVerif.Ssa EdVerif.Ssa.PS EdVerif.Ssa.ES EdVerif.Ssa.GuardSide

/-! ## what the side conditions say -/

theorem paramIdx?_lt (nm : Nm) : ∀ (ps : List Param) (i k : Nat), paramIdx? nm ps i = some k → k < i + ps.length := by
  intro ps
  induction ps with
  | nil => intro i k h; simp [paramIdx?] at h
  | cons p ps ih =>
    intro i k h
    simp only [paramIdx?] at h
    split at h
    · cases h; simp
    · have := ih (i + 1) k h
      simp; omega

theorem namesMask_bit (ps : List Param) : ∀ (ns : List Nm) (m j : Nat), (namesMask ps ns m).testBit j = true →
    m.testBit j = true ∨ j < ps.length := by
  intro ns
  induction ns with
  | nil => intro m j h; exact Or.inl h
  | cons n ns ih =>
    intro m j h
    simp only [namesMask] at h
    rcases ih _ j h with h1 | h1
    · split at h1
      · rename_i i hi
        simp only [Nat.testBit_or, Bool.or_eq_true, testBit_one_shl, decide_eq_true_eq] at h1
        rcases h1 with h1 | h1
        · exact Or.inl h1
        · subst h1
          have := paramIdx?_lt n ps 0 i hi
          exact Or.inr (by omega)
      · exact Or.inl h1
    · exact Or.inr h1

theorem sitesOk_get (P : Program) (pol : GuardPolicy) (gi : Nat) (f : Func) (G : Nat) : ∀ (ps : List Param) (j0 k : Nat) (p : Param),
    sitesOk P pol gi f G ps j0 = true → ps[k]? = some p → G.testBit (j0 + k) = true →
    siteIn P pol gi f (j0 + k) p f.blocks 0 = true := by
  intro ps
  induction ps with
  | nil => intro j0 k p _ h; simp at h
  | cons q qs ih =>
    intro j0 k p h hk hG
    simp only [sitesOk, Bool.and_eq_true, Bool.or_eq_true, Bool.not_eq_true'] at h
    cases k with
    | zero =>
      simp at hk; subst hk
      simp only [Nat.add_zero] at hG ⊢
      rcases h.1 with h1 | h1
      · rw [hG] at h1; cases h1
      · exact h1
    | succ k =>
      simp at hk
      have := ih (j0 + 1) k p h.2 hk (by rw [show j0 + 1 + k = j0 + (k + 1) by omega]; exact hG)
      rw [show j0 + 1 + k = j0 + (k + 1) by omega] at this
      exact this

theorem siteIn_spec (P : Program) (pol : GuardPolicy) (gi : Nat) (f : Func) (j : Nat) (p : Param) : ∀ (bs : List Block) (B0 : Nat),
    siteIn P pol gi f j p bs B0 = true →
    ∃ B bl, bs[B]? = some bl ∧ preSite P pol gi j p bl.instrs = true ∧ regionOk f (B0 + B) = true := by
  intro bs
  induction bs with
  | nil => intro B0 h; simp [siteIn] at h
  | cons b bs ih =>
    intro B0 h
    simp only [siteIn, Bool.or_eq_true, Bool.and_eq_true] at h
    rcases h with ⟨h1, h2⟩ | h
    · exact ⟨0, b, by simp, h1, by simpa using h2⟩
    · obtain ⟨B, bl, hb, h1, h2⟩ := ih (B0 + 1) h
      exact ⟨B + 1, bl, by simpa using hb, h1, by rw [show B0 + (B + 1) = B0 + 1 + B by omega]; exact h2⟩

theorem delegArgs_spec (cm : Nat) (gps : List Param) (j tyId : Nat) : ∀ (as : List Opnd) (k0 : Nat),
    delegArgs cm gps j tyId as k0 = true →
    ∃ k q, as[k]? = some (.param j) ∧ cm.testBit (k0 + k) = true ∧ gps[k0 + k]? = some q ∧ q.tyId = tyId := by
  intro as
  induction as with
  | nil => intro k0 h; simp [delegArgs] at h
  | cons o as ih =>
    intro k0 h
    simp only [delegArgs, Bool.or_eq_true] at h
    rcases h with h | h
    · split at h
      · rename_i j'
        simp only [Bool.and_eq_true, beq_iff_eq] at h
        obtain ⟨⟨hj, hcm⟩, hq⟩ := h
        subst hj
        split at hq
        · rename_i q hq'
          exact ⟨0, q, by simp, by simpa using hcm, by simpa using hq', by simpa using hq⟩
        · cases hq
      · cases h
    · obtain ⟨k, q, h1, h2, h3, h4⟩ := ih (k0 + 1) h
      exact ⟨k + 1, q, by simpa using h1, by rw [show k0 + (k + 1) = k0 + 1 + k by omega]; exact h2,
        by rw [show k0 + (k + 1) = k0 + 1 + k by omega]; exact h3, h4⟩

theorem calleeMask_spec {P : Program} {pol : GuardPolicy} {g k : Nat} {gf : Func} (hgf : P.funcs[g]? = some gf)
    (h : (calleeGuardedMask P pol g).testBit k = true) :
    ∃ names, lookupGuarded gf.name pol.guarded = some names ∧ (namesMask gf.params names 0).testBit k = true := by
  unfold calleeGuardedMask at h
  rw [hgf] at h
  simp only at h
  split at h
  · rename_i names hn
    exact ⟨names, hn, h⟩
  · simp at h

/-! ## the site -/

section site
variable {P : Program} {pol : GuardPolicy} {gi j : Nat} {p : Param} {f : Func} {args : Array RVal} {heap0 : Heap} {a : RVal}

theorem site_safe (GS : GuardSafe P gi) (hpj : f.params[j]? = some p) (haj : args[j]? = some a)
    (hform : ArgForm P f j a) (hu : ArgUninit heap0 a) :
    ∀ m, DelegSafe P pol m → SiteGoal P pol gi j p f args heap0 (m + 1) := by
  intro m DS fr hp hf hpar hext hsite
  have hfm := hform p hpj
  cases hrest : fr.rest with
  | nil => rw [hrest] at hsite; simp [siteStart] at hsite
  | cons i rest =>
    rw [hrest] at hsite
    simp only [siteStart] at hsite
    split at hsite
    · -- the variadic array
      rename_i hpf ek hop
      simp only [Bool.and_eq_true] at hsite
      obtain ⟨⟨hptr, harrOk⟩, hfill⟩ := hsite
      -- the argument is a pointer
      have hap : ∃ pb po, a = [.ptr pb po] := by
        unfold isPtrTy at hptr
        split at hptr
        · rename_i e he
          rw [he] at hfm
          exact hfm
        · cases hptr
      obtain ⟨pb, po, e⟩ := hap
      subst e
      -- the array type
      unfold arrTyOk at harrOk
      split at harrOk
      · rename_i aty hT
        split at harrOk
        · rename_i n e harr
          simp only [Bool.and_eq_true, decide_eq_true_eq, beq_iff_eq] at harrOk
          obtain ⟨hn, hsz⟩ := harrOk
          have hs1 : step P ⟨hp, [fr]⟩ = _ := step_alloc_eq hrest hop
          rcases stepAlloc_cases P hp (popI fr rest) [] i with ⟨w, hc⟩ | ⟨e', zs, _, _, hc⟩
          · exact Safe.of_fault (hs1.trans hc) _
          · refine Safe.of_cont (hs1.trans hc) ?_
            refine fill_safe hT harr hsz hn GS haj hu rest.length rest (Nat.le_refl _) 0 false _ _ hp.blocks.size m rfl hfill ?_
            refine ⟨hpar, regSet_self _ _ _, hext.1, Heap.alloc_ext zs hext, ?_⟩
            intro h; cases h
        · cases harrOk
      · cases harrOk
    · -- a call
      rename_i g cargs hop
      have hs1 : step P ⟨hp, [fr]⟩ = _ := step_call_eq hrest hop
      rcases stepCall_fn_cases P hp (popI fr rest) [] i g cargs with ⟨w, hc⟩ | ⟨vs, gf, nf, hvs, hgf, hnf, hc⟩
      · exact Safe.of_fault (hs1.trans hc) _
      · refine Safe.of_cont (hs1.trans hc) ?_
        obtain ⟨s0, hcs, hlift⟩ := lift_call (hp := hp) (rest := [popI fr rest]) hgf hnf
        apply hlift m
        have hpa : (popI fr rest).params[j]? = some a := by
          show fr.params[j]? = some a
          rw [hpar]; exact haj
        split at hsite
        · -- the guard itself, on the slice parameter
          rename_i hg
          have hg' : g = gi := by simpa using hg
          subst hg'
          split at hsite
          · rename_i j'
            simp only [Bool.and_eq_true, beq_iff_eq] at hsite
            obtain ⟨hj, hsl⟩ := hsite
            subst hj
            have hasl : ∃ b o len cap, a = [.slice b o len cap] := by
              unfold isSliceTy at hsl
              split at hsl
              · rename_i e he
                rw [he] at hfm
                exact hfm
              · cases hsl
            obtain ⟨v, ws, hv, hws, e⟩ := evalOpnds_cons_some hvs
            subst e
            simp only [evalOpnds, Option.some.injEq] at hws
            subst hws
            simp only [evalOpnd] at hv
            rw [hpa] at hv
            cases hv
            intro m' _
            exact GS hp a s0 hasl (hext.argUninit hu) hcs m'
          · cases hsite
        · -- a delegating call
          rename_i hg
          split at hsite
          · rename_i gf' hgf'
            rw [hgf] at hgf'
            cases hgf'
            obtain ⟨k, q, hk, hcm, hq, hqt⟩ := delegArgs_spec _ _ _ _ _ _ hsite
            simp only [Nat.zero_add] at hcm hq
            obtain ⟨names, hnames, hbit⟩ := calleeMask_spec hgf hcm
            obtain ⟨hvk, _⟩ := evalOpnds_param _ _ _ _ _ hvs hk
            rw [hpa] at hvk
            refine DS g gf names k hp vs a s0 hgf hnames hbit hvk ?_ (hext.argUninit hu) hcs
            intro q' hq'
            rw [hq] at hq'
            cases hq'
            rw [hqt]
            exact hfm
          · cases hsite
    · cases hsite

end site

/-! ## the induction -/

section main
variable {P : Program} {pol : GuardPolicy} {gi : Nat}

/-- a reader of the policy entered with an uninitialized point in a guarded position is safe for `n` steps -/
def Claim (P : Program) (pol : GuardPolicy) (n : Nat) : Prop :=
  ∀ (g : Nat) (gf : Func) (names : List Nm) (k : Nat) (hp : Heap) (vs : List RVal) (a : RVal) (s0 : State),
    P.funcs[g]? = some gf → lookupGuarded gf.name pol.guarded = some names → (namesMask gf.params names 0).testBit k = true →
    vs[k]? = some a → ArgForm P gf k a → ArgUninit hp a → callState P hp g vs = some s0 → Safe P n s0

theorem claim_all
    (hside : ∀ (fi : Nat) f names, P.funcs[fi]? = some f → lookupGuarded f.name pol.guarded = some names →
      sitesOk P pol gi f (namesMask f.params names 0) f.params 0 = true)
    (GS : GuardSafe P gi) : ∀ n, Claim P pol n := by
  intro n
  induction n using Nat.strongRecOn with
  | _ n ih =>
    intro fi f names j heap args a s hf hnames hbit haj hform hu hs
    -- the declaration of parameter `j` and its site
    have hjlt : j < f.params.length := by
      rcases namesMask_bit f.params names 0 j hbit with h | h
      · simp at h
      · exact h
    have hpj : f.params[j]? = some f.params[j] := List.getElem?_eq_getElem hjlt
    have hsites := hside fi f names hf hnames
    have hin := sitesOk_get P pol gi f _ f.params 0 j _ hsites hpj (by simpa using hbit)
    simp only [Nat.zero_add] at hin
    obtain ⟨B, bl, hBl, hpre, hreg⟩ := siteIn_spec P pol gi f j _ f.blocks 0 hin
    simp only [Nat.zero_add] at hreg
    -- the initial state
    unfold callState at hs
    rw [hf] at hs
    simp only [Option.bind_eq_bind, Option.bind_some] at hs
    unfold mkFrame at hs
    cases hb0 : f.blocks[0]? with
    | none => rw [hb0] at hs; simp at hs
    | some b0 =>
      rw [hb0] at hs
      simp at hs
      subst hs
      have haj' : args.toArray[j]? = some a := by simpa using haj
      refine phase1 (P := P) (pol := pol) (gi := gi) (j := j) (p := f.params[j]) (f := f) (args := args.toArray) (heap0 := heap)
        hBl hpre hreg n _ heap rfl rfl (HeapExt.refl _) ?_ ?_
      · by_cases hB0 : B = 0
        · subst hB0
          rw [hb0] at hBl
          cases hBl
          exact Or.inl ⟨rfl, hpre⟩
        · have R := region_of_ok hreg hB0
          exact Or.inr ⟨hB0, R.entry, b0, hb0, R.quiet 0 b0 hb0 R.entry⟩
      · intro m hm
        cases m with
        | zero => intro fr hp _ _ _ _; exact Safe.zero _ _
        | succ m =>
          refine site_safe GS hpj haj' hform hu m ?_
          intro g gf names' k hp vs a' s0 h1 h2 h3 h4 h5 h6 h7 m' hm'
          exact ih m' (by omega) g gf names' k hp vs a' s0 h1 h2 h3 h4 h5 h6 h7

end main

end EdVerif.Ssa.GS

namespace EdVerif.Ssa

open EdVerif.Ssa.PS EdVerif.Ssa.GS

/-- the core of **C15**: neither the provenance verdict nor `ArgsOk` is needed -/
theorem guard_sound_core {prog : Program} {hints : List FuncHints} {pol : GuardPolicy}
    (hguard : guardOkSimple prog hints pol = true) {gi : Nat} (hgi : prog.funcIdx? pol.guardFn = some gi)
    (hspec : GuardFnSpec prog gi)
    {fi : Nat} {f : Func} {names : List Nm} (hf : prog.funcs[fi]? = some f) (hnames : lookupGuarded f.name pol.guarded = some names)
    {j : Nat} (hbit : (namesMask f.params names 0).testBit j = true)
    {heap : Heap} {args : List RVal} {s : State} (hs : callState prog heap fi args = some s)
    (harg : ∃ a, args[j]? = some a ∧ ArgForm prog f j a ∧ ArgUninit heap a) :
    ∀ fuel s' rets, run prog fuel s ≠ .done s' rets := by
  obtain ⟨a, haj, hform, hu⟩ := harg
  intro fuel
  simp only [guardOkSimple, Bool.and_eq_true] at hguard
  have hsideAll := allClean_spec _ _ _ _ hguard.2
  refine claim_all (P := prog) (pol := pol) (gi := gi) ?_ ?_ fuel fi f names j heap args a s hf hnames hbit haj hform hu hs
  · intro fi' f' names' hf' hnames'
    obtain ⟨h, _, hc⟩ := hsideAll fi' f' hf'
    have hsel : GuardSide.sideSelector prog pol (0 + fi') f' h =
        some { fnKinds := if GuardSide.sitesOk prog pol gi f' (namesMask f'.params names' 0) f'.params 0 then [] else [K.malformed],
               instr := fun _ _ _ => [] } := by
      simp only [GuardSide.sideSelector, hnames', hgi, Option.getD_some]
    have := hc _ hsel
    simp only [FuncCheck.clean, Bool.and_eq_true, List.isEmpty_iff] at this
    have h1 := this.1
    split at h1
    · assumption
    · cases h1
  · intro hp sl s0 hsl hun hcs m
    exact (hspec hp sl s0 hcs).2 (by obtain ⟨b, o, len, cap, e⟩ := hsl; exact ⟨b, o, len, cap, e, hun⟩) m

/-- **C15**, soundness of the guard-dominance checker (+ side conditions) w.r.t. the execution semantics -/
theorem guard_sound : GuardStatement := by
  intro prog hints pol _ hguard gi hgi hspec fi f names hf hnames j hbit heap args s _ hs harg
  exact guard_sound_core hguard hgi hspec hf hnames hbit hs harg

end EdVerif.Ssa
