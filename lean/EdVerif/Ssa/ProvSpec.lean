import EdVerif.Ssa.Sem
import EdVerif.Ssa.Prov
import EdVerif.Ssa.Wf
/-!
# C11(b) / C19 — what the provenance checkers are supposed to guarantee (statements only)

`provConsistent`, `writesCheck`, `returnsCheck` (`Prov.lean`) are evaluated by the kernel on the
regenerated SSA.  This file states, against the execution semantics of `Sem.lean`, what passing
checks mean.  Proofs: `EdVerif/Ssa/ProvSound/*.lean`.

The verdicts are used in the simple form "no offending site at all" (`allClean`), which is what
`verdictOk … []` decides; the simple form is evaluated by the kernel next to the packed one
(`Props/Structural/ProvSound.lean`).

`provOkSimple` / `writesOkSimple` also contain decidable *side conditions* on the program (`Side.*`,
reasons in `EdVerif/Ssa/ProvSound/STATUS.md`), and both statements assume the arguments of the call to
be well-typed for the parameters (`ArgsOk`): without either the statements are false.
-/
namespace EdVerif.Ssa

/-- no function has an offending site for `sel` (every function has hints) -/
def allClean (sel : Selector) : List Func → List FuncHints → Nat → Bool
  | [], _, _ => true
  | f :: fs, hs, i =>
    (match hs with
     | h :: _ => (match sel i f h with | some c => c.clean f | none => true)
     | [] => false) && allClean sel fs hs.tail (i + 1)

/-! ## side conditions

Decidable well-formedness conditions on the program and its hints that the soundness proofs
(`EdVerif/Ssa/ProvSound`) rely on, beyond what `provSelector` / `writesSelector` check.  Each is
listed with its reason in `EdVerif/Ssa/ProvSound/STATUS.md`.  They are evaluated by the kernel on the
regenerated program together with the verdicts. -/
namespace Side

def idMask : List Instr → Nat → Nat
  | [], m => m
  | i :: is, m => idMask is (m ||| (1 <<< i.id))

/-! ### defined-before-use certificate: `D[b]` = registers certainly defined on entry to block `b`
(computed by the usual forward data-flow iteration; the proofs only use the local conditions
`jumpOk`/`D[0] = 0` re-checked below, not the way it is computed) -/

def outMasks : List Block → List Nat → List Nat
  | bl :: bs, d :: ds => (d ||| idMask bl.instrs 0) :: outMasks bs ds
  | _, _ => []

def meetPreds (outs : List Nat) (full : Nat) : List Nat → Nat → Nat
  | [], acc => acc
  | p :: ps, acc => meetPreds outs full ps (acc &&& outs.getD p full)

def defStepGo (outs : List Nat) (full : Nat) : List Block → Nat → List Nat
  | [], _ => []
  | bl :: bs, b => (if b == 0 then 0 else meetPreds outs full bl.preds full) :: defStepGo outs full bs (b + 1)

def defIter (blocks : List Block) (full : Nat) : Nat → List Nat → List Nat
  | 0, D => D
  | k + 1, D =>
    let D' := defStepGo (outMasks blocks D) full blocks 0
    if D' == D then D else defIter blocks full k D'

def initD (full : Nat) : List Block → Nat → List Nat
  | [], _ => []
  | _ :: bs, b => (if b == 0 then 0 else full) :: initD full bs (b + 1)

def defSets (f : Func) : List Nat :=
  let full := 2 ^ f.instrs.length - 1
  defIter f.blocks full (f.blocks.length + 1) (initD full f.blocks 0)

/-- registers defined when the instruction at position `n` of block `b` is about to execute: those of
    the certificate and the `n` instructions before it (ids are positions: `offsets[b] + k`) -/
def defMask (D offsets : List Nat) (b n : Nat) : Nat :=
  D.getD b 0 ||| (((1 <<< n) - 1) <<< offsets.getD b 0)

def definesValue : Op → Bool
  | .store _ _ _ | .if _ _ _ | .jump _ | .ret _ | .panic _ => false
  | _ => true

/-- if type `t'` has a size, `t` has the same -/
def sizeEq (prog : Program) (t t' : Nat) : Bool :=
  match prog.size t' with
  | none => true
  | some n => prog.size t == some n

/-- if type `t` has a size, it is `k` -/
def sizeIs (prog : Program) (t k : Nat) : Bool :=
  match prog.size t with
  | none => true
  | some n => n == k

/-- operand `o` (evaluated with type `useTy`) is defined here and has the size of type `ty` -/
def opndSized (prog : Program) (f : Func) (dm : Nat) (useTy ty : Nat) : Opnd → Bool
  | .reg id =>
    dm.testBit id &&
    (match f.instrs[id]? with
     | some i => definesValue i.op && sizeEq prog i.ty ty
     | none => false)
  | .param i =>
    (match f.params[i]? with
     | some p => sizeEq prog p.tyId ty
     | none => false)
  | .zero _ =>
    (match prog.size ty, prog.zeros useTy with
     | some n, some zs => zs.length == n
     | _, _ => true)
  | .cint _ _ | .cbool _ | .cstr _ | .nil _ | .global _ | .fn _ => sizeIs prog ty 1
  | _ => true

def phisSized (prog : Program) (f : Func) (dm : Nat) (pred : Nat) : List Instr → Bool
  | [] => true
  | i :: is =>
    (match i.op with
     | .phi es =>
       (match phiEdge pred es with
        | some o => opndSized prog f dm i.ty i.ty o
        | none => true)
     | _ => true) && phisSized prog f dm pred is

/-- a transfer of control from position `n` of block `b` to block `t` keeps the certificate, and the
    phi operands for this edge are defined and sized -/
def jumpOk (prog : Program) (f : Func) (D offsets : List Nat) (b n t : Nat) : Bool :=
  match f.blocks[t]? with
  | some bl =>
    -- the terminator itself (position `n`) is counted as executed: it defines no value
    let dm := defMask D offsets b (n + 1)
    (D.getD t 0 &&& dm == D.getD t 0) && phisSized prog f dm b (splitPhis bl.instrs).1
  | none => true

def retSized (prog : Program) (f : Func) (dm : Nat) : List Opnd → List Nat → Bool
  | [], [] => true
  | v :: vs, t :: ts => opndSized prog f dm t t v && retSized prog f dm vs ts
  | _, _ => false

/-- labels of returned operands are covered by the summary whatever their kind -/
def retLab (c : PCtx) : List Opnd → List Prov → Bool
  | [], _ => true
  | v :: vs, ss => Prov.subset (c.lab v).roots (ss.headD 0) && retLab c vs ss.tail

/-- arguments of a call of a program function: sized like the parameters, and only pointer-like
    parameters receive labelled values -/
def argsOk (c : PCtx) (dm : Nat) (ps : List Param) : List Opnd → List Nat → Nat → Bool
  | [], _, _ => true
  | a :: as, tys, j =>
    (match ps[j]? with
     | some p => opndSized c.prog c.f dm (tys.headD 0) p.tyId a && (p.k.pointerish || (c.lab a).roots == 0)
     | none => true) && argsOk c dm ps as tys.tail (j + 1)

/-- label of the defined value whatever its kind (`0`: the value never contains an address) -/
def reqU (c : PCtx) (i : Instr) : Prov :=
  match i.op with
  | .alloc _ _ => Prov.fresh
  | .makeSlice _ _ => Prov.fresh
  | .fieldAddr x _ _ => c.lab x
  | .indexAddr _ x _ => c.lab x
  | .slice _ x _ _ _ => c.lab x
  | .sliceToArrayPointer x => c.lab x
  | .makeInterface x => c.lab x
  | .changeType x => c.lab x
  | .field x _ _ => c.lab x
  | .index x _ => c.lab x
  | .phi es => pPhi c es 0
  | .load _ => if i.k.pointerish then Prov.loaded else 0
  | .extract x idx => pExtract c x idx
  | .call (.fn g) args => (pCallFn c g args).req
  | _ => 0

def allData : List Val → Bool
  | [] => true
  | v :: vs => v.cls == .data && allData vs

def sizesOf (prog : Program) : List Nat → List (Option Nat)
  | [] => []
  | t :: ts => prog.size t :: sizesOf prog ts

def sumSizes (prog : Program) : List Nat → Option Nat
  | [] => some 0
  | t :: ts =>
    match prog.size t, sumSizes prog ts with
    | some a, some b => some (a + b)
    | _, _ => none

/-- size of the value the instruction defines, as far as its type has a size -/
def resSizeOk (c : PCtx) (dm : Nat) (i : Instr) : Bool :=
  let prog := c.prog
  match i.op with
  | .alloc _ _ | .binop _ _ _ _ | .unop _ _ | .convert _ _ | .fieldAddr _ _ _ | .indexAddr _ _ _
  | .slice _ _ _ _ _ | .makeSlice _ _ | .makeInterface _ => sizeIs prog i.ty 1
  | .sliceToArrayPointer _ =>
    sizeIs prog i.ty 1 &&
    (match prog.tyOf i.ty with
     | .ptr aty => (match prog.tyOf aty with | .arr n _ => 1 ≤ n | _ => true)
     | _ => true)
  | .load _ =>
    (match prog.zeros i.ty with
     | some zs => sizeIs prog i.ty zs.length && (i.k.pointerish || allData zs)
     | none => true)
  | .changeType x => opndSized prog c.f dm (i.opTys.headD 0) i.ty x
  | .field _ fld _ =>
    (match prog.tyOf (i.opTys.headD 0) with
     | .struct fs => (match prog.fieldSpan fs fld with | some (_, sz) => sizeIs prog i.ty sz | none => true)
     | _ => true)
  | .extract x fld =>
    (match prog.tyOf (i.opTys.headD 0) with
     | .struct fs =>
       (match prog.fieldSpan fs fld with | some (_, sz) => sizeIs prog i.ty sz | none => true) &&
       (match x with
        | .reg r =>
          (match c.f.instrs[r]? with
           | some ic =>
             (match ic.op with
              | .call (.fn g) _ =>
                (match prog.funcs[g]? with
                 | some gf => sizesOf prog fs == sizesOf prog gf.resultTys
                 | none => false)
              | _ => true)
           | none => true)
        | _ => true)
     | _ => true)
  | .index _ _ =>
    (match prog.tyOf (i.opTys.headD 0) with
     | .arr _ e => (match prog.size e with | some sz => sizeIs prog i.ty sz | none => true)
     | _ => true)
  | .call (.fn g) args =>
    (match prog.funcs[g]? with
     | some gf =>
       (match prog.size i.ty with
        | some n => sumSizes prog gf.resultTys == some n
        | none => true) && argsOk c dm gf.params args i.opTys 0
     | none => true)
  | .call (.extern n) args =>
    if n == Ext.mul64 || n == Ext.add64 || n == Ext.sub64 then sizeIs prog i.ty 2
    else if n == Ext.ctByteEq || n == Ext.ctCompare || n == Ext.leUint64 || n == Ext.errorsNew then sizeIs prog i.ty 1
    else if n == Ext.onceDo then
      sizeIs prog i.ty 0 &&
      -- the flag cell of a `sync.Once` is a package-level variable (or fresh)
      Prov.subset (Prov.minus (c.lab (args.getD 0 .cother)).roots Prov.fresh) Prov.globalMask
    else sizeIs prog i.ty 0
  | .call (.builtin _) _ => sizeIs prog i.ty 1
  | _ => true

def globalsInRange (ng : Nat) : List Opnd → Bool
  | [] => true
  | .global g :: os => g < ng && globalsInRange ng os
  | _ :: os => globalsInRange ng os

def sInstr (c : PCtx) (D offsets : List Nat) (b n : Nat) (i : Instr) : List Nm :=
  let dm := defMask D offsets b n
  if i.id == offsets.getD b 0 + n
     && globalsInRange c.prog.globals.length i.op.operands
     && Prov.subset (reqU c i).roots (provOf c.h.provRegs i.id)
     && resSizeOk c dm i
     && (match i.op with
         | .jump t => jumpOk c.prog c.f D offsets b n t
         | .if _ t e => jumpOk c.prog c.f D offsets b n t && jumpOk c.prog c.f D offsets b n e
         | .ret vs => retSized c.prog c.f dm vs c.f.resultTys && retLab c vs c.h.returns
         | _ => true)
  then [] else [K.malformed]

/-- the function-level side conditions, `D` = the certificate, `offsets` = first id of every block -/
def sideCheck (prog : Program) (hints : List FuncHints) (f : Func) (h : FuncHints) (D offsets : List Nat) : FuncCheck :=
  { fnKinds := if D.headD 0 == 0 && !Prov.has h.writes Prov.loaded then [] else [K.malformed],
    instr := sInstr { prog := prog, hints := hints, f := f, h := h } D offsets }

/-! `forceList xs k = k xs`; under kernel reduction the elements of `xs` are evaluated once, before
`k` duplicates the list (the certificate is used at every instruction) -/
def forceNat {α} (n : Nat) (k : Nat → α) : α :=
  match n with
  | 0 => k 0
  | m + 1 => k (m + 1)

def forceList {α} : List Nat → (List Nat → α) → α
  | [], k => k []
  | x :: xs, k => forceNat x (fun x' => forceList xs (fun xs' => k (x' :: xs')))

def sideSelector (prog : Program) (hints : List FuncHints) : Selector :=
  fun _ f h =>
    forceList (defSets f) fun D =>
    forceList (blockOffsets f.blocks 0) fun offsets =>
    some (sideCheck prog hints f h D offsets)


/-! ### the same conditions with type sizes / layouts read from tables

`Program.size` / `Program.tyOf` index the `Array` of types, which is slow under kernel reduction
(milliseconds per access).  The checks are therefore evaluated through the twins below, which read
sizes and layouts from lists computed once per program; `EdVerif/Ssa/ProvSound/Fast.lean` proves
`provSideOk prog hints = allClean (sideSelector prog hints) prog.funcs hints 0`. -/

structure TE where
  prog : Program
  sz : Nat → Option Nat
  ty : Nat → Ty

def TE.of (prog : Program) : TE := { prog := prog, sz := prog.size, ty := prog.tyOf }

def sizeEqG (e : TE) (t t' : Nat) : Bool :=
  match e.sz t' with
  | none => true
  | some n => e.sz t == some n

def sizeIsG (e : TE) (t k : Nat) : Bool :=
  match e.sz t with
  | none => true
  | some n => n == k

def opndSizedG (e : TE) (f : Func) (dm : Nat) (useTy ty : Nat) : Opnd → Bool
  | .reg id =>
    dm.testBit id &&
    (match f.instrs[id]? with
     | some i => definesValue i.op && sizeEqG e i.ty ty
     | none => false)
  | .param i =>
    (match f.params[i]? with
     | some p => sizeEqG e p.tyId ty
     | none => false)
  | .zero _ =>
    (match e.sz ty, e.prog.zeros useTy with
     | some n, some zs => zs.length == n
     | _, _ => true)
  | .cint _ _ | .cbool _ | .cstr _ | .nil _ | .global _ | .fn _ => sizeIsG e ty 1
  | _ => true

def phisSizedG (e : TE) (f : Func) (dm : Nat) (pred : Nat) : List Instr → Bool
  | [] => true
  | i :: is =>
    (match i.op with
     | .phi es =>
       (match phiEdge pred es with
        | some o => opndSizedG e f dm i.ty i.ty o
        | none => true)
     | _ => true) && phisSizedG e f dm pred is

def jumpOkG (e : TE) (f : Func) (D offsets : List Nat) (b n t : Nat) : Bool :=
  match f.blocks[t]? with
  | some bl =>
    let dm := defMask D offsets b (n + 1)
    (D.getD t 0 &&& dm == D.getD t 0) && phisSizedG e f dm b (splitPhis bl.instrs).1
  | none => true

def retSizedG (e : TE) (f : Func) (dm : Nat) : List Opnd → List Nat → Bool
  | [], [] => true
  | v :: vs, t :: ts => opndSizedG e f dm t t v && retSizedG e f dm vs ts
  | _, _ => false

def argsOkG (e : TE) (c : PCtx) (dm : Nat) (ps : List Param) : List Opnd → List Nat → Nat → Bool
  | [], _, _ => true
  | a :: as, tys, j =>
    (match ps[j]? with
     | some p => opndSizedG e c.f dm (tys.headD 0) p.tyId a && (p.k.pointerish || (c.lab a).roots == 0)
     | none => true) && argsOkG e c dm ps as tys.tail (j + 1)

def sizesOfG (e : TE) : List Nat → List (Option Nat)
  | [] => []
  | t :: ts => e.sz t :: sizesOfG e ts

def sumSizesG (e : TE) : List Nat → Option Nat
  | [] => some 0
  | t :: ts =>
    match e.sz t, sumSizesG e ts with
    | some a, some b => some (a + b)
    | _, _ => none

def fieldSpanG (e : TE) (fs : List Nat) (i : Nat) : Option (Nat × Nat) := do
  let before ← (fs.take i).mapM e.sz
  let t ← fs[i]?
  let sz ← e.sz t
  pure (before.sum, sz)

def resSizeOkG (e : TE) (c : PCtx) (dm : Nat) (i : Instr) : Bool :=
  match i.op with
  | .alloc _ _ | .binop _ _ _ _ | .unop _ _ | .convert _ _ | .fieldAddr _ _ _ | .indexAddr _ _ _
  | .slice _ _ _ _ _ | .makeSlice _ _ | .makeInterface _ => sizeIsG e i.ty 1
  | .sliceToArrayPointer _ =>
    sizeIsG e i.ty 1 &&
    (match e.ty i.ty with
     | .ptr aty => (match e.ty aty with | .arr n _ => 1 ≤ n | _ => true)
     | _ => true)
  | .load _ =>
    (match e.prog.zeros i.ty with
     | some zs => sizeIsG e i.ty zs.length && (i.k.pointerish || allData zs)
     | none => true)
  | .changeType x => opndSizedG e c.f dm (i.opTys.headD 0) i.ty x
  | .field _ fld _ =>
    (match e.ty (i.opTys.headD 0) with
     | .struct fs => (match fieldSpanG e fs fld with | some (_, sz) => sizeIsG e i.ty sz | none => true)
     | _ => true)
  | .extract x fld =>
    (match e.ty (i.opTys.headD 0) with
     | .struct fs =>
       (match fieldSpanG e fs fld with | some (_, sz) => sizeIsG e i.ty sz | none => true) &&
       (match x with
        | .reg r =>
          (match c.f.instrs[r]? with
           | some ic =>
             (match ic.op with
              | .call (.fn g) _ =>
                (match e.prog.funcs[g]? with
                 | some gf => sizesOfG e fs == sizesOfG e gf.resultTys
                 | none => false)
              | _ => true)
           | none => true)
        | _ => true)
     | _ => true)
  | .index _ _ =>
    (match e.ty (i.opTys.headD 0) with
     | .arr _ el => (match e.sz el with | some sz => sizeIsG e i.ty sz | none => true)
     | _ => true)
  | .call (.fn g) args =>
    (match e.prog.funcs[g]? with
     | some gf =>
       (match e.sz i.ty with
        | some n => sumSizesG e gf.resultTys == some n
        | none => true) && argsOkG e c dm gf.params args i.opTys 0
     | none => true)
  | .call (.extern n) args =>
    if n == Ext.mul64 || n == Ext.add64 || n == Ext.sub64 then sizeIsG e i.ty 2
    else if n == Ext.ctByteEq || n == Ext.ctCompare || n == Ext.leUint64 || n == Ext.errorsNew then sizeIsG e i.ty 1
    else if n == Ext.onceDo then
      sizeIsG e i.ty 0 &&
      Prov.subset (Prov.minus (c.lab (args.getD 0 .cother)).roots Prov.fresh) Prov.globalMask
    else sizeIsG e i.ty 0
  | .call (.builtin _) _ => sizeIsG e i.ty 1
  | _ => true

def sInstrG (e : TE) (c : PCtx) (D offsets : List Nat) (b n : Nat) (i : Instr) : List Nm :=
  let dm := defMask D offsets b n
  if i.id == offsets.getD b 0 + n
     && globalsInRange e.prog.globals.length i.op.operands
     && Prov.subset (reqU c i).roots (provOf c.h.provRegs i.id)
     && resSizeOkG e c dm i
     && (match i.op with
         | .jump t => jumpOkG e c.f D offsets b n t
         | .if _ t el => jumpOkG e c.f D offsets b n t && jumpOkG e c.f D offsets b n el
         | .ret vs => retSizedG e c.f dm vs c.f.resultTys && retLab c vs c.h.returns
         | _ => true)
  then [] else [K.malformed]

def sideCheckG (e : TE) (hints : List FuncHints) (f : Func) (h : FuncHints) (D offsets : List Nat) : FuncCheck :=
  { fnKinds := if D.headD 0 == 0 && !Prov.has h.writes Prov.loaded then [] else [K.malformed],
    instr := sInstrG e { prog := e.prog, hints := hints, f := f, h := h } D offsets }

def sideSelectorG (e : TE) (hints : List FuncHints) : Selector :=
  fun _ f h =>
    forceList (defSets f) fun D =>
    forceList (blockOffsets f.blocks 0) fun offsets =>
    some (sideCheckG e hints f h D offsets)

/-- sizes of the types `0 … n-1` -/
def sizeTab (prog : Program) : Nat → List (Option Nat) → List (Option Nat)
  | 0, acc => acc
  | n + 1, acc => sizeTab prog n (prog.size n :: acc)

def forceOpt {α} (o : Option Nat) (k : Option Nat → α) : α :=
  match o with
  | none => k none
  | some n => forceNat n (fun n' => k (some n'))

def forceOptList {α} : List (Option Nat) → (List (Option Nat) → α) → α
  | [], k => k []
  | x :: xs, k => forceOpt x (fun x' => forceOptList xs (fun xs' => k (x' :: xs')))

def forceSpine {α β} : List α → (List α → β) → β
  | [], k => k []
  | x :: xs, k => forceSpine xs (fun xs' => k (x :: xs'))

def TE.tab (prog : Program) (szs : List (Option Nat)) (tys : List Ty) : TE :=
  { prog := prog, sz := fun t => (szs[t]?).getD none, ty := fun t => (tys[t]?).getD .unsupported }

/-- the parameters an exported function may store through are single pointers / slice headers -/
def allowedSingle (prog : Program) (f : Func) (allowed : Prov) : Nat → Bool
  | 0 => true
  | i + 1 =>
    (!allowed.testBit i ||
      (match f.params[i]? with
       | some p => prog.size p.tyId == some 1
       | none => false)) && allowedSingle prog f allowed i

def writesSideSelector (prog : Program) (pol : WritesPolicy) : Selector :=
  fun _ f _ =>
    if f.exported then
      some { fnKinds := if allowedSingle prog f (allowedWrites pol f) 16 then [] else [K.malformed],
             instr := fun _ _ _ => [] }
    else none

end Side

/-- `= allClean (Side.sideSelector prog hints) prog.funcs hints 0` (`ProvSound/Fast.lean`), evaluated
    through size / layout tables -/
def provSideOk (prog : Program) (hints : List FuncHints) : Bool :=
  Side.forceOptList (Side.sizeTab prog prog.types.size []) fun szs =>
  Side.forceSpine prog.types.toList fun tys =>
  allClean (Side.sideSelectorG (Side.TE.tab prog szs tys) hints) prog.funcs hints 0

def provOkSimple (prog : Program) (hints : List FuncHints) : Bool :=
  allClean (provSelector prog hints) prog.funcs hints 0 && provSideOk prog hints

def writesOkSimple (prog : Program) (hints : List FuncHints) (pol : WritesPolicy) : Bool :=
  allClean (writesSelector prog hints pol) prog.funcs hints 0 &&
  allClean (Side.writesSideSelector prog pol) prog.funcs hints 0

def returnsOkSimple (prog : Program) (hints : List FuncHints) (pol : ReturnsPolicy) : Bool :=
  allClean (returnsSelector prog hints pol) prog.funcs hints 0

/-- the block an argument points into, if it is a single pointer / slice header -/
def argBlock : RVal → Option Nat
  | [.ptr b _] => some b
  | [.slice b _ _ _] => some b
  | _ => none

/-- blocks of the arguments in the positions of `mask` (a `Prov` parameter bit set) -/
def maskedArgBlocks (mask : Prov) : List RVal → Nat → List Nat
  | [], _ => []
  | a :: as, i =>
    (if mask.testBit i then (match argBlock a with | some b => [b] | none => []) else []) ++ maskedArgBlocks mask as (i + 1)

/-- block `b` holds a package-level variable -/
def isGlobalBlock (prog : Program) (b : Nat) : Bool := 1 ≤ b && b ≤ prog.globals.length

/-- every block that existed in `h`, is not in `allowed` and is not a package-level variable has the
    same content in `h'` -/
def UnchangedOutside (prog : Program) (allowed : List Nat) (h h' : Heap) : Prop :=
  ∀ b, b < h.blocks.size → b ∉ allowed → isGlobalBlock prog b = false → h'.blocks[b]? = h.blocks[b]?

def Outcome.heap? : Outcome → Option Heap
  | .done s _ => some s.heap
  | .panic s _ => some s.heap
  | .outOfFuel s => some s.heap
  | .fault _ => none

/-- a pointer or a slice header -/
def Val.isAddr : Val → Bool
  | .ptr _ _ => true
  | .slice _ _ _ _ => true
  | _ => false

/-- the arguments of the call are well-typed for the parameters: every argument has the layout of
    the parameter's type, and a parameter whose kind is not pointer-like carries no pointer / slice
    header.  (A condition on the caller's arguments only; nothing about the heap.) -/
def ArgsOk (prog : Program) (f : Func) (args : List RVal) : Prop :=
  ∀ (i : Nat) (p : Param) (a : RVal), f.params[i]? = some p → args[i]? = some a →
    prog.size p.tyId = some a.length ∧ (p.k.pointerish = false → ∀ v ∈ a, Val.isAddr v = false)

/-- **C11(b)**: at every point of the execution (any fuel; normal return, panic, or still running) of a
    call of an *exported* function, the only pre-existing memory that has changed is the memory of the
    arguments the policy allows it to store through (the receiver; for `Swap` also `u`; `dest` for the
    internal `SelectInto`s) and package-level variables (the lazily built tables). In particular no other
    argument, no byte slice, no element of a `scalars`/`points` slice is ever modified. -/
def WritesStatement : Prop :=
  ∀ (prog : Program) (hints : List FuncHints) (pol : WritesPolicy),
    provOkSimple prog hints = true → writesOkSimple prog hints pol = true →
    ∀ (fi : Nat) (f : Func), prog.funcs[fi]? = some f → f.exported = true →
    ∀ (heap : Heap) (args : List RVal) (s : State), ArgsOk prog f args → callState prog heap fi args = some s →
    ∀ fuel, ∀ h', (run prog fuel s).heap? = some h' →
      UnchangedOutside prog (maskedArgBlocks (allowedWrites pol f) args 0) heap h'

/-- pointer-like scalars of a value point into blocks allocated after `mark` (or are nil) -/
def FreshVal (mark : Nat) : Val → Prop
  | .ptr b _ => mark ≤ b
  | .slice b _ l _ => mark ≤ b ∨ l = 0
  | _ => True

/-- **C19 (freshness)**: every pointer / slice returned by a function the policy lists as fresh points
    into memory allocated during that call. -/
def FreshReturnsStatement : Prop :=
  ∀ (prog : Program) (hints : List FuncHints) (pol : ReturnsPolicy),
    provOkSimple prog hints = true → returnsOkSimple prog hints pol = true →
    ∀ (fi : Nat) (f : Func), prog.funcs[fi]? = some f → pol.fresh.any (· == f.name) = true →
    ∀ (heap : Heap) (args : List RVal) (s : State), ArgsOk prog f args → callState prog heap fi args = some s →
    ∀ fuel s' rets, run prog fuel s = .done s' rets →
      ∀ r ∈ rets, ∀ v ∈ r, FreshVal heap.blocks.size v

end EdVerif.Ssa
