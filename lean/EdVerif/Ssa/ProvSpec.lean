import EdVerif.Ssa.Sem
import EdVerif.Ssa.Prov
/-!
# C11(b) / C19 — what the provenance checkers are supposed to guarantee (statements only)

`provConsistent`, `writesCheck`, `returnsCheck` (`Prov.lean`) are evaluated by the kernel on the
regenerated SSA.  This file states, against the execution semantics of `Sem.lean`, what passing
checks mean.  Proofs: `EdVerif/Ssa/ProvSound/*.lean`.

The verdicts are used in the simple form "no offending site at all" (`allClean`), which is what
`verdictOk … []` decides; the simple form is evaluated by the kernel next to the packed one
(`Props/Structural/ProvSound.lean`).
-/
namespace EdVerif.Ssa

/-- no function has an offending site for `sel` (every function has hints) -/
def allClean (sel : Selector) : List Func → List FuncHints → Nat → Bool
  | [], _, _ => true
  | f :: fs, hs, i =>
    (match hs with
     | h :: _ => (match sel i f h with | some c => c.clean f | none => true)
     | [] => false) && allClean sel fs hs.tail (i + 1)

def provOkSimple (prog : Program) (hints : List FuncHints) : Bool :=
  allClean (provSelector prog hints) prog.funcs hints 0

def writesOkSimple (prog : Program) (hints : List FuncHints) (pol : WritesPolicy) : Bool :=
  allClean (writesSelector prog hints pol) prog.funcs hints 0

def returnsOkSimple (prog : Program) (hints : List FuncHints) (pol : ReturnsPolicy) : Bool :=
  allClean (returnsSelector prog hints pol) prog.funcs hints 0

/-- the block an argument points into, if it is a single pointer / slice header -/
def argBlock : RVal → Option Nat
  | [.ptr b _] => some b
  | [.slice b _ _ _] => some b
  | _ => none

/-- blocks of the arguments in the positions of `mask` (a `Prov` parameter bit set) -/
def maskedArgBlocks (mask : Prov) : List RVal → Nat → List Nat
  | [], _ => []
  | a :: as, i =>
    (if mask.testBit i then (match argBlock a with | some b => [b] | none => []) else []) ++ maskedArgBlocks mask as (i + 1)

/-- block `b` holds a package-level variable -/
def isGlobalBlock (prog : Program) (b : Nat) : Bool := 1 ≤ b && b ≤ prog.globals.length

/-- every block that existed in `h`, is not in `allowed` and is not a package-level variable has the
    same content in `h'` -/
def UnchangedOutside (prog : Program) (allowed : List Nat) (h h' : Heap) : Prop :=
  ∀ b, b < h.blocks.size → b ∉ allowed → isGlobalBlock prog b = false → h'.blocks[b]? = h.blocks[b]?

def Outcome.heap? : Outcome → Option Heap
  | .done s _ => some s.heap
  | .panic s _ => some s.heap
  | .outOfFuel s => some s.heap
  | .fault _ => none

/-- **C11(b)**: at every point of the execution (any fuel; normal return, panic, or still running) of a
    call of an *exported* function, the only pre-existing memory that has changed is the memory of the
    arguments the policy allows it to store through (the receiver; for `Swap` also `u`; `dest` for the
    internal `SelectInto`s) and package-level variables (the lazily built tables). In particular no other
    argument, no byte slice, no element of a `scalars`/`points` slice is ever modified. -/
def WritesStatement : Prop :=
  ∀ (prog : Program) (hints : List FuncHints) (pol : WritesPolicy),
    provOkSimple prog hints = true → writesOkSimple prog hints pol = true →
    ∀ (fi : Nat) (f : Func), prog.funcs[fi]? = some f → f.exported = true →
    ∀ (heap : Heap) (args : List RVal) (s : State), callState prog heap fi args = some s →
    ∀ fuel, ∀ h', (run prog fuel s).heap? = some h' →
      UnchangedOutside prog (maskedArgBlocks (allowedWrites pol f) args 0) heap h'

/-- pointer-like scalars of a value point into blocks allocated after `mark` (or are nil) -/
def FreshVal (mark : Nat) : Val → Prop
  | .ptr b _ => mark ≤ b
  | .slice b _ l _ => mark ≤ b ∨ l = 0
  | _ => True

/-- **C19 (freshness)**: every pointer / slice returned by a function the policy lists as fresh points
    into memory allocated during that call. -/
def FreshReturnsStatement : Prop :=
  ∀ (prog : Program) (hints : List FuncHints) (pol : ReturnsPolicy),
    provOkSimple prog hints = true → returnsOkSimple prog hints pol = true →
    ∀ (fi : Nat) (f : Func), prog.funcs[fi]? = some f → pol.fresh.any (· == f.name) = true →
    ∀ (heap : Heap) (args : List RVal) (s : State), callState prog heap fi args = some s →
    ∀ fuel s' rets, run prog fuel s = .done s' rets →
      ∀ r ∈ rets, ∀ v ∈ r, FreshVal heap.blocks.size v

end EdVerif.Ssa
