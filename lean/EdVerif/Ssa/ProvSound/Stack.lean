import EdVerif.Ssa.ProvSound.Subst
/-!
# The call stack: links between frames, the stack invariant
-/
namespace EdVerif.Ssa.PS

open EdVerif.Ssa

def WritableC (P : Program) (w : Prov) (params : Array RVal) (mark b : Nat) : Prop :=
  InRoots ⟨P.globals.length, params, mark⟩ (w ||| Prov.fresh) b ∨ isGlobalBlock P b = true

/-- the static data of the frame above a suspended frame (or of the bottom frame) -/
structure Callee where
  w : Prov
  dest : Option Nat
  fi : Nat
  resTys : List Nat
  params : Array RVal
  mark : Nat

def Callee.of (hc : FuncHints) (fr : Frame) (m : Nat) : Callee :=
  ⟨hc.writes, fr.dest, fr.fi, fr.f.resultTys, fr.params, m⟩

/-- a suspended frame `fr` (hints `h`, mark `m`) and the frame above it -/
structure Link (P : Program) (H : List FuncHints) (h : FuncHints) (fr : Frame) (m : Nat) (c : Callee) : Prop where
  mark : m ≤ c.mark
  wr : ∀ b, WritableC P c.w c.params c.mark b → Writable P h fr m b
  call : ∀ d, c.dest = some d → ∃ ic cargs gh, fr.f.instrs[d]? = some ic ∧ ic.op = .call (.fn c.fi) cargs ∧ H[c.fi]? = some gh ∧
    RootsLe (substReturns (pc P H fr.f h) cargs gh.returns 0) (provOf h.provRegs d) ∧
    (∀ n, P.size ic.ty = some n → Side.sumSizes P c.resTys = some n) ∧
    (∀ gf, P.funcs[c.fi]? = some gf → gf.resultTys = c.resTys) ∧
    ∀ (k : Nat) (a : RVal), c.params[k]? = some a → ∃ o, cargs[k]? = some o ∧ RVOk (fx P fr m) ((pc P H fr.f h).lab o) a

/-- the frames below the top frame -/
def LowerInv (P : Program) (H : List FuncHints) (bot : Callee) : Callee → List Frame → List Nat → Prop
  | c, [], [] => c = bot
  | c, fr :: frs, m :: ms => ∃ h, FrameInv P H h fr m c.dest ∧ Link P H h fr m c ∧ LowerInv P H bot (Callee.of h fr m) frs ms
  | _, _, _ => False

def StackInv (P : Program) (H : List FuncHints) (bot : Callee) : List Frame → List Nat → Prop
  | fr :: frs, m :: ms => ∃ h, FrameInv P H h fr m none ∧ LowerInv P H bot (Callee.of h fr m) frs ms
  | _, _ => False

theorem lower_chain {P : Program} {H : List FuncHints} {bot : Callee} {b : Nat} :
    ∀ (frs : List Frame) (ms : List Nat) (c : Callee), LowerInv P H bot c frs ms →
      WritableC P c.w c.params c.mark b → WritableC P bot.w bot.params bot.mark b := by
  intro frs
  induction frs with
  | nil =>
    intro ms c hl hw
    cases ms with
    | nil => simp only [LowerInv] at hl; subst hl; exact hw
    | cons _ _ => simp [LowerInv] at hl
  | cons fr frs ih =>
    intro ms c hl hw
    cases ms with
    | nil => simp [LowerInv] at hl
    | cons m ms =>
      simp only [LowerInv] at hl
      obtain ⟨h, _, hlink, hlow⟩ := hl
      exact ih ms (Callee.of h fr m) hlow (hlink.wr b hw)

end EdVerif.Ssa.PS
