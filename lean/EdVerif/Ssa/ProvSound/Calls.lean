import EdVerif.Ssa.ProvSound.Extract
/-!
# Calls of modelled externals and builtins
-/
namespace EdVerif.Ssa.PS

open EdVerif.Ssa

theorem evalOpnds_spec (P : Program) (fr : Frame) : ∀ (os : List Opnd) (tys : List Nat) (vs : List RVal),
    evalOpnds P fr os tys = some vs →
    vs.length = os.length ∧
    ∀ (j : Nat) (o : Opnd), os[j]? = some o → ∃ v, vs[j]? = some v ∧ evalOpnd P fr ((tys.drop j).headD 0) o = some v := by
  intro os
  induction os with
  | nil => intro tys vs h; simp [evalOpnds] at h; subst h; exact ⟨rfl, fun j o ho => by simp at ho⟩
  | cons o os ih =>
    intro tys vs h
    simp only [evalOpnds] at h
    cases ho : evalOpnd P fr (tys.headD 0) o with
    | none => rw [ho] at h; simp at h
    | some v =>
      cases hos : evalOpnds P fr os tys.tail with
      | none => rw [ho, hos] at h; simp at h
      | some ws =>
        rw [ho, hos] at h
        simp at h
        subst h
        obtain ⟨hl, hj⟩ := ih tys.tail ws hos
        refine ⟨by simp [hl], ?_⟩
        intro j o' ho'
        cases j with
        | zero => simp at ho'; subst ho'; exact ⟨v, by simp, by simpa using ho⟩
        | succ j =>
          simp at ho'
          obtain ⟨v', hv1, hv2⟩ := hj j o' ho'
          refine ⟨v', by simpa using hv1, ?_⟩
          rw [List.drop_tail] at hv2
          exact hv2

section ops
variable {P : Program} {H : List FuncHints} {h : FuncHints} {fr : Frame} {frs : List Frame} {mark dm : Nat} {i : Instr} {hp : Heap}

/-- labels of the evaluated arguments of a call -/
theorem IC.args (ic : IC P H h fr mark dm i) {os : List Opnd} {tys : List Nat} {vs : List RVal}
    (hsub : ∀ o ∈ os, o ∈ i.op.operands) (he : evalOpnds P fr os tys = some vs) :
    vs.length = os.length ∧
    ∀ (j : Nat) (o : Opnd) (v : RVal), os[j]? = some o → vs[j]? = some v → RVOk (fx P fr mark) ((pc P H fr.f h).lab o) v := by
  obtain ⟨hl, hj⟩ := evalOpnds_spec P fr os tys vs he
  refine ⟨hl, ?_⟩
  intro j o v ho hv
  obtain ⟨v', hv', he'⟩ := hj j o ho
  rw [hv] at hv'; cases hv'
  exact ic.opnd (hsub o (List.mem_of_getElem? ho)) he'

theorem goodV_noPtr {v : RVal} {k : Nat} (hs : Side.sizeIs P i.ty k = true) (hl : v.length = k) (hn : NoPtr v) :
    GoodV P h fr mark i v :=
  ⟨hn.rvok _ _, Sized.of_sizeIs hs hl⟩

theorem noPtr_pair {a b : Val} (ha : ∀ x, ¬ PtrTo a x) (hb : ∀ x, ¬ PtrTo b x) : NoPtr [a, b] := by
  intro v hv; simp at hv; rcases hv with e | e <;> subst e <;> assumption

theorem stepBuiltin_local (ic : IC P H h fr mark dm i) {name : Nm} {args : List Opnd} {vs : List RVal}
    (hop : i.op = .call (.builtin name) args) (he : evalOpnds P fr args i.opTys = some vs) :
    LocalI P h hp fr frs mark i (stepBuiltin hp fr frs i name vs) := by
  have hs : Side.sizeIs P i.ty 1 = true := by have := ic.size; simpa [Side.resSizeOk, hop] using this
  obtain ⟨hlen, hargs⟩ := ic.args (by intro o ho; simpa [hop, Op.operands] using ho) he
  unfold stepBuiltin
  split
  · split
    · exact .reg _ _ _ (goodV_scalar hs (noPtr_int _)) (HeapStep.refl _ _)
    · exact .fault _
  · split
    · split
      · exact .reg _ _ _ (goodV_scalar hs (noPtr_int _)) (HeapStep.refl _ _)
      · exact .fault _
    · split
      · rename_i hn1 hn2 hn3
        split
        · rename_i b1 o1 l1 c1 b2 o2 l2 c2
          simp only
          split
          · rename_i ws hr
            split
            · split
              · rename_i hp' hw
                refine .reg _ _ _ (goodV_scalar hs (noPtr_int _)) ?_
                by_cases hz : ws = []
                · subst hz; exact HeapStep.write_nil hw
                · apply HeapStep.write hw
                  have hwl := Heap.read_length hr
                  have hpos : 0 < min l1 l2 := by
                    cases ws with
                    | nil => exact absurd rfl hz
                    | cons _ _ => simp at hwl; omega
                  -- the destination is the first argument
                  have hw : RootsLe ((pc P H fr.f h).lab (args.getD 0 .cother)) (h.writes ||| Prov.fresh) := by
                    have := ic.weff
                    simp only [pRule, hop, pCall, pCallBuiltin] at this
                    have e1 : (name == Ext.len) = false := by simpa using hn1
                    have e2 : (name == Ext.cap) = false := by simpa using hn2
                    simpa [e1, e2, hn3] using this
                  have hl0 : 0 < args.length := by rw [← hlen]; simp
                  have ho : args[0]? = some (args.getD 0 .cother) := by
                    rw [List.getD_eq_getElem?_getD, List.getElem?_eq_getElem hl0]; rfl
                  have := (hargs 0 _ [Val.slice b1 o1 l1 c1] ho (by simp)).mono hw
                  exact Or.inl (rvok_single_slice this (by omega))
              · exact .fault _
            · exact .fault _
          · exact .fault _
        · exact .fault _
      · exact .fault _

/-- first `Do` of a `sync.Once`: the flag cell is set and the closure is entered -/
def OnceStart (P : Program) (h : FuncHints) (hp : Heap) (fr : Frame) (frs : List Frame) (mark : Nat) (i : Instr) (r : Step) : Prop :=
  ∃ b o g gf nf hp' evs, Writable P h fr mark b ∧ hp.write b o [.opaque 1] = some hp' ∧ P.funcs[g]? = some gf ∧
    mkFrame g gf [] none = some nf ∧ GoodV P h fr mark i [] ∧
    r = .cont { heap := hp', stack := nf :: { fr with regs := regSet fr.regs i.id [] } :: frs } evs

theorem once_cell_writable {x : RCtx} {L W : Prov} {b : Nat} {P : Program} (hng : x.ng = P.globals.length)
    (hs : Prov.subset (Prov.minus (Prov.roots L) Prov.fresh) Prov.globalMask = true) (hb : InRoots x L b) :
    InRoots x (W ||| Prov.fresh) b ∨ isGlobalBlock P b = true := by
  have key : ∀ k, k ≠ 16 → k ≠ 18 → k ≠ 19 → L.testBit k = true → 20 ≤ k := by
    intro k h16 h18 h19 hk
    have : Prov.globalMask.testBit k = true := by
      apply subset_testBit hs
      rw [testBit_minus, testBit_roots, hk, testBit_fresh]
      have : decide (18 = k) = false := by simp; omega
      have : decide (19 = k) = false := by simp; omega
      have : decide (16 = k) = false := by simp; omega
      simp [*]
    rw [testBit_globalMask] at this
    simp at this; omega
  rcases hb with ⟨j, a, v, hj, hbit, _⟩ | ⟨hbit, hm⟩ | hbit | ⟨g, hg, hbit, hb⟩
  · have := key j (by omega) (by omega) (by omega) hbit; omega
  · exact Or.inl (Or.inr (Or.inl ⟨by simp [Nat.testBit_or, testBit_fresh], hm⟩))
  · have := key 17 (by omega) (by omega) (by omega) hbit; omega
  · right
    subst hb
    simp [isGlobalBlock]; omega

def LocalOrOnce (P : Program) (h : FuncHints) (hp : Heap) (fr : Frame) (frs : List Frame) (mark : Nat) (i : Instr) (r : Step) : Prop :=
  LocalI P h hp fr frs mark i r ∨ OnceStart P h hp fr frs mark i r

theorem stepExtern_local (ic : IC P H h fr mark dm i) {name : Nm} {args : List Opnd} {vs : List RVal}
    (hop : i.op = .call (.extern name) args) (he : evalOpnds P fr args i.opTys = some vs) :
    LocalOrOnce P h hp fr frs mark i (stepExtern P hp fr frs i name vs) := by
  have hsz := ic.size
  unfold Side.resSizeOk at hsz
  rw [hop] at hsz
  dsimp only at hsz
  obtain ⟨hlen, hargs⟩ := ic.args (by intro o ho; simpa [hop, Op.operands] using ho) he
  unfold stepExtern
  by_cases h1 : (name == Ext.mul64) = true
  · -- Mul64
    rw [if_pos h1]
    refine Or.inl ?_
    simp only [h1, Bool.true_or, if_true] at hsz
    split
    · exact .reg _ _ _ (goodV_noPtr hsz rfl (noPtr_pair (noPtr_int _) (noPtr_int _))) (HeapStep.refl _ _)
    · exact .fault _
  · rw [if_neg h1]
    have e1 : (name == Ext.mul64) = false := by simpa using h1
    by_cases h2 : (name == Ext.add64) = true
    · -- Add64
      rw [if_pos h2]
      refine Or.inl ?_
      simp only [h2, Bool.true_or, Bool.or_true, if_true] at hsz
      split
      · exact .reg _ _ _ (goodV_noPtr hsz rfl (noPtr_pair (noPtr_int _) (noPtr_int _))) (HeapStep.refl _ _)
      · exact .fault _
    · rw [if_neg h2]
      have e2 : (name == Ext.add64) = false := by simpa using h2
      by_cases h3 : (name == Ext.sub64) = true
      · -- Sub64
        rw [if_pos h3]
        refine Or.inl ?_
        simp only [h3, Bool.or_true, if_true] at hsz
        split
        · exact .reg _ _ _ (goodV_noPtr hsz rfl (noPtr_pair (noPtr_int _) (noPtr_int _))) (HeapStep.refl _ _)
        · exact .fault _
      · rw [if_neg h3]
        have e3 : (name == Ext.sub64) = false := by simpa using h3
        simp only [e1, e2, e3, Bool.or_self, Bool.false_eq_true, if_false] at hsz
        by_cases h4 : (name == Ext.ctByteEq) = true
        · -- ConstantTimeByteEq
          rw [if_pos h4]
          refine Or.inl ?_
          simp only [h4, Bool.true_or, if_true] at hsz
          split
          · exact .reg _ _ _ (goodV_scalar hsz (noPtr_int _)) (HeapStep.refl _ _)
          · exact .fault _
        · rw [if_neg h4]
          have e4 : (name == Ext.ctByteEq) = false := by simpa using h4
          by_cases h5 : (name == Ext.ctCompare) = true
          · -- ConstantTimeCompare
            rw [if_pos h5]
            refine Or.inl ?_
            simp only [h5, Bool.true_or, Bool.or_true, if_true] at hsz
            split
            · split
              · exact .reg _ _ _ (goodV_scalar hsz (noPtr_int _)) (HeapStep.refl _ _)
              · split
                · split
                  · exact .reg _ _ _ (goodV_scalar hsz (noPtr_int _)) (HeapStep.refl _ _)
                  · exact .fault _
                · exact .fault _
            · exact .fault _
          · rw [if_neg h5]
            have e5 : (name == Ext.ctCompare) = false := by simpa using h5
            by_cases h6 : (name == Ext.leUint64) = true
            · -- Uint64
              rw [if_pos h6]
              refine Or.inl ?_
              simp only [h6, Bool.true_or, Bool.or_true, if_true] at hsz
              split
              · split
                · exact .panic _ _
                · split
                  · exact .reg _ _ _ (goodV_scalar hsz (noPtr_int _)) (HeapStep.refl _ _)
                  · exact .fault _
              · exact .fault _
            · rw [if_neg h6]
              have e6 : (name == Ext.leUint64) = false := by simpa using h6
              by_cases h7 : (name == Ext.lePutUint64) = true
              · -- PutUint64
                rw [if_pos h7]
                refine Or.inl ?_
                have hn : name = Ext.lePutUint64 := by simpa using h7
                have e8 : (name == Ext.errorsNew) = false := by rw [hn]; decide
                have e9 : (name == Ext.onceDo) = false := by rw [hn]; decide
                simp only [e4, e5, e6, e8, e9, Bool.or_self, Bool.false_eq_true, if_false] at hsz
                split
                · rename_i a0 b o l c v
                  split
                  · exact .panic _ _
                  · rename_i hl8
                    split
                    · rename_i hp' hw
                      refine .reg _ _ _ (goodV_noPtr hsz rfl noPtr_nil) (HeapStep.write hw ?_)
                      have hw' : RootsLe ((pc P H fr.f h).lab (args.getD 1 .cother)) (h.writes ||| Prov.fresh) := by
                        have := ic.weff
                        simp only [pRule, hop, pCall, pCallExtern] at this
                        have e10 : Nm.isSuffix (nm! ".init") name = false := by rw [hn]; decide
                        simpa [e8, e10, h7] using this
                      have hl1 : 1 < args.length := by rw [← hlen]; simp
                      have ho : args[1]? = some (args.getD 1 .cother) := by
                        rw [List.getD_eq_getElem?_getD, List.getElem?_eq_getElem hl1]; rfl
                      have := (hargs 1 _ [Val.slice b o l c] ho (by simp)).mono hw'
                      exact Or.inl (rvok_single_slice this (by omega))
                    · exact .fault _
                · exact .fault _
              · rw [if_neg h7]
                have e7 : (name == Ext.lePutUint64) = false := by simpa using h7
                by_cases h8 : (name == Ext.errorsNew) = true
                · -- errors.New
                  rw [if_pos h8]
                  refine Or.inl ?_
                  simp only [e4, e5, e6, h8, Bool.or_true, if_true] at hsz
                  split
                  · exact .reg _ _ _ (goodV_scalar hsz (noPtr_opaque _)) (HeapStep.refl _ _)
                  · exact .fault _
                · rw [if_neg h8]
                  have e8 : (name == Ext.errorsNew) = false := by simpa using h8
                  simp only [e4, e5, e6, e8, Bool.or_self, Bool.false_eq_true, if_false] at hsz
                  by_cases h9 : (name == Ext.onceDo) = true
                  · -- Once.Do
                    rw [if_pos h9]
                    simp only [h9, if_true, Bool.and_eq_true] at hsz
                    split
                    · rename_i b o g
                      split
                      · split
                        · rename_i hp' gf hw hgf
                          split
                          · rename_i nf hnf
                            refine Or.inr ?_
                            refine ⟨b, o, g, gf, nf, hp', _, ?_, hw, hgf, hnf, goodV_noPtr hsz.1 rfl noPtr_nil, rfl⟩
                            have hl0 : 0 < args.length := by rw [← hlen]; simp
                            have ho : args[0]? = some (args.getD 0 .cother) := by
                              rw [List.getD_eq_getElem?_getD, List.getElem?_eq_getElem hl0]; rfl
                            have := hargs 0 _ [Val.ptr b o] ho (by simp)
                            exact once_cell_writable rfl hsz.2 (rvok_single_ptr this)
                          · refine Or.inl ?_; exact .fault _
                        · refine Or.inl ?_; exact .fault _
                      · refine Or.inl ?_; exact .reg _ _ _ (goodV_noPtr hsz.1 rfl noPtr_nil) (HeapStep.refl _ _)
                      · refine Or.inl ?_; exact .fault _
                    · refine Or.inl ?_; exact .fault _
                  · rw [if_neg h9]
                    have e9 : (name == Ext.onceDo) = false := by simpa using h9
                    simp only [e9, Bool.false_eq_true, if_false] at hsz
                    refine Or.inl ?_
                    split
                    · exact .reg _ _ _ (goodV_noPtr hsz rfl noPtr_nil) (HeapStep.refl _ _)
                    · exact .fault _

end ops

end EdVerif.Ssa.PS
