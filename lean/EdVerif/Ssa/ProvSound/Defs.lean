import EdVerif.Ssa.ProvSound.Clean
/-!
# Meaning of labels; the frame invariant
-/
namespace EdVerif.Ssa.PS

open EdVerif.Ssa

/-- scalar `v` is a pointer into / a non-nil slice of block `b` -/
def PtrTo : Val → Nat → Prop
  | .ptr b' _, b => b' = b
  | .slice b' _ l c, b => b' = b ∧ ¬ (l = 0 ∧ c = 0)
  | _, _ => False

/-- what a frame's labels refer to -/
structure RCtx where
  /-- number of package-level variables -/
  ng : Nat
  /-- the arguments the frame was entered with -/
  args : Array RVal
  /-- number of heap blocks when the frame was entered -/
  mark : Nat

/-- block `b` is among the roots of label `L` -/
def InRoots (x : RCtx) (L : Prov) (b : Nat) : Prop :=
  (∃ i a v, i < 16 ∧ L.testBit i = true ∧ x.args[i]? = some a ∧ v ∈ a ∧ PtrTo v b) ∨
  (L.testBit 16 = true ∧ x.mark ≤ b) ∨
  L.testBit 17 = true ∨
  (∃ g, g < x.ng ∧ L.testBit (20 + g) = true ∧ b = g + 1)

def VOk (x : RCtx) (L : Prov) (v : Val) : Prop := ∀ b, PtrTo v b → InRoots x L b

def RVOk (x : RCtx) (L : Prov) (vs : RVal) : Prop := ∀ v ∈ vs, VOk x L v

theorem InRoots.mono {x : RCtx} {L L' : Prov} (h : RootsLe L L') {b : Nat} (hb : InRoots x L b) : InRoots x L' b := by
  rcases hb with ⟨i, a, v, hi, hbit, ha, hv, hp⟩ | ⟨hbit, hm⟩ | hbit | ⟨g, hg, hbit, hb⟩
  · exact Or.inl ⟨i, a, v, hi, h i (by omega) (by omega) hbit, ha, hv, hp⟩
  · exact Or.inr (Or.inl ⟨h 16 (by omega) (by omega) hbit, hm⟩)
  · exact Or.inr (Or.inr (Or.inl (h 17 (by omega) (by omega) hbit)))
  · exact Or.inr (Or.inr (Or.inr ⟨g, hg, h (20 + g) (by omega) (by omega) hbit, hb⟩))

theorem VOk.mono {x : RCtx} {L L' : Prov} (h : RootsLe L L') {v : Val} (hv : VOk x L v) : VOk x L' v :=
  fun b hb => (hv b hb).mono h

theorem RVOk.mono {x : RCtx} {L L' : Prov} (h : RootsLe L L') {vs : RVal} (hv : RVOk x L vs) : RVOk x L' vs :=
  fun v hm => (hv v hm).mono h

theorem RVOk.nil (x : RCtx) (L : Prov) : RVOk x L [] := by intro v h; cases h

theorem RVOk.loaded (x : RCtx) {L : Prov} (h : L.testBit 17 = true) (vs : RVal) : RVOk x L vs :=
  fun _ _ _ _ => Or.inr (Or.inr (Or.inl h))

/-- no pointer at all -/
def NoPtr (vs : RVal) : Prop := ∀ v ∈ vs, ∀ b, ¬ PtrTo v b

theorem NoPtr.rvok {vs : RVal} (h : NoPtr vs) (x : RCtx) (L : Prov) : RVOk x L vs :=
  fun v hv b hb => absurd hb (h v hv b)

theorem noPtr_of_isAddr {vs : RVal} (h : ∀ v ∈ vs, Val.isAddr v = false) : NoPtr vs := by
  intro v hv b hp
  have := h v hv
  cases v <;> simp [Val.isAddr, PtrTo] at this hp

theorem noPtr_of_data {vs : RVal} (h : ∀ v ∈ vs, v.cls = .data) : NoPtr vs := by
  intro v hv b hp
  have := h v hv
  cases v <;> simp [Val.cls, PtrTo] at this hp

theorem RVOk.of_roots_zero {x : RCtx} {L : Prov} {vs : RVal} (h : RVOk x L vs) (hz : (Prov.roots L == 0) = true) : NoPtr vs := by
  intro v hv b hp
  have hr := (h v hv b hp).mono (RootsLe.of_roots_eq_zero hz 0)
  rcases hr with ⟨i, a, v, hi, hbit, _⟩ | ⟨hbit, _⟩ | hbit | ⟨g, hg, hbit, _⟩ <;> simp at hbit

theorem RVOk.append {x : RCtx} {L : Prov} {a b : RVal} (ha : RVOk x L a) (hb : RVOk x L b) : RVOk x L (a ++ b) := by
  intro v hv
  rcases List.mem_append.1 hv with h | h
  · exact ha v h
  · exact hb v h

theorem RVOk.sub {x : RCtx} {L : Prov} {a b : RVal} (ha : RVOk x L a) (hs : ∀ v ∈ b, v ∈ a) : RVOk x L b :=
  fun v hv => ha v (hs v hv)

theorem RVOk.take_drop {x : RCtx} {L : Prov} {a : RVal} (ha : RVOk x L a) (off sz : Nat) :
    RVOk x L ((a.drop off).take sz) :=
  ha.sub fun _ hv => List.mem_of_mem_drop (List.mem_of_mem_take hv)

theorem RVOk.flatten {x : RCtx} {L : Prov} {vs : List RVal} (h : ∀ w ∈ vs, RVOk x L w) : RVOk x L vs.flatten := by
  intro v hv
  obtain ⟨w, hw, hvw⟩ := List.mem_flatten.1 hv
  exact h w hw v hvw

/-- a value has the number of scalars of type `t` (if the type has a size) -/
def Sized (P : Program) (t : Nat) (v : RVal) : Prop := ∀ n, P.size t = some n → v.length = n

theorem Sized.of_sizeIs {P : Program} {t k : Nat} (h : Side.sizeIs P t k = true) {v : RVal} (hv : v.length = k) : Sized P t v := by
  intro n hn
  simp only [Side.sizeIs, hn, beq_iff_eq] at h
  omega

theorem Sized.of_sizeEq {P : Program} {t t' : Nat} (h : Side.sizeEq P t t' = true) {v : RVal} (hv : Sized P t v) : Sized P t' v := by
  intro n hn
  simp only [Side.sizeEq, hn, beq_iff_eq] at h
  exact hv n h

/-- the label context of a function -/
abbrev pc (P : Program) (H : List FuncHints) (f : Func) (h : FuncHints) : PCtx :=
  { prog := P, hints := H, f := f, h := h }

/-- the label of component `j` of the result of a call of a function with return summaries `rs` -/
def compLab (c : PCtx) (rs : List Prov) (cargs : List Opnd) (j : Nat) : Prov :=
  substArgs c (rs.getD j 0) cargs 0 (Prov.minus (rs.getD j 0) Prov.paramMask)

/-- a register defined by a call of a program function holds the concatenation of the callee's
    results, each covered by its summary and of the size of its type -/
def TupOk (P : Program) (H : List FuncHints) (f : Func) (h : FuncHints) (x : RCtx) (id : Nat) (v : RVal) : Prop :=
  ∀ ic g cargs gh, f.instrs[id]? = some ic → ic.op = .call (.fn g) cargs → H[g]? = some gh →
    ∃ vs : List RVal, v = vs.flatten ∧
      ∀ j w, vs[j]? = some w → RVOk x (compLab (pc P H f h) gh.returns cargs j) w ∧
        ∀ gf t, P.funcs[g]? = some gf → gf.resultTys[j]? = some t → Sized P t w

theorem TupOk.nil (P : Program) (H : List FuncHints) (f : Func) (h : FuncHints) (x : RCtx) (id : Nat) : TupOk P H f h x id [] := by
  intro ic g cargs gh _ _ _
  exact ⟨[], rfl, fun j w hw => by simp at hw⟩

/-- registers certainly defined: by the data-flow certificate on entry to the block, or by the
    instructions of the block executed so far -/
def DefSet (f : Func) (blk : Nat) (pre : List Instr) (id : Nat) : Prop :=
  ((Side.defSets f).getD blk 0).testBit id = true ∨ ∃ j ∈ pre, j.id = id

structure FrameInv (P : Program) (H : List FuncHints) (h : FuncHints) (fr : Frame) (mark : Nat) (pend : Option Nat) : Prop where
  hf : P.funcs[fr.fi]? = some fr.f
  hh : H[fr.fi]? = some h
  pos : ∃ bl pre, fr.f.blocks[fr.blk]? = some bl ∧ bl.instrs = pre ++ fr.rest ∧
    ∀ id, DefSet fr.f fr.blk pre id → some id ≠ pend → ∀ i, fr.f.instrs[id]? = some i → Side.definesValue i.op = true →
      ∃ v, fr.regs[id]? = some v ∧ Sized P i.ty v
  regs : ∀ (id : Nat) (v : RVal), fr.regs[id]? = some v →
    RVOk ⟨P.globals.length, fr.params, mark⟩ (provOf h.provRegs id) v ∧
    TupOk P H fr.f h ⟨P.globals.length, fr.params, mark⟩ id v
  params : ∀ (i : Nat) (p : Param) (a : RVal), fr.f.params[i]? = some p → fr.params[i]? = some a →
    Sized P p.tyId a ∧ (p.k.pointerish = false → NoPtr a)

/-- the label context of a frame -/
abbrev fx (P : Program) (fr : Frame) (mark : Nat) : RCtx := ⟨P.globals.length, fr.params, mark⟩

/-- blocks a frame may store into: roots of its `writes` summary, memory allocated since it was
    entered, package-level variables -/
def Writable (P : Program) (h : FuncHints) (fr : Frame) (mark : Nat) (b : Nat) : Prop :=
  InRoots (fx P fr mark) (h.writes ||| Prov.fresh) b ∨ isGlobalBlock P b = true

/-- heap `hp'` differs from `hp` only in blocks satisfying `W` and in new blocks -/
def HeapStep (W : Nat → Prop) (hp hp' : Heap) : Prop :=
  hp.blocks.size ≤ hp'.blocks.size ∧ ∀ b, b < hp.blocks.size → ¬ W b → hp'.blocks[b]? = hp.blocks[b]?

theorem HeapStep.refl (W : Nat → Prop) (hp : Heap) : HeapStep W hp hp := ⟨Nat.le_refl _, fun _ _ _ => rfl⟩

theorem HeapStep.alloc (W : Nat → Prop) (hp : Heap) (vs : List Val) : HeapStep W hp (hp.alloc vs).1 := by
  have := Heap.alloc_spec hp vs
  exact ⟨by omega, fun b hb _ => this.2.2 b hb⟩

theorem HeapStep.write {W : Nat → Prop} {hp hp' : Heap} {blk off : Nat} {vs : List Val}
    (hw : hp.write blk off vs = some hp') (hW : W blk) : HeapStep W hp hp' := by
  have := Heap.write_spec hw
  refine ⟨by omega, fun b _ hnW => this.2.2 b ?_⟩
  intro e; subst e; exact hnW hW

theorem HeapStep.write_nil {W : Nat → Prop} {hp hp' : Heap} {blk off : Nat}
    (hw : hp.write blk off [] = some hp') : HeapStep W hp hp' := by
  have := Heap.write_spec hw
  exact ⟨by omega, fun b _ _ => Heap.write_nil hw b⟩

end EdVerif.Ssa.PS
