import EdVerif.Ssa.ProvSound.Step
/-!
# Soundness of the provenance checkers: `WritesStatement`, `FreshReturnsStatement`
-/
namespace EdVerif.Ssa.PS

open EdVerif.Ssa

variable {P : Program} {H : List FuncHints}

theorem HeapStep.trans {W : Nat → Prop} {a b c : Heap} (h1 : HeapStep W a b) (h2 : HeapStep W b c) : HeapStep W a c :=
  ⟨Nat.le_trans h1.1 h2.1, fun x hx hn => (h2.2 x (Nat.lt_of_lt_of_le hx h1.1) hn).trans (h1.2 x hx hn)⟩

def BotW (P : Program) (bot : Callee) (b : Nat) : Prop := WritableC P bot.w bot.params bot.mark b

theorem topW_bot {bot : Callee} {s : State} {ms : List Nat} (hinv : SInv P H bot s ms) {b : Nat}
    (hw : TopW P H s ms b) : BotW P bot b := by
  obtain ⟨fr, frs, m, ms', h', hs, hms, hh', hwr⟩ := hw
  have hst := hinv.stack
  rw [hs, hms] at hst
  obtain ⟨h, inv, hlow⟩ := hst
  have : h' = h := by have := inv.hh; rw [hh'] at this; cases this; rfl
  subst this
  exact lower_chain frs ms' (Callee.of h' fr m) hlow hwr

theorem run_heap (F : Facts P H) {bot : Callee} {heap0 : Heap} : ∀ (fuel : Nat) (s : State) (ms : List Nat),
    SInv P H bot s ms → HeapStep (BotW P bot) heap0 s.heap →
    ∀ h', (run P fuel s).heap? = some h' → HeapStep (BotW P bot) heap0 h' := by
  intro fuel
  induction fuel with
  | zero => intro s ms _ hr h' he; simp [run, Outcome.heap?] at he; subst he; exact hr
  | succ fuel ih =>
    intro s ms hinv hr h' he
    have hstep := step_inv F hinv
    unfold run at he
    cases hs : step P s with
    | cont s' evs =>
      rw [hs] at hstep he
      simp only [StepGoal] at hstep
      obtain ⟨⟨ms', hinv'⟩, hheap⟩ := hstep
      exact ih s' ms' hinv' (hr.trans (hheap.mono (fun b hb => topW_bot hinv hb))) h' he
    | done s' rets evs =>
      rw [hs] at hstep he
      simp only [StepGoal] at hstep
      simp only [Outcome.heap?, Option.some.injEq] at he
      subst he; rw [hstep.1]; exact hr
    | panic s' c evs =>
      rw [hs] at hstep he
      simp only [StepGoal] at hstep
      simp only [Outcome.heap?, Option.some.injEq] at he
      subst he; rw [hstep]; exact hr
    | fault w =>
      rw [hs] at he
      simp [Outcome.heap?] at he

theorem run_done (F : Facts P H) {bot : Callee} : ∀ (fuel : Nat) (s : State) (ms : List Nat),
    SInv P H bot s ms → ∀ s' rets, run P fuel s = .done s' rets → DoneFacts P H bot rets := by
  intro fuel
  induction fuel with
  | zero => intro s ms _ s' rets he; simp [run] at he
  | succ fuel ih =>
    intro s ms hinv s' rets he
    have hstep := step_inv F hinv
    unfold run at he
    cases hs : step P s with
    | cont s1 evs =>
      rw [hs] at hstep he
      simp only [StepGoal] at hstep
      obtain ⟨⟨ms', hinv'⟩, _⟩ := hstep
      exact ih s1 ms' hinv' s' rets he
    | done s1 rets1 evs =>
      rw [hs] at hstep he
      simp only [StepGoal] at hstep
      simp only [Outcome.done.injEq] at he
      rw [← he.2]; exact hstep.2
    | panic s1 c evs => rw [hs] at he; simp at he
    | fault w => rw [hs] at he; simp at he

/-- the state `callState` builds satisfies the invariant -/
theorem init_inv (F : Facts P H) {fi : Nat} {f : Func} (hf : P.funcs[fi]? = some f) {heap : Heap} {args : List RVal}
    (hargs : ArgsOk P f args) {s : State} (hs : callState P heap fi args = some s) :
    ∃ h, H[fi]? = some h ∧ s.heap = heap ∧
      SInv P H ⟨h.writes, none, fi, f.resultTys, args.toArray, heap.blocks.size⟩ s [heap.blocks.size] := by
  obtain ⟨h, hh⟩ := F.hints fi f hf
  unfold callState at hs
  rw [hf] at hs
  simp only [Option.bind_eq_bind, Option.bind_some] at hs
  unfold mkFrame at hs
  cases hb0 : f.blocks[0]? with
  | none => rw [hb0] at hs; simp at hs
  | some b0 =>
    rw [hb0] at hs
    simp at hs
    subst hs
    refine ⟨h, hh, rfl, ⟨?_, ?_⟩⟩
    · refine ⟨h, ?_, rfl⟩
      refine ⟨hf, hh, ⟨b0, [], hb0, rfl, ?_⟩, ?_, ?_⟩
      · intro id hds _ j _ _
        rcases hds with hd | ⟨k, hk, _⟩
        · have := F.entry fi f hf
          rw [getD_zero_eq_headD, this] at hd
          simp at hd
        · cases hk
      · intro id v hv; simp at hv
      · intro k p a hpk hak
        have hak' : args[k]? = some a := by simpa using hak
        obtain ⟨h1, h2⟩ := hargs k p a hpk hak'
        refine ⟨?_, fun hnp => noPtr_of_isAddr (h2 hnp)⟩
        intro n hn
        rw [h1] at hn; cases hn; rfl
    · intro m ms' he; cases he; exact Nat.le_refl _

theorem maskedArgBlocks_mem {mask : Prov} {b : Nat} : ∀ (args : List RVal) (i0 k : Nat) (a : RVal),
    args[k]? = some a → mask.testBit (i0 + k) = true → argBlock a = some b → b ∈ maskedArgBlocks mask args i0 := by
  intro args
  induction args with
  | nil => intro i0 k a ha; simp at ha
  | cons a0 as ih =>
    intro i0 k a ha hbit hblk
    simp only [maskedArgBlocks, List.mem_append]
    cases k with
    | zero =>
      simp at ha; subst ha
      left
      simp only [Nat.add_zero] at hbit
      simp [hbit, hblk]
    | succ k =>
      right
      simp at ha
      exact ih (i0 + 1) k a ha (by rw [show i0 + 1 + k = i0 + (k + 1) by omega]; exact hbit) hblk

theorem allowedSingle_spec {f : Func} {allowed : Prov} : ∀ (n : Nat), Side.allowedSingle P f allowed n = true →
    ∀ k, k < n → allowed.testBit k = true → ∃ p, f.params[k]? = some p ∧ P.size p.tyId = some 1 := by
  intro n
  induction n with
  | zero => intro _ k hk; omega
  | succ n ih =>
    intro hs k hk hbit
    simp only [Side.allowedSingle, Bool.and_eq_true, Bool.or_eq_true, Bool.not_eq_true'] at hs
    by_cases hkn : k = n
    · subst hkn
      rcases hs.1 with h1 | h1
      · rw [hbit] at h1; cases h1
      · cases hp : f.params[k]? with
        | none => simp [hp] at h1
        | some p => simp only [hp, beq_iff_eq] at h1; exact ⟨p, rfl, h1⟩
    · exact ih hs.2 k (by omega) hbit

end EdVerif.Ssa.PS

namespace EdVerif.Ssa

open EdVerif.Ssa.PS

/-- **C11(b)**, soundness of `provSelector` + `writesSelector` w.r.t. the execution semantics -/
theorem writes_sound : WritesStatement := by
  intro prog hints pol hprov hwr fi f hf hexp heap args s hargs hs fuel h' hh'
  have F := facts_of_ok hprov
  obtain ⟨h, hh, hheap, hinv⟩ := init_inv F hf hargs hs
  have hreach := run_heap F (heap0 := heap) fuel s _ hinv (by rw [hheap]; exact HeapStep.refl _ _) h' hh'
  -- what `writesOkSimple` says about `f`
  simp only [writesOkSimple, Bool.and_eq_true] at hwr
  obtain ⟨h1, hh1, hc1⟩ := allClean_spec _ _ _ _ hwr.1 fi f hf
  obtain ⟨h2, hh2, hc2⟩ := allClean_spec _ _ _ _ hwr.2 fi f hf
  rw [hh] at hh1 hh2; cases hh1; cases hh2
  have hsub : Prov.subset (Prov.minus h.writes Prov.fresh) (allowedWrites pol f) = true := by
    have := hc1 _ rfl
    simp only [FuncCheck.clean, Bool.and_eq_true, List.isEmpty_iff] at this
    have h3 := this.1
    by_cases hc : Prov.subset (Prov.minus h.writes Prov.fresh) (allowedWrites pol f) = true
    · exact hc
    · simp [hc] at h3
  have hsingle : Side.allowedSingle prog f (allowedWrites pol f) 16 = true := by
    cases hsel : Side.writesSideSelector prog pol (0 + fi) f h with
    | none => simp [Side.writesSideSelector, hexp] at hsel
    | some c =>
    have := hc2 c hsel
    simp only [Side.writesSideSelector, hexp, if_true, Option.some.injEq] at hsel
    subst hsel
    simp only [FuncCheck.clean, Bool.and_eq_true, List.isEmpty_iff] at this
    have h3 := this.1
    by_cases hc : Side.allowedSingle prog f (allowedWrites pol f) 16 = true
    · exact hc
    · simp [hc] at h3
  intro b hb hnot hng
  apply hreach.2 b hb
  intro hw
  rcases hw with hw | hw
  · rcases hw with ⟨k, a, v, hk, hbit, ha, hv, hpt⟩ | ⟨_, hmk⟩ | hbit | ⟨g, hg, _, hbe⟩
    · have hbit' : h.writes.testBit k = true := by
        simp only [Nat.testBit_or, testBit_fresh, Bool.or_eq_true, decide_eq_true_eq] at hbit
        rcases hbit with h3 | h3
        · exact h3
        · omega
      have hal : (allowedWrites pol f).testBit k = true := by
        apply subset_testBit hsub
        rw [testBit_minus, hbit', testBit_fresh]
        have : decide (16 = k) = false := by simp; omega
        simp [this]
      obtain ⟨p, hp, hsz⟩ := allowedSingle_spec 16 hsingle k hk hal
      have ha' : args[k]? = some a := by simpa using ha
      have hlen := (hargs k p a hp ha').1
      rw [hsz] at hlen
      have hal1 : a.length = 1 := (Option.some.inj hlen).symm
      have hav : a = [v] := by
        cases a with
        | nil => cases hv
        | cons x xs =>
          cases xs with
          | nil => simp at hv; rw [hv]
          | cons _ _ => simp at hal1
      have hblk : argBlock a = some b := by
        subst hav
        cases v <;> simp only [PtrTo] at hpt
        · subst hpt; rfl
        · rw [hpt.1]; rfl
      exact hnot (maskedArgBlocks_mem args 0 k a ha' (by simpa using hal) hblk)
    · have : heap.blocks.size ≤ b := hmk
      omega
    · have := F.noLoaded fi f h hf hh
      simp [Nat.testBit_or, testBit_fresh, this] at hbit
    · subst hbe
      have hg' : g < prog.globals.length := hg
      simp [isGlobalBlock] at hng
      omega
  · rw [hng] at hw; cases hw

/-- **C19 (freshness)**, soundness of `provSelector` + `returnsSelector` w.r.t. the execution semantics -/
theorem fresh_returns_sound : FreshReturnsStatement := by
  intro prog hints pol hprov hret fi f hf hfresh heap args s hargs hs fuel s' rets hrun r hr v hv
  have F := facts_of_ok hprov
  obtain ⟨h, hh, _, hinv⟩ := init_inv F hf hargs hs
  obtain ⟨h', hh', hdone⟩ := run_done F fuel s _ hinv s' rets hrun
  have : h' = h := by
    have h1 : hints[fi]? = some h' := hh'
    rw [hh] at h1; cases h1; rfl
  subst this
  obtain ⟨sL, hsL, hok⟩ := hdone r hr
  -- what `returnsOkSimple` says about `f`
  obtain ⟨h1, hh1, hc1⟩ := allClean_spec _ _ _ _ hret fi f hf
  rw [hh] at hh1; cases hh1
  have hall : h'.returns.all (fun r => Prov.subset r (Prov.fresh ||| Prov.flagsMask)) = true := by
    cases hsel : returnsSelector prog hints pol (0 + fi) f h' with
    | none => simp [returnsSelector, hfresh] at hsel
    | some c =>
    have := hc1 c hsel
    simp only [returnsSelector, hfresh, if_true, Option.some.injEq] at hsel
    subst hsel
    simp only [FuncCheck.clean, Bool.and_eq_true, List.isEmpty_iff] at this
    have h3 := this.1
    by_cases hc : h'.returns.all (fun r => Prov.subset r (Prov.fresh ||| Prov.flagsMask)) = true
    · exact hc
    · simp [hc] at h3
  have hle : ∀ k, sL.testBit k = true → k = 16 ∨ k = 18 ∨ k = 19 := by
    intro k hk
    rcases hsL with e | e
    · subst e; simp at hk
    · have := List.all_eq_true.1 hall sL e
      have hb := subset_testBit this hk
      simp only [Nat.testBit_or, testBit_fresh, testBit_flagsMask, Bool.or_eq_true, decide_eq_true_eq] at hb
      omega
  have hfresh' : ∀ b, PtrTo v b → heap.blocks.size ≤ b := by
    intro b hb
    rcases hok v hv b hb with ⟨k, _, _, hk, hbit, _⟩ | ⟨_, hmk⟩ | hbit | ⟨g, _, hbit, _⟩
    · have := hle k hbit; omega
    · exact hmk
    · have := hle 17 hbit; omega
    · have := hle (20 + g) hbit; omega
  cases v with
  | ptr b o => exact hfresh' b rfl
  | slice b o l c =>
    simp only [FreshVal]
    by_cases hl : l = 0
    · exact Or.inr hl
    · exact Or.inl (hfresh' b ⟨rfl, fun hc => hl hc.1⟩)
  | _ => trivial

end EdVerif.Ssa
