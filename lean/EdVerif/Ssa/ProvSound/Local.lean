import EdVerif.Ssa.ProvSound.Opnd
/-!
# Instructions that only touch the registers of the top frame and the heap
-/
namespace EdVerif.Ssa.PS

open EdVerif.Ssa

/-- what the per-instruction lemmas know about the top frame `fr` (current instruction `i` already
    removed from `rest`); `dm` = registers defined so far -/
structure IC (P : Program) (H : List FuncHints) (h : FuncHints) (fr : Frame) (mark : Nat) (dm : Nat) (i : Instr) : Prop where
  facts : Facts P H
  hf : P.funcs[fr.fi]? = some fr.f
  hh : H[fr.fi]? = some h
  regsOk : ∀ (id : Nat) (v : RVal), fr.regs[id]? = some v → RVOk (fx P fr mark) (provOf h.provRegs id) v
  tupOk : ∀ (id : Nat) (v : RVal), fr.regs[id]? = some v → TupOk P H fr.f h (fx P fr mark) id v
  paramsOk : ∀ (k : Nat) (a : RVal), fr.params[k]? = some a → RVOk (fx P fr mark) (paramProv fr.f.params k) a
  paramsSized : ∀ (k : Nat) (p : Param) (a : RVal), fr.f.params[k]? = some p → fr.params[k]? = some a → Sized P p.tyId a
  defd : DefdRegs P fr dm
  self : fr.f.instrs[i.id]? = some i
  glob : ∀ g, Opnd.global g ∈ i.op.operands → g < P.globals.length
  lab : RootsLe (Side.reqU (pc P H fr.f h) i) (provOf h.provRegs i.id)
  size : Side.resSizeOk (pc P H fr.f h) dm i = true
  prov : pInstr (pc P H fr.f h) i = []

/-- label of an evaluated operand of the current instruction -/
theorem IC.opnd {P : Program} {H : List FuncHints} {h : FuncHints} {fr : Frame} {mark dm : Nat} {i : Instr}
    (ic : IC P H h fr mark dm i) {ty : Nat} {o : Opnd} {v : RVal} (hm : o ∈ i.op.operands)
    (he : evalOpnd P fr ty o = some v) : RVOk (fx P fr mark) ((pc P H fr.f h).lab o) v :=
  evalOpnd_lab ic.regsOk ic.paramsOk (fun g e => ic.glob g (e ▸ hm)) he

/-- the store effect of the current instruction is covered by the function's `writes` summary -/
theorem IC.weff {P : Program} {H : List FuncHints} {h : FuncHints} {fr : Frame} {mark dm : Nat} {i : Instr}
    (ic : IC P H h fr mark dm i) : RootsLe (pRule (pc P H fr.f h) i).weff (h.writes ||| Prov.fresh) := by
  have hp := ic.prov
  unfold pInstr at hp
  simp only [List.append_eq_nil_iff] at hp
  have h2 := hp.1.1.2
  have hs : Prov.subset (Prov.minus (pRule (pc P H fr.f h) i).weff.roots Prov.fresh) h.writes = true := by
    by_cases hc : Prov.subset (Prov.minus (pRule (pc P H fr.f h) i).weff.roots Prov.fresh) h.writes = true
    · exact hc
    · simp [hc] at h2
  intro k h18 h19 hk
  by_cases h16 : k = 16
  · subst h16; simp [Nat.testBit_or, testBit_fresh]
  · have : h.writes.testBit k = true := by
      apply subset_testBit hs
      rw [testBit_minus, testBit_roots, hk, testBit_fresh]
      have : decide (18 = k) = false := by simp; omega
      have : decide (19 = k) = false := by simp; omega
      have : decide (16 = k) = false := by simp; omega
      simp [*]
    simp [Nat.testBit_or, this]

/-- outcome of an instruction that only sets its own register and/or changes the heap -/
inductive Local (hp : Heap) (fr : Frame) (frs : List Frame) (id : Nat) (GV : RVal → Prop) (GH : Heap → Prop) (NR : Prop) : Step → Prop
  | reg (v : RVal) (hp' : Heap) (evs : List Event) : GV v → GH hp' → Local hp fr frs id GV GH NR (contReg fr frs id v hp' evs)
  | noreg (hp' : Heap) (evs : List Event) : NR → GH hp' → Local hp fr frs id GV GH NR (contNoReg fr frs hp' evs)
  | panic (c : Val) (evs : List Event) : Local hp fr frs id GV GH NR (.panic ⟨hp, fr :: frs⟩ c evs)
  | fault (w : String) : Local hp fr frs id GV GH NR (.fault w)

/-- the value demanded of the register of instruction `i` -/
def GoodV (P : Program) (h : FuncHints) (fr : Frame) (mark : Nat) (i : Instr) (v : RVal) : Prop :=
  RVOk (fx P fr mark) (provOf h.provRegs i.id) v ∧ Sized P i.ty v

abbrev LocalI (P : Program) (h : FuncHints) (hp : Heap) (fr : Frame) (frs : List Frame) (mark : Nat) (i : Instr) : Step → Prop :=
  Local hp fr frs i.id (GoodV P h fr mark i) (HeapStep (Writable P h fr mark) hp) (Side.definesValue i.op = false)

theorem noPtr_int (n b : Nat) : ¬ PtrTo (.int n) b := by simp [PtrTo]
theorem noPtr_bool (c : Bool) (b : Nat) : ¬ PtrTo (.bool c) b := by simp [PtrTo]
theorem noPtr_opaque (n b : Nat) : ¬ PtrTo (.opaque n) b := by simp [PtrTo]

theorem goodV_scalar {P : Program} {h : FuncHints} {fr : Frame} {mark : Nat} {i : Instr} {x : Val}
    (hs : Side.sizeIs P i.ty 1 = true) (hx : ∀ b, ¬ PtrTo x b) : GoodV P h fr mark i [x] :=
  ⟨(noPtr_single hx).rvok _ _, Sized.of_sizeIs hs rfl⟩

section ops
variable {P : Program} {H : List FuncHints} {h : FuncHints} {fr : Frame} {frs : List Frame} {mark dm : Nat} {i : Instr} {hp : Heap}

theorem stepUnop_local (ic : IC P H h fr mark dm i) {op : UnOp} {x : Opnd} (hop : i.op = .unop op x) :
    LocalI P h hp fr frs mark i (stepUnop P hp fr frs i op x) := by
  have hs : Side.sizeIs P i.ty 1 = true := by have := ic.size; simpa [Side.resSizeOk, hop] using this
  unfold stepUnop
  split
  all_goals first
    | exact .fault _
    | exact .reg _ _ _ (goodV_scalar hs (noPtr_int _)) (HeapStep.refl _ _)
    | exact .reg _ _ _ (goodV_scalar hs (noPtr_bool _)) (HeapStep.refl _ _)

theorem stepConvert_local (ic : IC P H h fr mark dm i) {fk : VK} {x : Opnd} (hop : i.op = .convert fk x) :
    LocalI P h hp fr frs mark i (stepConvert P hp fr frs i fk x) := by
  have hs : Side.sizeIs P i.ty 1 = true := by have := ic.size; simpa [Side.resSizeOk, hop] using this
  unfold stepConvert
  split
  all_goals first
    | exact .fault _
    | exact .reg _ _ _ (goodV_scalar hs (noPtr_int _)) (HeapStep.refl _ _)
    | exact .reg _ _ _ (goodV_scalar hs (noPtr_bool _)) (HeapStep.refl _ _)

theorem intBinop_noPtr {op : BinOp} {w : Nat} {sg : Bool} {a b : Nat} {v : Val}
    (hv : intBinop op w sg a b = .ok v) : ∀ b', ¬ PtrTo v b' := by
  cases op <;> simp only [intBinop] at hv
  all_goals (repeat' split at hv)
  all_goals first | cases hv | skip
  all_goals (intro b' hb'; simp [PtrTo] at hb')

theorem intShift_noPtr {l : Bool} {w : Nat} {sg : Bool} {a cw : Nat} {cs : Bool} {c : Nat} {v : Val}
    (hv : intShift l w sg a cw cs c = .ok v) : ∀ b', ¬ PtrTo v b' := by
  unfold intShift at hv
  repeat' split at hv
  all_goals first | cases hv | skip
  all_goals (intro b' hb'; simp [PtrTo] at hb')

theorem stepBinop_local (ic : IC P H h fr mark dm i) {op : BinOp} {xk : VK} {x y : Opnd} (hop : i.op = .binop op xk x y) :
    LocalI P h hp fr frs mark i (stepBinop P hp fr frs i op xk x y) := by
  have hs : Side.sizeIs P i.ty 1 = true := by have := ic.size; simpa [Side.resSizeOk, hop] using this
  unfold stepBinop
  repeat' split
  all_goals first
    | exact .fault _
    | exact .panic _ _
    | exact .reg _ _ _ (goodV_scalar hs (noPtr_int _)) (HeapStep.refl _ _)
    | exact .reg _ _ _ (goodV_scalar hs (noPtr_bool _)) (HeapStep.refl _ _)
    | (apply Local.reg _ _ _ _ (HeapStep.refl _ _); apply goodV_scalar hs; apply intShift_noPtr; assumption)
    | (apply Local.reg _ _ _ _ (HeapStep.refl _ _); apply goodV_scalar hs; apply intBinop_noPtr; assumption)

/-! ### values derived from one operand -/

theorem IC.labOf (ic : IC P H h fr mark dm i) {L : Prov} (hr : Side.reqU (pc P H fr.f h) i = L) :
    RootsLe L (provOf h.provRegs i.id) := hr ▸ ic.lab

theorem rvok_ptr {x : RCtx} {L : Prov} {b o : Nat} (hb : InRoots x L b) : RVOk x L [.ptr b o] := by
  intro v hv b' hb'
  simp at hv; subst hv
  simp [PtrTo] at hb'; subst hb'; exact hb

theorem rvok_slice {x : RCtx} {L : Prov} {b o l c : Nat} (hb : ¬ (l = 0 ∧ c = 0) → InRoots x L b) : RVOk x L [.slice b o l c] := by
  intro v hv b' hb'
  simp at hv; subst hv
  simp only [PtrTo] at hb'
  obtain ⟨e, hne⟩ := hb'
  subst e; exact hb hne

theorem rvok_single_ptr {x : RCtx} {L : Prov} {b o : Nat} (h : RVOk x L [.ptr b o]) : InRoots x L b :=
  h (.ptr b o) (by simp) b rfl

theorem rvok_single_slice {x : RCtx} {L : Prov} {b o l c : Nat} (h : RVOk x L [.slice b o l c]) (hne : ¬ (l = 0 ∧ c = 0)) :
    InRoots x L b :=
  h (.slice b o l c) (by simp) b ⟨rfl, hne⟩

theorem changeType_local (ic : IC P H h fr mark dm i) {x : Opnd} (hop : i.op = .changeType x) :
    LocalI P h hp fr frs mark i
      (match evalOpnd P fr (i.opTys.headD 0) x with
       | some v => contReg fr frs i.id v hp []
       | none => .fault "changeType") := by
  split
  · rename_i v hv
    have hsz := ic.size
    simp only [Side.resSizeOk, hop] at hsz
    refine .reg _ _ _ ⟨?_, ?_⟩ (HeapStep.refl _ _)
    · exact (ic.opnd (by simp [hop, Op.operands]) hv).mono (ic.labOf (by simp [Side.reqU, hop]))
    · exact evalOpnd_sized ic.defd ic.paramsSized hsz hv
  · exact .fault _

theorem stepMakeInterface_local (ic : IC P H h fr mark dm i) {x : Opnd} (hop : i.op = .makeInterface x) :
    LocalI P h hp fr frs mark i (stepMakeInterface P hp fr frs i x) := by
  have hs : Side.sizeIs P i.ty 1 = true := by have := ic.size; simpa [Side.resSizeOk, hop] using this
  unfold stepMakeInterface
  split
  · rename_i v hv
    split
    · refine .reg _ _ _ ⟨?_, Sized.of_sizeIs hs rfl⟩ (HeapStep.refl _ _)
      exact (ic.opnd (by simp [hop, Op.operands]) hv).mono (ic.labOf (by simp [Side.reqU, hop]))
    · exact .fault _
  · exact .fault _

theorem stepSliceToArrayPointer_local (ic : IC P H h fr mark dm i) {x : Opnd} (hop : i.op = .sliceToArrayPointer x) :
    LocalI P h hp fr frs mark i (stepSliceToArrayPointer P hp fr frs i x) := by
  have hsz := ic.size
  simp only [Side.resSizeOk, hop, Bool.and_eq_true] at hsz
  have hl : RootsLe ((pc P H fr.f h).lab x) (provOf h.provRegs i.id) := ic.labOf (by simp [Side.reqU, hop])
  unfold stepSliceToArrayPointer
  split
  · rename_i b o len cap aty hv hty
    split
    · rename_i n e hty2
      split
      · rename_i hle
        have hn : 1 ≤ n := by
          have := hsz.2
          simp only [hty, hty2, decide_eq_true_eq] at this
          exact this
        refine .reg _ _ _ ⟨?_, Sized.of_sizeIs hsz.1 rfl⟩ (HeapStep.refl _ _)
        apply RVOk.mono hl
        apply rvok_ptr
        exact ic.opnd (by simp [hop, Op.operands]) hv (.slice b o len cap) (by simp) b ⟨rfl, by omega⟩
      · exact .panic _ _
    · exact .fault _
  · exact .fault _

theorem stepFieldAddr_local (ic : IC P H h fr mark dm i) {x : Opnd} {fld : Nat} {fname : Nm} (hop : i.op = .fieldAddr x fld fname) :
    LocalI P h hp fr frs mark i (stepFieldAddr P hp fr frs i x fld) := by
  have hs : Side.sizeIs P i.ty 1 = true := by have := ic.size; simpa [Side.resSizeOk, hop] using this
  have hl : RootsLe ((pc P H fr.f h).lab x) (provOf h.provRegs i.id) := ic.labOf (by simp [Side.reqU, hop])
  unfold stepFieldAddr
  split
  · rename_i b o st hv hty
    split
    · split
      · refine .reg _ _ _ ⟨?_, Sized.of_sizeIs hs rfl⟩ (HeapStep.refl _ _)
        apply RVOk.mono hl
        apply rvok_ptr
        exact ic.opnd (by simp [hop, Op.operands]) hv (.ptr b o) (by simp) b rfl
      · exact .fault _
    · exact .fault _
  · exact .panic _ _
  · exact .fault _

theorem checkIndex_lt {w : Nat} {sg : Bool} {n len k : Nat} (h : checkIndex w sg n len = some k) : k < len := by
  unfold checkIndex at h
  simp only at h
  split at h
  · cases h
  · split at h
    · cases h; assumption
    · cases h

theorem stepIndexAddr_local (ic : IC P H h fr mark dm i) {xk : VK} {x ix : Opnd} (hop : i.op = .indexAddr xk x ix) :
    LocalI P h hp fr frs mark i (stepIndexAddr P hp fr frs i x ix) := by
  have hs : Side.sizeIs P i.ty 1 = true := by have := ic.size; simpa [Side.resSizeOk, hop] using this
  have hl : RootsLe ((pc P H fr.f h).lab x) (provOf h.provRegs i.id) := ic.labOf (by simp [Side.reqU, hop])
  have hx : ∀ v, evalOpnd P fr (i.opTys.headD 0) x = some v → RVOk (fx P fr mark) (provOf h.provRegs i.id) v :=
    fun v hv => (ic.opnd (by simp [hop, Op.operands]) hv).mono hl
  unfold stepIndexAddr
  split
  · split
    · split
      · split
        · refine .reg _ _ _ ⟨?_, Sized.of_sizeIs hs rfl⟩ (HeapStep.refl _ _)
          exact rvok_ptr (rvok_single_ptr (hx _ (by assumption)))
        · exact .panic _ _
        · exact .fault _
      · exact .fault _
    · split
      · refine .reg _ _ _ ⟨?_, Sized.of_sizeIs hs rfl⟩ (HeapStep.refl _ _)
        have := checkIndex_lt ‹checkIndex _ _ _ _ = some _›
        exact rvok_ptr (rvok_single_slice (hx _ (by assumption)) (by omega))
      · exact .panic _ _
      · exact .fault _
    · exact .panic _ _
    · exact .fault _
  · exact .fault _

end ops

end EdVerif.Ssa.PS
