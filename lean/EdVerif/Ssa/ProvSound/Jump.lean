import EdVerif.Ssa.ProvSound.Frame
/-!
# Transfer of control: phis
-/
namespace EdVerif.Ssa.PS

open EdVerif.Ssa

variable {P : Program} {H : List FuncHints} {h : FuncHints}

theorem splitPhis_spec : ∀ (is : List Instr),
    is = (splitPhis is).1 ++ (splitPhis is).2 ∧ ∀ j ∈ (splitPhis is).1, ∃ es, j.op = .phi es := by
  intro is
  induction is with
  | nil => simp [splitPhis]
  | cons i is ih =>
    unfold splitPhis
    split
    · rename_i es hop
      simp only [List.cons_append, List.mem_cons]
      refine ⟨by rw [← ih.1], ?_⟩
      intro j hj
      rcases hj with e | e
      · subst e; exact ⟨es, hop⟩
      · exact ih.2 j e
    · simp

theorem pPhi_le (c : PCtx) : ∀ (es : List (Nat × Opnd)) (acc : Prov),
    RootsLe acc (pPhi c es acc) ∧ ∀ e ∈ es, RootsLe (c.lab e.2) (pPhi c es acc) := by
  intro es
  induction es with
  | nil => intro acc; exact ⟨RootsLe.refl _, fun e he => by cases he⟩
  | cons e es ih =>
    intro acc
    simp only [pPhi]
    obtain ⟨h1, h2⟩ := ih (acc ||| c.lab e.2)
    refine ⟨(RootsLe.or_left _ _).trans h1, ?_⟩
    intro e' he'
    rcases List.mem_cons.1 he' with e1 | e1
    · subst e1; exact (RootsLe.or_right _ _).trans h1
    · exact h2 e' e1

theorem phiEdge_mem {pred : Nat} : ∀ {es : List (Nat × Opnd)} {o : Opnd}, phiEdge pred es = some o → ∃ e ∈ es, e.2 = o := by
  intro es
  induction es with
  | nil => intro o h; simp [phiEdge] at h
  | cons e es ih =>
    intro o h
    simp only [phiEdge] at h
    split at h
    · cases h; exact ⟨e, by simp, rfl⟩
    · obtain ⟨e', he', ho⟩ := ih h
      exact ⟨e', by simp [he'], ho⟩

theorem evalPhis_spec (fr : Frame) (pred : Nat) : ∀ (phis : List Instr) (vals : List (Nat × RVal)),
    evalPhis P fr pred phis = some vals →
    (∀ j ∈ phis, ∃ e ∈ vals, e.1 = j.id) ∧
    ∀ e ∈ vals, ∃ j ∈ phis, ∃ es o, j.id = e.1 ∧ j.op = .phi es ∧ phiEdge pred es = some o ∧ evalOpnd P fr j.ty o = some e.2 := by
  intro phis
  induction phis with
  | nil => intro vals h; simp [evalPhis] at h; subst h; simp
  | cons i is ih =>
    intro vals h
    unfold evalPhis at h
    split at h
    · rename_i es hop
      cases ho : phiEdge pred es with
      | none => simp [ho] at h
      | some o =>
        cases hv : evalOpnd P fr i.ty o with
        | none => simp [ho, hv] at h
        | some v =>
          cases hr : evalPhis P fr pred is with
          | none => simp [ho, hr] at h
          | some r =>
            simp [ho, hv, hr] at h; subst h
            obtain ⟨h1, h2⟩ := ih r hr
            constructor
            · intro j hj
              rcases List.mem_cons.1 hj with e | e
              · subst e; exact ⟨(j.id, v), by simp, rfl⟩
              · obtain ⟨e', he', hid⟩ := h1 j e
                exact ⟨e', by simp [he'], hid⟩
            · intro e he
              rcases List.mem_cons.1 he with e1 | e1
              · subst e1; exact ⟨i, by simp, es, o, rfl, hop, ho, hv⟩
              · obtain ⟨j, hj, rest⟩ := h2 e e1
                exact ⟨j, by simp [hj], rest⟩
    · cases h

theorem phisSized_mem {f : Func} {dm pred : Nat} : ∀ {phis : List Instr}, Side.phisSized P f dm pred phis = true →
    ∀ j ∈ phis, ∀ es o, j.op = .phi es → phiEdge pred es = some o → Side.opndSized P f dm j.ty j.ty o = true := by
  intro phis
  induction phis with
  | nil => intro _ j hj; cases hj
  | cons i is ih =>
    intro hs j hj es o hop ho
    simp only [Side.phisSized, Bool.and_eq_true] at hs
    rcases List.mem_cons.1 hj with e | e
    · subst e
      have := hs.1
      simp only [hop, ho] at this
      exact this
    · exact ih hs.2 j e es o hop ho

/-- `jumpTo` from the terminator `i` of the top frame preserves the frame invariant -/
theorem jumpTo_inv (F : Facts P H) {fr0 : Frame} {mark : Nat} {i : Instr} {rest : List Instr} {bl : Block} {pre : List Instr}
    (inv : FrameInv P H h fr0 mark none) (ex : Exec P H h fr0 mark i rest bl pre) (hr : fr0.rest = i :: rest)
    (hnv : Side.definesValue i.op = false)
    {t : Nat} (hj : Side.jumpOk P fr0.f (Side.defSets fr0.f) (blockOffsets fr0.f.blocks 0) fr0.blk pre.length t = true)
    {fr' : Frame} (hjt : jumpTo P (popI fr0 rest) t = some fr') :
    FrameInv P H h fr' mark none ∧ fr'.fi = fr0.fi ∧ fr'.f = fr0.f ∧ fr'.params = fr0.params ∧ fr'.dest = fr0.dest := by
  unfold jumpTo at hjt
  cases hb : (popI fr0 rest).f.blocks[t]? with
  | none => rw [hb] at hjt; simp at hjt
  | some tb =>
    rw [hb] at hjt
    simp only [Option.bind_eq_bind, Option.bind_some] at hjt
    cases hv : evalPhis P (popI fr0 rest) (popI fr0 rest).blk (splitPhis tb.instrs).1 with
    | none => rw [hv] at hjt; simp at hjt
    | some vals =>
      rw [hv] at hjt
      simp only [Option.bind_some, Option.pure_def, Option.some.injEq] at hjt
      subst hjt
      refine ⟨?_, rfl, rfl, rfl, rfl⟩
      have hb' : fr0.f.blocks[t]? = some tb := hb
      obtain ⟨hsplit, hphi⟩ := splitPhis_spec tb.instrs
      obtain ⟨hcover, hvals⟩ := evalPhis_spec (P := P) _ _ _ _ hv
      simp only [Side.jumpOk, hb', Bool.and_eq_true, beq_iff_eq] at hj
      obtain ⟨hsub, hps⟩ := hj
      -- registers defined at the jump (the terminator itself counts: it defines no value)
      have hdm : DefdRegs P (popI fr0 rest) (Side.defMask (Side.defSets fr0.f) (blockOffsets fr0.f.blocks 0) fr0.blk (pre.length + 1)) := by
        intro id hbit j hjj hdv
        have hi' : bl.instrs = (pre ++ [i]) ++ rest := by rw [ex.hi]; simp
        have := (testBit_defMask (pre := pre ++ [i]) (ids_of_block F inv.hf inv.hh ex.hb hi') id).1 (by simpa using hbit)
        obtain ⟨_, pre0, hb0, hi0, hdef⟩ := (frameInv_noReg inv ex.ic.self hr hnv).pos
        have hbl : _ = bl := Option.some.inj (hb0.symm.trans ex.hb)
        subst hbl
        have hpre : pre0 = pre ++ [i] := by
          have : pre0 ++ rest = (pre ++ [i]) ++ rest := hi0.symm.trans hi'
          exact List.append_cancel_right this
        subst hpre
        exact hdef id this (by simp) j hjj hdv
      -- facts about each phi
      have hphiOk : ∀ e ∈ vals, ∃ j, fr0.f.instrs[e.1]? = some j ∧ (∃ es, j.op = .phi es) ∧
          RVOk (fx P fr0 mark) (provOf h.provRegs e.1) e.2 ∧ Sized P j.ty e.2 := by
        intro e he
        obtain ⟨j, hjm, es, o, hid, hop, hedge, hev⟩ := hvals e he
        obtain ⟨n, hn⟩ := List.getElem?_of_mem (List.mem_append_left (splitPhis tb.instrs).2 hjm)
        rw [← hsplit] at hn
        have hat : InstrAt fr0.f t n j := ⟨tb, hb', hn⟩
        have hside := sInstr_spec (F.side fr0.fi fr0.f h inv.hf inv.hh t n j hat)
        have hself : fr0.f.instrs[j.id]? = some j := instrs_at hat hside.id
        have hlab : RootsLe (pPhi (pc P H fr0.f h) es 0) (provOf h.provRegs j.id) := by
          have := RootsLe.of_subset_roots hside.lab
          simpa [Side.reqU, hop] using this
        obtain ⟨e', he', ho'⟩ := phiEdge_mem hedge
        have hle : RootsLe ((pc P H fr0.f h).lab o) (provOf h.provRegs j.id) :=
          (ho' ▸ (pPhi_le _ es 0).2 e' he').trans hlab
        have hglob : ∀ g, o = .global g → g < P.globals.length := by
          intro g hg
          apply globalsInRange_mem hside.glob g
          simp only [hop, Op.operands, List.mem_map]
          exact ⟨e', he', by rw [ho', hg]⟩
        refine ⟨j, hid ▸ hself, ⟨es, hop⟩, ?_, ?_⟩
        · rw [← hid]
          exact (evalOpnd_lab (H := H) ex.ic.regsOk ex.ic.paramsOk hglob hev).mono hle
        · exact evalOpnd_sized hdm ex.ic.paramsSized (phisSized_mem hps j hjm es o hop hedge) hev
      refine ⟨inv.hf, inv.hh, ⟨tb, (splitPhis tb.instrs).1, hb', hsplit, ?_⟩, ?_, inv.params⟩
      · -- definedness in the new block
        intro id hds _ j hjj hdv
        by_cases hass : ∃ e ∈ vals, e.1 = id
        · obtain ⟨e, he, hid, hval⟩ := assignAll_mem vals fr0.regs id hass
          obtain ⟨j', hj', _, _, hsz⟩ := hphiOk e he
          rw [hid] at hj'
          rw [hjj] at hj'; cases hj'
          exact ⟨e.2, hval, hsz⟩
        · have hold : (Side.defMask (Side.defSets fr0.f) (blockOffsets fr0.f.blocks 0) fr0.blk (pre.length + 1)).testBit id = true := by
            rcases hds with hd | ⟨k, hk, hkid⟩
            · have : ((Side.defSets fr0.f).getD t 0 &&& Side.defMask (Side.defSets fr0.f) (blockOffsets fr0.f.blocks 0) fr0.blk (pre.length + 1)).testBit id = true := by
                rw [hsub]; exact hd
              simp only [Nat.testBit_and, Bool.and_eq_true] at this
              exact this.2
            · obtain ⟨e, he, heid⟩ := hcover k hk
              exact absurd ⟨e, he, heid.trans hkid⟩ hass
          obtain ⟨w, hw, hsz⟩ := hdm id hold j hjj hdv
          refine ⟨w, assignAll_other vals fr0.regs id w ?_ hw, hsz⟩
          intro e he heid
          exact hass ⟨e, he, heid⟩
      · -- labels
        apply assignAll_forall (P := fun id v => RVOk (fx P fr0 mark) (provOf h.provRegs id) v ∧ TupOk P H fr0.f h (fx P fr0 mark) id v)
        · intro k; exact ⟨RVOk.nil _ _, TupOk.nil _ _ _ _ _ _⟩
        · exact inv.regs
        · intro e he
          obtain ⟨j, hj', ⟨es, hop⟩, hok, _⟩ := hphiOk e he
          refine ⟨hok, ?_⟩
          intro ic g cargs gh hic hcop _
          rw [hj'] at hic; cases hic
          rw [hop] at hcop; cases hcop

end EdVerif.Ssa.PS
