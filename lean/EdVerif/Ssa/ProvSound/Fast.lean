import EdVerif.Ssa.ProvSpec
/-!
# The table-driven evaluation of the side conditions agrees with their definition
-/
namespace EdVerif.Ssa.PS

open EdVerif.Ssa EdVerif.Ssa.Side

theorem forceNat_eq' {α} (n : Nat) (k : Nat → α) : forceNat n k = k n := by
  cases n <;> rfl

theorem forceOpt_eq {α} (o : Option Nat) (k : Option Nat → α) : forceOpt o k = k o := by
  cases o <;> simp [forceOpt, forceNat_eq']

theorem forceOptList_eq {α} : ∀ (xs : List (Option Nat)) (k : List (Option Nat) → α), forceOptList xs k = k xs := by
  intro xs
  induction xs with
  | nil => intro k; rfl
  | cons x xs ih => intro k; simp [forceOptList, forceOpt_eq, ih]

theorem forceSpine_eq {α β} : ∀ (xs : List α) (k : List α → β), forceSpine xs k = k xs := by
  intro xs
  induction xs with
  | nil => intro k; rfl
  | cons x xs ih => intro k; simp [forceSpine, ih]

theorem sizeTab_getElem? (P : Program) : ∀ (n : Nat) (acc : List (Option Nat)) (t : Nat),
    (sizeTab P n acc)[t]? = if t < n then some (P.size t) else acc[t - n]? := by
  intro n
  induction n with
  | zero => intro acc t; simp [sizeTab]
  | succ n ih =>
    intro acc t
    simp only [sizeTab]
    rw [ih]
    by_cases h1 : t < n
    · have : t < n + 1 := by omega
      simp [h1, this]
    · by_cases h2 : t = n
      · subst h2; simp
      · have h3 : ¬ t < n + 1 := by omega
        simp only [h1, h3, if_false]
        rw [show t - n = (t - (n + 1)) + 1 by omega]
        simp

theorem size_of_ge (P : Program) {t : Nat} (h : P.types.size ≤ t) : P.size t = none := by
  have : P.tyOf t = .unsupported := by
    unfold Program.tyOf
    rw [Array.getElem?_eq_none h]; rfl
  unfold Program.size tyFuel
  simp [sizeF, this]

theorem te_tab_eq (P : Program) : TE.tab P (sizeTab P P.types.size []) P.types.toList = TE.of P := by
  unfold TE.tab TE.of
  congr 1
  · funext t
    rw [sizeTab_getElem?]
    by_cases h : t < P.types.size
    · simp [h]
    · simp only [h, if_false]
      rw [size_of_ge P (by omega)]; simp
  · funext t
    unfold Program.tyOf
    simp

theorem sizeEqG_eq (P : Program) : sizeEqG (TE.of P) = sizeEq P := rfl
theorem sizeIsG_eq (P : Program) : sizeIsG (TE.of P) = sizeIs P := rfl

theorem opndSizedG_eq (P : Program) (f : Func) (dm useTy ty : Nat) (o : Opnd) :
    opndSizedG (TE.of P) f dm useTy ty o = opndSized P f dm useTy ty o := by
  cases o <;> rfl

theorem phisSizedG_eq (P : Program) (f : Func) (dm pred : Nat) : ∀ (is : List Instr),
    phisSizedG (TE.of P) f dm pred is = phisSized P f dm pred is := by
  intro is
  induction is with
  | nil => rfl
  | cons i is ih => simp only [phisSizedG, phisSized, ih, opndSizedG_eq]

theorem jumpOkG_eq (P : Program) (f : Func) (D offs : List Nat) (b n t : Nat) :
    jumpOkG (TE.of P) f D offs b n t = jumpOk P f D offs b n t := by
  simp only [jumpOkG, jumpOk, phisSizedG_eq]

theorem retSizedG_eq (P : Program) (f : Func) (dm : Nat) : ∀ (vs : List Opnd) (ts : List Nat),
    retSizedG (TE.of P) f dm vs ts = retSized P f dm vs ts := by
  intro vs
  induction vs with
  | nil => intro ts; cases ts <;> rfl
  | cons v vs ih => intro ts; cases ts <;> simp [retSizedG, retSized, ih, opndSizedG_eq]

theorem argsOkG_eq (c : PCtx) (dm : Nat) (ps : List Param) : ∀ (as : List Opnd) (tys : List Nat) (j : Nat),
    argsOkG (TE.of c.prog) c dm ps as tys j = argsOk c dm ps as tys j := by
  intro as
  induction as with
  | nil => intro tys j; rfl
  | cons a as ih => intro tys j; simp only [argsOkG, argsOk, ih, opndSizedG_eq]

theorem sizesOfG_eq (P : Program) : ∀ ts, sizesOfG (TE.of P) ts = sizesOf P ts := by
  intro ts
  induction ts with
  | nil => rfl
  | cons t ts ih => simp only [sizesOfG, sizesOf, ih]; rfl

theorem sumSizesG_eq (P : Program) : ∀ ts, sumSizesG (TE.of P) ts = sumSizes P ts := by
  intro ts
  induction ts with
  | nil => rfl
  | cons t ts ih => simp only [sumSizesG, sumSizes, ih]; rfl

theorem fieldSpanG_eq (P : Program) (fs : List Nat) (i : Nat) : fieldSpanG (TE.of P) fs i = P.fieldSpan fs i := rfl

theorem resSizeOkG_eq (c : PCtx) (dm : Nat) (i : Instr) : resSizeOkG (TE.of c.prog) c dm i = resSizeOk c dm i := by
  unfold resSizeOkG resSizeOk
  simp only [sizeIsG_eq, opndSizedG_eq, fieldSpanG_eq, sizesOfG_eq, sumSizesG_eq, argsOkG_eq]
  rfl

theorem sInstrG_eq (c : PCtx) (D offs : List Nat) (b n : Nat) (i : Instr) :
    sInstrG (TE.of c.prog) c D offs b n i = sInstr c D offs b n i := by
  unfold sInstrG sInstr
  simp only [resSizeOkG_eq, jumpOkG_eq, retSizedG_eq]
  rfl

theorem sideSelectorG_eq (P : Program) (H : List FuncHints) : sideSelectorG (TE.of P) H = sideSelector P H := by
  funext fi f h
  unfold sideSelectorG sideSelector sideCheckG sideCheck
  have : ∀ D offs, sInstrG (TE.of P) { prog := (TE.of P).prog, hints := H, f := f, h := h } D offs
      = sInstr { prog := P, hints := H, f := f, h := h } D offs := by
    intro D offs
    funext b n i
    exact sInstrG_eq { prog := P, hints := H, f := f, h := h } D offs b n i
  simp only [this]

/-- what `provSideOk` evaluates -/
theorem provSideOk_eq (P : Program) (H : List FuncHints) :
    provSideOk P H = allClean (sideSelector P H) P.funcs H 0 := by
  unfold provSideOk
  rw [forceOptList_eq, forceSpine_eq, te_tab_eq, sideSelectorG_eq]

end EdVerif.Ssa.PS
