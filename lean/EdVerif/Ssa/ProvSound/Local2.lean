import EdVerif.Ssa.ProvSound.Local
/-!
# Local instructions, continued: slices, allocation, memory access
-/
namespace EdVerif.Ssa.PS

open EdVerif.Ssa

section ops
variable {P : Program} {H : List FuncHints} {h : FuncHints} {fr : Frame} {frs : List Frame} {mark dm : Nat} {i : Instr} {hp : Heap}

theorem stepSlice_local (ic : IC P H h fr mark dm i) {xk : VK} {x : Opnd} {lo hi mx : Option Opnd} (hop : i.op = .slice xk x lo hi mx) :
    LocalI P h hp fr frs mark i (stepSlice P hp fr frs i x lo hi mx) := by
  have hs : Side.sizeIs P i.ty 1 = true := by have := ic.size; simpa [Side.resSizeOk, hop] using this
  have hl : RootsLe ((pc P H fr.f h).lab x) (provOf h.provRegs i.id) := ic.labOf (by simp [Side.reqU, hop])
  have hx : ∀ v, evalOpnd P fr (i.opTys.headD 0) x = some v → RVOk (fx P fr mark) (provOf h.provRegs i.id) v :=
    fun v hv => (ic.opnd (by simp [hop, Op.operands]) hv).mono hl
  -- the common tail `go`
  have hgo : ∀ (b o len cap esz : Nat) (tLo tHi tMx : Nat),
      (¬ (cap = 0) → InRoots (fx P fr mark) (provOf h.provRegs i.id) b) →
      LocalI P h hp fr frs mark i
        (match evalBound P fr tLo 0 lo, evalBound P fr tHi len hi, evalBound P fr tMx cap mx with
          | some (l, e1), some (h, e2), some (m, e3) =>
            let evs := [ev fr K.sliceBound (e1 ++ e2 ++ e3)]
            match l, h, m with
            | some l, some h, some m =>
              if l ≤ h && h ≤ m && m ≤ cap then contReg fr frs i.id [.slice b (o + l * esz) (h - l) (m - l)] hp evs
              else .panic ⟨hp, fr :: frs⟩ RT.sliceBounds (evs ++ [ev fr EK.panic [RT.sliceBounds]])
            | _, _, _ => .panic ⟨hp, fr :: frs⟩ RT.sliceBounds (evs ++ [ev fr EK.panic [RT.sliceBounds]])
          | _, _, _ => .fault "slice: bounds") := by
    intro b o len cap esz tLo tHi tMx hb
    split
    · split
      · split
        · rename_i hc
          simp only [Bool.and_eq_true, decide_eq_true_eq] at hc
          refine .reg _ _ _ ⟨?_, Sized.of_sizeIs hs rfl⟩ (HeapStep.refl _ _)
          apply rvok_slice
          intro hne
          apply hb
          omega
        · exact .panic _ _
      · exact .panic _ _
    · exact .fault _
  unfold stepSlice
  simp only
  split
  · split
    · split
      · apply hgo
        intro _
        exact rvok_single_ptr (hx _ (by assumption))
      · exact .fault _
    · exact .fault _
  · split
    · apply hgo
      intro hne
      exact rvok_single_slice (hx _ (by assumption)) (by omega)
    · exact .fault _
  · exact .panic _ _
  · exact .fault _

theorem inRoots_fresh {x : RCtx} {L : Prov} {b : Nat} (hl : RootsLe Prov.fresh L) (hb : x.mark ≤ b) : InRoots x L b :=
  Or.inr (Or.inl ⟨hl 16 (by omega) (by omega) (by simp [testBit_fresh]), hb⟩)

theorem stepAlloc_local (ic : IC P H h fr mark dm i) (hm : mark ≤ hp.blocks.size) {hpf : Bool} {ek : VK} (hop : i.op = .alloc hpf ek) :
    LocalI P h hp fr frs mark i (stepAlloc P hp fr frs i) := by
  have hs : Side.sizeIs P i.ty 1 = true := by have := ic.size; simpa [Side.resSizeOk, hop] using this
  have hl : RootsLe Prov.fresh (provOf h.provRegs i.id) := ic.labOf (by simp [Side.reqU, hop])
  unfold stepAlloc
  split
  · split
    · rename_i zs _
      split
      · exact .fault _
      · have hspec := Heap.alloc_spec hp zs
        refine .reg _ _ _ ⟨?_, Sized.of_sizeIs hs rfl⟩ (HeapStep.alloc _ hp zs)
        apply rvok_ptr
        apply inRoots_fresh hl
        show mark ≤ (hp.alloc zs).2
        rw [hspec.1]; exact hm
    · exact .fault _
  · exact .fault _

theorem stepMakeSlice_local (ic : IC P H h fr mark dm i) (hm : mark ≤ hp.blocks.size) {l c : Opnd} (hop : i.op = .makeSlice l c) :
    LocalI P h hp fr frs mark i (stepMakeSlice P hp fr frs i l c) := by
  have hs : Side.sizeIs P i.ty 1 = true := by have := ic.size; simpa [Side.resSizeOk, hop] using this
  have hl : RootsLe Prov.fresh (provOf h.provRegs i.id) := ic.labOf (by simp [Side.reqU, hop])
  unfold stepMakeSlice
  split
  · simp only
    split
    · rename_i zs _
      split
      · exact .panic _ _
      · split
        · exact .fault _
        · rename_i w sg _ _ _ _ _ _ _ _
          generalize hvs : replicateFlat _ zs = vs
          have hspec := Heap.alloc_spec hp vs
          refine .reg _ _ _ ⟨?_, Sized.of_sizeIs hs rfl⟩ (HeapStep.alloc _ hp vs)
          apply rvok_slice
          intro _
          apply inRoots_fresh hl
          show mark ≤ (hp.alloc vs).2
          rw [hspec.1]; exact hm
    · exact .fault _
  · exact .fault _

theorem data_of_classes : ∀ (vs zs : List Val), listEqClasses vs zs = true → Side.allData zs = true → ∀ v ∈ vs, v.cls = .data := by
  intro vs
  induction vs with
  | nil => intro zs _ _ v hv; cases hv
  | cons a as ih =>
    intro zs hc hd v hv
    cases zs with
    | nil => simp [listEqClasses] at hc
    | cons z zs =>
      simp only [listEqClasses, List.map_cons, beq_iff_eq, List.cons.injEq] at hc
      simp only [Side.allData, Bool.and_eq_true, beq_iff_eq] at hd
      rcases List.mem_cons.1 hv with e | e
      · subst e; rw [hc.1]; exact hd.1
      · exact ih zs (by simp [listEqClasses, hc.2]) hd.2 v e

theorem stepLoad_local (ic : IC P H h fr mark dm i) {x : Opnd} (hop : i.op = .load x) :
    LocalI P h hp fr frs mark i (stepLoad P hp fr frs i x) := by
  have hsz := ic.size
  simp only [Side.resSizeOk, hop] at hsz
  have hl : RootsLe (if i.k.pointerish then Prov.loaded else 0) (provOf h.provRegs i.id) := ic.labOf (by simp [Side.reqU, hop])
  unfold stepLoad
  split
  · split
    · rename_i zs hz
      simp only [hz, Bool.and_eq_true, Bool.or_eq_true] at hsz
      split
      · rename_i vs hr
        split
        · rename_i hcl
          refine .reg _ _ _ ⟨?_, ?_⟩ (HeapStep.refl _ _)
          · rcases hsz.2 with hk | hd
            · simp only [hk, if_true] at hl
              exact RVOk.loaded _ (hl 17 (by omega) (by omega) (by simp [testBit_loaded])) _
            · exact (noPtr_of_data (data_of_classes vs zs hcl hd)).rvok _ _
          · exact Sized.of_sizeIs hsz.1 (Heap.read_length hr)
        · exact .fault _
      · exact .fault _
    · exact .fault _
  · exact .panic _ _
  · exact .fault _

theorem stepStore_local (ic : IC P H h fr mark dm i) {vk : VK} {a v : Opnd} (hop : i.op = .store vk a v) :
    LocalI P h hp fr frs mark i (stepStore P hp fr frs i a v) := by
  have hw : RootsLe ((pc P H fr.f h).lab a) (h.writes ||| Prov.fresh) := by
    have := ic.weff
    simpa [pRule, hop] using this
  unfold stepStore
  split
  · split
    · rename_i hwr
      refine .noreg _ _ (by simp [hop, Side.definesValue]) (HeapStep.write hwr ?_)
      exact Or.inl (rvok_single_ptr ((ic.opnd (by simp [hop, Op.operands]) (by assumption)).mono hw))
    · exact .fault _
  · exact .panic _ _
  · exact .fault _

theorem length_drop_take {α} (vs : List α) (off sz : Nat) (h : off + sz ≤ vs.length) : ((vs.drop off).take sz).length = sz := by
  simp [List.length_take, List.length_drop]; omega

theorem stepField_local (ic : IC P H h fr mark dm i) {x : Opnd} {fld : Nat}
    (hx : x ∈ i.op.operands)
    (hl : RootsLe ((pc P H fr.f h).lab x) (provOf h.provRegs i.id))
    (hsz : (match P.tyOf (i.opTys.headD 0) with
            | .struct fs => (match P.fieldSpan fs fld with | some (_, sz) => Side.sizeIs P i.ty sz | none => true)
            | _ => true) = true) :
    LocalI P h hp fr frs mark i (stepField P hp fr frs i x fld) := by
  unfold stepField
  split
  · rename_i vs fs hv hty
    simp only [hty] at hsz
    split
    · rename_i off sz hfs
      simp only [hfs] at hsz
      split
      · rename_i hle
        refine .reg _ _ _ ⟨?_, Sized.of_sizeIs hsz (length_drop_take vs off sz hle)⟩ (HeapStep.refl _ _)
        exact ((ic.opnd hx hv).mono hl).take_drop off sz
      · exact .fault _
    · exact .fault _
  · exact .fault _

theorem stepIndex_local (ic : IC P H h fr mark dm i) {x ix : Opnd} (hop : i.op = .index x ix) :
    LocalI P h hp fr frs mark i (stepIndex P hp fr frs i x ix) := by
  have hsz := ic.size
  simp only [Side.resSizeOk, hop] at hsz
  have hl : RootsLe ((pc P H fr.f h).lab x) (provOf h.provRegs i.id) := ic.labOf (by simp [Side.reqU, hop])
  unfold stepIndex
  split
  · rename_i vs n w sg len e hv _ _ hty
    simp only [hty] at hsz
    split
    · rename_i sz k hse hk
      simp only [hse] at hsz
      split
      · rename_i hle
        refine .reg _ _ _ ⟨?_, Sized.of_sizeIs hsz (length_drop_take vs (k * sz) sz (by rw [Nat.add_mul] at hle; omega))⟩ (HeapStep.refl _ _)
        exact ((ic.opnd (by simp [hop, Op.operands]) hv).mono hl).take_drop _ _
      · exact .fault _
    · exact .panic _ _
    · exact .fault _
  · exact .fault _

end ops

end EdVerif.Ssa.PS
