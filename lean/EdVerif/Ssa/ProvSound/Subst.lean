import EdVerif.Ssa.ProvSound.Jump
/-!
# Callee summaries in the caller's labels (`substArgs`, `substReturns`)
-/
namespace EdVerif.Ssa.PS

open EdVerif.Ssa

theorem testBit_substArgs (c : PCtx) (s : Prov) : ∀ (as : List Opnd) (i : Nat) (acc : Prov) (k : Nat),
    (substArgs c s as i acc).testBit k = true ↔
      (acc.testBit k = true ∨ ∃ (j : Nat) (o : Opnd), as[j]? = some o ∧ i + j < 16 ∧ s.testBit (i + j) = true ∧ (c.lab o).testBit k = true) := by
  intro as
  induction as with
  | nil => intro i acc k; simp [substArgs]
  | cons a as ih =>
    intro i acc k
    simp only [substArgs]
    rw [ih]
    constructor
    · rintro (hacc | ⟨j, o, ho, hlt, hs, hl⟩)
      · split at hacc
        · rename_i hc
          simp only [Bool.and_eq_true, decide_eq_true_eq] at hc
          simp only [Nat.testBit_or, Bool.or_eq_true] at hacc
          rcases hacc with h1 | h1
          · exact Or.inl h1
          · exact Or.inr ⟨0, a, by simp, by simpa using hc.1, by simpa using hc.2, h1⟩
        · exact Or.inl hacc
      · exact Or.inr ⟨j + 1, o, by simpa using ho, by omega, by rw [show i + (j + 1) = i + 1 + j by omega]; exact hs, hl⟩
    · rintro (hacc | ⟨j, o, ho, hlt, hs, hl⟩)
      · left
        split
        · simp [Nat.testBit_or, hacc]
        · exact hacc
      · cases j with
        | zero =>
          simp at ho; subst ho
          left
          have : (decide (i < 16) && s.testBit i) = true := by
            simp only [Bool.and_eq_true, decide_eq_true_eq]
            exact ⟨by simpa using hlt, by simpa using hs⟩
          simp only [this, if_true, Nat.testBit_or, hl, Bool.or_true]
        | succ j =>
          right
          exact ⟨j, o, by simpa using ho, by omega, by rw [show i + 1 + j = i + (j + 1) by omega]; exact hs, hl⟩

theorem substArgs_zero (c : PCtx) (as : List Opnd) (k : Nat) : (substArgs c 0 as 0 (Prov.minus 0 Prov.paramMask)).testBit k = false := by
  cases hb : (substArgs c 0 as 0 (Prov.minus 0 Prov.paramMask)).testBit k with
  | false => rfl
  | true =>
    rw [testBit_substArgs] at hb
    rcases hb with h | ⟨j, o, _, _, h, _⟩
    · simp [testBit_minus] at h
    · simp at h

theorem substReturns_le (c : PCtx) (as : List Opnd) : ∀ (rs : List Prov) (acc : Prov),
    RootsLe acc (substReturns c as rs acc) ∧
    ∀ (j : Nat) (s : Prov), rs[j]? = some s → RootsLe (substArgs c s as 0 (Prov.minus s Prov.paramMask)) (substReturns c as rs acc) := by
  intro rs
  induction rs with
  | nil => intro acc; exact ⟨RootsLe.refl _, fun j s h => by simp at h⟩
  | cons r rs ih =>
    intro acc
    simp only [substReturns]
    obtain ⟨h1, h2⟩ := ih (substArgs c r as 0 (acc ||| Prov.minus r Prov.paramMask))
    constructor
    · refine RootsLe.trans ?_ h1
      intro k _ _ hk
      rw [testBit_substArgs]; left; simp [Nat.testBit_or, hk]
    · intro j s hj
      cases j with
      | zero =>
        simp at hj; subst hj
        refine RootsLe.trans ?_ h1
        intro k _ _ hk
        rw [testBit_substArgs] at hk ⊢
        rcases hk with hk | hk
        · left; simp [Nat.testBit_or, hk]
        · right; exact hk
      | succ j => exact h2 j s (by simpa using hj)

/-- roots of a callee label `s` (in the callee's context `y`) are roots of the caller label `T` (in the
    caller's context `x`) when `T` contains the non-parameter bits of `s` and the labels of the
    arguments in the positions of `s` -/
theorem inRoots_transfer {x y : RCtx} {c : PCtx} {s T : Prov} {cargs : List Opnd}
    (hng : y.ng = x.ng) (hmark : x.mark ≤ y.mark)
    (hargs : ∀ (k : Nat) (a : RVal), y.args[k]? = some a → ∃ o, cargs[k]? = some o ∧ RVOk x (c.lab o) a)
    (hpar : ∀ (k : Nat) (o : Opnd), k < 16 → s.testBit k = true → cargs[k]? = some o → RootsLe (c.lab o) T)
    (hrest : ∀ k, 16 ≤ k → k ≠ 18 → k ≠ 19 → s.testBit k = true → T.testBit k = true)
    {b : Nat} (hb : InRoots y s b) : InRoots x T b := by
  rcases hb with ⟨k, a, v, hk, hbit, ha, hv, hp⟩ | ⟨hbit, hm⟩ | hbit | ⟨g, hg, hbit, hb⟩
  · obtain ⟨o, ho, hok⟩ := hargs k a ha
    exact (hok v hv b hp).mono (hpar k o hk hbit ho)
  · exact Or.inr (Or.inl ⟨hrest 16 (by omega) (by omega) (by omega) hbit, by omega⟩)
  · exact Or.inr (Or.inr (Or.inl (hrest 17 (by omega) (by omega) (by omega) hbit)))
  · exact Or.inr (Or.inr (Or.inr ⟨g, hng ▸ hg, hrest (20 + g) (by omega) (by omega) (by omega) hbit, hb⟩))

/-- … for a return summary -/
theorem inRoots_compLab {x y : RCtx} {c : PCtx} {rs : List Prov} {cargs : List Opnd} {j : Nat}
    (hng : y.ng = x.ng) (hmark : x.mark ≤ y.mark)
    (hargs : ∀ (k : Nat) (a : RVal), y.args[k]? = some a → ∃ o, cargs[k]? = some o ∧ RVOk x (c.lab o) a)
    {b : Nat} (hb : InRoots y (rs.getD j 0) b) : InRoots x (compLab c rs cargs j) b := by
  apply inRoots_transfer hng hmark hargs _ _ hb
  · intro k o hk hbit ho q _ _ hq
    unfold compLab
    rw [testBit_substArgs]
    right
    exact ⟨k, o, ho, by omega, by simpa using hbit, hq⟩
  · intro k hk h18 h19 hbit
    unfold compLab
    rw [testBit_substArgs]
    left
    rw [testBit_minus, hbit, testBit_paramMask]
    have : decide (k < 16) = false := by simp; omega
    simp [this]

end EdVerif.Ssa.PS
