import EdVerif.Ssa.ProvSound.Calls
/-!
# From the frame invariant to the instruction context and back
-/
namespace EdVerif.Ssa.PS

open EdVerif.Ssa

variable {P : Program} {H : List FuncHints} {h : FuncHints}

/-- the frame with the current instruction removed from `rest` -/
abbrev popI (fr0 : Frame) (rest : List Instr) : Frame := { fr0 with rest := rest }

theorem testBit_rangeMask (n off id : Nat) : ((((1 <<< n) - 1) <<< off).testBit id = true) ↔ (off ≤ id ∧ id < off + n) := by
  rw [Nat.testBit_shiftLeft, Nat.one_shiftLeft, Nat.testBit_two_pow_sub_one]
  simp only [Bool.and_eq_true, decide_eq_true_eq, ge_iff_le]
  omega

theorem testBit_defMask {f : Func} {blk : Nat} {pre : List Instr} {offs : List Nat}
    (hids : ∀ (k : Nat) (j : Instr), pre[k]? = some j → j.id = offs.getD blk 0 + k) (id : Nat) :
    (Side.defMask (Side.defSets f) offs blk pre.length).testBit id = true ↔ DefSet f blk pre id := by
  unfold Side.defMask DefSet
  simp only [Nat.testBit_or, Bool.or_eq_true]
  rw [testBit_rangeMask]
  constructor
  · rintro (hd | ⟨h1, h2⟩)
    · exact Or.inl hd
    · right
      have hk : id - offs.getD blk 0 < pre.length := by omega
      refine ⟨pre[id - offs.getD blk 0], List.getElem_mem hk, ?_⟩
      rw [hids _ _ (List.getElem?_eq_getElem hk)]; omega
  · rintro (hd | ⟨j, hj, hjid⟩)
    · exact Or.inl hd
    · right
      obtain ⟨k, hk⟩ := List.getElem?_of_mem hj
      have hlt : k < pre.length := by
        rcases Nat.lt_or_ge k pre.length with h' | h'
        · exact h'
        · rw [List.getElem?_eq_none h'] at hk; cases hk
      rw [← hjid, hids k j hk]; omega

theorem ids_of_block {P : Program} {H : List FuncHints} {h : FuncHints} (F : Facts P H) {fi : Nat} {f : Func}
    (hf : P.funcs[fi]? = some f) (hh : H[fi]? = some h) {blk : Nat} {bl : Block} {pre rest : List Instr}
    (hb : f.blocks[blk]? = some bl) (hi : bl.instrs = pre ++ rest) :
    ∀ (k : Nat) (j : Instr), pre[k]? = some j → j.id = (blockOffsets f.blocks 0).getD blk 0 + k := by
  intro k j hk
  have hlt : k < pre.length := by
    rcases Nat.lt_or_ge k pre.length with h' | h'
    · exact h'
    · rw [List.getElem?_eq_none h'] at hk; cases hk
  have hat : InstrAt f blk k j := ⟨bl, hb, by rw [hi, List.getElem?_append_left hlt]; exact hk⟩
  exact (sInstr_spec (F.side fi f h hf hh blk k j hat)).id

/-- what is known when instruction `i` of the top frame is about to execute -/
structure Exec (P : Program) (H : List FuncHints) (h : FuncHints) (fr0 : Frame) (mark : Nat) (i : Instr) (rest : List Instr)
    (bl : Block) (pre : List Instr) : Prop where
  hb : fr0.f.blocks[fr0.blk]? = some bl
  hi : bl.instrs = pre ++ i :: rest
  ic : IC P H h (popI fr0 rest) mark (Side.defMask (Side.defSets fr0.f) (blockOffsets fr0.f.blocks 0) fr0.blk pre.length) i
  side : SideI (pc P H fr0.f h) (Side.defSets fr0.f) (blockOffsets fr0.f.blocks 0) fr0.blk pre.length i

theorem instrAt_of_split {f : Func} {blk : Nat} {bl : Block} {pre rest : List Instr} {i : Instr}
    (hb : f.blocks[blk]? = some bl) (hi : bl.instrs = pre ++ i :: rest) : InstrAt f blk pre.length i :=
  ⟨bl, hb, by rw [hi]; simp⟩

theorem exec_of_inv (F : Facts P H) {fr0 : Frame} {mark : Nat} {i : Instr} {rest : List Instr}
    (inv : FrameInv P H h fr0 mark none) (hr : fr0.rest = i :: rest) : ∃ bl pre, Exec P H h fr0 mark i rest bl pre := by
  obtain ⟨bl, pre, hb, hi, hdef⟩ := inv.pos
  rw [hr] at hi
  have hat := instrAt_of_split hb hi
  have hside := sInstr_spec (F.side fr0.fi fr0.f h inv.hf inv.hh fr0.blk pre.length i hat)
  have hself : fr0.f.instrs[i.id]? = some i := instrs_at hat hside.id
  refine ⟨bl, pre, hb, hi, ?_, hside⟩
  exact
    { facts := F, hf := inv.hf, hh := inv.hh,
      regsOk := fun id v hv => (inv.regs id v hv).1,
      tupOk := fun id v hv => (inv.regs id v hv).2,
      paramsOk := paramsOk_of (F.nparams _ _ inv.hf) inv.params,
      paramsSized := fun k p a hp ha => (inv.params k p a hp ha).1,
      defd := by
        intro id hbit j hj hdv
        have hds : DefSet fr0.f fr0.blk pre id := (testBit_defMask (ids_of_block F inv.hf inv.hh hb hi) id).1 hbit
        exact hdef id hds (by simp) j hj hdv
      self := hself,
      glob := fun g hg => globalsInRange_mem hside.glob g hg,
      lab := RootsLe.of_subset_roots hside.lab,
      size := hside.size,
      prov := F.prov fr0.fi fr0.f h inv.hf inv.hh fr0.blk pre.length i hat }

theorem tupOk_of_not_call {f : Func} {x : RCtx} {i : Instr} (hself : f.instrs[i.id]? = some i)
    (hn : ∀ g a, i.op ≠ .call (.fn g) a) (v : RVal) : TupOk P H f h x i.id v := by
  intro ic g cargs gh hic hop _
  rw [hself] at hic; cases hic
  exact absurd hop (hn g cargs)

/-- after an instruction that sets its own register -/
theorem frameInv_setReg {fr0 : Frame} {mark : Nat} {i : Instr} {rest : List Instr} {v : RVal}
    (inv : FrameInv P H h fr0 mark none) (hself : fr0.f.instrs[i.id]? = some i) (hr : fr0.rest = i :: rest)
    (hv : GoodV P h (popI fr0 rest) mark i v) (htup : TupOk P H fr0.f h (fx P fr0 mark) i.id v) :
    FrameInv P H h { popI fr0 rest with regs := regSet fr0.regs i.id v } mark none := by
  obtain ⟨bl, pre, hb, hi, hdef⟩ := inv.pos
  rw [hr] at hi
  refine ⟨inv.hf, inv.hh, ⟨bl, pre ++ [i], hb, by simp [hi], ?_⟩, ?_, inv.params⟩
  · intro id hds _ j hj hdv
    by_cases hid : id = i.id
    · subst hid
      have : j = i := by rw [hself] at hj; cases hj; rfl
      subst this
      exact ⟨v, regSet_self _ _ _, hv.2⟩
    · have hds' : DefSet fr0.f fr0.blk pre id := by
        rcases hds with hd | ⟨k, hk, hkid⟩
        · exact Or.inl hd
        · rcases List.mem_append.1 hk with hk | hk
          · exact Or.inr ⟨k, hk, hkid⟩
          · simp at hk; subst hk; exact absurd hkid.symm hid
      obtain ⟨w, hw, hsz⟩ := hdef id hds' (by simp) j hj hdv
      exact ⟨w, regSet_other hid hw, hsz⟩
  · apply regSet_forall (P := fun id v => RVOk (fx P fr0 mark) (provOf h.provRegs id) v ∧ TupOk P H fr0.f h (fx P fr0 mark) id v)
    · exact inv.regs
    · exact ⟨hv.1, htup⟩
    · intro k; exact ⟨RVOk.nil _ _, TupOk.nil _ _ _ _ _ _⟩

/-- after an instruction that defines no value -/
theorem frameInv_noReg {fr0 : Frame} {mark : Nat} {i : Instr} {rest : List Instr}
    (inv : FrameInv P H h fr0 mark none) (hself : fr0.f.instrs[i.id]? = some i) (hr : fr0.rest = i :: rest)
    (hnr : Side.definesValue i.op = false) :
    FrameInv P H h (popI fr0 rest) mark none := by
  obtain ⟨bl, pre, hb, hi, hdef⟩ := inv.pos
  rw [hr] at hi
  refine ⟨inv.hf, inv.hh, ⟨bl, pre ++ [i], hb, by simp [hi], ?_⟩, inv.regs, inv.params⟩
  intro id hds _ j hj hdv
  by_cases hid : id = i.id
  · subst hid
    have : j = i := by rw [hself] at hj; cases hj; rfl
    subst this
    rw [hnr] at hdv; cases hdv
  · have hds' : DefSet fr0.f fr0.blk pre id := by
      rcases hds with hd | ⟨k, hk, hkid⟩
      · exact Or.inl hd
      · rcases List.mem_append.1 hk with hk | hk
        · exact Or.inr ⟨k, hk, hkid⟩
        · simp at hk; subst hk; exact absurd hkid.symm hid
    exact hdef id hds' (by simp) j hj hdv

/-- the caller's frame while a call of a program function (instruction `i`) is in progress -/
theorem frameInv_pending {fr0 : Frame} {mark : Nat} {i : Instr} {rest : List Instr}
    (inv : FrameInv P H h fr0 mark none) (hr : fr0.rest = i :: rest) :
    FrameInv P H h (popI fr0 rest) mark (some i.id) := by
  obtain ⟨bl, pre, hb, hi, hdef⟩ := inv.pos
  rw [hr] at hi
  refine ⟨inv.hf, inv.hh, ⟨bl, pre ++ [i], hb, by simp [hi], ?_⟩, inv.regs, inv.params⟩
  intro id hds hpend j hj hdv
  have hid : id ≠ i.id := fun e => hpend (by rw [e])
  have hds' : DefSet fr0.f fr0.blk pre id := by
    rcases hds with hd | ⟨k, hk, hkid⟩
    · exact Or.inl hd
    · rcases List.mem_append.1 hk with hk | hk
      · exact Or.inr ⟨k, hk, hkid⟩
      · simp at hk; subst hk; exact absurd hkid.symm hid
  exact hdef id hds' (by simp) j hj hdv

end EdVerif.Ssa.PS
