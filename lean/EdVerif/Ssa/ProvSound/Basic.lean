import EdVerif.Ssa.ProvSound.Bits
/-!
# Register files, heaps: frame lemmas
-/
namespace EdVerif.Ssa.PS

open EdVerif.Ssa

/-! ## `regSet` -/

theorem regSet_getElem? (a : Array RVal) (id : Nat) (v : RVal) (k : Nat) :
    (regSet a id v)[k]? =
      if k = id then some v else if k < a.size then a[k]? else if k < id then some [] else none := by
  unfold regSet
  by_cases h : id < a.size
  · simp only [h, if_true]
    rw [Array.getElem?_setIfInBounds]
    by_cases hk : k = id
    · subst hk; simp [h]
    · have : ¬ id = k := fun e => hk e.symm
      simp only [this, hk, if_false]
      by_cases hk2 : k < a.size
      · simp [hk2]
      · simp only [hk2, if_false]
        have : ¬ k < id := by omega
        simp only [this, if_false]
        exact Array.getElem?_eq_none (by omega)
  · simp only [h, if_false]
    have hsz : (a ++ Array.replicate (id - a.size) ([] : RVal)).size = id := by
      simp; omega
    rw [Array.getElem?_push, hsz]
    by_cases hk : k = id
    · simp [hk]
    · simp only [hk, if_false]
      rw [Array.getElem?_append]
      by_cases hk2 : k < a.size
      · simp [hk2]
      · simp only [hk2, if_false]
        rw [Array.getElem?_replicate]
        by_cases hk3 : k < id
        · have : k - a.size < id - a.size := by omega
          simp [hk3, this]
        · have : ¬ k - a.size < id - a.size := by omega
          simp [hk3, this]

theorem regSet_self (a : Array RVal) (id : Nat) (v : RVal) : (regSet a id v)[id]? = some v := by
  rw [regSet_getElem?]; simp

theorem regSet_other {a : Array RVal} {id : Nat} {v : RVal} {k : Nat} {w : RVal}
    (hk : k ≠ id) (h : a[k]? = some w) : (regSet a id v)[k]? = some w := by
  rw [regSet_getElem?]
  have : k < a.size := by
    rcases Nat.lt_or_ge k a.size with h' | h'
    · exact h'
    · rw [Array.getElem?_eq_none h'] at h; cases h
  simp only [hk, this, if_false, if_true]
  exact h

/-- a property of all registers that holds for `[]` is preserved by `regSet` -/
theorem regSet_forall {P : Nat → RVal → Prop} {a : Array RVal} {id : Nat} {v : RVal}
    (ha : ∀ k w, a[k]? = some w → P k w) (hv : P id v) (hnil : ∀ k, P k []) :
    ∀ k w, (regSet a id v)[k]? = some w → P k w := by
  intro k w h
  rw [regSet_getElem?] at h
  by_cases hk : k = id
  · subst hk; simp at h; subst h; exact hv
  · simp only [hk, if_false] at h
    by_cases hk2 : k < a.size
    · simp only [hk2, if_true] at h; exact ha k w h
    · simp only [hk2, if_false] at h
      by_cases hk3 : k < id
      · simp only [hk3, if_true] at h
        cases h; exact hnil k
      · simp [hk3] at h

theorem assignAll_forall {P : Nat → RVal → Prop} (hnil : ∀ k, P k []) :
    ∀ (vals : List (Nat × RVal)) (a : Array RVal),
      (∀ k w, a[k]? = some w → P k w) → (∀ e ∈ vals, P e.1 e.2) →
      ∀ k w, (assignAll a vals)[k]? = some w → P k w := by
  intro vals
  induction vals with
  | nil => intro a ha _; simpa [assignAll] using ha
  | cons e es ih =>
    intro a ha hv
    obtain ⟨id, v⟩ := e
    simp only [assignAll]
    apply ih
    · exact regSet_forall ha (hv (id, v) (by simp)) hnil
    · intro e he; exact hv e (by simp [he])

/-- registers not assigned keep their value -/
theorem assignAll_other :
    ∀ (vals : List (Nat × RVal)) (a : Array RVal) (k : Nat) (w : RVal),
      (∀ e ∈ vals, e.1 ≠ k) → a[k]? = some w → (assignAll a vals)[k]? = some w := by
  intro vals
  induction vals with
  | nil => intro a k w _ h; simpa [assignAll] using h
  | cons e es ih =>
    intro a k w hne h
    obtain ⟨id, v⟩ := e
    simp only [assignAll]
    apply ih
    · intro e he; exact hne e (by simp [he])
    · exact regSet_other (fun e => hne (id, v) (by simp) e.symm) h

/-- an assigned register holds one of the assigned values -/
theorem assignAll_mem :
    ∀ (vals : List (Nat × RVal)) (a : Array RVal) (k : Nat),
      (∃ e ∈ vals, e.1 = k) → ∃ e ∈ vals, e.1 = k ∧ (assignAll a vals)[k]? = some e.2 := by
  intro vals
  induction vals with
  | nil => intro a k h; obtain ⟨e, he, _⟩ := h; cases he
  | cons e es ih =>
    intro a k h
    obtain ⟨id, v⟩ := e
    simp only [assignAll]
    by_cases hlater : ∃ e ∈ es, e.1 = k
    · obtain ⟨e', he', hk, hval⟩ := ih (regSet a id v) k hlater
      exact ⟨e', by simp [he'], hk, hval⟩
    · have hid : id = k := by
        obtain ⟨e', he', hk⟩ := h
        rcases List.mem_cons.1 he' with h1 | h1
        · subst h1; exact hk
        · exact absurd ⟨e', h1, hk⟩ hlater
      refine ⟨(id, v), by simp, hid, ?_⟩
      apply assignAll_other
      · intro e' he' hk; exact hlater ⟨e', he', hk⟩
      · subst hid; exact regSet_self a id v

/-! ## heap -/

theorem readCells_length (b : Array Val) : ∀ (n off : Nat) (vs : List Val), readCells b off n = some vs → vs.length = n := by
  intro n
  induction n with
  | zero => intro off vs h; simp [readCells] at h; subst h; rfl
  | succ n ih =>
    intro off vs h
    simp only [readCells] at h
    cases hb : b[off]? with
    | none => simp [hb] at h
    | some v =>
      cases hr : readCells b (off + 1) n with
      | none => simp [hb, hr] at h
      | some r =>
        simp [hb, hr] at h
        subst h
        simp [ih (off + 1) r hr]

theorem Heap.read_length {h : Heap} {blk off n : Nat} {vs : List Val} (hr : h.read blk off n = some vs) :
    vs.length = n := by
  unfold Heap.read at hr
  cases hb : h.blocks[blk]? with
  | none => simp [hb] at hr
  | some b => simp [hb] at hr; exact readCells_length b n off vs hr

theorem Heap.write_spec {h h' : Heap} {blk off : Nat} {vs : List Val} (hw : h.write blk off vs = some h') :
    blk < h.blocks.size ∧ h'.blocks.size = h.blocks.size ∧ ∀ b, b ≠ blk → h'.blocks[b]? = h.blocks[b]? := by
  unfold Heap.write at hw
  cases hb : h.blocks[blk]? with
  | none => simp [hb] at hw
  | some bl =>
    simp only [hb] at hw
    cases hc : writeCells bl off vs with
    | none => simp [hc] at hw
    | some b' =>
      simp only [hc, Option.some.injEq] at hw
      subst hw
      refine ⟨?_, by simp, ?_⟩
      · rcases Nat.lt_or_ge blk h.blocks.size with h' | h'
        · exact h'
        · rw [Array.getElem?_eq_none h'] at hb; cases hb
      · intro b hne
        have : ¬ blk = b := fun e => hne e.symm
        simp [this]

theorem Heap.write_nil {h h' : Heap} {blk off : Nat} (hw : h.write blk off [] = some h') :
    ∀ b : Nat, h'.blocks[b]? = h.blocks[b]? := by
  intro b
  by_cases hb : b = blk
  · subst hb
    unfold Heap.write at hw
    cases hb : h.blocks[b]? with
    | none => simp [hb] at hw
    | some bl =>
      simp only [hb, writeCells, Option.some.injEq] at hw
      subst hw
      have : b < h.blocks.size := by
        rcases Nat.lt_or_ge b h.blocks.size with h' | h'
        · exact h'
        · rw [Array.getElem?_eq_none h'] at hb; cases hb
      simp [this]
  · exact (Heap.write_spec hw).2.2 b hb

theorem Heap.alloc_spec (h : Heap) (vs : List Val) :
    (h.alloc vs).2 = h.blocks.size ∧ (h.alloc vs).1.blocks.size = h.blocks.size + 1 ∧
    ∀ b, b < h.blocks.size → (h.alloc vs).1.blocks[b]? = h.blocks[b]? := by
  refine ⟨rfl, by simp [Heap.alloc], ?_⟩
  intro b hb
  simp [Heap.alloc, Array.getElem?_push, hb, Nat.ne_of_lt hb]

end EdVerif.Ssa.PS
