import EdVerif.Ssa.ProvSound.Stack
/-!
# Calls of program functions and returns
-/
namespace EdVerif.Ssa.PS

open EdVerif.Ssa

variable {P : Program} {H : List FuncHints} {h : FuncHints}

theorem argsOk_spec (c : PCtx) (dm : Nat) (ps : List Param) : ∀ (as : List Opnd) (tys : List Nat) (j : Nat),
    Side.argsOk c dm ps as tys j = true →
    ∀ (k : Nat) (a : Opnd) (p : Param), as[k]? = some a → ps[j + k]? = some p →
      Side.opndSized c.prog c.f dm ((tys.drop k).headD 0) p.tyId a = true ∧
      (p.k.pointerish = true ∨ (Prov.roots (c.lab a) == 0) = true) := by
  intro as
  induction as with
  | nil => intro tys j _ k a p ha; simp at ha
  | cons a0 as ih =>
    intro tys j hok k a p ha hp
    simp only [Side.argsOk, Bool.and_eq_true] at hok
    cases k with
    | zero =>
      simp at ha; subst ha
      simp only [Nat.add_zero] at hp
      have := hok.1
      simp only [hp, Bool.and_eq_true, Bool.or_eq_true] at this
      simpa using this
    | succ k =>
      simp at ha
      have := ih tys.tail (j + 1) hok.2 k a p ha (by rw [show j + 1 + k = j + (k + 1) by omega]; exact hp)
      rw [List.drop_tail] at this
      exact this

theorem retSized_spec (f : Func) (dm : Nat) : ∀ (vals : List Opnd) (tys : List Nat),
    Side.retSized P f dm vals tys = true →
    vals.length = tys.length ∧
    ∀ (j : Nat) (o : Opnd), vals[j]? = some o → ∃ t, tys[j]? = some t ∧ (tys.drop j).headD 0 = t ∧ Side.opndSized P f dm t t o = true := by
  intro vals
  induction vals with
  | nil =>
    intro tys hs
    cases tys with
    | nil => exact ⟨rfl, fun j o ho => by simp at ho⟩
    | cons _ _ => simp [Side.retSized] at hs
  | cons v vs ih =>
    intro tys hs
    cases tys with
    | nil => simp [Side.retSized] at hs
    | cons t ts =>
      simp only [Side.retSized, Bool.and_eq_true] at hs
      obtain ⟨hl, hj⟩ := ih ts hs.2
      refine ⟨by simp [hl], ?_⟩
      intro j o ho
      cases j with
      | zero => simp at ho; subst ho; exact ⟨t, by simp, by simp, hs.1⟩
      | succ j =>
        simp at ho
        obtain ⟨t', h1, h2, h3⟩ := hj j o ho
        exact ⟨t', by simpa using h1, by simpa using h2, h3⟩

theorem retLab_spec (c : PCtx) : ∀ (vals : List Opnd) (ss : List Prov), Side.retLab c vals ss = true →
    ∀ (j : Nat) (o : Opnd), vals[j]? = some o → RootsLe (c.lab o) (ss.getD j 0) := by
  intro vals
  induction vals with
  | nil => intro ss _ j o ho; simp at ho
  | cons v vs ih =>
    intro ss hs j o ho
    simp only [Side.retLab, Bool.and_eq_true] at hs
    cases j with
    | zero =>
      simp at ho; subst ho
      have := RootsLe.of_subset_roots hs.1
      cases ss <;> simpa using this
    | succ j =>
      simp at ho
      have := ih ss.tail hs.2 j o ho
      cases ss with
      | nil => simpa using this
      | cons s ss => simpa using this

theorem flatten_length_sum : ∀ (tys : List Nat) (vs : List RVal) (n : Nat),
    Side.sumSizes P tys = some n → vs.length = tys.length →
    (∀ (j : Nat) (w : RVal) (t : Nat), vs[j]? = some w → tys[j]? = some t → Sized P t w) → vs.flatten.length = n := by
  intro tys
  induction tys with
  | nil =>
    intro vs n hs hl _
    cases vs with
    | nil => simp [Side.sumSizes] at hs; subst hs; rfl
    | cons _ _ => simp at hl
  | cons t ts ih =>
    intro vs n hs hl hsz
    cases vs with
    | nil => simp at hl
    | cons w ws =>
      simp only [Side.sumSizes] at hs
      cases ht : P.size t with
      | none => simp [ht] at hs
      | some a =>
        cases hts : Side.sumSizes P ts with
        | none => simp [ht, hts] at hs
        | some b =>
          simp [ht, hts] at hs
          subst hs
          have h1 : w.length = a := hsz 0 w t (by simp) (by simp) a ht
          have h2 := ih ws b hts (by simpa using hl) (fun j w' t' hw ht' => hsz (j + 1) w' t' (by simpa using hw) (by simpa using ht'))
          simp [h1, h2]

theorem getD_zero_eq_headD {α} (l : List α) (d : α) : l.getD 0 d = l.headD d := by
  cases l <;> rfl

/-- entering a program function -/
theorem call_push (F : Facts P H) {fr0 : Frame} {mark : Nat} {i : Instr} {rest : List Instr} {bl : Block} {pre : List Instr}
    (ex : Exec P H h fr0 mark i rest bl pre) {hp : Heap} (hm : mark ≤ hp.blocks.size)
    {g : Nat} {cargs : List Opnd} (hop : i.op = .call (.fn g) cargs) {vs : List RVal}
    (he : evalOpnds P (popI fr0 rest) cargs i.opTys = some vs) {gf : Func} (hgf : P.funcs[g]? = some gf)
    {nf : Frame} (hnf : mkFrame g gf vs (some i.id) = some nf) :
    ∃ gh, FrameInv P H gh nf hp.blocks.size none ∧ Link P H h (popI fr0 rest) mark (Callee.of gh nf hp.blocks.size) ∧
      nf.dest = some i.id := by
  obtain ⟨gh, hgh⟩ := F.hints g gf hgf
  have ic := ex.ic
  unfold mkFrame at hnf
  cases hb0 : gf.blocks[0]? with
  | none => rw [hb0] at hnf; simp at hnf
  | some b0 =>
    rw [hb0] at hnf
    simp only [Option.bind_eq_bind, Option.bind_some, Option.pure_def, Option.some.injEq] at hnf
    subst hnf
    have hsz := ic.size
    simp only [Side.resSizeOk, hop, hgf, Bool.and_eq_true] at hsz
    obtain ⟨hlen, hargs⟩ := ic.args (by intro o ho; simpa [hop, Op.operands] using ho) he
    obtain ⟨_, hev⟩ := evalOpnds_spec P _ _ _ _ he
    refine ⟨gh, ?_, ?_, rfl⟩
    · -- the new frame
      refine ⟨hgf, hgh, ⟨b0, [], hb0, rfl, ?_⟩, ?_, ?_⟩
      · intro id hds _ j _ _
        rcases hds with hd | ⟨k, hk, _⟩
        · have := F.entry g gf hgf
          rw [getD_zero_eq_headD, this] at hd
          simp at hd
        · cases hk
      · intro id v hv; simp at hv
      · intro k p a hpk hak
        have hak' : vs[k]? = some a := by simpa using hak
        have hk : k < cargs.length := by
          rw [← hlen]
          rcases Nat.lt_or_ge k vs.length with h' | h'
          · exact h'
          · rw [List.getElem?_eq_none h'] at hak'; cases hak'
        obtain ⟨v', hv1, hv2⟩ := hev k cargs[k] (List.getElem?_eq_getElem hk)
        rw [hak'] at hv1; cases hv1
        obtain ⟨hs1, hs2⟩ := argsOk_spec _ _ _ _ _ _ hsz.2 k cargs[k] p (List.getElem?_eq_getElem hk) (by simpa using hpk)
        refine ⟨evalOpnd_sized ic.defd ic.paramsSized hs1 hv2, ?_⟩
        intro hnp
        rcases hs2 with hs2 | hs2
        · rw [hnp] at hs2; cases hs2
        · exact (hargs k _ _ (List.getElem?_eq_getElem hk) hak').of_roots_zero hs2
    · -- the link
      have hweff : RootsLe (substArgs (pc P H fr0.f h) gh.writes cargs 0 (gh.writes &&& (Prov.globalMask ||| Prov.loaded)))
          (h.writes ||| Prov.fresh) := by
        have := ic.weff
        simpa [pRule, hop, pCall, pCallFn, hgh] using this
      refine ⟨hm, ?_, ?_⟩
      · intro b hb
        rcases hb with hb | hb
        · rcases hb with ⟨k, a, v, hk, hbit, ha, hv, hpt⟩ | ⟨hbit, hmk⟩ | hbit | ⟨gg, hg, hbit, hbe⟩
          · left
            have hbit' : gh.writes.testBit k = true := by
              simp only [Nat.testBit_or, testBit_fresh, Bool.or_eq_true, decide_eq_true_eq] at hbit
              rcases hbit with h1 | h1
              · exact h1
              · omega
            have hak' : vs[k]? = some a := by simpa [Callee.of] using ha
            have hk' : k < cargs.length := by
              rw [← hlen]
              rcases Nat.lt_or_ge k vs.length with h' | h'
              · exact h'
              · rw [List.getElem?_eq_none h'] at hak'; cases hak'
            have hok := hargs k _ _ (List.getElem?_eq_getElem hk') hak'
            refine ((hok v hv b hpt).mono ?_).mono hweff
            intro q _ _ hq
            rw [testBit_substArgs]
            right
            exact ⟨k, _, List.getElem?_eq_getElem hk', by omega, by simpa using hbit', hq⟩
          · left
            exact Or.inr (Or.inl ⟨by simp [Nat.testBit_or, testBit_fresh], by simp only [Callee.of] at hmk; show mark ≤ b; omega⟩)
          · have := F.noLoaded g gf gh hgf hgh
            simp [Callee.of, Nat.testBit_or, testBit_fresh, this] at hbit
          · right
            subst hbe
            have hg' : gg < P.globals.length := hg
            simp [isGlobalBlock]; omega
        · exact Or.inr hb
      · intro d hd
        simp only [Callee.of, Option.some.injEq] at hd
        subst hd
        refine ⟨i, cargs, gh, ic.self, hop, hgh, ?_, ?_, ?_, ?_⟩
        · exact ic.labOf (by simp [Side.reqU, hop, pCallFn, hgh])
        · intro n hn
          have := hsz.1
          simp only [hn, beq_iff_eq] at this
          exact this
        · intro gf' hgf'
          simp only [Callee.of] at hgf' ⊢
          rw [hgf] at hgf'; cases hgf'; rfl
        · intro k a ha
          have hak' : vs[k]? = some a := by simpa [Callee.of] using ha
          have hk' : k < cargs.length := by
            rw [← hlen]
            rcases Nat.lt_or_ge k vs.length with h' | h'
            · exact h'
            · rw [List.getElem?_eq_none h'] at hak'; cases hak'
          exact ⟨cargs[k], List.getElem?_eq_getElem hk', hargs k _ _ (List.getElem?_eq_getElem hk') hak'⟩

/-- entering the closure of a `sync.Once` -/
theorem once_push (F : Facts P H) {fr : Frame} {mark : Nat} {size : Nat} (hm : mark ≤ size)
    {g : Nat} {gf : Func} (hgf : P.funcs[g]? = some gf) {nf : Frame} (hnf : mkFrame g gf [] none = some nf) :
    ∃ gh, FrameInv P H gh nf size none ∧ Link P H h fr mark (Callee.of gh nf size) ∧ nf.dest = none := by
  obtain ⟨gh, hgh⟩ := F.hints g gf hgf
  unfold mkFrame at hnf
  cases hb0 : gf.blocks[0]? with
  | none => rw [hb0] at hnf; simp at hnf
  | some b0 =>
    rw [hb0] at hnf
    simp only [Option.bind_eq_bind, Option.bind_some, Option.pure_def, Option.some.injEq] at hnf
    subst hnf
    refine ⟨gh, ?_, ?_, rfl⟩
    · refine ⟨hgf, hgh, ⟨b0, [], hb0, rfl, ?_⟩, ?_, ?_⟩
      · intro id hds _ j _ _
        rcases hds with hd | ⟨k, hk, _⟩
        · have := F.entry g gf hgf
          rw [getD_zero_eq_headD, this] at hd
          simp at hd
        · cases hk
      · intro id v hv; simp at hv
      · intro k p a _ hak; simp at hak
    · refine ⟨hm, ?_, ?_⟩
      · intro b hb
        rcases hb with hb | hb
        · rcases hb with ⟨k, a, v, hk, hbit, ha, hv, hpt⟩ | ⟨hbit, hmk⟩ | hbit | ⟨gg, hg, hbit, hbe⟩
          · simp [Callee.of] at ha
          · left
            exact Or.inr (Or.inl ⟨by simp [Nat.testBit_or, testBit_fresh], by simp only [Callee.of] at hmk; show mark ≤ b; omega⟩)
          · have := F.noLoaded g gf gh hgf hgh
            simp [Callee.of, Nat.testBit_or, testBit_fresh, this] at hbit
          · right
            subst hbe
            have hg' : gg < P.globals.length := hg
            simp [isGlobalBlock]; omega
        · exact Or.inr hb
      · intro d hd
        simp [Callee.of] at hd

/-- the value handed to the caller by a `Return` -/
theorem ret_into_caller {fr0 : Frame} {mark : Nat} {i : Instr} {rest : List Instr} {bl : Block} {pre : List Instr}
    (inv : FrameInv P H h fr0 mark none) (ex : Exec P H h fr0 mark i rest bl pre) {vals : List Opnd} (hop : i.op = .ret vals)
    {vs : List RVal} (he : evalOpnds P (popI fr0 rest) vals fr0.f.resultTys = some vs)
    {hc : FuncHints} {caller : Frame} {mc : Nat} {d : Nat} (hd : fr0.dest = some d)
    (cinv : FrameInv P H hc caller mc (some d)) (link : Link P H hc caller mc (Callee.of h fr0 mark)) :
    FrameInv P H hc { caller with regs := regSet caller.regs d (retValue vs) } mc none := by
  obtain ⟨ic, cargs, gh, hic, hcop, hgh, hlab, hsize, hres, hpar⟩ := link.call d hd
  have hghh : gh = h := by
    have h1 : H[fr0.fi]? = some gh := hgh
    rw [inv.hh] at h1; cases h1; rfl
  subst hghh
  have hctl := ex.side.ctl
  simp only [hop, Bool.and_eq_true] at hctl
  obtain ⟨hrs, hrl⟩ := hctl
  obtain ⟨hvl, hrsz⟩ := retSized_spec _ _ _ _ hrs
  obtain ⟨hlen, hargs⟩ := ex.ic.args (by intro o ho; simpa [hop, Op.operands] using ho) he
  obtain ⟨_, hev⟩ := evalOpnds_spec P _ _ _ _ he
  -- the components of the returned tuple
  have hcomp : ∀ (j : Nat) (w : RVal), vs[j]? = some w →
      RVOk (fx P caller mc) (compLab (pc P H caller.f hc) gh.returns cargs j) w ∧
      ∀ t, fr0.f.resultTys[j]? = some t → Sized P t w := by
    intro j w hw
    have hj : j < vals.length := by
      rw [← hlen]
      rcases Nat.lt_or_ge j vs.length with h' | h'
      · exact h'
      · rw [List.getElem?_eq_none h'] at hw; cases hw
    have ho := List.getElem?_eq_getElem hj
    constructor
    · have h1 : RVOk (fx P fr0 mark) (gh.returns.getD j 0) w :=
        (hargs j _ _ ho hw).mono (retLab_spec _ _ _ hrl j _ ho)
      intro v hv b hb
      exact inRoots_compLab (x := fx P caller mc) (y := fx P fr0 mark) rfl link.mark hpar (h1 v hv b hb)
    · intro t ht
      obtain ⟨t', ht1, ht2, ht3⟩ := hrsz j _ ho
      rw [ht] at ht1; cases ht1
      obtain ⟨w', hw1, hw2⟩ := hev j _ ho
      rw [hw] at hw1; cases hw1
      rw [ht2] at hw2
      exact evalOpnd_sized ex.ic.defd ex.ic.paramsSized ht3 hw2
  have hgood : RVOk (fx P caller mc) (provOf hc.provRegs d) (retValue vs) := by
    apply RVOk.flatten
    intro w hwm
    obtain ⟨j, hj⟩ := List.getElem?_of_mem hwm
    refine ((hcomp j w hj).1).mono (RootsLe.trans ?_ hlab)
    cases hr : gh.returns[j]? with
    | none =>
      intro k _ _ hk
      unfold compLab at hk
      rw [List.getD_eq_getElem?_getD, hr] at hk
      simp only [Option.getD_none] at hk
      rw [substArgs_zero] at hk; cases hk
    | some s =>
      have := (substReturns_le (pc P H caller.f hc) cargs gh.returns 0).2 j s hr
      unfold compLab
      rw [List.getD_eq_getElem?_getD, hr]
      exact this
  have hsized : Sized P ic.ty (retValue vs) := by
    intro n hn
    apply flatten_length_sum _ vs n (hsize n hn) (by rw [hlen, hvl]; rfl)
    intro j w t hw ht
    exact (hcomp j w hw).2 t ht
  have htup : TupOk P H caller.f hc (fx P caller mc) d (retValue vs) := by
    intro ic' g' cargs' gh' hic' hcop' hgh'
    rw [hic] at hic'; cases hic'
    rw [hcop] at hcop'; cases hcop'
    have : gh' = gh := by
      have h1 : H[fr0.fi]? = some gh' := hgh'
      rw [inv.hh] at h1; cases h1; rfl
    subst this
    refine ⟨vs, rfl, ?_⟩
    intro j w hw
    refine ⟨(hcomp j w hw).1, ?_⟩
    intro gf t hgf ht
    have := hres gf hgf
    simp only [Callee.of] at this
    rw [this] at ht
    exact (hcomp j w hw).2 t ht
  obtain ⟨cbl, cpre, hcb, hci, hcdef⟩ := cinv.pos
  refine ⟨cinv.hf, cinv.hh, ⟨cbl, cpre, hcb, hci, ?_⟩, ?_, cinv.params⟩
  · intro id hds _ j hj hdv
    by_cases hid : id = d
    · subst hid
      rw [hic] at hj; cases hj
      exact ⟨retValue vs, regSet_self _ _ _, hsized⟩
    · obtain ⟨w, hw, hsz⟩ := hcdef id hds (by simp; exact hid) j hj hdv
      exact ⟨w, regSet_other hid hw, hsz⟩
  · apply regSet_forall (P := fun id v => RVOk (fx P caller mc) (provOf hc.provRegs id) v ∧ TupOk P H caller.f hc (fx P caller mc) id v)
    · exact cinv.regs
    · exact ⟨hgood, htup⟩
    · intro k; exact ⟨RVOk.nil _ _, TupOk.nil _ _ _ _ _ _⟩

end EdVerif.Ssa.PS
