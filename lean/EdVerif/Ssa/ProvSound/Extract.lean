import EdVerif.Ssa.ProvSound.Local2
/-!
# `Extract`: alignment of the flattened results of a call with the per-result summaries
-/
namespace EdVerif.Ssa.PS

open EdVerif.Ssa

theorem mapM_some_getElem {α β} {f : α → Option β} :
    ∀ (xs : List α) (ys : List β), xs.mapM f = some ys →
      ys.length = xs.length ∧ ∀ (j : Nat) x, xs[j]? = some x → ∃ y, ys[j]? = some y ∧ f x = some y := by
  intro xs
  induction xs with
  | nil => intro ys h; simp at h; subst h; exact ⟨rfl, fun j x hx => by simp at hx⟩
  | cons x xs ih =>
    intro ys h
    rw [List.mapM_cons] at h
    cases hx : f x with
    | none => simp [hx] at h
    | some b =>
      cases hxs : xs.mapM f with
      | none => simp [hx, hxs] at h
      | some bs =>
        simp [hx, hxs] at h
        subst h
        obtain ⟨hl, hj⟩ := ih bs hxs
        refine ⟨by simp [hl], ?_⟩
        intro j x' hx'
        cases j with
        | zero => simp at hx'; subst hx'; exact ⟨b, by simp, hx⟩
        | succ j => simp at hx'; simpa using hj j x' hx'

/-- dropping the first components of a flattened tuple -/
theorem flatten_drop_sum : ∀ (ns : List Nat) (vs : List RVal),
    (∀ (j : Nat) (w : RVal) (n : Nat), vs[j]? = some w → ns[j]? = some n → w.length = n) →
    vs.flatten.drop ns.sum = (vs.drop ns.length).flatten := by
  intro ns
  induction ns with
  | nil => intro vs _; simp
  | cons n ns ih =>
    intro vs h
    cases vs with
    | nil => simp [List.drop_nil]
    | cons w ws =>
      have hw : w.length = n := h 0 w n (by simp) (by simp)
      simp only [List.flatten_cons, List.sum_cons, List.length_cons, List.drop_succ_cons]
      rw [← ih ws (fun j w' n' h1 h2 => h (j + 1) w' n' (by simpa using h1) (by simpa using h2))]
      rw [← hw, List.drop_append]
      simp [List.drop_eq_nil_of_le]

theorem sizesOf_eq_map (P : Program) : ∀ ts, Side.sizesOf P ts = ts.map P.size := by
  intro ts
  induction ts with
  | nil => rfl
  | cons t ts ih => simp [Side.sizesOf, ih]

/-- the scalars `Extract` picks out of a flattened tuple all belong to the selected component -/
theorem extract_aligned {P : Program} {vs : List RVal} {fs : List Nat} {idx off sz : Nat}
    (hsp : P.fieldSpan fs idx = some (off, sz))
    (hsized : ∀ (j : Nat) (w : RVal) (t : Nat), vs[j]? = some w → fs[j]? = some t → Sized P t w) :
    ∀ v ∈ (vs.flatten.drop off).take sz, ∃ w, vs[idx]? = some w ∧ v ∈ w := by
  unfold Program.fieldSpan at hsp
  cases hm : (fs.take idx).mapM P.size with
  | none => simp [hm] at hsp
  | some before =>
    cases ht : fs[idx]? with
    | none => simp [hm, ht] at hsp
    | some t =>
      cases hs : P.size t with
      | none => simp [hm, ht, hs] at hsp
      | some sz' =>
        simp [hm, ht, hs] at hsp
        obtain ⟨hoff, hsz⟩ := hsp
        subst hoff; subst hsz
        obtain ⟨hlen, hget⟩ := mapM_some_getElem _ _ hm
        have hidx : idx < fs.length := by
          rcases Nat.lt_or_ge idx fs.length with h | h
          · exact h
          · rw [List.getElem?_eq_none h] at ht; cases ht
        have hblen : before.length = idx := by rw [hlen, List.length_take]; omega
        have hcomp : ∀ (j : Nat) (w : RVal) (n : Nat), vs[j]? = some w → before[j]? = some n → w.length = n := by
          intro j w n hw hn
          have hj : j < idx := by
            rcases Nat.lt_or_ge j before.length with h | h
            · omega
            · rw [List.getElem?_eq_none h] at hn; cases hn
          have hfj : (fs.take idx)[j]? = fs[j]? := by rw [List.getElem?_take]; simp [hj]
          cases hft : fs[j]? with
          | none =>
            have : j < fs.length := by omega
            rw [List.getElem?_eq_none_iff] at hft; omega
          | some tj =>
            obtain ⟨y, hy1, hy2⟩ := hget j tj (by rw [hfj]; exact hft)
            rw [hn] at hy1; cases hy1
            exact hsized j w tj hw hft n hy2
        rw [flatten_drop_sum before vs hcomp, hblen]
        intro v hv
        cases hd : vs.drop idx with
        | nil => simp [hd] at hv
        | cons w ws =>
          have hw : vs[idx]? = some w := by
            have := List.getElem?_drop (xs := vs) (i := idx) (j := 0)
            rw [hd] at this; simpa using this.symm
          refine ⟨w, hw, ?_⟩
          have hwl : w.length = sz' := hsized idx w t hw ht sz' hs
          rw [hd, List.flatten_cons, ← hwl, List.take_left'] at hv
          · exact hv
          · rfl

section ops
variable {P : Program} {H : List FuncHints} {h : FuncHints} {fr : Frame} {frs : List Frame} {mark dm : Nat} {i : Instr} {hp : Heap}

theorem pExtract_cases (c : PCtx) (x : Opnd) (idx : Nat) :
    pExtract c x idx = c.lab x ∨
    ∃ r ic g cargs gh s, x = .reg r ∧ c.f.instrs[r]? = some ic ∧ ic.op = .call (.fn g) cargs ∧ c.hints[g]? = some gh ∧
      gh.returns[idx]? = some s ∧ pExtract c x idx = substArgs c s cargs 0 (Prov.minus s Prov.paramMask) := by
  unfold pExtract
  split
  · rename_i r
    split
    · rename_i ic hic
      split
      · rename_i g cargs hop
        split
        · rename_i gh hgh
          split
          · rename_i s hs
            exact Or.inr ⟨r, ic, g, cargs, gh, s, rfl, hic, hop, hgh, hs, rfl⟩
          · exact Or.inl rfl
        · exact Or.inl rfl
      · exact Or.inl rfl
    · exact Or.inl rfl
  · exact Or.inl rfl

theorem stepExtract_local (ic : IC P H h fr mark dm i) {x : Opnd} {idx : Nat} (hop : i.op = .extract x idx) :
    LocalI P h hp fr frs mark i (stepExtract P hp fr frs i x idx) := by
  have hsz := ic.size
  simp only [Side.resSizeOk, hop] at hsz
  have hl : RootsLe (pExtract (pc P H fr.f h) x idx) (provOf h.provRegs i.id) := ic.labOf (by simp [Side.reqU, hop])
  have hxm : x ∈ i.op.operands := by simp [hop, Op.operands]
  unfold stepExtract
  rcases pExtract_cases (pc P H fr.f h) x idx with hc | ⟨r, icl, g, cargs, gh, s, hx, hicl, hcop, hgh, hs, hc⟩
  · -- the label of the whole tuple
    apply stepField_local ic hxm (hc ▸ hl)
    split
    · rename_i fs hty
      simp only [hty, Bool.and_eq_true] at hsz
      exact hsz.1
    · rfl
  · -- a result of a call of a program function
    subst hx
    unfold stepField
    split
    · rename_i vs fs hv hty
      simp only [hty, Bool.and_eq_true] at hsz
      split
      · rename_i off sz hfs
        simp only [hfs] at hsz
        split
        · rename_i hle
          refine .reg _ _ _ ⟨?_, Sized.of_sizeIs hsz.1 (length_drop_take vs off sz hle)⟩ (HeapStep.refl _ _)
          have hsz2 := hsz.2
          simp only [hicl, hcop] at hsz2
          cases hgf : P.funcs[g]? with
          | none => simp [hgf] at hsz2
          | some gf =>
            simp only [hgf, beq_iff_eq] at hsz2
            rw [sizesOf_eq_map, sizesOf_eq_map] at hsz2
            obtain ⟨ws, hflat, hcomp⟩ := ic.tupOk r vs hv icl g cargs gh hicl hcop hgh
            subst hflat
            have hsized : ∀ (j : Nat) (w : RVal) (t : Nat), ws[j]? = some w → fs[j]? = some t → Sized P t w := by
              intro j w t hw ht n hn
              have h1 : (fs.map P.size)[j]? = some (some n) := by simp [ht, hn]
              rw [hsz2] at h1
              simp only [List.getElem?_map, Option.map_eq_some_iff] at h1
              obtain ⟨t', ht', hn'⟩ := h1
              exact (hcomp j w hw).2 gf t' hgf ht' n hn'
            intro v hv'
            obtain ⟨w, hw, hvw⟩ := extract_aligned hfs hsized v hv'
            have := (hcomp idx w hw).1
            simp only [compLab, List.getD_eq_getElem?_getD, hs, Option.getD_some] at this
            exact ((this.mono (hc ▸ hl)) v hvw)
        · exact .fault _
      · exact .fault _
    · exact .fault _

end ops

end EdVerif.Ssa.PS
