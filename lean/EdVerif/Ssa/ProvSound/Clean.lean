import EdVerif.Ssa.ProvSound.Basic
import EdVerif.Ssa.ProvSound.Fast
/-!
# What the verdicts say, per instruction
-/
namespace EdVerif.Ssa.PS

open EdVerif.Ssa

theorem cleanI_spec (chk : Nat → Nat → Instr → List Nm) (b : Nat) :
    ∀ (is : List Instr) (n0 : Nat), cleanI chk b is n0 = true →
      ∀ n i, is[n]? = some i → chk b (n0 + n) i = [] := by
  intro is
  induction is with
  | nil => intro n0 _ n i h; simp at h
  | cons j js ih =>
    intro n0 h n i hi
    simp only [cleanI, Bool.and_eq_true, List.isEmpty_iff] at h
    cases n with
    | zero => simp at hi; subst hi; simpa using h.1
    | succ n =>
      simp at hi
      have := ih (n0 + 1) h.2 n i hi
      rw [show n0 + (n + 1) = n0 + 1 + n by omega]; exact this

theorem cleanB_spec (chk : Nat → Nat → Instr → List Nm) :
    ∀ (bs : List Block) (b0 : Nat), cleanB chk bs b0 = true →
      ∀ b bl, bs[b]? = some bl → ∀ n i, bl.instrs[n]? = some i → chk (b0 + b) n i = [] := by
  intro bs
  induction bs with
  | nil => intro b0 _ b bl h; simp at h
  | cons c cs ih =>
    intro b0 h b bl hb n i hi
    simp only [cleanB, Bool.and_eq_true] at h
    cases b with
    | zero =>
      simp at hb; subst hb
      have := cleanI_spec chk b0 c.instrs 0 h.1 n i hi
      simpa using this
    | succ b =>
      simp at hb
      have := ih (b0 + 1) h.2 b bl hb n i hi
      rw [show b0 + (b + 1) = b0 + 1 + b by omega]; exact this

theorem allClean_spec (sel : Selector) :
    ∀ (fs : List Func) (hs : List FuncHints) (i0 : Nat), allClean sel fs hs i0 = true →
      ∀ k f, fs[k]? = some f → ∃ h, hs[k]? = some h ∧ ∀ c, sel (i0 + k) f h = some c → c.clean f = true := by
  intro fs
  induction fs with
  | nil => intro hs i0 _ k f h; simp at h
  | cons g gs ih =>
    intro hs i0 h k f hk
    simp only [allClean, Bool.and_eq_true] at h
    cases hs with
    | nil => simp at h
    | cons h0 hs' =>
      cases k with
      | zero =>
        simp at hk; subst hk
        refine ⟨h0, by simp, ?_⟩
        intro c hc
        have h1 := h.1
        simp only [Nat.add_zero] at hc
        simp only [hc] at h1
        exact h1
      | succ k =>
        simp at hk
        obtain ⟨h', hh', hc'⟩ := ih hs' (i0 + 1) (by simpa using h.2) k f hk
        refine ⟨h', by simpa using hh', ?_⟩
        intro c hc
        apply hc'
        rw [show i0 + 1 + k = i0 + (k + 1) by omega]; exact hc

/-- position of an instruction in a function -/
def InstrAt (f : Func) (b n : Nat) (i : Instr) : Prop :=
  ∃ bl, f.blocks[b]? = some bl ∧ bl.instrs[n]? = some i

/-- the facts the proofs use about a program whose verdicts are `true` -/
structure Facts (P : Program) (H : List FuncHints) : Prop where
  hints : ∀ (fi : Nat) f, P.funcs[fi]? = some f → ∃ h, H[fi]? = some h
  nparams : ∀ (fi : Nat) f, P.funcs[fi]? = some f → f.params.length ≤ 16
  prov : ∀ (fi : Nat) f h, P.funcs[fi]? = some f → H[fi]? = some h → ∀ b n i, InstrAt f b n i →
    pInstr { prog := P, hints := H, f := f, h := h } i = []
  entry : ∀ (fi : Nat) f, P.funcs[fi]? = some f → (Side.defSets f).headD 0 = 0
  noLoaded : ∀ (fi : Nat) f h, P.funcs[fi]? = some f → H[fi]? = some h → h.writes.testBit 17 = false
  side : ∀ (fi : Nat) f h, P.funcs[fi]? = some f → H[fi]? = some h → ∀ b n i, InstrAt f b n i →
    Side.sInstr { prog := P, hints := H, f := f, h := h } (Side.defSets f) (blockOffsets f.blocks 0) b n i = []

theorem forceNat_eq {α} (n : Nat) (k : Nat → α) : Side.forceNat n k = k n := by
  cases n <;> rfl

theorem forceList_eq {α} : ∀ (xs : List Nat) (k : List Nat → α), Side.forceList xs k = k xs := by
  intro xs
  induction xs with
  | nil => intro k; rfl
  | cons x xs ih => intro k; simp [Side.forceList, forceNat_eq, ih]

theorem sideSelector_eq (P : Program) (H : List FuncHints) (fi : Nat) (f : Func) (h : FuncHints) :
    Side.sideSelector P H fi f h = some (Side.sideCheck P H f h (Side.defSets f) (blockOffsets f.blocks 0)) := by
  simp [Side.sideSelector, forceList_eq]

theorem facts_of_ok {P : Program} {H : List FuncHints} (h : provOkSimple P H = true) : Facts P H := by
  simp only [provOkSimple, provSideOk_eq, Bool.and_eq_true] at h
  have hp := allClean_spec _ _ _ _ h.1
  have hs := allClean_spec _ _ _ _ h.2
  refine ⟨?_, ?_, ?_, ?_, ?_, ?_⟩
  · intro fi f hf
    obtain ⟨h', hh', _⟩ := hp fi f hf
    exact ⟨h', hh'⟩
  · intro fi f hf
    obtain ⟨h', hh', hc⟩ := hp fi f hf
    have := hc _ rfl
    simp only [FuncCheck.clean, Bool.and_eq_true, List.isEmpty_iff] at this
    have h1 := this.1
    by_cases hl : f.params.length ≤ 16
    · exact hl
    · simp [hl] at h1
  · intro fi f h' hf hh' b n i ⟨bl, hb, hi⟩
    obtain ⟨h'', hh'', hc⟩ := hp fi f hf
    rw [hh'] at hh''; cases hh''
    have := hc _ rfl
    simp only [FuncCheck.clean, Bool.and_eq_true] at this
    have := cleanB_spec _ _ _ this.2 b bl hb n i hi
    simpa using this
  · intro fi f hf
    obtain ⟨h', hh', hc⟩ := hs fi f hf
    have := hc _ (sideSelector_eq P H (0 + fi) f h')
    simp only [Side.sideCheck, FuncCheck.clean, Bool.and_eq_true, List.isEmpty_iff] at this
    have h1 := this.1
    split at h1
    · rename_i hc2
      simp only [beq_iff_eq] at hc2
      exact hc2.1
    · cases h1
  · intro fi f h' hf hh'
    obtain ⟨h'', hh'', hc⟩ := hs fi f hf
    rw [hh'] at hh''; cases hh''
    have := hc _ (sideSelector_eq P H (0 + fi) f h')
    simp only [Side.sideCheck, FuncCheck.clean, Bool.and_eq_true, List.isEmpty_iff] at this
    have h1 := this.1
    split at h1
    · rename_i hc2
      simp only [Bool.not_eq_true'] at hc2
      exact has_false_testBit hc2.2
    · cases h1
  · intro fi f h' hf hh' b n i ⟨bl, hb, hi⟩
    obtain ⟨h'', hh'', hc⟩ := hs fi f hf
    rw [hh'] at hh''; cases hh''
    have := hc _ (sideSelector_eq P H (0 + fi) f h')
    simp only [Side.sideCheck, FuncCheck.clean, Bool.and_eq_true] at this
    have := cleanB_spec _ _ _ this.2 b bl hb n i hi
    simpa using this

end EdVerif.Ssa.PS
