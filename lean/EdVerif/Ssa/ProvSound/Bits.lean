import EdVerif.Ssa.ProvSpec
/-!
# Bit-set facts about `Prov` labels (via `Nat.testBit`)
-/
namespace EdVerif.Ssa.PS

open EdVerif.Ssa

theorem sub_and_div_mod (a b : Nat) :
    (a - (a &&& b)) / 2 = a / 2 - (a / 2 &&& b / 2) ∧
    ((a - (a &&& b)) % 2 = 1 ↔ (a % 2 = 1 ∧ ¬ b % 2 = 1)) := by
  have h1 : (a &&& b) / 2 = a / 2 &&& b / 2 := Nat.and_div_two
  have h2 : (a &&& b) % 2 = 1 ↔ a % 2 = 1 ∧ b % 2 = 1 := Nat.and_mod_two_eq_one
  have h3 : a &&& b ≤ a := Nat.and_le_left
  rw [← h1]
  generalize a &&& b = s at *
  omega

theorem testBit_sub_and (a b : Nat) : ∀ k, (a - (a &&& b)).testBit k = (a.testBit k && !b.testBit k) := by
  intro k
  induction k generalizing a b with
  | zero =>
    have h := (sub_and_div_mod a b).2
    simp only [Nat.testBit_zero]
    by_cases ha : a % 2 = 1 <;> by_cases hb : b % 2 = 1 <;> simp [ha, hb] <;> omega
  | succ k ih =>
    rw [Nat.testBit_succ, Nat.testBit_succ, Nat.testBit_succ, (sub_and_div_mod a b).1, ih]

theorem testBit_minus (a b k : Nat) : (Prov.minus a b).testBit k = (a.testBit k && !b.testBit k) :=
  testBit_sub_and a b k

theorem subset_testBit {a b : Nat} (h : Prov.subset a b = true) {k : Nat} (hk : a.testBit k = true) :
    b.testBit k = true := by
  have h' : a &&& b = a := by simpa [Prov.subset] using h
  have : (a &&& b).testBit k = true := by rw [h']; exact hk
  simp only [Nat.testBit_and, Bool.and_eq_true] at this
  exact this.2

theorem testBit_one_shl (i k : Nat) : (1 <<< i).testBit k = decide (i = k) := by
  rw [Nat.one_shiftLeft, Nat.testBit_two_pow]

theorem testBit_param (i k : Nat) : (Prov.param i).testBit k = decide (i = k) := testBit_one_shl i k
theorem testBit_fresh (k : Nat) : Prov.fresh.testBit k = decide (16 = k) := testBit_one_shl 16 k
theorem testBit_loaded (k : Nat) : Prov.loaded.testBit k = decide (17 = k) := testBit_one_shl 17 k
theorem testBit_inexact (k : Nat) : Prov.inexact.testBit k = decide (18 = k) := testBit_one_shl 18 k
theorem testBit_maybeNil (k : Nat) : Prov.maybeNil.testBit k = decide (19 = k) := testBit_one_shl 19 k
theorem testBit_global (g k : Nat) : (Prov.global g).testBit k = decide (20 + g = k) := testBit_one_shl _ k

theorem testBit_flagsMask (k : Nat) : Prov.flagsMask.testBit k = (decide (18 = k) || decide (19 = k)) := by
  simp only [Prov.flagsMask, Nat.testBit_or, testBit_inexact, testBit_maybeNil]

theorem testBit_roots (p k : Nat) :
    (Prov.roots p).testBit k = (p.testBit k && !(decide (18 = k) || decide (19 = k))) := by
  simp only [Prov.roots, testBit_minus, testBit_flagsMask]

theorem globalMask_eq : Prov.globalMask = (2 ^ 44 - 1) <<< 20 := by decide

theorem testBit_globalMask (k : Nat) : Prov.globalMask.testBit k = (decide (20 ≤ k) && decide (k < 64)) := by
  rw [globalMask_eq, Nat.testBit_shiftLeft, Nat.testBit_two_pow_sub_one]
  by_cases h : 20 ≤ k <;> simp [h] <;> omega

theorem testBit_paramMask (k : Nat) : Prov.paramMask.testBit k = decide (k < 16) := by
  have : Prov.paramMask = 2 ^ 16 - 1 := by decide
  rw [this, Nat.testBit_two_pow_sub_one]

theorem has_false_testBit {a i : Nat} (h : Prov.has a (1 <<< i) = false) : a.testBit i = false := by
  have h' : a &&& (1 <<< i) = 0 := by simpa [Prov.has] using h
  have : (a &&& (1 <<< i)).testBit i = false := by rw [h']; simp
  simpa [Nat.testBit_and, testBit_one_shl] using this

theorem eq_zero_testBit {a : Nat} (h : (a == 0) = true) (k : Nat) : a.testBit k = false := by
  have : a = 0 := by simpa using h
  subst this; simp

/-- `L ≤ L'` as far as roots (all bits but the two flags) are concerned -/
def RootsLe (L L' : Prov) : Prop := ∀ k, k ≠ 18 → k ≠ 19 → L.testBit k = true → L'.testBit k = true

theorem RootsLe.refl (L : Prov) : RootsLe L L := fun _ _ _ h => h

theorem RootsLe.trans {a b c : Prov} (h1 : RootsLe a b) (h2 : RootsLe b c) : RootsLe a c :=
  fun k h18 h19 h => h2 k h18 h19 (h1 k h18 h19 h)

theorem RootsLe.of_subset {a b : Prov} (h : Prov.subset a b = true) : RootsLe a b :=
  fun _ _ _ hk => subset_testBit h hk

theorem RootsLe.of_subset_roots {a b : Prov} (h : Prov.subset (Prov.roots a) b = true) : RootsLe a b := by
  intro k h18 h19 hk
  apply subset_testBit h
  rw [testBit_roots, hk]
  have : decide (18 = k) = false := by simp; omega
  have : decide (19 = k) = false := by simp; omega
  simp [*]

theorem RootsLe.or_left (a b : Prov) : RootsLe a (a ||| b) := by
  intro k _ _ h; simp [Nat.testBit_or, h]

theorem RootsLe.or_right (a b : Prov) : RootsLe b (a ||| b) := by
  intro k _ _ h; simp [Nat.testBit_or, h]

theorem RootsLe.or_inexact (a : Prov) : RootsLe (a ||| Prov.inexact) a := by
  intro k h18 _ h
  simp only [Nat.testBit_or, testBit_inexact, Bool.or_eq_true, decide_eq_true_eq] at h
  rcases h with h | h
  · exact h
  · omega

theorem RootsLe.or_le {a b c : Prov} (h1 : RootsLe a c) (h2 : RootsLe b c) : RootsLe (a ||| b) c := by
  intro k h18 h19 h
  simp only [Nat.testBit_or, Bool.or_eq_true] at h
  rcases h with h | h
  · exact h1 k h18 h19 h
  · exact h2 k h18 h19 h

theorem RootsLe.zero (a : Prov) : RootsLe 0 a := by
  intro k _ _ h; simp at h

theorem RootsLe.of_roots_eq_zero {a : Prov} (h : (Prov.roots a == 0) = true) (b : Prov) : RootsLe a b := by
  intro k h18 h19 hk
  have := eq_zero_testBit h k
  rw [testBit_roots, hk] at this
  have : decide (18 = k) = false := by simp; omega
  have : decide (19 = k) = false := by simp; omega
  simp_all

end EdVerif.Ssa.PS
