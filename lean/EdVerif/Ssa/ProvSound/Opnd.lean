import EdVerif.Ssa.ProvSound.Defs
/-!
# Operands: labels and sizes of evaluated operands; unpacking of the side conditions
-/
namespace EdVerif.Ssa.PS

open EdVerif.Ssa

/-! ## `mapM` on `Option`, zero values -/

theorem mapM_some_forall {α β} {f : α → Option β} {Q : β → Prop} :
    ∀ (xs : List α) (ys : List β), xs.mapM f = some ys → (∀ x y, f x = some y → Q y) → ∀ y ∈ ys, Q y := by
  intro xs
  induction xs with
  | nil => intro ys h _ y hy; simp at h; subst h; cases hy
  | cons x xs ih =>
    intro ys h hq y hy
    rw [List.mapM_cons] at h
    cases hx : f x with
    | none => simp [hx] at h
    | some b =>
      cases hxs : xs.mapM f with
      | none => simp [hx, hxs] at h
      | some bs =>
        simp [hx, hxs] at h
        subst h
        rcases List.mem_cons.1 hy with e | e
        · subst e; exact hq x _ hx
        · exact ih bs hxs hq y e

theorem noPtr_append {a b : RVal} (ha : NoPtr a) (hb : NoPtr b) : NoPtr (a ++ b) := by
  intro v hv
  rcases List.mem_append.1 hv with h | h
  · exact ha v h
  · exact hb v h

theorem noPtr_nil : NoPtr [] := by intro v hv; cases hv

theorem noPtr_replicateFlat {z : RVal} (hz : NoPtr z) : ∀ n, NoPtr (replicateFlat n z)
  | 0 => noPtr_nil
  | n + 1 => noPtr_append hz (noPtr_replicateFlat hz n)

theorem noPtr_flatten {zs : List RVal} (h : ∀ z ∈ zs, NoPtr z) : NoPtr zs.flatten := by
  intro v hv
  obtain ⟨w, hw, hvw⟩ := List.mem_flatten.1 hv
  exact h w hw v hvw

theorem noPtr_single {v : Val} (h : ∀ b, ¬ PtrTo v b) : NoPtr [v] := by
  intro w hw; simp at hw; subst hw; exact h

theorem zerosF_noPtr (P : Program) : ∀ (fuel id : Nat) (zs : List Val), zerosF P fuel id = some zs → NoPtr zs := by
  intro fuel
  induction fuel with
  | zero => intro id zs h; simp [zerosF] at h
  | succ fuel ih =>
    intro id zs h
    unfold zerosF at h
    split at h
    all_goals first
      | (simp only [Option.some.injEq] at h; subst h; apply noPtr_single; intro b hb; simp [PtrTo] at hb)
      | skip
    · -- arr
      rename_i n e _
      cases he : zerosF P fuel e with
      | none => simp [he] at h
      | some z =>
        simp [he] at h; subst h
        exact noPtr_replicateFlat (ih e z he) n
    · -- struct
      rename_i fs _
      cases hm : fs.mapM (zerosF P fuel) with
      | none => simp [hm] at h
      | some zss =>
        simp [hm] at h; subst h
        apply noPtr_flatten
        exact mapM_some_forall fs zss hm (fun x y hxy => ih x y hxy)
    · cases h

theorem zeros_noPtr {P : Program} {t : Nat} {zs : List Val} (h : P.zeros t = some zs) : NoPtr zs :=
  zerosF_noPtr P _ _ _ h

/-! ## `idMask`, positions of instructions -/

theorem testBit_idMask : ∀ (is : List Instr) (m k : Nat),
    (Side.idMask is m).testBit k = true ↔ (m.testBit k = true ∨ ∃ j ∈ is, j.id = k) := by
  intro is
  induction is with
  | nil => intro m k; simp [Side.idMask]
  | cons i is ih =>
    intro m k
    simp only [Side.idMask]
    rw [ih]
    simp only [Nat.testBit_or, testBit_one_shl, Bool.or_eq_true, decide_eq_true_eq, List.mem_cons]
    constructor
    · rintro ((h | h) | ⟨j, hj, hk⟩)
      · exact Or.inl h
      · exact Or.inr ⟨i, Or.inl rfl, h⟩
      · exact Or.inr ⟨j, Or.inr hj, hk⟩
    · rintro (h | ⟨j, hj | hj, hk⟩)
      · exact Or.inl (Or.inl h)
      · subst hj; exact Or.inl (Or.inr hk)
      · exact Or.inr ⟨j, hj, hk⟩

theorem blockOffsets_spec : ∀ (bs : List Block) (o b : Nat) (bl : Block) (n : Nat) (i : Instr),
    bs[b]? = some bl → bl.instrs[n]? = some i →
    ∃ k, (blockOffsets bs o).getD b 0 = o + k ∧ (bs.flatMap (·.instrs))[k + n]? = some i := by
  intro bs
  induction bs with
  | nil => intro o b bl n i h; simp at h
  | cons c cs ih =>
    intro o b bl n i hb hi
    cases b with
    | zero =>
      simp at hb; subst hb
      refine ⟨0, by simp [blockOffsets], ?_⟩
      have hn : n < c.instrs.length := by
        rcases Nat.lt_or_ge n c.instrs.length with h | h
        · exact h
        · rw [List.getElem?_eq_none h] at hi; cases hi
      simp only [List.flatMap_cons, Nat.zero_add]
      rw [List.getElem?_append_left hn]; exact hi
    | succ b =>
      simp at hb
      obtain ⟨k, hk1, hk2⟩ := ih (o + c.instrs.length) b bl n i hb hi
      refine ⟨c.instrs.length + k, ?_, ?_⟩
      · simp only [blockOffsets, List.getD_cons_succ]; rw [hk1]; omega
      · simp only [List.flatMap_cons]
        rw [List.getElem?_append_right (by omega)]
        rw [show c.instrs.length + k + n - c.instrs.length = k + n by omega]; exact hk2

theorem instrs_at {f : Func} {b n : Nat} {i : Instr} (hat : InstrAt f b n i)
    (hid : i.id = (blockOffsets f.blocks 0).getD b 0 + n) : f.instrs[i.id]? = some i := by
  obtain ⟨bl, hb, hi⟩ := hat
  obtain ⟨k, hk1, hk2⟩ := blockOffsets_spec f.blocks 0 b bl n i hb hi
  rw [hid, hk1, Nat.zero_add]; exact hk2

/-! ## the side conditions of one instruction -/

structure SideI (c : PCtx) (D offs : List Nat) (b n : Nat) (i : Instr) : Prop where
  id : i.id = offs.getD b 0 + n
  glob : Side.globalsInRange c.prog.globals.length i.op.operands = true
  lab : Prov.subset (Side.reqU c i).roots (provOf c.h.provRegs i.id) = true
  size : Side.resSizeOk c (Side.defMask D offs b n) i = true
  ctl : (match i.op with
         | .jump t => Side.jumpOk c.prog c.f D offs b n t
         | .if _ t e => Side.jumpOk c.prog c.f D offs b n t && Side.jumpOk c.prog c.f D offs b n e
         | .ret vs => Side.retSized c.prog c.f (Side.defMask D offs b n) vs c.f.resultTys && Side.retLab c vs c.h.returns
         | _ => true) = true

theorem ite_nil {c : Prop} [Decidable c] {x : Nm} (h : (if c then [] else [x]) = ([] : List Nm)) : c := by
  by_cases hc : c
  · exact hc
  · simp [hc] at h

theorem sInstr_spec {c : PCtx} {D offs : List Nat} {b n : Nat} {i : Instr}
    (h : Side.sInstr c D offs b n i = []) : SideI c D offs b n i := by
  unfold Side.sInstr at h
  have hc := ite_nil h
  simp only [Bool.and_eq_true, beq_iff_eq] at hc
  obtain ⟨⟨⟨⟨h1, h2⟩, h3⟩, h4⟩, h5⟩ := hc
  exact ⟨h1, h2, h3, h4, h5⟩

theorem globalsInRange_mem {ng : Nat} : ∀ {os : List Opnd}, Side.globalsInRange ng os = true →
    ∀ g, Opnd.global g ∈ os → g < ng := by
  intro os
  induction os with
  | nil => intro _ g hg; cases hg
  | cons o os ih =>
    intro h g hg
    rcases List.mem_cons.1 hg with e | e
    · subst e
      simp only [Side.globalsInRange, Bool.and_eq_true, decide_eq_true_eq] at h
      exact h.1
    · apply ih _ g e
      cases o <;> simp only [Side.globalsInRange, Bool.and_eq_true] at h <;> first | exact h | exact h.2

/-! ## labels of evaluated operands -/

theorem paramsOk_of {P : Program} {fr : Frame} {mark : Nat} (hn : fr.f.params.length ≤ 16)
    (hp : ∀ (i : Nat) (p : Param) (a : RVal), fr.f.params[i]? = some p → fr.params[i]? = some a →
      Sized P p.tyId a ∧ (p.k.pointerish = false → NoPtr a)) :
    ∀ (i : Nat) (a : RVal), fr.params[i]? = some a → RVOk (fx P fr mark) (paramProv fr.f.params i) a := by
  intro i a ha
  unfold paramProv
  cases hpi : fr.f.params[i]? with
  | none => exact RVOk.loaded _ (by simp [testBit_loaded]) _
  | some p =>
    simp only
    by_cases hk : p.k.pointerish = true
    · simp only [hk, if_true]
      intro v hv b hb
      have hi : i < fr.f.params.length := by
        rcases Nat.lt_or_ge i fr.f.params.length with h | h
        · exact h
        · rw [List.getElem?_eq_none h] at hpi; cases hpi
      exact Or.inl ⟨i, a, v, by omega, by simp [testBit_param], ha, hv, hb⟩
    · have hk' : p.k.pointerish = false := by simpa using hk
      simp only [hk', Bool.false_eq_true, if_false]
      exact ((hp i p a hpi ha).2 hk').rvok _ _

theorem evalOpnd_lab {P : Program} {H : List FuncHints} {h : FuncHints} {fr : Frame} {mark : Nat}
    (hregs : ∀ (id : Nat) (v : RVal), fr.regs[id]? = some v → RVOk (fx P fr mark) (provOf h.provRegs id) v)
    (hparams : ∀ (i : Nat) (a : RVal), fr.params[i]? = some a → RVOk (fx P fr mark) (paramProv fr.f.params i) a)
    {ty : Nat} {o : Opnd} {v : RVal} (hg : ∀ g, o = .global g → g < P.globals.length)
    (he : evalOpnd P fr ty o = some v) : RVOk (fx P fr mark) ((pc P H fr.f h).lab o) v := by
  cases o with
  | reg id => exact hregs id v he
  | param i => exact hparams i v he
  | freeVar i => simp [evalOpnd] at he
  | cint k n =>
    simp [evalOpnd] at he; subst he
    exact (noPtr_single (by intro b hb; simp [PtrTo] at hb)).rvok _ _
  | cbool b =>
    simp [evalOpnd] at he; subst he
    exact (noPtr_single (by intro b hb; simp [PtrTo] at hb)).rvok _ _
  | cstr s =>
    simp [evalOpnd] at he; subst he
    exact (noPtr_single (by intro b hb; simp [PtrTo] at hb)).rvok _ _
  | nil k =>
    simp [evalOpnd] at he; subst he
    refine (noPtr_single ?_).rvok _ _
    intro b hb
    split at hb <;> simp [PtrTo] at hb
  | zero k => exact (zeros_noPtr he).rvok _ _
  | cother => simp [evalOpnd] at he
  | global g =>
    simp [evalOpnd] at he; subst he
    intro v hv b hb
    simp at hv; subst hv
    simp [PtrTo] at hb
    exact Or.inr (Or.inr (Or.inr ⟨g, hg g rfl, by simp [PCtx.lab, testBit_global], hb.symm⟩))
  | fn f =>
    simp [evalOpnd] at he; subst he
    exact (noPtr_single (by intro b hb; simp [PtrTo] at hb)).rvok _ _
  | extern n => simp [evalOpnd] at he
  | builtin n => simp [evalOpnd] at he

/-! ## sizes of evaluated operands -/

/-- the registers of `dm` are defined and have the sizes of their types -/
def DefdRegs (P : Program) (fr : Frame) (dm : Nat) : Prop :=
  ∀ id, dm.testBit id = true → ∀ j, fr.f.instrs[id]? = some j → Side.definesValue j.op = true →
    ∃ v, fr.regs[id]? = some v ∧ Sized P j.ty v

theorem evalOpnd_sized {P : Program} {fr : Frame} {dm : Nat} (hd : DefdRegs P fr dm)
    (hp : ∀ (i : Nat) (p : Param) (a : RVal), fr.f.params[i]? = some p → fr.params[i]? = some a → Sized P p.tyId a)
    {useTy ty : Nat} {o : Opnd} {v : RVal}
    (hs : Side.opndSized P fr.f dm useTy ty o = true) (he : evalOpnd P fr useTy o = some v) : Sized P ty v := by
  cases o with
  | reg id =>
    simp only [Side.opndSized, Bool.and_eq_true] at hs
    obtain ⟨hbit, hs⟩ := hs
    cases hj : fr.f.instrs[id]? with
    | none => simp [hj] at hs
    | some j =>
      simp only [hj, Bool.and_eq_true] at hs
      obtain ⟨w, hw, hsz⟩ := hd id hbit j hj hs.1
      simp only [evalOpnd] at he
      rw [hw] at he; cases he
      exact Sized.of_sizeEq hs.2 hsz
  | param i =>
    simp only [Side.opndSized] at hs
    cases hj : fr.f.params[i]? with
    | none => simp [hj] at hs
    | some p =>
      simp only [hj] at hs
      exact Sized.of_sizeEq hs (hp i p v hj he)
  | zero k =>
    intro n hn
    simp only [evalOpnd] at he
    simp only [Side.opndSized, hn, he, beq_iff_eq] at hs
    exact hs
  | freeVar i => simp [evalOpnd] at he
  | cother => simp [evalOpnd] at he
  | extern n => simp [evalOpnd] at he
  | builtin n => simp [evalOpnd] at he
  | cint k n => simp [evalOpnd] at he; subst he; exact Sized.of_sizeIs hs rfl
  | cbool b => simp [evalOpnd] at he; subst he; exact Sized.of_sizeIs hs rfl
  | cstr s => simp [evalOpnd] at he; subst he; exact Sized.of_sizeIs hs rfl
  | nil k => simp [evalOpnd] at he; subst he; exact Sized.of_sizeIs hs rfl
  | global g => simp [evalOpnd] at he; subst he; exact Sized.of_sizeIs hs rfl
  | fn f => simp [evalOpnd] at he; subst he; exact Sized.of_sizeIs hs rfl

end EdVerif.Ssa.PS
