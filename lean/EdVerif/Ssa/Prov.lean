import EdVerif.Ssa.Common
/-!
# Pointer provenance: the labelling checker and the predicates built on it

A *provenance label* (`Prov`, a bit set, see `Syntax.lean`) over-approximates where a pointer-like
value comes from: parameter `i`, a fresh allocation of this call, the address of global `g`, or a
pointer that was *loaded* out of memory (unknown origin).  Two flag bits refine it: `inexact` (went
through address arithmetic, so it is *derived from* rather than *equal to* a root) and `maybeNil`.

The translator emits a label per pointer-like register and two summaries per function (`writes`:
roots it may store through, in terms of its own parameters; `returns`: roots of its pointer-like
results).  Nothing of that is trusted: `provSelector` re-checks every instruction —
`label(dst) ⊇ rule(labels of operands)`, every store target / callee write ⊆ `writes`, every returned
pointer ⊆ `returns` — so any labelling that passes is a sound over-approximation.

Rules (`pRule`):
* `Alloc`, `MakeSlice`, `errors.New` ↦ `fresh`;
* `FieldAddr`, `IndexAddr`, `Slice`, `SliceToArrayPointer`, `Convert`, `MakeInterface` ↦ label of the
  base + `inexact`; `ChangeType`, `Phi`, `Extract`, `Field`, `Index` ↦ union of the operands;
* a pointer-like value read by `Load`/`Lookup`, a free variable, the result of an un-modelled call
  ↦ `loaded`;
* call of a program function: the callee's `returns` with parameter bits replaced by the labels of
  the actual arguments; its write effect likewise from `writes`;
* `Store` writes through its address; `copy` through its first, `PutUint64` through its second
  argument; the other modelled externals write nothing (the cell of `sync.Once` is the runtime's).

On top of a consistent labelling:
* **C11(b)** `writesSelector`: exported functions store only through the receiver (or the parameters
  the policy names) or fresh memory; no function at all stores through a `loaded` pointer.
* **C19** `returnsSelector`: the policy's constructors/encoders return only fresh memory; every
  other API function returns exactly its receiver (or nil).
* **C18** `globalsSelector` (F1–F4).
-/
namespace EdVerif.Ssa

structure PCtx where
  prog : Program
  hints : List FuncHints
  f : Func
  h : FuncHints

def provOf (m : Nat) (id : Nat) : Prov := (m >>> (64 * id)) % 18446744073709551616

def paramProv (ps : List Param) (i : Nat) : Prov :=
  match ps[i]? with
  | some p => if p.k.pointerish then Prov.param i else 0
  | none => Prov.loaded

def PCtx.lab (c : PCtx) : Opnd → Prov
  | .reg id => provOf c.h.provRegs id
  | .param i => paramProv c.f.params i
  | .freeVar i =>
    match c.f.freeVars[i]? with
    | some p => if p.k.pointerish then Prov.loaded else 0
    | none => Prov.loaded
  | .nil _ => Prov.maybeNil
  | .global g => Prov.global g
  | _ => 0

def unionLabs (c : PCtx) : List Opnd → Prov → Prov
  | [], acc => acc
  | o :: os, acc => unionLabs c os (acc ||| c.lab o)

/-- replace the parameter bits of a callee summary by the labels of the actual arguments -/
def substArgs (c : PCtx) (sum : Prov) : List Opnd → Nat → Prov → Prov
  | [], _, acc => acc
  | a :: as, i, acc => substArgs c sum as (i + 1) (if i < 16 && sum.testBit i then acc ||| c.lab a else acc)

/-- roots only (flags removed) -/
def Prov.roots (p : Prov) : Prov := Prov.minus p Prov.flagsMask

def isPkgInit (f : Func) : Bool := f.synthetic == nm! "package initializer"

/-- What one instruction does, in terms of labels. -/
structure PEffect where
  /-- label demanded for the defined value (if it is pointer-like) -/
  req : Prov
  /-- label of everything written through -/
  weff : Prov
  /-- unconditional violations -/
  kinds : List Nm

def pNone : PEffect := { req := 0, weff := 0, kinds := [] }
def pVal (r : Prov) : PEffect := { req := r, weff := 0, kinds := [] }
def pDerived (c : PCtx) (x : Opnd) : PEffect := pVal (c.lab x ||| Prov.inexact)
def pUnknownCall (c : PCtx) (args : List Opnd) : PEffect :=
  { req := Prov.loaded, weff := unionLabs c args Prov.loaded, kinds := [K.unmodelledCall] }

/-- union over the callee's results of its per-result summary, parameter bits replaced by the labels
    of the actual arguments -/
def substReturns (c : PCtx) (args : List Opnd) : List Prov → Prov → Prov
  | [], acc => acc
  | r :: rs, acc => substReturns c args rs (substArgs c r args 0 (acc ||| Prov.minus r Prov.paramMask))

def pCallFn (c : PCtx) (g : Nat) (args : List Opnd) : PEffect :=
  match c.hints[g]? with
  | some gh =>
    { req := substReturns c args gh.returns 0,
      weff := substArgs c gh.writes args 0 (gh.writes &&& (Prov.globalMask ||| Prov.loaded)),
      kinds := [] }
  | none => { req := Prov.loaded, weff := Prov.loaded, kinds := [K.badReference] }

/-- `Extract` of result `idx` of a call of a program function: that result's summary (more precise
    than the label of the whole tuple); otherwise the label of the tuple -/
def pExtract (c : PCtx) (x : Opnd) (idx : Nat) : Prov :=
  match x with
  | .reg r =>
    match c.f.instrs[r]? with
    | some i =>
      match i.op with
      | .call (.fn g) args =>
        match c.hints[g]? with
        | some gh =>
          match gh.returns[idx]? with
          | some s => substArgs c s args 0 (Prov.minus s Prov.paramMask)
          | none => c.lab x
        | none => c.lab x
      | _ => c.lab x
    | none => c.lab x
  | _ => c.lab x

def pCallExtern (c : PCtx) (n : Nm) (args : List Opnd) : PEffect :=
  if n == Ext.errorsNew then pVal Prov.fresh
  -- initialisers of imported packages, called from a package initialiser: they cannot reach this
  -- package's state
  else if isPkgInit c.f && Nm.isSuffix (nm! ".init") n then pNone
  else if n == Ext.lePutUint64 then { req := 0, weff := c.lab (args.getD 1 .cother), kinds := [] }
  else if n == Ext.mul64 || n == Ext.add64 || n == Ext.sub64 || n == Ext.ctByteEq || n == Ext.ctCompare
        || n == Ext.leUint64 || n == Ext.onceDo then pNone
  else pUnknownCall c args

def pCallBuiltin (c : PCtx) (b : Nm) (args : List Opnd) : PEffect :=
  if b == Ext.len || b == Ext.cap then pNone
  else if b == Ext.copy then { req := 0, weff := c.lab (args.getD 0 .cother), kinds := [] }
  else pUnknownCall c args

def pCall (c : PCtx) (callee : Callee) (args : List Opnd) : PEffect :=
  match callee with
  | .fn g => pCallFn c g args
  | .builtin b => pCallBuiltin c b args
  | .extern n => pCallExtern c n args
  | .dynamic v => pUnknownCall c (v :: args)
  | .invoke v _ => pUnknownCall c (v :: args)

def pPhi (c : PCtx) : List (Nat × Opnd) → Prov → Prov
  | [], acc => acc
  | e :: es, acc => pPhi c es (acc ||| c.lab e.2)

def pClosure (c : PCtx) (bs : List Opnd) : PEffect :=
  { req := unionLabs c bs Prov.inexact, weff := 0, kinds := if bs.isEmpty then [] else [K.closureCapture] }

def pRule (c : PCtx) (i : Instr) : PEffect :=
  match i.op with
  | .alloc _ _ => pVal Prov.fresh
  | .makeSlice _ _ => pVal Prov.fresh
  | .fieldAddr x _ _ => pDerived c x
  | .indexAddr _ x _ => pDerived c x
  | .slice _ x _ _ _ => pDerived c x
  | .sliceToArrayPointer x => pDerived c x
  | .convert _ x => pDerived c x
  | .makeInterface x => pDerived c x
  | .changeType x => pVal (c.lab x)
  | .field x _ _ => pVal (c.lab x)
  | .index x _ => pVal (c.lab x)
  | .phi es => pVal (pPhi c es 0)
  | .load _ => pVal Prov.loaded
  | .lookup _ _ => pVal Prov.loaded
  | .makeClosure _ bs => pClosure c bs
  | .call callee args => pCall c callee args
  | .store _ a _ => { req := 0, weff := c.lab a, kinds := [] }
  | .unsupported _ os => { req := Prov.loaded, weff := unionLabs c os Prov.loaded, kinds := [K.unsupported] }
  | .extract x idx => pVal (if i.k.pointerish then pExtract c x idx else 0)
  | _ => pNone

/-! ## consistency of the labelling -/

def anyPointerishFrom : List VK → Bool
  | [] => false
  | k :: ks => k.pointerish || anyPointerishFrom ks

def retKinds (c : PCtx) : List Opnd → List VK → List Prov → List Nm
  | v :: vs, k :: ks, s :: ss =>
    (if k.pointerish && !Prov.subset (c.lab v) s then [K.returnSummary] else []) ++ retKinds c vs ks ss
  | _ :: _, k :: ks, [] => (if anyPointerishFrom (k :: ks) then [K.returnSummary] else [])
  | _, _, _ => []

def pInstrRet (c : PCtx) (i : Instr) : List Nm :=
  match i.op with
  | .ret vs => retKinds c vs c.f.results c.h.returns
  | _ => []

def pInstr (c : PCtx) (i : Instr) : List Nm :=
  let e := pRule c i
  (if i.k.pointerish && !Prov.subset e.req (provOf c.h.provRegs i.id) then [K.provMismatch] else []) ++
  (if !Prov.subset (Prov.minus e.weff.roots Prov.fresh) c.h.writes then [K.writeSummary] else []) ++
  e.kinds ++ pInstrRet c i

/-- the labelling and the summaries of every function are consistent with the rules -/
def provSelector (prog : Program) (hints : List FuncHints) : Selector :=
  fun _ f h =>
    some { fnKinds := if f.params.length ≤ 16 then [] else [K.tooManyParams],
           instr := fun _ _ ins => pInstr { prog := prog, hints := hints, f := f, h := h } ins }

def provConsistent (prog : Program) (hints : List FuncHints) : Bool :=
  verdictOk prog hints (provSelector prog hints) []

/-! ## C11(b): write sets -/

structure WritesPolicy where
  /-- `(function, parameter names)`: exported functions that may store through these parameters;
      every other exported method may store through its receiver only, an exported plain function
      through nothing -/
  targets : List (Nm × List Nm)
deriving Repr

def paramMaskOf (names : List Nm) : List Param → Nat → Prov → Prov
  | [], _, acc => acc
  | p :: ps, i, acc => paramMaskOf names ps (i + 1) (if names.any (· == p.name) then acc ||| Prov.param i else acc)

def lookupTargets (fn : Nm) : List (Nm × List Nm) → Option (List Nm)
  | [] => none
  | e :: es => if e.1 == fn then some e.2 else lookupTargets fn es

/-- roots through which function `f` may store (besides fresh memory) -/
def allowedWrites (pol : WritesPolicy) (f : Func) : Prov :=
  if f.exported then
    match lookupTargets f.name pol.targets with
    | some names => paramMaskOf names f.params 0 0
    | none => if f.recv == 0 then 0 else Prov.param 0
  else Prov.paramMask ||| Prov.globalMask

def writeKinds (bad : Prov) : List Nm :=
  (if Prov.has bad Prov.loaded then [K.storeLoaded] else []) ++
  (if Prov.has bad Prov.globalMask then [K.storeGlobal] else []) ++
  (if Prov.has bad Prov.paramMask then [K.storeForeign] else [])

def wInstr (c : PCtx) (allowed : Prov) (i : Instr) : List Nm :=
  let w := (pRule c i).weff.roots
  let bad := Prov.minus w (allowed ||| Prov.fresh)
  if bad == 0 then [] else writeKinds bad

def writesSelector (prog : Program) (hints : List FuncHints) (pol : WritesPolicy) : Selector :=
  fun _ f h =>
    some { fnKinds := if Prov.subset (Prov.minus h.writes Prov.fresh) (allowedWrites pol f) then [] else [K.writesForeign],
           instr := fun _ _ ins => wInstr { prog := prog, hints := hints, f := f, h := h } (allowedWrites pol f) ins }

/-- **C11(b)** (given a consistent labelling) -/
def writesCheck (prog : Program) (hints : List FuncHints) (pol : WritesPolicy) : Bool :=
  verdictOk prog hints (writesSelector prog hints pol) []

/-! ## C19: freshness of results / "returns the receiver" -/

structure ReturnsPolicy where
  apiTypes : List Nm
  /-- functions all of whose pointer-like results must be fresh -/
  fresh : List Nm
deriving Repr

def freshRetKinds (c : PCtx) : List Opnd → List VK → List Nm
  | v :: vs, k :: ks =>
    (if k.pointerish && !Prov.subset (c.lab v) (Prov.fresh ||| Prov.flagsMask) then [K.returnNotFresh] else []) ++ freshRetKinds c vs ks
  | _, _ => []

/-- exactly the receiver (parameter 0, not something derived from it), or nil -/
def recvRetKinds (c : PCtx) : List Opnd → List VK → List Nm
  | v :: vs, k :: ks =>
    (if k.pointerish && !Prov.subset (c.lab v) (Prov.param 0 ||| Prov.maybeNil) then [K.returnNotReceiver] else []) ++ recvRetKinds c vs ks
  | _, _ => []

def rInstr (c : PCtx) (wantFresh : Bool) (i : Instr) : List Nm :=
  match i.op with
  | .ret vs => if wantFresh then freshRetKinds c vs c.f.results else recvRetKinds c vs c.f.results
  | _ => []

def anyPointerish : List VK → Bool
  | [] => false
  | k :: ks => k.pointerish || anyPointerish ks

/-- error results (interfaces) are not subject to the receiver rule -/
def resultsForReceiverRule : List VK → List VK
  | [] => []
  | .iface :: ks => .none :: resultsForReceiverRule ks
  | k :: ks => k :: resultsForReceiverRule ks

def returnsSelector (prog : Program) (hints : List FuncHints) (pol : ReturnsPolicy) : Selector :=
  fun _ f h =>
    if pol.fresh.any (· == f.name) then
      some { fnKinds := if h.returns.all (fun r => Prov.subset r (Prov.fresh ||| Prov.flagsMask)) then [] else [K.returnNotFresh],
             instr := fun _ _ ins => rInstr { prog := prog, hints := hints, f := f, h := h } true ins }
    else if isApi pol.apiTypes f && anyPointerish (resultsForReceiverRule f.results) then
      some { fnKinds := if f.recv == 0 then [K.returnNotReceiver] else [],
             instr := fun _ _ ins =>
               rInstr { prog := prog, hints := hints, f := { f with results := resultsForReceiverRule f.results }, h := h } false ins }
    else none

def missingNames (prog : Program) : List Nm → List Nm
  | [] => []
  | n :: ns => (if prog.funcs.any (·.name == n) then [] else [n]) ++ missingNames prog ns

/-- **C19** (given a consistent labelling); every function the policy names must exist -/
def returnsCheck (prog : Program) (hints : List FuncHints) (pol : ReturnsPolicy) : Bool :=
  verdictOk prog hints (returnsSelector prog hints pol) [] && (missingNames prog pol.fresh).isEmpty

/-! ## C18: globals discipline F1–F4 -/

structure GlobalsPolicy where
  /-- `(global, accessor function)`: lazily built tables behind a `sync.Once` -/
  onceTables : List (Nm × Nm)
  onceField : Nm
  forbiddenImports : List Nm
  /-- named types of other packages with one of these prefixes are rejected … -/
  forbiddenTypePrefixes : List Nm
  /-- … except these -/
  allowedTypes : List Nm
  /-- externals with one of these prefixes are rejected … -/
  forbiddenCallPrefixes : List Nm
  /-- … except these -/
  allowedCalls : List Nm
deriving Repr

/-- A resolved once-table: global index, accessor index, closure index, position of the `Do` call
    in the accessor's entry block. -/
structure OnceTable where
  g : Nat
  acc : Nat
  clo : Nat
  doPos : Nat
deriving Repr

def isFieldAddrOfGlobal (f : Func) (g : Nat) (fname : Nm) : Opnd → Bool
  | .reg id =>
    match f.instrs[id]? with
    | some i =>
      match i.op with
      | .fieldAddr (.global g') _ fn => g' == g && fn == fname
      | _ => false
    | none => false
  | _ => false

/-- find `(*sync.Once).Do(&g.initOnce, closure)` in the entry block -/
def findDo (f : Func) (g : Nat) (onceField : Nm) : List Instr → Nat → Option (Nat × Nat)
  | [], _ => none
  | i :: is, n =>
    match i.op with
    | .call (.extern e) [a0, .fn c] =>
      if e == Ext.onceDo && isFieldAddrOfGlobal f g onceField a0 then some (n, c) else findDo f g onceField is (n + 1)
    | _ => findDo f g onceField is (n + 1)

def resolveOnce (prog : Program) (pol : GlobalsPolicy) : List (Nm × Nm) → List (Option OnceTable)
  | [] => []
  | e :: es =>
    (match prog.globalIdx? e.1, prog.funcIdx? e.2 with
     | some g, some a =>
       match prog.funcs[a]? with
       | some f =>
         match f.blocks.head? with
         | some b0 =>
           match findDo f g pol.onceField b0.instrs 0 with
           | some (pos, c) => some { g := g, acc := a, clo := c, doPos := pos }
           | none => none
         | none => none
       | none => none
     | _, _ => none) :: resolveOnce prog pol es

def someTables : List (Option OnceTable) → List OnceTable
  | [] => []
  | some t :: ts => t :: someTables ts
  | none :: ts => someTables ts

/-- before the `Do` call the accessor only computes `&g.initOnce` -/
def accessorPrefixOk (g : Nat) (onceField : Nm) : List Instr → Nat → Bool
  | _, 0 => true
  | [], _ => false
  | i :: is, n + 1 =>
    (match i.op with
     | .fieldAddr (.global g') _ fn => g' == g && fn == onceField
     | _ => false) && accessorPrefixOk g onceField is n

def accessorOk (prog : Program) (pol : GlobalsPolicy) (t : OnceTable) : Bool :=
  match prog.funcs[t.acc]?, prog.funcs[t.clo]? with
  | some f, some c =>
    c.parent == some t.acc && c.params.isEmpty && c.freeVars.isEmpty &&
    (match f.blocks.head? with
     | some b0 => accessorPrefixOk t.g pol.onceField b0.instrs t.doPos
     | none => false)
  | _, _ => false

/-- global bits function number `fi` may store through -/
def allowedGlobalWrites (tables : List OnceTable) (fi : Nat) (f : Func) : Prov :=
  if isPkgInit f then Prov.globalMask
  else tables.foldl (fun acc t => if t.clo == fi then acc ||| Prov.global t.g else acc) 0

def opndRefs (isG : Nat → Bool) (isF : Nat → Bool) : List Opnd → Bool × Bool → Bool × Bool
  | [], r => r
  | .global g :: os, r => opndRefs isG isF os (r.1 || isG g, r.2)
  | .fn f :: os, r => opndRefs isG isF os (r.1, r.2 || isF f)
  | _ :: os, r => opndRefs isG isF os r

def hasPrefixIn (n : Nm) : List Nm → Bool
  | [] => false
  | p :: ps => Nm.isPrefix p n || hasPrefixIn n ps

def forbiddenCall (pol : GlobalsPolicy) (n : Nm) : Bool :=
  hasPrefixIn n pol.forbiddenCallPrefixes && !pol.allowedCalls.any (· == n)

def VK.forbidden : VK → Bool
  | .chan | .rawPtr | .uintptr => true
  | _ => false

def gCallKinds (pol : GlobalsPolicy) (tables : List OnceTable) (callee : Callee) : List Nm :=
  match callee with
  | .fn g => if tables.any (fun t => t.clo == g) then [K.onceClosureRef] else []
  | .extern e => if forbiddenCall pol e then [K.concurrency] else []
  | _ => []

/-- references to once-globals outside accessor/closure, references to a once-closure other than
    the accessor's `Do` call -/
def gRefKinds (tables : List OnceTable) (fi b n : Nat) (i : Instr) : List Nm :=
  let isG := fun g => tables.any (fun t => t.g == g && !(fi == t.acc || fi == t.clo))
  let isF := fun c => tables.any (fun t => t.clo == c && !(fi == t.acc && b == 0 && n == t.doPos))
  match opndRefs isG isF i.op.operands (false, false) with
  | (rg, rf) => (if rg then [K.onceGlobalRef] else []) ++ (if rf then [K.onceClosureRef] else [])

def gInstr (c : PCtx) (pol : GlobalsPolicy) (tables : List OnceTable) (fi : Nat) (allowedG : Prov) (b n : Nat) (i : Instr) : List Nm :=
  let e := pRule c i
  let w := e.weff.roots
  -- F1 / F3: stores through global-derived pointers only in `init` and the once closures
  (if Prov.subset (w &&& Prov.globalMask) allowedG then [] else [K.globalStore]) ++
  -- F3: pointers read out of memory (e.g. `identity`, `d`, `feOne`) are never stored through
  (if Prov.has w Prov.loaded then [K.storeLoaded] else []) ++
  -- F3: pointer values are only ever stored into memory allocated by the storing function
  (match i.op with
   | .store vk a _ =>
     if vk.pointerish && !isPkgInit c.f && !Prov.subset (c.lab a).roots Prov.fresh then [K.ptrEscape] else []
   | .call callee _ => gCallKinds pol tables callee
   | .unsupported _ _ => [K.concurrency]
   | _ => []) ++
  (if i.k.forbidden then [K.concurrency] else []) ++
  gRefKinds tables fi b n i

def paramsForbidden : List Param → Bool
  | [] => false
  | p :: ps => p.k.forbidden || paramsForbidden ps

def globalsSelector (prog : Program) (hints : List FuncHints) (pol : GlobalsPolicy) : Selector :=
  let tables := someTables (resolveOnce prog pol pol.onceTables)
  fun fi f h =>
    some { fnKinds :=
             (if Prov.subset (h.writes &&& Prov.globalMask) (allowedGlobalWrites tables fi f) then [] else [K.globalStore]) ++
             (if tables.any (fun t => t.acc == fi && !accessorOk prog pol t) then [K.onceAccessor] else []) ++
             (if paramsForbidden f.params || paramsForbidden f.freeVars then [K.concurrency] else []),
           instr := gInstr { prog := prog, hints := hints, f := f, h := h } pol tables fi (allowedGlobalWrites tables fi f) }

/-- program-level part of F2/F4 (as names of the offending items) -/
def globalsProgramIssues (prog : Program) (pol : GlobalsPolicy) : List (Nm × Nm) :=
  ((resolveOnce prog pol pol.onceTables).zip pol.onceTables).filterMap (fun p =>
      match p.1 with
      | some _ => none
      | none => some (K.onceAccessor, p.2.2)) ++
  (prog.imports.filter (fun i => pol.forbiddenImports.any (· == i))).map (fun i => (K.forbiddenImport, i)) ++
  (prog.externTypes.filter (fun t => hasPrefixIn t pol.forbiddenTypePrefixes && !pol.allowedTypes.any (· == t))).map
    (fun t => (K.forbiddenType, t)) ++
  (prog.globals.filter (fun g => g.k.forbidden)).map (fun g => (K.concurrency, g.name))

/-- **C18 F1–F4** (given a consistent labelling) -/
def globalsCheck (prog : Program) (hints : List FuncHints) (pol : GlobalsPolicy) : Bool :=
  verdictOk prog hints (globalsSelector prog hints pol) [] && (globalsProgramIssues prog pol).isEmpty

/-! ## the predicates as stated in DESIGN §6 (labelling consistency included) -/

/-- **C11(b)** -/
def writesOnly (prog : Program) (hints : List FuncHints) (pol : WritesPolicy) : Bool :=
  provConsistent prog hints && writesCheck prog hints pol

/-- **C19** -/
def returnsFresh (prog : Program) (hints : List FuncHints) (pol : ReturnsPolicy) : Bool :=
  provConsistent prog hints && returnsCheck prog hints pol

/-- **C18 F1–F4** -/
def globalsDiscipline (prog : Program) (hints : List FuncHints) (pol : GlobalsPolicy) : Bool :=
  provConsistent prog hints && globalsCheck prog hints pol

end EdVerif.Ssa
