import EdVerif.Ssa.GlobSound.Step
/-!
# Soundness of the globals-discipline checker: `GlobalsStatement`
-/
namespace EdVerif.Ssa.GS

open EdVerif.Ssa EdVerif.Ssa.PS EdVerif.Ssa.ES

variable {P : Program} {H : List FuncHints} {T : List OnceTable}

theorem run_unch (F : Facts P H) (G : GFacts P H T) {bot : PS.Callee} {heap0 : Heap}
    (hhg : P.globals.length < heap0.blocks.size) : ∀ (fuel : Nat) (s : State) (ms : List Nat),
    GInv P H T bot heap0 s ms → ∀ h', (run P fuel s).heap? = some h' → Unch P T heap0 h' := by
  intro fuel
  induction fuel with
  | zero =>
    intro s ms hinv h' he
    simp [run, Outcome.heap?] at he
    subst he
    exact hinv.unch
  | succ fuel ih =>
    intro s ms hinv h' he
    have hstep := g_step F G hhg hinv
    unfold run at he
    cases hs : step P s with
    | cont s' evs =>
      rw [hs] at hstep he
      obtain ⟨ms', hinv'⟩ := hstep
      exact ih s' ms' hinv' h' he
    | done s' rets evs =>
      rw [hs] at hstep he
      simp only [Outcome.heap?, Option.some.injEq] at he
      subst he
      exact hstep
    | panic s' c evs =>
      rw [hs] at hstep he
      simp only [Outcome.heap?, Option.some.injEq] at he
      subst he
      exact hstep
    | fault w =>
      rw [hs] at he
      simp [Outcome.heap?] at he

end EdVerif.Ssa.GS

namespace EdVerif.Ssa

open EdVerif.Ssa.PS EdVerif.Ssa.GS

/-- **C18 F1–F3 / C19 (no hidden state)**, soundness of `provSelector` + `globalsSelector` (+ side conditions) w.r.t. the
    execution semantics -/
theorem globals_sound : GlobalsStatement := by
  intro prog hints pol hprov hglob fi f hf hexp heap args s hargs havoid hheap hs fuel h' hh' g hg hnt
  have F := facts_of_ok hprov
  have G := gfacts_of_ok hglob
  have hhg : prog.globals.length < heap.blocks.size := hheap
  obtain ⟨h, hh, hheap0, hinv⟩ := init_inv F hf hargs hs
  have hstack : s.stack.length = 1 := by
    unfold callState at hs
    rw [hf] at hs
    simp only [Option.bind_eq_bind, Option.bind_some] at hs
    cases hm : mkFrame fi f args none with
    | none => rw [hm] at hs; simp at hs
    | some fr =>
      rw [hm] at hs
      simp at hs
      subst hs
      rfl
  obtain ⟨hp, stack⟩ := s
  have hhp : hp = heap := hheap0
  subst hhp
  cases stack with
  | nil => simp at hstack
  | cons fr frs =>
    cases frs with
    | cons _ _ => simp at hstack
    | nil =>
      have hfr : fr.fi = fi ∧ fr.params = args.toArray := by
        unfold callState at hs
        rw [hf] at hs
        simp only [Option.bind_eq_bind, Option.bind_some] at hs
        cases hm : mkFrame fi f args none with
        | none => rw [hm] at hs; simp at hs
        | some fr' =>
          rw [hm] at hs
          simp at hs
          subst hs
          exact mkFrame_fi_params hm
      have ginv : GInv prog hints (onceTablesOf prog pol) _ hp ⟨hp, [fr]⟩ [hp.blocks.size] :=
        { sinv := hinv,
          np := by
            refine ⟨?_, trivial⟩
            rw [hfr.1, hfr.2]
            exact root_npg F G hf hexp havoid hhg
          size := Nat.le_refl _,
          unch := fun _ _ => rfl }
      exact run_unch F G hhg fuel _ _ ginv h' hh' (g + 1) ⟨g, hg, rfl, hnt⟩

end EdVerif.Ssa
