import EdVerif.Ssa.GlobSound.Inv
/-!
# The frame pushed by `Once.Do(a0, fn clo)` is a frame of `clo` (purely semantic)
-/
namespace EdVerif.Ssa.GS

open EdVerif.Ssa EdVerif.Ssa.PS EdVerif.Ssa.ES

theorem stepExtern_once_target {P : Program} {hp : Heap} {fr : Frame} {frs : List Frame} {i : Instr} {v0 : RVal} {clo : Nat}
    {s' : State} {evs : List Event}
    (hs : stepExtern P hp fr frs i Ext.onceDo [v0, [.fn clo]] = .cont s' evs) (hl : s'.stack.length = frs.length + 2) :
    ∃ nf tl, s'.stack = nf :: tl ∧ nf.fi = clo ∧ nf.params = #[] := by
  unfold stepExtern at hs
  have e1 : (Ext.onceDo == Ext.mul64) = false := by decide
  have e2 : (Ext.onceDo == Ext.add64) = false := by decide
  have e3 : (Ext.onceDo == Ext.sub64) = false := by decide
  have e4 : (Ext.onceDo == Ext.ctByteEq) = false := by decide
  have e5 : (Ext.onceDo == Ext.ctCompare) = false := by decide
  have e6 : (Ext.onceDo == Ext.leUint64) = false := by decide
  have e7 : (Ext.onceDo == Ext.lePutUint64) = false := by decide
  have e8 : (Ext.onceDo == Ext.errorsNew) = false := by decide
  simp only [e1, e2, e3, e4, e5, e6, e7, e8, beq_self_eq_true, Bool.false_eq_true, if_false, if_true] at hs
  split at hs
  · rename_i b o g heq
    simp only [List.cons.injEq, Val.fn.injEq, and_true] at heq
    obtain ⟨_, hg⟩ := heq
    split at hs
    · split at hs
      · rename_i hp' gf hwr hgf
        split at hs
        · rename_i nf hnf
          simp only [Step.cont.injEq] at hs
          obtain ⟨hs, _⟩ := hs
          subst hs
          refine ⟨nf, _, rfl, ?_, ?_⟩
          all_goals
            unfold mkFrame at hnf
            cases hb0 : gf.blocks[0]? with
            | none => rw [hb0] at hnf; simp at hnf
            | some b0 =>
              rw [hb0] at hnf
              simp only [Option.bind_eq_bind, Option.bind_some, Option.pure_def, Option.some.injEq] at hnf
              subst hnf
              first | exact hg.symm | rfl
        · cases hs
      · cases hs
    · simp only [contReg, Step.cont.injEq] at hs
      obtain ⟨hs, _⟩ := hs
      subst hs
      simp at hl
    · cases hs
  · cases hs

theorem once_target {P : Program} {hp : Heap} {fr0 : Frame} {frs : List Frame} {i : Instr} {rest : List Instr} {a0 : Opnd} {clo : Nat}
    (hr : fr0.rest = i :: rest) (hop : i.op = .call (.extern Ext.onceDo) [a0, .fn clo]) {s' : State} {evs : List Event}
    (hs : step P ⟨hp, fr0 :: frs⟩ = .cont s' evs) (hl : s'.stack.length = frs.length + 2) :
    ∃ nf tl, s'.stack = nf :: tl ∧ nf.fi = clo ∧ nf.params = #[] := by
  unfold step at hs
  simp only [hr, hop] at hs
  unfold stepCall at hs
  have hfn : ∀ fr ty, evalOpnd P fr ty (.fn clo) = some [.fn clo] := fun _ _ => rfl
  simp only [evalOpnds, hfn] at hs
  generalize evalOpnd P _ _ a0 = ov at hs
  cases ov with
  | none => simp at hs
  | some v0 =>
    exact stepExtern_once_target hs hl

end EdVerif.Ssa.GS
