import EdVerif.Ssa.GlobSound.Once
/-!
# One step of the machine preserves "no protected block has changed"

The invariant `GInv`: the stack invariant of `ProvSound` (`SInv`), `NPG` for every frame on the stack (with its mark),
and every protected block has the content it had in the initial heap.
-/
namespace EdVerif.Ssa.GS

open EdVerif.Ssa EdVerif.Ssa.PS EdVerif.Ssa.ES

/-- every frame of the stack (with its mark) satisfies `NPG` -/
def StackNP (P : Program) (H : List FuncHints) (T : List OnceTable) : List Frame → List Nat → Prop
  | [], [] => True
  | fr :: frs, m :: ms => NPG P H T fr.fi fr.params m ∧ StackNP P H T frs ms
  | _, _ => False

/-- the protected blocks of `hp` have the content they had in `heap0` -/
def Unch (P : Program) (T : List OnceTable) (heap0 hp : Heap) : Prop :=
  ∀ b, ProtG P T b → hp.blocks[b]? = heap0.blocks[b]?

structure GInv (P : Program) (H : List FuncHints) (T : List OnceTable) (bot : PS.Callee) (heap0 : Heap) (s : State) (ms : List Nat) :
    Prop where
  sinv : SInv P H bot s ms
  np : StackNP P H T s.stack ms
  size : heap0.blocks.size ≤ s.heap.blocks.size
  unch : Unch P T heap0 s.heap

def GGoal (P : Program) (H : List FuncHints) (T : List OnceTable) (bot : PS.Callee) (heap0 : Heap) : Step → Prop
  | .cont s' _ => ∃ ms', GInv P H T bot heap0 s' ms'
  | .done s' _ _ => Unch P T heap0 s'.heap
  | .panic s' _ _ => Unch P T heap0 s'.heap
  | .fault _ => True

theorem jumpTo_fi_params {P : Program} {fr fr' : Frame} {t : Nat} (h : jumpTo P fr t = some fr') :
    fr'.fi = fr.fi ∧ fr'.params = fr.params := by
  unfold jumpTo at h
  cases hb : fr.f.blocks[t]? with
  | none => rw [hb] at h; simp at h
  | some tb =>
    rw [hb] at h
    simp only [Option.bind_eq_bind, Option.bind_some] at h
    cases hv : evalPhis P fr fr.blk (splitPhis tb.instrs).1 with
    | none => rw [hv] at h; simp at h
    | some vals =>
      rw [hv] at h
      simp only [Option.bind_some, Option.pure_def, Option.some.injEq] at h
      subst h
      exact ⟨rfl, rfl⟩

theorem mkFrame_fi_params {g : Nat} {gf : Func} {args : List RVal} {dest : Option Nat} {nf : Frame}
    (h : mkFrame g gf args dest = some nf) : nf.fi = g ∧ nf.params = args.toArray := by
  unfold mkFrame at h
  cases hb0 : gf.blocks[0]? with
  | none => rw [hb0] at h; simp at h
  | some b0 =>
    rw [hb0] at h
    simp only [Option.bind_eq_bind, Option.bind_some, Option.pure_def, Option.some.injEq] at h
    subst h
    exact ⟨rfl, rfl⟩

variable {P : Program} {H : List FuncHints} {T : List OnceTable}

theorem Unch.step {heap0 hp hp' : Heap} {W : Nat → Prop} (hu : Unch P T heap0 hp) (hs : HeapStep W hp hp')
    (hW : ∀ b, W b → ¬ ProtG P T b) (hsz : P.globals.length < hp.blocks.size) : Unch P T heap0 hp' := by
  intro b hb
  have := hb.le
  exact (hs.2 b (by omega) (fun hw => hW b hw hb)).trans (hu b hb)

theorem g_step (F : Facts P H) (G : GFacts P H T) {bot : PS.Callee} {heap0 : Heap}
    (hhg : P.globals.length < heap0.blocks.size) {s : State} {ms : List Nat} (hinv : GInv P H T bot heap0 s ms) :
    GGoal P H T bot heap0 (step P s) := by
  obtain ⟨hp, stack⟩ := s
  cases stack with
  | nil => simp [step, GGoal]
  | cons fr0 frs =>
    cases ms with
    | nil => exact absurd hinv.sinv.stack (by simp [StackInv])
    | cons m ms' =>
      have hM := step_invM F hinv.sinv
      obtain ⟨h, inv, hlow⟩ := hinv.sinv.stack
      have hmark : m ≤ hp.blocks.size := hinv.sinv.mark m ms' rfl
      have hnp := hinv.np
      simp only [StackNP] at hnp
      obtain ⟨npT, npL⟩ := hnp
      have hsize : heap0.blocks.size ≤ hp.blocks.size := hinv.size
      have hun : Unch P T heap0 hp := hinv.unch
      cases hrest : fr0.rest with
      | nil => simp [step, hrest, GGoal]
      | cons i rest =>
        obtain ⟨bl, pre, ex⟩ := exec_of_inv F inv hrest
        have hat : InstrAt fr0.f fr0.blk pre.length i := instrAt_of_split ex.hb ex.hi
        have hsh := step_shape (P := P) (hp := hp) (frs := frs) hrest
        have hW : ∀ b, WAddr P (popI fr0 rest) i b → ¬ ProtG P T b :=
          fun b hw => waddr_notProtG G ex.ic hat npT hw
        have hUn : ∀ hp', HeapStep (WAddr P (popI fr0 rest) i) hp hp' → Unch P T heap0 hp' :=
          fun hp' hs => hun.step hs hW (by omega)
        generalize hrs : step P ⟨hp, fr0 :: frs⟩ = r at hsh hM
        cases hsh with
        | fault w => trivial
        | panic c evs => exact hun
        | reg v hp' evs hval hheap hncall hdef =>
          obtain ⟨⟨ms1, hinv1, hnext⟩, _⟩ := hM
          have hms1 := msNext_same hnext rfl
          subst hms1
          exact ⟨_, { sinv := hinv1, np := ⟨npT, npL⟩, size := Nat.le_trans hsize hheap.1, unch := hUn _ hheap }⟩
        | noreg hp' evs hheap hdef =>
          obtain ⟨⟨ms1, hinv1, hnext⟩, _⟩ := hM
          have hms1 := msNext_same hnext rfl
          subst hms1
          exact ⟨_, { sinv := hinv1, np := ⟨npT, npL⟩, size := Nat.le_trans hsize hheap.1, unch := hUn _ hheap }⟩
        | jump t fr' evs htgt hj =>
          obtain ⟨⟨ms1, hinv1, hnext⟩, _⟩ := hM
          have hms1 := msNext_same hnext rfl
          subst hms1
          obtain ⟨e1, e2⟩ := jumpTo_fi_params hj
          refine ⟨_, { sinv := hinv1, np := ⟨?_, npL⟩, size := hsize, unch := hun }⟩
          show NPG P H T fr'.fi fr'.params m
          rw [e1, e2]; exact npT
        | call g gf cargs vs nf evs hop he hgf hnf =>
          obtain ⟨⟨ms1, hinv1, hnext⟩, _⟩ := hM
          have hms1 := msNext_push hnext rfl
          subst hms1
          obtain ⟨e1, e2⟩ := mkFrame_fi_params hnf
          refine ⟨_, { sinv := hinv1, np := ⟨?_, npT, npL⟩, size := hsize, unch := hun }⟩
          show NPG P H T nf.fi nf.params hp.blocks.size
          rw [e1, e2]
          exact callee_npg G ex.ic npT hop he hgf hmark
        | once b o g gf nf hp' args evs hop hwa hwr hgf hnf =>
          obtain ⟨⟨ms1, hinv1, hnext⟩, _⟩ := hM
          have hms1 := msNext_push hnext rfl
          subst hms1
          have hsz' : hp'.blocks.size = hp.blocks.size := (Heap.write_spec hwr).2.1
          obtain ⟨e1, e2⟩ := mkFrame_fi_params hnf
          obtain ⟨a0, clo, hargs, hclo, _⟩ := once_spec (G.once fr0.fi fr0.f h inv.hf inv.hh fr0.blk pre.length i hat) hop
          subst hargs
          obtain ⟨nf', tl, hst, hfi', _⟩ := once_target hrest hop hrs (by simp)
          have hnf' : nf' = nf := by
            simp only [List.cons.injEq] at hst
            exact hst.1.symm
          subst hnf'
          have hg : g = clo := by rw [← e1, hfi']
          subst hg
          refine ⟨_, { sinv := hinv1, np := ⟨?_, npT, npL⟩, size := ?_, unch := hUn _ (HeapStep.write hwr hwa) }⟩
          · show NPG P H T nf'.fi nf'.params hp'.blocks.size
            rw [e1, e2]
            exact closure_npg F G hgf hclo (by omega)
          · show heap0.blocks.size ≤ hp'.blocks.size
            omega
        | ret vals vs hop he =>
          cases frs with
          | nil => exact hun
          | cons caller brest =>
            obtain ⟨⟨ms1, hinv1, hnext⟩, _⟩ := hM
            have hms1 := msNext_pop hnext rfl
            subst hms1
            cases ms1 with
            | nil => simp [StackNP] at npL
            | cons mc ms'' =>
              simp only [StackNP] at npL
              refine ⟨_, { sinv := hinv1, np := ⟨?_, npL.2⟩, size := hsize, unch := hun }⟩
              show NPG P H T (retInto caller _ vs).fi (retInto caller _ vs).params mc
              rw [retInto_fi, retInto_params]
              exact npL.1

end EdVerif.Ssa.GS
