import EdVerif.Ssa.GlobSound.Facts
/-!
# Protected blocks; "this frame cannot store into a protected block"

`ProtG b`: block `b` holds a package-level variable that is not a once-table.  `NPG fi params m`: no block among the
roots of the `writes` summary of function `fi`, entered with `params` at heap size `m`, is protected.  `NPG` holds for
the outermost exported frame, is inherited by callees (through `substArgs` and the `writeSummary` check of `pInstr`)
and holds for the closure of a once-table run by `Once.Do`.
-/
namespace EdVerif.Ssa.GS

open EdVerif.Ssa EdVerif.Ssa.PS EdVerif.Ssa.ES

/-- block `b` holds a package-level variable that is not a once-table -/
def ProtG (P : Program) (T : List OnceTable) (b : Nat) : Prop :=
  ∃ g, g < P.globals.length ∧ b = g + 1 ∧ ∀ t ∈ T, t.g ≠ g

theorem ProtG.le {P : Program} {T : List OnceTable} {b : Nat} (h : ProtG P T b) : b ≤ P.globals.length := by
  obtain ⟨g, hg, hb, _⟩ := h; omega

/-- a frame of function `fi` entered with `params` when the heap had `m` blocks cannot store into a protected block -/
def NPG (P : Program) (H : List FuncHints) (T : List OnceTable) (fi : Nat) (params : Array RVal) (m : Nat) : Prop :=
  ∀ h, H[fi]? = some h → ∀ b, InRoots ⟨P.globals.length, params, m⟩ (h.writes ||| Prov.fresh) b → ¬ ProtG P T b

variable {P : Program} {H : List FuncHints} {T : List OnceTable}

/-- memory allocated after the frame was entered is not protected -/
theorem NPG.fresh {fi : Nat} {params : Array RVal} {m : Nat} (h : NPG P H T fi params m) {hh : FuncHints}
    (hhh : H[fi]? = some hh) {b : Nat} (hb : m ≤ b) : ¬ ProtG P T b :=
  h hh hhh b (Or.inr (Or.inl ⟨by simp [Nat.testBit_or, testBit_fresh], hb⟩))

/-- a block among the roots of a label covered by the `writes` summary is not protected -/
theorem NPG.of_le {fi : Nat} {params : Array RVal} {m : Nat} (h : NPG P H T fi params m) {hh : FuncHints}
    (hhh : H[fi]? = some hh) {L : Prov} (hle : RootsLe L (hh.writes ||| Prov.fresh)) {b : Nat}
    (hb : InRoots ⟨P.globals.length, params, m⟩ L b) : ¬ ProtG P T b :=
  h hh hhh b (hb.mono hle)

/-- the global of a once-table is not protected -/
theorem not_prot_table {g : Nat} {t : OnceTable} (ht : t ∈ T) (hg : t.g = g) : ¬ ProtG P T (g + 1) := by
  rintro ⟨g', _, hb, hall⟩
  have : g' = g := by omega
  subst this
  exact hall t ht hg

/-- the flag cell of a `Do` call: its label has only fresh roots and globals of once-tables -/
theorem once_cell_notProt {fi : Nat} {params : Array RVal} {m : Nat} (np : NPG P H T fi params m) {hh : FuncHints}
    (hhh : H[fi]? = some hh) {L : Prov}
    (hs : Prov.subset (Prov.minus (Prov.roots L) Prov.fresh) (GlobSide.tablesMask T) = true) {b : Nat}
    (hb : InRoots ⟨P.globals.length, params, m⟩ L b) : ¬ ProtG P T b := by
  have key : ∀ k, k ≠ 16 → k ≠ 18 → k ≠ 19 → L.testBit k = true → ∃ t ∈ T, 20 + t.g = k := by
    intro k h16 h18 h19 hk
    apply (testBit_tablesMask T k).1
    apply subset_testBit hs
    rw [testBit_minus, testBit_roots, hk, testBit_fresh]
    have : decide (18 = k) = false := by simp; omega
    have : decide (19 = k) = false := by simp; omega
    have : decide (16 = k) = false := by simp; omega
    simp [*]
  rcases hb with ⟨k, a, v, hk, hbit, _⟩ | ⟨_, hm⟩ | hbit | ⟨g, _, hbit, hbe⟩
  · obtain ⟨t, _, ht⟩ := key k (by omega) (by omega) (by omega) hbit
    omega
  · exact np.fresh hhh hm
  · obtain ⟨t, _, ht⟩ := key 17 (by omega) (by omega) (by omega) hbit
    omega
  · obtain ⟨t, htT, ht⟩ := key (20 + g) (by omega) (by omega) (by omega) hbit
    subst hbe
    exact not_prot_table htT (by omega)

/-- the instruction the top frame executes writes no protected block -/
theorem waddr_notProtG (G : GFacts P H T) {h : FuncHints} {fr : Frame} {m dm : Nat} {i : Instr} {b0 n0 : Nat}
    (ic : IC P H h fr m dm i) (hat : InstrAt fr.f b0 n0 i) (np : NPG P H T fr.fi fr.params m) {b : Nat}
    (hw : WAddr P fr i b) : ¬ ProtG P T b := by
  have hweff := ic.weff
  unfold WAddr at hw
  cases hop : i.op <;> simp only [hop] at hw
  case store vk a v =>
    obtain ⟨o, he⟩ := hw
    have hin := rvok_single_ptr (ic.opnd (by simp [hop, Op.operands]) he)
    simp only [pRule, hop] at hweff
    exact np.of_le ic.hh hweff hin
  case call callee args =>
    cases callee <;> simp only at hw
    case builtin n =>
      obtain ⟨hn, vs, o, l, c, he, hv, hne⟩ := hw
      obtain ⟨hlen, hargs⟩ := ic.args (by intro o ho; simpa [hop, Op.operands] using ho) he
      have hl0 : 0 < args.length := by
        rw [← hlen]
        rcases Nat.lt_or_ge 0 vs.length with h1 | h1
        · exact h1
        · rw [List.getElem?_eq_none h1] at hv; cases hv
      obtain ⟨ho, _⟩ := getD_mem_of_lt hl0
      have hin := rvok_single_slice (hargs 0 _ _ ho hv) hne
      have hn1 : (n == Ext.len) = false := by rw [hn]; decide
      have hn2 : (n == Ext.cap) = false := by rw [hn]; decide
      have hn3 : (n == Ext.copy) = true := by rw [hn]; decide
      simp only [pRule, hop, pCall, pCallBuiltin, hn1, hn2, hn3, Bool.or_self, Bool.false_eq_true, if_false, if_true] at hweff
      exact np.of_le ic.hh hweff hin
    case extern n =>
      obtain ⟨vs, he, hcase⟩ := hw
      obtain ⟨hlen, hargs⟩ := ic.args (by intro o ho; simpa [hop, Op.operands] using ho) he
      rcases hcase with ⟨hn, o, l, c, hv, hne⟩ | ⟨hn, o, hv⟩
      · have hl1 : 1 < args.length := by
          rw [← hlen]
          rcases Nat.lt_or_ge 1 vs.length with h1 | h1
          · exact h1
          · rw [List.getElem?_eq_none h1] at hv; cases hv
        obtain ⟨ho, _⟩ := getD_mem_of_lt hl1
        have hin := rvok_single_slice (hargs 1 _ _ ho hv) hne
        have e1 : (n == Ext.errorsNew) = false := by rw [hn]; decide
        have e2 : Nm.isSuffix (nm! ".init") n = false := by rw [hn]; decide
        have e3 : (n == Ext.lePutUint64) = true := by rw [hn]; decide
        simp only [pRule, hop, pCall, pCallExtern, e1, e2, e3, Bool.and_false, Bool.false_eq_true, if_false, if_true] at hweff
        exact np.of_le ic.hh hweff hin
      · -- the flag cell of a `sync.Once`: in the variable of a once-table, or fresh
        subst hn
        obtain ⟨a0, clo, hargs', _, hsub⟩ := once_spec (G.once fr.fi fr.f h ic.hf ic.hh b0 n0 i hat) hop
        subst hargs'
        have hin := rvok_single_ptr (hargs 0 a0 _ (by simp) hv)
        exact once_cell_notProt np ic.hh hsub hin

/-- the frame of a callee inherits `NPG` from the caller -/
theorem callee_npg (G : GFacts P H T) {h : FuncHints} {fr : Frame} {m dm : Nat} {i : Instr}
    (ic : IC P H h fr m dm i) (np : NPG P H T fr.fi fr.params m)
    {g : Nat} {cargs : List Opnd} (hop : i.op = .call (.fn g) cargs) {vs : List RVal}
    (he : evalOpnds P fr cargs i.opTys = some vs) {gf : Func} (hgf : P.funcs[g]? = some gf)
    {mk : Nat} (hmk : m ≤ mk) : NPG P H T g vs.toArray mk := by
  intro gh hgh b hw
  have hnlg : gh.writes.testBit 17 = false := ic.facts.noLoaded g gf gh hgf hgh
  obtain ⟨hlen, hargs⟩ := ic.args (by intro o ho; simpa [hop, Op.operands] using ho) he
  have hweff : RootsLe (substArgs (pc P H fr.f h) gh.writes cargs 0 (gh.writes &&& (Prov.globalMask ||| Prov.loaded)))
      (h.writes ||| Prov.fresh) := by
    have := ic.weff
    simpa [pRule, hop, pCall, pCallFn, hgh] using this
  rcases hw with ⟨k, a, v, hk, hbit, ha, hv, hpt⟩ | ⟨_, hm⟩ | hbit | ⟨gg, hgl, hbit, hbe⟩
  · have hbit' : gh.writes.testBit k = true := by
      simp only [Nat.testBit_or, testBit_fresh, Bool.or_eq_true, decide_eq_true_eq] at hbit
      rcases hbit with h1 | h1
      · exact h1
      · omega
    have hak : vs[k]? = some a := by
      have : vs.toArray[k]? = some a := ha
      simpa using this
    have hk' : k < cargs.length := by
      rw [← hlen]
      rcases Nat.lt_or_ge k vs.length with h' | h'
      · exact h'
      · rw [List.getElem?_eq_none h'] at hak; cases hak
    have hok := hargs k _ _ (List.getElem?_eq_getElem hk') hak
    have hin := hok v hv b hpt
    refine np.of_le ic.hh ?_ hin
    refine RootsLe.trans ?_ hweff
    intro q _ _ hq
    rw [testBit_substArgs]
    right
    exact ⟨k, _, List.getElem?_eq_getElem hk', by omega, by simpa using hbit', hq⟩
  · have : mk ≤ b := hm
    exact np.fresh ic.hh (Nat.le_trans hmk this)
  · simp [Nat.testBit_or, testBit_fresh, hnlg] at hbit
  · -- a global root of the callee's summary is a global root of the caller's
    have hgl' : gg < P.globals.length := hgl
    have hng := G.ng
    have hbit' : gh.writes.testBit (20 + gg) = true := by
      simp only [Nat.testBit_or, testBit_fresh, Bool.or_eq_true, decide_eq_true_eq] at hbit
      rcases hbit with h1 | h1
      · exact h1
      · omega
    refine np.of_le (L := Prov.global gg) ic.hh ?_ (Or.inr (Or.inr (Or.inr ⟨gg, hgl, by simp [testBit_global], hbe⟩)))
    refine RootsLe.trans ?_ hweff
    intro q _ _ hq
    rw [testBit_global] at hq
    have hq' : 20 + gg = q := by simpa using hq
    subst hq'
    rw [testBit_substArgs]
    left
    rw [Nat.testBit_and, hbit', Nat.testBit_or, testBit_globalMask]
    have h2 : decide (20 + gg < 64) = true := by simp; omega
    simp [h2]

/-- a function that is not the package initialiser, entered without pointers to protected blocks among its arguments
    when the heap already contained the package-level variables -/
theorem entry_npg (F : Facts P H) (G : GFacts P H T) {g : Nat} {gf : Func} (hgf : P.funcs[g]? = some gf)
    (hni : isPkgInit gf = false) {params : Array RVal}
    (hpar : ∀ (k : Nat) a v b, params[k]? = some a → v ∈ a → PtrTo v b → ¬ ProtG P T b)
    {mk : Nat} (hmk : P.globals.length < mk) : NPG P H T g params mk := by
  intro gh hgh b hw
  have hnlg : gh.writes.testBit 17 = false := F.noLoaded g gf gh hgf hgh
  have hng := G.ng
  rcases hw with ⟨k, a, v, hk, hbit, ha, hv, hpt⟩ | ⟨_, hm⟩ | hbit | ⟨gg, hgl, hbit, hbe⟩
  · exact hpar k a v b ha hv hpt
  · intro hp
    have := hp.le
    have : mk ≤ b := hm
    omega
  · simp [Nat.testBit_or, testBit_fresh, hnlg] at hbit
  · have hgl' : gg < P.globals.length := hgl
    have hbit' : gh.writes.testBit (20 + gg) = true := by
      simp only [Nat.testBit_or, testBit_fresh, Bool.or_eq_true, decide_eq_true_eq] at hbit
      rcases hbit with h1 | h1
      · exact h1
      · omega
    have hal : (allowedGlobalWrites T g gf).testBit (20 + gg) = true := by
      apply subset_testBit (G.gw g gf gh hgf hgh)
      rw [Nat.testBit_and, hbit', testBit_globalMask]
      have h2 : decide (20 + gg < 64) = true := by simp; omega
      simp [h2]
    obtain ⟨t, htT, _, htg⟩ := testBit_allowed hni hal
    subst hbe
    exact not_prot_table htT (by omega)

/-- the closure of a once-table, run by `Once.Do` -/
theorem closure_npg (F : Facts P H) (G : GFacts P H T) {g : Nat} {gf : Func} (hgf : P.funcs[g]? = some gf)
    (hclo : GlobSide.isClosure T g = true) {mk : Nat} (hmk : P.globals.length < mk) : NPG P H T g #[] mk := by
  have hfn := G.fnOk g gf hgf
  have hni : isPkgInit gf = false := by
    simpa [GlobSide.fnOk, hclo] using hfn
  refine entry_npg F G hgf hni ?_ hmk
  intro k a v b ha
  simp at ha

/-- an exported function whose arguments avoid the package-level variables -/
theorem root_npg (F : Facts P H) (G : GFacts P H T) {fi : Nat} {f : Func} (hf : P.funcs[fi]? = some f)
    (hexp : f.exported = true) {args : List RVal} (havoid : ArgsAvoidGlobals P args)
    {mk : Nat} (hmk : P.globals.length < mk) : NPG P H T fi args.toArray mk := by
  have hfn := G.fnOk fi f hf
  have hni : isPkgInit f = false := by
    simpa [GlobSide.fnOk, hexp] using hfn
  refine entry_npg F G hf hni ?_ hmk
  intro k a v b ha hv hpt hprot
  have ha' : args[k]? = some a := by simpa using ha
  have hav := havoid a (List.mem_of_getElem? ha') v hv
  have hle := hprot.le
  obtain ⟨g, hg, hb, _⟩ := hprot
  cases v <;> simp only [PtrTo] at hpt
  · subst hpt
    simp [isGlobalBlock] at hav
    omega
  · obtain ⟨e, _⟩ := hpt
    subst e
    simp [isGlobalBlock] at hav
    omega

end EdVerif.Ssa.GS
