import EdVerif.Ssa.GlobSpec
import EdVerif.Ssa.ErrSound.ErrStep
/-!
# What `globalsOkSimple` says, per function / instruction; bit facts about the once-tables
-/
namespace EdVerif.Ssa.GS

open EdVerif.Ssa EdVerif.Ssa.PS

/-- the facts the proof uses about a program whose globals verdict is `true` (`T` = the resolved once-tables) -/
structure GFacts (P : Program) (H : List FuncHints) (T : List OnceTable) : Prop where
  ng : P.globals.length ≤ 44
  gw : ∀ (fi : Nat) f h, P.funcs[fi]? = some f → H[fi]? = some h →
    Prov.subset (h.writes &&& Prov.globalMask) (allowedGlobalWrites T fi f) = true
  fnOk : ∀ (fi : Nat) f, P.funcs[fi]? = some f → GlobSide.fnOk T fi f = true
  once : ∀ (fi : Nat) f h, P.funcs[fi]? = some f → H[fi]? = some h → ∀ b n i, InstrAt f b n i →
    GlobSide.sInstr { prog := P, hints := H, f := f, h := h } T i = []

theorem gfacts_of_ok {P : Program} {H : List FuncHints} {pol : GlobalsPolicy} (h : globalsOkSimple P H pol = true) :
    GFacts P H (onceTablesOf P pol) := by
  simp only [globalsOkSimple, Bool.and_eq_true, decide_eq_true_eq] at h
  obtain ⟨⟨⟨h1, _⟩, h3⟩, h4⟩ := h
  have hg := allClean_spec _ _ _ _ h1
  have hs := allClean_spec _ _ _ _ h4
  refine ⟨h3, ?_, ?_, ?_⟩
  · intro fi f h' hf hh'
    obtain ⟨h'', hh'', hc⟩ := hg fi f hf
    rw [hh'] at hh''; cases hh''
    have := hc _ (by rw [Nat.zero_add]; rfl)
    simp only [FuncCheck.clean, Bool.and_eq_true, List.isEmpty_iff, List.append_eq_nil_iff] at this
    exact ite_nil this.1.1.1
  · intro fi f hf
    obtain ⟨h', _, hc⟩ := hs fi f hf
    have := hc _ (by rw [Nat.zero_add]; rfl)
    simp only [FuncCheck.clean, Bool.and_eq_true, List.isEmpty_iff] at this
    exact ite_nil this.1
  · intro fi f h' hf hh' b n i ⟨bl, hb, hi⟩
    obtain ⟨h'', hh'', hc⟩ := hs fi f hf
    rw [hh'] at hh''; cases hh''
    have := hc _ (by rw [Nat.zero_add]; rfl)
    simp only [FuncCheck.clean, Bool.and_eq_true] at this
    have := cleanB_spec _ _ _ this.2 b bl hb n i hi
    simpa using this

/-! ## bits of the once-tables -/

theorem testBit_tablesMask (T : List OnceTable) (k : Nat) :
    (GlobSide.tablesMask T).testBit k = true ↔ ∃ t ∈ T, 20 + t.g = k := by
  induction T with
  | nil => simp [GlobSide.tablesMask]
  | cons t ts ih =>
    simp only [GlobSide.tablesMask, Nat.testBit_or, Bool.or_eq_true, testBit_global, decide_eq_true_eq, ih,
      List.mem_cons, exists_eq_or_imp]

theorem testBit_allowedFold (fi : Nat) (k : Nat) : ∀ (T : List OnceTable) (acc : Prov),
    (T.foldl (fun acc t => if t.clo == fi then acc ||| Prov.global t.g else acc) acc).testBit k = true →
      acc.testBit k = true ∨ ∃ t ∈ T, t.clo = fi ∧ 20 + t.g = k := by
  intro T
  induction T with
  | nil => intro acc h; exact Or.inl h
  | cons t ts ih =>
    intro acc h
    simp only [List.foldl_cons] at h
    rcases ih _ h with h1 | ⟨t', ht', h2⟩
    · by_cases hc : (t.clo == fi) = true
      · rw [if_pos hc] at h1
        simp only [Nat.testBit_or, Bool.or_eq_true, testBit_global, decide_eq_true_eq] at h1
        rcases h1 with h1 | h1
        · exact Or.inl h1
        · exact Or.inr ⟨t, List.mem_cons_self, by simpa using hc, h1⟩
      · rw [if_neg hc] at h1
        exact Or.inl h1
    · exact Or.inr ⟨t', List.mem_cons_of_mem _ ht', h2⟩

/-- a function that is not the package initialiser may only write the globals of the once-tables it is the closure of -/
theorem testBit_allowed {T : List OnceTable} {fi : Nat} {f : Func} (hn : isPkgInit f = false) {k : Nat}
    (h : (allowedGlobalWrites T fi f).testBit k = true) : ∃ t ∈ T, t.clo = fi ∧ 20 + t.g = k := by
  unfold allowedGlobalWrites at h
  rw [hn] at h
  simp only [Bool.false_eq_true, if_false] at h
  rcases testBit_allowedFold fi k T 0 h with h1 | h1
  · simp at h1
  · exact h1

theorem isClosure_iff {T : List OnceTable} {fi : Nat} : GlobSide.isClosure T fi = true ↔ ∃ t ∈ T, t.clo = fi := by
  simp [GlobSide.isClosure, List.any_eq_true]

/-- what `GlobSide.sInstr` says about a `Do` call -/
theorem once_spec {c : PCtx} {T : List OnceTable} {i : Instr} {args : List Opnd}
    (h : GlobSide.sInstr c T i = []) (hop : i.op = .call (.extern Ext.onceDo) args) :
    ∃ a0 clo, args = [a0, .fn clo] ∧ GlobSide.isClosure T clo = true ∧
      Prov.subset (Prov.minus (c.lab a0).roots Prov.fresh) (GlobSide.tablesMask T) = true := by
  unfold GlobSide.sInstr at h
  rw [hop] at h
  simp only [beq_self_eq_true, if_true] at h
  split at h
  · rename_i a0 clo
    have := ite_nil h
    simp only [Bool.and_eq_true] at this
    exact ⟨a0, clo, rfl, this.1, this.2⟩
  · cases h

end EdVerif.Ssa.GS
