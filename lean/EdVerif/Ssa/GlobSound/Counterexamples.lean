import EdVerif.Ssa.GlobSpec
/-!
# Evaluated counterexamples behind the hypothesis `HeapHasGlobals` and the side conditions `GlobSide.*`

Not imported by the proof.  Check with `lake env lean EdVerif/Ssa/GlobSound/Counterexamples.lean`; the expected output of
every `#eval` is given in the comment above it.  `oldOk` is `globalsOkSimple` as it was before the side conditions were
added (the verdict of the checker `globalsSelector` alone): every program below is accepted by `provOkSimple` and by
`oldOk`, and modifies a package-level variable that is not a once-table.
-/
namespace EdVerif.Ssa.GS.CE

open EdVerif.Ssa

def oldOk (prog : Program) (hints : List FuncHints) (pol : GlobalsPolicy) : Bool :=
  allClean (globalsSelector prog hints pol) prog.funcs hints 0 && (globalsProgramIssues prog pol).isEmpty

def mkF (name : Nm) (exported : Bool) (synthetic : Nm) (parent : Option Nat) (instrs : List Instr) : Func where
  name := name
  pkg := nm! "p"
  recv := 0
  base := name
  exported := exported
  recvExported := false
  params := []
  freeVars := []
  results := []
  parent := parent
  synthetic := synthetic
  file := nm! "f.go"
  line := 1
  resultTys := []
  blocks := [{ instrs := instrs, preds := [], succs := [] }]
def mkG (name : Nm) (k : VK) (tyId : Nat) : Global := { name := name, pkg := nm! "p", isLocal := true, ty := nm! "T", k := k, tyId := tyId }
def mkH (provRegs : Nat) (writes : Prov) : FuncHints where
  secretRegs := 0
  publicParams := 0
  secretResult := false
  provRegs := provRegs
  writes := writes
  returns := []
def pol0 : GlobalsPolicy where
  onceTables := []
  onceField := 0
  forbiddenImports := []
  forbiddenTypePrefixes := []
  allowedTypes := []
  forbiddenCallPrefixes := []
  allowedCalls := []
def mkProg (funcs : List Func) (globals : List Global) (types : Array Ty) : Program where
  funcs := funcs
  globals := globals
  types := types
  imports := []
  externTypes := []
  asmInDefaultBuild := []
def heapOf (p : Program) : Heap := ((initHeap p).getD ⟨#[]⟩)
def retI (id : Nat) : Instr := { id := id, k := .none, line := 1, op := .ret [], ty := 0, opTys := [] }

/-! ### CE1: a heap without the blocks of the package-level variables (why `HeapHasGlobals` is assumed)
`F: t0 = Alloc; t1 = Alloc; return` on the empty heap: the second `Alloc` creates block 1 = the block index of global 0. -/
def ce1I (id : Nat) : Instr := { id := id, k := .ptr, line := 1, op := .alloc true (.int 64 false), ty := 2, opTys := [] }
def ce1F : Func := mkF (nm! "F") true 0 none [ce1I 0, ce1I 1, retI 2]
def ce1 : Program := mkProg [ce1F] [mkG (nm! "v") (.int 64 false) 1] #[.unsupported, .int 64 false, .ptr 1]
def ce1H : List FuncHints := [mkH (Prov.fresh ||| (Prov.fresh <<< 64)) 0]
-- (true, true, true): accepted even with the side conditions
#eval (provOkSimple ce1 ce1H, oldOk ce1 ce1H pol0, globalsOkSimple ce1 ce1H pol0)
-- none
#eval (⟨#[]⟩ : Heap).blocks[1]?
-- some (some (some #[int 0]))
#eval (callState ce1 ⟨#[]⟩ 0 []).map (fun s => ((run ce1 2 s).heap?.map (fun h => h.blocks[1]?)))

/-! ### CE2: `Once.Do` on the flag of a `sync.Once` variable that is not a once-table -/
-- types: 0 unsupported, 1 once, 2 *once
def ce2Types : Array Ty := #[.unsupported, .once, .ptr 1]
def ce2F : Func := mkF (nm! "F") true 0 none
  [{ id := 0, k := .tuple false, line := 1, op := .call (.extern Ext.onceDo) [.global 0, .fn 1], ty := 0, opTys := [2, 0] }, retI 1]
def ce2C : Func := mkF (nm! "F$1") false 0 (some 0) [retI 0]
def ce2 : Program := mkProg [ce2F, ce2C] [mkG (nm! "x") (.agg false) 1] ce2Types
def ce2H : List FuncHints := [mkH 0 0, mkH 0 0]
-- (true, true, false); then the flag cell: some #[opaque 0] before, #[opaque 1] after
#eval (provOkSimple ce2 ce2H, oldOk ce2 ce2H pol0, globalsOkSimple ce2 ce2H pol0)
#eval (heapOf ce2).blocks[1]?
#eval (callState ce2 (heapOf ce2) 0 []).map (fun s => ((run ce2 3 s).heap?.map (fun h => h.blocks[1]?)))

/-! ### CE3: `Once.Do(fresh flag, package initialiser)` -/
-- types: 0 unsupported, 1 once, 2 *once, 3 uint64, 4 *uint64
def ce3Types : Array Ty := #[.unsupported, .once, .ptr 1, .int 64 false, .ptr 3]
def ce3F : Func := mkF (nm! "F") true 0 none
  [{ id := 0, k := .ptr, line := 1, op := .alloc true (.agg false), ty := 2, opTys := [] },
   { id := 1, k := .tuple false, line := 1, op := .call (.extern Ext.onceDo) [.reg 0, .fn 1], ty := 0, opTys := [2, 0] }, retI 2]
def ce3Init : Func := mkF (nm! "init") false (nm! "package initializer") none
  [{ id := 0, k := .none, line := 1, op := .store (.int 64 false) (.global 0) (.cint (.int 64 false) 7), ty := 0, opTys := [4, 3] }, retI 1]
def ce3 : Program := mkProg [ce3F, ce3Init] [mkG (nm! "v") (.int 64 false) 3] ce3Types
def ce3H : List FuncHints := [mkH Prov.fresh 0, mkH 0 (Prov.global 0)]
-- (true, true, false); global 0: #[int 0] before, #[int 7] after
#eval (provOkSimple ce3 ce3H, oldOk ce3 ce3H pol0, globalsOkSimple ce3 ce3H pol0)
#eval (heapOf ce3).blocks[1]?
#eval (callState ce3 (heapOf ce3) 0 []).map (fun s => ((run ce3 10 s).heap?.map (fun h => h.blocks[1]?)))

/-! ### CE4: more than 44 globals — `writes &&& globalMask` does not see label bit `20 + 44` -/
def ce4Types : Array Ty := #[.unsupported, .int 64 false, .ptr 1]
def ce4F : Func := mkF (nm! "F") true 0 none
  [{ id := 0, k := .none, line := 1, op := .store (.int 64 false) (.global 44) (.cint (.int 64 false) 7), ty := 0, opTys := [2, 1] }, retI 1]
def ce4 : Program := mkProg [ce4F] (List.replicate 45 (mkG (nm! "v") (.int 64 false) 1)) ce4Types
def ce4H : List FuncHints := [mkH 0 (Prov.global 44)]
-- (true, true, false); global 44: #[int 0] before, #[int 7] after
#eval (provOkSimple ce4 ce4H, oldOk ce4 ce4H pol0, globalsOkSimple ce4 ce4H pol0)
#eval (heapOf ce4).blocks[45]?
#eval (callState ce4 (heapOf ce4) 0 []).map (fun s => ((run ce4 10 s).heap?.map (fun h => h.blocks[45]?)))

/-! ### CE5: an exported function tagged as package initialiser may write every global -/
def ce5F : Func := mkF (nm! "F") true (nm! "package initializer") none
  [{ id := 0, k := .none, line := 1, op := .store (.int 64 false) (.global 0) (.cint (.int 64 false) 7), ty := 0, opTys := [2, 1] }, retI 1]
def ce5 : Program := mkProg [ce5F] [mkG (nm! "v") (.int 64 false) 1] ce4Types
def ce5H : List FuncHints := [mkH 0 (Prov.global 0)]
-- (true, true, false); global 0: #[int 7] after
#eval (provOkSimple ce5 ce5H, oldOk ce5 ce5H pol0, globalsOkSimple ce5 ce5H pol0)
#eval (callState ce5 (heapOf ce5) 0 []).map (fun s => ((run ce5 10 s).heap?.map (fun h => h.blocks[1]?)))

/-! ### CE6: the closure of a once-table tagged as package initialiser may write every global -/
-- types: 0 unsupported, 1 once, 2 struct{once}, 3 *struct, 4 *once, 5 uint64, 6 *uint64
def ce6Types : Array Ty := #[.unsupported, .once, .struct [1], .ptr 2, .ptr 1, .int 64 false, .ptr 5]
def ce6Acc : Func := mkF (nm! "acc") true 0 none
  [{ id := 0, k := .ptr, line := 1, op := .fieldAddr (.global 0) 0 (nm! "initOnce"), ty := 4, opTys := [3] },
   { id := 1, k := .tuple false, line := 1, op := .call (.extern Ext.onceDo) [.reg 0, .fn 1], ty := 0, opTys := [4, 0] }, retI 2]
def ce6Clo : Func := mkF (nm! "acc$1") false (nm! "package initializer") (some 0)
  [{ id := 0, k := .none, line := 1, op := .store (.int 64 false) (.global 1) (.cint (.int 64 false) 7), ty := 0, opTys := [6, 5] }, retI 1]
def ce6 : Program := mkProg [ce6Acc, ce6Clo] [mkG (nm! "tab") (.agg false) 2, mkG (nm! "v") (.int 64 false) 5] ce6Types
def ce6H : List FuncHints := [mkH (Prov.global 0 ||| Prov.inexact) 0, mkH 0 (Prov.global 1)]
def pol6 : GlobalsPolicy := { pol0 with onceTables := [(nm! "tab", nm! "acc")], onceField := nm! "initOnce" }
#eval (onceTablesOf ce6 pol6).map (fun t => (t.g, t.acc, t.clo, t.doPos))
-- (true, true, false); global 1 (not the table): #[int 0] before, #[int 7] after
#eval (provOkSimple ce6 ce6H, oldOk ce6 ce6H pol6, globalsOkSimple ce6 ce6H pol6)
#eval (heapOf ce6).blocks[2]?
#eval (callState ce6 (heapOf ce6) 0 []).map (fun s => ((run ce6 10 s).heap?.map (fun h => h.blocks[2]?)))

end EdVerif.Ssa.GS.CE
