import EdVerif.Ssa.ProvSpec
import EdVerif.Ssa.Paths
/-!
# C14 — what the error-path checker is supposed to guarantee (statement only)

`errorPathsPure` (`Paths.lean`) is evaluated by the kernel on the regenerated SSA.  This file states, against
the execution semantics of `Sem.lean`, what a passing check means for the fallible setters of the policy.
Proof: `EdVerif/Ssa/ErrSound/*.lean`.

`errorPathsOkSimple` also contains decidable *side conditions* (`ErrSide.*`, reasons in
`EdVerif/Ssa/ErrSound/STATUS.md`): without them the statement is false for programs the checker accepts.
-/
namespace EdVerif.Ssa

namespace ErrSide

/-! ## side conditions on the fallible setters of the policy -/

/-- a transfer of control from block `b` to block `t` is recorded in `t`'s predecessor list (the
    checker closes `errBack` over `preds`, the semantics follows the targets of `If`/`Jump`) -/
def predOk (f : Func) (b t : Nat) : Bool :=
  match f.blocks[t]? with
  | some tb => memNat b tb.preds
  | none => true

/-- the `nil` an error return hands out is the scalar `nil` (a nil *slice* is the header `slice 0 0 0 0`) -/
def nilOk : Opnd → Bool
  | .nil k => k != .slice
  | _ => true

/-- a delegated return `return g(recv, …)`: the call, the `Extract #0` and the `Return` are in the
    same block, in this order (`i` = the `Return` at position `n` of its block; ids are positions) -/
def delOk (c : PCtx) (pol : ErrorPathPolicy) (n : Nat) (i : Instr) (v0 : Opnd) : Bool :=
  match classifyRet c pol v0 with
  | .delegated cid =>
    (match v0 with
     | .reg r => i.id - n ≤ cid && cid < r && r < i.id
     | _ => false)
  | _ => true

def sInstr (c : PCtx) (pol : ErrorPathPolicy) (b n : Nat) (i : Instr) : List Nm :=
  match c.f.blocks[b]? with
  | some bl =>
    if (!i.op.isTerminator || n + 1 == bl.instrs.length) &&
       (match i.op with
        | .if _ t e => predOk c.f b t && predOk c.f b e
        | .jump t => predOk c.f b t
        | .ret (v0 :: _) => nilOk v0 && delOk c pol n i v0
        | _ => true)
    then [] else [K.malformed]
  | none => [K.malformed]

/-- for the setters of the policy:
* the receiver is a pointer-like parameter, the first result has a positive size;
* terminators are last in their block, `If`/`Jump` targets list the block among their predecessors;
* `nilOk`, `delOk`. -/
def sideSelector (prog : Program) (hints : List FuncHints) (pol : ErrorPathPolicy) : Selector :=
  fun _ f h =>
    if pol.setters.any (· == f.name) then
      let c : PCtx := { prog := prog, hints := hints, f := f, h := h }
      some { fnKinds :=
               if paramProv f.params 0 == Prov.param 0 &&
                  (match prog.size (f.resultTys.headD 0) with | some n => 1 ≤ n | none => false)
               then [] else [K.malformed],
             instr := sInstr c pol }
    else none

/-! ## side conditions on every function: labels that claim "exactly parameter `k`"

`classifyRet` accepts `return r` as a success return when the label of `r` is exactly `param 0`.
The labelling rules only demand `label ⊇ rule`, so a label may be *larger* than the rule (and a
register that holds no address may carry any label): "the label is exactly `param k`" implies
"the value is argument `k`" only for the instructions below, with operands labelled the same. -/

def exactIdxGo (L : Prov) : Nat → Option Nat
  | 0 => none
  | k + 1 => if L == Prov.param k then some k else exactIdxGo L k

/-- `some k` iff `L = Prov.param k` with `k < 16` -/
def exactIdx (L : Prov) : Option Nat :=
  if L == 0 then none else if 65536 ≤ L then none else exactIdxGo L 16

def phiAll (c : PCtx) (L : Prov) : List (Nat × Opnd) → Bool
  | [] => true
  | e :: es => c.lab e.2 == L && phiAll c L es

def xInstr (c : PCtx) (i : Instr) : List Nm :=
  if (match i.op with
      | .ret [v] =>
        (match exactIdx (c.h.returns.headD 0) with
         | some _ => c.lab v == c.h.returns.headD 0
         | none => true)
      | _ => true) &&
     (if Side.definesValue i.op then
        let L := provOf c.h.provRegs i.id
        match exactIdx L with
        | none => true
        | some _ =>
          match i.op with
          | .changeType x => c.lab x == L
          | .phi es => phiAll c L es
          | .call (.fn g) args =>
            (match c.prog.funcs[g]?, c.hints[g]? with
             | some gf, some gh =>
               gf.resultTys.length == 1 &&
               (match exactIdx (gh.returns.headD 0) with
                | some j => (match args[j]? with | some o => c.lab o == L | none => false)
                | none => false)
             | _, _ => false)
          | _ => false
      else true)
  then [] else [K.malformed]

def exactSelector (prog : Program) (hints : List FuncHints) : Selector :=
  fun _ f h => some { fnKinds := [], instr := fun _ _ i => xInstr { prog := prog, hints := hints, f := f, h := h } i }

end ErrSide

def errorPathsOkSimple (prog : Program) (hints : List FuncHints) (pol : ErrorPathPolicy) : Bool :=
  allClean (errorPathsSelector prog hints pol) prog.funcs hints 0 &&
  allClean (ErrSide.sideSelector prog hints pol) prog.funcs hints 0 &&
  allClean (ErrSide.exactSelector prog hints) prog.funcs hints 0

/-- every block that existed in `h` and is not a package-level variable has the same content in `h'` -/
def AllUnchanged (prog : Program) (h h' : Heap) : Prop :=
  ∀ b, b < h.blocks.size → isGlobalBlock prog b = false → h'.blocks[b]? = h.blocks[b]?

/-- **C14**: a fallible setter of the policy that returns (to its caller, after any number of steps) either
    returns `nil` as its first result — and then *no* memory that existed before the call has changed: the
    receiver keeps its prior value, the input keeps its bytes — or returns exactly its receiver (its first
    argument). -/
def ErrorAtomicStatement : Prop :=
  ∀ (prog : Program) (hints : List FuncHints) (pol : ErrorPathPolicy),
    provOkSimple prog hints = true → errorPathsOkSimple prog hints pol = true →
    ∀ (fi : Nat) (f : Func), prog.funcs[fi]? = some f → pol.setters.any (· == f.name) = true →
    ∀ (heap : Heap) (args : List RVal) (s : State), ArgsOk prog f args → callState prog heap fi args = some s →
    ∀ fuel s' rets, run prog fuel s = .done s' rets →
      (∃ r0 rest, rets = r0 :: rest ∧
        ((r0 = [.nil] ∧ AllUnchanged prog heap s'.heap) ∨ (∃ a0 as, args = a0 :: as ∧ r0 = a0)))

end EdVerif.Ssa
