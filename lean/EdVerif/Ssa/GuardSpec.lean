import EdVerif.Ssa.ProvSpec
import EdVerif.Ssa.Paths
/-!
# C15 — what the guard-dominance checker is supposed to guarantee (statement only)

`guardDominates` (`Paths.lean`) is evaluated by the kernel on the regenerated SSA: in every reader of the policy,
a call of the guard function (`checkInitialized`) covering each guarded `*Point` / `[]*Point` parameter dominates
every use of that parameter.  This file states, against the execution semantics of `Sem.lean`, what that buys:
a call with an uninitialized Point in a guarded position never returns normally.
Proof: `EdVerif/Ssa/GuardSound/*.lean` (generic part) and, for the guard function of the regenerated program itself,
`EdVerif/Ssa/GuardSound/CheckInitialized.lean`.

`guardOkSimple` also contains decidable *side conditions* (`GuardSide.*`, reasons in
`EdVerif/Ssa/GuardSound/STATUS.md`): "every use is dominated by a guard call" says nothing about a function
that returns without using the parameter, about what runs before the guard, or about how the variadic
array handed to the guard was filled.
-/
namespace EdVerif.Ssa

namespace GuardSide

/-! ## side conditions on the readers of the policy

For every guarded parameter `j` of a reader there is a *site* `(B, n)`:
* the guard call `checkInitialized(p_0, …, p_j, …)` in its go/ssa form — `Alloc` of the variadic array, for
  `k = 0, 1, …` the pair `IndexAddr a k; Store _ p_k`, `Slice a[:]`, the call — contiguous, with `p_j` among the stored;
* or the guard call `checkInitialized(p_j...)` on the slice parameter itself;
* or a *delegating* call passing `p_j` to a parameter that the policy lists as guarded in the callee;
and everything that can execute before the site is *quiet*: the instructions of block `B` before position `n` and
all instructions of the blocks reachable from the entry without entering `B` (`avoiding f B`) neither store, nor
call (except `len`/`cap`), nor return; their `If`/`Jump` targets are listed successors. -/

/-- changes no existing memory, calls nothing (but `len`/`cap`), does not return -/
def quiet (i : Instr) : Bool :=
  match i.op with
  | .store _ _ _ => false
  | .ret _ => false
  | .call (.builtin b) _ => b == Ext.len || b == Ext.cap
  | .call _ _ => false
  | _ => true

def isCtl : Op → Bool
  | .if _ _ _ => true
  | .jump _ => true
  | _ => false

/-- the targets of `If`/`Jump` are listed successors of the block (`avoiding` closes over `succs`) -/
def targetsIn (succs : List Nat) : Op → Bool
  | .if _ t e => memNat t succs && memNat e succs
  | .jump t => memNat t succs
  | _ => true

def allQuiet (succs : List Nat) : List Instr → Bool
  | [] => true
  | i :: is => quiet i && targetsIn succs i.op && allQuiet succs is

def regionQuiet (A : Nat) : List Block → Nat → Bool
  | [], _ => true
  | bl :: bs, b => (!A.testBit b || allQuiet bl.succs bl.instrs) && regionQuiet A bs (b + 1)

/-- the blocks that can run before block `B` is entered (`avoiding f B`) are quiet -/
def regionOk (f : Func) (B : Nat) : Bool :=
  B == 0 || Side.forceNat (avoiding f B) fun A => regionQuiet A f.blocks 0

def isPtrTy (prog : Program) (t : Nat) : Bool :=
  match prog.tyOf t with
  | .ptr _ => true
  | _ => false

def isSliceTy (prog : Program) (t : Nat) : Bool :=
  match prog.tyOf t with
  | .slice _ => true
  | _ => false

/-- `T = *[n]E` with `n` a Go `int` and `E` a one-scalar type (the variadic array `[n]*Point`) -/
def arrTyOk (prog : Program) (T : Nat) : Bool :=
  match prog.tyOf T with
  | .ptr aty =>
    (match prog.tyOf aty with
     | .arr n e => decide (n < 2 ^ 63) && prog.size e == some 1
     | _ => false)
  | _ => false

/-- the constant index `k` is a non-negative number of the index type -/
def idxOk (prog : Program) (tIdx k : Nat) : Bool :=
  match intOfTy prog tIdx with
  | some (w, _) => decide (k < 2 ^ (w - 1))
  | none => true

/-- the fill of the variadic array `a : T` from index `k` on, then `Slice a[:]` and the guard call;
    `found`: parameter `j` was stored -/
def fillOk (prog : Program) (gi a T j : Nat) : List Instr → Nat → Bool → Bool
  | ia :: st :: rest, k, found =>
    match ia.op, st.op with
    | .indexAddr _ (.reg a') (.cint _ k'), .store _ (.reg r) (.param j') =>
      a' == a && k' == k && r == ia.id && ia.id != a && ia.opTys.headD 0 == T &&
      idxOk prog (ia.opTys.tail.headD 0) k &&
      fillOk prog gi a T j rest (k + 1) (found || j' == j)
    | .slice _ (.reg a') none none none, .call (.fn g) [.reg s] =>
      a' == a && g == gi && s == ia.id && ia.opTys.headD 0 == T && found
    | _, _ => false
  | _, _, _ => false

/-- among the arguments, parameter `j` in a position `k` that the callee guards (`cm`), of the same type -/
def delegArgs (cm : Nat) (gps : List Param) (j tyId : Nat) : List Opnd → Nat → Bool
  | [], _ => false
  | o :: as, k =>
    (match o with
     | .param j' => j' == j && cm.testBit k && (match gps[k]? with | some q => q.tyId == tyId | none => false)
     | _ => false) || delegArgs cm gps j tyId as (k + 1)

/-- a site for parameter `j` (`p` = its declaration) starts here -/
def siteStart (prog : Program) (pol : GuardPolicy) (gi j : Nat) (p : Param) : List Instr → Bool
  | [] => false
  | i :: rest =>
    match i.op with
    | .alloc _ _ => isPtrTy prog p.tyId && arrTyOk prog i.ty && fillOk prog gi i.id i.ty j rest 0 false
    | .call (.fn g) args =>
      if g == gi then
        (match args with
         | [.param j'] => j' == j && isSliceTy prog p.tyId
         | _ => false)
      else
        (match prog.funcs[g]? with
         | some gf => delegArgs (calleeGuardedMask prog pol g) gf.params j p.tyId args 0
         | none => false)
    | _ => false

/-- quiet straight-line code, then a site -/
def preSite (prog : Program) (pol : GuardPolicy) (gi j : Nat) (p : Param) : List Instr → Bool
  | [] => false
  | i :: is => siteStart prog pol gi j p (i :: is) || (quiet i && !isCtl i.op && preSite prog pol gi j p is)

def siteIn (prog : Program) (pol : GuardPolicy) (gi : Nat) (f : Func) (j : Nat) (p : Param) : List Block → Nat → Bool
  | [], _ => false
  | bl :: bs, B => (preSite prog pol gi j p bl.instrs && regionOk f B) || siteIn prog pol gi f j p bs (B + 1)

def sitesOk (prog : Program) (pol : GuardPolicy) (gi : Nat) (f : Func) (G : Nat) : List Param → Nat → Bool
  | [], _ => true
  | p :: ps, j => (!G.testBit j || siteIn prog pol gi f j p f.blocks 0) && sitesOk prog pol gi f G ps (j + 1)

def sideSelector (prog : Program) (pol : GuardPolicy) : Selector :=
  fun _ f _ =>
    match lookupGuarded f.name pol.guarded with
    | some names =>
      let gi := (prog.funcIdx? pol.guardFn).getD prog.funcs.length
      some { fnKinds := if sitesOk prog pol gi f (namesMask f.params names 0) f.params 0 then [] else [K.malformed],
             instr := fun _ _ _ => [] }
    | none => none

end GuardSide

def guardOkSimple (prog : Program) (hints : List FuncHints) (pol : GuardPolicy) : Bool :=
  allClean (guardSelector prog pol) prog.funcs hints 0 &&
  allClean (GuardSide.sideSelector prog pol) prog.funcs hints 0

/-- cell `o` of block `b` -/
def Heap.cell? (h : Heap) (b o : Nat) : Option Val := (h.blocks[b]?).bind (·[o]?)

/-- the ten limbs `x`, `y` of the `Point` at `(b, o)` are zero: Go's `Point{}` as far as `checkInitialized` looks
    (layout of `Point`: a zero-size field, then `x, y, z, t`, five `uint64` limbs each) -/
def UninitAt (h : Heap) (b o : Nat) : Prop := ∀ k, k < 10 → h.cell? b (o + k) = some (.int 0)

/-- the argument designates an uninitialized point: a pointer to one, or a slice (whose length is a Go `int`,
    i.e. below `2^63`) one of whose elements points to one -/
def ArgUninit (h : Heap) : RVal → Prop
  | [.ptr b o] => UninitAt h b o
  | [.slice b o len _] => len < 2 ^ 63 ∧ ∃ i pb po, i < len ∧ h.cell? b (o + i) = some (.ptr pb po) ∧ UninitAt h pb po
  | _ => False

/-- the argument has the form of its parameter's type: a pointer for a pointer type, a slice header for a slice
    type (`ArgsOk` does not tell them apart: both are one address scalar) -/
def ArgForm (prog : Program) (f : Func) (j : Nat) (a : RVal) : Prop :=
  ∀ p, f.params[j]? = some p →
    match prog.tyOf p.tyId with
    | .ptr _ => ∃ b o, a = [.ptr b o]
    | .slice _ => ∃ b o len cap, a = [.slice b o len cap]
    | _ => True

/-- what is assumed of the guard function `gi` (proved for the regenerated `checkInitialized` by symbolic execution of
    its loop): called with a slice of pointers one of which designates an uninitialized point, it never returns
    normally; and it never changes memory that existed before the call. -/
def GuardFnSpec (prog : Program) (gi : Nat) : Prop :=
  ∀ (heap : Heap) (a : RVal) (s : State), callState prog heap gi [a] = some s →
    (∀ fuel h', (run prog fuel s).heap? = some h' → ∀ b, b < heap.blocks.size → h'.blocks[b]? = heap.blocks[b]?) ∧
    ((∃ b o len cap, a = [.slice b o len cap] ∧ ArgUninit heap a) → ∀ fuel s' rets, run prog fuel s ≠ .done s' rets)

/-- **C15**: a reader of the policy called with an uninitialized Point in a guarded position (a `*Point` parameter,
    or any element of a `[]*Point` parameter) never returns normally, whatever the other arguments are. -/
def GuardStatement : Prop :=
  ∀ (prog : Program) (hints : List FuncHints) (pol : GuardPolicy),
    provOkSimple prog hints = true → guardOkSimple prog hints pol = true →
    ∀ gi, prog.funcIdx? pol.guardFn = some gi → GuardFnSpec prog gi →
    ∀ (fi : Nat) (f : Func) (names : List Nm), prog.funcs[fi]? = some f → lookupGuarded f.name pol.guarded = some names →
    ∀ (j : Nat), (namesMask f.params names 0).testBit j = true →
    ∀ (heap : Heap) (args : List RVal) (s : State), ArgsOk prog f args → callState prog heap fi args = some s →
      (∃ a, args[j]? = some a ∧ ArgForm prog f j a ∧ ArgUninit heap a) →
    ∀ fuel s' rets, run prog fuel s ≠ .done s' rets

end EdVerif.Ssa
