import EdVerif.Ssa.Prov
/-!
# Control-flow predicates: C14 `errorPathsPure` and C15 `guardDominates`

Both work on the block graph of one function with bit sets of block numbers.

## C14
For each fallible setter of the policy, every `Return` is classified by its first result:
* the `nil` constant — an *error return*;
* the receiver itself (label exactly `param 0`, e.g. `v` or `v.carryPropagate()`) — a success return;
* result 0 of a call `g(receiver, …)` of another fallible setter of the policy — a *delegated* return
  (`SetBytesWithClamping` → `SetUniformBytes`): nil iff `g` failed, and then `g` left the receiver alone;
* anything else is rejected (`returnShape`).
An instruction *touches the receiver* if it stores (directly, through `copy`/`PutUint64`) to, or is a
call passing, a pointer whose provenance includes parameter 0.  No receiver-touching instruction may
lie in a block from which an error return is reachable; none except the delegating call itself in a
block from which a delegated return is reachable (`errorPathWrite`, reported at the touching
instruction).  The function's write summary must not contain any parameter but the receiver
(`inputWritten`).  Uses the provenance labelling, hence `provConsistent`.

## C15
For each reader of the policy and each guarded `*Point` / `[]*Point` parameter `p`: every
instruction that uses `p` as an operand must be
* dominated by a call of `checkInitialized` that covers `p` (its variadic array was filled with `p`,
  or `p` is the slice passed as `points...`) — same block and later, or a block every path to which
  passes through the guard's block;
* or `len(p)` / `cap(p)`; or one of the stores that fill the guard's variadic array;
* or a call passing `p` to a parameter that the policy lists as guarded in the callee
  (`Bytes` → `bytes`).
Every API function with a non-receiver parameter of a point type must list it (or be exempt: `Set`).
For the multi-scalar functions the entry block must consist of `len(a)`, `len(b)`, their comparison
and the branch to a block that ends in `Panic`.
-/
namespace EdVerif.Ssa

/-! ## block graph helpers -/

def listMask : List Nat → Nat → Nat
  | [], m => m
  | b :: bs, m => listMask bs (m ||| (1 <<< b))

def succMasks : List Block → List Nat
  | [] => []
  | b :: bs => listMask b.succs 0 :: succMasks bs

def predMasks : List Block → List Nat
  | [] => []
  | b :: bs => listMask b.preds 0 :: predMasks bs

/-- blocks reachable from the set `s` (inclusive), never entering a block of `blocked` -/
def reach (masks : List Nat) (blocked s : Nat) : Nat := closeN masks blocked masks.length s

/-- blocks reachable from the entry block without passing through block `g` -/
def avoiding (f : Func) (g : Nat) : Nat :=
  if g == 0 then 0 else reach (succMasks f.blocks) (1 <<< g) 1

def instrAt (f : Func) (id : Nat) : Option Instr := f.instrs[id]?

/-! ## C14 -/

structure ErrorPathPolicy where
  setters : List Nm
deriving Repr

def labHasRecv (c : PCtx) (o : Opnd) : Bool := (c.lab o).testBit 0

/-- the instruction stores to, or is a call passing, something derived from the receiver -/
def touchesRecv (c : PCtx) (i : Instr) : Bool :=
  match i.op with
  | .store _ a _ => labHasRecv c a
  | .call callee args =>
    match callee with
    | .builtin b => if b == Ext.len || b == Ext.cap then false else anyL (labHasRecv c) args
    | _ => anyL (labHasRecv c) args
  | .unsupported _ os => anyL (labHasRecv c) os
  | _ => false

def isSetterCallOnRecv (c : PCtx) (pol : ErrorPathPolicy) (i : Instr) : Bool :=
  match i.op with
  | .call (.fn g) (.param 0 :: _) =>
    match c.prog.funcs[g]? with
    | some gf => pol.setters.any (· == gf.name)
    | none => false
  | _ => false

inductive RetClass
  | error
  | success
  /-- delegated to the call with this instruction id -/
  | delegated (call : Nat)
  | bad
deriving Repr

def classifyRet (c : PCtx) (pol : ErrorPathPolicy) (v0 : Opnd) : RetClass :=
  match v0 with
  | .nil _ => .error
  | .param 0 => .success
  | .reg r =>
    if c.lab v0 == Prov.param 0 then .success
    else
      match instrAt c.f r with
      | some i =>
        match i.op with
        | .extract (.reg cid) 0 =>
          match instrAt c.f cid with
          | some ci => if isSetterCallOnRecv c pol ci then .delegated cid else .bad
          | none => .bad
        | _ => .bad
      | none => .bad
  | _ => .bad

/-- scan the terminators: blocks with an error return, list of (block, call id) of delegated returns -/
def scanReturns (c : PCtx) (pol : ErrorPathPolicy) : List Block → Nat → Nat × List (Nat × Nat) → Nat × List (Nat × Nat)
  | [], _, acc => acc
  | b :: bs, n, acc =>
    scanReturns c pol bs (n + 1)
      (match b.instrs.getLast? with
       | some i =>
         match i.op with
         | .ret (v0 :: _) =>
           match classifyRet c pol v0 with
           | .error => (acc.1 ||| (1 <<< n), acc.2)
           | .delegated cid => (acc.1, (n, cid) :: acc.2)
           | _ => acc
         | _ => acc
       | none => acc)

def eInstr (c : PCtx) (pol : ErrorPathPolicy) (errBack : Nat) (delBack : List (Nat × Nat)) (b : Nat) (i : Instr) : List Nm :=
  (match i.op with
   | .ret (v0 :: _) =>
     match classifyRet c pol v0 with
     | .bad => [K.returnShape]
     | _ => []
   | .ret [] => [K.returnShape]
   | _ => []) ++
  (if touchesRecv c i && (errBack.testBit b || delBack.any (fun d => d.2 != i.id && d.1.testBit b))
   then [K.errorPathWrite] else [])

def errorPathsSelector (prog : Program) (hints : List FuncHints) (pol : ErrorPathPolicy) : Selector :=
  fun _ f h =>
    if pol.setters.any (· == f.name) then
      let c : PCtx := { prog := prog, hints := hints, f := f, h := h }
      let rs := scanReturns c pol f.blocks 0 (0, [])
      let pm := predMasks f.blocks
      -- blocks from which an error return / a given delegated return can be reached
      let errBack := reach pm 0 rs.1
      let delBack := rs.2.map fun d => (reach pm 0 (1 <<< d.1), d.2)
      some { fnKinds := if Prov.subset (h.writes &&& Prov.paramMask) (Prov.param 0) then [] else [K.inputWritten],
             instr := fun b _ i => eInstr c pol errBack delBack b i }
    else none

def errorPathsCheck (prog : Program) (hints : List FuncHints) (pol : ErrorPathPolicy) : Bool :=
  verdictOk prog hints (errorPathsSelector prog hints pol) [] && (missingNames prog pol.setters).isEmpty

/-- **C14** (labelling consistency included) -/
def errorPathsPure (prog : Program) (hints : List FuncHints) (pol : ErrorPathPolicy) : Bool :=
  provConsistent prog hints && errorPathsCheck prog hints pol

/-! ## C15 -/

structure GuardPolicy where
  guardFn : Nm
  apiTypes : List Nm
  /-- only API functions of this package are subject to the completeness rule -/
  pkg : Nm
  pointTypes : List Nm
  /-- `(function, guarded parameter names)` -/
  guarded : List (Nm × List Nm)
  /-- `(function, parameter)` of a point type that need no guard -/
  exempt : List (Nm × Nm)
  /-- `(function, slice a, slice b)`: `len(a) != len(b)` must panic before anything else -/
  lengthChecked : List (Nm × Nm × Nm)
deriving Repr

/-- A call of the guard: block, position, bit set of covered parameters, id of the variadic array's
    `Alloc` (if any). -/
structure GuardCall where
  block : Nat
  pos : Nat
  covers : Nat
  alloc : Option Nat
deriving Repr

/-- `addr` is `&a[const]` for the `Alloc` with id `a` -/
def isIndexAddrOf (f : Func) (a : Nat) : Opnd → Bool
  | .reg ia =>
    match instrAt f ia with
    | some i =>
      match i.op with
      | .indexAddr _ (.reg a') (.cint _ _) => a' == a
      | _ => false
    | none => false
  | _ => false

/-- parameters stored into the array allocated by instruction `a` by the first `n` instructions of
    a block (the guard's block, up to the guard call) -/
def storedParams (f : Func) (a : Nat) : List Instr → Nat → Nat → Nat
  | [], _, m => m
  | _, 0, m => m
  | i :: is, n + 1, m =>
    storedParams f a is n
      (match i.op with
       | .store _ addr (.param j) => if isIndexAddrOf f a addr then m ||| (1 <<< j) else m
       | _ => m)

def guardCallOf (f : Func) (gi : Nat) (blk : List Instr) (b n : Nat) (i : Instr) : Option GuardCall :=
  match i.op with
  | .call (.fn g) [arg] =>
    if g == gi then
      match arg with
      | .param j => some { block := b, pos := n, covers := 1 <<< j, alloc := none }
      | .reg s =>
        match instrAt f s with
        | some si =>
          match si.op with
          | .slice _ (.reg a) none none none =>
            match instrAt f a with
            | some ai =>
              match ai.op with
              | .alloc _ _ => some { block := b, pos := n, covers := storedParams f a blk n 0, alloc := some a }
              | _ => none
            | none => none
          | _ => none
        | none => none
      | _ => none
    else none
  | _ => none

def guardCallsI (f : Func) (gi : Nat) (blk : List Instr) (b : Nat) : List Instr → Nat → List GuardCall
  | [], _ => []
  | i :: is, n => (guardCallOf f gi blk b n i).toList ++ guardCallsI f gi blk b is (n + 1)

def guardCallsB (f : Func) (gi : Nat) : List Block → Nat → List GuardCall
  | [], _ => []
  | bl :: bs, b => guardCallsI f gi bl.instrs b bl.instrs 0 ++ guardCallsB f gi bs (b + 1)

def paramIdx? (name : Nm) : List Param → Nat → Option Nat
  | [], _ => none
  | p :: ps, i => if p.name == name then some i else paramIdx? name ps (i + 1)

def namesMask (ps : List Param) : List Nm → Nat → Nat
  | [], m => m
  | n :: ns, m => namesMask ps ns (match paramIdx? n ps 0 with | some i => m ||| (1 <<< i) | none => m)

def lookupGuarded (fn : Nm) : List (Nm × List Nm) → Option (List Nm)
  | [] => none
  | e :: es => if e.1 == fn then some e.2 else lookupGuarded fn es

/-- bit set of the parameters of function number `g` that the policy lists as guarded -/
def calleeGuardedMask (prog : Program) (pol : GuardPolicy) (g : Nat) : Nat :=
  match prog.funcs[g]? with
  | some gf =>
    match lookupGuarded gf.name pol.guarded with
    | some names => namesMask gf.params names 0
    | none => 0
  | none => 0

/-- among `args`, positions holding a guarded parameter of the caller that the callee does not guard -/
def argsUnguarded (G : Nat) (calleeMask : Nat) : List Opnd → Nat → Nat → Nat
  | [], _, m => m
  | .param j :: as, k, m => argsUnguarded G calleeMask as (k + 1) (if G.testBit j && !calleeMask.testBit k then m ||| (1 <<< j) else m)
  | _ :: as, k, m => argsUnguarded G calleeMask as (k + 1) m

def opndParams (G : Nat) : List Opnd → Nat → Nat
  | [], m => m
  | .param j :: os, m => opndParams G os (if G.testBit j then m ||| (1 <<< j) else m)
  | _ :: os, m => opndParams G os m

/-- guarded parameters used by the instruction in a way that needs a dominating guard -/
def needsGuard (prog : Program) (pol : GuardPolicy) (f : Func) (G : Nat) (gcs : List GuardCall) (i : Instr) : Nat :=
  match i.op with
  | .call (.builtin b) args => if b == Ext.len || b == Ext.cap then 0 else opndParams G args 0
  | .call (.fn g) args => argsUnguarded G (calleeGuardedMask prog pol g) args 0 0
  | .store _ addr (.param j) =>
    if gcs.any (fun gc => match gc.alloc with | some a => isIndexAddrOf f a addr | none => false) then opndParams G [addr] 0
    else opndParams G [addr, .param j] 0
  | op => opndParams G op.operands 0

/-- parameters (of `need`) not covered by a guard call dominating position `(b, n)` -/
def uncovered (gcs : List GuardCall) (avoids : List Nat) (b n : Nat) (need : Nat) : Nat :=
  let rec go : List GuardCall → List Nat → Nat → Nat
    | gc :: gs, av :: avs, need =>
      let dominated := if b == gc.block then gc.pos ≤ n else !av.testBit b
      go gs avs (if dominated then need - (need &&& gc.covers) else need)
    | _, _, need => need
  go gcs avoids need

def dInstr (prog : Program) (pol : GuardPolicy) (f : Func) (G : Nat) (gcs : List GuardCall) (avoids : List Nat)
    (b n : Nat) (i : Instr) : List Nm :=
  let need := needsGuard prog pol f G gcs i
  if need == 0 then [] else if uncovered gcs avoids b n need == 0 then [] else [K.unguardedUse]

def missingParamKinds (ps : List Param) : List Nm → List Nm
  | [] => []
  | n :: ns => (if (paramIdx? n ps 0).isSome then [] else [K.noSuchParam]) ++ missingParamKinds ps ns

/-- API functions of the package: every non-receiver parameter of a point type is guarded or exempt -/
def unguardedParamKinds (pol : GuardPolicy) (f : Func) (names : List Nm) : List Param → Nat → List Nm
  | [], _ => []
  | p :: ps, i =>
    (if (i != 0 || f.recv == 0) && pol.pointTypes.any (· == p.ty) && !names.any (· == p.name)
        && !pol.exempt.any (fun e => e.1 == f.name && e.2 == p.name) then [K.unguardedParam] else []) ++
    unguardedParamKinds pol f names ps (i + 1)

def isLenOfParam (i : Instr) (j : Nat) : Bool :=
  match i.op with
  | .call (.builtin b) [.param j'] => b == Ext.len && j' == j
  | _ => false

def endsInPanic (f : Func) (b : Nat) : Bool :=
  match f.blocks[b]? with
  | some bl =>
    match bl.instrs.getLast? with
    | some i => match i.op with | .panic _ => true | _ => false
    | none => false
  | none => false

/-- entry block = `len(a)`, `len(b)`, compare, branch to a panicking block -/
def lengthCheckOk (f : Func) (ia ib : Nat) : Bool :=
  match f.blocks.head? with
  | some b0 =>
    match b0.instrs with
    | [i0, i1, i2, i3] =>
      ((isLenOfParam i0 ia && isLenOfParam i1 ib) || (isLenOfParam i0 ib && isLenOfParam i1 ia)) &&
      (match i2.op, i3.op with
       | .binop op _ (.reg x) (.reg y), .if (.reg cnd) t e =>
         ((x == i0.id && y == i1.id) || (x == i1.id && y == i0.id)) && cnd == i2.id &&
         (match op with
          | .ne => endsInPanic f t
          | .eq => endsInPanic f e
          | _ => false)
       | _, _ => false)
    | _ => false
  | none => false

def lengthKinds (pol : GuardPolicy) (f : Func) : List (Nm × Nm × Nm) → List Nm
  | [] => []
  | e :: es =>
    (if e.1 == f.name then
      match paramIdx? e.2.1 f.params 0, paramIdx? e.2.2 f.params 0 with
      | some ia, some ib => if lengthCheckOk f ia ib then [] else [K.lengthCheck]
      | _, _ => [K.noSuchParam]
     else []) ++ lengthKinds pol f es

def avoidsOf (f : Func) : List GuardCall → List Nat
  | [] => []
  | gc :: gs => avoiding f gc.block :: avoidsOf f gs

def guardSelector (prog : Program) (pol : GuardPolicy) : Selector :=
  fun _ f _ =>
    let listed := lookupGuarded f.name pol.guarded
    let api := isApi pol.apiTypes f && f.pkg == pol.pkg
    if listed.isSome || api then
      let names := listed.getD []
      let G := namesMask f.params names 0
      let gi := (prog.funcIdx? pol.guardFn).getD prog.funcs.length
      let gcs := guardCallsB f gi f.blocks 0
      let avoids := avoidsOf f gcs
      some { fnKinds := missingParamKinds f.params names ++
                        (if api then unguardedParamKinds pol f names f.params 0 else []) ++
                        lengthKinds pol f pol.lengthChecked,
             instr := fun b n i => if G == 0 then [] else dInstr prog pol f G gcs avoids b n i }
    else none

/-- **C15**; every function the policy names must exist -/
def guardDominates (prog : Program) (hints : List FuncHints) (pol : GuardPolicy) : Bool :=
  verdictOk prog hints (guardSelector prog pol) [] &&
  (missingNames prog (pol.guardFn :: (pol.guarded.map (·.1) ++ pol.lengthChecked.map (·.1)))).isEmpty

end EdVerif.Ssa
