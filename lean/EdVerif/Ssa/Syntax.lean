/-!
# MiniSSA syntax (the Lean side of translator T2)

Data types into which `tools/go2lean ssa` prints the `golang.org/x/tools/go/ssa` form of the two
packages of `/repo` (build tag `purego`).  Core Lean only (no Mathlib): this file is imported both by
the kernel-checked structural theorems (`EdVerif/Props/Structural.lean`) and by the compiled
diagnostic tool (`SsaDiag.lean`).

The printer is dumb: functions, blocks, instructions 1:1 with go/ssa, operand references, the *kind*
of every value, call targets, successor lists and source lines.  Nothing here has a meaning yet; the
checkers in `EdVerif/Ssa/*.lean` define which shapes are acceptable.

## Names are natural numbers

Kernel reduction of `String` equality costs tens of milliseconds per comparison in Lean 4.33, which
would make `decide +kernel` over ~120 functions × policy tables take minutes.  Names (functions,
globals, fields, types, parameters, externals) are therefore the big-endian base-256 number of their
UTF-8 bytes (`"AB" ↦ 0x4142`), compared with GMP-accelerated `Nat` equality.  `nm! "…"` is the literal
notation (a macro producing the numeral), `Nm.toString` decodes for diagnostics.
-/
namespace EdVerif.Ssa

/-- A name: the big-endian base-256 value of its UTF-8 bytes; `0` is the empty name. -/
abbrev Nm := Nat

namespace Nm

def ofString (s : String) : Nm := s.toUTF8.foldl (fun n b => n * 256 + b.toNat) 0

/-- number of bytes -/
def len (n : Nm) : Nat := if n = 0 then 0 else Nat.log2 n / 8 + 1

private def bytesAux : Nat → Nat → List UInt8 → List UInt8
  | 0, _, acc => acc
  | fuel + 1, n, acc => if n = 0 then acc else bytesAux fuel (n / 256) (UInt8.ofNat (n % 256) :: acc)

/-- decode (diagnostics only; never evaluated by the kernel) -/
def toString (n : Nm) : String :=
  let bs := bytesAux (len n + 1) n []
  match String.fromUTF8? (ByteArray.mk bs.toArray) with
  | some s => s
  | none => s!"<name {n}>"

/-- `pre` is a prefix of `n` (as byte strings) -/
def isPrefix (pre n : Nm) : Bool :=
  let lp := len pre
  let ln := len n
  lp ≤ ln && n >>> (8 * (ln - lp)) == pre

/-- `suf` is a suffix of `n` (as byte strings) -/
def isSuffix (suf n : Nm) : Bool :=
  let ls := len suf
  ls ≤ len n && n % 2 ^ (8 * ls) == suf

private def containsAux (pat lp n : Nat) : Nat → Bool
  | 0 => false
  | k + 1 => (n >>> (8 * k)) % 2 ^ (8 * lp) == pat || containsAux pat lp n k

/-- `pat` occurs in `n` (as byte strings) -/
def contains (n pat : Nm) : Bool :=
  let lp := len pat
  let ln := len n
  lp ≤ ln && containsAux pat lp n (ln - lp + 1)

end Nm

/-- `nm! "text"` — the numeral encoding `text` -/
macro "nm!" s:str : term =>
  pure (Lean.Syntax.mkNumLit (toString (Nm.ofString s.getString)))

/-- Kind of a value (a flattening of its static Go type). -/
inductive VK
  | int (bits : Nat) (signed : Bool)
  | bool
  | ptr
  | slice
  /-- struct or array; `hasPtr` = some component is pointer-like (arrays of length 0 have none) -/
  | agg (hasPtr : Bool)
  | func
  /-- result of a call (0, 2 or more results) -/
  | tuple (hasPtr : Bool)
  | iface
  | str
  | chan
  | map
  | uintptr
  | rawPtr
  | float
  /-- instructions that define no value (`Store`, `If`, `Jump`, `Return`, `Panic`, …) -/
  | none
deriving DecidableEq, Repr, Inhabited

abbrev u64 : VK := .int 64 false
abbrev i64 : VK := .int 64 true
abbrev u32 : VK := .int 32 false
abbrev i32 : VK := .int 32 true
abbrev u16 : VK := .int 16 false
abbrev i16 : VK := .int 16 true
abbrev u8 : VK := .int 8 false
abbrev i8 : VK := .int 8 true

/-- values that carry an address (or may contain one) -/
def VK.pointerish : VK → Bool
  | .ptr | .slice | .func | .iface | .chan | .map | .rawPtr | .uintptr => true
  | .agg h | .tuple h => h
  | _ => false

/-- values whose run-time content is an address / header only (public by definition in C03) -/
def VK.addressLike : VK → Bool
  | .ptr | .slice | .func | .iface | .chan | .map | .rawPtr => true
  | _ => false

/-- Layout of a Go type (for the execution semantics, `EdVerif/Ssa/Sem.lean`): types are entries of
    `Program.types`, referred to by index; component types have smaller indices; index `0` is
    `unsupported` ("no type").  A `struct` entry also stands for the tuple of results of a call. -/
inductive Ty
  | int (bits : Nat) (signed : Bool)
  | bool
  | ptr (elem : Nat)
  | slice (elem : Nat)
  | func
  | iface
  | str
  /-- `sync.Once` -/
  | once
  | arr (n : Nat) (elem : Nat)
  | struct (fields : List Nat)
  | unsupported
deriving DecidableEq, Repr, Inhabited

/-- Operand of an instruction. -/
inductive Opnd
  /-- the value defined by instruction `id` of the same function -/
  | reg (id : Nat)
  | param (i : Nat)
  | freeVar (i : Nat)
  /-- integer constant, two's complement in `k`'s width -/
  | cint (k : VK) (v : Nat)
  | cbool (b : Bool)
  | cstr (s : String)
  /-- `nil` pointer / slice / func / interface / map / chan -/
  | nil (k : VK)
  /-- zero value of an aggregate -/
  | zero (k : VK)
  /-- float / complex constant (never occurs in the two packages) -/
  | cother
  /-- address of package-level variable `prog.globals[g]` -/
  | global (g : Nat)
  /-- function `prog.funcs[f]` as a value -/
  | fn (f : Nat)
  /-- function without a body in the printed program (other packages) -/
  | extern (name : Nm)
  | builtin (name : Nm)
deriving Repr, Inhabited

inductive BinOp
  | add | sub | mul | quo | rem | and | or | xor | shl | shr | andnot
  | eq | ne | lt | le | gt | ge
deriving DecidableEq, Repr, Inhabited

inductive UnOp
  /-- `^x` -/ | not
  /-- `-x` -/ | neg
  /-- `!x` -/ | lnot
deriving DecidableEq, Repr, Inhabited

/-- Call target (go/ssa `CallCommon`). -/
inductive Callee
  /-- static call of `prog.funcs[f]` -/
  | fn (f : Nat)
  /-- static call of a function outside the printed program -/
  | extern (name : Nm)
  | builtin (name : Nm)
  /-- call of a function value -/
  | dynamic (v : Opnd)
  /-- interface method call -/
  | invoke (v : Opnd) (method : Nm)
deriving Repr, Inhabited

/-- Instruction payloads, 1:1 with `go/ssa`. -/
inductive Op
  | alloc (heap : Bool) (elem : VK)
  | binop (op : BinOp) (xk : VK) (x y : Opnd)
  | unop (op : UnOp) (x : Opnd)
  /-- `UnOp{Op: MUL}` -/
  | load (x : Opnd)
  | call (callee : Callee) (args : List Opnd)
  | changeType (x : Opnd)
  | convert (fromK : VK) (x : Opnd)
  | sliceToArrayPointer (x : Opnd)
  | extract (x : Opnd) (index : Nat)
  | fieldAddr (x : Opnd) (field : Nat) (fname : Nm)
  | field (x : Opnd) (field : Nat) (fname : Nm)
  /-- `xk` is `.ptr` (pointer to array) or `.slice` -/
  | indexAddr (xk : VK) (x i : Opnd)
  | index (x i : Opnd)
  | lookup (x i : Opnd)
  | slice (xk : VK) (x : Opnd) (lo hi max : Option Opnd)
  | makeSlice (len cap : Opnd)
  | makeClosure (fn : Opnd) (bindings : List Opnd)
  | makeInterface (x : Opnd)
  /-- edges in the order of the block's `preds` -/
  | phi (edges : List (Nat × Opnd))
  | store (valK : VK) (addr val : Opnd)
  | «if» (cond : Opnd) (t f : Nat)
  | jump (b : Nat)
  | ret (vals : List Opnd)
  | panic (x : Opnd)
  /-- every other go/ssa instruction (`Go`, `Defer`, `RunDefers`, `Send`, `Select`, `MakeChan`,
      `MakeMap`, `MapUpdate`, `Next`, `Range`, `TypeAssert`, `ChangeInterface`, `MultiConvert`,
      `UnOp{ARROW}`): printed by go/ssa type name; rejected by every checker -/
  | unsupported (what : Nm) (operands : List Opnd)
deriving Repr, Inhabited

structure Instr where
  /-- sequence number within the function; `.reg id` refers to this instruction's value -/
  id : Nat
  /-- kind of the defined value (`.none` if the instruction is not a value) -/
  k : VK
  /-- source line (of this instruction, else of the nearest preceding one that has a position) -/
  line : Nat
  op : Op
  /-- type of the defined value (index into `Program.types`; `0` if the instruction is not a value) -/
  ty : Nat
  /-- types of the operands, in the order of `Op.operands` -/
  opTys : List Nat
deriving Repr, Inhabited

structure Block where
  instrs : List Instr
  preds : List Nat
  succs : List Nat
deriving Repr, Inhabited

structure Param where
  name : Nm
  /-- Go type, printed relative to the package (`*Point`, `[]*Point`, `*field.Element`, `int`) -/
  ty : Nm
  k : VK
  /-- index into `Program.types` -/
  tyId : Nat
deriving Repr, Inhabited

structure Func where
  /-- `(*Point).Add`, `(*field.Element).Add`, `field.feMul`, `basepointTable$1`, `init`, `field.init` -/
  name : Nm
  /-- `edwards25519` or `field` -/
  pkg : Nm
  /-- receiver's named type without `*` and package (`Point`, `Element`), `0` for plain functions -/
  recv : Nm
  /-- method / function identifier (`Add`, `feMul`, `basepointTable$1`) -/
  base : Nm
  /-- identifier is exported (and this is a source-level function or method, not a closure) -/
  exported : Bool
  /-- receiver type identifier is exported (`false` for plain functions) -/
  recvExported : Bool
  params : List Param
  freeVars : List Param
  results : List VK
  /-- enclosing function, for anonymous functions -/
  parent : Option Nat
  /-- go/ssa `Synthetic` tag (`package initializer`, `wrapper for …`), `0` for source functions -/
  synthetic : Nm
  file : Nm
  line : Nat
  /-- types of the results (indices into `Program.types`) -/
  resultTys : List Nat
  blocks : List Block
deriving Repr, Inhabited

structure Global where
  name : Nm
  /-- package path relative to the module (`edwards25519`, `field`, or e.g. `encoding/binary`) -/
  pkg : Nm
  /-- in one of the two printed packages -/
  isLocal : Bool
  ty : Nm
  /-- kind of the variable's content -/
  k : VK
  /-- type of the variable's content (index into `Program.types`) -/
  tyId : Nat
deriving Repr, Inhabited

structure Program where
  funcs : List Func
  globals : List Global
  /-- layouts of the Go types that occur (see `Ty`) -/
  types : Array Ty
  /-- import paths of the non-test files of the two packages -/
  imports : List Nm
  /-- named types of other packages that occur in the two packages -/
  externTypes : List Nm
  /-- functions of the two packages that have no Go body in the default build configuration
      (assembly; they have a body here because the program is printed with tag `purego`) -/
  asmInDefaultBuild : List Nm
deriving Repr, Inhabited

/-! ## Inferred annotations (untrusted; produced by the translator, *checked* by the checkers)

Per-register labels are packed into naturals so that the kernel reads them with shifts. -/

/-- Provenance label of a value: a set of roots, as a bit set.
* bit `i < 16`: derived from pointer parameter `i`
* bit 16 `fresh`: derived from an `Alloc`/`MakeSlice` (or a fresh result of a callee) of this call
* bit 17 `loaded`: a pointer read out of memory (origin unknown), or a free variable
* bit 18 `inexact`: went through address arithmetic (`FieldAddr`, `IndexAddr`, `Slice`, conversions),
  i.e. is *derived from* its roots rather than *equal to* one of them
* bit 19 `maybeNil`: may be the `nil` constant
* bit `20 + g`: derived from the address of global `g` -/
abbrev Prov := Nat

namespace Prov
def stride : Nat := 64
def param (i : Nat) : Prov := 1 <<< i
def paramMask : Prov := 0xffff
def fresh : Prov := 1 <<< 16
def loaded : Prov := 1 <<< 17
def inexact : Prov := 1 <<< 18
def maybeNil : Prov := 1 <<< 19
def global (g : Nat) : Prov := 1 <<< (20 + g)
/-- all global bits (of a 64-bit label) -/
def globalMask : Prov := (2 ^ 64 - 1) - (2 ^ 20 - 1)
def flagsMask : Prov := inexact ||| maybeNil
@[inline] def subset (a b : Prov) : Bool := a &&& b == a
@[inline] def has (a bit : Prov) : Bool := a &&& bit != 0
/-- remove the bits of `b` from `a` -/
@[inline] def minus (a b : Prov) : Prov := a - (a &&& b)
end Prov

structure FuncHints where
  /-- C03: bit `id` set = the value of instruction `id` is labelled `H` (secret) -/
  secretRegs : Nat
  /-- C03: bit `i` set = parameter `i` is labelled `L` (public) although it is not address-like -/
  publicParams : Nat
  /-- C03: the (non-address) results are `H` -/
  secretResult : Bool
  /-- provenance: label of instruction `id` at bits `[64·id, 64·id+64)` -/
  provRegs : Nat
  /-- provenance summary: roots this function (and its callees) may store through -/
  writes : Prov
  /-- provenance summary: per result, roots of the returned value (`0` for results that are not
      pointer-like) -/
  returns : List Prov
deriving Repr, Inhabited

/-! ## Small utilities shared by the checkers -/

def Program.func? (p : Program) (i : Nat) : Option Func := p.funcs[i]?
def Program.global? (p : Program) (i : Nat) : Option Global := p.globals[i]?

def Func.instrs (f : Func) : List Instr := f.blocks.flatMap (·.instrs)

/-- position in `xs` of the first element satisfying `p` -/
def findIdx? {α} (p : α → Bool) : List α → Nat → Option Nat
  | [], _ => none
  | x :: xs, i => if p x then some i else findIdx? p xs (i + 1)

def Program.funcIdx? (p : Program) (name : Nm) : Option Nat := findIdx? (fun f => f.name == name) p.funcs 0
def Program.globalIdx? (p : Program) (name : Nm) : Option Nat := findIdx? (fun g => g.name == name && g.isLocal) p.globals 0

/-- operands of an instruction, in go/ssa `Operands` order (callee value first for dynamic calls) -/
def Op.operands : Op → List Opnd
  | .alloc _ _ => []
  | .binop _ _ x y => [x, y]
  | .unop _ x => [x]
  | .load x => [x]
  | .call c args =>
    match c with
    | .dynamic v => v :: args
    | .invoke v _ => v :: args
    | _ => args
  | .changeType x => [x]
  | .convert _ x => [x]
  | .sliceToArrayPointer x => [x]
  | .extract x _ => [x]
  | .fieldAddr x _ _ => [x]
  | .field x _ _ => [x]
  | .indexAddr _ x i => [x, i]
  | .index x i => [x, i]
  | .lookup x i => [x, i]
  | .slice _ x lo hi max => x :: (lo.toList ++ hi.toList ++ max.toList)
  | .makeSlice l c => [l, c]
  | .makeClosure f bs => f :: bs
  | .makeInterface x => [x]
  | .phi es => es.map (·.2)
  | .store _ a v => [a, v]
  | .if c _ _ => [c]
  | .jump _ => []
  | .ret vs => vs
  | .panic x => [x]
  | .unsupported _ os => os

/-- A place in the program, for diagnostics. -/
structure Site where
  /-- function name -/
  fn : Nm
  block : Nat
  /-- index of the instruction within its block -/
  idx : Nat
  /-- what is wrong (a short tag, e.g. `branch`, `index`, `storeForeign`) -/
  kind : Nm
  file : Nm
  line : Nat
  /-- the site is the function as a whole (`block`/`idx` are meaningless) -/
  fnLevel : Bool := false
deriving Repr, Inhabited

def Site.render (s : Site) : String :=
  let place := if s.fnLevel then "function" else s!"block {s.block} instr {s.idx}"
  s!"{Nm.toString s.fn} | {place} | {Nm.toString s.kind} | {Nm.toString s.file}:{s.line}"

end EdVerif.Ssa
