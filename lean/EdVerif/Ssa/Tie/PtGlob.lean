import EdVerif.Ssa.Tie.PtShape
import EdVerif.Ssa.Tie.Negate
/-!
# Package-level variables holding a pointer to an element (`d`, `d2`, `feOne`, `field.feZero`, …)

Global `g` is heap block `g + 1`, one cell holding `.ptr b 0`; `b` is a 5-cell block allocated by `init`.
-/
namespace EdVerif.Ssa.Tie
open EdVerif.Ssa EdVerif.Gen.Ssa EdVerif.Prims EdVerif.Impl
set_option maxRecDepth 100000
set_option linter.unusedVariables false

/-- no entry lies in block `g` -/
def NoBlk (g : Nat) : List Ent → Prop
  | [] => True
  | e :: r => e.1 ≠ g ∧ NoBlk g r

theorem NoBlk_nil (g : Nat) : NoBlk g [] = True := by rw [NoBlk]
theorem NoBlk_cons (g b o : Nat) (W : List Val) (r : List Ent) : NoBlk g ((b, o, W) :: r) = (b ≠ g ∧ NoBlk g r) := by rw [NoBlk]

theorem get_baseE_noblk (h0 : Heap) (g : Nat) : ∀ ovr, NoBlk g ovr → (baseE h0 ovr).blocks[g]? = h0.blocks[g]?
  | [], _ => rfl
  | e :: r, h => by
    simp only [baseE]
    rw [get_ovE_other _ _ _ _ _ (Ne.symm h.1), get_baseE_noblk h0 g r h.2]

theorem lt_of_read {h : Heap} {g o n : Nat} {x : List Val} (hr : h.read g o n = some x) : g < h.blocks.size := by
  simp only [Heap.read] at hr
  cases hb : h.blocks[g]? with
  | none => simp [hb] at hr
  | some V => exact lt_of_get hb

theorem read_mkE_base {h0 : Heap} {g o n : Nat} {x : List Val} (hr : h0.read g o n = some x) (ovr : List Ent) (ext : List (Array Val))
    (hn : NoBlk g ovr) : (mkE h0 ovr ext).read g o n = some x := by
  rw [← hr]
  simp only [Heap.read, mkE]
  rw [Array.getElem?_append_left (by simpa using lt_of_read hr), get_baseE_noblk h0 g ovr hn]

/-- the block the pointer variable in block `g` points to -/
def gptr (H : Heap) (g : Nat) : Nat :=
  match H.read g 0 1 with
  | some [.ptr b _] => b
  | _ => 0

/-- block `g` holds a pointer variable pointing to the start of a block -/
def IsGlob (H : Heap) (g : Nat) : Prop := H.read g 0 1 = some [.ptr (gptr H g) 0]

theorem isGlob_of_read {H : Heap} {g b : Nat} (h : H.read g 0 1 = some [.ptr b 0]) : IsGlob H g ∧ gptr H g = b := by
  simp only [IsGlob, gptr, h, and_self]

theorem gptr_mkE {h0 : Heap} {g b : Nat} (hr : h0.read g 0 1 = some [.ptr b 0]) (ovr : List Ent) (ext : List (Array Val))
    (hn : NoBlk g ovr) : gptr (mkE h0 ovr ext) g = b :=
  (isGlob_of_read (read_mkE_base hr ovr ext hn)).2

theorem isGlob_mkE {h0 : Heap} {g b : Nat} (hr : h0.read g 0 1 = some [.ptr b 0]) (ovr : List Ent) (ext : List (Array Val))
    (hn : NoBlk g ovr) : IsGlob (mkE h0 ovr ext) g = True :=
  eq_true (isGlob_of_read (read_mkE_base hr ovr ext hn)).1

theorem read_of_get1 {h : Heap} {g : Nat} {x : Val} (hb : h.blocks[g]? = some #[x]) : h.read g 0 1 = some [x] := by
  simp [Heap.read, hb, readCells]

theorem ne_of_size {h : Heap} {b1 b2 : Nat} {V1 V2 : Array Val} (h1 : h.blocks[b1]? = some V1) (h2 : h.blocks[b2]? = some V2)
    (hne : V1.size ≠ V2.size) : b1 ≠ b2 := by
  intro e; subst e; rw [h1] at h2; exact hne (by rw [Option.some.inj h2])

theorem ne_of_size' {h : Heap} {b1 b2 : Nat} {V1 V2 : Array Val} (h1 : h.blocks[b1]? = some V1) (h2 : h.blocks[b2]? = some V2)
    {n1 n2 : Nat} (s1 : V1.size = n1) (s2 : V2.size = n2) (hne : n1 ≠ n2) : b1 ≠ b2 :=
  ne_of_size h1 h2 (by rw [s1, s2]; exact hne)

theorem restates_cons_val {H : Heap} {b o : Nat} {x : Fe} {r : List Ent} (h : OkE H b o) (hx : getE H b o = x) (hr : Restates H r) :
    Restates H ((b, o, feL x) :: r) := by
  rw [← hx]; exact restates_cons h hr

theorem restates_feCells {h : Heap} {b : Nat} {x : Fe} {r : List Ent} (hb : h.blocks[b]? = some (feCells x)) (hr : Restates h r) :
    Restates h ((b, 0, feL x) :: r) :=
  restates_one hb (lt5_cases rfl rfl rfl rfl rfl) hr

theorem feCells_size (x : Fe) : (feCells x).size = 5 := rfl

set_option maxHeartbeats 4000000 in
/-- `v.Negate(a)` called from any frame on an arbitrary heap (`feZero` is global 12 = block 13) -/
theorem callA_Negate (H : Heap) (bv ov ba oa : Nat) (hg : IsGlob H 13)
    (hkv : OkE H bv ov) (hka : OkE H ba oa) (hkz : OkE H (gptr H 13) 0)
    (hc_vz : Compat bv ov (gptr H 13) 0) (hc_va : Compat bv ov ba oa) (hc_za : Compat (gptr H 13) 0 ba oa)
    (d : Nat) (cfi : Nat) (cf : Func) (cregs cparams : Array RVal) (cblk : Nat) (crest : List Instr) (cdest : Option Nat) (frs : List Frame) :
    steps prog 94 ⟨H, ⟨70, f70, #[], #[[.ptr bv ov], [.ptr ba oa]], 0, body70, some d⟩ :: ⟨cfi, cf, cregs, cparams, cblk, crest, cdest⟩ :: frs⟩
      = some ⟨setE bv ov (EdVerif.Gen.Field.Subtract (getE H bv ov) (getE H (gptr H 13) 0) (getE H ba oa)) H,
          ⟨cfi, cf, regSet cregs d [.ptr bv ov], cparams, cblk, crest, cdest⟩ :: frs⟩ := by
  have hg' : H.read 13 0 1 = some [.ptr (gptr H 13) 0] := hg
  simp only [body70]
  ssa_execE [resultTys_70, funcs_79, mkFrame_79, ↓stepsA_Subtract, hg', hkv, hka, hkz, hc_vz, hc_va, hc_za]

derive_rules callA_Negate runA_Negate stepsA_Negate

/-- T5's `field_Element_Negate` = T1's `Negate` with the dummy receiver -/
theorem Negate_val (v a : Fe) : EdVerif.Gen.Field.Subtract v EdVerif.Gen.Field.feZero a = Fe.sub Fe.zero a := by
  rw [Fe.sub, Fe.zero]; rfl

end EdVerif.Ssa.Tie
