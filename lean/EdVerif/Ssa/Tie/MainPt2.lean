import EdVerif.Ssa.Tie.FeReduceE
import EdVerif.Ssa.Tie.FeBytesRules
import EdVerif.Ssa.Tie.FeBytesModel
import EdVerif.Ssa.Tie.FeBytes
import EdVerif.Ssa.Tie.FeEqual
import EdVerif.Ssa.Tie.PtEqual
import EdVerif.Ssa.Tie.PtOnCurve
import EdVerif.Ssa.Tie.PtSEC
import EdVerif.Ssa.Tie.FeAbsolute
import EdVerif.Ssa.Tie.FeInvert
import EdVerif.Ssa.Tie.FeInvertA
import EdVerif.Ssa.Tie.FeInvertB
/-!
# `tie_*` theorems, round 4: the byte layer of `field.Element` (`Bytes`/`bytes`, `IsNegative`, `Equal`, `Absolute`), `Invert`,
`(*Point).Equal`, `isOnCurve`, `(*Point).SetExtendedCoordinates`

See `STATUS.md` (last section).  Every theorem below depends on `[propext, Classical.choice, Quot.sound]` only.
-/
open EdVerif.Ssa.Tie

#print axioms callA_reduce
#print axioms bytes_eq
#print axioms ctCompare_list
#print axioms cmp_bytesV
#print axioms callE_Bytes
#print axioms callA_Bytes
#print axioms tie_Bytes
#print axioms callA_IsNegative
#print axioms tie_IsNegative
#print axioms callA_Equal
#print axioms tie_Equal
#print axioms tie_Point_Equal
#print axioms tie_Point_Equal__al00
#print axioms tie_isOnCurve
#print axioms tie_Point_SetExtendedCoordinates
#print axioms tie_Absolute
#print axioms tie_Absolute__al00
#print axioms preE_Invert
#print axioms callA_Invert
#print axioms tie_Invert
