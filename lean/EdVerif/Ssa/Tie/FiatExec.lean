import EdVerif.Ssa.Tie.Wide
import EdVerif.Gen.FiatKernels
/-!
# Stepper rules for the fiat scalar kernels (`EdVerif/Gen/FiatKernels.lean`)

New with respect to the field kernels: `ChangeType` (identity), `IndexAddr` into `*[4]uint64` / `*[32]byte`,
`math/bits.Sub64`, allocation of `uint64` / `[4]uint64` / `[32]byte` locals, `uint8` cells, the one-field struct `Scalar`.
The externals are stated directly in the vocabulary of `Prims.lean` (`Bits.Add64`, `Bits.Sub64`, `Bits.Mul64`).

`Sem` computes the difference of `Sub64` as `(x + 2^65 - y - b) % 2^64`, `Prims` as `(x + 2^64 - y - b) % 2^64`
(truncated subtraction): they agree when `y < 2^64` and `b ≤ 1`, which is the contract of `bits.Sub64`
(the borrow-in "must be 0 or 1") and holds at every call site (side conditions of `extern_sub64`).
-/
namespace EdVerif.Ssa.Tie
open EdVerif.Ssa EdVerif.Gen.Ssa EdVerif.Prims
set_option maxRecDepth 100000

/-! ## `ChangeType` -/

/-- continuation of a `ChangeType` once the operand is evaluated -/
def ctK (fr : Frame) (frs : List Frame) (id : Nat) (hp : Heap) : Option RVal → Step
  | some v => contReg fr frs id v hp []
  | none => .fault "changeType"

theorem step_changeType (p : Program) (hp : Heap) (fi : Nat) (f : Func) (regs params : Array RVal) (blk : Nat) (rest : List Instr)
    (dest : Option Nat) (frs : List Frame) (id : Nat) (k : VK) (ln ty : Nat) (tys : List Nat) (x : Opnd) :
    step p ⟨hp, ⟨fi, f, regs, params, blk, ⟨id, k, ln, .changeType x, ty, tys⟩ :: rest, dest⟩ :: frs⟩
      = ctK ⟨fi, f, regs, params, blk, rest, dest⟩ frs id hp
          (evalOpnd p ⟨fi, f, regs, params, blk, rest, dest⟩ (tys.headD 0) x) := by
  rfl

theorem ctK_some (fr : Frame) (frs : List Frame) (id : Nat) (hp : Heap) (v : RVal) :
    ctK fr frs id hp (some v) = contReg fr frs id v hp [] := rfl

/-! ## the type table -/

theorem tyOf_15 : prog.tyOf 15 = .int 8 false := rfl
theorem tyOf_17 : prog.tyOf 17 = .arr 32 15 := rfl
theorem tyOf_18 : prog.tyOf 18 = .ptr 17 := rfl
theorem tyOf_27 : prog.tyOf 27 = .arr 4 3 := rfl
theorem tyOf_28 : prog.tyOf 28 = .struct [27] := rfl
theorem tyOf_29 : prog.tyOf 29 = .ptr 28 := rfl
theorem tyOf_52 : prog.tyOf 52 = .ptr 15 := rfl
theorem tyOf_59 : prog.tyOf 59 = .ptr 27 := rfl
theorem size_3 : prog.size 3 = some 1 := rfl
theorem span28_0 : prog.fieldSpan [27] 0 = some (0, 4) := rfl
theorem zeros_27 : prog.zeros 27 = some [.int 0, .int 0, .int 0, .int 0] := rfl
theorem zeros_28 : prog.zeros 28 = some [.int 0, .int 0, .int 0, .int 0] := rfl
theorem zeros_17 : prog.zeros 17 = some [.int 0, .int 0, .int 0, .int 0, .int 0, .int 0, .int 0, .int 0,
    .int 0, .int 0, .int 0, .int 0, .int 0, .int 0, .int 0, .int 0, .int 0, .int 0, .int 0, .int 0, .int 0, .int 0, .int 0, .int 0,
    .int 0, .int 0, .int 0, .int 0, .int 0, .int 0, .int 0, .int 0] := rfl
theorem intOfTy_15 : intOfTy prog 15 = some (8, false) := rfl

theorem cls4 (a b c d : Nat) : listEqClasses [.int a, .int b, .int c, .int d] [.int 0, .int 0, .int 0, .int 0] = true := rfl

/-- `new(uint64)` -/
theorem stepAlloc_60 (hp : Heap) (fr : Frame) (frs : List Frame) (id : Nat) (k : VK) (ln : Nat) (op : Op) (tys : List Nat) :
    stepAlloc prog hp fr frs ⟨id, k, ln, op, 60, tys⟩ = contReg fr frs id [.ptr (hp.alloc [.int 0]).2 0] (hp.alloc [.int 0]).1 [] :=
  stepAlloc_of tyOf_60 zeros_3 (by decide) hp fr frs id k ln op tys

/-- `new([4]uint64)` -/
theorem stepAlloc_59 (hp : Heap) (fr : Frame) (frs : List Frame) (id : Nat) (k : VK) (ln : Nat) (op : Op) (tys : List Nat) :
    stepAlloc prog hp fr frs ⟨id, k, ln, op, 59, tys⟩
      = contReg fr frs id [.ptr (hp.alloc [.int 0, .int 0, .int 0, .int 0]).2 0] (hp.alloc [.int 0, .int 0, .int 0, .int 0]).1 [] :=
  stepAlloc_of tyOf_59 zeros_27 (by decide) hp fr frs id k ln op tys

/-! ## externals, in the vocabulary of `Prims` -/

theorem bits_mul64 (p : Program) (hp : Heap) (fr : Frame) (frs : List Frame) (i : Instr) (x y : Nat) :
    stepExtern p hp fr frs i N252 [[.int x], [.int y]]
      = contReg fr frs i.id [.int (Bits.Mul64 x y).1, .int (Bits.Mul64 x y).2] hp [] := by
  rw [extern_mul64]; rfl

theorem bits_add64 (p : Program) (hp : Heap) (fr : Frame) (frs : List Frame) (i : Instr) (x y c : Nat) :
    stepExtern p hp fr frs i N240 [[.int x], [.int y], [.int c]]
      = contReg fr frs i.id [.int (Bits.Add64 x y c).1, .int (Bits.Add64 x y c).2] hp [] := by
  rw [extern_add64]; rfl

theorem sub64_bridge (x y b : Nat) (hy : y < 18446744073709551616) (hb : b ≤ 1) :
    (x + 2 ^ 65 - y - b) % 2 ^ 64 = (Bits.Sub64 x y b).1 := by
  simp only [Bits.Sub64]
  have e : x + 2 ^ 65 - y - b = (x + 2 ^ 64 - y - b) + 2 ^ 64 := by omega
  rw [e, Nat.add_mod_right]

/-- `bits.Sub64(x, y, b)` for `y < 2^64` and a borrow-in `b ≤ 1` -/
theorem bits_sub64 (p : Program) (hp : Heap) (fr : Frame) (frs : List Frame) (i : Instr) (x y b : Nat)
    (hy : y < 18446744073709551616) (hb : b ≤ 1) :
    stepExtern p hp fr frs i N241 [[.int x], [.int y], [.int b]]
      = contReg fr frs i.id [.int (Bits.Sub64 x y b).1, .int (Bits.Sub64 x y b).2] hp [] := by
  have h1 : (N241 == Ext.mul64) = false := by decide
  have h2 : (N241 == Ext.add64) = false := by decide
  have h3 : (N241 == Ext.sub64) = true := by decide
  simp only [stepExtern, h1, h2, h3, if_true, Bool.false_eq_true, if_false]
  rw [sub64_bridge x y b hy hb]
  rfl

theorem sub64_borrow_le (x y b : Nat) : (Bits.Sub64 x y b).2 ≤ 1 := by
  simp only [Bits.Sub64]; split <;> omega

theorem add64_carry_le (x y c : Nat) (hx : x < 2 ^ 64) (hy : y < 2 ^ 64) (hc : c ≤ 1) : (Bits.Add64 x y c).2 ≤ 1 := by
  simp only [Bits.Add64]; omega

theorem add64_lt (x y c : Nat) : (Bits.Add64 x y c).1 < 18446744073709551616 := by
  simp only [Bits.Add64]; omega

theorem sub64_lt (x y b : Nat) : (Bits.Sub64 x y b).1 < 18446744073709551616 := by
  simp only [Bits.Sub64]; omega

theorem mul64_lo_lt (x y : Nat) : (Bits.Mul64 x y).2 < 18446744073709551616 := by
  simp only [Bits.Mul64]; omega

/-! ## `^x` on a wrapped value -/

theorem not64_mul (a b : Nat) : (2 ^ 64 - 1) ^^^ U.mul 64 a b = U.not 64 (U.mul 64 a b) :=
  not64 _ (by simp only [U.mul]; omega)

/-! ## scalars as heap blocks -/

/-- the four cells of a `[4]uint64` -/
def w4Cells (v : W4) : Array Val := #[.int v.w0, .int v.w1, .int v.w2, .int v.w3]

theorem w4Cells_inj {v a : W4} (h : w4Cells v = w4Cells a) : v = a := by
  obtain ⟨v0, v1, v2, v3⟩ := v
  obtain ⟨a0, a1, a2, a3⟩ := a
  simp only [w4Cells, Array.mk.injEq, List.cons.injEq, Val.int.injEq, and_true] at h
  obtain ⟨h0, h1, h2, h3⟩ := h
  subst h0 h1 h2 h3; rfl

/-- all four words are 64-bit values -/
def _root_.EdVerif.Prims.W4.lt64 (v : W4) : Prop := v.w0 < 2 ^ 64 ∧ v.w1 < 2 ^ 64 ∧ v.w2 < 2 ^ 64 ∧ v.w3 < 2 ^ 64

/-! ## the stepper -/

syntax "fiat_exec" "[" Lean.Parser.Tactic.simpLemma,* "]" : tactic
macro_rules
  | `(tactic| fiat_exec [$ls,*]) => `(tactic|
  simp only [run_succ, runK_cont, runK_done, steps_succ, stepsK_cont, steps_zero,
    step_alloc, step_binop, step_unop, step_load, step_call, step_convert, step_extract, step_fieldAddr, step_field,
    step_store, step_ret, step_indexAddr, step_changeType, ctK_some,
    stepStore, stepLoad, stepFieldAddr, stepField, stepBinop, stepUnop, stepConvert, stepRet, stepCall, stepIndexAddr,
    evalOpnd_reg, evalOpnd_param, evalOpnd_cint, evalOpnds_nil, evalOpnds_cons,
    contReg, contNoReg, regSet_toArray, intBinop, beq_shl_shl, beq_shr_shl, intShift_shl, intShift_shr, isConst_cint,
    tyOf_3, tyOf_10, tyOf_15, tyOf_17, tyOf_18, tyOf_27, tyOf_28, tyOf_29, tyOf_52, tyOf_59, tyOf_60, tyOf_73,
    zeros_3, zeros_15, zeros_27, zeros_28, zeros_73, size_3, size_15, span2_0, span2_1, span28_0,
    intOfTy_3, intOfTy_10, intOfTy_15, checkIndex_lit,
    stepAlloc_60, stepAlloc_59, cls1, cls2, cls4, cls_int, bits_mul64, bits_add64, bits_sub64, sub64_borrow_le,
    alloc_mkH, read_ext, write_ext, readCells, writeCells, mkH_mkH, retValue,
    List.headD, List.tail, List.getElem?_toArray, List.getElem?_cons_zero, List.getElem?_cons_succ,
    List.length_cons, List.length_nil, List.cons_append, List.nil_append, List.replicate, List.set_cons_zero, List.set_cons_succ,
    List.setIfInBounds_toArray, List.drop, List.take, List.flatten_cons, List.flatten_nil, List.append_nil,
    Option.bind_some, Option.map_some, Option.pure_def, Option.bind_eq_bind,
    if_true, if_false, ite_true, ite_false, Bool.false_eq_true, Nat.reduceAdd, Nat.reduceSub, Nat.reduceLT, Nat.reduceLeDiff, Nat.reduceGT,
    reduceIte, Nat.reduceMul, Nat.zero_le, Nat.le_refl, $ls,*])

/-- the same with a larger `maxSteps` budget (long straight-line kernels) -/
syntax "fiat_exec_big" "[" Lean.Parser.Tactic.simpLemma,* "]" : tactic
macro_rules
  | `(tactic| fiat_exec_big [$ls,*]) => `(tactic|
  simp (maxSteps := 4000000) only [run_succ, runK_cont, runK_done, steps_succ, stepsK_cont, steps_zero,
    step_alloc, step_binop, step_unop, step_load, step_call, step_convert, step_extract, step_fieldAddr, step_field,
    step_store, step_ret, step_indexAddr, step_changeType, ctK_some,
    stepStore, stepLoad, stepFieldAddr, stepField, stepBinop, stepUnop, stepConvert, stepRet, stepCall, stepIndexAddr,
    evalOpnd_reg, evalOpnd_param, evalOpnd_cint, evalOpnds_nil, evalOpnds_cons,
    contReg, contNoReg, regSet_toArray, intBinop, beq_shl_shl, beq_shr_shl, intShift_shl, intShift_shr, isConst_cint,
    tyOf_3, tyOf_10, tyOf_15, tyOf_17, tyOf_18, tyOf_27, tyOf_28, tyOf_29, tyOf_52, tyOf_59, tyOf_60, tyOf_73,
    zeros_3, zeros_15, zeros_27, zeros_28, zeros_73, size_3, size_15, span2_0, span2_1, span28_0,
    intOfTy_3, intOfTy_10, intOfTy_15, checkIndex_lit,
    stepAlloc_60, stepAlloc_59, cls1, cls2, cls4, cls_int, bits_mul64, bits_add64, bits_sub64, sub64_borrow_le,
    alloc_mkH, read_ext, write_ext, readCells, writeCells, mkH_mkH, retValue,
    List.headD, List.tail, List.getElem?_toArray, List.getElem?_cons_zero, List.getElem?_cons_succ,
    List.length_cons, List.length_nil, List.cons_append, List.nil_append, List.replicate, List.set_cons_zero, List.set_cons_succ,
    List.setIfInBounds_toArray, List.drop, List.take, List.flatten_cons, List.flatten_nil, List.append_nil,
    Option.bind_some, Option.map_some, Option.pure_def, Option.bind_eq_bind,
    if_true, if_false, ite_true, ite_false, Bool.false_eq_true, Nat.reduceAdd, Nat.reduceSub, Nat.reduceLT, Nat.reduceLeDiff, Nat.reduceGT,
    reduceIte, Nat.reduceMul, Nat.zero_le, Nat.le_refl, $ls,*])


end EdVerif.Ssa.Tie
