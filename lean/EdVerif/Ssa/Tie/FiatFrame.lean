import EdVerif.Ssa.Tie.FiatSmall
/-!
# Splitting a goal about a state into the heap and the top frame

Used by the generated kernel files: the `pre_*` lemmas leave the register file of the frame (and the blocks allocated by
the run) existentially quantified; `rfl` on the frame assigns the former, the heap equation is closed separately.
-/
namespace EdVerif.Ssa.Tie
open EdVerif.Ssa

theorem state_eq {H H' : Heap} {fr fr' : Frame} {frs : List Frame} (hH : H = H') (hf : fr = fr') :
    (some ⟨H, fr :: frs⟩ : Option State) = some ⟨H', fr' :: frs⟩ := by subst hH hf; rfl

end EdVerif.Ssa.Tie
