import EdVerif.Ssa.Tie.Carry
/-!
# `(*field.Element).Add`
-/
namespace EdVerif.Ssa.Tie
open EdVerif.Ssa EdVerif.Gen.Ssa EdVerif.Prims
set_option maxRecDepth 100000

def body63 : List Instr := body% f63
theorem funcs_63 : prog.funcs[63]? = some f63 := rfl
theorem mkFrame_63 (args : List RVal) (dest : Option Nat) :
    mkFrame 63 f63 args dest = some ⟨63, f63, #[], args.toArray, 0, body63, dest⟩ := rfl
theorem resultTys_63 : f63.resultTys = [19] := rfl
theorem funcIdx_63 : prog.funcIdx? (nm! "(*field.Element).Add") = some 63 := by decide +kernel

abbrev AddT (v0 v1 v2 v3 v4 a0 a1 a2 a3 a4 b0 b1 b2 b3 b4 : Nat) : Fe :=
  EdVerif.Gen.Field.Add ⟨v0, v1, v2, v3, v4⟩ ⟨a0, a1, a2, a3, a4⟩ ⟨b0, b1, b2, b3, b4⟩

set_option maxHeartbeats 8000000 in
/-- `v.Add(a, b)` as the outermost call on a canonical heap, `v`, `a`, `b` pairwise distinct blocks -/
theorem core_Add (h0 : Heap) (ovr ext) (bv ba bb : Nat) (v0 v1 v2 v3 v4 a0 a1 a2 a3 a4 b0 b1 b2 b3 b4 : Nat)
    (hbv : bv < h0.blocks.size) (hba : ba < h0.blocks.size) (hbb : bb < h0.blocks.size)
    (hva : bv ≠ ba) (hvb : bv ≠ bb) (hab : ba ≠ bb) :
    run prog 84 ⟨mkH h0 ((bv, #[.int v0, .int v1, .int v2, .int v3, .int v4]) :: (ba, #[.int a0, .int a1, .int a2, .int a3, .int a4])
                    :: (bb, #[.int b0, .int b1, .int b2, .int b3, .int b4]) :: ovr) ext,
        [⟨63, f63, #[], #[[.ptr bv 0], [.ptr ba 0], [.ptr bb 0]], 0, body63, none⟩]⟩
      = .done ⟨mkH h0 ((bv, feCells (AddT v0 v1 v2 v3 v4 a0 a1 a2 a3 a4 b0 b1 b2 b3 b4)) :: (ba, #[.int a0, .int a1, .int a2, .int a3, .int a4])
                    :: (bb, #[.int b0, .int b1, .int b2, .int b3, .int b4]) :: ovr) ext, []⟩ [[.ptr bv 0]] := by
  simp only [body63]
  ssa_exec [resultTys_63, funcs_84, mkFrame_84, ↓run_carryPropagateGeneric, read_hit, read_miss, write_hit, hbv, hba, hbb,
    hva, hvb, hab, hva.symm, hvb.symm, hab.symm, ne_eq, not_false_eq_true]
  rfl


/-- **tie**: `v.Add(a, b)` (three distinct blocks) on any heap: returns `v`; afterwards block `bv` holds the limbs of T1's
    `Add v a b`; every other block is unchanged. -/
theorem tie_Add (h : Heap) (bv ba bb : Nat) (v a b : Fe)
    (hv : h.blocks[bv]? = some (feCells v)) (ha : h.blocks[ba]? = some (feCells a)) (hb : h.blocks[bb]? = some (feCells b))
    (hva : bv ≠ ba) (hvb : bv ≠ bb) (hab : ba ≠ bb) :
    ∃ h', runCall prog 84 h (nm! "(*field.Element).Add") [[.ptr bv 0], [.ptr ba 0], [.ptr bb 0]]
            = some (.done ⟨h', []⟩ [[.ptr bv 0]])
      ∧ Post1 h h' bv (feCells (EdVerif.Gen.Field.Add v a b)) := by
  obtain ⟨v0, v1, v2, v3, v4⟩ := v
  obtain ⟨a0, a1, a2, a3, a4⟩ := a
  obtain ⟨b0, b1, b2, b3, b4⟩ := b
  have core := core_Add h [] [] bv ba bb v0 v1 v2 v3 v4 a0 a1 a2 a3 a4 b0 b1 b2 b3 b4 (lt_of_get hv) (lt_of_get ha) (lt_of_get hb) hva hvb hab
  have hall : ∀ kv ∈ [(ba, feCells ⟨a0, a1, a2, a3, a4⟩), (bb, feCells ⟨b0, b1, b2, b3, b4⟩)], h.blocks[kv.1]? = some kv.2 := by
    simp [ha, hb]
  rw [show mkH h [(bv, #[.int v0, .int v1, .int v2, .int v3, .int v4]), (ba, #[.int a0, .int a1, .int a2, .int a3, .int a4]),
        (bb, #[.int b0, .int b1, .int b2, .int b3, .int b4])] [] = h from
      mkH_intro h _ (by simpa [feCells] using ⟨hv, ha, hb⟩)] at core
  refine ⟨_, ?_, post1_mkH _ [] (lt_of_get hv) hall⟩
  simp only [runCall, funcIdx_63, callState, funcs_63, mkFrame_63, Option.bind_some, Option.map_some, Option.pure_def,
    Option.bind_eq_bind]
  rw [core]; rfl

end EdVerif.Ssa.Tie
