import EdVerif.Ssa.Tie.PtOnCurve
/-!
# `(*field.Element).Absolute`: SSA execution = T5's `Formulas.field_Element_Absolute` (`Negate`, `IsNegative`, `Select` through their abstract call rules)
-/
namespace EdVerif.Ssa.Tie
open EdVerif.Ssa EdVerif.Gen.Ssa EdVerif.Prims EdVerif.Impl EdVerif.Gen
set_option maxRecDepth 100000
set_option linter.unusedVariables false

def body62 : List Instr := body% f62
theorem funcs_62 : prog.funcs[62]? = some f62 := rfl
theorem mkFrame_62 (args : List RVal) (dest : Option Nat) :
    mkFrame 62 f62 args dest = some ⟨62, f62, #[], args.toArray, 0, body62, dest⟩ := rfl
theorem resultTys_62 : f62.resultTys = [19] := rfl
theorem funcIdx_62 : prog.funcIdx? (nm! "(*field.Element).Absolute") = some 62 := by decide +kernel

theorem isNegative_lt (u : Fe) : (Fe.isNegative u < 2 ^ 64) = True := by
  apply eq_true
  unfold Fe.isNegative
  exact Nat.lt_of_le_of_lt Nat.and_le_right (by decide)

/-- the final heap when the receiver is one whole 5-cell block -/
theorem post1_mkE1 {h : Heap} {b : Nat} {V : Array Val} (x : Fe) (rest : List Ent) (E : List (Array Val))
    (hb : h.blocks[b]? = some V) (hs : V.size = 5) (hr : Restates h rest) :
    Post1 h (mkE h ((b, 0, feL x) :: rest) E) b (feCells x) := by
  have hlt := lt_of_get hb
  rw [mkE_eq]
  simp only [baseE]
  rw [baseE_restates h rest hr]
  refine ⟨by simp only [pushB_size, ovE_size]; omega, ?_, ?_⟩
  · rw [get_pushB_lt _ _ _ (by simpa using hlt), get_ovE_same, hb]
    simp only [Option.map_some]
    refine congrArg some ?_
    exact ovl_full _ _ (by rw [feL_length]; exact hs)
  · intro c hc hne
    rw [get_pushB_lt _ _ _ (by simpa using hc), get_ovE_other _ _ _ _ _ hne]

set_option maxHeartbeats 64000000 in
theorem coreE_Absolute (v u : Fe) : ∀ (H : Heap) (bv bu bg : Nat) (hfv : Fits H bv 0 5) (hfu : Fits H bu 0 5) (hne_vu : bv ≠ bu) (hne_u_g : bu ≠ bg) (hng_u : bu ≠ 13) (hg : H.read 13 0 1 = some [.ptr bg 0]) (hfg : Fits H bg 0 5) (hn : bg ≠ 13) (hne_v_g : bv ≠ bg) (hng_v : bv ≠ 13) (h16 : 16 < H.blocks.size), ∃ E : List (Array Val),
    run prog 1100 ⟨mkE H [(bv, 0, feL v), (bu, 0, feL u), (bg, 0, feL EdVerif.Gen.Field.feZero)] [],
        [⟨62, f62, #[], #[[.ptr bv 0], [.ptr bu 0]], 0, body62, none⟩]⟩
      = .done ⟨mkE H [(bv, 0, feL (Formulas.field_Element_Absolute v u)), (bu, 0, feL u), (bg, 0, feL EdVerif.Gen.Field.feZero)] E, []⟩ [[.ptr bv 0]] := by
  intro H bv bu bg hfv hfu hne_vu hne_u_g hng_u hg hfg hn hne_v_g hng_v h16
  apply Exists.intro
  have hlt := lt_of_read hg
  simp only [body62]
  ssa_execX [resultTys_62, ↓runA_Negate, ↓runA_IsNegative, ↓runA_Select, funcs_67, mkFrame_67, isNegative_lt u, hfv, hfv.1, hfu, hfu.1, hne_vu, hne_vu.symm, hne_u_g, hne_u_g.symm, hng_u, hng_u.symm, 
    read_mkE_base hg, gptr_mkE hg, isGlob_mkE hg, hfg, hfg.1, hn, hn.symm, hne_v_g, hne_v_g.symm, hng_v, hng_v.symm, hlt, h16,
    mkE_size, lt16_add, List.length_append, feAt0_lit, feAt0_feL, Negate_val, Multiply_rz, Square_rz, Add_rz, Subtract_rz, Select_rz, Set_rz]
  rfl

/-- **tie**: `v.Absolute(u)` (distinct blocks): the package variable `feZero` (global 12 = block 13) points to a block (distinct from the operands) holding
    T1's constant; the block of `binary.LittleEndian` exists.  Block `bv` then holds the limbs of T5's `Formulas.field_Element_Absolute v u`. -/
theorem tie_Absolute (h : Heap) (bv bu bg : Nat) (v u : Fe) (hv : h.blocks[bv]? = some (feCells v)) (hu : h.blocks[bu]? = some (feCells u)) (hne_vu : bv ≠ bu) (hne_u_g : bu ≠ bg) 
    (hgp : h.blocks[13]? = some #[.ptr bg 0]) (hgv : h.blocks[bg]? = some (feCells EdVerif.Gen.Field.feZero)) (hne_v_g : bv ≠ bg)
    (h16 : 16 < h.blocks.size) :
    ∃ h', runCall prog 1100 h (nm! "(*field.Element).Absolute") [[.ptr bv 0], [.ptr bu 0]] = some (.done ⟨h', []⟩ [[.ptr bv 0]])
      ∧ Post1 h h' bv (feCells (Formulas.field_Element_Absolute v u)) := by
  obtain ⟨E, core⟩ := coreE_Absolute v u h bv bu bg (fits_of_get hv 5 (Nat.le_refl _)) (fits_of_get hu 5 (Nat.le_refl _)) hne_vu hne_u_g (ne_of_size' hu hgp (n1 := 5) (n2 := 1) rfl rfl (by decide)) (read_of_get1 hgp) (fits_of_get hgv 5 (Nat.le_refl _))
    (ne_of_size' hgv hgp (n1 := 5) (n2 := 1) rfl rfl (by decide)) hne_v_g (ne_of_size' hv hgp (n1 := 5) (n2 := 1) rfl rfl (by decide)) h16
  rw [mkE_restates h _ (restates_feCells hv (restates_feCells hu (restates_feCells hgv (restates_nil h))))] at core
  refine ⟨_, ?_, post1_mkE1 _ _ E hv (feCells_size _) (restates_feCells hu (restates_feCells hgv (restates_nil h)))⟩
  simp only [runCall, funcIdx_62, callState, funcs_62, mkFrame_62, Option.bind_some, Option.map_some, Option.pure_def,
    Option.bind_eq_bind]
  rw [core]

set_option maxHeartbeats 64000000 in
theorem coreE_Absolute__al00 (v u : Fe) : ∀ (H : Heap) (bv bg : Nat) (hfv : Fits H bv 0 5) (hg : H.read 13 0 1 = some [.ptr bg 0]) (hfg : Fits H bg 0 5) (hn : bg ≠ 13) (hne_v_g : bv ≠ bg) (hng_v : bv ≠ 13) (h16 : 16 < H.blocks.size), ∃ E : List (Array Val),
    run prog 1100 ⟨mkE H [(bv, 0, feL v), (bg, 0, feL EdVerif.Gen.Field.feZero)] [],
        [⟨62, f62, #[], #[[.ptr bv 0], [.ptr bv 0]], 0, body62, none⟩]⟩
      = .done ⟨mkE H [(bv, 0, feL (Formulas.field_Element_Absolute__al00 v u)), (bg, 0, feL EdVerif.Gen.Field.feZero)] E, []⟩ [[.ptr bv 0]] := by
  intro H bv bg hfv hg hfg hn hne_v_g hng_v h16
  apply Exists.intro
  have hlt := lt_of_read hg
  simp only [body62]
  ssa_execX [resultTys_62, ↓runA_Negate, ↓runA_IsNegative, ↓runA_Select, funcs_67, mkFrame_67, isNegative_lt v, hfv, hfv.1, 
    read_mkE_base hg, gptr_mkE hg, isGlob_mkE hg, hfg, hfg.1, hn, hn.symm, hne_v_g, hne_v_g.symm, hng_v, hng_v.symm, hlt, h16,
    mkE_size, lt16_add, List.length_append, feAt0_lit, feAt0_feL, Negate_val, Multiply_rz, Square_rz, Add_rz, Subtract_rz, Select_rz, Set_rz]
  rfl

/-- **tie**: `v.Absolute(u)` with `u` = `v` (same block): the package variable `feZero` (global 12 = block 13) points to a block (distinct from the operands) holding
    T1's constant; the block of `binary.LittleEndian` exists.  Block `bv` then holds the limbs of T5's `Formulas.field_Element_Absolute__al00 v u`. -/
theorem tie_Absolute__al00 (h : Heap) (bv bg : Nat) (v u : Fe) (hv : h.blocks[bv]? = some (feCells v)) 
    (hgp : h.blocks[13]? = some #[.ptr bg 0]) (hgv : h.blocks[bg]? = some (feCells EdVerif.Gen.Field.feZero)) (hne_v_g : bv ≠ bg)
    (h16 : 16 < h.blocks.size) :
    ∃ h', runCall prog 1100 h (nm! "(*field.Element).Absolute") [[.ptr bv 0], [.ptr bv 0]] = some (.done ⟨h', []⟩ [[.ptr bv 0]])
      ∧ Post1 h h' bv (feCells (Formulas.field_Element_Absolute__al00 v u)) := by
  obtain ⟨E, core⟩ := coreE_Absolute__al00 v u h bv bg (fits_of_get hv 5 (Nat.le_refl _)) (read_of_get1 hgp) (fits_of_get hgv 5 (Nat.le_refl _))
    (ne_of_size' hgv hgp (n1 := 5) (n2 := 1) rfl rfl (by decide)) hne_v_g (ne_of_size' hv hgp (n1 := 5) (n2 := 1) rfl rfl (by decide)) h16
  rw [mkE_restates h _ (restates_feCells hv (restates_feCells hgv (restates_nil h)))] at core
  refine ⟨_, ?_, post1_mkE1 _ _ E hv (feCells_size _) (restates_feCells hgv (restates_nil h))⟩
  simp only [runCall, funcIdx_62, callState, funcs_62, mkFrame_62, Option.bind_some, Option.map_some, Option.pure_def,
    Option.bind_eq_bind]
  rw [core]

end EdVerif.Ssa.Tie
