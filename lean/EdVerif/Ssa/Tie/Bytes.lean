import EdVerif.Ssa.Tie.Misc
import EdVerif.Ssa.Tie.Arith
/-!
# `(*field.Element).SetBytes`
-/
namespace EdVerif.Ssa.Tie
open EdVerif.Ssa EdVerif.Gen.Ssa EdVerif.Prims
set_option maxRecDepth 100000

open Lean Elab Term Meta in
/-- `block% f n`: the instruction list of block `n` of the `Func` constant `f` -/
elab "block% " c:ident n:num : term => do
  let cn ← realizeGlobalConstNoOverloadWithInfo c
  let some (.defnInfo d) := (← getEnv).find? cn | throwError "not a definition"
  let args := d.value.getAppArgs
  let mut blocks := args[args.size - 1]!
  for _ in [0:n.getNat] do
    let some (_, _, tl) := blocks.app3? ``List.cons | throwError "no such block"
    blocks := tl
  let some (_, b, _) := blocks.app3? ``List.cons | throwError "no such block"
  unless b.isAppOf ``Block.mk do throwError "not a block literal"
  return b.getAppArgs[0]!

/-! ## more rewrite rules: `if`, `len`, slicing, `binary.LittleEndian.Uint64`, loads of zero-size values -/
section rules
variable (p : Program) (hp : Heap) (fi : Nat) (f : Func) (regs params : Array RVal) (blk : Nat) (rest : List Instr)
  (dest : Option Nat) (frs : List Frame) (id : Nat) (k : VK) (ln ty : Nat) (tys : List Nat)

/-- continuation of an `If` once the condition is evaluated -/
def ifK (p : Program) (hp : Heap) (fr : Frame) (frs : List Frame) (t e : Nat) : Option RVal → Step
  | some [.bool b] =>
    match jumpTo p fr (if b then t else e) with
    | some fr' => .cont ⟨hp, fr' :: frs⟩ [ev fr K.branch [.bool b]]
    | none => .fault "if: target"
  | _ => .fault "if: condition"

theorem step_if (c : Opnd) (t e : Nat) :
    step p ⟨hp, ⟨fi, f, regs, params, blk, ⟨id, k, ln, .if c t e, ty, tys⟩ :: rest, dest⟩ :: frs⟩
      = ifK p hp ⟨fi, f, regs, params, blk, rest, dest⟩ frs t e
          (evalOpnd p ⟨fi, f, regs, params, blk, rest, dest⟩ (tys.headD 0) c) := by
  rfl

theorem ifK_false (fr : Frame) (t e : Nat) (fr' : Frame) (h : jumpTo p fr e = some fr') :
    ifK p hp fr frs t e (some [.bool false]) = .cont ⟨hp, fr' :: frs⟩ [ev fr K.branch [.bool false]] := by
  simp [ifK, h]

theorem step_slice (xk : VK) (x : Opnd) (lo hi mx : Option Opnd) :
    step p ⟨hp, ⟨fi, f, regs, params, blk, ⟨id, k, ln, .slice xk x lo hi mx, ty, tys⟩ :: rest, dest⟩ :: frs⟩
      = stepSlice p hp ⟨fi, f, regs, params, blk, rest, dest⟩ frs ⟨id, k, ln, .slice xk x lo hi mx, ty, tys⟩ x lo hi mx := rfl

end rules

theorem evalOpnd_nil_iface (p : Program) (fr : Frame) (ty : Nat) : evalOpnd p fr ty (.nil .iface) = some [.nil] := rfl

theorem builtin_len (hp : Heap) (fr : Frame) (frs : List Frame) (i : Instr) (b o l c : Nat) :
    stepBuiltin hp fr frs i N30 [[.slice b o l c]] = contReg fr frs i.id [.int l] hp [] := by
  have h1 : (N30 == Ext.len) = true := by decide
  simp only [stepBuiltin, h1, if_true]

/-- continuation of `binary.LittleEndian.Uint64` once the eight bytes are read -/
def leK (hp : Heap) (fr : Frame) (frs : List Frame) (id b o : Nat) : Option Nat → Step
  | some v => contReg fr frs id [.int v] hp [ev fr K.sliceBound [.int 8], ev fr EK.addr [.ptr b o, .int 8]]
  | none => .fault "Uint64: not bytes"

theorem extern_leUint64 (p : Program) (hp : Heap) (fr : Frame) (frs : List Frame) (i : Instr) (a : RVal) (b o c : Nat) :
    stepExtern p hp fr frs i N106 [a, [.slice b o 8 c]] = leK hp fr frs i.id b o ((hp.read b o 8).bind bytesToNat) := by
  have h1 : (N106 == Ext.mul64) = false := by decide
  have h2 : (N106 == Ext.add64) = false := by decide
  have h3 : (N106 == Ext.sub64) = false := by decide
  have h4 : (N106 == Ext.ctByteEq) = false := by decide
  have h5 : (N106 == Ext.ctCompare) = false := by decide
  have h6 : (N106 == Ext.leUint64) = true := by decide
  simp only [stepExtern, h1, h2, h3, h4, h5, h6, if_true, Bool.false_eq_true, if_false, Nat.lt_irrefl]
  cases (hp.read b o 8).bind bytesToNat <;> rfl

theorem leK_some (hp : Heap) (fr : Frame) (frs : List Frame) (id b o v : Nat) :
    leK hp fr frs id b o (some v) = contReg fr frs id [.int v] hp [ev fr K.sliceBound [.int 8], ev fr EK.addr [.ptr b o, .int 8]] := rfl

theorem tyOf_16 : prog.tyOf 16 = .slice 15 := rfl
theorem size_15 : prog.size 15 = some 1 := rfl
theorem zeros_12 : prog.zeros 12 = some [] := rfl
theorem cls0 : listEqClasses [] [] = true := rfl

/-- a constant bound of a slice expression -/
theorem evalBound_cint (fr : Frame) (d n : Nat) (k : VK) (hn : n < 9223372036854775808) :
    evalBound prog fr 10 d (some (.cint k n)) = some (some n, [.int n]) := by
  have h : ¬ ((n : Int) < 0) := by omega
  simp only [evalBound, evalOpnd, intOfTy_10, asInt, toInt, if_true]
  have : n < 2 ^ (64 - 1) := by omega
  simp [this, h]

theorem evalBound_none (p : Program) (fr : Frame) (ty d : Nat) : evalBound p fr ty d none = some (some d, []) := rfl

/-- a load of zero cells only needs the block to exist -/
theorem read_zero (h0 : Heap) (ovr ext) (b o : Nat) (hb : b < h0.blocks.size) : (mkH h0 ovr ext).read b o 0 = some [] := by
  have hlt : b < (mkH h0 ovr ext).blocks.size := by rw [mkH_size]; omega
  simp only [Heap.read, Array.getElem?_eq_getElem hlt]
  rfl


/-! ## `SetBytes` -/

def body75 : List Instr := body% f75
def blk75_2 : List Instr := block% f75 2
theorem funcs_75 : prog.funcs[75]? = some f75 := rfl
theorem mkFrame_75 (args : List RVal) (dest : Option Nat) :
    mkFrame 75 f75 args dest = some ⟨75, f75, #[], args.toArray, 0, body75, dest⟩ := rfl
theorem resultTys_75 : f75.resultTys = [19, 32] := rfl
theorem funcIdx_75 : prog.funcIdx? (nm! "(*field.Element).SetBytes") = some 75 := by decide +kernel
theorem jumpTo_75_2 (regs params : Array RVal) (rest : List Instr) (dest : Option Nat) :
    jumpTo prog ⟨75, f75, regs, params, 0, rest, dest⟩ 2 = some ⟨75, f75, regs, params, 2, blk75_2, dest⟩ := rfl

set_option maxHeartbeats 64000000 in
theorem core_SetBytes (h0 : Heap) (ovr ext) (bv bx : Nat) (v0 v1 v2 v3 v4 x0 x1 x2 x3 x4 x5 x6 x7 x8 x9 x10 x11 x12 x13 x14 x15 x16 x17 x18 x19 x20 x21 x22 x23 x24 x25 x26 x27 x28 x29 x30 x31 : Nat)
    (hbv : bv < h0.blocks.size) (hbx : bx < h0.blocks.size) (h16 : 16 < h0.blocks.size) (hvx : bv ≠ bx) :
    run prog 60 ⟨mkH h0 ((bv, #[.int v0, .int v1, .int v2, .int v3, .int v4]) :: (bx, #[.int x0, .int x1, .int x2, .int x3, .int x4, .int x5, .int x6, .int x7, .int x8, .int x9, .int x10, .int x11, .int x12, .int x13, .int x14, .int x15, .int x16, .int x17, .int x18, .int x19, .int x20, .int x21, .int x22, .int x23, .int x24, .int x25, .int x26, .int x27, .int x28, .int x29, .int x30, .int x31]) :: ovr) ext,
        [⟨75, f75, #[], #[[.ptr bv 0], [.slice bx 0 32 32]], 0, body75, none⟩]⟩
      = .done ⟨mkH h0 ((bv, feCells (EdVerif.Gen.Field.SetBytes ⟨v0, v1, v2, v3, v4⟩ #[x0, x1, x2, x3, x4, x5, x6, x7, x8, x9, x10, x11, x12, x13, x14, x15, x16, x17, x18, x19, x20, x21, x22, x23, x24, x25, x26, x27, x28, x29, x30, x31])) :: (bx, #[.int x0, .int x1, .int x2, .int x3, .int x4, .int x5, .int x6, .int x7, .int x8, .int x9, .int x10, .int x11, .int x12, .int x13, .int x14, .int x15, .int x16, .int x17, .int x18, .int x19, .int x20, .int x21, .int x22, .int x23, .int x24, .int x25, .int x26, .int x27, .int x28, .int x29, .int x30, .int x31]) :: ovr) ext, []⟩
          [[.ptr bv 0], [.nil]] := by
  simp only [body75]
  ssa_exec [resultTys_75, step_if, step_slice, ifK, jumpTo_75_2, blk75_2, builtin_len, extern_leUint64, leK_some, stepSlice,
    tyOf_16, size_15, zeros_12, cls0, evalBound_cint, evalBound_none, read_zero, evalOpnd_nil_iface, bytesToNat,
    bne_self_eq_false, Option.isSome_some, Option.isSome_none, Nat.reduceLeDiff, decide_true, decide_false, Bool.and_true, Bool.true_and,
    Bool.and_self, Nat.zero_le, Nat.le_refl, and_eq, shr_eq,
    read_hit, read_miss, write_hit, hbv, hbx, h16, hvx, hvx.symm, ne_eq, not_false_eq_true]
  have e0 : x0 + 256 * (x1 + 256 * (x2 + 256 * (x3 + 256 * (x4 + 256 * (x5 + 256 * (x6 + 256 * (x7 + 0))))))) = Bin.le64 #[x0, x1, x2, x3, x4, x5, x6, x7, x8, x9, x10, x11, x12, x13, x14, x15, x16, x17, x18, x19, x20, x21, x22, x23, x24, x25, x26, x27, x28, x29, x30, x31] 0 := by
    simp [Bin.le64]; omega
  have e6 : x6 + 256 * (x7 + 256 * (x8 + 256 * (x9 + 256 * (x10 + 256 * (x11 + 256 * (x12 + 256 * (x13 + 0))))))) = Bin.le64 #[x0, x1, x2, x3, x4, x5, x6, x7, x8, x9, x10, x11, x12, x13, x14, x15, x16, x17, x18, x19, x20, x21, x22, x23, x24, x25, x26, x27, x28, x29, x30, x31] 6 := by
    simp [Bin.le64]; omega
  have e12 : x12 + 256 * (x13 + 256 * (x14 + 256 * (x15 + 256 * (x16 + 256 * (x17 + 256 * (x18 + 256 * (x19 + 0))))))) = Bin.le64 #[x0, x1, x2, x3, x4, x5, x6, x7, x8, x9, x10, x11, x12, x13, x14, x15, x16, x17, x18, x19, x20, x21, x22, x23, x24, x25, x26, x27, x28, x29, x30, x31] 12 := by
    simp [Bin.le64]; omega
  have e19 : x19 + 256 * (x20 + 256 * (x21 + 256 * (x22 + 256 * (x23 + 256 * (x24 + 256 * (x25 + 256 * (x26 + 0))))))) = Bin.le64 #[x0, x1, x2, x3, x4, x5, x6, x7, x8, x9, x10, x11, x12, x13, x14, x15, x16, x17, x18, x19, x20, x21, x22, x23, x24, x25, x26, x27, x28, x29, x30, x31] 19 := by
    simp [Bin.le64]; omega
  have e24 : x24 + 256 * (x25 + 256 * (x26 + 256 * (x27 + 256 * (x28 + 256 * (x29 + 256 * (x30 + 256 * (x31 + 0))))))) = Bin.le64 #[x0, x1, x2, x3, x4, x5, x6, x7, x8, x9, x10, x11, x12, x13, x14, x15, x16, x17, x18, x19, x20, x21, x22, x23, x24, x25, x26, x27, x28, x29, x30, x31] 24 := by
    simp [Bin.le64]; omega
  rw [e0, e6, e12, e19, e24]
  simp only [feCells, EdVerif.Gen.Field.SetBytes]


/-- **tie**: `v.SetBytes(x)` for a 32-byte slice `x` = the whole of block `bx` (offset 0, length and capacity 32), on any heap
    that has the block of the package variable `binary.LittleEndian` (global 15 = block 16, a zero-size struct):
    returns `(v, nil)`; block `bv` then holds the limbs of T1's `SetBytes v x`; nothing else changes.
    (The bytes are arbitrary naturals: nothing in the run depends on them being `< 256`.) -/
theorem tie_SetBytes (h : Heap) (bv bx : Nat) (v : Fe) (x0 x1 x2 x3 x4 x5 x6 x7 x8 x9 x10 x11 x12 x13 x14 x15 x16 x17 x18 x19 x20 x21 x22 x23 x24 x25 x26 x27 x28 x29 x30 x31 : Nat)
    (hv : h.blocks[bv]? = some (feCells v)) (hx : h.blocks[bx]? = some #[.int x0, .int x1, .int x2, .int x3, .int x4, .int x5, .int x6, .int x7, .int x8, .int x9, .int x10, .int x11, .int x12, .int x13, .int x14, .int x15, .int x16, .int x17, .int x18, .int x19, .int x20, .int x21, .int x22, .int x23, .int x24, .int x25, .int x26, .int x27, .int x28, .int x29, .int x30, .int x31]) (h16 : 16 < h.blocks.size) :
    ∃ h', runCall prog 60 h (nm! "(*field.Element).SetBytes") [[.ptr bv 0], [.slice bx 0 32 32]]
            = some (.done ⟨h', []⟩ [[.ptr bv 0], [.nil]])
      ∧ Post1 h h' bv (feCells (EdVerif.Gen.Field.SetBytes v #[x0, x1, x2, x3, x4, x5, x6, x7, x8, x9, x10, x11, x12, x13, x14, x15, x16, x17, x18, x19, x20, x21, x22, x23, x24, x25, x26, x27, x28, x29, x30, x31])) := by
  obtain ⟨v0, v1, v2, v3, v4⟩ := v
  have hvx : bv ≠ bx := ne_of_cells hv hx (by simp [feCells])
  have core := core_SetBytes h [] [] bv bx v0 v1 v2 v3 v4 x0 x1 x2 x3 x4 x5 x6 x7 x8 x9 x10 x11 x12 x13 x14 x15 x16 x17 x18 x19 x20 x21 x22 x23 x24 x25 x26 x27 x28 x29 x30 x31 (lt_of_get hv) (lt_of_get hx) h16 hvx
  have hall : ∀ kv ∈ [(bx, #[.int x0, .int x1, .int x2, .int x3, .int x4, .int x5, .int x6, .int x7, .int x8, .int x9, .int x10, .int x11, .int x12, .int x13, .int x14, .int x15, .int x16, .int x17, .int x18, .int x19, .int x20, .int x21, .int x22, .int x23, .int x24, .int x25, .int x26, .int x27, .int x28, .int x29, .int x30, .int x31])], h.blocks[kv.1]? = some kv.2 := by simp [hx]
  rw [show mkH h [(bv, #[.int v0, .int v1, .int v2, .int v3, .int v4]), (bx, #[.int x0, .int x1, .int x2, .int x3, .int x4, .int x5, .int x6, .int x7, .int x8, .int x9, .int x10, .int x11, .int x12, .int x13, .int x14, .int x15, .int x16, .int x17, .int x18, .int x19, .int x20, .int x21, .int x22, .int x23, .int x24, .int x25, .int x26, .int x27, .int x28, .int x29, .int x30, .int x31])] [] = h from
      mkH_intro h _ (by simpa [feCells] using ⟨hv, hx⟩)] at core
  refine ⟨_, ?_, post1_mkH _ [] (lt_of_get hv) hall⟩
  simp only [runCall, funcIdx_75, callState, funcs_75, mkFrame_75, Option.bind_some, Option.map_some, Option.pure_def,
    Option.bind_eq_bind]
  rw [core]

end EdVerif.Ssa.Tie
