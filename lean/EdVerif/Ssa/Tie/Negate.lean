import EdVerif.Ssa.Tie.Sub
import EdVerif.Ssa.Tie.Misc
/-!
# `(*field.Element).Negate`  (`v.Subtract(feZero, a)`; `feZero` is a package-level `*Element`, global 12 = heap block 13)
-/
namespace EdVerif.Ssa.Tie
open EdVerif.Ssa EdVerif.Gen.Ssa EdVerif.Prims
set_option maxRecDepth 100000

def body70 : List Instr := body% f70
theorem funcs_70 : prog.funcs[70]? = some f70 := rfl
theorem mkFrame_70 (args : List RVal) (dest : Option Nat) :
    mkFrame 70 f70 args dest = some ⟨70, f70, #[], args.toArray, 0, body70, dest⟩ := rfl
theorem resultTys_70 : f70.resultTys = [19] := rfl
theorem funcIdx_70 : prog.funcIdx? (nm! "(*field.Element).Negate") = some 70 := by decide +kernel

set_option maxHeartbeats 16000000 in
/-- `v.Negate(a)`, `v`, `a`, the block of `feZero` and block 13 pairwise distinct -/
theorem core_Negate_d (h0 : Heap) (ovr ext) (bv ba bz : Nat) (v0 v1 v2 v3 v4 a0 a1 a2 a3 a4 : Nat)
    (hbv : bv < h0.blocks.size) (hba : ba < h0.blocks.size) (hbz : bz < h0.blocks.size) (hg : 13 < h0.blocks.size)
    (hva : bv ≠ ba) (hvz : bv ≠ bz) (hvg : bv ≠ 13) (haz : ba ≠ bz) (hag : ba ≠ 13) (hzg : bz ≠ 13) :
    run prog 94 ⟨mkH h0 ((bv, #[.int v0, .int v1, .int v2, .int v3, .int v4]) :: (ba, #[.int a0, .int a1, .int a2, .int a3, .int a4])
                    :: (13, #[.ptr bz 0]) :: (bz, #[.int 0, .int 0, .int 0, .int 0, .int 0]) :: ovr) ext,
        [⟨70, f70, #[], #[[.ptr bv 0], [.ptr ba 0]], 0, body70, none⟩]⟩
      = .done ⟨mkH h0 ((bv, feCells (EdVerif.Gen.Field.Negate ⟨v0, v1, v2, v3, v4⟩ ⟨a0, a1, a2, a3, a4⟩)) :: (ba, #[.int a0, .int a1, .int a2, .int a3, .int a4])
                    :: (13, #[.ptr bz 0]) :: (bz, #[.int 0, .int 0, .int 0, .int 0, .int 0]) :: ovr) ext, []⟩ [[.ptr bv 0]] := by
  simp only [body70]
  ssa_exec [resultTys_70, funcs_79, mkFrame_79, resultTys_79, body79, funcs_83, mkFrame_83, ↓run_carryPropagate,
    read_hit, read_miss, write_hit, hbv, hba, hbz, hg, hva, hvz, hvg, haz, hag, hzg, hva.symm, hvz.symm, hvg.symm, haz.symm, hag.symm, hzg.symm,
    ne_eq, not_false_eq_true]
  rfl

set_option maxHeartbeats 16000000 in
/-- `v.Negate(v)` -/
theorem core_Negate_va (h0 : Heap) (ovr ext) (bv bz : Nat) (v0 v1 v2 v3 v4 : Nat)
    (hbv : bv < h0.blocks.size) (hbz : bz < h0.blocks.size) (hg : 13 < h0.blocks.size)
    (hvz : bv ≠ bz) (hvg : bv ≠ 13) (hzg : bz ≠ 13) :
    run prog 94 ⟨mkH h0 ((bv, #[.int v0, .int v1, .int v2, .int v3, .int v4])
                    :: (13, #[.ptr bz 0]) :: (bz, #[.int 0, .int 0, .int 0, .int 0, .int 0]) :: ovr) ext,
        [⟨70, f70, #[], #[[.ptr bv 0], [.ptr bv 0]], 0, body70, none⟩]⟩
      = .done ⟨mkH h0 ((bv, feCells (EdVerif.Gen.Field.Negate ⟨v0, v1, v2, v3, v4⟩ ⟨v0, v1, v2, v3, v4⟩))
                    :: (13, #[.ptr bz 0]) :: (bz, #[.int 0, .int 0, .int 0, .int 0, .int 0]) :: ovr) ext, []⟩ [[.ptr bv 0]] := by
  simp only [body70]
  ssa_exec [resultTys_70, funcs_79, mkFrame_79, resultTys_79, body79, funcs_83, mkFrame_83, ↓run_carryPropagate,
    read_hit, read_miss, write_hit, hbv, hbz, hg, hvz, hvg, hzg, hvz.symm, hvg.symm, hzg.symm,
    ne_eq, not_false_eq_true]
  rfl

/-- **tie**: `v.Negate(a)`; `bz` is the block the package variable `feZero` points to (distinct from `bv`, `ba`);
    `bv = ba` allowed. -/
theorem tie_Negate (h : Heap) (bv ba bz : Nat) (v a : Fe)
    (hv : h.blocks[bv]? = some (feCells v)) (ha : h.blocks[ba]? = some (feCells a))
    (hg : h.blocks[13]? = some #[.ptr bz 0]) (hz : h.blocks[bz]? = some (feCells EdVerif.Gen.Field.feZero))
    (hvz : bv ≠ bz) (haz : ba ≠ bz) :
    ∃ h', runCall prog 94 h (nm! "(*field.Element).Negate") [[.ptr bv 0], [.ptr ba 0]] = some (.done ⟨h', []⟩ [[.ptr bv 0]])
      ∧ Post1 h h' bv (feCells (EdVerif.Gen.Field.Negate v a)) := by
  have hvg : bv ≠ 13 := ne_of_cells hv hg (by simp [feCells])
  have hag : ba ≠ 13 := ne_of_cells ha hg (by simp [feCells])
  have hzg : bz ≠ 13 := ne_of_cells hz hg (by simp [feCells])
  have hz' : h.blocks[bz]? = some #[Val.int 0, .int 0, .int 0, .int 0, .int 0] := by
    simpa [feCells, EdVerif.Gen.Field.feZero] using hz
  by_cases hva : bv = ba
  · subst hva
    have e := feCells_inj (Option.some.inj (hv.symm.trans ha)); subst e
    obtain ⟨v0, v1, v2, v3, v4⟩ := v
    have core := core_Negate_va h [] [] bv bz v0 v1 v2 v3 v4 (lt_of_get hv) (lt_of_get hz) (lt_of_get hg) hvz hvg hzg
    have hall : ∀ kv ∈ [(13, #[Val.ptr bz 0]), (bz, #[Val.int 0, .int 0, .int 0, .int 0, .int 0])], h.blocks[kv.1]? = some kv.2 := by
      simpa using ⟨hg, hz'⟩
    rw [show mkH h [(bv, #[.int v0, .int v1, .int v2, .int v3, .int v4]), (13, #[.ptr bz 0]), (bz, #[.int 0, .int 0, .int 0, .int 0, .int 0])] [] = h from
        mkH_intro h _ (by simpa [feCells] using ⟨hv, hg, hz'⟩)] at core
    refine ⟨_, ?_, post1_mkH _ [] (lt_of_get hv) hall⟩
    simp only [runCall, funcIdx_70, callState, funcs_70, mkFrame_70, Option.bind_some, Option.map_some, Option.pure_def,
      Option.bind_eq_bind]
    rw [core]; first | done | rfl
  · obtain ⟨v0, v1, v2, v3, v4⟩ := v
    obtain ⟨a0, a1, a2, a3, a4⟩ := a
    have core := core_Negate_d h [] [] bv ba bz v0 v1 v2 v3 v4 a0 a1 a2 a3 a4 (lt_of_get hv) (lt_of_get ha) (lt_of_get hz) (lt_of_get hg)
      hva hvz hvg haz hag hzg
    have hall : ∀ kv ∈ [(ba, feCells ⟨a0, a1, a2, a3, a4⟩), (13, #[Val.ptr bz 0]), (bz, #[Val.int 0, .int 0, .int 0, .int 0, .int 0])],
        h.blocks[kv.1]? = some kv.2 := by
      simpa using ⟨ha, hg, hz'⟩
    rw [show mkH h [(bv, #[.int v0, .int v1, .int v2, .int v3, .int v4]), (ba, #[.int a0, .int a1, .int a2, .int a3, .int a4]),
          (13, #[.ptr bz 0]), (bz, #[.int 0, .int 0, .int 0, .int 0, .int 0])] [] = h from
        mkH_intro h _ (by simpa [feCells] using ⟨hv, ha, hg, hz'⟩)] at core
    refine ⟨_, ?_, post1_mkH _ [] (lt_of_get hv) hall⟩
    simp only [runCall, funcIdx_70, callState, funcs_70, mkFrame_70, Option.bind_some, Option.map_some, Option.pure_def,
      Option.bind_eq_bind]
    rw [core]; first | done | rfl

end EdVerif.Ssa.Tie
