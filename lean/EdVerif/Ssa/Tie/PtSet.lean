import EdVerif.Ssa.Tie.PtCk
/-!
# `(*Point).Set` (`*v = *u`: one load and one store of 20 cells)
-/
namespace EdVerif.Ssa.Tie
open EdVerif.Ssa EdVerif.Gen.Ssa EdVerif.Prims EdVerif.Impl EdVerif.Gen
set_option maxRecDepth 100000
set_option linter.unusedVariables false

theorem ovE_append (b o : Nat) (W1 W2 : List Val) (hp : Heap) : ovE b o W1 (ovE b (o + W1.length) W2 hp) = ovE b o (W1 ++ W2) hp := by
  apply ovE_ext (by simp) (by simp)
  intro c i hi
  simp only [ovE_blkSize] at hi
  simp only [ovE_cell, ovE_blkSize, List.length_append]
  by_cases h1 : c = b ∧ o ≤ i ∧ i < o + W1.length
  · rw [if_pos (by omega), if_pos (by omega), List.getElem?_append_left (by omega)]
  · rw [if_neg (by omega)]
    by_cases h2 : c = b ∧ o + W1.length ≤ i ∧ i < o + W1.length + W2.length
    · rw [if_pos (by omega), if_pos (by omega), List.getElem?_append_right (by omega)]
      congr 1; omega
    · rw [if_neg (by omega), if_neg (by omega)]

theorem readCells_of_get : ∀ (L : List Val) (V : Array Val) (o : Nat), (∀ k, k < L.length → V[o + k]? = L[k]?) → readCells V o L.length = some L
  | [], _, _, _ => rfl
  | a :: L, V, o, h => by
    have h0 := h 0 (by simp)
    simp only [Nat.add_zero, List.getElem?_cons_zero] at h0
    simp only [List.length_cons, readCells, h0, Option.bind_eq_bind, Option.bind_some]
    rw [readCells_of_get L V (o + 1) (fun k hk => by have := h (k + 1) (by simp; omega); rw [List.getElem?_cons_succ] at this; rw [← this]; congr 1; omega)]
    rfl

theorem read_ovE_self (b o : Nat) (L : List Val) (hp : Heap) (hf : Fits hp b o L.length) : (ovE b o L hp).read b o L.length = some L := by
  simp only [Heap.read, get_ovE_same]
  have hb : b < hp.blocks.size := hf.1
  have e : hp.blocks[b]? = some hp.blocks[b] := by simp [hb]
  rw [e]
  simp only [Option.map_some, Option.bind_some]
  apply readCells_of_get
  intro k hk
  rw [ovl_get]
  have hs : o + L.length ≤ (hp.blocks[b]).size := by have := hf.2; simpa [blkSize, e] using this
  rw [if_pos (by omega)]
  congr 1; omega

section
variable (h0 : Heap) (b : Nat) (x0 x1 x2 x3 y0 y1 y2 y3 : Fe) (ovr : List Ent) (ext : List (Array Val))

theorem mkE_four (hb : b < h0.blocks.size) :
    mkE h0 ((b, 0, feL x0) :: (b, 5, feL x1) :: (b, 10, feL x2) :: (b, 15, feL x3) :: ovr) ext
      = ovE b 0 (feL x0 ++ feL x1 ++ feL x2 ++ feL x3) (mkE h0 ovr ext) := by
  rw [mkE_cons _ _ _ _ _ _ hb, mkE_cons _ _ _ _ _ _ hb, mkE_cons _ _ _ _ _ _ hb, mkE_cons _ _ _ _ _ _ hb]
  have e2 := ovE_append b 10 (feL x2) (feL x3) (mkE h0 ovr ext)
  have e1 := ovE_append b 5 (feL x1) (feL x2 ++ feL x3) (mkE h0 ovr ext)
  have e0 := ovE_append b 0 (feL x0) (feL x1 ++ (feL x2 ++ feL x3)) (mkE h0 ovr ext)
  simp only [feL_length, Nat.reduceAdd, Nat.zero_add] at e0 e1 e2
  rw [e2, e1, e0, List.append_assoc, List.append_assoc]

theorem fits_mkE (c o n : Nat) (hf : Fits h0 c o n) : Fits (mkE h0 ovr ext) c o n := by
  refine ⟨by rw [mkE_size]; have := hf.1; omega, ?_⟩
  rw [mkE_blkSize_lt _ _ _ _ hf.1]; exact hf.2

theorem read20 (hf : Fits h0 b 0 20) :
    (mkE h0 ((b, 0, feL x0) :: (b, 5, feL x1) :: (b, 10, feL x2) :: (b, 15, feL x3) :: ovr) ext).read b 0 20
      = some (feL x0 ++ feL x1 ++ feL x2 ++ feL x3) := by
  rw [mkE_four _ _ _ _ _ _ _ _ hf.1]
  exact read_ovE_self b 0 (feL x0 ++ feL x1 ++ feL x2 ++ feL x3) _ (fits_mkE h0 ovr ext b 0 20 hf)

theorem write20 (hf : Fits h0 b 0 20) :
    (mkE h0 ((b, 0, feL y0) :: (b, 5, feL y1) :: (b, 10, feL y2) :: (b, 15, feL y3) :: ovr) ext).write b 0 (feL x0 ++ feL x1 ++ feL x2 ++ feL x3)
      = some (mkE h0 ((b, 0, feL x0) :: (b, 5, feL x1) :: (b, 10, feL x2) :: (b, 15, feL x3) :: ovr) ext) := by
  rw [mkE_four _ _ _ _ _ _ _ _ hf.1, mkE_four _ _ _ _ _ _ _ _ hf.1]
  rw [write_eq_ovE _ _ _ _ _ (by cases x0; simp [feL])]
  · congr 1
    exact ovE_ovE_same _ _ _ _ _ (by simp [feL_length])
  · intro j hj
    have hj' : j < 20 := by simpa [feL_length] using hj
    have hfit := fits_mkE h0 ovr ext b 0 20 hf
    have hlen : (feL y0 ++ feL y1 ++ feL y2 ++ feL y3).length = 20 := by simp [feL_length]
    rw [ovE_cell, if_pos (by have := hfit.2; omega), Nat.zero_add, Nat.sub_zero]
    have hcls : ∀ (L M : List Val), (∀ v ∈ L, v.cls = .data) → (∀ v ∈ M, v.cls = .data) → L.length = M.length → ∀ j (hj : j < M.length),
        ∃ old, L[j]? = some old ∧ old.cls = (M[j]).cls := by
      intro L M hL hM hlen j hj
      refine ⟨L[j]'(by omega), by simp, ?_⟩
      rw [hL _ (List.getElem_mem _), hM _ (List.getElem_mem _)]
    have hdata : ∀ (a b c d : Fe), ∀ v ∈ feL a ++ feL b ++ feL c ++ feL d, v.cls = .data := by
      intro a b c d v hv
      simp only [List.mem_append, feL, List.mem_cons, List.mem_nil_iff, or_false] at hv
      rcases hv with ((h | h) | h) | h <;> rcases h with h | h | h | h | h <;> subst h <;> rfl
    exact hcls _ _ (hdata y0 y1 y2 y3) (hdata x0 x1 x2 x3) (by simp [feL_length]) j hj

theorem cls20 : listEqClasses (feL x0 ++ feL x1 ++ feL x2 ++ feL x3)
    [.int 0, .int 0, .int 0, .int 0, .int 0, .int 0, .int 0, .int 0, .int 0, .int 0,
     .int 0, .int 0, .int 0, .int 0, .int 0, .int 0, .int 0, .int 0, .int 0, .int 0] = true := by
  cases x0; cases x1; cases x2; cases x3; rfl

end

theorem zeros_5 : prog.zeros 5 = some [.int 0, .int 0, .int 0, .int 0, .int 0, .int 0, .int 0, .int 0, .int 0, .int 0,
    .int 0, .int 0, .int 0, .int 0, .int 0, .int 0, .int 0, .int 0, .int 0, .int 0] := rfl

def body10 : List Instr := body% f10
theorem funcs_10 : prog.funcs[10]? = some f10 := rfl
theorem mkFrame_10 (args : List RVal) (dest : Option Nat) :
    mkFrame 10 f10 args dest = some ⟨10, f10, #[], args.toArray, 0, body10, dest⟩ := rfl
theorem resultTys_10 : f10.resultTys = [6] := rfl
theorem funcIdx_10 : prog.funcIdx? (nm! "(*Point).Set") = some 10 := by decide +kernel

set_option maxHeartbeats 4000000 in
/-- `v.Set(u)` as the outermost call, on the canonical heap of its parameters -/
theorem coreE_Point_Set (v u : P3) (H : Heap) (bv bu : Nat) (hfv : Fits H bv 0 20) (hfu : Fits H bu 0 20) (hne_vu : bv ≠ bu) :
    run prog 3 ⟨mkE H [(bv, 0, feL v.x), (bv, 5, feL v.y), (bv, 10, feL v.z), (bv, 15, feL v.t),
                       (bu, 0, feL u.x), (bu, 5, feL u.y), (bu, 10, feL u.z), (bu, 15, feL u.t)] [],
        [⟨10, f10, #[], #[[.ptr bv 0], [.ptr bu 0]], 0, body10, none⟩]⟩
      = .done ⟨mkE H [(bv, 0, feL (Formulas.Point_Set v u).x), (bv, 5, feL (Formulas.Point_Set v u).y), (bv, 10, feL (Formulas.Point_Set v u).z),
                       (bv, 15, feL (Formulas.Point_Set v u).t),
                       (bu, 0, feL u.x), (bu, 5, feL u.y), (bu, 10, feL u.z), (bu, 15, feL u.t)] [], []⟩ [[.ptr bv 0]] := by
  simp only [body10]
  ssa_execC [resultTys_10, zeros_5, readE_miss_blk, read20, write20, cls20, hfv, hfu, hne_vu, hne_vu.symm]
  rfl

/-- **tie**: `(*Point).Set` on any heap in which the two (distinct) blocks hold the cells of the model values -/
theorem tie_Point_Set (h : Heap) (bv bu : Nat) (v u : P3) (hcv : h.blocks[bv]? = some (cellsP3 v)) (hcu : h.blocks[bu]? = some (cellsP3 u))
    (hne_vu : bv ≠ bu) :
    ∃ h', runCall prog 3 h (nm! "(*Point).Set") [[.ptr bv 0], [.ptr bu 0]] = some (.done ⟨h', []⟩ [[.ptr bv 0]])
      ∧ Post1 h h' bv (cellsP3 (Formulas.Point_Set v u)) := by
  have core := coreE_Point_Set v u h bv bu (fits_of_get hcv 20 (Nat.le_refl _)) (fits_of_get hcu 20 (Nat.le_refl _)) hne_vu
  rw [show mkE h [(bv, 0, feL v.x), (bv, 5, feL v.y), (bv, 10, feL v.z), (bv, 15, feL v.t),
                       (bu, 0, feL u.x), (bu, 5, feL u.y), (bu, 10, feL u.z), (bu, 15, feL u.t)] [] = h
      from mkE_restates h _ (restates4 hcv (restates4 hcu (restates_nil h)))] at core
  refine ⟨_, ?_, post1_mkE4 _ _ _ _ _ [] hcv (cells4_size _ _ _ _) (restates4 hcu (restates_nil h))⟩
  simp only [runCall, funcIdx_10, callState, funcs_10, mkFrame_10, Option.bind_some, Option.map_some, Option.pure_def,
    Option.bind_eq_bind]
  rw [core]

end EdVerif.Ssa.Tie
