import EdVerif.Ssa.Tie.CarryE
/-!
# Elements in an arbitrary heap: `getE`, `OkE`, `setE`

The call lemmas of the kernels are stated on `mkE H [operand slots] []` (`KernE*.lean`).  Here they are turned into lemmas about
an *arbitrary* heap `H` (`AbsK*.lean`, generated): if the operand slots hold elements (`OkE`) and any two of them are the same or
disjoint (`Compat`), the call writes `setE` the T1 value of the elements read with `getE`.  On a canonical heap `mkE h0 ovr ext`
whose entries are elements (`feL x`), `getE`/`OkE`/`setE` are evaluated by the rewrite rules at the end of this file.
-/
namespace EdVerif.Ssa.Tie
open EdVerif.Ssa EdVerif.Gen.Ssa EdVerif.Prims

def natOf : Option Val → Nat
  | some (.int n) => n
  | _ => 0

/-- the element stored at `(b, o)` -/
def getE (H : Heap) (b o : Nat) : Fe :=
  ⟨natOf (cell H b (o + 0)), natOf (cell H b (o + 1)), natOf (cell H b (o + 2)), natOf (cell H b (o + 3)), natOf (cell H b (o + 4))⟩

/-- `(b, o)` is an element slot of `H`: five integer cells -/
def OkE (H : Heap) (b o : Nat) : Prop := Fits H b o 5 ∧ ∀ k, k < 5 → ∃ n, cell H b (o + k) = some (.int n)

/-- `H` with the element `x` stored at `(b, o)` -/
def setE (b o : Nat) (x : Fe) (H : Heap) : Heap := ovE b o (feL x) H

/-- two element slots are the same or disjoint -/
def Compat (b o c o' : Nat) : Prop := (b = c ∧ o = o') ∨ SepE b o c o'

/-- unfolding rules for `simp` (not `rfl`-lemmas: a side condition discharged through a definitional unfolding cannot be assigned
    at reducible transparency) -/
theorem SepE_eq (b o c o' : Nat) : SepE b o c o' = (c ≠ b ∨ o + 5 ≤ o' ∨ o' + 5 ≤ o) := by rw [SepE]
theorem Compat_eq (b o c o' : Nat) : Compat b o c o' = ((b = c ∧ o = o') ∨ SepE b o c o') := by rw [Compat]

theorem nsep {b o c o' : Nat} (h : SepE b o c o') : (b = c ∧ o = o') = False := by
  apply eq_false; unfold SepE at h; omega

theorem feL_length (x : Fe) : (feL x).length = 5 := rfl

theorem okE_cell {H : Heap} {b o : Nat} (h : OkE H b o) : ∀ k, k < 5 → cell H b (o + k) = (feL (getE H b o))[k]? := by
  intro k hk
  obtain ⟨n, hn⟩ := h.2 k hk
  rw [hn]
  match k, hk with
  | 0, _ => simp only [feL, getE, hn, natOf]; rfl
  | 1, _ => simp only [feL, getE, hn, natOf]; rfl
  | 2, _ => simp only [feL, getE, hn, natOf]; rfl
  | 3, _ => simp only [feL, getE, hn, natOf]; rfl
  | 4, _ => simp only [feL, getE, hn, natOf]; rfl

/-- every entry restates what `H` holds -/
def Restates (H : Heap) (ovr : List Ent) : Prop := ∀ e ∈ ovr, ∀ k, k < e.2.2.length → cell H e.1 (e.2.1 + k) = e.2.2[k]?

theorem restates_nil (H : Heap) : Restates H [] := by intro e he; cases he

theorem restates_cons {H : Heap} {b o : Nat} {r : List Ent} (h : OkE H b o) (hr : Restates H r) :
    Restates H ((b, o, feL (getE H b o)) :: r) := by
  intro e he k hk
  rcases List.mem_cons.mp he with rfl | he
  · exact okE_cell h k hk
  · exact hr e he k hk

theorem baseE_restates (H : Heap) : ∀ (ovr : List Ent), Restates H ovr → baseE H ovr = H := by
  intro ovr hall
  induction ovr with
  | nil => rfl
  | cons e r ih =>
    simp only [baseE]
    rw [ih (fun x hx => hall x (List.mem_cons_of_mem _ hx))]
    exact ovE_self _ _ _ _ (fun k hk _ => hall e List.mem_cons_self k hk)

theorem mkE_restates (H : Heap) (ovr : List Ent) (h : Restates H ovr) : mkE H ovr [] = H := mkE_intro H ovr h

theorem mkE_head_intro (H : Heap) (b o : Nat) (W : List Val) (rest : List Ent) (E : List (Array Val)) (hr : Restates H rest) :
    mkE H ((b, o, W) :: rest) E = pushB (ovE b o W H) E := by
  rw [mkE_eq]
  simp only [baseE]
  rw [baseE_restates H rest hr]

/-! ## evaluation on a canonical heap whose entries are elements -/

section eval
variable (h0 : Heap) (b o : Nat) (x y : Fe) (ovr : List Ent) (ext : List (Array Val))

theorem mkE_cell_feL (hf : Fits h0 b o 5) (k : Nat) (hk : k < 5) : cell (mkE h0 ((b, o, feL x) :: ovr) ext) b (o + k) = (feL x)[k]? :=
  mkE_cell_hit h0 b o (feL x) ovr ext k hf hk

theorem getE_hit (hf : Fits h0 b o 5) : getE (mkE h0 ((b, o, feL x) :: ovr) ext) b o = x := by
  simp only [getE, mkE_cell_feL h0 b o x ovr ext hf _ (by decide : 0 < 5), mkE_cell_feL h0 b o x ovr ext hf _ (by decide : 1 < 5),
    mkE_cell_feL h0 b o x ovr ext hf _ (by decide : 2 < 5), mkE_cell_feL h0 b o x ovr ext hf _ (by decide : 3 < 5),
    mkE_cell_feL h0 b o x ovr ext hf _ (by decide : 4 < 5)]
  rfl

theorem mkE_cell_sep (c o' k : Nat) (hs : SepE b o c o') (hk : k < 5) :
    cell (mkE h0 ((b, o, feL x) :: ovr) ext) c (o' + k) = cell (mkE h0 ovr ext) c (o' + k) := by
  apply mkE_cell_miss
  rw [feL_length]
  unfold SepE at hs; omega

theorem getE_miss (c o' : Nat) (hs : SepE b o c o') : getE (mkE h0 ((b, o, feL x) :: ovr) ext) c o' = getE (mkE h0 ovr ext) c o' := by
  simp only [getE, mkE_cell_sep h0 b o x ovr ext c o' _ hs (by decide : 0 < 5), mkE_cell_sep h0 b o x ovr ext c o' _ hs (by decide : 1 < 5),
    mkE_cell_sep h0 b o x ovr ext c o' _ hs (by decide : 2 < 5), mkE_cell_sep h0 b o x ovr ext c o' _ hs (by decide : 3 < 5),
    mkE_cell_sep h0 b o x ovr ext c o' _ hs (by decide : 4 < 5)]

theorem fits_mkE_lt (c o' : Nat) (hf : Fits h0 c o' 5) : Fits (mkE h0 ovr ext) c o' 5 := by
  refine ⟨by rw [mkE_size]; have := hf.1; omega, ?_⟩
  rw [mkE_blkSize_lt _ _ _ _ hf.1]; exact hf.2

theorem okE_hit (hf : Fits h0 b o 5) : OkE (mkE h0 ((b, o, feL x) :: ovr) ext) b o = True := by
  apply eq_true
  refine ⟨fits_mkE_lt h0 _ ext b o hf, ?_⟩
  intro k hk
  rw [mkE_cell_feL h0 b o x ovr ext hf k hk]
  match k, hk with
  | 0, _ => exact ⟨_, rfl⟩
  | 1, _ => exact ⟨_, rfl⟩
  | 2, _ => exact ⟨_, rfl⟩
  | 3, _ => exact ⟨_, rfl⟩
  | 4, _ => exact ⟨_, rfl⟩

theorem okE_miss (c o' : Nat) (hs : SepE b o c o') :
    OkE (mkE h0 ((b, o, feL x) :: ovr) ext) c o' = OkE (mkE h0 ovr ext) c o' := by
  have hc : ∀ k, k < 5 → cell (mkE h0 ((b, o, feL x) :: ovr) ext) c (o' + k) = cell (mkE h0 ovr ext) c (o' + k) :=
    fun k hk => mkE_cell_sep h0 b o x ovr ext c o' k hs hk
  apply propext
  constructor
  · intro ⟨hf, hk⟩
    refine ⟨⟨by have := hf.1; simpa [mkE_size] using this, by have := hf.2; rwa [mkE_blkSize_cons] at this⟩, ?_⟩
    intro k hk'; rw [← hc k hk']; exact hk k hk'
  · intro ⟨hf, hk⟩
    refine ⟨⟨by have := hf.1; simpa [mkE_size] using this, by rw [mkE_blkSize_cons]; exact hf.2⟩, ?_⟩
    intro k hk'; rw [hc k hk']; exact hk k hk'

/-! ### freshly allocated elements (whole blocks of `ext`) -/

def feOfBlk : Option (Array Val) → Fe
  | some V => ⟨natOf V[0]?, natOf V[1]?, natOf V[2]?, natOf V[3]?, natOf V[4]?⟩
  | none => ⟨0, 0, 0, 0, 0⟩

def okBlk : Option (Array Val) → Prop
  | some V => V.size = 5 ∧ ∀ k, k < 5 → ∃ n, V[k]? = some (.int n)
  | none => False

/- not `rfl`-lemmas: `simp` would use them definitionally and the kernel would later re-check the definitional equality on the
   computed values (unfolding the field arithmetic) -/
theorem feOfBlk_feL : feOfBlk (some (feL x).toArray) = x := by cases x; rfl
theorem feOfBlk_lit (a0 a1 a2 a3 a4 : Nat) : feOfBlk (some #[.int a0, .int a1, .int a2, .int a3, .int a4]) = ⟨a0, a1, a2, a3, a4⟩ := by
  rw [feOfBlk]; rfl

theorem okBlk_lit (a0 a1 a2 a3 a4 : Nat) : okBlk (some #[.int a0, .int a1, .int a2, .int a3, .int a4]) = True := by
  apply eq_true
  refine ⟨rfl, ?_⟩
  intro k hk
  match k, hk with
  | 0, _ => exact ⟨_, rfl⟩
  | 1, _ => exact ⟨_, rfl⟩
  | 2, _ => exact ⟨_, rfl⟩
  | 3, _ => exact ⟨_, rfl⟩
  | 4, _ => exact ⟨_, rfl⟩

theorem okBlk_feL : okBlk (some (feL x).toArray) = True := okBlk_lit _ _ _ _ _

theorem mkE_cell_ext (k i : Nat) : cell (mkE h0 ovr ext) (h0.blocks.size + k) i = (ext[k]?).bind (fun V => V[i]?) := by
  rw [mkE_cell_ge _ _ _ _ _ (by omega)]
  congr 2; omega

theorem getE_ext (k : Nat) : getE (mkE h0 ovr ext) (h0.blocks.size + k) 0 = feOfBlk (ext[k]?) := by
  simp only [getE, mkE_cell_ext, Nat.zero_add]
  cases ext[k]? <;> rfl

theorem okE_ext (k : Nat) (h : okBlk (ext[k]?)) : OkE (mkE h0 ovr ext) (h0.blocks.size + k) 0 = True := by
  apply eq_true
  cases hk : ext[k]? with
  | none => rw [hk] at h; exact h.elim
  | some V =>
    rw [hk] at h
    have hlt : k < ext.length := by
      apply Classical.byContradiction; intro hn
      rw [List.getElem?_eq_none (by omega)] at hk; cases hk
    refine ⟨⟨by rw [mkE_size]; omega, ?_⟩, ?_⟩
    · rw [mkE_blkSize_ge _ _ _ _ (by omega), show h0.blocks.size + k - h0.blocks.size = k by omega, hk]
      simp only [Option.map_some, Option.getD_some]
      have := h.1; omega
    · intro j hj
      rw [mkE_cell_ext, hk, Nat.zero_add]
      exact h.2 j hj

/-! ### `setE`, `pushB` -/

theorem pushB_mkE (E : List (Array Val)) : pushB (mkE h0 ovr ext) E = mkE h0 ovr (ext ++ E) := by
  simp [pushB, mkE, Array.append_assoc]

theorem setE_hit (hb : b < h0.blocks.size) : setE b o x (mkE h0 ((b, o, feL y) :: ovr) ext) = mkE h0 ((b, o, feL x) :: ovr) ext := by
  rw [setE, mkE_cons _ _ _ _ _ _ hb, mkE_cons _ _ _ _ _ _ hb]
  exact ovE_ovE_same _ _ _ _ _ rfl

/-- an entry put back on top of a canonical heap -/
def consE (b o : Nat) (W : List Val) (H : Heap) : Heap := ovE b o W H

theorem consE_mkE (W : List Val) (hb : b < h0.blocks.size) : consE b o W (mkE h0 ovr ext) = mkE h0 ((b, o, W) :: ovr) ext :=
  (mkE_cons _ _ _ _ _ _ hb).symm

theorem setE_miss (c o' : Nat) (hs : SepE b o c o') (hb : b < h0.blocks.size) :
    setE c o' x (mkE h0 ((b, o, feL y) :: ovr) ext) = consE b o (feL y) (setE c o' x (mkE h0 ovr ext)) := by
  rw [setE, setE, consE, mkE_cons _ _ _ _ _ _ hb, ovE_comm]
  rw [feL_length, feL_length]
  have := hs.disj5; omega

theorem setE_nil (hb : b < h0.blocks.size) : setE b o x (mkE h0 [] ext) = mkE h0 [(b, o, feL x)] ext := by
  rw [setE, mkE_cons _ _ _ _ _ _ hb]

theorem ovl_full (V : Array Val) (W : List Val) (h : V.size = W.length) : ovl V 0 W = W.toArray := by
  apply Array.ext_getElem?
  intro i
  rw [ovl_get]
  by_cases hi : i < W.length
  · rw [if_pos (by omega)]; simp
  · rw [if_neg (by omega), Array.getElem?_eq_none (by omega)]
    simp [List.getElem?_eq_none (Nat.le_of_not_lt hi)]

theorem setE_ext (k : Nat) (h : okBlk (ext[k]?)) :
    setE (h0.blocks.size + k) 0 x (mkE h0 ovr ext) = mkE h0 ovr (ext.set k (feL x).toArray) := by
  cases hk : ext[k]? with
  | none => rw [hk] at h; exact h.elim
  | some V =>
    rw [hk] at h
    have hlt : k < ext.length := by
      apply Classical.byContradiction; intro hn
      rw [List.getElem?_eq_none (by omega)] at hk; cases hk
    simp only [setE, ovE, mkE]
    congr 1
    apply Array.ext_getElem?
    intro j
    rw [Array.getElem?_modify]
    by_cases hj : j < h0.blocks.size
    · have : h0.blocks.size + k ≠ j := by omega
      rw [if_neg this, Array.getElem?_append_left (by simpa using hj), Array.getElem?_append_left (by simpa using hj)]
    · rw [Array.getElem?_append_right (by simp; omega), Array.getElem?_append_right (by simp; omega)]
      simp only [baseE_size, List.getElem?_toArray]
      by_cases e : h0.blocks.size + k = j
      · subst e
        simp only [if_true, show h0.blocks.size + k - h0.blocks.size = k by omega, hk, Option.map_some]
        rw [List.getElem?_set_self hlt, ovl_full _ _ (by rw [feL_length]; exact h.1)]
      · rw [if_neg e, List.getElem?_set_ne (by omega)]

end eval

end EdVerif.Ssa.Tie
