#!/usr/bin/env python3
"""Generate, for the pointer kernels, the call lemmas on element slots `(block, offset)` in every aliasing pattern
(`KernE*.lean`), and the abstract call lemmas that cover all patterns (`AbsK*.lean`)."""
import itertools, sys, os

LIMBS = range(5)
D = os.path.dirname(os.path.abspath(__file__)) + "/"

def cells(p):
    return "[" + ", ".join(f".int {p}{i}" for i in LIMBS) + "]"

def fe(p):
    return "⟨" + ", ".join(f"{p}{i}" for i in LIMBS) + "⟩"

def limbvars(p):
    return " ".join(f"{p}{i}" for i in LIMBS)

def partitions(ps):
    res = []
    def rec(i, classes):
        if i == len(ps):
            res.append([list(c) for c in classes]); return
        for c in classes:
            c.append(ps[i]); rec(i + 1, classes); c.pop()
        classes.append([ps[i]]); rec(i + 1, classes); classes.pop()
    rec(0, [])
    return res

def variant_name(classes):
    multi = [c for c in classes if len(c) > 1]
    if not multi: return "d"
    return "_".join("".join(c) for c in multi)

class K:
    def __init__(self, name, fidx, gofn, fuel, ptrs, scalars, ret, t1, extras, closing, allocs, nres=1):
        self.name, self.fidx, self.gofn, self.fuel, self.ptrs, self.scalars = name, fidx, gofn, fuel, ptrs, scalars
        self.ret, self.t1, self.extras, self.closing, self.allocs = ret, t1, extras, closing, allocs

CALLER = ("(d : Nat) (cfi : Nat) (cf : Func) (cregs cparams : Array RVal) (cblk : Nat) (crest : List Instr) (cdest : Option Nat) "
          "(frs : List Frame)")

def gen_variant(k, classes, out):
    vn = variant_name(classes)
    rep = {}
    for c in classes:
        for p in c: rep[p] = c[0]
    reps = [c[0] for c in classes]
    sc_vars = " ".join(s for s, _ in k.scalars)
    sc_hyps = " ".join(f"(h{s} : {s} < 2 ^ 64)" for s, h in k.scalars if h)
    sc_hyp_names = [f"h{s}" for s, h in k.scalars if h]
    t1args = " ".join(fe(rep[p]) for p in k.ptrs) + (" " + sc_vars if sc_vars else "")
    t1 = f"({k.t1} {t1args})"
    args = ", ".join(f"[.ptr b{rep[p]} o{rep[p]}]" for p in k.ptrs) + "".join(f", [.int {s}]" for s, _ in k.scalars)
    tail = "[]" if k.allocs else "ovr"
    ovr_in = " :: ".join(f"(b{r}, o{r}, {cells(r)})" for r in reps) + " :: " + tail
    ovr_out = " :: ".join([f"(b{reps[0]}, o{reps[0]}, feL {t1})"] + [f"(b{r}, o{r}, {cells(r)})" for r in reps[1:]]) + " :: " + tail
    fit_hyps = " ".join(f"(hf{r} : Fits h0 b{r} o{r} 5)" for r in reps)
    ne = [(x, y) for x, y in itertools.combinations(reps, 2)]
    ne_hyps = " ".join(f"(hs_{x}{y} : SepE b{x} o{x} b{y} o{y})" for x, y in ne)
    simp_hyps = [f"hf{r}" for r in reps] + sc_hyp_names
    for x, y in ne: simp_hyps += [f"hs_{x}{y}", f"hs_{x}{y}.symm"]
    allvars = " ".join(limbvars(r) for r in reps) + (" " + sc_vars if sc_vars else "")
    bl = " ".join(f"b{r} o{r}" for r in reps)
    ret = f"[.ptr b{reps[0]} o{reps[0]}]" if k.ret else "[]"
    name = f"callE_{k.name}_{vn}"
    if k.allocs:
        out.append(f"""
set_option maxHeartbeats 64000000 in
/-- `{k.gofn}`, aliasing pattern `{vn}` (parameters in one class are the same element slot), called from any frame -/
theorem {name} ({allvars} : Nat) {sc_hyps} :
    ∃ E : List (Array Val), ∀ (h0 : Heap) ({bl} : Nat) {fit_hyps} {ne_hyps} {CALLER},
    steps prog {k.fuel} ⟨mkE h0 ({ovr_in}) [],
        ⟨{k.fidx}, f{k.fidx}, #[], #[{args}], 0, body{k.fidx}, some d⟩ :: ⟨cfi, cf, cregs, cparams, cblk, crest, cdest⟩ :: frs⟩
      = some ⟨mkE h0 ({ovr_out}) E,
          ⟨cfi, cf, regSet cregs d {ret}, cparams, cblk, crest, cdest⟩ :: frs⟩ := by
  apply Exists.intro
  intro h0 {bl} {" ".join(f"hf{r}" for r in reps)} {" ".join(f"hs_{x}{y}" for x, y in ne)} d cfi cf cregs cparams cblk crest cdest frs
  simp only [body{k.fidx}]
  ssa_execE [resultTys_{k.fidx}, {k.extras}, {", ".join(simp_hyps)}]
  {k.closing}

/-- the blocks allocated by `{k.gofn}` in pattern `{vn}` (temporaries of the callees; they depend on the limbs only) -/
noncomputable def xE_{k.name}_{vn} ({allvars} : Nat) : List (Array Val) :=
  open Classical in if h : {sc_conj(k)} then Classical.choose ({name} {allvars} {sc_projs(k)}) else []

theorem callX_{k.name}_{vn} ({allvars} : Nat) {sc_hyps} (h0 : Heap) ({bl} : Nat) {fit_hyps} {ne_hyps} {CALLER} :
    steps prog {k.fuel} ⟨mkE h0 ({ovr_in}) [],
        ⟨{k.fidx}, f{k.fidx}, #[], #[{args}], 0, body{k.fidx}, some d⟩ :: ⟨cfi, cf, cregs, cparams, cblk, crest, cdest⟩ :: frs⟩
      = some ⟨mkE h0 ({ovr_out}) (xE_{k.name}_{vn} {allvars}),
          ⟨cfi, cf, regSet cregs d {ret}, cparams, cblk, crest, cdest⟩ :: frs⟩ := by
  have h : {sc_conj(k)} := {sc_conj_pf(k)}
  simp only [xE_{k.name}_{vn}, dif_pos h]
  exact Classical.choose_spec ({name} {allvars} {" ".join(sc_hyp_names)}) h0 {bl} {" ".join(f"hf{r}" for r in reps)} {" ".join(f"hs_{x}{y}" for x, y in ne)} d cfi cf cregs cparams cblk crest cdest frs
""")
    else:
        out.append(f"""
set_option maxHeartbeats 64000000 in
/-- `{k.gofn}`, aliasing pattern `{vn}` (parameters in one class are the same element slot), called from any frame -/
theorem {name} (h0 : Heap) (ovr ext) ({bl} : Nat) ({allvars} : Nat) {sc_hyps}
    {fit_hyps} {ne_hyps} {CALLER} :
    steps prog {k.fuel} ⟨mkE h0 ({ovr_in}) ext,
        ⟨{k.fidx}, f{k.fidx}, #[], #[{args}], 0, body{k.fidx}, some d⟩ :: ⟨cfi, cf, cregs, cparams, cblk, crest, cdest⟩ :: frs⟩
      = some ⟨mkE h0 ({ovr_out}) ext,
          ⟨cfi, cf, regSet cregs d {ret}, cparams, cblk, crest, cdest⟩ :: frs⟩ := by
  simp only [body{k.fidx}]
  ssa_execE [resultTys_{k.fidx}, {k.extras}, {", ".join(simp_hyps)}]
  {k.closing}
""")

def gen_abs(k, out):
    """abstract call lemma: arbitrary heap, slots pairwise identical or disjoint"""
    ps = k.ptrs
    sc_vars = " ".join(s for s, _ in k.scalars)
    sc_hyps = " ".join(f"(h{s} : {s} < 2 ^ 64)" for s, h in k.scalars if h)
    sc_hyp_names = [f"h{s}" for s, h in k.scalars if h]
    args = ", ".join(f"[.ptr b{p} o{p}]" for p in ps) + "".join(f", [.int {s}]" for s, _ in k.scalars)
    bl = " ".join(f"b{p} o{p}" for p in ps)
    ok = " ".join(f"(hk{p} : OkE H b{p} o{p})" for p in ps)
    pairs = list(itertools.combinations(ps, 2))
    compat = " ".join(f"(hc_{x}{y} : Compat b{x} o{x} b{y} o{y})" for x, y in pairs)
    val = f"({k.t1} " + " ".join(f"(getE H b{p} o{p})" for p in ps) + (" " + sc_vars if sc_vars else "") + ")"
    ret = f"[.ptr b{ps[0]} o{ps[0]}]" if k.ret else "[]"
    lines = []
    def rec(i, classes, indent):
        pad = "  " * indent
        if i == len(ps):
            vn = variant_name(classes)
            reps = [c[0] for c in classes]
            ne = list(itertools.combinations(reps, 2))
            limbs = " ".join(f"(getE H b{r} o{r}).l{j}" for r in reps for j in LIMBS)
            intro_list = ", ".join(f"(b{r}, o{r}, feL (getE H b{r} o{r}))" for r in reps)
            rest_list = ", ".join(f"(b{r}, o{r}, feL (getE H b{r} o{r}))" for r in reps[1:])
            oks = ", ".join(f"hk{r}" for r in reps)
            oks_rest = ", ".join(f"hk{r}" for r in reps[1:])
            fits = " ".join(f"hk{r}.1" for r in reps)
            seps = " ".join(f"hs_{x}{y}" for x, y in ne)
            if k.allocs:
                lines.append(f"{pad}obtain ⟨E, key⟩ := callE_{k.name}_{vn} {limbs} {sc_vars} {' '.join(sc_hyp_names)}")
                lines.append(f"{pad}refine ⟨E, ?_⟩")
                lines.append(f"{pad}intro d cfi cf cregs cparams cblk crest cdest frs")
                lines.append(f"{pad}have key := key H {' '.join(f'b{r} o{r}' for r in reps)} {fits} {seps} d cfi cf cregs cparams cblk crest cdest frs")
            else:
                lines.append(f"{pad}refine ⟨[], ?_⟩")
                lines.append(f"{pad}intro d cfi cf cregs cparams cblk crest cdest frs")
                lines.append(f"{pad}have key := callE_{k.name}_{vn} H [] [] {' '.join(f'b{r} o{r}' for r in reps)} {limbs} {sc_vars} {' '.join(sc_hyp_names)} {fits} {seps} d cfi cf cregs cparams cblk crest cdest frs")
            def rest_term(rs):
                t = "(restates_nil H)"
                for r in reversed(rs):
                    t = f"(restates_cons hk{r} {t})"
                return t
            glist = ", ".join(f"(b{r}, o{r}, [" + ", ".join(f".int (getE H b{r} o{r}).l{j}" for j in LIMBS) + "])" for r in reps)
            lines.append(f"{pad}rw [show mkE H [{glist}] [] = H from mkE_restates H _ {rest_term(reps)}] at key")
            lines.append(f"{pad}rw [key]")
            lines.append(f"{pad}refine congrArg (fun hp => some (⟨hp, _⟩ : State)) ?_")
            lines.append(f"{pad}exact mkE_head_intro H _ _ _ _ _ {rest_term(reps[1:])}")
            return
        p = ps[i]
        def try_classes(j, indent):
            pad = "  " * indent
            if j == len(classes):
                classes.append([p]); rec(i + 1, classes, indent); classes.pop(); return
            r = classes[j][0]
            lines.append(f"{pad}rcases hc_{r}{p} with ⟨e1, e2⟩ | hs_{r}{p}")
            lines.append(f"{pad}· subst e1; subst e2")
            classes[j].append(p); rec(i + 1, classes, indent + 1); classes[j].pop()
            lines.append(f"{pad}· skip")
            try_classes(j + 1, indent + 1)
        try_classes(0, indent)
    rec(0, [], 1)
    hyp_args = " ".join([f"hk{p}" for p in ps] + [f"hc_{x}{y}" for x, y in pairs])
    conj = " ∧ ".join([f"OkE H b{p} o{p}" for p in ps] + [f"Compat b{x} o{x} b{y} o{y}" for x, y in pairs])
    n = len(ps) + len(pairs)
    def proj(i):
        # i-th component of a right-nested conjunction of n props
        s = "h" + ".2" * i
        return s + (".1" if i < n - 1 else "")
    projs = " ".join(f"({proj(i)})" for i in range(n))
    out.append(f"""
/-- `{k.gofn}` called from any frame on an arbitrary heap: the slots hold elements, any two slots are the same or disjoint -/
theorem exA_{k.name} (H : Heap) ({bl} : Nat) {("(" + sc_vars + " : Nat) ") if sc_vars else ""}{sc_hyps}
    {ok} {compat} :
    ∃ E : List (Array Val), ∀ {CALLER},
    steps prog {k.fuel} ⟨H, ⟨{k.fidx}, f{k.fidx}, #[], #[{args}], 0, body{k.fidx}, some d⟩ :: ⟨cfi, cf, cregs, cparams, cblk, crest, cdest⟩ :: frs⟩
      = some ⟨pushB (setE b{ps[0]} o{ps[0]} {val} H) E,
          ⟨cfi, cf, regSet cregs d {ret}, cparams, cblk, crest, cdest⟩ :: frs⟩ := by
""" + "\n".join(lines) + "\n")
    if k.allocs:
        out.append(f"""
open Classical in
/-- the blocks `{k.gofn}` allocates (temporaries of the callees) -/
noncomputable def ext_{k.name} (H : Heap) ({bl} : Nat) {("(" + sc_vars + " : Nat) ") if sc_vars else ""}: List (Array Val) :=
  if h : {sc_hyps_conj(k)}{conj} then Classical.choose (exA_{k.name} H {bl} {sc_vars} {sc_proj(k)} {projs_shift(k, n)}) else []

theorem callA_{k.name} (H : Heap) ({bl} : Nat) {("(" + sc_vars + " : Nat) ") if sc_vars else ""}{sc_hyps}
    {ok} {compat} {CALLER} :
    steps prog {k.fuel} ⟨H, ⟨{k.fidx}, f{k.fidx}, #[], #[{args}], 0, body{k.fidx}, some d⟩ :: ⟨cfi, cf, cregs, cparams, cblk, crest, cdest⟩ :: frs⟩
      = some ⟨pushB (setE b{ps[0]} o{ps[0]} {val} H) (ext_{k.name} H {bl} {sc_vars}),
          ⟨cfi, cf, regSet cregs d {ret}, cparams, cblk, crest, cdest⟩ :: frs⟩ := by
  have h : {sc_hyps_conj(k)}{conj} := ⟨{", ".join(sc_hyp_names + [f"hk{p}" for p in ps] + [f"hc_{x}{y}" for x, y in pairs])}⟩
  simp only [ext_{k.name}, dif_pos h]
  exact Classical.choose_spec (exA_{k.name} H {bl} {sc_vars} {" ".join(sc_hyp_names)} {hyp_args}) d cfi cf cregs cparams cblk crest cdest frs

derive_rules callA_{k.name} runA_{k.name} stepsA_{k.name}
""")
    else:
        out.append(f"""
theorem callA_{k.name} (H : Heap) ({bl} : Nat) {("(" + sc_vars + " : Nat) ") if sc_vars else ""}{sc_hyps}
    {ok} {compat} {CALLER} :
    steps prog {k.fuel} ⟨H, ⟨{k.fidx}, f{k.fidx}, #[], #[{args}], 0, body{k.fidx}, some d⟩ :: ⟨cfi, cf, cregs, cparams, cblk, crest, cdest⟩ :: frs⟩
      = some ⟨setE b{ps[0]} o{ps[0]} {val} H,
          ⟨cfi, cf, regSet cregs d {ret}, cparams, cblk, crest, cdest⟩ :: frs⟩ := by
  obtain ⟨E, key⟩ := exA_{k.name}_nil H {bl} {sc_vars} {" ".join(sc_hyp_names)} {hyp_args}
  exact key d cfi cf cregs cparams cblk crest cdest frs

derive_rules callA_{k.name} runA_{k.name} stepsA_{k.name}
""")


def sc_conj(k):
    hs = [f"{v} < 2 ^ 64" for v, h in k.scalars if h]
    return " ∧ ".join(hs) if hs else "True"

def sc_conj_pf(k):
    hs = [f"h{v}" for v, h in k.scalars if h]
    if not hs: return "trivial"
    return "⟨" + ", ".join(hs) + "⟩" if len(hs) > 1 else hs[0]

def sc_projs(k):
    hs = [v for v, h in k.scalars if h]
    if not hs: return ""
    if len(hs) == 1: return "h"
    return " ".join("(h" + ".2" * i + (".1" if i < len(hs) - 1 else "") + ")" for i in range(len(hs)))

def sc_hyps_conj(k):
    s = "".join(f"{v} < 2 ^ 64 ∧ " for v, h in k.scalars if h)
    return s

def sc_proj(k):
    m = len([1 for _, h in k.scalars if h])
    return " ".join("(h" + ".2" * i + ".1)" for i in range(m))

def projs_shift(k, n):
    m = len([1 for _, h in k.scalars if h])
    res = []
    for i in range(n):
        s = "h" + ".2" * (m + i)
        res.append("(" + s + (".1" if i < n - 1 else "") + ")")
    return " ".join(res)

HDR = """import EdVerif.Ssa.Tie.{imp}
/-!
# GENERATED by gen_aliasE.py — {what}
-/
namespace EdVerif.Ssa.Tie
open EdVerif.Ssa EdVerif.Gen.Ssa EdVerif.Prims
set_option maxRecDepth 100000
set_option linter.unusedVariables false
"""

def emit_kern(fname, imps, what, ks, pre=""):
    hdr = "".join(f"import EdVerif.Ssa.Tie.{i}\n" for i in imps) + HDR.format(imp=imps[0], what=what).split("\n", 1)[1]
    out = [hdr, pre]
    for k in ks:
        for classes in partitions(k.ptrs):
            gen_variant(k, classes, out)
    out.append("\nend EdVerif.Ssa.Tie\n")
    open(D + fname, "w").write("".join(out))

def emit_abs(fname, imps, what, ks):
    hdr = "".join(f"import EdVerif.Ssa.Tie.{i}\n" for i in imps) + HDR.format(imp=imps[0], what=what).split("\n", 1)[1]
    out = [hdr]
    for k in ks:
        gen_abs_any(k, out)
    out.append("\nend EdVerif.Ssa.Tie\n")
    open(D + fname, "w").write("".join(out))

def gen_abs_alloc(k, out):
    """abstract call lemma of a kernel that allocates: the allocated blocks are an explicit function of the values and of the pattern"""
    ps = k.ptrs
    sc_vars = " ".join(s for s, _ in k.scalars)
    sc_hyps = " ".join(f"(h{s} : {s} < 2 ^ 64)" for s, h in k.scalars if h)
    sc_hyp_names = [f"h{s}" for s, h in k.scalars if h]
    args = ", ".join(f"[.ptr b{p} o{p}]" for p in ps) + "".join(f", [.int {s}]" for s, _ in k.scalars)
    bl = " ".join(f"b{p} o{p}" for p in ps)
    ok = " ".join(f"(hk{p} : OkE H b{p} o{p})" for p in ps)
    pairs = list(itertools.combinations(ps, 2))
    compat = " ".join(f"(hc_{x}{y} : Compat b{x} o{x} b{y} o{y})" for x, y in pairs)
    val = f"({k.t1} " + " ".join(f"(getE H b{p} o{p})" for p in ps) + (" " + sc_vars if sc_vars else "") + ")"
    ret = f"[.ptr b{ps[0]} o{ps[0]}]" if k.ret else "[]"
    flags = " ".join(f"c_{x}{y}" for x, y in pairs)
    decs = " ".join(f"(decide (b{x} = b{y} ∧ o{x} = o{y}))" for x, y in pairs)
    # definition tree and proof tree
    dlines, lines = [], []
    def rec(i, classes, indent, facts):
        pad = "  " * indent
        if i == len(ps):
            vn = variant_name(classes)
            reps = [c[0] for c in classes]
            ne = list(itertools.combinations(reps, 2))
            dl = " ".join(f"{r}.l{j}" for r in reps for j in LIMBS)
            dlines.append(f"{pad}xE_{k.name}_{vn} {dl} {sc_vars}")
            limbs = " ".join(f"(getE H b{r} o{r}).l{j}" for r in reps for j in LIMBS)
            fits = " ".join(f"hk{r}.1" for r in reps)
            seps = " ".join(f"hs_{x}{y}" for x, y in ne)
            def rest_term(rs):
                t = "(restates_nil H)"
                for r in reversed(rs):
                    t = f"(restates_cons hk{r} {t})"
                return t
            glist = ", ".join(f"(b{r}, o{r}, [" + ", ".join(f".int (getE H b{r} o{r}).l{j}" for j in LIMBS) + "])" for r in reps)
            lines.append(f"{pad}have key := callX_{k.name}_{vn} {limbs} {sc_vars} {' '.join(sc_hyp_names)} H {' '.join(f'b{r} o{r}' for r in reps)} {fits} {seps} d cfi cf cregs cparams cblk crest cdest frs")
            lines.append(f"{pad}rw [show mkE H [{glist}] [] = H from mkE_restates H _ {rest_term(reps)}] at key")
            lines.append(f"{pad}rw [key]")
            lines.append(f"{pad}refine congrArg (fun hp => some (⟨hp, _⟩ : State)) ?_")
            lines.append(f"{pad}refine (mkE_head_intro H _ _ _ _ _ {rest_term(reps[1:])}).trans ?_")
            fl = ", ".join(facts)
            lines.append(f"{pad}simp only [ext_{k.name}, eq_self, and_self, decide_true, if_true, decide_false, if_false, Bool.false_eq_true{', ' + fl if fl else ''}]")
            lines.append(f"{pad}rfl")
            return
        p = ps[i]
        def try_classes(j, indent, facts):
            pad = "  " * indent
            if j == len(classes):
                classes.append([p]); rec(i + 1, classes, indent, facts); classes.pop(); return
            r = classes[j][0]
            dlines.append(f"{pad}if c_{r}{p} then")
            lines.append(f"{pad}rcases hc_{r}{p} with ⟨e1, e2⟩ | hs_{r}{p}")
            lines.append(f"{pad}· subst e1; subst e2")
            classes[j].append(p); rec(i + 1, classes, indent + 1, facts); classes[j].pop()
            dlines.append(f"{pad}else")
            lines.append(f"{pad}· skip")
            try_classes(j + 1, indent + 1, facts + [f"nsep hs_{r}{p}"])
        try_classes(0, indent, facts)
    rec(0, [], 1, [])
    out.append(f"""
/-- the blocks `{k.gofn}` allocates (temporaries of the callees), as a function of the values and of which slots coincide -/
noncomputable def ext_{k.name} ({" ".join(ps)} : Fe) {("(" + sc_vars + " : Nat) ") if sc_vars else ""}({flags} : Bool) : List (Array Val) :=
""" + "\n".join(dlines) + f"""

/-- `{k.gofn}` called from any frame on an arbitrary heap: the slots hold elements, any two slots are the same or disjoint -/
theorem callA_{k.name} (H : Heap) ({bl} : Nat) {("(" + sc_vars + " : Nat) ") if sc_vars else ""}{sc_hyps}
    {ok} {compat} {CALLER} :
    steps prog {k.fuel} ⟨H, ⟨{k.fidx}, f{k.fidx}, #[], #[{args}], 0, body{k.fidx}, some d⟩ :: ⟨cfi, cf, cregs, cparams, cblk, crest, cdest⟩ :: frs⟩
      = some ⟨pushB (setE b{ps[0]} o{ps[0]} {val} H) (ext_{k.name} {" ".join(f"(getE H b{p} o{p})" for p in ps)} {sc_vars} {decs}),
          ⟨cfi, cf, regSet cregs d {ret}, cparams, cblk, crest, cdest⟩ :: frs⟩ := by
""" + "\n".join(lines) + f"""

derive_rules callA_{k.name} runA_{k.name} stepsA_{k.name}
""")

def gen_abs_any(k, out):
    if k.allocs:
        gen_abs_alloc(k, out)
        return
    if False:
        pass
    else:
        # the existential version is named exA_K_nil (E = [] is not needed: pushB _ E with E from refine ⟨[], _⟩);
        # we restate it with E = [] directly
        tmp = []
        gen_abs(k, tmp)
        s = "".join(tmp)
        s = s.replace(f"theorem exA_{k.name} ", f"theorem exA_{k.name}_nil ")
        s = s.replace("∃ E : List (Array Val), ∀", "∃ E : List (Array Val), E = [] ∧ ∀", 1)
        s = s.replace("refine ⟨[], ?_⟩", "refine ⟨[], rfl, ?_⟩")
        s = s.replace(f"obtain ⟨E, key⟩ := exA_{k.name}_nil", f"obtain ⟨E, rfl, key⟩ := exA_{k.name}_nil")
        s = s.replace("exact key d cfi cf cregs cparams cblk crest cdest frs", "rw [key d cfi cf cregs cparams cblk crest cdest frs, pushB_nil]")
        out.append(s)

MULX = ("funcs_83, mkFrame_83, funcs_116, mkFrame_116, funcs_108, mkFrame_108, funcs_117, mkFrame_117, "
        "↓stepsE_carryPropagate, ↓steps_mul64, ↓steps_addMul64, ↓steps_shiftRightBy51, U128_eta")

kAdd = K("Add", 63, "(*field.Element).Add", 84, ["v", "a", "b"], [], True, "EdVerif.Gen.Field.Add",
         "funcs_84, mkFrame_84, ↓stepsE_carryPropagateGeneric", "rfl", False)
kSub = K("Subtract", 79, "(*field.Element).Subtract", 91, ["v", "a", "b"], [], True, "EdVerif.Gen.Field.Subtract",
         "funcs_83, mkFrame_83, ↓stepsE_carryPropagate", "rfl", False)
kSel = K("Select", 73, "(*field.Element).Select", 56, ["v", "a", "b"], [("c", True)], True, "EdVerif.Gen.Field.Select",
         "funcs_114, mkFrame_114, ↓steps_mask64Bits, not64_mask, and_eq, or_eq", "simp only [feL, EdVerif.Gen.Field.Select]", False)
kSet = K("Set", 74, "(*field.Element).Set", 3, ["v", "a"], [], True, "EdVerif.Gen.Field.Set", "cls5", "rfl", False)
kMultiply = K("Multiply", 69, "(*field.Element).Multiply", 735, ["v", "a", "b"], [], True, "EdVerif.Gen.Field.Multiply",
           MULX + ", funcs_110, mkFrame_110, resultTys_110, body110, funcs_109, mkFrame_109, resultTys_109, body109", "rfl", True)
kSquare = K("Square", 78, "(*field.Element).Square", 478, ["v", "a"], [], True, "EdVerif.Gen.Field.Square",
           MULX + ", funcs_112, mkFrame_112, resultTys_112, body112, funcs_111, mkFrame_111, resultTys_111, body111", "rfl", True)

if __name__ == "__main__":
    emit_kern("KernEAdd.lean", ["CarryE", "AliasAdd"], "`Add` on element slots", [kAdd])
    emit_kern("KernESub.lean", ["CarryE", "AliasSub"], "`Subtract` on element slots", [kSub])
    emit_kern("KernESelect.lean", ["CarryE", "AliasSelect"], "`Select` on element slots", [kSel])
    emit_kern("KernESet.lean", ["CarryE", "AliasMisc"], "`Set` on element slots", [kSet])
    emit_kern("KernEMul.lean", ["CarryE", "WrapMultiply"], "`Multiply` on element slots", [kMultiply])
    emit_kern("KernESq.lean", ["CarryE", "WrapSquare"], "`Square` on element slots", [kSquare])
    emit_abs("AbsKAdd.lean", ["AbsE", "KernEAdd"], "abstract call lemma of `Add`", [kAdd])
    emit_abs("AbsKSub.lean", ["AbsE", "KernESub"], "abstract call lemma of `Subtract`", [kSub])
    emit_abs("AbsKSelect.lean", ["AbsE", "KernESelect"], "abstract call lemma of `Select`", [kSel])
    emit_abs("AbsKSet.lean", ["AbsE", "KernESet"], "abstract call lemma of `Set`", [kSet])
    emit_abs("AbsKMul.lean", ["AbsE", "KernEMul"], "abstract call lemma of `Multiply`", [kMultiply])
    emit_abs("AbsKSq.lean", ["AbsE", "KernESq"], "abstract call lemma of `Square`", [kSquare])
