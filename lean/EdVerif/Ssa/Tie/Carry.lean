import EdVerif.Ssa.Tie.Small
/-!
# `(*field.Element).carryPropagateGeneric` and `(*field.Element).carryPropagate`
-/
namespace EdVerif.Ssa.Tie
open EdVerif.Ssa EdVerif.Gen.Ssa EdVerif.Prims
set_option maxRecDepth 100000

/-- the five cells of an `Element` -/
def feCells (v : Fe) : Array Val := #[.int v.l0, .int v.l1, .int v.l2, .int v.l3, .int v.l4]

theorem feCells_inj {v a : Fe} (h : feCells v = feCells a) : v = a := by
  obtain ⟨v0, v1, v2, v3, v4⟩ := v
  obtain ⟨a0, a1, a2, a3, a4⟩ := a
  simp only [feCells, Array.mk.injEq, List.cons.injEq, Val.int.injEq, and_true] at h
  obtain ⟨h0, h1, h2, h3, h4⟩ := h
  subst h0 h1 h2 h3 h4; rfl

theorem lt_of_get {α} {a : Array α} {i : Nat} {x : α} (h : a[i]? = some x) : i < a.size := by
  apply Classical.byContradiction; intro hn
  rw [Array.getElem?_eq_none (by omega)] at h; cases h

/-- if every override restates the original contents, the blocks of `h` are unchanged -/
theorem mkH_get_orig (h : Heap) (ext) : ∀ (ovr : List (Nat × Array Val)), (∀ kv ∈ ovr, h.blocks[kv.1]? = some kv.2) →
    ∀ c, c < h.blocks.size → (mkH h ovr ext).blocks[c]? = h.blocks[c]? := by
  intro ovr
  induction ovr with
  | nil => intro _ c hc; exact mkH_get_nil h c ext hc
  | cons kv r ih =>
    intro hall c hc
    obtain ⟨b, V⟩ := kv
    by_cases e : c = b
    · subst e
      rw [mkH_get_hit h c V r ext hc]
      exact (hall (c, V) List.mem_cons_self).symm
    · rw [mkH_get_miss h b c V r ext e]
      exact ih (fun x hx => hall x (List.mem_cons_of_mem _ hx)) c hc

/-- `h'` is `h` with block `b` replaced by `V'`, possibly followed by freshly allocated blocks;
    every other block of `h` is unchanged -/
def Post1 (h h' : Heap) (b : Nat) (V' : Array Val) : Prop :=
  h.blocks.size ≤ h'.blocks.size ∧ h'.blocks[b]? = some V' ∧ ∀ c, c < h.blocks.size → c ≠ b → h'.blocks[c]? = h.blocks[c]?

/-- the same with two replaced blocks -/
def Post2 (h h' : Heap) (b1 : Nat) (V1 : Array Val) (b2 : Nat) (V2 : Array Val) : Prop :=
  h.blocks.size ≤ h'.blocks.size ∧ h'.blocks[b1]? = some V1 ∧ h'.blocks[b2]? = some V2 ∧
    ∀ c, c < h.blocks.size → c ≠ b1 → c ≠ b2 → h'.blocks[c]? = h.blocks[c]?

/-- no block of `h` changed (the heap may have grown) -/
def Post0 (h h' : Heap) : Prop :=
  h.blocks.size ≤ h'.blocks.size ∧ ∀ c, c < h.blocks.size → h'.blocks[c]? = h.blocks[c]?

theorem post0_mkH (h : Heap) (ext) : Post0 h (mkH h [] ext) :=
  ⟨by simp [mkH_size], fun c hc => mkH_get_nil h c ext hc⟩

theorem post1_mkH {h : Heap} {b : Nat} (V' : Array Val) {ovr : List (Nat × Array Val)} (ext)
    (hb : b < h.blocks.size) (hall : ∀ kv ∈ ovr, h.blocks[kv.1]? = some kv.2) :
    Post1 h (mkH h ((b, V') :: ovr) ext) b V' := by
  refine ⟨by simp [mkH_size], mkH_get_hit h b V' ovr ext hb, ?_⟩
  intro c hc hne
  rw [mkH_get_miss h b c V' ovr ext hne]
  exact mkH_get_orig h ext ovr hall c hc

theorem post2_mkH {h : Heap} {b1 b2 : Nat} (V1 V2 : Array Val) {ovr : List (Nat × Array Val)} (ext)
    (hb1 : b1 < h.blocks.size) (hb2 : b2 < h.blocks.size) (hne : b1 ≠ b2) (hall : ∀ kv ∈ ovr, h.blocks[kv.1]? = some kv.2) :
    Post2 h (mkH h ((b1, V1) :: (b2, V2) :: ovr) ext) b1 V1 b2 V2 := by
  refine ⟨by simp [mkH_size], mkH_get_hit h b1 V1 _ ext hb1, ?_, ?_⟩
  · rw [mkH_get_miss h b1 b2 V1 _ ext (Ne.symm hne)]; exact mkH_get_hit h b2 V2 ovr ext hb2
  · intro c hc h1 h2
    rw [mkH_get_miss h b1 c V1 _ ext h1, mkH_get_miss h b2 c V2 ovr ext h2]
    exact mkH_get_orig h ext ovr hall c hc

/-! ## `carryPropagateGeneric` -/

def body84 : List Instr := body% f84
theorem funcs_84 : prog.funcs[84]? = some f84 := rfl
theorem mkFrame_84 (args : List RVal) (dest : Option Nat) :
    mkFrame 84 f84 args dest = some ⟨84, f84, #[], args.toArray, 0, body84, dest⟩ := rfl
theorem resultTys_84 : f84.resultTys = [19] := rfl
theorem funcIdx_84 : prog.funcIdx? (nm! "(*field.Element).carryPropagateGeneric") = some 84 := by decide +kernel

abbrev cpg (v0 v1 v2 v3 v4 : Nat) : Fe := EdVerif.Gen.Field.carryPropagateGeneric ⟨v0, v1, v2, v3, v4⟩

set_option maxHeartbeats 4000000 in
theorem call_carryPropagateGeneric (h0 : Heap) (ovr ext) (bv : Nat) (v0 v1 v2 v3 v4 : Nat) (hbv : bv < h0.blocks.size) (d : Nat)
    (cfi : Nat) (cf : Func) (cregs cparams : Array RVal) (cblk : Nat) (crest : List Instr) (cdest : Option Nat) (frs : List Frame) :
    steps prog 47 ⟨mkH h0 ((bv, #[.int v0, .int v1, .int v2, .int v3, .int v4]) :: ovr) ext,
        ⟨84, f84, #[], #[[.ptr bv 0]], 0, body84, some d⟩ :: ⟨cfi, cf, cregs, cparams, cblk, crest, cdest⟩ :: frs⟩
      = some ⟨mkH h0 ((bv, #[.int (cpg v0 v1 v2 v3 v4).l0, .int (cpg v0 v1 v2 v3 v4).l1, .int (cpg v0 v1 v2 v3 v4).l2,
                              .int (cpg v0 v1 v2 v3 v4).l3, .int (cpg v0 v1 v2 v3 v4).l4]) :: ovr) ext,
          ⟨cfi, cf, regSet cregs d [.ptr bv 0], cparams, cblk, crest, cdest⟩ :: frs⟩ := by
  simp only [body84]
  ssa_exec [resultTys_84, read_hit, write_hit, hbv]
  rfl

derive_rules call_carryPropagateGeneric run_carryPropagateGeneric steps_carryPropagateGeneric

set_option maxHeartbeats 4000000 in
/-- the run of `carryPropagateGeneric` as the outermost call, on a canonical heap -/
theorem core_carryPropagateGeneric (h0 : Heap) (ovr ext) (bv : Nat) (v0 v1 v2 v3 v4 : Nat) (hbv : bv < h0.blocks.size) :
    run prog 47 ⟨mkH h0 ((bv, #[.int v0, .int v1, .int v2, .int v3, .int v4]) :: ovr) ext,
        [⟨84, f84, #[], #[[.ptr bv 0]], 0, body84, none⟩]⟩
      = .done ⟨mkH h0 ((bv, #[.int (cpg v0 v1 v2 v3 v4).l0, .int (cpg v0 v1 v2 v3 v4).l1, .int (cpg v0 v1 v2 v3 v4).l2,
                              .int (cpg v0 v1 v2 v3 v4).l3, .int (cpg v0 v1 v2 v3 v4).l4]) :: ovr) ext, []⟩ [[.ptr bv 0]] := by
  simp only [body84]
  ssa_exec [resultTys_84, read_hit, write_hit, hbv]
  rfl

/-- **tie**: `v.carryPropagateGeneric()` on any heap in which block `bv` holds the limbs of `v`: returns `v`, block `bv`
    then holds the limbs of T1's `carryPropagateGeneric v`, no other block changes. -/
theorem tie_carryPropagateGeneric (h : Heap) (bv : Nat) (v : Fe) (hv : h.blocks[bv]? = some (feCells v)) :
    ∃ h', runCall prog 47 h (nm! "(*field.Element).carryPropagateGeneric") [[.ptr bv 0]] = some (.done ⟨h', []⟩ [[.ptr bv 0]])
      ∧ h'.blocks[bv]? = some (feCells (EdVerif.Gen.Field.carryPropagateGeneric v))
      ∧ h'.blocks.size = h.blocks.size
      ∧ ∀ c, c ≠ bv → h'.blocks[c]? = h.blocks[c]? := by
  have hbv : bv < h.blocks.size := lt_of_get hv
  obtain ⟨v0, v1, v2, v3, v4⟩ := v
  have core := core_carryPropagateGeneric h [] [] bv v0 v1 v2 v3 v4 hbv
  rw [mkH_intro h [(bv, _)] (by simpa [feCells] using hv)] at core
  refine ⟨mkH h [(bv, feCells (cpg v0 v1 v2 v3 v4))] [], ?_, ?_, ?_, ?_⟩
  · simp only [runCall, funcIdx_84, callState, funcs_84, mkFrame_84, Option.bind_some, Option.map_some, Option.pure_def,
      Option.bind_eq_bind]
    rw [core]; rfl
  · rw [mkH_get_hit h bv _ [] [] hbv]
  · simp [mkH_size]
  · intro c hc
    rw [mkH_get_miss h bv c _ [] [] hc]
    simp [mkH, base]


/-! ## `carryPropagate` (the wrapper that the assembly build replaces) -/

def body83 : List Instr := body% f83
theorem funcs_83 : prog.funcs[83]? = some f83 := rfl
theorem mkFrame_83 (args : List RVal) (dest : Option Nat) :
    mkFrame 83 f83 args dest = some ⟨83, f83, #[], args.toArray, 0, body83, dest⟩ := rfl
theorem resultTys_83 : f83.resultTys = [19] := rfl
theorem funcIdx_83 : prog.funcIdx? (nm! "(*field.Element).carryPropagate") = some 83 := by decide +kernel

abbrev cp (v0 v1 v2 v3 v4 : Nat) : Fe := EdVerif.Gen.Field.carryPropagate ⟨v0, v1, v2, v3, v4⟩

set_option maxHeartbeats 4000000 in
theorem call_carryPropagate (h0 : Heap) (ovr ext) (bv : Nat) (v0 v1 v2 v3 v4 : Nat) (hbv : bv < h0.blocks.size) (d : Nat)
    (cfi : Nat) (cf : Func) (cregs cparams : Array RVal) (cblk : Nat) (crest : List Instr) (cdest : Option Nat) (frs : List Frame) :
    steps prog 49 ⟨mkH h0 ((bv, #[.int v0, .int v1, .int v2, .int v3, .int v4]) :: ovr) ext,
        ⟨83, f83, #[], #[[.ptr bv 0]], 0, body83, some d⟩ :: ⟨cfi, cf, cregs, cparams, cblk, crest, cdest⟩ :: frs⟩
      = some ⟨mkH h0 ((bv, #[.int (cp v0 v1 v2 v3 v4).l0, .int (cp v0 v1 v2 v3 v4).l1, .int (cp v0 v1 v2 v3 v4).l2,
                              .int (cp v0 v1 v2 v3 v4).l3, .int (cp v0 v1 v2 v3 v4).l4]) :: ovr) ext,
          ⟨cfi, cf, regSet cregs d [.ptr bv 0], cparams, cblk, crest, cdest⟩ :: frs⟩ := by
  simp only [body83]
  ssa_exec [resultTys_83, funcs_84, mkFrame_84, ↓steps_carryPropagateGeneric, hbv]
  rfl

derive_rules call_carryPropagate run_carryPropagate steps_carryPropagate

set_option maxHeartbeats 4000000 in
theorem core_carryPropagate (h0 : Heap) (ovr ext) (bv : Nat) (v0 v1 v2 v3 v4 : Nat) (hbv : bv < h0.blocks.size) :
    run prog 49 ⟨mkH h0 ((bv, #[.int v0, .int v1, .int v2, .int v3, .int v4]) :: ovr) ext,
        [⟨83, f83, #[], #[[.ptr bv 0]], 0, body83, none⟩]⟩
      = .done ⟨mkH h0 ((bv, feCells (cp v0 v1 v2 v3 v4)) :: ovr) ext, []⟩ [[.ptr bv 0]] := by
  simp only [body83]
  ssa_exec [resultTys_83, funcs_84, mkFrame_84, ↓run_carryPropagateGeneric, hbv]
  rfl

/-- **tie**: `v.carryPropagate()` -/
theorem tie_carryPropagate (h : Heap) (bv : Nat) (v : Fe) (hv : h.blocks[bv]? = some (feCells v)) :
    ∃ h', runCall prog 49 h (nm! "(*field.Element).carryPropagate") [[.ptr bv 0]] = some (.done ⟨h', []⟩ [[.ptr bv 0]])
      ∧ Post1 h h' bv (feCells (EdVerif.Gen.Field.carryPropagate v)) := by
  have hbv : bv < h.blocks.size := lt_of_get hv
  obtain ⟨v0, v1, v2, v3, v4⟩ := v
  have core := core_carryPropagate h [] [] bv v0 v1 v2 v3 v4 hbv
  rw [mkH_intro h [(bv, _)] (by simpa [feCells] using hv)] at core
  refine ⟨_, ?_, post1_mkH (ovr := []) _ [] hbv (by simp)⟩
  simp only [runCall, funcIdx_83, callState, funcs_83, mkFrame_83, Option.bind_some, Option.map_some, Option.pure_def,
    Option.bind_eq_bind]
  rw [core]

end EdVerif.Ssa.Tie
