import EdVerif.Ssa.Tie.Carry
/-!
# `(*field.Element).reduce`
-/
namespace EdVerif.Ssa.Tie
open EdVerif.Ssa EdVerif.Gen.Ssa EdVerif.Prims
set_option maxRecDepth 100000

def body85 : List Instr := body% f85
theorem funcs_85 : prog.funcs[85]? = some f85 := rfl
theorem mkFrame_85 (args : List RVal) (dest : Option Nat) :
    mkFrame 85 f85 args dest = some ⟨85, f85, #[], args.toArray, 0, body85, dest⟩ := rfl
theorem resultTys_85 : f85.resultTys = [19] := rfl
theorem funcIdx_85 : prog.funcIdx? (nm! "(*field.Element).reduce") = some 85 := by decide +kernel

abbrev redT (v0 v1 v2 v3 v4 : Nat) : Fe := EdVerif.Gen.Field.reduce ⟨v0, v1, v2, v3, v4⟩

set_option maxHeartbeats 16000000 in
theorem call_reduce (h0 : Heap) (ovr ext) (bv : Nat) (v0 v1 v2 v3 v4 : Nat) (hbv : bv < h0.blocks.size) (d : Nat)
    (cfi : Nat) (cf : Func) (cregs cparams : Array RVal) (cblk : Nat) (crest : List Instr) (cdest : Option Nat) (frs : List Frame) :
    steps prog 134 ⟨mkH h0 ((bv, #[.int v0, .int v1, .int v2, .int v3, .int v4]) :: ovr) ext,
        ⟨85, f85, #[], #[[.ptr bv 0]], 0, body85, some d⟩ :: ⟨cfi, cf, cregs, cparams, cblk, crest, cdest⟩ :: frs⟩
      = some ⟨mkH h0 ((bv, #[.int (redT v0 v1 v2 v3 v4).l0, .int (redT v0 v1 v2 v3 v4).l1, .int (redT v0 v1 v2 v3 v4).l2,
                              .int (redT v0 v1 v2 v3 v4).l3, .int (redT v0 v1 v2 v3 v4).l4]) :: ovr) ext,
          ⟨cfi, cf, regSet cregs d [.ptr bv 0], cparams, cblk, crest, cdest⟩ :: frs⟩ := by
  simp only [body85]
  ssa_exec [resultTys_85, funcs_83, mkFrame_83, ↓steps_carryPropagate, read_hit, write_hit, hbv]
  rfl

derive_rules call_reduce run_reduce steps_reduce

set_option maxHeartbeats 16000000 in
theorem core_reduce (h0 : Heap) (ovr ext) (bv : Nat) (v0 v1 v2 v3 v4 : Nat) (hbv : bv < h0.blocks.size) :
    run prog 134 ⟨mkH h0 ((bv, #[.int v0, .int v1, .int v2, .int v3, .int v4]) :: ovr) ext,
        [⟨85, f85, #[], #[[.ptr bv 0]], 0, body85, none⟩]⟩
      = .done ⟨mkH h0 ((bv, feCells (redT v0 v1 v2 v3 v4)) :: ovr) ext, []⟩ [[.ptr bv 0]] := by
  simp only [body85]
  ssa_exec [resultTys_85, funcs_83, mkFrame_83, ↓run_carryPropagate, read_hit, write_hit, hbv]
  rfl

/-- **tie**: `v.reduce()` -/
theorem tie_reduce (h : Heap) (bv : Nat) (v : Fe) (hv : h.blocks[bv]? = some (feCells v)) :
    ∃ h', runCall prog 134 h (nm! "(*field.Element).reduce") [[.ptr bv 0]] = some (.done ⟨h', []⟩ [[.ptr bv 0]])
      ∧ Post1 h h' bv (feCells (EdVerif.Gen.Field.reduce v)) := by
  have hbv : bv < h.blocks.size := lt_of_get hv
  obtain ⟨v0, v1, v2, v3, v4⟩ := v
  have core := core_reduce h [] [] bv v0 v1 v2 v3 v4 hbv
  rw [mkH_intro h [(bv, _)] (by simpa [feCells] using hv)] at core
  refine ⟨_, ?_, post1_mkH (ovr := []) _ [] hbv (by simp)⟩
  simp only [runCall, funcIdx_85, callState, funcs_85, mkFrame_85, Option.bind_some, Option.map_some, Option.pure_def,
    Option.bind_eq_bind]
  rw [core]

end EdVerif.Ssa.Tie
