import EdVerif.Ssa.Tie.HeapE
import EdVerif.Ssa.Tie.Exec
/-!
# The stepper on element-granular heaps (`mkE`)

`ssa_execE` is `ssa_exec` with the heap lemmas of `HeapE.lean`.  Operands are element slots `(block, offset)`; the
side conditions (`Fits`, `SepE`) are hypotheses passed to the tactic.
-/
namespace EdVerif.Ssa.Tie
open EdVerif.Ssa EdVerif.Gen.Ssa

/-- the call lemmas of the heap-independent kernels (`mul64`, …) append their locals with `mkH _ [] _` -/
theorem mkH_mkE (h0 : Heap) (ovr ext ext') : mkH (mkE h0 ovr ext) [] ext' = mkE h0 ovr (ext ++ ext') := by
  simp [mkH, base, mkE, Array.append_assoc]

theorem lt5_0 : (0 < 5) = True := by decide
theorem lt5_1 : (1 < 5) = True := by decide
theorem lt5_2 : (2 < 5) = True := by decide
theorem lt5_3 : (3 < 5) = True := by decide
theorem lt5_4 : (4 < 5) = True := by decide

syntax "ssa_execE" "[" Lean.Parser.Tactic.simpLemma,* "]" : tactic
macro_rules
  | `(tactic| ssa_execE [$ls,*]) => `(tactic|
  simp only [run_succ, runK_cont, runK_done, steps_succ, stepsK_cont, steps_zero,
    step_alloc, step_binop, step_unop, step_load, step_call, step_convert, step_extract, step_fieldAddr, step_field,
    step_store, step_ret,
    stepStore, stepLoad, stepFieldAddr, stepField, stepBinop, stepUnop, stepConvert, stepRet, stepCall,
    evalOpnd_reg, evalOpnd_param, evalOpnd_cint, evalOpnds_nil, evalOpnds_cons,
    contReg, contNoReg, regSet_toArray, intBinop, beq_shl_shl, beq_shr_shl, intShift_shl, intShift_shr, isConst_cint,
    tyOf_3, tyOf_4, tyOf_10, tyOf_19, tyOf_50, zeros_19, cls_ptr, evalOpnd_global, tyOf_60, tyOf_72, tyOf_73, tyOf_84, zeros_3, zeros_4, zeros_73,
    span2_0, span2_1, span5_0, span5_1, span5_2, span5_3, span5_4, intOfTy_3, intOfTy_10,
    stepAlloc_84, stepAlloc_19, cls1, cls2, cls5, cls_int, extern_mul64, extern_add64,
    alloc_mkE, readE_ext, writeE_ext, readCells, writeCells, mkE_mkE, mkH_mkE, retValue,
    readE_hit_0, readE_hit_1, readE_hit_2, readE_hit_3, readE_hit_4, readE_hit5, readE_miss, readE_miss5,
    writeE_hit_0, writeE_hit_1, writeE_hit_2, writeE_hit_3, writeE_hit_4, writeE_hit5,
    lt5_0, lt5_1, lt5_2, lt5_3, lt5_4,
    List.headD, List.tail, List.getElem?_toArray, List.getElem?_cons_zero, List.getElem?_cons_succ,
    List.length_cons, List.length_nil, List.cons_append, List.nil_append, List.replicate, List.set_cons_zero, List.set_cons_succ,
    List.setIfInBounds_toArray, List.drop, List.take, List.flatten_cons, List.flatten_nil, List.append_nil,
    Option.bind_some, Option.map_some, Option.pure_def, Option.bind_eq_bind,
    if_true, if_false, ite_true, ite_false, Bool.false_eq_true, Nat.reduceAdd, Nat.reduceSub, Nat.reduceLT, Nat.reduceLeDiff, Nat.reduceGT,
    reduceIte, Nat.reduceMul, $ls,*])

end EdVerif.Ssa.Tie
