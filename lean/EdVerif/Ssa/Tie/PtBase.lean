import EdVerif.Ssa.Tie.AbsKAdd
import EdVerif.Ssa.Tie.AbsKSub
import EdVerif.Ssa.Tie.AbsKMul
import EdVerif.Ssa.Tie.AbsKSq
import EdVerif.Ssa.Tie.AbsKSelect
import EdVerif.Ssa.Tie.AbsKSet
import EdVerif.Impl.Point
/-!
# The point layer: common definitions and the stepper `ssa_execP`

A point-layer function only computes addresses of elements (`FieldAddr` on its parameters, `Alloc` of local elements) and calls the
kernels.  On a canonical heap `mkE H ovr ext` whose entries are the elements of the parameters (`(block, offset, feL x)`) and
whose fresh blocks are the local elements, a kernel call is one application of its abstract call lemma (`stepsA_*`/`runA_*`):
the side conditions `OkE`, `Compat` and the values `getE` are evaluated by the rules of `AbsE.lean`, and the resulting heap
`pushB (setE …) …` is put back into canonical form.
-/
namespace EdVerif.Ssa.Tie
open EdVerif.Ssa EdVerif.Gen.Ssa EdVerif.Prims EdVerif.Impl
set_option maxRecDepth 100000

/-! ## the struct types of the point layer -/

theorem tyOf_5 : prog.tyOf 5 = .struct [2, 4, 4, 4, 4] := rfl
theorem tyOf_6 : prog.tyOf 6 = .ptr 5 := rfl
theorem tyOf_13 : prog.tyOf 13 = .struct [4, 4, 4, 4] := rfl
theorem tyOf_14 : prog.tyOf 14 = .ptr 13 := rfl
theorem tyOf_25 : prog.tyOf 25 = .struct [4, 4, 4] := rfl
theorem tyOf_26 : prog.tyOf 26 = .ptr 25 := rfl
theorem spanP_1 : prog.fieldSpan [2, 4, 4, 4, 4] 1 = some (0, 5) := rfl
theorem spanP_2 : prog.fieldSpan [2, 4, 4, 4, 4] 2 = some (5, 5) := rfl
theorem spanP_3 : prog.fieldSpan [2, 4, 4, 4, 4] 3 = some (10, 5) := rfl
theorem spanP_4 : prog.fieldSpan [2, 4, 4, 4, 4] 4 = some (15, 5) := rfl
theorem span4_0 : prog.fieldSpan [4, 4, 4, 4] 0 = some (0, 5) := rfl
theorem span4_1 : prog.fieldSpan [4, 4, 4, 4] 1 = some (5, 5) := rfl
theorem span4_2 : prog.fieldSpan [4, 4, 4, 4] 2 = some (10, 5) := rfl
theorem span4_3 : prog.fieldSpan [4, 4, 4, 4] 3 = some (15, 5) := rfl
theorem span3_0 : prog.fieldSpan [4, 4, 4] 0 = some (0, 5) := rfl
theorem span3_1 : prog.fieldSpan [4, 4, 4] 1 = some (5, 5) := rfl
theorem span3_2 : prog.fieldSpan [4, 4, 4] 2 = some (10, 5) := rfl

/-! ## blocks below the heap size are not fresh blocks -/

theorem ne_fresh {b n : Nat} (k : Nat) (h : b < n) : (b = n + k) = False := by apply eq_false; omega
theorem fresh_ne {b n : Nat} (k : Nat) (h : b < n) : (n + k = b) = False := by apply eq_false; omega
theorem fresh_eq (n j k : Nat) : (n + j = n + k) = (j = k) := by apply propext; omega

theorem fits_sub {H : Heap} {b n : Nat} (o : Nat) (h : Fits H b 0 n) (ho : o + 5 ≤ n) : Fits H b o 5 :=
  ⟨h.1, by have := h.2; omega⟩

/-! ## the T1 kernels with the dummy receiver (`Impl/Fe.lean`) -/

/- (proved through a rewrite so that they are not `rfl`-lemmas: used definitionally by `simp`, the kernel would have to re-check
   `Field.Multiply V a b ≡ Field.Multiply rz a b` for a computed receiver value `V`, and tries `V ≡ rz` first) -/
theorem Multiply_rz (v a b : Fe) : EdVerif.Gen.Field.Multiply v a b = Fe.mul a b := by rw [Fe.mul]; rfl
theorem Square_rz (v a : Fe) : EdVerif.Gen.Field.Square v a = Fe.square a := by rw [Fe.square]; rfl
theorem Add_rz (v a b : Fe) : EdVerif.Gen.Field.Add v a b = Fe.add a b := by rw [Fe.add]; rfl
theorem Subtract_rz (v a b : Fe) : EdVerif.Gen.Field.Subtract v a b = Fe.sub a b := by rw [Fe.sub]; rfl
theorem Select_rz (v a b : Fe) (c : Nat) : EdVerif.Gen.Field.Select v a b c = Fe.select a b c := by rw [Fe.select]; rfl
theorem Set_rz (v a : Fe) : EdVerif.Gen.Field.Set v a = a := by rw [EdVerif.Gen.Field.Set]

/-! ## the stepper -/

syntax "ssa_execP" "[" Lean.Parser.Tactic.simpLemma,* "]" : tactic
macro_rules
  | `(tactic| ssa_execP [$ls,*]) => `(tactic|
  ssa_execE [tyOf_5, tyOf_6, tyOf_13, tyOf_14, tyOf_25, tyOf_26, spanP_1, spanP_2, spanP_3, spanP_4, span4_0, span4_1, span4_2, span4_3,
    span3_0, span3_1, span3_2,
    funcs_63, mkFrame_63, funcs_79, mkFrame_79, funcs_69, mkFrame_69, funcs_78, mkFrame_78, funcs_73, mkFrame_73, funcs_74, mkFrame_74,
    getE_hit, getE_miss, getE_ext, okE_hit, okE_miss, okE_ext, okBlk_lit, okBlk_feL, feOfBlk_feL, feOfBlk_lit,
    setE_hit, setE_miss, setE_ext, setE_nil, consE_mkE, pushB_mkE,
    Compat_eq, SepE_eq, ne_fresh, fresh_ne, fresh_eq, ne_eq, eq_self, not_true_eq_false, not_false_eq_true,
    true_and, and_true, false_and, and_false, true_or, or_true, false_or, or_false, and_self, or_self,
    Nat.reduceEqDiff, Nat.reduceLeDiff, Nat.reduceAdd, decide_false, decide_true, $ls,*])

end EdVerif.Ssa.Tie
