import EdVerif.Ssa.Tie.PtGlob
import EdVerif.Ssa.Tie.KernESwap
import EdVerif.Ssa.Tie.Bytes
import EdVerif.Gen.Formulas
/-!
# Control flow and `checkInitialized`

Rewrite rules for `Jump`, `If`, `Phi` (through `jumpTo` lemmas for the blocks of `checkInitialized` = function 93), `IndexAddr`,
`Slice` of an array, loads/stores of pointers, comparison of an element with the zero value.  `checkInitialized` is executed inline
by its callers (`(*Point).Negate`, `MultByCofactor`, …): the path depends on whether `x` is the zero value, so the callers are proved
by cases.
-/
namespace EdVerif.Ssa.Tie
open EdVerif.Ssa EdVerif.Gen.Ssa EdVerif.Prims EdVerif.Impl
set_option maxRecDepth 100000
set_option linter.unusedVariables false

section rules
variable (p : Program) (hp : Heap) (fi : Nat) (f : Func) (regs params : Array RVal) (blk : Nat) (rest : List Instr)
  (dest : Option Nat) (frs : List Frame) (id : Nat) (k : VK) (ln ty : Nat) (tys : List Nat)

def jumpK (hp : Heap) (frs : List Frame) : Option Frame → Step
  | some fr' => .cont ⟨hp, fr' :: frs⟩ []
  | none => .fault "jump: target"

theorem step_jump (t : Nat) :
    step p ⟨hp, ⟨fi, f, regs, params, blk, ⟨id, k, ln, .jump t, ty, tys⟩ :: rest, dest⟩ :: frs⟩
      = jumpK hp frs (jumpTo p ⟨fi, f, regs, params, blk, rest, dest⟩ t) := by
  simp only [step, jumpK]
  cases jumpTo p ⟨fi, f, regs, params, blk, rest, dest⟩ t <;> rfl

theorem jumpK_some (fr' : Frame) : jumpK hp frs (some fr') = .cont ⟨hp, fr' :: frs⟩ [] := rfl

/-- continuation of an `If` once the condition and the target frame are known -/
def ifK2 (hp : Heap) (fr : Frame) (frs : List Frame) (b : Bool) : Option Frame → Step
  | some fr' => .cont ⟨hp, fr' :: frs⟩ [ev fr K.branch [.bool b]]
  | none => .fault "if: target"

theorem ifK_bool (fr : Frame) (t e : Nat) (b : Bool) :
    ifK p hp fr frs t e (some [.bool b]) = ifK2 hp fr frs b (jumpTo p fr (if b then t else e)) := by
  simp only [ifK, ifK2]
  cases jumpTo p fr (if b then t else e) <;> rfl

theorem ifK2_some (fr : Frame) (b : Bool) (fr' : Frame) : ifK2 hp fr frs b (some fr') = .cont ⟨hp, fr' :: frs⟩ [ev fr K.branch [.bool b]] := rfl

theorem step_indexAddr (xk : VK) (x ix : Opnd) :
    step p ⟨hp, ⟨fi, f, regs, params, blk, ⟨id, k, ln, .indexAddr xk x ix, ty, tys⟩ :: rest, dest⟩ :: frs⟩
      = stepIndexAddr p hp ⟨fi, f, regs, params, blk, rest, dest⟩ frs ⟨id, k, ln, .indexAddr xk x ix, ty, tys⟩ x ix := rfl

end rules

theorem checkIndex_lit (n len : Nat) (h1 : n < 9223372036854775808) (h2 : n < len) : checkIndex 64 true n len = some n := by
  have h : ¬ ((n : Int) < 0) := by omega
  have h3 : n < 2 ^ (64 - 1) := by omega
  simp [checkIndex, asInt, toInt, h3, h, h2]

theorem lt_i64 (a b : Nat) (ha : a < 9223372036854775808) (hb : b < 9223372036854775808) :
    decide (asInt 64 true a < asInt 64 true b) = decide (a < b) := by
  have h1 : a < 2 ^ (64 - 1) := by omega
  have h2 : b < 2 ^ (64 - 1) := by omega
  simp [asInt, toInt, h1, h2]

theorem wrap64_lit0 : wrap 64 (18446744073709551615 + 1) = 0 := by decide
theorem wrap64_small (n : Nat) (h : n < 4) : wrap 64 (n + 1) = n + 1 := by
  simp only [wrap]; omega

theorem tyOf_7 : prog.tyOf 7 = .arr 2 6 := rfl
theorem tyOf_8 : prog.tyOf 8 = .ptr 7 := rfl
theorem tyOf_9 : prog.tyOf 9 = .ptr 6 := rfl
theorem tyOf_11 : prog.tyOf 11 = .slice 6 := rfl
theorem tyOf_23 : prog.tyOf 23 = .arr 1 6 := rfl
theorem tyOf_24 : prog.tyOf 24 = .ptr 23 := rfl
theorem size_6 : prog.size 6 = some 1 := rfl
theorem zeros_6 : prog.zeros 6 = some [.nil] := rfl
theorem zeros_7 : prog.zeros 7 = some [.nil, .nil] := rfl
theorem zeros_23 : prog.zeros 23 = some [.nil] := rfl
theorem zeros_13 : prog.zeros 13 = some [.int 0, .int 0, .int 0, .int 0, .int 0, .int 0, .int 0, .int 0, .int 0, .int 0,
    .int 0, .int 0, .int 0, .int 0, .int 0, .int 0, .int 0, .int 0, .int 0, .int 0] := rfl
theorem zeros_25 : prog.zeros 25 = some [.int 0, .int 0, .int 0, .int 0, .int 0, .int 0, .int 0, .int 0, .int 0, .int 0,
    .int 0, .int 0, .int 0, .int 0, .int 0] := rfl
theorem cls_nil_ptr (b o : Nat) : ((Val.nil).cls = (Val.ptr b o).cls) = True := by simp [Val.cls]
theorem cls_ptr_ptr (b o b' o' : Nat) : ((Val.ptr b o).cls = (Val.ptr b' o').cls) = True := by simp [Val.cls]

/-- `new(projP1xP1)`, `new(projCached)` -/
theorem stepAlloc_14 (hp : Heap) (fr : Frame) (frs : List Frame) (id : Nat) (k : VK) (ln : Nat) (op : Op) (tys : List Nat) :
    stepAlloc prog hp fr frs ⟨id, k, ln, op, 14, tys⟩
      = contReg fr frs id [.ptr (hp.alloc [.int 0, .int 0, .int 0, .int 0, .int 0, .int 0, .int 0, .int 0, .int 0, .int 0,
          .int 0, .int 0, .int 0, .int 0, .int 0, .int 0, .int 0, .int 0, .int 0, .int 0]).2 0]
        (hp.alloc [.int 0, .int 0, .int 0, .int 0, .int 0, .int 0, .int 0, .int 0, .int 0, .int 0,
          .int 0, .int 0, .int 0, .int 0, .int 0, .int 0, .int 0, .int 0, .int 0, .int 0]).1 [] :=
  stepAlloc_of tyOf_14 zeros_13 (by decide) hp fr frs id k ln op tys

/-- `new(projP2)`, `new(affineCached)` -/
theorem stepAlloc_26 (hp : Heap) (fr : Frame) (frs : List Frame) (id : Nat) (k : VK) (ln : Nat) (op : Op) (tys : List Nat) :
    stepAlloc prog hp fr frs ⟨id, k, ln, op, 26, tys⟩
      = contReg fr frs id [.ptr (hp.alloc [.int 0, .int 0, .int 0, .int 0, .int 0, .int 0, .int 0, .int 0, .int 0, .int 0,
          .int 0, .int 0, .int 0, .int 0, .int 0]).2 0]
        (hp.alloc [.int 0, .int 0, .int 0, .int 0, .int 0, .int 0, .int 0, .int 0, .int 0, .int 0,
          .int 0, .int 0, .int 0, .int 0, .int 0]).1 [] :=
  stepAlloc_of tyOf_26 zeros_25 (by decide) hp fr frs id k ln op tys

/-- `new([1]*Point)` -/
theorem stepAlloc_24 (hp : Heap) (fr : Frame) (frs : List Frame) (id : Nat) (k : VK) (ln : Nat) (op : Op) (tys : List Nat) :
    stepAlloc prog hp fr frs ⟨id, k, ln, op, 24, tys⟩ = contReg fr frs id [.ptr (hp.alloc [.nil]).2 0] (hp.alloc [.nil]).1 [] :=
  stepAlloc_of tyOf_24 zeros_23 (by decide) hp fr frs id k ln op tys

/-- `new([2]*Point)` -/
theorem stepAlloc_8 (hp : Heap) (fr : Frame) (frs : List Frame) (id : Nat) (k : VK) (ln : Nat) (op : Op) (tys : List Nat) :
    stepAlloc prog hp fr frs ⟨id, k, ln, op, 8, tys⟩ = contReg fr frs id [.ptr (hp.alloc [.nil, .nil]).2 0] (hp.alloc [.nil, .nil]).1 [] :=
  stepAlloc_of tyOf_8 zeros_7 (by decide) hp fr frs id k ln op tys

/-! ## the blocks of `checkInitialized` -/

def body93 : List Instr := body% f93
def blk93_1 : List Instr := List.tail (block% f93 1)
def blk93_2 : List Instr := block% f93 2
def blk93_3 : List Instr := block% f93 3
def blk93_5 : List Instr := block% f93 5
theorem funcs_93 : prog.funcs[93]? = some f93 := rfl
theorem mkFrame_93 (args : List RVal) (dest : Option Nat) :
    mkFrame 93 f93 args dest = some ⟨93, f93, #[], args.toArray, 0, body93, dest⟩ := rfl
theorem resultTys_93 : f93.resultTys = [] := rfl

theorem jumpTo_93_0_1 (regs params : Array RVal) (rest : List Instr) (dest : Option Nat) :
    jumpTo prog ⟨93, f93, regs, params, 0, rest, dest⟩ 1
      = some ⟨93, f93, regSet regs 2 [.int 18446744073709551615], params, 1, blk93_1, dest⟩ := rfl

theorem phi_bind (regs params : Array RVal) (dest : Option Nat) (x : Option RVal) :
    (x.bind fun v => (some ([] : List (Nat × RVal))).bind fun r => some ((2, v) :: r)).bind
        (fun vals => some (⟨93, f93, assignAll regs vals, params, 1, blk93_1, dest⟩ : Frame))
      = x.bind (fun v => some ⟨93, f93, regSet regs 2 v, params, 1, blk93_1, dest⟩) := by
  cases x <;> rfl

theorem jumpTo_93_2_1 (regs params : Array RVal) (rest : List Instr) (dest : Option Nat) :
    jumpTo prog ⟨93, f93, regs, params, 2, rest, dest⟩ 1
      = (regs[3]?).bind (fun v => some ⟨93, f93, regSet regs 2 v, params, 1, blk93_1, dest⟩) :=
  phi_bind regs params dest regs[3]?

theorem jumpTo_93_5_1 (regs params : Array RVal) (rest : List Instr) (dest : Option Nat) :
    jumpTo prog ⟨93, f93, regs, params, 5, rest, dest⟩ 1
      = (regs[3]?).bind (fun v => some ⟨93, f93, regSet regs 2 v, params, 1, blk93_1, dest⟩) :=
  phi_bind regs params dest regs[3]?

theorem jumpTo_93_1_2 (regs params : Array RVal) (rest : List Instr) (dest : Option Nat) :
    jumpTo prog ⟨93, f93, regs, params, 1, rest, dest⟩ 2 = some ⟨93, f93, regs, params, 2, blk93_2, dest⟩ := rfl
theorem jumpTo_93_1_3 (regs params : Array RVal) (rest : List Instr) (dest : Option Nat) :
    jumpTo prog ⟨93, f93, regs, params, 1, rest, dest⟩ 3 = some ⟨93, f93, regs, params, 3, blk93_3, dest⟩ := rfl
theorem jumpTo_93_2_5 (regs params : Array RVal) (rest : List Instr) (dest : Option Nat) :
    jumpTo prog ⟨93, f93, regs, params, 2, rest, dest⟩ 5 = some ⟨93, f93, regs, params, 5, blk93_5, dest⟩ := rfl

/-! ## whole elements read at the point level -/

section feL
variable (h0 : Heap) (b o : Nat) (x : Fe) (ovr : List Ent) (ext : List (Array Val))

theorem read5_feL_hit (hf : Fits h0 b o 5) : (mkE h0 ((b, o, feL x) :: ovr) ext).read b o 5 = some (feL x) := by
  cases x; exact readE_hit5 h0 b o _ _ _ _ _ ovr ext hf

theorem read5_feL_miss (c o' : Nat) (hs : SepE b o c o') :
    (mkE h0 ((b, o, feL x) :: ovr) ext).read c o' 5 = (mkE h0 ovr ext).read c o' 5 := by
  cases x; exact readE_miss5 h0 b o _ _ _ _ _ ovr ext c o' hs

theorem cls_feL : listEqClasses (feL x) [.int 0, .int 0, .int 0, .int 0, .int 0] = true := by cases x; rfl

end feL

/-- the element is the zero value (what `checkInitialized` tests, limb-wise) -/
def IsZeroE (x : Fe) : Prop := feL x = [.int 0, .int 0, .int 0, .int 0, .int 0]

theorem isZeroE_eq (x : Fe) : (feL x = [.int 0, .int 0, .int 0, .int 0, .int 0]) = IsZeroE x := by rw [IsZeroE]

theorem isZeroE_iff (x : Fe) : IsZeroE x ↔ x = Fe.rz := by
  cases x
  simp [IsZeroE, feL, Fe.rz]

/-- the point passes `checkInitialized`: `x` or `y` is not the zero value -/
def InitP (p : P3) : Prop := ¬ IsZeroE p.x ∨ ¬ IsZeroE p.y

syntax "ssa_execC" "[" Lean.Parser.Tactic.simpLemma,* "]" : tactic
macro_rules
  | `(tactic| ssa_execC [$ls,*]) => `(tactic|
  ssa_execP [step_jump, jumpK_some, step_if, ifK_bool, ifK2_some, step_indexAddr, step_slice, stepIndexAddr,
    checkIndex_lit, lt_i64, wrap64_lit0, wrap64_small, tyOf_7, tyOf_8, tyOf_9, tyOf_11, tyOf_23, tyOf_24, size_6, zeros_6, zeros_7, zeros_23,
    zeros_13, zeros_25, cls_nil_ptr, cls_ptr_ptr, stepAlloc_24, stepAlloc_8, stepSlice, evalBound_none, Option.isSome, Bool.and_self, Bool.and_true, builtin_len,
    body93, blk93_1, blk93_2, blk93_3, blk93_5, funcs_93, mkFrame_93, resultTys_93,
    jumpTo_93_0_1, jumpTo_93_2_1, jumpTo_93_5_1, jumpTo_93_1_2, jumpTo_93_1_3, jumpTo_93_2_5,
    read5_feL_hit, read5_feL_miss, cls_feL, isZeroE_eq, evalOpnd, Nat.reduceLT, decide_true, decide_false, Nat.reduceMul, Nat.reduceSub,
    funcs_70, mkFrame_70, funcs_80, mkFrame_80, NoBlk_cons, NoBlk_nil, Negate_val, $ls,*])

end EdVerif.Ssa.Tie
