import EdVerif.Ssa.Tie.FeAbsolute
/-!
# `(*field.Element).Invert`: SSA execution = T5's `Formulas.field_Element_Invert` (the 255-step addition chain: 254 `Square`, 11 `Multiply`,
seven counted loops): definitions, `jumpTo` lemmas and the stepper `ssa_execI`; the run itself is in `FeInvertA.lean`, the theorems in `FeInvertB.lean`
-/
namespace EdVerif.Ssa.Tie
open EdVerif.Ssa EdVerif.Gen.Ssa EdVerif.Prims EdVerif.Impl EdVerif.Gen
set_option maxRecDepth 100000
set_option linter.unusedVariables false

theorem run_chain {p : Program} {a b : Nat} {s : State} {r : Outcome} (h : ∃ s1, steps p a s = some s1 ∧ run p b s1 = r) :
    run p (b + a) s = r := by
  obtain ⟨s1, h1, h2⟩ := h
  rw [run_steps' h1 b]; exact h2

def body66 : List Instr := body% f66
theorem funcs_66 : prog.funcs[66]? = some f66 := rfl
theorem mkFrame_66 (args : List RVal) (dest : Option Nat) :
    mkFrame 66 f66 args dest = some ⟨66, f66, #[], args.toArray, 0, body66, dest⟩ := rfl
theorem resultTys_66 : f66.resultTys = [19] := rfl
theorem funcIdx_66 : prog.funcIdx? (nm! "(*field.Element).Invert") = some 66 := by decide +kernel

def blk66_3 : List Instr := List.tail (block% f66 3)
def blk66_1 : List Instr := block% f66 1
def blk66_2 : List Instr := block% f66 2
def blk66_6 : List Instr := List.tail (block% f66 6)
def blk66_4 : List Instr := block% f66 4
def blk66_5 : List Instr := block% f66 5
def blk66_9 : List Instr := List.tail (block% f66 9)
def blk66_7 : List Instr := block% f66 7
def blk66_8 : List Instr := block% f66 8
def blk66_12 : List Instr := List.tail (block% f66 12)
def blk66_10 : List Instr := block% f66 10
def blk66_11 : List Instr := block% f66 11
def blk66_15 : List Instr := List.tail (block% f66 15)
def blk66_13 : List Instr := block% f66 13
def blk66_14 : List Instr := block% f66 14
def blk66_18 : List Instr := List.tail (block% f66 18)
def blk66_16 : List Instr := block% f66 16
def blk66_17 : List Instr := block% f66 17
def blk66_21 : List Instr := List.tail (block% f66 21)
def blk66_19 : List Instr := block% f66 19
def blk66_20 : List Instr := block% f66 20

section jumps
variable (regs params : Array RVal) (rest : List Instr) (dest : Option Nat)
theorem jumpTo_66_0_3 : jumpTo prog ⟨66, f66, regs, params, 0, rest, dest⟩ 3
      = some ⟨66, f66, regSet regs 24 [.int 0], params, 3, blk66_3, dest⟩ := rfl
theorem jumpTo_66_1_3 : jumpTo prog ⟨66, f66, regs, params, 1, rest, dest⟩ 3
      = (regs[19]?).bind (fun v => some ⟨66, f66, regSet regs 24 v, params, 3, blk66_3, dest⟩) :=
  phi_bind1 (fun r => ⟨66, f66, r, params, 3, blk66_3, dest⟩) regs 24 regs[19]?
theorem jumpTo_66_3_1 : jumpTo prog ⟨66, f66, regs, params, 3, rest, dest⟩ 1
      = some ⟨66, f66, regs, params, 1, blk66_1, dest⟩ := rfl
theorem jumpTo_66_3_2 : jumpTo prog ⟨66, f66, regs, params, 3, rest, dest⟩ 2
      = some ⟨66, f66, regs, params, 2, blk66_2, dest⟩ := rfl
theorem jumpTo_66_2_6 : jumpTo prog ⟨66, f66, regs, params, 2, rest, dest⟩ 6
      = some ⟨66, f66, regSet regs 33 [.int 0], params, 6, blk66_6, dest⟩ := rfl
theorem jumpTo_66_4_6 : jumpTo prog ⟨66, f66, regs, params, 4, rest, dest⟩ 6
      = (regs[28]?).bind (fun v => some ⟨66, f66, regSet regs 33 v, params, 6, blk66_6, dest⟩) :=
  phi_bind1 (fun r => ⟨66, f66, r, params, 6, blk66_6, dest⟩) regs 33 regs[28]?
theorem jumpTo_66_6_4 : jumpTo prog ⟨66, f66, regs, params, 6, rest, dest⟩ 4
      = some ⟨66, f66, regs, params, 4, blk66_4, dest⟩ := rfl
theorem jumpTo_66_6_5 : jumpTo prog ⟨66, f66, regs, params, 6, rest, dest⟩ 5
      = some ⟨66, f66, regs, params, 5, blk66_5, dest⟩ := rfl
theorem jumpTo_66_5_9 : jumpTo prog ⟨66, f66, regs, params, 5, rest, dest⟩ 9
      = some ⟨66, f66, regSet regs 42 [.int 0], params, 9, blk66_9, dest⟩ := rfl
theorem jumpTo_66_7_9 : jumpTo prog ⟨66, f66, regs, params, 7, rest, dest⟩ 9
      = (regs[37]?).bind (fun v => some ⟨66, f66, regSet regs 42 v, params, 9, blk66_9, dest⟩) :=
  phi_bind1 (fun r => ⟨66, f66, r, params, 9, blk66_9, dest⟩) regs 42 regs[37]?
theorem jumpTo_66_9_7 : jumpTo prog ⟨66, f66, regs, params, 9, rest, dest⟩ 7
      = some ⟨66, f66, regs, params, 7, blk66_7, dest⟩ := rfl
theorem jumpTo_66_9_8 : jumpTo prog ⟨66, f66, regs, params, 9, rest, dest⟩ 8
      = some ⟨66, f66, regs, params, 8, blk66_8, dest⟩ := rfl
theorem jumpTo_66_8_12 : jumpTo prog ⟨66, f66, regs, params, 8, rest, dest⟩ 12
      = some ⟨66, f66, regSet regs 51 [.int 0], params, 12, blk66_12, dest⟩ := rfl
theorem jumpTo_66_10_12 : jumpTo prog ⟨66, f66, regs, params, 10, rest, dest⟩ 12
      = (regs[46]?).bind (fun v => some ⟨66, f66, regSet regs 51 v, params, 12, blk66_12, dest⟩) :=
  phi_bind1 (fun r => ⟨66, f66, r, params, 12, blk66_12, dest⟩) regs 51 regs[46]?
theorem jumpTo_66_12_10 : jumpTo prog ⟨66, f66, regs, params, 12, rest, dest⟩ 10
      = some ⟨66, f66, regs, params, 10, blk66_10, dest⟩ := rfl
theorem jumpTo_66_12_11 : jumpTo prog ⟨66, f66, regs, params, 12, rest, dest⟩ 11
      = some ⟨66, f66, regs, params, 11, blk66_11, dest⟩ := rfl
theorem jumpTo_66_11_15 : jumpTo prog ⟨66, f66, regs, params, 11, rest, dest⟩ 15
      = some ⟨66, f66, regSet regs 60 [.int 0], params, 15, blk66_15, dest⟩ := rfl
theorem jumpTo_66_13_15 : jumpTo prog ⟨66, f66, regs, params, 13, rest, dest⟩ 15
      = (regs[55]?).bind (fun v => some ⟨66, f66, regSet regs 60 v, params, 15, blk66_15, dest⟩) :=
  phi_bind1 (fun r => ⟨66, f66, r, params, 15, blk66_15, dest⟩) regs 60 regs[55]?
theorem jumpTo_66_15_13 : jumpTo prog ⟨66, f66, regs, params, 15, rest, dest⟩ 13
      = some ⟨66, f66, regs, params, 13, blk66_13, dest⟩ := rfl
theorem jumpTo_66_15_14 : jumpTo prog ⟨66, f66, regs, params, 15, rest, dest⟩ 14
      = some ⟨66, f66, regs, params, 14, blk66_14, dest⟩ := rfl
theorem jumpTo_66_14_18 : jumpTo prog ⟨66, f66, regs, params, 14, rest, dest⟩ 18
      = some ⟨66, f66, regSet regs 69 [.int 0], params, 18, blk66_18, dest⟩ := rfl
theorem jumpTo_66_16_18 : jumpTo prog ⟨66, f66, regs, params, 16, rest, dest⟩ 18
      = (regs[64]?).bind (fun v => some ⟨66, f66, regSet regs 69 v, params, 18, blk66_18, dest⟩) :=
  phi_bind1 (fun r => ⟨66, f66, r, params, 18, blk66_18, dest⟩) regs 69 regs[64]?
theorem jumpTo_66_18_16 : jumpTo prog ⟨66, f66, regs, params, 18, rest, dest⟩ 16
      = some ⟨66, f66, regs, params, 16, blk66_16, dest⟩ := rfl
theorem jumpTo_66_18_17 : jumpTo prog ⟨66, f66, regs, params, 18, rest, dest⟩ 17
      = some ⟨66, f66, regs, params, 17, blk66_17, dest⟩ := rfl
theorem jumpTo_66_17_21 : jumpTo prog ⟨66, f66, regs, params, 17, rest, dest⟩ 21
      = some ⟨66, f66, regSet regs 83 [.int 0], params, 21, blk66_21, dest⟩ := rfl
theorem jumpTo_66_19_21 : jumpTo prog ⟨66, f66, regs, params, 19, rest, dest⟩ 21
      = (regs[73]?).bind (fun v => some ⟨66, f66, regSet regs 83 v, params, 21, blk66_21, dest⟩) :=
  phi_bind1 (fun r => ⟨66, f66, r, params, 21, blk66_21, dest⟩) regs 83 regs[73]?
theorem jumpTo_66_21_19 : jumpTo prog ⟨66, f66, regs, params, 21, rest, dest⟩ 19
      = some ⟨66, f66, regs, params, 19, blk66_19, dest⟩ := rfl
theorem jumpTo_66_21_20 : jumpTo prog ⟨66, f66, regs, params, 21, rest, dest⟩ 20
      = some ⟨66, f66, regs, params, 20, blk66_20, dest⟩ := rfl
end jumps

syntax "ssa_execI" "[" Lean.Parser.Tactic.simpLemma,* "]" : tactic
macro_rules
  | `(tactic| ssa_execI [$ls,*]) => `(tactic|
  ssa_execX [resultTys_66, blk66_3, blk66_1, blk66_2, blk66_6, blk66_4, blk66_5, blk66_9, blk66_7, blk66_8, blk66_12, blk66_10, blk66_11, blk66_15, blk66_13, blk66_14, blk66_18, blk66_16, blk66_17, blk66_21, blk66_19, blk66_20, jumpTo_66_0_3, jumpTo_66_1_3, jumpTo_66_3_1, jumpTo_66_3_2, jumpTo_66_2_6, jumpTo_66_4_6, jumpTo_66_6_4, jumpTo_66_6_5, jumpTo_66_5_9, jumpTo_66_7_9, jumpTo_66_9_7, jumpTo_66_9_8, jumpTo_66_8_12, jumpTo_66_10_12, jumpTo_66_12_10, jumpTo_66_12_11, jumpTo_66_11_15, jumpTo_66_13_15, jumpTo_66_15_13, jumpTo_66_15_14, jumpTo_66_14_18, jumpTo_66_16_18, jumpTo_66_18_16, jumpTo_66_18_17, jumpTo_66_17_21, jumpTo_66_19_21, jumpTo_66_21_19, jumpTo_66_21_20,
    wrap64_lit, mkE_size, List.length_append, feAt0_lit, feAt0_feL, Multiply_rz, Square_rz, Add_rz, Subtract_rz, Select_rz, Set_rz, $ls,*])

end EdVerif.Ssa.Tie
