#!/usr/bin/env python3
"""Generate the `tie_*` theorems (all aliasing patterns + the combined theorem) of the fiat scalar kernels whose
parameters are pointers to `[4]uint64` / `Scalar` (4 consecutive `uint64` cells), and of the `(*Scalar)` wrappers.

Per kernel `K` and aliasing pattern `vn`, ONE run of the stepper proves

    pre_K_vn  : ∀ dest frs, ∃ ext regs, steps prog (N-1) ⟨heap, calleeFrame dest :: frs⟩ = some ⟨heap', frame-at-its-`ret` :: frs⟩

(everything but the final `Return`, for an arbitrary rest of the stack), from which follow cheaply
    core_K_vn : the outermost call runs to `.done`          (dest = none, frs = [])
    call_K_vn : the call returns into any caller frame       (dest = some d, frs = caller :: _)
    tie_K_vn  : the statement on an arbitrary heap
and `tie_K` (no distinctness hypothesis) by case analysis.  The wrappers `(*Scalar).Add …` use `call_K_vn`.

    python3 gen_fiat.py [targets]           # writes Fiat*.lean next to this file
"""
import itertools, os, sys

LIMBS = range(4)
LIT = "18446744073709551616"

def cells(p):
    return "#[" + ", ".join(f".int {p}{i}" for i in LIMBS) + "]"

def w4(p):
    return "⟨" + ", ".join(f"{p}{i}" for i in LIMBS) + "⟩"

def limbvars(p):
    return " ".join(f"{p}{i}" for i in LIMBS)

def partitions(ps):
    res = []
    def rec(i, classes):
        if i == len(ps):
            res.append([list(c) for c in classes]); return
        for c in classes:
            c.append(ps[i]); rec(i + 1, classes); c.pop()
        classes.append([ps[i]]); rec(i + 1, classes); classes.pop()
    rec(0, [])
    return res

def variant_name(classes):
    multi = [c for c in classes if len(c) > 1]
    if not multi: return "d"
    return "_".join("".join(c) for c in multi)

class K:
    """a kernel: `ninstr` instructions in its single block, `ncmov` calls of fiatScalarCmovznzU64 (8 steps each)"""
    def __init__(self, name, fidx, gofn, ninstr, ncmov, ptrs, bounded, t1, extras, closing, heart=64000000, tac="fiat_exec"):
        self.name, self.fidx, self.gofn, self.ninstr, self.ptrs, self.bounded = name, fidx, gofn, ninstr, ptrs, bounded
        self.fuel = ninstr + 8 * ncmov
        self.rets, self.t1, self.extras, self.closing, self.heart, self.tac = "[]", t1, extras, closing, heart, tac

class W:
    """a wrapper method `(*Scalar).M`: `fieldAddr` of every parameter, one call of the kernel `k`, `return s`"""
    def __init__(self, name, fidx, gofn, k, ptrs, t1):
        self.name, self.fidx, self.gofn, self.k, self.ptrs, self.t1 = name, fidx, gofn, k, ptrs, t1
        self.bounded = {w for w, p in zip(ptrs, k.ptrs) if p in k.bounded}
        self.fuel = k.fuel + len(ptrs) + 2
        self.rets = "[[.ptr @ 0]]"

class V:
    """everything derived from (kernel or wrapper, aliasing classes)"""
    def __init__(self, k, classes):
        self.vn = variant_name(classes)
        rep = {}
        for c in classes:
            for p in c: rep[p] = c[0]
        self.rep = rep
        self.reps = reps = [c[0] for c in classes]
        self.breps = []
        for p in k.ptrs:
            if p in k.bounded and rep[p] not in self.breps: self.breps.append(rep[p])
        self.t1 = f"({k.t1} " + " ".join(w4(rep[p]) for p in k.ptrs) + ")"
        self.t1top = f"({k.t1} " + " ".join(rep[p] for p in k.ptrs) + ")"
        self.args = ", ".join(f"[.ptr b{rep[p]} 0]" for p in k.ptrs)
        self.rets = k.rets.replace("@", f"b{rep[k.ptrs[0]]}")
        self.ovr_in = " :: ".join(f"(b{r}, {cells(r)})" for r in reps) + " :: ovr"
        self.ovr_out = " :: ".join([f"(b{reps[0]}, w4Cells {self.t1})"] + [f"(b{r}, {cells(r)})" for r in reps[1:]]) + " :: ovr"
        self.range_hyps = " ".join(f"(hb{r} : b{r} < h0.blocks.size)" for r in reps)
        self.range_names = [f"hb{r}" for r in reps]
        self.ne = ne = list(itertools.combinations(reps, 2))
        self.ne_hyps = " ".join(f"(hne_{x}{y} : b{x} ≠ b{y})" for x, y in ne)
        self.ne_names = [f"hne_{x}{y}" for x, y in ne]
        self.lt_hyps = " ".join(f"(hlt_{r}{i} : {r}{i} < {LIT})" for r in self.breps for i in LIMBS)
        self.lt_names = [f"hlt_{r}{i}" for r in self.breps for i in LIMBS]
        self.simp_hyps = self.range_names + self.lt_names
        for x, y in ne: self.simp_hyps += [f"hne_{x}{y}", f"hne_{x}{y}.symm"]
        self.allvars = " ".join(limbvars(r) for r in reps)
        self.bl = " ".join(f"b{r}" for r in reps)
        self.binders = f"(h0 : Heap) (ovr) ({self.bl} : Nat) ({self.allvars} : Nat) {self.lt_hyps}\n    {self.range_hyps} {self.ne_hyps}"
        self.pass_args = " ".join(["h0 ovr", self.bl, self.allvars] + self.lt_names + self.range_names + self.ne_names)

CALLER = "(cfi : Nat) (cf : Func) (cregs cparams : Array RVal) (cblk : Nat) (crest : List Instr) (cdest : Option Nat)"

def gen_kernel_variant(k, classes, out):
    v = V(k, classes)
    f = k.fidx
    frame = lambda dest: f"⟨{f}, f{f}, #[], #[{v.args}], 0, body{f}, {dest}⟩"
    out.append(f"""
set_option maxHeartbeats {k.heart} in
/-- `{k.gofn}`, aliasing pattern `{v.vn}` (parameters in one class share a block): every instruction but the final `Return`,
    on a canonical heap, whatever the rest of the stack -/
theorem pre_{k.name}_{v.vn} {v.binders} (dest : Option Nat) (frs : List Frame) :
    ∃ ext regs, steps prog {k.fuel - 1} ⟨mkH h0 ({v.ovr_in}) [], {frame("dest")} :: frs⟩
      = some ⟨mkH h0 ({v.ovr_out}) ext,
          ⟨{f}, f{f}, regs, #[{v.args}], 0, List.drop {k.ninstr - 1} body{f}, dest⟩ :: frs⟩ := by
  apply Exists.intro
  apply Exists.intro
  simp only [body{f}]
  {k.tac} [resultTys_{f}, {k.extras}, read_hit, read_miss, write_hit, {", ".join(v.simp_hyps)}, ne_eq, not_false_eq_true]
  refine state_eq ?_ rfl
  {k.closing}

/-- the outermost call -/
theorem core_{k.name}_{v.vn} {v.binders} :
    ∃ ext, run prog {k.fuel} ⟨mkH h0 ({v.ovr_in}) [], [{frame("none")}]⟩
      = .done ⟨mkH h0 ({v.ovr_out}) ext, []⟩ [] := by
  obtain ⟨ext, regs, hp⟩ := pre_{k.name}_{v.vn} {v.pass_args} none []
  refine ⟨ext, Eq.trans (run_steps' hp 1) ?_⟩
  simp only [body{f}, List.drop_succ_cons, List.drop_zero]
  fiat_exec [resultTys_{f}]

/-- call lemma: the callee's frame on top of any caller -/
theorem call_{k.name}_{v.vn} {v.binders} (d : Nat) {CALLER} (frs : List Frame) :
    ∃ ext, steps prog {k.fuel} ⟨mkH h0 ({v.ovr_in}) [],
        {frame("some d")} :: ⟨cfi, cf, cregs, cparams, cblk, crest, cdest⟩ :: frs⟩
      = some ⟨mkH h0 ({v.ovr_out}) ext, ⟨cfi, cf, regSet cregs d [], cparams, cblk, crest, cdest⟩ :: frs⟩ := by
  obtain ⟨ext, regs, hp⟩ := pre_{k.name}_{v.vn} {v.pass_args} (some d) (⟨cfi, cf, cregs, cparams, cblk, crest, cdest⟩ :: frs)
  refine ⟨ext, Eq.trans (steps_steps' hp 1) ?_⟩
  simp only [body{f}, List.drop_succ_cons, List.drop_zero]
  fiat_exec [resultTys_{f}]
""")
    gen_tie_variant(k, v, out)

def gen_wrapper_variant(w, classes, out):
    v = V(w, classes)
    k = w.k
    kv = V(k, [[dict(zip(w.ptrs, k.ptrs))[p] for p in c] for c in classes])   # the same pattern, in the kernel's names
    f, n = w.fidx, len(w.ptrs)
    out.append(f"""
/-- `{w.gofn}`, aliasing pattern `{v.vn}`, outermost call on a canonical heap (through the call lemma of the kernel) -/
theorem core_{w.name}_{v.vn} {v.binders} :
    ∃ ext, run prog {w.fuel} ⟨mkH h0 ({v.ovr_in}) [],
        [⟨{f}, f{f}, #[], #[{v.args}], 0, body{f}, none⟩]⟩
      = .done ⟨mkH h0 ({v.ovr_out}) ext, []⟩ {v.rets} := by
  obtain ⟨ext, hc⟩ := call_{k.name}_{kv.vn} {v.pass_args} {n} {f} f{f} #[{v.args}] #[{v.args}] 0 (List.drop {n + 1} body{f}) none []
  refine ⟨ext, ?_⟩
  simp only [body{f}, List.drop_succ_cons, List.drop_zero] at hc
  simp only [body{f}]
  fiat_exec [resultTys_{f}, funcs_{k.fidx}, mkFrame_{k.fidx}, ↓run_steps' hc]
  try rfl
""")
    gen_tie_variant(w, v, out)

def gen_tie_variant(k, v, out):
    reps = v.reps
    ws = " ".join(reps)
    hyps = " ".join(f"(h{r} : h.blocks[b{r}]? = some (w4Cells {r}))" for r in reps)
    lt_top = " ".join(f"(hlt_{r} : {r}.lt64)" for r in v.breps)
    obt = "\n".join(f"  obtain ⟨{', '.join(f'{r}{i}' for i in LIMBS)}⟩ := {r}" for r in reps)
    obt_lt = "".join(f"\n  obtain ⟨{', '.join(f'hlt_{r}{i}' for i in LIMBS)}⟩ := hlt_{r}" for r in v.breps)
    core_args = " ".join([v.bl] + [limbvars(r) for r in reps] + v.lt_names
                         + [f"(lt_of_get h{r})" for r in reps] + v.ne_names)
    rest_list = ", ".join(f"(b{r}, w4Cells {w4(r)})" for r in reps[1:])
    hall = (f"  have hall : ∀ kv ∈ [{rest_list}], h.blocks[kv.1]? = some kv.2 := by\n    simp [{', '.join('h' + r for r in reps[1:])}]"
            if len(reps) > 1 else "  have hall : ∀ kv ∈ ([] : List (Nat × Array Val)), h.blocks[kv.1]? = some kv.2 := by simp")
    intro_list = ", ".join(f"(b{r}, {cells(r)})" for r in reps)
    hs = ", ".join(f"h{r}" for r in reps)
    intro_pf = f"⟨{hs}⟩" if len(reps) > 1 else hs
    out.append(f"""
/-- **tie**: `{k.gofn}`, aliasing pattern `{v.vn}` -/
theorem tie_{k.name}_{v.vn} (h : Heap) ({v.bl} : Nat) ({ws} : W4) {lt_top}
    {hyps} {v.ne_hyps} :
    ∃ h', runCall prog {k.fuel} h (nm! "{k.gofn}") [{v.args}] = some (.done ⟨h', []⟩ {v.rets})
      ∧ Post1 h h' b{reps[0]} (w4Cells {v.t1top}) := by
{obt}{obt_lt}
  obtain ⟨ext, core⟩ := core_{k.name}_{v.vn} h [] {core_args}
{hall}
  rw [show mkH h [{intro_list}] [] = h from
      mkH_intro h _ (by simpa [w4Cells] using {intro_pf})] at core
  refine ⟨_, ?_, post1_mkH _ ext (lt_of_get h{reps[0]}) hall⟩
  simp only [runCall, funcIdx_{k.fidx}, callState, funcs_{k.fidx}, mkFrame_{k.fidx}, Option.bind_some, Option.map_some, Option.pure_def,
    Option.bind_eq_bind]
  rw [core]; first | rfl | skip
""")

def gen_any(k, out):
    """combined theorem: no distinctness hypotheses"""
    ps = k.ptrs
    args = ", ".join(f"[.ptr b{p} 0]" for p in ps)
    rets = k.rets.replace("@", f"b{ps[0]}")
    hyps = " ".join(f"(h{p} : h.blocks[b{p}]? = some (w4Cells {p}))" for p in ps)
    lt_top = " ".join(f"(hlt_{p} : {p}.lt64)" for p in ps if p in k.bounded)
    t1top = f"({k.t1} " + " ".join(ps) + ")"
    lines = []
    def rec(i, classes, indent):
        pad = "  " * indent
        if i == len(ps):
            vn = variant_name(classes)
            reps = [c[0] for c in classes]
            ne = [(x, y) for x, y in itertools.combinations(reps, 2)]
            rep = {}
            for c in classes:
                for p in c: rep[p] = c[0]
            seen, lts = [], []
            for p in ps:
                if p in k.bounded and rep[p] not in seen:
                    seen.append(rep[p]); lts.append(f"hlt_{p}")
            a = " ".join(["h"] + [f"b{r}" for r in reps] + reps + lts
                         + [f"h{r}" for r in reps] + [f"hne_{x}{y}" for x, y in ne])
            lines.append(f"{pad}exact tie_{k.name}_{vn} {a}")
            return
        p = ps[i]
        def try_classes(j, indent):
            pad = "  " * indent
            if j == len(classes):
                classes.append([p]); rec(i + 1, classes, indent); classes.pop(); return
            r = classes[j][0]
            lines.append(f"{pad}by_cases hne_{r}{p} : b{r} = b{p}")
            lines.append(f"{pad}· subst hne_{r}{p}")
            lines.append(f"{pad}  have e := w4Cells_inj (Option.some.inj (h{r}.symm.trans h{p})); subst e")
            classes[j].append(p); rec(i + 1, classes, indent + 1); classes[j].pop()
            lines.append(f"{pad}· skip")
            try_classes(j + 1, indent + 1)
        try_classes(0, indent)
    rec(0, [], 1)
    out.append(f"""
/-- **tie** (any aliasing): `{k.gofn}` on an arbitrary heap in which the argument blocks hold the words of the arguments
    (the blocks may coincide, in which case the arguments do). -/
theorem tie_{k.name} (h : Heap) ({" ".join("b" + p for p in ps)} : Nat) ({" ".join(ps)} : W4) {lt_top}
    {hyps} :
    ∃ h', runCall prog {k.fuel} h (nm! "{k.gofn}") [{args}] = some (.done ⟨h', []⟩ {rets})
      ∧ Post1 h h' b{ps[0]} (w4Cells {t1top}) := by
""" + "\n".join(lines) + "\n")

HDR = """import EdVerif.Ssa.Tie.{imp}
/-!
# GENERATED by EdVerif/Ssa/Tie/gen_fiat.py — {what}: every aliasing pattern, and the combined theorem
-/
namespace EdVerif.Ssa.Tie
open EdVerif.Ssa EdVerif.Gen.Ssa EdVerif.Prims EdVerif.Gen.Fiat
set_option maxRecDepth 100000
set_option linter.unusedSimpArgs false
"""

def prelude(fidx, gofn, rtys):
    return f"""
def body{fidx} : List Instr := body% f{fidx}
theorem funcs_{fidx} : prog.funcs[{fidx}]? = some f{fidx} := rfl
theorem mkFrame_{fidx} (args : List RVal) (dest : Option Nat) :
    mkFrame {fidx} f{fidx} args dest = some ⟨{fidx}, f{fidx}, #[], args.toArray, 0, body{fidx}, dest⟩ := rfl
theorem resultTys_{fidx} : f{fidx}.resultTys = {rtys} := rfl
theorem funcIdx_{fidx} : prog.funcIdx? (nm! "{gofn}") = some {fidx} := by decide +kernel
"""

def emit(fname, imp, what, k, rtys, only=None):
    out = [HDR.format(imp=imp, what=what), prelude(k.fidx, k.gofn, rtys)]
    for classes in partitions(k.ptrs):
        if only is None or variant_name(classes) in only:
            (gen_wrapper_variant if isinstance(k, W) else gen_kernel_variant)(k, classes, out)
    if only is None:
        gen_any(k, out)
    out.append("\nend EdVerif.Ssa.Tie\n")
    open(fname, "w").write("".join(out))

D = os.path.dirname(os.path.abspath(__file__)) + "/"
CMOV = "funcs_96, mkFrame_96, ↓steps_Cmovznz_ext"
def close(*defs):
    return "simp only [w4Cells, " + ", ".join(defs) + ", Bits.Add64, Bits.Sub64, Bits.Mul64]\n  rfl"
F = "EdVerif.Gen.Fiat."
BIG = dict(heart=400000000, tac="fiat_exec_big")

kAdd = K("fiatScalarAdd", 95, "fiatScalarAdd", 84, 4, ["o", "a", "b"], set(), "fiatScalarAdd", CMOV, close("fiatScalarAdd"))
kSub = K("fiatScalarSub", 102, "fiatScalarSub", 70, 1, ["o", "a", "b"], {"b"}, "fiatScalarSub", CMOV + ", and_eq", close("fiatScalarSub"))
kOpp = K("fiatScalarOpp", 101, "fiatScalarOpp", 62, 1, ["o", "a"], {"a"}, "fiatScalarOpp", CMOV + ", and_eq", close("fiatScalarOpp"))
kMul = K("fiatScalarMul", 99, "fiatScalarMul", 450, 4, ["o", "a", "b"], set(), "fiatScalarMul", CMOV + ", add_eq", close("fiatScalarMul"), **BIG)
kFromM = K("fiatScalarFromMontgomery", 98, "fiatScalarFromMontgomery", 240, 4, ["o", "a"], set(), "fiatScalarFromMontgomery",
           CMOV + ", add_eq", close("fiatScalarFromMontgomery"), **BIG)
kToM = K("fiatScalarToMontgomery", 104, "fiatScalarToMontgomery", 391, 4, ["o", "a"], set(), "fiatScalarToMontgomery",
         CMOV + ", add_eq", close("fiatScalarToMontgomery"), **BIG)

wAdd = W("Scalar_Add", 21, "(*Scalar).Add", kAdd, ["s", "p", "q"], F + "Add")
wSub = W("Scalar_Subtract", 32, "(*Scalar).Subtract", kSub, ["s", "p", "q"], F + "Subtract")
wNeg = W("Scalar_Negate", 27, "(*Scalar).Negate", kOpp, ["s", "p"], F + "Negate")
wMul = W("Scalar_Multiply", 25, "(*Scalar).Multiply", kMul, ["s", "p", "q"], F + "Multiply")

TARGETS = {
    "add": lambda: emit(D + "FiatAdd.lean", "FiatFrame", "`fiatScalarAdd`", kAdd, "[]"),
    "sub": lambda: emit(D + "FiatSub.lean", "FiatFrame", "`fiatScalarSub`", kSub, "[]"),
    "opp": lambda: emit(D + "FiatOpp.lean", "FiatFrame", "`fiatScalarOpp`", kOpp, "[]"),
    "mul": lambda: emit(D + "FiatMul.lean", "FiatFrame", "`fiatScalarMul`", kMul, "[]"),
    "fromm": lambda: emit(D + "FiatFromMont.lean", "FiatFrame", "`fiatScalarFromMontgomery`", kFromM, "[]"),
    "tom": lambda: emit(D + "FiatToMont.lean", "FiatFrame", "`fiatScalarToMontgomery`", kToM, "[]"),
    "wadd": lambda: emit(D + "FiatWrapAdd.lean", "FiatAdd", "`(*Scalar).Add`", wAdd, "[29]"),
    "wsub": lambda: emit(D + "FiatWrapSub.lean", "FiatSub", "`(*Scalar).Subtract`", wSub, "[29]"),
    "wneg": lambda: emit(D + "FiatWrapNeg.lean", "FiatOpp", "`(*Scalar).Negate`", wNeg, "[29]"),
    "wmul": lambda: emit(D + "FiatWrapMul.lean", "FiatMul", "`(*Scalar).Multiply`", wMul, "[29]"),
}

if __name__ == "__main__":
    for t in (sys.argv[1:] or list(TARGETS)):
        TARGETS[t]()
