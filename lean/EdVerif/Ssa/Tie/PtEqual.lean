import EdVerif.Ssa.Tie.FeEqual
import EdVerif.Ssa.Tie.PtExt
/-!
# `(*Point).Equal`: SSA execution = T5's `Formulas.Point_Equal` (written by hand on the model of the generated `Pt_Point_*` files)

`checkInitialized(v, u)` inline (one case per guarded point: `a` = `x` is not the zero value, `b` = `x` is and `y` is not), four
`Multiply` into fresh locals, two `Equal` (`runA_Equal`), `&`.
-/
namespace EdVerif.Ssa.Tie
open EdVerif.Ssa EdVerif.Gen.Ssa EdVerif.Prims EdVerif.Impl EdVerif.Gen
set_option maxRecDepth 100000
set_option linter.unusedVariables false

def body3 : List Instr := body% f3
theorem funcs_3 : prog.funcs[3]? = some f3 := rfl
theorem mkFrame_3 (args : List RVal) (dest : Option Nat) :
    mkFrame 3 f3 args dest = some ⟨3, f3, #[], args.toArray, 0, body3, dest⟩ := rfl
theorem resultTys_3 : f3.resultTys = [10] := rfl
theorem funcIdx_3 : prog.funcIdx? (nm! "(*Point).Equal") = some 3 := by decide +kernel

set_option maxHeartbeats 64000000 in
/-- `(*Point).Equal` as the outermost call, on the canonical heap of its parameters; case `aa` of `checkInitialized` -/
theorem coreE_Point_Equal_aa (v u : P3) (hx_v : IsZeroE v.x = False) (hx_u : IsZeroE u.x = False) : ∀ (H : Heap) (bv bu : Nat) (hfv : Fits H bv 0 20) (hfu : Fits H bu 0 20) (hne_vu : bv ≠ bu) (h16 : 16 < H.blocks.size), ∃ E : List (Array Val),
    run prog 6300 ⟨mkE H [(bv, 0, feL v.x), (bv, 5, feL v.y), (bv, 10, feL v.z), (bv, 15, feL v.t), (bu, 0, feL u.x), (bu, 5, feL u.y), (bu, 10, feL u.z), (bu, 15, feL u.t)] [],
        [⟨3, f3, #[], #[[.ptr bv 0], [.ptr bu 0]], 0, body3, none⟩]⟩
      = .done ⟨mkE H [(bv, 0, feL v.x), (bv, 5, feL v.y), (bv, 10, feL v.z), (bv, 15, feL v.t), (bu, 0, feL u.x), (bu, 5, feL u.y), (bu, 10, feL u.z), (bu, 15, feL u.t)] E, []⟩ [[.int (Formulas.Point_Equal v u)]] := by
  intro H bv bu hfv hfu hne_vu h16
  apply Exists.intro
  have hbv := hfv.1
  have hfv0 := fits_sub 0 hfv (by decide)
  have hfv1 := fits_sub 5 hfv (by decide)
  have hfv2 := fits_sub 10 hfv (by decide)
  have hfv3 := fits_sub 15 hfv (by decide)
  have hbu := hfu.1
  have hfu0 := fits_sub 0 hfu (by decide)
  have hfu1 := fits_sub 5 hfu (by decide)
  have hfu2 := fits_sub 10 hfu (by decide)
  have hfu3 := fits_sub 15 hfu (by decide)
  simp only [body3]
  ssa_execX [resultTys_3, ↓runA_Multiply, ↓runA_Equal, funcs_65, mkFrame_65, hx_v, hx_u, hbv, hfv0, hfv1, hfv2, hfv3, hbu, hfu0, hfu1, hfu2, hfu3,
    hne_vu, hne_vu.symm, h16, mkE_size, lt16_add, Multiply_rz, Square_rz, Add_rz, Subtract_rz, Select_rz, Set_rz]
  rfl

set_option maxHeartbeats 64000000 in
/-- `(*Point).Equal` as the outermost call, on the canonical heap of its parameters; case `ab` of `checkInitialized` -/
theorem coreE_Point_Equal_ab (v u : P3) (hx_v : IsZeroE v.x = False) (hx_u : IsZeroE u.x = True) (hy_u : IsZeroE u.y = False) : ∀ (H : Heap) (bv bu : Nat) (hfv : Fits H bv 0 20) (hfu : Fits H bu 0 20) (hne_vu : bv ≠ bu) (h16 : 16 < H.blocks.size), ∃ E : List (Array Val),
    run prog 6300 ⟨mkE H [(bv, 0, feL v.x), (bv, 5, feL v.y), (bv, 10, feL v.z), (bv, 15, feL v.t), (bu, 0, feL u.x), (bu, 5, feL u.y), (bu, 10, feL u.z), (bu, 15, feL u.t)] [],
        [⟨3, f3, #[], #[[.ptr bv 0], [.ptr bu 0]], 0, body3, none⟩]⟩
      = .done ⟨mkE H [(bv, 0, feL v.x), (bv, 5, feL v.y), (bv, 10, feL v.z), (bv, 15, feL v.t), (bu, 0, feL u.x), (bu, 5, feL u.y), (bu, 10, feL u.z), (bu, 15, feL u.t)] E, []⟩ [[.int (Formulas.Point_Equal v u)]] := by
  intro H bv bu hfv hfu hne_vu h16
  apply Exists.intro
  have hbv := hfv.1
  have hfv0 := fits_sub 0 hfv (by decide)
  have hfv1 := fits_sub 5 hfv (by decide)
  have hfv2 := fits_sub 10 hfv (by decide)
  have hfv3 := fits_sub 15 hfv (by decide)
  have hbu := hfu.1
  have hfu0 := fits_sub 0 hfu (by decide)
  have hfu1 := fits_sub 5 hfu (by decide)
  have hfu2 := fits_sub 10 hfu (by decide)
  have hfu3 := fits_sub 15 hfu (by decide)
  simp only [body3]
  ssa_execX [resultTys_3, ↓runA_Multiply, ↓runA_Equal, funcs_65, mkFrame_65, hx_v, hx_u, hy_u, hbv, hfv0, hfv1, hfv2, hfv3, hbu, hfu0, hfu1, hfu2, hfu3,
    hne_vu, hne_vu.symm, h16, mkE_size, lt16_add, Multiply_rz, Square_rz, Add_rz, Subtract_rz, Select_rz, Set_rz]
  rfl

set_option maxHeartbeats 64000000 in
/-- `(*Point).Equal` as the outermost call, on the canonical heap of its parameters; case `ba` of `checkInitialized` -/
theorem coreE_Point_Equal_ba (v u : P3) (hx_v : IsZeroE v.x = True) (hy_v : IsZeroE v.y = False) (hx_u : IsZeroE u.x = False) : ∀ (H : Heap) (bv bu : Nat) (hfv : Fits H bv 0 20) (hfu : Fits H bu 0 20) (hne_vu : bv ≠ bu) (h16 : 16 < H.blocks.size), ∃ E : List (Array Val),
    run prog 6300 ⟨mkE H [(bv, 0, feL v.x), (bv, 5, feL v.y), (bv, 10, feL v.z), (bv, 15, feL v.t), (bu, 0, feL u.x), (bu, 5, feL u.y), (bu, 10, feL u.z), (bu, 15, feL u.t)] [],
        [⟨3, f3, #[], #[[.ptr bv 0], [.ptr bu 0]], 0, body3, none⟩]⟩
      = .done ⟨mkE H [(bv, 0, feL v.x), (bv, 5, feL v.y), (bv, 10, feL v.z), (bv, 15, feL v.t), (bu, 0, feL u.x), (bu, 5, feL u.y), (bu, 10, feL u.z), (bu, 15, feL u.t)] E, []⟩ [[.int (Formulas.Point_Equal v u)]] := by
  intro H bv bu hfv hfu hne_vu h16
  apply Exists.intro
  have hbv := hfv.1
  have hfv0 := fits_sub 0 hfv (by decide)
  have hfv1 := fits_sub 5 hfv (by decide)
  have hfv2 := fits_sub 10 hfv (by decide)
  have hfv3 := fits_sub 15 hfv (by decide)
  have hbu := hfu.1
  have hfu0 := fits_sub 0 hfu (by decide)
  have hfu1 := fits_sub 5 hfu (by decide)
  have hfu2 := fits_sub 10 hfu (by decide)
  have hfu3 := fits_sub 15 hfu (by decide)
  simp only [body3]
  ssa_execX [resultTys_3, ↓runA_Multiply, ↓runA_Equal, funcs_65, mkFrame_65, hx_v, hy_v, hx_u, hbv, hfv0, hfv1, hfv2, hfv3, hbu, hfu0, hfu1, hfu2, hfu3,
    hne_vu, hne_vu.symm, h16, mkE_size, lt16_add, Multiply_rz, Square_rz, Add_rz, Subtract_rz, Select_rz, Set_rz]
  rfl

set_option maxHeartbeats 64000000 in
/-- `(*Point).Equal` as the outermost call, on the canonical heap of its parameters; case `bb` of `checkInitialized` -/
theorem coreE_Point_Equal_bb (v u : P3) (hx_v : IsZeroE v.x = True) (hy_v : IsZeroE v.y = False) (hx_u : IsZeroE u.x = True) (hy_u : IsZeroE u.y = False) : ∀ (H : Heap) (bv bu : Nat) (hfv : Fits H bv 0 20) (hfu : Fits H bu 0 20) (hne_vu : bv ≠ bu) (h16 : 16 < H.blocks.size), ∃ E : List (Array Val),
    run prog 6300 ⟨mkE H [(bv, 0, feL v.x), (bv, 5, feL v.y), (bv, 10, feL v.z), (bv, 15, feL v.t), (bu, 0, feL u.x), (bu, 5, feL u.y), (bu, 10, feL u.z), (bu, 15, feL u.t)] [],
        [⟨3, f3, #[], #[[.ptr bv 0], [.ptr bu 0]], 0, body3, none⟩]⟩
      = .done ⟨mkE H [(bv, 0, feL v.x), (bv, 5, feL v.y), (bv, 10, feL v.z), (bv, 15, feL v.t), (bu, 0, feL u.x), (bu, 5, feL u.y), (bu, 10, feL u.z), (bu, 15, feL u.t)] E, []⟩ [[.int (Formulas.Point_Equal v u)]] := by
  intro H bv bu hfv hfu hne_vu h16
  apply Exists.intro
  have hbv := hfv.1
  have hfv0 := fits_sub 0 hfv (by decide)
  have hfv1 := fits_sub 5 hfv (by decide)
  have hfv2 := fits_sub 10 hfv (by decide)
  have hfv3 := fits_sub 15 hfv (by decide)
  have hbu := hfu.1
  have hfu0 := fits_sub 0 hfu (by decide)
  have hfu1 := fits_sub 5 hfu (by decide)
  have hfu2 := fits_sub 10 hfu (by decide)
  have hfu3 := fits_sub 15 hfu (by decide)
  simp only [body3]
  ssa_execX [resultTys_3, ↓runA_Multiply, ↓runA_Equal, funcs_65, mkFrame_65, hx_v, hy_v, hx_u, hy_u, hbv, hfv0, hfv1, hfv2, hfv3, hbu, hfu0, hfu1, hfu2, hfu3,
    hne_vu, hne_vu.symm, h16, mkE_size, lt16_add, Multiply_rz, Square_rz, Add_rz, Subtract_rz, Select_rz, Set_rz]
  rfl

/-- **tie**: `v.Equal(u)` on any heap in which the (distinct) blocks `bv`, `bu` hold the cells of the initialised points `v`, `u`
    (and the block of the package variable `binary.LittleEndian` exists): the run terminates and returns T5's
    `Formulas.Point_Equal v u`; no block of the heap changes (the heap grows by the locals of the run). -/
theorem tie_Point_Equal (h : Heap) (bv bu : Nat) (v u : P3) (hi_v : InitP v) (hi_u : InitP u)
    (hcv : h.blocks[bv]? = some (cellsP3 v)) (hcu : h.blocks[bu]? = some (cellsP3 u)) (hne_vu : bv ≠ bu) (h16 : 16 < h.blocks.size) :
    ∃ h', runCall prog 6300 h (nm! "(*Point).Equal") [[.ptr bv 0], [.ptr bu 0]] = some (.done ⟨h', []⟩ [[.int (Formulas.Point_Equal v u)]])
      ∧ Post0 h h' := by
  have fin : (∀ (H : Heap) (bv bu : Nat) (hfv : Fits H bv 0 20) (hfu : Fits H bu 0 20) (hne_vu : bv ≠ bu) (h16 : 16 < H.blocks.size), ∃ E : List (Array Val),
    run prog 6300 ⟨mkE H [(bv, 0, feL v.x), (bv, 5, feL v.y), (bv, 10, feL v.z), (bv, 15, feL v.t), (bu, 0, feL u.x), (bu, 5, feL u.y), (bu, 10, feL u.z), (bu, 15, feL u.t)] [],
        [⟨3, f3, #[], #[[.ptr bv 0], [.ptr bu 0]], 0, body3, none⟩]⟩
      = .done ⟨mkE H [(bv, 0, feL v.x), (bv, 5, feL v.y), (bv, 10, feL v.z), (bv, 15, feL v.t), (bu, 0, feL u.x), (bu, 5, feL u.y), (bu, 10, feL u.z), (bu, 15, feL u.t)] E, []⟩ [[.int (Formulas.Point_Equal v u)]]) →
      ∃ h', runCall prog 6300 h (nm! "(*Point).Equal") [[.ptr bv 0], [.ptr bu 0]] = some (.done ⟨h', []⟩ [[.int (Formulas.Point_Equal v u)]])
        ∧ Post0 h h' := by
    intro core
    obtain ⟨E, core⟩ := core h bv bu (fits_of_get hcv 20 (Nat.le_refl _)) (fits_of_get hcu 20 (Nat.le_refl _)) hne_vu h16
    have hr : Restates h [(bv, 0, feL v.x), (bv, 5, feL v.y), (bv, 10, feL v.z), (bv, 15, feL v.t), (bu, 0, feL u.x), (bu, 5, feL u.y), (bu, 10, feL u.z), (bu, 15, feL u.t)] := restates4 hcv (restates4 hcu (restates_nil h))
    rw [mkE_restates h _ hr, mkE_restates_ext h _ _ hr] at core
    refine ⟨pushB h E, ?_, post0_pushB h E⟩
    simp only [runCall, funcIdx_3, callState, funcs_3, mkFrame_3, Option.bind_some, Option.map_some, Option.pure_def,
      Option.bind_eq_bind]
    rw [core]
  by_cases hx_v : IsZeroE v.x
  · have hy_v : ¬ IsZeroE v.y := fun hy => hi_v.elim (fun h => h hx_v) (fun h => h hy)
    by_cases hx_u : IsZeroE u.x
    · have hy_u : ¬ IsZeroE u.y := fun hy => hi_u.elim (fun h => h hx_u) (fun h => h hy)
      exact fin (coreE_Point_Equal_bb v u (eq_true hx_v) (eq_false hy_v) (eq_true hx_u) (eq_false hy_u))
    · exact fin (coreE_Point_Equal_ba v u (eq_true hx_v) (eq_false hy_v) (eq_false hx_u))
  · by_cases hx_u : IsZeroE u.x
    · have hy_u : ¬ IsZeroE u.y := fun hy => hi_u.elim (fun h => h hx_u) (fun h => h hy)
      exact fin (coreE_Point_Equal_ab v u (eq_false hx_v) (eq_true hx_u) (eq_false hy_u))
    · exact fin (coreE_Point_Equal_aa v u (eq_false hx_v) (eq_false hx_u))

set_option maxHeartbeats 64000000 in
/-- `v.Equal(v)` (both parameters the same block), case `a` of `checkInitialized` -/
theorem coreE_Point_Equal__al00_a (v u : P3) (hx_v : IsZeroE v.x = False) : ∀ (H : Heap) (bv : Nat) (hfv : Fits H bv 0 20) (h16 : 16 < H.blocks.size), ∃ E : List (Array Val),
    run prog 6300 ⟨mkE H [(bv, 0, feL v.x), (bv, 5, feL v.y), (bv, 10, feL v.z), (bv, 15, feL v.t)] [],
        [⟨3, f3, #[], #[[.ptr bv 0], [.ptr bv 0]], 0, body3, none⟩]⟩
      = .done ⟨mkE H [(bv, 0, feL v.x), (bv, 5, feL v.y), (bv, 10, feL v.z), (bv, 15, feL v.t)] E, []⟩ [[.int (Formulas.Point_Equal__al00 v u)]] := by
  intro H bv hfv h16
  apply Exists.intro
  have hbv := hfv.1
  have hfv0 := fits_sub 0 hfv (by decide)
  have hfv1 := fits_sub 5 hfv (by decide)
  have hfv2 := fits_sub 10 hfv (by decide)
  have hfv3 := fits_sub 15 hfv (by decide)
  simp only [body3]
  ssa_execX [resultTys_3, ↓runA_Multiply, ↓runA_Equal, funcs_65, mkFrame_65, hx_v, hbv, hfv0, hfv1, hfv2, hfv3,
    h16, mkE_size, lt16_add, Multiply_rz, Square_rz, Add_rz, Subtract_rz, Select_rz, Set_rz]
  rfl

set_option maxHeartbeats 64000000 in
/-- `v.Equal(v)` (both parameters the same block), case `b` of `checkInitialized` -/
theorem coreE_Point_Equal__al00_b (v u : P3) (hx_v : IsZeroE v.x = True) (hy_v : IsZeroE v.y = False) : ∀ (H : Heap) (bv : Nat) (hfv : Fits H bv 0 20) (h16 : 16 < H.blocks.size), ∃ E : List (Array Val),
    run prog 6300 ⟨mkE H [(bv, 0, feL v.x), (bv, 5, feL v.y), (bv, 10, feL v.z), (bv, 15, feL v.t)] [],
        [⟨3, f3, #[], #[[.ptr bv 0], [.ptr bv 0]], 0, body3, none⟩]⟩
      = .done ⟨mkE H [(bv, 0, feL v.x), (bv, 5, feL v.y), (bv, 10, feL v.z), (bv, 15, feL v.t)] E, []⟩ [[.int (Formulas.Point_Equal__al00 v u)]] := by
  intro H bv hfv h16
  apply Exists.intro
  have hbv := hfv.1
  have hfv0 := fits_sub 0 hfv (by decide)
  have hfv1 := fits_sub 5 hfv (by decide)
  have hfv2 := fits_sub 10 hfv (by decide)
  have hfv3 := fits_sub 15 hfv (by decide)
  simp only [body3]
  ssa_execX [resultTys_3, ↓runA_Multiply, ↓runA_Equal, funcs_65, mkFrame_65, hx_v, hy_v, hbv, hfv0, hfv1, hfv2, hfv3,
    h16, mkE_size, lt16_add, Multiply_rz, Square_rz, Add_rz, Subtract_rz, Select_rz, Set_rz]
  rfl

/-- **tie**: `v.Equal(v)` (the two parameters are the same block; `u` is the unused second value of T5's aliased definition) -/
theorem tie_Point_Equal__al00 (h : Heap) (bv : Nat) (v u : P3) (hi_v : InitP v)
    (hcv : h.blocks[bv]? = some (cellsP3 v)) (h16 : 16 < h.blocks.size) :
    ∃ h', runCall prog 6300 h (nm! "(*Point).Equal") [[.ptr bv 0], [.ptr bv 0]] = some (.done ⟨h', []⟩ [[.int (Formulas.Point_Equal__al00 v u)]])
      ∧ Post0 h h' := by
  have fin : (∀ (H : Heap) (bv : Nat) (hfv : Fits H bv 0 20) (h16 : 16 < H.blocks.size), ∃ E : List (Array Val),
    run prog 6300 ⟨mkE H [(bv, 0, feL v.x), (bv, 5, feL v.y), (bv, 10, feL v.z), (bv, 15, feL v.t)] [],
        [⟨3, f3, #[], #[[.ptr bv 0], [.ptr bv 0]], 0, body3, none⟩]⟩
      = .done ⟨mkE H [(bv, 0, feL v.x), (bv, 5, feL v.y), (bv, 10, feL v.z), (bv, 15, feL v.t)] E, []⟩ [[.int (Formulas.Point_Equal__al00 v u)]]) →
      ∃ h', runCall prog 6300 h (nm! "(*Point).Equal") [[.ptr bv 0], [.ptr bv 0]] = some (.done ⟨h', []⟩ [[.int (Formulas.Point_Equal__al00 v u)]])
        ∧ Post0 h h' := by
    intro core
    obtain ⟨E, core⟩ := core h bv (fits_of_get hcv 20 (Nat.le_refl _)) h16
    have hr : Restates h [(bv, 0, feL v.x), (bv, 5, feL v.y), (bv, 10, feL v.z), (bv, 15, feL v.t)] := restates4 hcv (restates_nil h)
    rw [mkE_restates h _ hr, mkE_restates_ext h _ _ hr] at core
    refine ⟨pushB h E, ?_, post0_pushB h E⟩
    simp only [runCall, funcIdx_3, callState, funcs_3, mkFrame_3, Option.bind_some, Option.map_some, Option.pure_def,
      Option.bind_eq_bind]
    rw [core]
  by_cases hx_v : IsZeroE v.x
  · have hy_v : ¬ IsZeroE v.y := fun hy => hi_v.elim (fun h => h hx_v) (fun h => h hy)
    exact fin (coreE_Point_Equal__al00_b v u (eq_true hx_v) (eq_false hy_v))
  · exact fin (coreE_Point_Equal__al00_a v u (eq_false hx_v))

end EdVerif.Ssa.Tie
