import EdVerif.Ssa.Sem
import EdVerif.Prims
/-!
# Bridging the arithmetic of `Sem.lean` and of `Prims.lean`

Most operations agree by unfolding (`wrap w n = n % 2^w`, …).  Two do not agree syntactically:
`^x` (`(2^w - 1) ^^^ x` in `Sem`, `2^w - 1 - x % 2^w` in `Prims`) and the conversions between integer types
(`Sem` performs them, T1 drops them).  They agree on operands `< 2^64`.
-/
namespace EdVerif.Ssa.Tie
open EdVerif.Ssa EdVerif.Prims

theorem not64 (x : Nat) (hx : x < 2 ^ 64) : (2 ^ 64 - 1) ^^^ x = U.not 64 x := by
  have h := @BitVec.toNat_not 64 (BitVec.ofNat 64 x)
  rw [BitVec.not_def, BitVec.toNat_xor, BitVec.toNat_allOnes, BitVec.toNat_ofNat, Nat.mod_eq_of_lt hx] at h
  simp only [U.not, Nat.mod_eq_of_lt hx]
  exact h

theorem ofInt_toInt64 (c : Nat) (hc : c < 2 ^ 64) : ofInt 64 (toInt 64 c) = c := by
  simp only [ofInt, toInt]
  split <;> omega

theorem wrap64_of_lt (y : Nat) (hy : y < 2 ^ 64) : wrap 64 y = y := Nat.mod_eq_of_lt hy

theorem wrap_lt (w n : Nat) : wrap w n < 2 ^ w := Nat.mod_lt _ (Nat.two_pow_pos w)

theorem xor_lt64 {a b : Nat} (ha : a < 2 ^ 64) (hb : b < 2 ^ 64) : a ^^^ b < 2 ^ 64 := Nat.xor_lt_two_pow ha hb


/-! ### `Sem` vocabulary → `Prims` vocabulary, as proof-producing rewrite rules

(deliberately *not* proved by a bare `rfl`, so that `simp` does not use them as `dsimp` lemmas: the kernel's
definitional-equality check of a bit operation applied to a term such as `c + 2^64 - 1` does not terminate in reasonable time) -/

theorem and_eq (a b : Nat) : a &&& b = U.and 64 a b := by rw [U.and]
theorem or_eq (a b : Nat) : a ||| b = U.or 64 a b := by rw [U.or]
theorem xor_eq (a b : Nat) : a ^^^ b = U.xor 64 a b := by rw [U.xor]
theorem shr_eq (a k : Nat) : a >>> k = U.shr 64 a k := by rw [U.shr]
theorem add_eq (a b : Nat) : wrap 64 (a + b) = U.add 64 a b := by rw [U.add, wrap]
theorem mul_eq (a b : Nat) : wrap 64 (a * b) = U.mul 64 a b := by rw [U.mul, wrap]
theorem shl_eq (a k : Nat) : wrap 64 (a <<< k) = U.shl 64 a k := by rw [U.shl, wrap]
theorem sub_eq (a b : Nat) : wrap 64 (a + 2 ^ 64 - b % 2 ^ 64) = U.sub 64 a b := by rw [U.sub, wrap]

end EdVerif.Ssa.Tie
