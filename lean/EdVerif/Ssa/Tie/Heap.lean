import EdVerif.Ssa.Sem
/-!
# Symbolic heaps for the `tie_*` theorems

`mkH h0 ovr ext` is the canonical form of every heap met while a kernel runs on an arbitrary heap `h0`:
the blocks listed in `ovr` (the operands of the kernel) are replaced, and the blocks allocated by the
run (`ext`) are appended.  `Heap.read`, `Heap.write`, `Heap.alloc` on this form are computed by the
rewrite lemmas below (side conditions: the operand blocks are in range and pairwise distinct).
-/
namespace EdVerif.Ssa.Tie
open EdVerif.Ssa

/-! ## `k` continuing steps -/

def steps (p : Program) : Nat → State → Option State
  | 0, s => some s
  | k + 1, s =>
    match step p s with
    | .cont s' _ => steps p k s'
    | _ => none

theorem run_of_steps {p : Program} : ∀ (k : Nat) {s s' : State} (n : Nat),
    steps p k s = some s' → run p (k + n) s = run p n s' := by
  intro k
  induction k with
  | zero => intro s s' n h; simp only [steps, Option.some.injEq] at h; subst h; simp
  | succ k ih =>
    intro s s' n h
    have e : k + 1 + n = (k + n) + 1 := by omega
    rw [e, run]
    simp only [steps] at h
    cases hs : step p s with
    | cont s1 ev => rw [hs] at h; simp only at h ⊢; exact ih n h
    | done s1 r ev => rw [hs] at h; simp at h
    | panic s1 c ev => rw [hs] at h; simp at h
    | fault w => rw [hs] at h; simp at h

theorem steps_add {p : Program} : ∀ (a b : Nat) (s : State),
    steps p (a + b) s = (steps p a s).bind (steps p b) := by
  intro a
  induction a with
  | zero => intro b s; simp [steps]
  | succ a ih =>
    intro b s
    have e : a + 1 + b = (a + b) + 1 := by omega
    rw [e]
    simp only [steps]
    cases step p s with
    | cont s1 ev => simp only; exact ih b s1
    | done s1 r ev => simp
    | panic s1 c ev => simp
    | fault w => simp

theorem steps_trans {p : Program} {a b : Nat} {s s1 s2 : State}
    (h1 : steps p a s = some s1) (h2 : steps p b s1 = some s2) : steps p (a + b) s = some s2 := by
  rw [steps_add, h1]; exact h2

/-! ## the canonical heap -/

def base (h0 : Heap) : List (Nat × Array Val) → Array (Array Val)
  | [] => h0.blocks
  | kv :: r => (base h0 r).setIfInBounds kv.1 kv.2

def mkH (h0 : Heap) (ovr : List (Nat × Array Val)) (ext : List (Array Val)) : Heap :=
  ⟨base h0 ovr ++ ext.toArray⟩

@[simp] theorem base_size (h0 : Heap) : ∀ ovr, (base h0 ovr).size = h0.blocks.size
  | [] => rfl
  | kv :: r => by simp [base, base_size h0 r]

theorem setIfInBounds_same {α} {a : Array α} {i : Nat} {v : α} (h : a[i]? = some v) : a.setIfInBounds i v = a := by
  apply Array.ext_getElem?
  intro j
  rw [Array.getElem?_setIfInBounds]
  by_cases e : i = j
  · subst e
    have : i < a.size := by
      apply Classical.byContradiction; intro hn
      rw [Array.getElem?_eq_none (by omega)] at h; cases h
    rw [h]; simp [this]
  · simp [e]

theorem setIfInBounds_comm' {α} (a : Array α) {i j : Nat} (x y : α) (h : i ≠ j) :
    (a.setIfInBounds i x).setIfInBounds j y = (a.setIfInBounds j y).setIfInBounds i x := by
  apply Array.ext_getElem?
  intro k
  simp only [Array.getElem?_setIfInBounds, Array.size_setIfInBounds]
  by_cases e1 : j = k <;> by_cases e2 : i = k <;> simp [e1, e2]
  · omega

theorem mkH_intro (h : Heap) : ∀ (ovr : List (Nat × Array Val)), (∀ kv ∈ ovr, h.blocks[kv.1]? = some kv.2) → mkH h ovr [] = h := by
  intro ovr hall
  have hb : base h ovr = h.blocks := by
    induction ovr with
    | nil => rfl
    | cons kv r ih =>
      simp only [base]
      rw [ih (fun x hx => hall x (List.mem_cons_of_mem _ hx))]
      exact setIfInBounds_same (hall kv (List.mem_cons_self))
  simp [mkH, hb]

theorem mkH_swap (h0 : Heap) (b0 b1 : Nat) (V0 V1 : Array Val) (r : List (Nat × Array Val)) (ext : List (Array Val))
    (hne : b0 ≠ b1) : mkH h0 ((b0, V0) :: (b1, V1) :: r) ext = mkH h0 ((b1, V1) :: (b0, V0) :: r) ext := by
  simp only [mkH, base]
  rw [setIfInBounds_comm' _ _ _ (Ne.symm hne)]

/-! ### lookups -/

theorem mkH_get_ext (h0 : Heap) (ovr ext) (k : Nat) : (mkH h0 ovr ext).blocks[h0.blocks.size + k]? = ext[k]? := by
  simp only [mkH]
  rw [Array.getElem?_append_right (by simp)]
  simp

theorem mkH_get_hit (h0 : Heap) (b : Nat) (V : Array Val) (ovr ext) (hb : b < h0.blocks.size) :
    (mkH h0 ((b, V) :: ovr) ext).blocks[b]? = some V := by
  simp only [mkH, base]
  rw [Array.getElem?_append_left (by simp [hb])]
  simp [hb]

theorem mkH_get_miss (h0 : Heap) (b c : Nat) (V : Array Val) (ovr ext) (hne : c ≠ b) :
    (mkH h0 ((b, V) :: ovr) ext).blocks[c]? = (mkH h0 ovr ext).blocks[c]? := by
  simp only [mkH, base]
  by_cases hc : c < h0.blocks.size
  · rw [Array.getElem?_append_left (by simp [hc]), Array.getElem?_append_left (by simp [hc])]
    simp [Ne.symm hne]
  · rw [Array.getElem?_append_right (by simp; omega), Array.getElem?_append_right (by simp; omega)]
    simp

theorem mkH_get_nil (h0 : Heap) (c : Nat) (ext) (hc : c < h0.blocks.size) :
    (mkH h0 [] ext).blocks[c]? = h0.blocks[c]? := by
  simp only [mkH, base]
  rw [Array.getElem?_append_left hc]

theorem mkH_size (h0 : Heap) (ovr ext) : (mkH h0 ovr ext).blocks.size = h0.blocks.size + ext.length := by
  simp [mkH]

/-! ### `read` -/

theorem read_ext (h0 : Heap) (ovr ext) (k o n : Nat) :
    (mkH h0 ovr ext).read (h0.blocks.size + k) o n = (ext[k]?).bind (fun blk => readCells blk o n) := by
  simp only [Heap.read, mkH_get_ext]
  cases ext[k]? <;> rfl

theorem read_hit (h0 : Heap) (b : Nat) (V : Array Val) (ovr ext) (o n : Nat) (hb : b < h0.blocks.size) :
    (mkH h0 ((b, V) :: ovr) ext).read b o n = readCells V o n := by
  simp only [Heap.read, mkH_get_hit h0 b V ovr ext hb]; rfl

theorem read_miss (h0 : Heap) (b c : Nat) (V : Array Val) (ovr ext) (o n : Nat) (hne : c ≠ b) :
    (mkH h0 ((b, V) :: ovr) ext).read c o n = (mkH h0 ovr ext).read c o n := by
  simp only [Heap.read, mkH_get_miss h0 b c V ovr ext hne]

/-! ### `write` -/

theorem write_of_get {h : Heap} {b o : Nat} {vs : List Val} {blk : Array Val} (hg : h.blocks[b]? = some blk) :
    h.write b o vs = (writeCells blk o vs).map (fun blk' => ⟨h.blocks.setIfInBounds b blk'⟩) := by
  simp only [Heap.write, hg]
  cases writeCells blk o vs with
  | none => rfl
  | some b' => simp [Array.setIfInBounds_setIfInBounds]

theorem write_ext (h0 : Heap) (ovr ext) (k o : Nat) (vs : List Val) :
    (mkH h0 ovr ext).write (h0.blocks.size + k) o vs
      = (ext[k]?).bind (fun blk => (writeCells blk o vs).map (fun blk' => mkH h0 ovr (ext.set k blk'))) := by
  cases hk : ext[k]? with
  | none =>
    simp only [Heap.write, mkH_get_ext, hk]; rfl
  | some blk =>
    rw [write_of_get (by rw [mkH_get_ext]; exact hk)]
    simp only [Option.bind_some]
    congr 1
    funext blk'
    simp only [mkH]
    rw [Array.setIfInBounds_append_right (by simp)]
    simp

theorem write_hit (h0 : Heap) (b : Nat) (V : Array Val) (ovr ext) (o : Nat) (vs : List Val) (hb : b < h0.blocks.size) :
    (mkH h0 ((b, V) :: ovr) ext).write b o vs = (writeCells V o vs).map (fun V' => mkH h0 ((b, V') :: ovr) ext) := by
  rw [write_of_get (mkH_get_hit h0 b V ovr ext hb)]
  congr 1
  funext V'
  simp only [mkH, base]
  rw [Array.setIfInBounds_append_left (by simp [hb]), Array.setIfInBounds_setIfInBounds]

theorem write_hit1 (h0 : Heap) (b0 b : Nat) (V0 V : Array Val) (ovr ext) (o : Nat) (vs : List Val)
    (hne : b ≠ b0) (hb : b < h0.blocks.size) :
    (mkH h0 ((b0, V0) :: (b, V) :: ovr) ext).write b o vs
      = (writeCells V o vs).map (fun V' => mkH h0 ((b0, V0) :: (b, V') :: ovr) ext) := by
  rw [mkH_swap h0 b0 b V0 V ovr ext (Ne.symm hne), write_hit h0 b V _ ext o vs hb]
  congr 1
  funext V'
  exact mkH_swap h0 b b0 V' V0 ovr ext hne

theorem write_hit2 (h0 : Heap) (b0 b1 b : Nat) (V0 V1 V : Array Val) (ovr ext) (o : Nat) (vs : List Val)
    (hne0 : b ≠ b0) (hne1 : b ≠ b1) (hb : b < h0.blocks.size) :
    (mkH h0 ((b0, V0) :: (b1, V1) :: (b, V) :: ovr) ext).write b o vs
      = (writeCells V o vs).map (fun V' => mkH h0 ((b0, V0) :: (b1, V1) :: (b, V') :: ovr) ext) := by
  have sw : ∀ W, mkH h0 ((b0, V0) :: (b1, V1) :: (b, W) :: ovr) ext = mkH h0 ((b, W) :: (b0, V0) :: (b1, V1) :: ovr) ext := by
    intro W
    have e1 : mkH h0 ((b0, V0) :: (b1, V1) :: (b, W) :: ovr) ext = mkH h0 ((b0, V0) :: (b, W) :: (b1, V1) :: ovr) ext := by
      simp only [mkH, base]
      rw [setIfInBounds_comm' _ _ _ hne1]
    rw [e1, mkH_swap h0 b0 b V0 W _ ext (Ne.symm hne0)]
  rw [sw V, write_hit h0 b V _ ext o vs hb]
  congr 1
  funext V'
  exact (sw V').symm

/-! ### `alloc` -/

theorem alloc_mkH (h0 : Heap) (ovr ext) (vs : List Val) :
    (mkH h0 ovr ext).alloc vs = (mkH h0 ovr (ext ++ [vs.toArray]), h0.blocks.size + ext.length) := by
  simp only [Heap.alloc, mkH]
  rw [← Array.append_push, List.push_toArray]
  simp

end EdVerif.Ssa.Tie
