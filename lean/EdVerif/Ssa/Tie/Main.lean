import EdVerif.Ssa.Tie.Small
import EdVerif.Ssa.Tie.Carry
import EdVerif.Ssa.Tie.Add
import EdVerif.Ssa.Tie.Sub
import EdVerif.Ssa.Tie.Select
import EdVerif.Ssa.Tie.Misc
import EdVerif.Ssa.Tie.Mul
import EdVerif.Ssa.Tie.Sq
import EdVerif.Ssa.Tie.Reduce
import EdVerif.Ssa.Tie.Negate
import EdVerif.Ssa.Tie.AliasAdd
import EdVerif.Ssa.Tie.AliasSub
import EdVerif.Ssa.Tie.AliasSelect
import EdVerif.Ssa.Tie.AliasMisc
import EdVerif.Ssa.Tie.AliasMul
import EdVerif.Ssa.Tie.AliasSq
import EdVerif.Ssa.Tie.WrapFeMul
import EdVerif.Ssa.Tie.WrapMultiply
import EdVerif.Ssa.Tie.WrapFeSquare
import EdVerif.Ssa.Tie.WrapSquare
import EdVerif.Ssa.Tie.Bytes
import EdVerif.Ssa.Tie.Wide
import EdVerif.Ssa.Tie.Init
/-!
# `tie_*`: running the SSA of a field kernel in the semantics of `Sem.lean` computes the T1 definition

`runCall p fuel h name args` = look the function `name` up in `p` (`Program.funcIdx?`), build `callState p h fi args`, `run p fuel`.
`feCells v = #[.int v.l0, …, .int v.l4]` (an `Element` is five `u64` scalars), `mkH h [] ext` = the blocks of `h` followed by `ext`.
`Post1 h h' b V'`: `h'` has not shrunk, block `b` of `h'` is `V'`, every other block of `h` is unchanged in `h'`
(`Post2`: the same with two replaced blocks).  All statements hold for ALL limb values (arbitrary `Nat`s; no `< 2^64` needed
except for the scalar arguments that the Go code converts between integer types: `cond` of `Select`/`Swap`/`mask64Bits`, `y` of
`Mult32`/`mul51`).

## value kernels (arbitrary heap `h`)
* `tie_shiftRightBy51 : runCall prog 10 h (nm! "field.shiftRightBy51") [[.int lo, .int hi]]
     = some (.done ⟨mkH h [] [#[.int lo, .int hi]], []⟩ [[.int (Field.shiftRightBy51 ⟨lo, hi⟩)]])`
* `tie_mul64`, `tie_addMul64`, `tie_mask64Bits` (`c < 2^64`), `tie_mul51` (`y < 2^64`): same shape.

## pointer kernels
For an arbitrary heap `h` whose blocks `bv`, `ba`, `bb` hold the limbs of `v`, `a`, `b` (`h.blocks[bv]? = some (feCells v)` …):
* `tie_K` / `tie_K_d` (pairwise distinct blocks), `tie_K_va`, `tie_K_vb`, `tie_K_ab`, `tie_K_vab` (the named parameters share a block),
  and `tie_K_any` (NO distinctness hypothesis; blocks may coincide) of the form
  `∃ h', runCall prog k h (nm! "(*field.Element).K") [[.ptr bv 0], [.ptr ba 0], [.ptr bb 0]] = some (.done ⟨h', []⟩ rets)
         ∧ Post1 h h' bv (feCells (Field.K v a b))`
  for `K` = `Add` (84 steps), `Subtract` (91), `Select` (56, `+ [.int c]`, `c < 2^64`), `Set` (3), `Mult32` (87, `y < 2^64`),
  `feMulGeneric` (731), `feSquareGeneric` (474), `feMul` (733), `Multiply` (735), `feSquare` (476), `Square` (478);
* `tie_carryPropagateGeneric` (47), `tie_carryPropagate` (49), `tie_reduce` (134): one block;
* `tie_Swap` (86; two distinct blocks, `Post2`), `tie_Zero`, `tie_One` (4; hypothesis: the package variable `feZero`/`feOne`, heap block
  13/12, points to a block holding T1's constant), `tie_Negate` (94; `bv = ba` allowed, the block of `feZero` distinct from both);
* `tie_SetBytes` (60; the slice is a whole 32-cell block, `[.slice bx 0 32 32]`; result `[[.ptr bv 0], [.nil]]`),
  `tie_SetWideBytes` (243; `[.slice bx 0 64 64]`, bytes `x 0 … x 63`, T1 argument `bytes64 x`); both need block 16
  (`binary.LittleEndian`) to exist;
* `tie_field_init`: `field.init` on `initHeap prog` terminates and establishes `InitGood` (the hypotheses of `tie_Zero/One/Negate`).

With these every function of `EdVerif/Gen/FieldKernels.lean` (T1) is tied.
-/

namespace EdVerif.Ssa.Tie
open EdVerif.Ssa EdVerif.Gen.Ssa EdVerif.Prims

#print axioms tie_shiftRightBy51
#print axioms tie_mul64
#print axioms tie_addMul64
#print axioms tie_mask64Bits
#print axioms tie_mul51
#print axioms tie_carryPropagateGeneric
#print axioms tie_carryPropagate
#print axioms tie_reduce
#print axioms tie_Add_any
#print axioms tie_Subtract_any
#print axioms tie_Select_any
#print axioms tie_Swap
#print axioms tie_Set_any
#print axioms tie_Zero
#print axioms tie_One
#print axioms tie_Negate
#print axioms tie_Mult32_any
#print axioms tie_feMulGeneric_any
#print axioms tie_feSquareGeneric_any
#print axioms tie_feMul_any
#print axioms tie_Multiply_any
#print axioms tie_feSquare_any
#print axioms tie_Square_any
#print axioms tie_SetBytes
#print axioms tie_SetWideBytes
#print axioms tie_field_init

end EdVerif.Ssa.Tie
