import EdVerif.Ssa.Tie.PtOnCurve
/-!
# `(*Point).SetExtendedCoordinates`: SSA execution = T5's `Formulas.Point_SetExtendedCoordinates` (pair form)

`isOnCurve` runs inline (three paths); on success the four `Set` go through `runA_Set`, on failure `errors.New` returns the error value.
-/
namespace EdVerif.Ssa.Tie
open EdVerif.Ssa EdVerif.Gen.Ssa EdVerif.Prims EdVerif.Impl EdVerif.Gen
set_option maxRecDepth 100000
set_option linter.unusedVariables false

theorem extern_errorsNew (p : Program) (hp : Heap) (fr : Frame) (frs : List Frame) (i : Instr) (n : Nat) :
    stepExtern p hp fr frs i N45 [[.opaque n]] = contReg fr frs i.id [.opaque n] hp [] := by
  have h1 : (N45 == Ext.mul64) = false := by decide
  have h2 : (N45 == Ext.add64) = false := by decide
  have h3 : (N45 == Ext.sub64) = false := by decide
  have h4 : (N45 == Ext.ctByteEq) = false := by decide
  have h5 : (N45 == Ext.ctCompare) = false := by decide
  have h6 : (N45 == Ext.leUint64) = false := by decide
  have h7 : (N45 == Ext.lePutUint64) = false := by decide
  have h8 : (N45 == Ext.errorsNew) = true := by decide
  simp only [stepExtern, h1, h2, h3, h4, h5, h6, h7, h8, if_true, Bool.false_eq_true, if_false]

def body12 : List Instr := body% f12
def blk12_1 : List Instr := block% f12 1
def blk12_2 : List Instr := block% f12 2
theorem funcs_12 : prog.funcs[12]? = some f12 := rfl
theorem mkFrame_12 (args : List RVal) (dest : Option Nat) :
    mkFrame 12 f12 args dest = some ⟨12, f12, #[], args.toArray, 0, body12, dest⟩ := rfl
theorem resultTys_12 : f12.resultTys = [6, 32] := rfl
theorem funcIdx_12 : prog.funcIdx? (nm! "(*Point).SetExtendedCoordinates") = some 12 := by decide +kernel

section jumps
variable (regs params : Array RVal) (rest : List Instr) (dest : Option Nat)
theorem jumpTo_12_0_1 : jumpTo prog ⟨12, f12, regs, params, 0, rest, dest⟩ 1 = some ⟨12, f12, regs, params, 1, blk12_1, dest⟩ := rfl
theorem jumpTo_12_0_2 : jumpTo prog ⟨12, f12, regs, params, 0, rest, dest⟩ 2 = some ⟨12, f12, regs, params, 2, blk12_2, dest⟩ := rfl
end jumps

/-- the values returned by `SetExtendedCoordinates`: `(v, nil)` or `(nil, error)` -/
def retSEC (bv : Nat) : Option P3 → List RVal
  | some _ => [[.ptr bv 0], [.nil]]
  | none => [[.nil], [.opaque (Nm.ofString "edwards25519: invalid point coordinates" + 16)]]

set_option maxHeartbeats 64000000 in
/-- `(*Point).SetExtendedCoordinates` as the outermost call, on the canonical heap of its parameters; path 1 of `isOnCurve` -/
theorem coreE_SEC_1 (v : P3) (X Y Z T : Fe) (hE1 : (Formulas.field_Element_Equal Z Fe.rz == 1) = true) : ∀ (H : Heap) (bv bX bY bZ bT bg_d : Nat) (hfv : Fits H bv 0 20) (hfX : Fits H bX 0 5) (hfY : Fits H bY 0 5) (hfZ : Fits H bZ 0 5) (hfT : Fits H bT 0 5) (hne_vX : bv ≠ bX) (hne_vY : bv ≠ bY) (hne_vZ : bv ≠ bZ) (hne_vT : bv ≠ bT) (hne_XY : bX ≠ bY) (hne_XZ : bX ≠ bZ) (hne_XT : bX ≠ bT) (hne_YZ : bY ≠ bZ) (hne_YT : bY ≠ bT) (hne_ZT : bZ ≠ bT) (hg_d : H.read 3 0 1 = some [.ptr bg_d 0]) (hfg_d : Fits H bg_d 0 5) (hn_d : bg_d ≠ 3) (hne_X_d : bX ≠ bg_d) (hng_X_d : bX ≠ 3) (hne_Y_d : bY ≠ bg_d) (hng_Y_d : bY ≠ 3) (hne_Z_d : bZ ≠ bg_d) (hng_Z_d : bZ ≠ 3) (hne_T_d : bT ≠ bg_d) (hng_T_d : bT ≠ 3) (hne_v_d : bv ≠ bg_d) (hng_v_d : bv ≠ 3) (h16 : 16 < H.blocks.size), ∃ E : List (Array Val),
    run prog 10300 ⟨mkE H [(bv, 0, feL v.x), (bv, 5, feL v.y), (bv, 10, feL v.z), (bv, 15, feL v.t), (bX, 0, feL X), (bY, 0, feL Y), (bZ, 0, feL Z), (bT, 0, feL T), (bg_d, 0, feL Point.d)] [],
        [⟨12, f12, #[], #[[.ptr bv 0], [.ptr bX 0], [.ptr bY 0], [.ptr bZ 0], [.ptr bT 0]], 0, body12, none⟩]⟩
      = .done ⟨mkE H [(bv, 0, feL v.x), (bv, 5, feL v.y), (bv, 10, feL v.z), (bv, 15, feL v.t), (bX, 0, feL X), (bY, 0, feL Y), (bZ, 0, feL Z), (bT, 0, feL T), (bg_d, 0, feL Point.d)] E, []⟩ [[.nil], [.opaque (Nm.ofString "edwards25519: invalid point coordinates" + 16)]] := by
  intro H bv bX bY bZ bT bg_d hfv hfX hfY hfZ hfT hne_vX hne_vY hne_vZ hne_vT hne_XY hne_XZ hne_XT hne_YZ hne_YT hne_ZT hg_d hfg_d hn_d hne_X_d hng_X_d hne_Y_d hng_Y_d hne_Z_d hng_Z_d hne_T_d hng_T_d hne_v_d hng_v_d h16
  apply Exists.intro
  have hE1z : (Formulas.field_Element_Equal Z ⟨0, 0, 0, 0, 0⟩ == 1) = true := hE1
  have hbv := hfv.1
  have hfv0 := fits_sub 0 hfv (by decide)
  have hfv1 := fits_sub 5 hfv (by decide)
  have hfv2 := fits_sub 10 hfv (by decide)
  have hfv3 := fits_sub 15 hfv (by decide)
  have hbX := hfX.1
  have hbY := hfY.1
  have hbZ := hfZ.1
  have hbT := hfT.1
  have hlt_d := lt_of_read hg_d
  simp only [body12]
  ssa_execO [resultTys_12, blk12_1, blk12_2, jumpTo_12_0_1, jumpTo_12_0_2, funcs_106, mkFrame_106, body106, ↓runA_Set, extern_errorsNew,
    hE1z, hbv, hfv0, hfv1, hfv2, hfv3, hbX, hbY, hbZ, hbT, hfX, hfY, hfZ, hfT, hne_vX, hne_vX.symm, hne_vY, hne_vY.symm, hne_vZ, hne_vZ.symm, hne_vT, hne_vT.symm, hne_XY, hne_XY.symm, hne_XZ, hne_XZ.symm, hne_XT, hne_XT.symm, hne_YZ, hne_YZ.symm, hne_YT, hne_YT.symm, hne_ZT, hne_ZT.symm,
    read_mkE_base hg_d, gptr_mkE hg_d, isGlob_mkE hg_d, hfg_d, hfg_d.1, hn_d, hn_d.symm, hne_X_d, hne_X_d.symm, hng_X_d, hng_X_d.symm, hne_Y_d, hne_Y_d.symm, hng_Y_d, hng_Y_d.symm, hne_Z_d, hne_Z_d.symm, hng_Z_d, hng_Z_d.symm, hne_T_d, hne_T_d.symm, hng_T_d, hng_T_d.symm, hne_v_d, hne_v_d.symm, hng_v_d, hng_v_d.symm, hlt_d, h16]
  rfl

set_option maxHeartbeats 64000000 in
/-- `(*Point).SetExtendedCoordinates` as the outermost call, on the canonical heap of its parameters; path 2 of `isOnCurve` -/
theorem coreE_SEC_2 (v : P3) (X Y Z T : Fe) (hE1 : (Formulas.field_Element_Equal Z Fe.rz == 1) = false) (hE2 : (Formulas.field_Element_Equal (Fe.sub (Fe.square Y) (Fe.square X)) (Fe.add (Fe.mul Point.d (Fe.square T)) (Fe.square Z)) != 1) = true) : ∀ (H : Heap) (bv bX bY bZ bT bg_d : Nat) (hfv : Fits H bv 0 20) (hfX : Fits H bX 0 5) (hfY : Fits H bY 0 5) (hfZ : Fits H bZ 0 5) (hfT : Fits H bT 0 5) (hne_vX : bv ≠ bX) (hne_vY : bv ≠ bY) (hne_vZ : bv ≠ bZ) (hne_vT : bv ≠ bT) (hne_XY : bX ≠ bY) (hne_XZ : bX ≠ bZ) (hne_XT : bX ≠ bT) (hne_YZ : bY ≠ bZ) (hne_YT : bY ≠ bT) (hne_ZT : bZ ≠ bT) (hg_d : H.read 3 0 1 = some [.ptr bg_d 0]) (hfg_d : Fits H bg_d 0 5) (hn_d : bg_d ≠ 3) (hne_X_d : bX ≠ bg_d) (hng_X_d : bX ≠ 3) (hne_Y_d : bY ≠ bg_d) (hng_Y_d : bY ≠ 3) (hne_Z_d : bZ ≠ bg_d) (hng_Z_d : bZ ≠ 3) (hne_T_d : bT ≠ bg_d) (hng_T_d : bT ≠ 3) (hne_v_d : bv ≠ bg_d) (hng_v_d : bv ≠ 3) (h16 : 16 < H.blocks.size), ∃ E : List (Array Val),
    run prog 10300 ⟨mkE H [(bv, 0, feL v.x), (bv, 5, feL v.y), (bv, 10, feL v.z), (bv, 15, feL v.t), (bX, 0, feL X), (bY, 0, feL Y), (bZ, 0, feL Z), (bT, 0, feL T), (bg_d, 0, feL Point.d)] [],
        [⟨12, f12, #[], #[[.ptr bv 0], [.ptr bX 0], [.ptr bY 0], [.ptr bZ 0], [.ptr bT 0]], 0, body12, none⟩]⟩
      = .done ⟨mkE H [(bv, 0, feL v.x), (bv, 5, feL v.y), (bv, 10, feL v.z), (bv, 15, feL v.t), (bX, 0, feL X), (bY, 0, feL Y), (bZ, 0, feL Z), (bT, 0, feL T), (bg_d, 0, feL Point.d)] E, []⟩ [[.nil], [.opaque (Nm.ofString "edwards25519: invalid point coordinates" + 16)]] := by
  intro H bv bX bY bZ bT bg_d hfv hfX hfY hfZ hfT hne_vX hne_vY hne_vZ hne_vT hne_XY hne_XZ hne_XT hne_YZ hne_YT hne_ZT hg_d hfg_d hn_d hne_X_d hng_X_d hne_Y_d hng_Y_d hne_Z_d hng_Z_d hne_T_d hng_T_d hne_v_d hng_v_d h16
  apply Exists.intro
  have hE1z : (Formulas.field_Element_Equal Z ⟨0, 0, 0, 0, 0⟩ == 1) = false := hE1
  have hbv := hfv.1
  have hfv0 := fits_sub 0 hfv (by decide)
  have hfv1 := fits_sub 5 hfv (by decide)
  have hfv2 := fits_sub 10 hfv (by decide)
  have hfv3 := fits_sub 15 hfv (by decide)
  have hbX := hfX.1
  have hbY := hfY.1
  have hbZ := hfZ.1
  have hbT := hfT.1
  have hlt_d := lt_of_read hg_d
  simp only [body12]
  ssa_execO [resultTys_12, blk12_1, blk12_2, jumpTo_12_0_1, jumpTo_12_0_2, funcs_106, mkFrame_106, body106, ↓runA_Set, extern_errorsNew,
    hE1z, hE2, hbv, hfv0, hfv1, hfv2, hfv3, hbX, hbY, hbZ, hbT, hfX, hfY, hfZ, hfT, hne_vX, hne_vX.symm, hne_vY, hne_vY.symm, hne_vZ, hne_vZ.symm, hne_vT, hne_vT.symm, hne_XY, hne_XY.symm, hne_XZ, hne_XZ.symm, hne_XT, hne_XT.symm, hne_YZ, hne_YZ.symm, hne_YT, hne_YT.symm, hne_ZT, hne_ZT.symm,
    read_mkE_base hg_d, gptr_mkE hg_d, isGlob_mkE hg_d, hfg_d, hfg_d.1, hn_d, hn_d.symm, hne_X_d, hne_X_d.symm, hng_X_d, hng_X_d.symm, hne_Y_d, hne_Y_d.symm, hng_Y_d, hng_Y_d.symm, hne_Z_d, hne_Z_d.symm, hng_Z_d, hng_Z_d.symm, hne_T_d, hne_T_d.symm, hng_T_d, hng_T_d.symm, hne_v_d, hne_v_d.symm, hng_v_d, hng_v_d.symm, hlt_d, h16]
  rfl

set_option maxHeartbeats 64000000 in
/-- `(*Point).SetExtendedCoordinates` as the outermost call, on the canonical heap of its parameters; path 3f of `isOnCurve` -/
theorem coreE_SEC_3f (v : P3) (X Y Z T : Fe) (hE1 : (Formulas.field_Element_Equal Z Fe.rz == 1) = false) (hE2 : (Formulas.field_Element_Equal (Fe.sub (Fe.square Y) (Fe.square X)) (Fe.add (Fe.mul Point.d (Fe.square T)) (Fe.square Z)) != 1) = false) (hE3 : (Formulas.field_Element_Equal (Fe.mul X Y) (Fe.mul T Z) == 1) = false) : ∀ (H : Heap) (bv bX bY bZ bT bg_d : Nat) (hfv : Fits H bv 0 20) (hfX : Fits H bX 0 5) (hfY : Fits H bY 0 5) (hfZ : Fits H bZ 0 5) (hfT : Fits H bT 0 5) (hne_vX : bv ≠ bX) (hne_vY : bv ≠ bY) (hne_vZ : bv ≠ bZ) (hne_vT : bv ≠ bT) (hne_XY : bX ≠ bY) (hne_XZ : bX ≠ bZ) (hne_XT : bX ≠ bT) (hne_YZ : bY ≠ bZ) (hne_YT : bY ≠ bT) (hne_ZT : bZ ≠ bT) (hg_d : H.read 3 0 1 = some [.ptr bg_d 0]) (hfg_d : Fits H bg_d 0 5) (hn_d : bg_d ≠ 3) (hne_X_d : bX ≠ bg_d) (hng_X_d : bX ≠ 3) (hne_Y_d : bY ≠ bg_d) (hng_Y_d : bY ≠ 3) (hne_Z_d : bZ ≠ bg_d) (hng_Z_d : bZ ≠ 3) (hne_T_d : bT ≠ bg_d) (hng_T_d : bT ≠ 3) (hne_v_d : bv ≠ bg_d) (hng_v_d : bv ≠ 3) (h16 : 16 < H.blocks.size), ∃ E : List (Array Val),
    run prog 10300 ⟨mkE H [(bv, 0, feL v.x), (bv, 5, feL v.y), (bv, 10, feL v.z), (bv, 15, feL v.t), (bX, 0, feL X), (bY, 0, feL Y), (bZ, 0, feL Z), (bT, 0, feL T), (bg_d, 0, feL Point.d)] [],
        [⟨12, f12, #[], #[[.ptr bv 0], [.ptr bX 0], [.ptr bY 0], [.ptr bZ 0], [.ptr bT 0]], 0, body12, none⟩]⟩
      = .done ⟨mkE H [(bv, 0, feL v.x), (bv, 5, feL v.y), (bv, 10, feL v.z), (bv, 15, feL v.t), (bX, 0, feL X), (bY, 0, feL Y), (bZ, 0, feL Z), (bT, 0, feL T), (bg_d, 0, feL Point.d)] E, []⟩ [[.nil], [.opaque (Nm.ofString "edwards25519: invalid point coordinates" + 16)]] := by
  intro H bv bX bY bZ bT bg_d hfv hfX hfY hfZ hfT hne_vX hne_vY hne_vZ hne_vT hne_XY hne_XZ hne_XT hne_YZ hne_YT hne_ZT hg_d hfg_d hn_d hne_X_d hng_X_d hne_Y_d hng_Y_d hne_Z_d hng_Z_d hne_T_d hng_T_d hne_v_d hng_v_d h16
  apply Exists.intro
  have hE1z : (Formulas.field_Element_Equal Z ⟨0, 0, 0, 0, 0⟩ == 1) = false := hE1
  have hbv := hfv.1
  have hfv0 := fits_sub 0 hfv (by decide)
  have hfv1 := fits_sub 5 hfv (by decide)
  have hfv2 := fits_sub 10 hfv (by decide)
  have hfv3 := fits_sub 15 hfv (by decide)
  have hbX := hfX.1
  have hbY := hfY.1
  have hbZ := hfZ.1
  have hbT := hfT.1
  have hlt_d := lt_of_read hg_d
  simp only [body12]
  ssa_execO [resultTys_12, blk12_1, blk12_2, jumpTo_12_0_1, jumpTo_12_0_2, funcs_106, mkFrame_106, body106, ↓runA_Set, extern_errorsNew,
    hE1z, hE2, hE3, hbv, hfv0, hfv1, hfv2, hfv3, hbX, hbY, hbZ, hbT, hfX, hfY, hfZ, hfT, hne_vX, hne_vX.symm, hne_vY, hne_vY.symm, hne_vZ, hne_vZ.symm, hne_vT, hne_vT.symm, hne_XY, hne_XY.symm, hne_XZ, hne_XZ.symm, hne_XT, hne_XT.symm, hne_YZ, hne_YZ.symm, hne_YT, hne_YT.symm, hne_ZT, hne_ZT.symm,
    read_mkE_base hg_d, gptr_mkE hg_d, isGlob_mkE hg_d, hfg_d, hfg_d.1, hn_d, hn_d.symm, hne_X_d, hne_X_d.symm, hng_X_d, hng_X_d.symm, hne_Y_d, hne_Y_d.symm, hng_Y_d, hng_Y_d.symm, hne_Z_d, hne_Z_d.symm, hng_Z_d, hng_Z_d.symm, hne_T_d, hne_T_d.symm, hng_T_d, hng_T_d.symm, hne_v_d, hne_v_d.symm, hng_v_d, hng_v_d.symm, hlt_d, h16]
  rfl

set_option maxHeartbeats 64000000 in
/-- `(*Point).SetExtendedCoordinates` as the outermost call, on the canonical heap of its parameters; path 3t of `isOnCurve` -/
theorem coreE_SEC_3t (v : P3) (X Y Z T : Fe) (hE1 : (Formulas.field_Element_Equal Z Fe.rz == 1) = false) (hE2 : (Formulas.field_Element_Equal (Fe.sub (Fe.square Y) (Fe.square X)) (Fe.add (Fe.mul Point.d (Fe.square T)) (Fe.square Z)) != 1) = false) (hE3 : (Formulas.field_Element_Equal (Fe.mul X Y) (Fe.mul T Z) == 1) = true) : ∀ (H : Heap) (bv bX bY bZ bT bg_d : Nat) (hfv : Fits H bv 0 20) (hfX : Fits H bX 0 5) (hfY : Fits H bY 0 5) (hfZ : Fits H bZ 0 5) (hfT : Fits H bT 0 5) (hne_vX : bv ≠ bX) (hne_vY : bv ≠ bY) (hne_vZ : bv ≠ bZ) (hne_vT : bv ≠ bT) (hne_XY : bX ≠ bY) (hne_XZ : bX ≠ bZ) (hne_XT : bX ≠ bT) (hne_YZ : bY ≠ bZ) (hne_YT : bY ≠ bT) (hne_ZT : bZ ≠ bT) (hg_d : H.read 3 0 1 = some [.ptr bg_d 0]) (hfg_d : Fits H bg_d 0 5) (hn_d : bg_d ≠ 3) (hne_X_d : bX ≠ bg_d) (hng_X_d : bX ≠ 3) (hne_Y_d : bY ≠ bg_d) (hng_Y_d : bY ≠ 3) (hne_Z_d : bZ ≠ bg_d) (hng_Z_d : bZ ≠ 3) (hne_T_d : bT ≠ bg_d) (hng_T_d : bT ≠ 3) (hne_v_d : bv ≠ bg_d) (hng_v_d : bv ≠ 3) (h16 : 16 < H.blocks.size), ∃ E : List (Array Val),
    run prog 10300 ⟨mkE H [(bv, 0, feL v.x), (bv, 5, feL v.y), (bv, 10, feL v.z), (bv, 15, feL v.t), (bX, 0, feL X), (bY, 0, feL Y), (bZ, 0, feL Z), (bT, 0, feL T), (bg_d, 0, feL Point.d)] [],
        [⟨12, f12, #[], #[[.ptr bv 0], [.ptr bX 0], [.ptr bY 0], [.ptr bZ 0], [.ptr bT 0]], 0, body12, none⟩]⟩
      = .done ⟨mkE H [(bv, 0, feL X), (bv, 5, feL Y), (bv, 10, feL Z), (bv, 15, feL T), (bX, 0, feL X), (bY, 0, feL Y), (bZ, 0, feL Z), (bT, 0, feL T), (bg_d, 0, feL Point.d)] E, []⟩ [[.ptr bv 0], [.nil]] := by
  intro H bv bX bY bZ bT bg_d hfv hfX hfY hfZ hfT hne_vX hne_vY hne_vZ hne_vT hne_XY hne_XZ hne_XT hne_YZ hne_YT hne_ZT hg_d hfg_d hn_d hne_X_d hng_X_d hne_Y_d hng_Y_d hne_Z_d hng_Z_d hne_T_d hng_T_d hne_v_d hng_v_d h16
  apply Exists.intro
  have hE1z : (Formulas.field_Element_Equal Z ⟨0, 0, 0, 0, 0⟩ == 1) = false := hE1
  have hbv := hfv.1
  have hfv0 := fits_sub 0 hfv (by decide)
  have hfv1 := fits_sub 5 hfv (by decide)
  have hfv2 := fits_sub 10 hfv (by decide)
  have hfv3 := fits_sub 15 hfv (by decide)
  have hbX := hfX.1
  have hbY := hfY.1
  have hbZ := hfZ.1
  have hbT := hfT.1
  have hlt_d := lt_of_read hg_d
  simp only [body12]
  ssa_execO [resultTys_12, blk12_1, blk12_2, jumpTo_12_0_1, jumpTo_12_0_2, funcs_106, mkFrame_106, body106, ↓runA_Set, extern_errorsNew,
    hE1z, hE2, hE3, hbv, hfv0, hfv1, hfv2, hfv3, hbX, hbY, hbZ, hbT, hfX, hfY, hfZ, hfT, hne_vX, hne_vX.symm, hne_vY, hne_vY.symm, hne_vZ, hne_vZ.symm, hne_vT, hne_vT.symm, hne_XY, hne_XY.symm, hne_XZ, hne_XZ.symm, hne_XT, hne_XT.symm, hne_YZ, hne_YZ.symm, hne_YT, hne_YT.symm, hne_ZT, hne_ZT.symm,
    read_mkE_base hg_d, gptr_mkE hg_d, isGlob_mkE hg_d, hfg_d, hfg_d.1, hn_d, hn_d.symm, hne_X_d, hne_X_d.symm, hng_X_d, hng_X_d.symm, hne_Y_d, hne_Y_d.symm, hng_Y_d, hng_Y_d.symm, hne_Z_d, hne_Z_d.symm, hng_Z_d, hng_Z_d.symm, hne_T_d, hne_T_d.symm, hng_T_d, hng_T_d.symm, hne_v_d, hne_v_d.symm, hng_v_d, hng_v_d.symm, hlt_d, h16]
  rfl

theorem post1_pushB_same {h : Heap} {b : Nat} {V : Array Val} (E : List (Array Val)) (hb : h.blocks[b]? = some V) :
    Post1 h (pushB h E) b V :=
  ⟨by rw [pushB_size]; omega, by rw [get_pushB_lt h E b (lt_of_get hb)]; exact hb, fun c hc _ => get_pushB_lt h E c hc⟩

/-- **tie**: `v.SetExtendedCoordinates(X, Y, Z, T)` on any heap in which block `bv` holds the cells of the point `v`, the pairwise distinct
    blocks `bX … bT` hold the limbs of `X … T`, the package variable `d` (global 2 = block 3) points to a block (distinct from them)
    holding `Point.d`, and the block of `binary.LittleEndian` exists: the run terminates; it returns `(v, nil)` or `(nil, error)` according to
    the first component of T5's `Formulas.Point_SetExtendedCoordinates v X Y Z T`, and block `bv` then holds the cells of its second
    component (the final receiver); every other block of the heap is unchanged. -/
theorem tie_Point_SetExtendedCoordinates (h : Heap) (bv bX bY bZ bT bg_d : Nat) (v : P3) (X Y Z T : Fe)
    (hcv : h.blocks[bv]? = some (cellsP3 v))
    (hcX : h.blocks[bX]? = some (feCells X)) (hcY : h.blocks[bY]? = some (feCells Y)) (hcZ : h.blocks[bZ]? = some (feCells Z))
    (hcT : h.blocks[bT]? = some (feCells T))
    (hne_XY : bX ≠ bY) (hne_XZ : bX ≠ bZ) (hne_XT : bX ≠ bT) (hne_YZ : bY ≠ bZ) (hne_YT : bY ≠ bT) (hne_ZT : bZ ≠ bT)
    (hgp_d : h.blocks[3]? = some #[.ptr bg_d 0]) (hgv_d : h.blocks[bg_d]? = some (feCells Point.d))
    (hne_X_d : bX ≠ bg_d) (hne_Y_d : bY ≠ bg_d) (hne_Z_d : bZ ≠ bg_d) (hne_T_d : bT ≠ bg_d) (h16 : 16 < h.blocks.size) :
    ∃ h', runCall prog 10300 h (nm! "(*Point).SetExtendedCoordinates") [[.ptr bv 0], [.ptr bX 0], [.ptr bY 0], [.ptr bZ 0], [.ptr bT 0]]
            = some (.done ⟨h', []⟩ (retSEC bv (Formulas.Point_SetExtendedCoordinates v X Y Z T).1))
      ∧ Post1 h h' bv (cellsP3 (Formulas.Point_SetExtendedCoordinates v X Y Z T).2) := by
  have hr_rest : Restates h [(bX, 0, feL X), (bY, 0, feL Y), (bZ, 0, feL Z), (bT, 0, feL T), (bg_d, 0, feL Point.d)] :=
    restates_feCells hcX (restates_feCells hcY (restates_feCells hcZ (restates_feCells hcT (restates_feCells hgv_d (restates_nil h)))))
  have hr_in : Restates h [(bv, 0, feL v.x), (bv, 5, feL v.y), (bv, 10, feL v.z), (bv, 15, feL v.t), (bX, 0, feL X), (bY, 0, feL Y), (bZ, 0, feL Z), (bT, 0, feL T), (bg_d, 0, feL Point.d)] := restates4 hcv hr_rest
  have fin_fail : Formulas.isOnCurve X Y Z T = false → (∀ (H : Heap) (bv bX bY bZ bT bg_d : Nat) (hfv : Fits H bv 0 20) (hfX : Fits H bX 0 5) (hfY : Fits H bY 0 5) (hfZ : Fits H bZ 0 5) (hfT : Fits H bT 0 5) (hne_vX : bv ≠ bX) (hne_vY : bv ≠ bY) (hne_vZ : bv ≠ bZ) (hne_vT : bv ≠ bT) (hne_XY : bX ≠ bY) (hne_XZ : bX ≠ bZ) (hne_XT : bX ≠ bT) (hne_YZ : bY ≠ bZ) (hne_YT : bY ≠ bT) (hne_ZT : bZ ≠ bT) (hg_d : H.read 3 0 1 = some [.ptr bg_d 0]) (hfg_d : Fits H bg_d 0 5) (hn_d : bg_d ≠ 3) (hne_X_d : bX ≠ bg_d) (hng_X_d : bX ≠ 3) (hne_Y_d : bY ≠ bg_d) (hng_Y_d : bY ≠ 3) (hne_Z_d : bZ ≠ bg_d) (hng_Z_d : bZ ≠ 3) (hne_T_d : bT ≠ bg_d) (hng_T_d : bT ≠ 3) (hne_v_d : bv ≠ bg_d) (hng_v_d : bv ≠ 3) (h16 : 16 < H.blocks.size), ∃ E : List (Array Val),
    run prog 10300 ⟨mkE H [(bv, 0, feL v.x), (bv, 5, feL v.y), (bv, 10, feL v.z), (bv, 15, feL v.t), (bX, 0, feL X), (bY, 0, feL Y), (bZ, 0, feL Z), (bT, 0, feL T), (bg_d, 0, feL Point.d)] [],
        [⟨12, f12, #[], #[[.ptr bv 0], [.ptr bX 0], [.ptr bY 0], [.ptr bZ 0], [.ptr bT 0]], 0, body12, none⟩]⟩
      = .done ⟨mkE H [(bv, 0, feL v.x), (bv, 5, feL v.y), (bv, 10, feL v.z), (bv, 15, feL v.t), (bX, 0, feL X), (bY, 0, feL Y), (bZ, 0, feL Z), (bT, 0, feL T), (bg_d, 0, feL Point.d)] E, []⟩ [[.nil], [.opaque (Nm.ofString "edwards25519: invalid point coordinates" + 16)]]) →
      ∃ h', runCall prog 10300 h (nm! "(*Point).SetExtendedCoordinates") [[.ptr bv 0], [.ptr bX 0], [.ptr bY 0], [.ptr bZ 0], [.ptr bT 0]]
            = some (.done ⟨h', []⟩ (retSEC bv (Formulas.Point_SetExtendedCoordinates v X Y Z T).1))
      ∧ Post1 h h' bv (cellsP3 (Formulas.Point_SetExtendedCoordinates v X Y Z T).2) := by
    intro hoc core
    obtain ⟨E, core⟩ := core h bv bX bY bZ bT bg_d (fits_of_get hcv 20 (Nat.le_refl _)) (fits_of_get hcX 5 (Nat.le_refl _)) (fits_of_get hcY 5 (Nat.le_refl _))
      (fits_of_get hcZ 5 (Nat.le_refl _)) (fits_of_get hcT 5 (Nat.le_refl _))
      (ne_of_size' hcv hcX (n1 := 20) (n2 := 5) rfl rfl (by decide)) (ne_of_size' hcv hcY (n1 := 20) (n2 := 5) rfl rfl (by decide))
      (ne_of_size' hcv hcZ (n1 := 20) (n2 := 5) rfl rfl (by decide)) (ne_of_size' hcv hcT (n1 := 20) (n2 := 5) rfl rfl (by decide))
      hne_XY hne_XZ hne_XT hne_YZ hne_YT hne_ZT
      (read_of_get1 hgp_d) (fits_of_get hgv_d 5 (Nat.le_refl _)) (ne_of_size' hgv_d hgp_d (n1 := 5) (n2 := 1) rfl rfl (by decide))
      hne_X_d (ne_of_size' hcX hgp_d (n1 := 5) (n2 := 1) rfl rfl (by decide))
      hne_Y_d (ne_of_size' hcY hgp_d (n1 := 5) (n2 := 1) rfl rfl (by decide))
      hne_Z_d (ne_of_size' hcZ hgp_d (n1 := 5) (n2 := 1) rfl rfl (by decide))
      hne_T_d (ne_of_size' hcT hgp_d (n1 := 5) (n2 := 1) rfl rfl (by decide))
      (ne_of_size' hcv hgv_d (n1 := 20) (n2 := 5) rfl rfl (by decide)) (ne_of_size' hcv hgp_d (n1 := 20) (n2 := 1) rfl rfl (by decide)) h16
    have hS : Formulas.Point_SetExtendedCoordinates v X Y Z T = (none, v) := by
      unfold Formulas.Point_SetExtendedCoordinates
      simp only [hoc, Bool.false_eq_true, if_false]
    rw [hS]
    rw [mkE_restates h _ hr_in, mkE_restates_ext h _ _ hr_in] at core
    refine ⟨pushB h E, ?_, post1_pushB_same E hcv⟩
    simp only [runCall, funcIdx_12, callState, funcs_12, mkFrame_12, Option.bind_some, Option.map_some, Option.pure_def,
      Option.bind_eq_bind]
    rw [core]
    rfl
  have fin_ok : Formulas.isOnCurve X Y Z T = true → (∀ (H : Heap) (bv bX bY bZ bT bg_d : Nat) (hfv : Fits H bv 0 20) (hfX : Fits H bX 0 5) (hfY : Fits H bY 0 5) (hfZ : Fits H bZ 0 5) (hfT : Fits H bT 0 5) (hne_vX : bv ≠ bX) (hne_vY : bv ≠ bY) (hne_vZ : bv ≠ bZ) (hne_vT : bv ≠ bT) (hne_XY : bX ≠ bY) (hne_XZ : bX ≠ bZ) (hne_XT : bX ≠ bT) (hne_YZ : bY ≠ bZ) (hne_YT : bY ≠ bT) (hne_ZT : bZ ≠ bT) (hg_d : H.read 3 0 1 = some [.ptr bg_d 0]) (hfg_d : Fits H bg_d 0 5) (hn_d : bg_d ≠ 3) (hne_X_d : bX ≠ bg_d) (hng_X_d : bX ≠ 3) (hne_Y_d : bY ≠ bg_d) (hng_Y_d : bY ≠ 3) (hne_Z_d : bZ ≠ bg_d) (hng_Z_d : bZ ≠ 3) (hne_T_d : bT ≠ bg_d) (hng_T_d : bT ≠ 3) (hne_v_d : bv ≠ bg_d) (hng_v_d : bv ≠ 3) (h16 : 16 < H.blocks.size), ∃ E : List (Array Val),
    run prog 10300 ⟨mkE H [(bv, 0, feL v.x), (bv, 5, feL v.y), (bv, 10, feL v.z), (bv, 15, feL v.t), (bX, 0, feL X), (bY, 0, feL Y), (bZ, 0, feL Z), (bT, 0, feL T), (bg_d, 0, feL Point.d)] [],
        [⟨12, f12, #[], #[[.ptr bv 0], [.ptr bX 0], [.ptr bY 0], [.ptr bZ 0], [.ptr bT 0]], 0, body12, none⟩]⟩
      = .done ⟨mkE H [(bv, 0, feL X), (bv, 5, feL Y), (bv, 10, feL Z), (bv, 15, feL T), (bX, 0, feL X), (bY, 0, feL Y), (bZ, 0, feL Z), (bT, 0, feL T), (bg_d, 0, feL Point.d)] E, []⟩ [[.ptr bv 0], [.nil]]) →
      ∃ h', runCall prog 10300 h (nm! "(*Point).SetExtendedCoordinates") [[.ptr bv 0], [.ptr bX 0], [.ptr bY 0], [.ptr bZ 0], [.ptr bT 0]]
            = some (.done ⟨h', []⟩ (retSEC bv (Formulas.Point_SetExtendedCoordinates v X Y Z T).1))
      ∧ Post1 h h' bv (cellsP3 (Formulas.Point_SetExtendedCoordinates v X Y Z T).2) := by
    intro hoc core
    obtain ⟨E, core⟩ := core h bv bX bY bZ bT bg_d (fits_of_get hcv 20 (Nat.le_refl _)) (fits_of_get hcX 5 (Nat.le_refl _)) (fits_of_get hcY 5 (Nat.le_refl _))
      (fits_of_get hcZ 5 (Nat.le_refl _)) (fits_of_get hcT 5 (Nat.le_refl _))
      (ne_of_size' hcv hcX (n1 := 20) (n2 := 5) rfl rfl (by decide)) (ne_of_size' hcv hcY (n1 := 20) (n2 := 5) rfl rfl (by decide))
      (ne_of_size' hcv hcZ (n1 := 20) (n2 := 5) rfl rfl (by decide)) (ne_of_size' hcv hcT (n1 := 20) (n2 := 5) rfl rfl (by decide))
      hne_XY hne_XZ hne_XT hne_YZ hne_YT hne_ZT
      (read_of_get1 hgp_d) (fits_of_get hgv_d 5 (Nat.le_refl _)) (ne_of_size' hgv_d hgp_d (n1 := 5) (n2 := 1) rfl rfl (by decide))
      hne_X_d (ne_of_size' hcX hgp_d (n1 := 5) (n2 := 1) rfl rfl (by decide))
      hne_Y_d (ne_of_size' hcY hgp_d (n1 := 5) (n2 := 1) rfl rfl (by decide))
      hne_Z_d (ne_of_size' hcZ hgp_d (n1 := 5) (n2 := 1) rfl rfl (by decide))
      hne_T_d (ne_of_size' hcT hgp_d (n1 := 5) (n2 := 1) rfl rfl (by decide))
      (ne_of_size' hcv hgv_d (n1 := 20) (n2 := 5) rfl rfl (by decide)) (ne_of_size' hcv hgp_d (n1 := 20) (n2 := 1) rfl rfl (by decide)) h16
    have hS : Formulas.Point_SetExtendedCoordinates v X Y Z T = (some ⟨X, Y, Z, T⟩, ⟨X, Y, Z, T⟩) := by
      unfold Formulas.Point_SetExtendedCoordinates
      simp only [hoc, if_true]
    rw [hS]
    rw [mkE_restates h _ hr_in] at core
    refine ⟨_, ?_, post1_mkE4 X Y Z T _ E hcv (cells4_size _ _ _ _) hr_rest⟩
    simp only [runCall, funcIdx_12, callState, funcs_12, mkFrame_12, Option.bind_some, Option.map_some, Option.pure_def,
      Option.bind_eq_bind]
    rw [core]
    rfl
  cases hE1 : (Formulas.field_Element_Equal Z Fe.rz == 1) with
  | true =>
    refine fin_fail ?_ (coreE_SEC_1 v X Y Z T hE1)
    unfold Formulas.isOnCurve
    simp only [hE1, if_true]
  | false =>
    cases hE2 : (Formulas.field_Element_Equal (Fe.sub (Fe.square Y) (Fe.square X)) (Fe.add (Fe.mul Point.d (Fe.square T)) (Fe.square Z)) != 1) with
    | true =>
      refine fin_fail ?_ (coreE_SEC_2 v X Y Z T hE1 hE2)
      unfold Formulas.isOnCurve
      simp only [hE1, hE2, if_true, if_false, Bool.false_eq_true]
    | false =>
      have e : Formulas.isOnCurve X Y Z T = (Formulas.field_Element_Equal (Fe.mul X Y) (Fe.mul T Z) == 1) := by
        unfold Formulas.isOnCurve
        simp only [hE1, hE2, if_false, Bool.false_eq_true]
      cases hE3 : (Formulas.field_Element_Equal (Fe.mul X Y) (Fe.mul T Z) == 1) with
      | true => exact fin_ok (e.trans hE3) (coreE_SEC_3t v X Y Z T hE1 hE2 hE3)
      | false => exact fin_fail (e.trans hE3) (coreE_SEC_3f v X Y Z T hE1 hE2 hE3)

end EdVerif.Ssa.Tie
