#!/usr/bin/env python3
"""Generate the tie theorems of the point-layer functions (`Pt_*.lean`).

For a function F with receiver `v` and structure parameters, four statements are produced:
  coreE_F  : `run` of F as the outermost call on the canonical heap `mkE H [elements of the parameters] []`
  callE_F  : the same as a call from any frame (`steps`), the blocks allocated being `ext_F args`
  callA_F  : the call on an arbitrary heap `H` (slots hold elements, blocks distinct), rewrite rules `runA_F`, `stepsA_F`
  tie_F    : the top-level theorem on any heap whose blocks hold the cells of the model values
"""
import os, itertools

D = os.path.dirname(os.path.abspath(__file__)) + "/"

KIND = {
    "P3": dict(ty="P3", fields=["x", "y", "z", "t"], cells="cellsP3", get="getP3"),
    "P1": dict(ty="P1xP1", fields=["X", "Y", "Z", "T"], cells="cellsP1", get="getP1"),
    "P2": dict(ty="P2", fields=["X", "Y", "Z"], cells="cellsP2", get="getP2"),
    "C": dict(ty="Cached", fields=["YplusX", "YminusX", "Z", "T2d"], cells="cellsC", get="getC"),
    "A": dict(ty="AffineCached", fields=["YplusX", "YminusX", "T2d"], cells="cellsA", get="getA"),
}

CALLER = ("(d : Nat) (cfi : Nat) (cf : Func) (cregs cparams : Array RVal) (cblk : Nat) (crest : List Instr) (cdest : Option Nat) "
          "(frs : List Frame)")
CALLER_ARGS = "d cfi cf cregs cparams cblk crest cdest frs"

class F:
    def __init__(self, name, fidx, gofn, fuel, params, t5, rules, scalars=(), imports=(), rty=None, extra_simp="", globals=(), guards=(), tactic="ssa_execP", hdr_import="PtGlob", alias=None, fname=None, base=None):
        self.name, self.fidx, self.gofn, self.fuel, self.params, self.t5 = name, fidx, gofn, fuel, params, t5
        self.rules, self.scalars, self.imports, self.rty, self.extra_simp = rules, list(scalars), list(imports), rty, extra_simp
        self.globals = list(globals)
        self.guards, self.tactic, self.hdr_import = list(guards), tactic, hdr_import
        self.alias, self.fname, self.base = alias or {}, fname or name, base

def n(k): return len(KIND[k]["fields"])
def size(k): return 5 * n(k)

def ents(b, val, kind):
    """entries of the structure `val : kind` in block b"""
    return [f"({b}, {5 * i}, feL ({val}).{f})" if " " in val else f"({b}, {5 * i}, feL {val}.{f})"
            for i, f in enumerate(KIND[kind]["fields"])]

def gen(f, out):
    if f.guards:
        return gen_guarded(f, out)
    ps = f.params
    recv, rk = ps[0]
    binders_vals = " ".join(f"({p} : {KIND[k]['ty']})" for p, k in ps)
    vals = " ".join(p for p, _ in ps)
    sc_vars = " ".join(s for s in f.scalars)
    sc_binders = (" (" + sc_vars + " : Nat)") if f.scalars else ""
    sc_hyps = " ".join(f"(h{s} : {s} < 2 ^ 64)" for s in f.scalars)
    sc_hyp_names = " ".join(f"h{s}" for s in f.scalars)
    gl = f.globals
    blocks0 = " ".join(f"b{p}" for p, _ in ps)
    blocks = " ".join([f"b{p}" for p, _ in ps] + [f"bg_{g}" for g, _, _ in gl])
    fit_hyps = " ".join(f"(hf{p} : Fits H b{p} 0 {size(k)})" for p, k in ps)
    fit_names = " ".join(f"hf{p}" for p, _ in ps)
    pairs = list(itertools.combinations([p for p, _ in ps], 2))
    ne_hyps = " ".join(f"(hne_{x}{y} : b{x} ≠ b{y})" for x, y in pairs)
    ne_names = " ".join(f"hne_{x}{y}" for x, y in pairs)
    # globals: hypotheses on the canonical heap
    g_hyps, g_names, g_simp, g_ne = [], [], [], []
    for g, gi, gv in gl:
        g_hyps.append(f"(hg_{g} : H.read {gi + 1} 0 1 = some [.ptr bg_{g} 0]) (hfg_{g} : Fits H bg_{g} 0 5) (hn_{g} : bg_{g} ≠ {gi + 1})")
        g_names += [f"hg_{g}", f"hfg_{g}", f"hn_{g}"]
        g_simp += [f"read_mkE_base hg_{g}", f"gptr_mkE hg_{g}", f"isGlob_mkE hg_{g}", f"hfg_{g}", f"hfg_{g}.1", f"hn_{g}", f"hn_{g}.symm"]
        for pp, _ in ps:
            g_hyps.append(f"(hne_{pp}_{g} : b{pp} ≠ bg_{g}) (hng_{pp}_{g} : b{pp} ≠ {gi + 1})")
            g_names += [f"hne_{pp}_{g}", f"hng_{pp}_{g}"]
            g_simp += [f"hne_{pp}_{g}", f"hne_{pp}_{g}.symm", f"hng_{pp}_{g}", f"hng_{pp}_{g}.symm"]
    for (g1, i1, _), (g2, i2, _) in itertools.combinations(gl, 2):
        g_hyps.append(f"(hne_{g1}_{g2} : bg_{g1} ≠ bg_{g2}) (hng_{g1}_{g2} : bg_{g1} ≠ {i2 + 1}) (hng_{g2}_{g1} : bg_{g2} ≠ {i1 + 1})")
        g_names += [f"hne_{g1}_{g2}", f"hng_{g1}_{g2}", f"hng_{g2}_{g1}"]
        g_simp += [f"hne_{g1}_{g2}", f"hne_{g1}_{g2}.symm", f"hng_{g1}_{g2}", f"hng_{g1}_{g2}.symm", f"hng_{g2}_{g1}", f"hng_{g2}_{g1}.symm"]
    if gl:
        g_simp += ["NoBlk_cons", "NoBlk_nil", "Negate_val"]
    ne_hyps = ne_hyps + " " + " ".join(g_hyps)
    ne_names = ne_names + " " + " ".join(g_names)
    g_ents = [f"(bg_{g}, 0, feL {gv})" for g, _, gv in gl]
    args = ", ".join(f"[.ptr b{p} 0]" for p, _ in ps) + "".join(f", [.int {s}]" for s in f.scalars)
    t5 = f.t5
    ents_in = ", ".join(sum([ents(f"b{p}", p, k) for p, k in ps], []) + g_ents)
    ents_out = ", ".join(ents(f"b{recv}", t5, rk) + sum([ents(f"b{p}", p, k) for p, k in ps[1:]], []) + g_ents)
    rty = f.rty if f.rty is not None else {3: 26, 4: 14}[n(rk)] if rk != "P3" else 6
    # facts for simp
    have = []
    simp_facts = []
    for p, k in ps:
        have.append(f"  have hb{p} := hf{p}.1")
        simp_facts.append(f"hb{p}")
        for i in range(n(k)):
            have.append(f"  have hf{p}{i} := fits_sub {5 * i} hf{p} (by decide)")
            simp_facts.append(f"hf{p}{i}")
    for x, y in pairs:
        simp_facts += [f"hne_{x}{y}", f"hne_{x}{y}.symm"]
    simp_facts += [f"h{s}" for s in f.scalars]
    simp_facts += g_simp
    have = "\n".join(have)
    run_rules = ", ".join("↓runA_" + r for r in f.rules)
    steps_rules = ", ".join("↓stepsA_" + r for r in f.rules)
    extra = (", " + f.extra_simp) if f.extra_simp else ""
    rz = "Multiply_rz, Square_rz, Add_rz, Subtract_rz, Select_rz, Set_rz"
    out.append(f"""
def body{f.fidx} : List Instr := body% f{f.fidx}
theorem funcs_{f.fidx} : prog.funcs[{f.fidx}]? = some f{f.fidx} := rfl
theorem mkFrame_{f.fidx} (args : List RVal) (dest : Option Nat) :
    mkFrame {f.fidx} f{f.fidx} args dest = some ⟨{f.fidx}, f{f.fidx}, #[], args.toArray, 0, body{f.fidx}, dest⟩ := rfl
theorem resultTys_{f.fidx} : f{f.fidx}.resultTys = [{rty}] := rfl
theorem funcIdx_{f.fidx} : prog.funcIdx? (nm! "{f.gofn}") = some {f.fidx} := by decide +kernel

set_option maxHeartbeats 16000000 in
/-- `{f.gofn}` as the outermost call, on the canonical heap of its parameters -/
theorem coreE_{f.name} {binders_vals}{sc_binders} {sc_hyps} : ∃ E : List (Array Val), ∀ (H : Heap) ({blocks} : Nat) {fit_hyps} {ne_hyps},
    run prog {f.fuel} ⟨mkE H [{ents_in}] [],
        [⟨{f.fidx}, f{f.fidx}, #[], #[{args}], 0, body{f.fidx}, none⟩]⟩
      = .done ⟨mkE H [{ents_out}] E, []⟩ [[.ptr b{recv} 0]] := by
  apply Exists.intro
  intro H {blocks} {fit_names} {ne_names}
{have}
  simp only [body{f.fidx}]
  ssa_execP [resultTys_{f.fidx}, {run_rules}, {", ".join(simp_facts)}, {rz}{extra}]
  rfl

set_option maxHeartbeats 16000000 in
/-- `{f.gofn}` called from any frame, on the canonical heap of its parameters -/
theorem callE_{f.name} {binders_vals}{sc_binders} {sc_hyps} : ∃ E : List (Array Val), ∀ (H : Heap) ({blocks} : Nat) {fit_hyps} {ne_hyps} {CALLER},
    steps prog {f.fuel} ⟨mkE H [{ents_in}] [],
        ⟨{f.fidx}, f{f.fidx}, #[], #[{args}], 0, body{f.fidx}, some d⟩ :: ⟨cfi, cf, cregs, cparams, cblk, crest, cdest⟩ :: frs⟩
      = some ⟨mkE H [{ents_out}] E,
          ⟨cfi, cf, regSet cregs d [.ptr b{recv} 0], cparams, cblk, crest, cdest⟩ :: frs⟩ := by
  apply Exists.intro
  intro H {blocks} {fit_names} {ne_names} {CALLER_ARGS}
{have}
  simp only [body{f.fidx}]
  ssa_execP [resultTys_{f.fidx}, {steps_rules}, {", ".join(simp_facts)}, {rz}{extra}]
  rfl

/-- the blocks `{f.gofn}` allocates (locals and temporaries of the callees) -/
noncomputable def ext_{f.name} {binders_vals}{sc_binders} : List (Array Val) :=
  open Classical in if h : {" ∧ ".join(f"{s} < 2 ^ 64" for s in f.scalars) if f.scalars else "True"} then Classical.choose (callE_{f.name} {vals} {sc_vars} {sc_projs(f)}) else []

theorem callX_{f.name} {binders_vals}{sc_binders} {sc_hyps} (H : Heap) ({blocks} : Nat) {fit_hyps} {ne_hyps} {CALLER} :
    steps prog {f.fuel} ⟨mkE H [{ents_in}] [],
        ⟨{f.fidx}, f{f.fidx}, #[], #[{args}], 0, body{f.fidx}, some d⟩ :: ⟨cfi, cf, cregs, cparams, cblk, crest, cdest⟩ :: frs⟩
      = some ⟨mkE H [{ents_out}] (ext_{f.name} {vals} {sc_vars}),
          ⟨cfi, cf, regSet cregs d [.ptr b{recv} 0], cparams, cblk, crest, cdest⟩ :: frs⟩ := by
  have h : {" ∧ ".join(f"{s} < 2 ^ 64" for s in f.scalars) if f.scalars else "True"} := {sc_pf(f)}
  simp only [ext_{f.name}, dif_pos h]
  exact Classical.choose_spec (callE_{f.name} {vals} {sc_vars} {sc_hyp_names}) H {blocks} {fit_names} {ne_names} {CALLER_ARGS}
""")
    # abstract
    ok_hyps = " ".join(f"(hk{p} : Ok{n(k)} H b{p})" for p, k in ps)
    gets = " ".join(f"({KIND[k]['get']} H b{p})" for p, k in ps)
    t5fn = f.t5.split(" ")[0]
    t5abs = f"({t5fn} {gets}{(' ' + sc_vars) if sc_vars else ''})"
    setr = f"set{n(rk)} b{recv} " + " ".join(f"{t5abs}.{fl}" for fl in KIND[rk]["fields"])
    ga_hyps, ga_args = [], []
    for g, gi, gv in gl:
        ga_hyps.append(f"(hg_{g} : IsGlob H {gi + 1}) (hkg_{g} : OkE H (gptr H {gi + 1}) 0) (hvg_{g} : getE H (gptr H {gi + 1}) 0 = {gv}) (hn_{g} : gptr H {gi + 1} ≠ {gi + 1})")
        ga_args += [f"hg_{g}", f"hkg_{g}.1", f"hn_{g}"]
        for pp, _ in ps:
            ga_hyps.append(f"(hne_{pp}_{g} : b{pp} ≠ gptr H {gi + 1}) (hng_{pp}_{g} : b{pp} ≠ {gi + 1})")
            ga_args += [f"hne_{pp}_{g}", f"hng_{pp}_{g}"]
    for (g1, i1, _), (g2, i2, _) in itertools.combinations(gl, 2):
        ga_hyps.append(f"(hne_{g1}_{g2} : gptr H {i1 + 1} ≠ gptr H {i2 + 1}) (hng_{g1}_{g2} : gptr H {i1 + 1} ≠ {i2 + 1}) (hng_{g2}_{g1} : gptr H {i2 + 1} ≠ {i1 + 1})")
        ga_args += [f"hne_{g1}_{g2}", f"hng_{g1}_{g2}", f"hng_{g2}_{g1}"]
    ne_hyps0 = " ".join(f"(hne_{x}{y} : b{x} ≠ b{y})" for x, y in pairs)
    ne_names0 = " ".join(f"hne_{x}{y}" for x, y in pairs)
    gblocks = " ".join(f"(gptr H {gi + 1})" for _, gi, _ in gl)
    def rest_term(rs):
        t = "(restates_nil H)"
        for g, gi, gv in reversed(gl):
            t = f"(restates_cons_val hkg_{g} hvg_{g} {t})"
        for p, k in reversed(rs):
            t = f"(restatesO{n(k)} hk{p} {t})"
        return t
    ents_abs = ", ".join(sum([ents(f"b{p}", f"{KIND[k]['get']} H b{p}", k) for p, k in ps], []) + [f"(gptr H {gi + 1}, 0, feL {gv})" for _, gi, gv in gl])
    out.append(f"""
/-- `{f.gofn}` called from any frame on an arbitrary heap in which the parameters are structures of elements in distinct blocks -/
theorem callA_{f.name} (H : Heap) ({blocks0} : Nat){sc_binders} {sc_hyps} {ok_hyps} {ne_hyps0} {" ".join(ga_hyps)} {CALLER} :
    steps prog {f.fuel} ⟨H, ⟨{f.fidx}, f{f.fidx}, #[], #[{args}], 0, body{f.fidx}, some d⟩ :: ⟨cfi, cf, cregs, cparams, cblk, crest, cdest⟩ :: frs⟩
      = some ⟨pushB ({setr} H) (ext_{f.name} {gets} {sc_vars}),
          ⟨cfi, cf, regSet cregs d [.ptr b{recv} 0], cparams, cblk, crest, cdest⟩ :: frs⟩ := by
  have key := callX_{f.name} {gets} {sc_vars} {sc_hyp_names} H {blocks0} {gblocks} {" ".join(f"(fits_ok{n(k)} hk{p})" for p, k in ps)} {ne_names0} {" ".join(ga_args)} {CALLER_ARGS}
  rw [show mkE H [{ents_abs}] [] = H from mkE_restates H _ {rest_term(ps)}] at key
  rw [key]
  refine congrArg (fun hp => some (⟨hp, _⟩ : State)) ?_
  exact mkE_head{n(rk)} H b{recv} _ _ _ {"_ " if n(rk) == 4 else ""}_ _ {rest_term(ps[1:])}

derive_rules callA_{f.name} runA_{f.name} stepsA_{f.name}
""")
    # tie
    cell_hyps = " ".join(f"(hc{p} : h.blocks[b{p}]? = some ({KIND[k]['cells']} {p}))" for p, k in ps)
    gt_hyps, gt_args = [], []
    for g, gi, gv in gl:
        gt_hyps.append(f"(hgp_{g} : h.blocks[{gi + 1}]? = some #[.ptr bg_{g} 0]) (hgv_{g} : h.blocks[bg_{g}]? = some (feCells {gv}))")
        gt_args += [f"(read_of_get1 hgp_{g})", f"(fits_of_get hgv_{g} 5 (Nat.le_refl _))",
                    f"(ne_of_size' hgv_{g} hgp_{g} (n1 := 5) (n2 := 1) rfl rfl (by decide))"]
        for pp, kk in ps:
            gt_args += [f"(ne_of_size' hc{pp} hgv_{g} (n1 := {size(kk)}) (n2 := 5) rfl rfl (by decide))",
                        f"(ne_of_size' hc{pp} hgp_{g} (n1 := {size(kk)}) (n2 := 1) rfl rfl (by decide))"]
    for (g1, i1, _), (g2, i2, _) in itertools.combinations(gl, 2):
        gt_hyps.append(f"(hne_{g1}_{g2} : bg_{g1} ≠ bg_{g2})")
        gt_args += [f"hne_{g1}_{g2}", f"(ne_of_size' hgv_{g1} hgp_{g2} (n1 := 5) (n2 := 1) rfl rfl (by decide))",
                    f"(ne_of_size' hgv_{g2} hgp_{g1} (n1 := 5) (n2 := 1) rfl rfl (by decide))"]
    def rest_h(rs):
        t = "(restates_nil h)"
        for g, gi, gv in reversed(gl):
            t = f"(restates_feCells hgv_{g} {t})"
        for p, k in reversed(rs):
            t = f"(restates{n(k)} hc{p} {t})"
        return t
    ents_h = ents_in
    out.append(f"""
/-- **tie**: `{f.gofn}` on any heap in which the (pairwise distinct) parameter blocks hold the cells of the model values{" and the package variables point to T5's constants" if gl else ""}: the run
    terminates and returns the receiver; the receiver's block then holds the cells of T5's `{t5fn}`; every other block of the
    heap is unchanged (the heap grows by the locals of the run). -/
theorem tie_{f.name} (h : Heap) ({blocks} : Nat) {binders_vals}{sc_binders} {sc_hyps} {cell_hyps} {ne_hyps0} {" ".join(gt_hyps)} :
    ∃ h', runCall prog {f.fuel} h (nm! "{f.gofn}") [{args}] = some (.done ⟨h', []⟩ [[.ptr b{recv} 0]])
      ∧ Post1 h h' b{recv} ({KIND[rk]['cells']} ({f.t5})) := by
  obtain ⟨E, core⟩ := coreE_{f.name} {vals} {sc_vars} {sc_hyp_names}
  have core := core h {blocks} {" ".join(f"(fits_of_get hc{p} {size(k)} (Nat.le_refl _))" for p, k in ps)} {ne_names0} {" ".join(gt_args)}
  rw [show mkE h [{ents_h}] [] = h from mkE_restates h _ {rest_h(ps)}] at core
  refine ⟨_, ?_, post1_mkE{n(rk)} _ _ _ {"_ " if n(rk) == 4 else ""}_ E hc{recv} (cells{n(rk)}_size _ _ _{" _" if n(rk) == 4 else ""}) {rest_h(ps[1:])}⟩
  simp only [runCall, funcIdx_{f.fidx}, callState, funcs_{f.fidx}, mkFrame_{f.fidx}, Option.bind_some, Option.map_some, Option.pure_def,
    Option.bind_eq_bind]
  rw [core]
""")


def gen_guarded(f, out):
    """functions that call `checkInitialized` on some of their parameters: the run depends on which `x` are the zero value;
    one `coreE` per case, and the `tie` theorem under the hypothesis that the guarded points are initialised"""
    ps_all = f.params
    rep = lambda q: f.alias.get(q, q)
    ps = [(q, k) for q, k in ps_all if rep(q) == q]
    recv, rk = ps[0]
    gl = f.globals
    binders_vals = " ".join(f"({p} : {KIND[k]['ty']})" for p, k in ps)
    vals = " ".join(p for p, _ in ps)
    blocks = " ".join([f"b{p}" for p, _ in ps] + [f"bg_{g}" for g, _, _ in gl])
    fit_hyps = " ".join(f"(hf{p} : Fits H b{p} 0 {size(k)})" for p, k in ps)
    fit_names = " ".join(f"hf{p}" for p, _ in ps)
    pairs = list(itertools.combinations([p for p, _ in ps], 2))
    ne_hyps0 = " ".join(f"(hne_{x}{y} : b{x} ≠ b{y})" for x, y in pairs)
    ne_names0 = " ".join(f"hne_{x}{y}" for x, y in pairs)
    g_hyps, g_names, g_simp = [], [], []
    for g, gi, gv in gl:
        g_hyps.append(f"(hg_{g} : H.read {gi + 1} 0 1 = some [.ptr bg_{g} 0]) (hfg_{g} : Fits H bg_{g} 0 5) (hn_{g} : bg_{g} ≠ {gi + 1})")
        g_names += [f"hg_{g}", f"hfg_{g}", f"hn_{g}"]
        g_simp += [f"read_mkE_base hg_{g}", f"gptr_mkE hg_{g}", f"isGlob_mkE hg_{g}", f"hfg_{g}", f"hfg_{g}.1", f"hn_{g}", f"hn_{g}.symm"]
        for pp, _ in ps:
            g_hyps.append(f"(hne_{pp}_{g} : b{pp} ≠ bg_{g}) (hng_{pp}_{g} : b{pp} ≠ {gi + 1})")
            g_names += [f"hne_{pp}_{g}", f"hng_{pp}_{g}"]
            g_simp += [f"hne_{pp}_{g}", f"hne_{pp}_{g}.symm", f"hng_{pp}_{g}", f"hng_{pp}_{g}.symm"]
    ne_hyps = ne_hyps0 + " " + " ".join(g_hyps)
    ne_names = ne_names0 + " " + " ".join(g_names)
    g_ents = [f"(bg_{g}, 0, feL {gv})" for g, _, gv in gl]
    args = ", ".join(f"[.ptr b{rep(p)} 0]" for p, _ in ps_all)
    t5 = f.t5
    ents_in = ", ".join(sum([ents(f"b{p}", p, k) for p, k in ps], []) + g_ents)
    ents_out = ", ".join(ents(f"b{recv}", t5, rk) + sum([ents(f"b{p}", p, k) for p, k in ps[1:]], []) + g_ents)
    rty = 6
    guards = []
    for g in f.guards:
        if rep(g) not in guards: guards.append(rep(g))
    have, simp_facts = [], []
    for p, k in ps:
        have.append(f"  have hb{p} := hf{p}.1")
        simp_facts.append(f"hb{p}")
        for i in range(n(k)):
            have.append(f"  have hf{p}{i} := fits_sub {5 * i} hf{p} (by decide)")
            simp_facts.append(f"hf{p}{i}")
    for x, y in pairs:
        simp_facts += [f"hne_{x}{y}", f"hne_{x}{y}.symm"]
    simp_facts += g_simp
    for g, gi, gv in gl:
        have.append(f"  have hlt_{g} := lt_of_read hg_{g}")
        simp_facts.append(f"hlt_{g}")
    have = "\n".join(have)
    run_rules = ", ".join("↓runA_" + r for r in f.rules)
    extra = (", " + f.extra_simp) if f.extra_simp else ""
    rz = "Multiply_rz, Square_rz, Add_rz, Subtract_rz, Select_rz, Set_rz"
    if not f.alias:
        out.append(f"""
def body{f.fidx} : List Instr := body% f{f.fidx}
theorem funcs_{f.fidx} : prog.funcs[{f.fidx}]? = some f{f.fidx} := rfl
theorem mkFrame_{f.fidx} (args : List RVal) (dest : Option Nat) :
    mkFrame {f.fidx} f{f.fidx} args dest = some ⟨{f.fidx}, f{f.fidx}, #[], args.toArray, 0, body{f.fidx}, dest⟩ := rfl
theorem resultTys_{f.fidx} : f{f.fidx}.resultTys = [{rty}] := rfl
theorem funcIdx_{f.fidx} : prog.funcIdx? (nm! "{f.gofn}") = some {f.fidx} := by decide +kernel
""")
    cases = list(itertools.product("ab", repeat=len(guards)))
    for cs in cases:
        tag = "".join(cs)
        chyps, cnames = [], []
        for g, c in zip(guards, cs):
            if c == "a":
                chyps.append(f"(hx_{g} : IsZeroE {g}.x = False)"); cnames.append(f"hx_{g}")
            else:
                chyps.append(f"(hx_{g} : IsZeroE {g}.x = True) (hy_{g} : IsZeroE {g}.y = False)"); cnames += [f"hx_{g}", f"hy_{g}"]
        out.append(f"""
set_option maxHeartbeats 16000000 in
/-- `{f.gofn}` as the outermost call, on the canonical heap of its parameters; case `{tag}` of `checkInitialized`
    (`a`: `x` is not the zero value, `b`: `x` is and `y` is not) -/
theorem coreE_{f.name}_{tag} {binders_vals} {" ".join(chyps)} : ∀ (H : Heap) ({blocks} : Nat) {fit_hyps} {ne_hyps}, ∃ E : List (Array Val),
    run prog {f.fuel} ⟨mkE H [{ents_in}] [],
        [⟨{f.fidx}, f{f.fidx}, #[], #[{args}], 0, body{f.fidx}, none⟩]⟩
      = .done ⟨mkE H [{ents_out}] E, []⟩ [[.ptr b{recv} 0]] := by
  intro H {blocks} {fit_names} {ne_names}
  apply Exists.intro
{have}
  simp only [body{f.fidx}]
  {f.tactic if f.tactic != 'ssa_execP' else 'ssa_execC'} [resultTys_{f.fidx}, {run_rules}, {", ".join(cnames)}, {", ".join(simp_facts)}, {rz}{extra}]
  rfl
""")
    # tie
    cell_hyps = " ".join(f"(hc{p} : h.blocks[b{p}]? = some ({KIND[k]['cells']} {p}))" for p, k in ps)
    gt_hyps, gt_args = [], []
    for g, gi, gv in gl:
        gt_hyps.append(f"(hgp_{g} : h.blocks[{gi + 1}]? = some #[.ptr bg_{g} 0]) (hgv_{g} : h.blocks[bg_{g}]? = some (feCells {gv}))")
        gt_args += [f"(read_of_get1 hgp_{g})", f"(fits_of_get hgv_{g} 5 (Nat.le_refl _))",
                    f"(ne_of_size' hgv_{g} hgp_{g} (n1 := 5) (n2 := 1) rfl rfl (by decide))"]
        for pp, kk in ps:
            gt_args += [f"(ne_of_size' hc{pp} hgv_{g} (n1 := {size(kk)}) (n2 := 5) rfl rfl (by decide))",
                        f"(ne_of_size' hc{pp} hgp_{g} (n1 := {size(kk)}) (n2 := 1) rfl rfl (by decide))"]
    def rest_h(rs):
        t = "(restates_nil h)"
        for g, gi, gv in reversed(gl):
            t = f"(restates_feCells hgv_{g} {t})"
        for p, k in reversed(rs):
            t = f"(restates{n(k)} hc{p} {t})"
        return t
    init_hyps = " ".join(f"(hi_{g} : InitP {g})" for g in guards)
    lines = []
    def rec(i, cs, indent):
        pad = "  " * indent
        if i == len(guards):
            tag = "".join(c for c, _ in cs)
            cargs = " ".join(a for _, a in cs)
            lines.append(f"{pad}exact fin (coreE_{f.name}_{tag} {vals} {cargs})")
            return
        g = guards[i]
        lines.append(f"{pad}by_cases hx_{g} : IsZeroE {g}.x")
        lines.append(f"{pad}· have hy_{g} : ¬ IsZeroE {g}.y := fun hy => hi_{g}.elim (fun h => h hx_{g}) (fun h => h hy)")
        rec(i + 1, cs + [("b", f"(eq_true hx_{g}) (eq_false hy_{g})")], indent + 1)
        lines.append(f"{pad}· skip")
        rec(i + 1, cs + [("a", f"(eq_false hx_{g})")], indent + 1)
    rec(0, [], 1)
    t5fn = f.t5.split(" ")[0]
    out.append(f"""
/-- **tie**: `{f.gofn}` on any heap in which the (pairwise distinct) parameter blocks hold the cells of the model values{" and the package variables point to T5's constants" if gl else ""},
    the guarded parameters ({", ".join(guards)}) being initialised points (`checkInitialized` does not panic): the run terminates and
    returns the receiver; the receiver's block then holds the cells of T5's `{t5fn}`; every other block of the heap is unchanged. -/
theorem tie_{f.name} (h : Heap) ({blocks} : Nat) {binders_vals} {init_hyps} {cell_hyps} {ne_hyps0} {" ".join(gt_hyps)} :
    ∃ h', runCall prog {f.fuel} h (nm! "{f.gofn}") [{args}] = some (.done ⟨h', []⟩ [[.ptr b{recv} 0]])
      ∧ Post1 h h' b{recv} ({KIND[rk]['cells']} ({f.t5})) := by
  have fin : (∀ (H : Heap) ({blocks} : Nat) {fit_hyps} {ne_hyps}, ∃ E : List (Array Val),
      run prog {f.fuel} ⟨mkE H [{ents_in}] [],
        [⟨{f.fidx}, f{f.fidx}, #[], #[{args}], 0, body{f.fidx}, none⟩]⟩
      = .done ⟨mkE H [{ents_out}] E, []⟩ [[.ptr b{recv} 0]]) →
      ∃ h', runCall prog {f.fuel} h (nm! "{f.gofn}") [{args}] = some (.done ⟨h', []⟩ [[.ptr b{recv} 0]])
        ∧ Post1 h h' b{recv} ({KIND[rk]['cells']} ({f.t5})) := by
    intro core
    obtain ⟨E, core⟩ := core h {blocks} {" ".join(f"(fits_of_get hc{p} {size(k)} (Nat.le_refl _))" for p, k in ps)} {ne_names0} {" ".join(gt_args)}
    rw [show mkE h [{ents_in}] [] = h from mkE_restates h _ {rest_h(ps)}] at core
    refine ⟨_, ?_, post1_mkE{n(rk)} _ _ _ {"_ " if n(rk) == 4 else ""}_ E hc{recv} (cells{n(rk)}_size _ _ _{" _" if n(rk) == 4 else ""}) {rest_h(ps[1:])}⟩
    simp only [runCall, funcIdx_{f.fidx}, callState, funcs_{f.fidx}, mkFrame_{f.fidx}, Option.bind_some, Option.map_some, Option.pure_def,
      Option.bind_eq_bind]
    rw [core]
""" + "\n".join(lines) + "\n")


def sc_projs(f):
    m = len(f.scalars)
    if m == 0: return ""
    if m == 1: return "h"
    return " ".join("(h" + ".2" * i + (".1" if i < m - 1 else "") + ")" for i in range(m))

def sc_pf(f):
    m = len(f.scalars)
    if m == 0: return "trivial"
    if m == 1: return f"h{f.scalars[0]}"
    return "⟨" + ", ".join(f"h{s}" for s in f.scalars) + "⟩"

HDR = """{imports}import EdVerif.Ssa.Tie.{hdr}
import EdVerif.Ssa.Tie.KernESwap
import EdVerif.Gen.Formulas
/-!
# GENERATED by gen_pt.py — `{gofn}`: SSA execution = T5's `{t5fn}`
-/
namespace EdVerif.Ssa.Tie
open EdVerif.Ssa EdVerif.Gen.Ssa EdVerif.Prims EdVerif.Impl EdVerif.Gen
set_option maxRecDepth 100000
set_option linter.unusedVariables false
"""

def emit(f):
    out = [HDR.format(imports="".join(f"import EdVerif.Ssa.Tie.{i}\n" for i in f.imports), gofn=f.gofn, t5fn=f.t5.split(" ")[0], hdr=f.hdr_import)]
    gen(f, out)
    out.append("\nend EdVerif.Ssa.Tie\n")
    open(D + f"Pt_{f.name}.lean", "w").write("".join(out))
    return f"EdVerif.Ssa.Tie.Pt_{f.name}"

MUL, SQ, ADD, SUB, SEL, SET = 735, 478, 84, 91, 56, 3

FS = [
    F("projP2_FromP1xP1", 59, "(*projP2).FromP1xP1", 13 + 3 * MUL, [("v", "P2"), ("p", "P1")], "Formulas.projP2_FromP1xP1 v p", ["Multiply"]),
    F("projP2_FromP3", 60, "(*projP2).FromP3", 10 + 3 * SET, [("v", "P2"), ("p", "P3")], "Formulas.projP2_FromP3 v p", ["Set"]),
    F("Point_fromP1xP1", 19, "(*Point).fromP1xP1", 17 + 4 * MUL, [("v", "P3"), ("p", "P1")], "Formulas.Point_fromP1xP1 v p", ["Multiply"]),
    F("Point_fromP2", 20, "(*Point).fromP2", 16 + 3 * MUL + SQ, [("v", "P3"), ("p", "P2")], "Formulas.Point_fromP2 v p", ["Multiply", "Square"]),
    F("projP1xP1_Add", 54, "(*projP1xP1).Add", 32 + 4 * MUL + 4 * ADD + 3 * SUB, [("v", "P1"), ("p", "P3"), ("q", "C")],
      "Formulas.projP1xP1_Add v p q", ["Multiply", "Add", "Subtract"]),
    F("projP1xP1_Sub", 57, "(*projP1xP1).Sub", 32 + 4 * MUL + 4 * ADD + 3 * SUB, [("v", "P1"), ("p", "P3"), ("q", "C")],
      "Formulas.projP1xP1_Sub v p q", ["Multiply", "Add", "Subtract"]),
    F("projP1xP1_AddAffine", 55, "(*projP1xP1).AddAffine", 31 + 3 * MUL + 4 * ADD + 3 * SUB, [("v", "P1"), ("p", "P3"), ("q", "A")],
      "Formulas.projP1xP1_AddAffine v p q", ["Multiply", "Add", "Subtract"]),
    F("projP1xP1_SubAffine", 58, "(*projP1xP1).SubAffine", 31 + 3 * MUL + 4 * ADD + 3 * SUB, [("v", "P1"), ("p", "P3"), ("q", "A")],
      "Formulas.projP1xP1_SubAffine v p q", ["Multiply", "Add", "Subtract"]),
    F("projP1xP1_Double", 56, "(*projP1xP1).Double", 26 + 4 * SQ + 3 * ADD + 3 * SUB, [("v", "P1"), ("p", "P2")],
      "Formulas.projP1xP1_Double v p", ["Square", "Add", "Subtract"]),
    F("projCached_Select", 50, "(*projCached).Select", 17 + 4 * SEL, [("v", "C"), ("a", "C"), ("b", "C")],
      "Formulas.projCached_Select v a b c", ["Select"], scalars=["c"]),
    F("affineCached_Select", 40, "(*affineCached).Select", 13 + 3 * SEL, [("v", "A"), ("a", "A"), ("b", "A")],
      "Formulas.affineCached_Select v a b c", ["Select"], scalars=["c"]),
    F("projCached_FromP3", 49, "(*projCached).FromP3", 16 + ADD + SUB + SET + MUL, [("v", "C"), ("p", "P3")],
      "Formulas.projCached_FromP3 v p", ["Add", "Subtract", "Set", "Multiply"], globals=[("d2", 3, "Point.d2")]),
    F("projCached_CondNeg", 48, "(*projCached).CondNeg", 10 + 86 + 94 + SEL, [("v", "C")],
      "Formulas.projCached_CondNeg v c", ["Swap", "Negate", "Select"], scalars=["c"], globals=[("feZero", 12, "EdVerif.Gen.Field.feZero")],
      extra_simp="funcs_80, mkFrame_80, funcs_70, mkFrame_70"),
    F("affineCached_CondNeg", 38, "(*affineCached).CondNeg", 10 + 86 + 94 + SEL, [("v", "A")],
      "Formulas.affineCached_CondNeg v c", ["Swap", "Negate", "Select"], scalars=["c"], globals=[("feZero", 12, "EdVerif.Gen.Field.feZero")],
      extra_simp="funcs_80, mkFrame_80, funcs_70, mkFrame_70"),
    F("Point_Negate", 7, "(*Point).Negate", 18 + 19 + 2 * 94 + 2 * SET, [("v", "P3"), ("p", "P3")],
      "Formulas.Point_Negate v p", ["Negate", "Set"], globals=[("feZero", 12, "EdVerif.Gen.Field.feZero")], guards=["p"], hdr_import="PtCk"),
    F("Point_MultByCofactor", 5, "(*Point).MultByCofactor", 15 + 19 + 19 + 3 * 2463 + 2 * 2218 + 2957, [("v", "P3"), ("p", "P3")],
      "Formulas.Point_MultByCofactor v p", ["projP2_FromP3", "projP1xP1_Double", "projP2_FromP1xP1", "Point_fromP1xP1"], guards=["p"],
      hdr_import="PtExt", tactic="ssa_execX", imports=["Pt_projP2_FromP3", "Pt_projP1xP1_Double", "Pt_projP2_FromP1xP1", "Pt_Point_fromP1xP1"],
      extra_simp="funcs_60, mkFrame_60, funcs_56, mkFrame_56, funcs_59, mkFrame_59, funcs_19, mkFrame_19"),
    F("Point_Add", 0, "(*Point).Add", 13 + 32 + 929 + 3581 + 2957, [("v", "P3"), ("p", "P3"), ("q", "P3")],
      "Formulas.Point_Add v p q", ["projCached_FromP3", "projP1xP1_Add", "Point_fromP1xP1"], guards=["p", "q"],
      globals=[("d2", 3, "Point.d2")], hdr_import="PtExt", tactic="ssa_execX",
      imports=["Pt_projCached_FromP3", "Pt_projP1xP1_Add", "Pt_Point_fromP1xP1"],
      extra_simp="funcs_49, mkFrame_49, funcs_54, mkFrame_54, funcs_19, mkFrame_19"),
    F("Point_Subtract", 13, "(*Point).Subtract", 13 + 32 + 929 + 3581 + 2957, [("v", "P3"), ("p", "P3"), ("q", "P3")],
      "Formulas.Point_Subtract v p q", ["projCached_FromP3", "projP1xP1_Sub", "Point_fromP1xP1"], guards=["p", "q"],
      globals=[("d2", 3, "Point.d2")], hdr_import="PtExt", tactic="ssa_execX",
      imports=["Pt_projCached_FromP3", "Pt_projP1xP1_Sub", "Pt_Point_fromP1xP1"],
      extra_simp="funcs_49, mkFrame_49, funcs_57, mkFrame_57, funcs_19, mkFrame_19"),
]

def alias_variants():
    res = []
    P3 = [("v", "P3"), ("p", "P3"), ("q", "P3")]
    for (nm, fidx, go, inner, innerf, t5base) in [("Point_Add", 0, "(*Point).Add", "projP1xP1_Add", 54, "Formulas.Point_Add"),
                                                   ("Point_Subtract", 13, "(*Point).Subtract", "projP1xP1_Sub", 57, "Formulas.Point_Subtract")]:
        for tag, al, t5args in [("al010", {"q": "v"}, "v p v"), ("al011", {"q": "p"}, "v p p"), ("al002", {"p": "v"}, "v v q"), ("al000", {"p": "v", "q": "v"}, "v v v")]:
            res.append(F(f"{nm}__{tag}", fidx, go, 13 + 32 + 929 + 3581 + 2957, P3, f"{t5base}__{tag} {t5args}",
                         ["projCached_FromP3", inner, "Point_fromP1xP1"], guards=["p", "q"], globals=[("d2", 3, "Point.d2")],
                         hdr_import="PtExt", tactic="ssa_execX", imports=[f"Pt_{nm}"], alias=al,
                         extra_simp=f"funcs_49, mkFrame_49, funcs_{innerf}, mkFrame_{innerf}, funcs_19, mkFrame_19"))
    res.append(F("Point_Negate__al00", 7, "(*Point).Negate", 18 + 19 + 2 * 94 + 2 * SET, [("v", "P3"), ("p", "P3")],
                 "Formulas.Point_Negate__al00 v v", ["Negate", "Set"], globals=[("feZero", 12, "EdVerif.Gen.Field.feZero")], guards=["p"],
                 hdr_import="PtCk", imports=["Pt_Point_Negate"], alias={"p": "v"}))
    res.append(F("Point_MultByCofactor__al00", 5, "(*Point).MultByCofactor", 15 + 19 + 19 + 3 * 2463 + 2 * 2218 + 2957, [("v", "P3"), ("p", "P3")],
                 "Formulas.Point_MultByCofactor__al00 v v", ["projP2_FromP3", "projP1xP1_Double", "projP2_FromP1xP1", "Point_fromP1xP1"], guards=["p"],
                 hdr_import="PtExt", tactic="ssa_execX", imports=["Pt_Point_MultByCofactor"], alias={"p": "v"},
                 extra_simp="funcs_60, mkFrame_60, funcs_56, mkFrame_56, funcs_59, mkFrame_59, funcs_19, mkFrame_19"))
    return res

FS = FS + alias_variants()


if __name__ == "__main__":
    for f in FS:
        emit(f)
    print(" ".join(f"EdVerif.Ssa.Tie.Pt_{f.name}" for f in FS))
