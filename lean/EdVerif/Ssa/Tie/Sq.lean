import EdVerif.Ssa.Tie.Mul
/-!
# `field.feSquareGeneric`
-/
namespace EdVerif.Ssa.Tie
open EdVerif.Ssa EdVerif.Gen.Ssa EdVerif.Prims
set_option maxRecDepth 100000

def body112 : List Instr := body% f112
theorem funcs_112 : prog.funcs[112]? = some f112 := rfl
theorem mkFrame_112 (args : List RVal) (dest : Option Nat) :
    mkFrame 112 f112 args dest = some ⟨112, f112, #[], args.toArray, 0, body112, dest⟩ := rfl
theorem resultTys_112 : f112.resultTys = [] := rfl
theorem funcIdx_112 : prog.funcIdx? (nm! "field.feSquareGeneric") = some 112 := by decide +kernel

abbrev SqT (v0 v1 v2 v3 v4 a0 a1 a2 a3 a4 : Nat) : Fe :=
  EdVerif.Gen.Field.feSquareGeneric ⟨v0, v1, v2, v3, v4⟩ ⟨a0, a1, a2, a3, a4⟩

set_option maxHeartbeats 64000000 in
/-- `feSquareGeneric(v, a)` as the outermost call on a canonical heap, `v`, `a` distinct blocks -/
theorem core_feSquareGeneric (h0 : Heap) (ovr) (bv ba : Nat) (v0 v1 v2 v3 v4 a0 a1 a2 a3 a4 : Nat)
    (hbv : bv < h0.blocks.size) (hba : ba < h0.blocks.size) (hva : bv ≠ ba) :
    ∃ ext, run prog 474 ⟨mkH h0 ((bv, #[.int v0, .int v1, .int v2, .int v3, .int v4]) :: (ba, #[.int a0, .int a1, .int a2, .int a3, .int a4]) :: ovr) [],
        [⟨112, f112, #[], #[[.ptr bv 0], [.ptr ba 0]], 0, body112, none⟩]⟩
      = .done ⟨mkH h0 ((bv, feCells (SqT v0 v1 v2 v3 v4 a0 a1 a2 a3 a4)) :: (ba, #[.int a0, .int a1, .int a2, .int a3, .int a4]) :: ovr) ext, []⟩ [] := by
  apply Exists.intro
  simp only [body112]
  ssa_exec [resultTys_112, funcs_83, mkFrame_83, funcs_116, mkFrame_116, funcs_108, mkFrame_108, funcs_117, mkFrame_117,
    ↓run_carryPropagate, ↓run_mul64, ↓run_addMul64, ↓run_shiftRightBy51, U128_eta,
    read_hit, read_miss, write_hit, hbv, hba, hva, hva.symm, ne_eq, not_false_eq_true]
  rfl

/-- **tie**: `feSquareGeneric(v, a)` (two distinct blocks) -/
theorem tie_feSquareGeneric (h : Heap) (bv ba : Nat) (v a : Fe)
    (hv : h.blocks[bv]? = some (feCells v)) (ha : h.blocks[ba]? = some (feCells a)) (hva : bv ≠ ba) :
    ∃ h', runCall prog 474 h (nm! "field.feSquareGeneric") [[.ptr bv 0], [.ptr ba 0]] = some (.done ⟨h', []⟩ [])
      ∧ Post1 h h' bv (feCells (EdVerif.Gen.Field.feSquareGeneric v a)) := by
  obtain ⟨v0, v1, v2, v3, v4⟩ := v
  obtain ⟨a0, a1, a2, a3, a4⟩ := a
  obtain ⟨ext, core⟩ := core_feSquareGeneric h [] bv ba v0 v1 v2 v3 v4 a0 a1 a2 a3 a4 (lt_of_get hv) (lt_of_get ha) hva
  have hall : ∀ kv ∈ [(ba, feCells ⟨a0, a1, a2, a3, a4⟩)], h.blocks[kv.1]? = some kv.2 := by
    simp [ha]
  rw [show mkH h [(bv, #[.int v0, .int v1, .int v2, .int v3, .int v4]), (ba, #[.int a0, .int a1, .int a2, .int a3, .int a4])] [] = h from
      mkH_intro h _ (by simpa [feCells] using ⟨hv, ha⟩)] at core
  refine ⟨_, ?_, post1_mkH _ ext (lt_of_get hv) hall⟩
  simp only [runCall, funcIdx_112, callState, funcs_112, mkFrame_112, Option.bind_some, Option.map_some, Option.pure_def,
    Option.bind_eq_bind]
  rw [core]; rfl

end EdVerif.Ssa.Tie
