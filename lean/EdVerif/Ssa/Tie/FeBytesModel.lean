import EdVerif.Ssa.Tie.FeBytesRules
import EdVerif.Impl.Fe
/-!
# The bytes of a reduced element: the model `Fe.bytes` as an explicit 32-entry list, and `Fe.ctCompare` as an equality test
-/
namespace EdVerif.Ssa.Tie
open EdVerif.Ssa EdVerif.Gen.Ssa EdVerif.Prims EdVerif.Impl
set_option maxRecDepth 100000
set_option linter.unusedVariables false

/-- the 32 bytes written by `(*field.Element).bytes` for the reduced element `t`, exactly as the SSA computes them
    (`out[off] |= byte k of (t.l_i << (51 i % 8))`, `off = 51 i / 8 + k`) -/
def bytesL (t : Fe) : List Nat :=
  [0 ||| (U.shl 64 t.l0 0 >>> 0) % 256,
   0 ||| (U.shl 64 t.l0 0 >>> 8) % 256,
   0 ||| (U.shl 64 t.l0 0 >>> 16) % 256,
   0 ||| (U.shl 64 t.l0 0 >>> 24) % 256,
   0 ||| (U.shl 64 t.l0 0 >>> 32) % 256,
   0 ||| (U.shl 64 t.l0 0 >>> 40) % 256,
   0 ||| (U.shl 64 t.l0 0 >>> 48) % 256 ||| (U.shl 64 t.l1 3 >>> 0) % 256,
   0 ||| (U.shl 64 t.l0 0 >>> 56) % 256 ||| (U.shl 64 t.l1 3 >>> 8) % 256,
   0 ||| (U.shl 64 t.l1 3 >>> 16) % 256,
   0 ||| (U.shl 64 t.l1 3 >>> 24) % 256,
   0 ||| (U.shl 64 t.l1 3 >>> 32) % 256,
   0 ||| (U.shl 64 t.l1 3 >>> 40) % 256,
   0 ||| (U.shl 64 t.l1 3 >>> 48) % 256 ||| (U.shl 64 t.l2 6 >>> 0) % 256,
   0 ||| (U.shl 64 t.l1 3 >>> 56) % 256 ||| (U.shl 64 t.l2 6 >>> 8) % 256,
   0 ||| (U.shl 64 t.l2 6 >>> 16) % 256,
   0 ||| (U.shl 64 t.l2 6 >>> 24) % 256,
   0 ||| (U.shl 64 t.l2 6 >>> 32) % 256,
   0 ||| (U.shl 64 t.l2 6 >>> 40) % 256,
   0 ||| (U.shl 64 t.l2 6 >>> 48) % 256,
   0 ||| (U.shl 64 t.l2 6 >>> 56) % 256 ||| (U.shl 64 t.l3 1 >>> 0) % 256,
   0 ||| (U.shl 64 t.l3 1 >>> 8) % 256,
   0 ||| (U.shl 64 t.l3 1 >>> 16) % 256,
   0 ||| (U.shl 64 t.l3 1 >>> 24) % 256,
   0 ||| (U.shl 64 t.l3 1 >>> 32) % 256,
   0 ||| (U.shl 64 t.l3 1 >>> 40) % 256,
   0 ||| (U.shl 64 t.l3 1 >>> 48) % 256 ||| (U.shl 64 t.l4 4 >>> 0) % 256,
   0 ||| (U.shl 64 t.l3 1 >>> 56) % 256 ||| (U.shl 64 t.l4 4 >>> 8) % 256,
   0 ||| (U.shl 64 t.l4 4 >>> 16) % 256,
   0 ||| (U.shl 64 t.l4 4 >>> 24) % 256,
   0 ||| (U.shl 64 t.l4 4 >>> 32) % 256,
   0 ||| (U.shl 64 t.l4 4 >>> 40) % 256,
   0 ||| (U.shl 64 t.l4 4 >>> 48) % 256]

theorem bytesL_length (t : Fe) : (bytesL t).length = 32 := rfl

/-- the cells of the `[32]byte` result -/
def bytesV (t : Fe) : List Val := (bytesL t).map Val.int

/-- the last contents of the local `buf [8]byte` -/
def bufV (t : Fe) : List Val := [.int ((U.shl 64 t.l4 4 >>> 0) % 256), .int ((U.shl 64 t.l4 4 >>> 8) % 256), .int ((U.shl 64 t.l4 4 >>> 16) % 256), .int ((U.shl 64 t.l4 4 >>> 24) % 256), .int ((U.shl 64 t.l4 4 >>> 32) % 256), .int ((U.shl 64 t.l4 4 >>> 40) % 256), .int ((U.shl 64 t.l4 4 >>> 48) % 256), .int ((U.shl 64 t.l4 4 >>> 56) % 256)]

/-- the blocks allocated by `(*field.Element).Bytes` on an element whose reduction is `t`:
    the result array, the local copy `t`, the buffer, the array `[5]uint64` of the `range` statement -/
def extBytes (t : Fe) : List (Array Val) := [(bytesV t).toArray, (feL t).toArray, (bufV t).toArray, (feL t).toArray]

theorem extBytes_eq (t : Fe) : extBytes t = [(bytesV t).toArray, (feL t).toArray, (bufV t).toArray, (feL t).toArray] := by rw [extBytes]

/-! ## the model -/

/-- the inner loop of the model on lists -/
def orL (out : List Nat) (base : Nat) : Nat → List Nat → List Nat
  | _, [] => out
  | j, bb :: r => orL (if out.length ≤ base + j then out else out.set (base + j) (out[base + j]?.getD 0 ||| bb)) base (j + 1) r

theorem orFold (base : Nat) (buf : List Nat) : ∀ (out : List Nat) (n : Nat),
    (buf.zipIdx n).foldl (fun out (x : Nat × Nat) =>
      let off := base + x.2
      if off ≥ out.size then out else out.set! off (out[off]! ||| x.1)) out.toArray = (orL out base n buf).toArray := by
  induction buf with
  | nil => intro out n; rfl
  | cons b r ih =>
    intro out n
    simp only [List.zipIdx_cons, List.foldl_cons, orL]
    rw [← ih]
    congr 1
    by_cases h : out.length ≤ base + n
    · simp [h]
    · simp [h]

theorem orBytesAt_toArray (out : List Nat) (base : Nat) (buf : List Nat) :
    Fe.orBytesAt out.toArray base buf = (orL out base 0 buf).toArray := by
  unfold Fe.orBytesAt
  exact orFold base buf out 0

theorem range8 : List.range 8 = [0,1,2,3,4,5,6,7] := by decide
theorem zeros32 : Bin.zeros 32 = [0,0,0,0,0,0,0,0,0,0,0,0,0,0,0,0,0,0,0,0,0,0,0,0,0,0,0,0,0,0,0,0].toArray := by decide

set_option maxHeartbeats 4000000 in
theorem bytes_eq (v : Fe) : Fe.bytes v = (bytesL (Fe.reduce v)).toArray := by
  unfold Fe.bytes
  generalize Fe.reduce v = t
  simp only [Fe.putLE64, range8, zeros32, List.zipIdx_cons, List.zipIdx_nil, List.foldl_cons, List.foldl_nil, List.map_cons, List.map_nil,
    orBytesAt_toArray, Nat.reduceMul, Nat.reduceAdd, Nat.reduceMod, Nat.reduceDiv, Nat.zero_add]
  simp only [orL, List.length_cons, List.length_nil, Nat.reduceAdd, Nat.reduceLeDiff, if_false, if_true,
    List.set_cons_succ, List.set_cons_zero, List.getElem?_cons_succ, List.getElem?_cons_zero, Option.getD_some]
  rfl

/-! ## `ConstantTimeCompare` -/

theorem foldl_or_eq_zero (f : Nat → Nat) : ∀ (l : List Nat) (init : Nat),
    (l.foldl (fun acc i => acc ||| f i) init = 0) ↔ (init = 0 ∧ ∀ i ∈ l, f i = 0)
  | [], init => by simp
  | a :: l, init => by
    simp only [List.foldl_cons, foldl_or_eq_zero f l, Nat.or_eq_zero_iff, List.mem_cons, forall_eq_or_imp]
    exact ⟨fun ⟨⟨h1, h2⟩, h3⟩ => ⟨h1, h2, h3⟩, fun ⟨h1, h2, h3⟩ => ⟨⟨h1, h2⟩, h3⟩⟩

theorem xor_eq_zero_iff' (a b : Nat) : a ^^^ b = 0 ↔ a = b := by
  constructor
  · intro h
    apply Nat.eq_of_testBit_eq
    intro i
    have := congrArg (fun x => x.testBit i) h
    simp only [Nat.testBit_xor, Nat.zero_testBit] at this
    cases ha : a.testBit i <;> cases hb : b.testBit i <;> simp [ha, hb] at this ⊢
  · rintro rfl; exact Nat.xor_self a

theorem ctCompare_list (a b : List Nat) (h : a.length = b.length) :
    Fe.ctCompare a.toArray b.toArray = if a = b then 1 else 0 := by
  unfold Fe.ctCompare
  have hs : (a.toArray.size != b.toArray.size) = false := by simp [h]
  simp only [hs, Bool.false_eq_true, if_false]
  have key : ((List.range a.toArray.size).foldl (fun acc i => acc ||| (a.toArray[i]! ^^^ b.toArray[i]!)) 0 = 0) ↔ a = b := by
    rw [foldl_or_eq_zero (fun i => a.toArray[i]! ^^^ b.toArray[i]!)]
    simp only [true_and, List.mem_range, xor_eq_zero_iff', List.size_toArray]
    constructor
    · intro hh
      apply List.ext_getElem h
      intro i h1 h2
      have := hh i h1
      simpa [h1, h2] using this
    · rintro rfl i hi; rfl
  by_cases e : a = b
  · simp only [e, if_true]
    have := key.mpr e
    subst e
    simp only [this, beq_self_eq_true, if_true]
  · simp only [e, if_false]
    have : ¬ ((List.range a.toArray.size).foldl (fun acc i => acc ||| (a.toArray[i]! ^^^ b.toArray[i]!)) 0 = 0) := fun hh => e (key.mp hh)
    rw [if_neg]
    simpa using this

theorem map_int_inj (a b : List Nat) : (a.map Val.int = b.map Val.int) ↔ a = b :=
  List.map_inj_right (fun x y h => by cases h; rfl)

/-- what `ConstantTimeCompare` returns on the byte blocks of `u` and `v` = the model's `Fe.equal v u` -/
theorem cmp_bytesV (v u : Fe) :
    (if bytesV (Fe.reduce u) = bytesV (Fe.reduce v) then 1 else 0) = Fe.equal v u := by
  unfold Fe.equal
  rw [bytes_eq, bytes_eq, ctCompare_list _ _ (by rw [bytesL_length, bytesL_length])]
  simp only [bytesV, map_int_inj]

theorem bytesV_data (t : Fe) : (bytesV t).all (·.cls = .data) = true := by
  simp [bytesV, Val.cls]

theorem readCells_full : ∀ (L : List Val) (pre : List Val), readCells (pre ++ L).toArray pre.length L.length = some L
  | [], pre => rfl
  | x :: L, pre => by
    simp only [readCells, List.length_cons]
    have e : (pre ++ x :: L).toArray[pre.length]? = some x := by simp
    rw [e]
    have := readCells_full L (pre ++ [x])
    simp only [List.append_assoc, List.singleton_append, List.length_append, List.length_cons, List.length_nil] at this
    rw [this]; rfl

theorem readCells_bytesV (t : Fe) : readCells (bytesV t).toArray 0 32 = some (bytesV t) := by
  have := readCells_full (bytesV t) []
  simpa [bytesV, bytesL_length] using this

end EdVerif.Ssa.Tie
