import EdVerif.Ssa.Tie.FiatSub
/-!
# `(*Scalar).Equal`

`diff` (a `[4]uint64`) and `nonzero` (a `uint64`) are locals of the Go function: freshly allocated blocks.  The callees
`fiatScalarSub` and `fiatScalarNonzero` are executed in line (their out-pointers are those fresh blocks).
The heap of the caller is unchanged (`Post0`); the result is T1's `Equal s t`.
-/
namespace EdVerif.Ssa.Tie
open EdVerif.Ssa EdVerif.Gen.Ssa EdVerif.Prims EdVerif.Gen.Fiat
set_option maxRecDepth 100000
set_option linter.unusedSimpArgs false

def body23 : List Instr := body% f23
theorem funcs_23 : prog.funcs[23]? = some f23 := rfl
theorem mkFrame_23 (args : List RVal) (dest : Option Nat) :
    mkFrame 23 f23 args dest = some ⟨23, f23, #[], args.toArray, 0, body23, dest⟩ := rfl
theorem resultTys_23 : f23.resultTys = [10] := rfl
theorem funcIdx_23 : prog.funcIdx? (nm! "(*Scalar).Equal") = some 23 := by decide +kernel

/-- `int(^x)` for a `uint64` `x`: the conversion wraps, so no bound on `x` is needed -/
theorem wrap_not64 (v : Nat) : wrap 64 ((2 ^ 64 - 1) ^^^ v) = U.not 64 v := by
  have h1 : (2 ^ 64 - 1) % 2 ^ 64 = 2 ^ 64 - 1 := by decide
  rw [wrap, Nat.xor_mod_two_pow, h1, not64 _ (Nat.mod_lt _ (by decide))]
  simp only [U.not, Nat.mod_mod]

theorem post0_mkH' {h : Heap} {ovr : List (Nat × Array Val)} (ext)
    (hall : ∀ kv ∈ ovr, h.blocks[kv.1]? = some kv.2) : Post0 h (mkH h ovr ext) :=
  ⟨by simp [mkH_size], fun c hc => mkH_get_orig h ext ovr hall c hc⟩

set_option maxHeartbeats 64000000 in
/-- `s.Equal(t)`, distinct blocks -/
theorem core_Scalar_Equal_d (h0 : Heap) (ovr) (bs bt : Nat) (s0 s1 s2 s3 t0 t1 t2 t3 : Nat)
    (hlt_t0 : t0 < 18446744073709551616) (hlt_t1 : t1 < 18446744073709551616) (hlt_t2 : t2 < 18446744073709551616)
    (hlt_t3 : t3 < 18446744073709551616)
    (hbs : bs < h0.blocks.size) (hbt : bt < h0.blocks.size) (hne : bs ≠ bt) :
    ∃ ext, run prog 133 ⟨mkH h0 ((bs, #[.int s0, .int s1, .int s2, .int s3]) :: (bt, #[.int t0, .int t1, .int t2, .int t3]) :: ovr) [],
        [⟨23, f23, #[], #[[.ptr bs 0], [.ptr bt 0]], 0, body23, none⟩]⟩
      = .done ⟨mkH h0 ((bs, #[.int s0, .int s1, .int s2, .int s3]) :: (bt, #[.int t0, .int t1, .int t2, .int t3]) :: ovr) ext, []⟩
          [[.int (EdVerif.Gen.Fiat.Equal ⟨s0, s1, s2, s3⟩ ⟨t0, t1, t2, t3⟩)]] := by
  apply Exists.intro
  simp only [body23]
  fiat_exec [resultTys_23, funcs_96, mkFrame_96, ↓run_Cmovznz_ext, and_eq, or_eq, shr_eq, wrap_not64,
    funcs_102, mkFrame_102, resultTys_102, body102, funcs_100, mkFrame_100, resultTys_100, body100,
    read_hit, read_miss, write_hit, hbs, hbt, hlt_t0, hlt_t1, hlt_t2, hlt_t3, hne, hne.symm, ne_eq, not_false_eq_true]
  simp only [EdVerif.Gen.Fiat.Equal, fiatScalarSub, fiatScalarNonzero, Bits.Add64, Bits.Sub64]
  rfl

set_option maxHeartbeats 64000000 in
/-- `s.Equal(s)` -/
theorem core_Scalar_Equal_st (h0 : Heap) (ovr) (bs : Nat) (s0 s1 s2 s3 : Nat)
    (hlt_s0 : s0 < 18446744073709551616) (hlt_s1 : s1 < 18446744073709551616) (hlt_s2 : s2 < 18446744073709551616)
    (hlt_s3 : s3 < 18446744073709551616) (hbs : bs < h0.blocks.size) :
    ∃ ext, run prog 133 ⟨mkH h0 ((bs, #[.int s0, .int s1, .int s2, .int s3]) :: ovr) [],
        [⟨23, f23, #[], #[[.ptr bs 0], [.ptr bs 0]], 0, body23, none⟩]⟩
      = .done ⟨mkH h0 ((bs, #[.int s0, .int s1, .int s2, .int s3]) :: ovr) ext, []⟩
          [[.int (EdVerif.Gen.Fiat.Equal ⟨s0, s1, s2, s3⟩ ⟨s0, s1, s2, s3⟩)]] := by
  apply Exists.intro
  simp only [body23]
  fiat_exec [resultTys_23, funcs_96, mkFrame_96, ↓run_Cmovznz_ext, and_eq, or_eq, shr_eq, wrap_not64,
    funcs_102, mkFrame_102, resultTys_102, body102, funcs_100, mkFrame_100, resultTys_100, body100,
    read_hit, read_miss, write_hit, hbs, hlt_s0, hlt_s1, hlt_s2, hlt_s3, ne_eq, not_false_eq_true]
  simp only [EdVerif.Gen.Fiat.Equal, fiatScalarSub, fiatScalarNonzero, Bits.Add64, Bits.Sub64]
  rfl

/-- **tie**: `s.Equal(t)` on any heap in which blocks `bs`, `bt` hold the words of `s`, `t` (the blocks may coincide; the
    words of `t` are 64-bit values): returns T1's `Equal s t`; no block of the heap changes (the heap grows by the locals). -/
theorem tie_Scalar_Equal (h : Heap) (bs bt : Nat) (s t : W4) (hlt_t : t.lt64)
    (hs : h.blocks[bs]? = some (w4Cells s)) (ht : h.blocks[bt]? = some (w4Cells t)) :
    ∃ h', runCall prog 133 h (nm! "(*Scalar).Equal") [[.ptr bs 0], [.ptr bt 0]]
            = some (.done ⟨h', []⟩ [[.int (EdVerif.Gen.Fiat.Equal s t)]])
      ∧ Post0 h h' := by
  by_cases hne : bs = bt
  · subst hne
    have e := w4Cells_inj (Option.some.inj (hs.symm.trans ht)); subst e
    obtain ⟨s0, s1, s2, s3⟩ := s
    obtain ⟨hlt_s0, hlt_s1, hlt_s2, hlt_s3⟩ := hlt_t
    obtain ⟨ext, core⟩ := core_Scalar_Equal_st h [] bs s0 s1 s2 s3 hlt_s0 hlt_s1 hlt_s2 hlt_s3 (lt_of_get hs)
    have hall : ∀ kv ∈ [(bs, w4Cells ⟨s0, s1, s2, s3⟩)], h.blocks[kv.1]? = some kv.2 := by simp [hs]
    rw [show mkH h [(bs, #[.int s0, .int s1, .int s2, .int s3])] [] = h from
        mkH_intro h _ (by simpa [w4Cells] using hs)] at core
    refine ⟨_, ?_, post0_mkH' ext hall⟩
    simp only [runCall, funcIdx_23, callState, funcs_23, mkFrame_23, Option.bind_some, Option.map_some, Option.pure_def,
      Option.bind_eq_bind]
    rw [core]; first | rfl | skip
  · obtain ⟨s0, s1, s2, s3⟩ := s
    obtain ⟨t0, t1, t2, t3⟩ := t
    obtain ⟨hlt_t0, hlt_t1, hlt_t2, hlt_t3⟩ := hlt_t
    obtain ⟨ext, core⟩ := core_Scalar_Equal_d h [] bs bt s0 s1 s2 s3 t0 t1 t2 t3 hlt_t0 hlt_t1 hlt_t2 hlt_t3 (lt_of_get hs) (lt_of_get ht) hne
    have hall : ∀ kv ∈ [(bs, w4Cells ⟨s0, s1, s2, s3⟩), (bt, w4Cells ⟨t0, t1, t2, t3⟩)], h.blocks[kv.1]? = some kv.2 := by
      simp [hs, ht]
    rw [show mkH h [(bs, #[.int s0, .int s1, .int s2, .int s3]), (bt, #[.int t0, .int t1, .int t2, .int t3])] [] = h from
        mkH_intro h _ (by simpa [w4Cells] using ⟨hs, ht⟩)] at core
    refine ⟨_, ?_, post0_mkH' ext hall⟩
    simp only [runCall, funcIdx_23, callState, funcs_23, mkFrame_23, Option.bind_some, Option.map_some, Option.pure_def,
      Option.bind_eq_bind]
    rw [core]; first | rfl | skip

end EdVerif.Ssa.Tie
