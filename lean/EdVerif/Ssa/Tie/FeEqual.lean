import EdVerif.Ssa.Tie.FeBytes
/-!
# `(*field.Element).IsNegative` and `(*field.Element).Equal`: SSA execution = the model `Fe.isNegative` / T5's `Formulas.field_Element_Equal`
-/
namespace EdVerif.Ssa.Tie
open EdVerif.Ssa EdVerif.Gen.Ssa EdVerif.Prims EdVerif.Impl EdVerif.Gen
set_option maxRecDepth 100000
set_option linter.unusedVariables false

/-! ## an arbitrary heap followed by fresh blocks -/

theorem read_pushB (H : Heap) (E : List (Array Val)) (k o n : Nat) :
    (pushB H E).read (H.blocks.size + k) o n = (E[k]?).bind (fun blk => readCells blk o n) := by
  have := readE_ext H [] E k o n
  rw [mkE_eq] at this
  exact this

/-- `readCells` on an optional block, kept folded so that the stepper does not unfold it under the binder -/
def readBlk (blk : Option (Array Val)) (o n : Nat) : Option (List Val) := blk.bind (fun b => readCells b o n)

theorem read_pushB' (H : Heap) (E : List (Array Val)) (k o n : Nat) :
    (pushB H E).read (H.blocks.size + k) o n = readBlk (E[k]?) o n := read_pushB H E k o n

theorem readBlk_bytesV (t : Fe) : readBlk (some (bytesV t).toArray) 0 32 = some (bytesV t) := readCells_bytesV t

theorem cell_pushB (H : Heap) (E : List (Array Val)) (b i : Nat) (hb : b < H.blocks.size) : cell (pushB H E) b i = cell H b i := by
  simp only [cell, get_pushB_lt H E b hb]

theorem blkSize_pushB (H : Heap) (E : List (Array Val)) (b : Nat) (hb : b < H.blocks.size) : blkSize (pushB H E) b = blkSize H b := by
  simp only [blkSize, get_pushB_lt H E b hb]

theorem okE_pushB {H : Heap} {b o : Nat} (E : List (Array Val)) (h : OkE H b o) : OkE (pushB H E) b o = True := by
  apply eq_true
  have hb := h.1.1
  refine ⟨⟨by rw [pushB_size]; omega, by rw [blkSize_pushB _ _ _ hb]; exact h.1.2⟩, ?_⟩
  intro k hk
  rw [cell_pushB _ _ _ _ hb]
  exact h.2 k hk

theorem getE_pushB {H : Heap} {b o : Nat} (E : List (Array Val)) (h : OkE H b o) : getE (pushB H E) b o = getE H b o := by
  simp only [getE, cell_pushB _ _ _ _ h.1.1]

theorem extBytes_length (t : Fe) : (extBytes t).length = 4 := rfl
theorem lt16_add (n k : Nat) (h : 16 < n) : (16 < n + k) = True := by apply eq_true; omega
theorem add4_0 (n : Nat) : n + 4 + 0 = n + 4 := rfl

theorem post0_pushB (h : Heap) (E : List (Array Val)) : Post0 h (pushB h E) :=
  ⟨by rw [pushB_size]; omega, fun c hc => get_pushB_lt h E c hc⟩

theorem okE_of_feCells {h : Heap} {b : Nat} {x : Fe} (hb : h.blocks[b]? = some (feCells x)) : OkE h b 0 := by
  refine ⟨fits_of_get hb 5 (Nat.le_refl _), ?_⟩
  intro k hk
  rw [cell_of_get hb]
  match k, hk with
  | 0, _ => exact ⟨_, rfl⟩
  | 1, _ => exact ⟨_, rfl⟩
  | 2, _ => exact ⟨_, rfl⟩
  | 3, _ => exact ⟨_, rfl⟩
  | 4, _ => exact ⟨_, rfl⟩

theorem getE_of_feCells {h : Heap} {b : Nat} {x : Fe} (hb : h.blocks[b]? = some (feCells x)) : getE h b 0 = x := by
  simp only [getE, cell_of_get hb]
  cases x; rfl

/-! ## the call rule of `Bytes` with the body as a literal (the stepper unfolds `body64`) -/

theorem callA_BytesL (H : Heap) (bv ov : Nat) (hkv : OkE H bv ov) (h16 : 16 < H.blocks.size)
    (d : Nat) (cfi : Nat) (cf : Func) (cregs cparams : Array RVal) (cblk : Nat) (crest : List Instr) (cdest : Option Nat) (frs : List Frame) :
    steps prog 801 ⟨H, ⟨64, f64, #[], #[[.ptr bv ov]], 0, body% f64, some d⟩ :: ⟨cfi, cf, cregs, cparams, cblk, crest, cdest⟩ :: frs⟩
      = some ⟨pushB H (extBytes (EdVerif.Gen.Field.reduce (getE H bv ov))),
          ⟨cfi, cf, regSet cregs d [.slice (H.blocks.size + 0) 0 32 32], cparams, cblk, crest, cdest⟩ :: frs⟩ :=
  callA_Bytes H bv ov hkv h16 d cfi cf cregs cparams cblk crest cdest frs

derive_rules callA_BytesL runA_BytesL stepsA_BytesL

/-! ## `IsNegative` -/

def body67 : List Instr := body% f67
theorem funcs_67 : prog.funcs[67]? = some f67 := rfl
theorem mkFrame_67 (args : List RVal) (dest : Option Nat) :
    mkFrame 67 f67 args dest = some ⟨67, f67, #[], args.toArray, 0, body67, dest⟩ := rfl
theorem resultTys_67 : f67.resultTys = [10] := rfl
theorem funcIdx_67 : prog.funcIdx? (nm! "(*field.Element).IsNegative") = some 67 := by decide +kernel

theorem isNegative_eq (v : Fe) :
    Fe.isNegative v = wrap 64 ((0 ||| (U.shl 64 (EdVerif.Gen.Field.reduce v).l0 0 >>> 0) % 256) &&& 1) := by
  unfold Fe.isNegative
  rw [bytes_eq, wrap64_of_lt _ (Nat.lt_of_le_of_lt Nat.and_le_right (by decide))]
  rfl

set_option maxHeartbeats 16000000 in
/-- `v.IsNegative()` called from any frame on an arbitrary heap in which `(bv, ov)` is an element slot -/
theorem callA_IsNegative (H : Heap) (bv ov : Nat) (hkv : OkE H bv ov) (h16 : 16 < H.blocks.size)
    (d : Nat) (cfi : Nat) (cf : Func) (cregs cparams : Array RVal) (cblk : Nat) (crest : List Instr) (cdest : Option Nat) (frs : List Frame) :
    steps prog 807 ⟨H, ⟨67, f67, #[], #[[.ptr bv ov]], 0, body67, some d⟩ :: ⟨cfi, cf, cregs, cparams, cblk, crest, cdest⟩ :: frs⟩
      = some ⟨pushB H (extBytes (EdVerif.Gen.Field.reduce (getE H bv ov))),
          ⟨cfi, cf, regSet cregs d [.int (Fe.isNegative (getE H bv ov))], cparams, cblk, crest, cdest⟩ :: frs⟩ := by
  rw [isNegative_eq]
  simp only [body67]
  ssa_execB [resultTys_67, ↓stepsA_BytesL, hkv, h16, read_pushB, extBytes_eq, bytesV, bytesL, List.map_cons, List.map_nil]

derive_rules callA_IsNegative runA_IsNegative stepsA_IsNegative

set_option maxHeartbeats 16000000 in
theorem coreA_IsNegative (H : Heap) (bv ov : Nat) (hkv : OkE H bv ov) (h16 : 16 < H.blocks.size) :
    run prog 807 ⟨H, [⟨67, f67, #[], #[[.ptr bv ov]], 0, body67, none⟩]⟩
      = .done ⟨pushB H (extBytes (EdVerif.Gen.Field.reduce (getE H bv ov))), []⟩ [[.int (Fe.isNegative (getE H bv ov))]] := by
  rw [isNegative_eq]
  simp only [body67]
  ssa_execB [resultTys_67, ↓runA_BytesL, hkv, h16, read_pushB, extBytes_eq, bytesV, bytesL, List.map_cons, List.map_nil]

/-- **tie**: `v.IsNegative()` on any heap in which block `bv` holds the limbs of `v` (and the block of the package variable
    `binary.LittleEndian` exists): the run terminates and returns the model's `Fe.isNegative v`; no block of the heap changes -/
theorem tie_IsNegative (h : Heap) (bv : Nat) (v : Fe) (hv : h.blocks[bv]? = some (feCells v)) (h16 : 16 < h.blocks.size) :
    ∃ h', runCall prog 807 h (nm! "(*field.Element).IsNegative") [[.ptr bv 0]] = some (.done ⟨h', []⟩ [[.int (Fe.isNegative v)]])
      ∧ Post0 h h' := by
  have core := coreA_IsNegative h bv 0 (okE_of_feCells hv) h16
  rw [getE_of_feCells hv] at core
  refine ⟨pushB h (extBytes (EdVerif.Gen.Field.reduce v)), ?_, post0_pushB h _⟩
  simp only [runCall, funcIdx_67, callState, funcs_67, mkFrame_67, Option.bind_some, Option.map_some, Option.pure_def,
    Option.bind_eq_bind]
  rw [core]

/-! ## `Equal` -/

def body65 : List Instr := body% f65
theorem funcs_65 : prog.funcs[65]? = some f65 := rfl
theorem mkFrame_65 (args : List RVal) (dest : Option Nat) :
    mkFrame 65 f65 args dest = some ⟨65, f65, #[], args.toArray, 0, body65, dest⟩ := rfl
theorem resultTys_65 : f65.resultTys = [10] := rfl
theorem funcIdx_65 : prog.funcIdx? (nm! "(*field.Element).Equal") = some 65 := by decide +kernel

theorem equal_eq (v u : Fe) :
    Formulas.field_Element_Equal v u
      = (if bytesV (EdVerif.Gen.Field.reduce u) = bytesV (EdVerif.Gen.Field.reduce v) then 1 else 0) :=
  (cmp_bytesV v u).symm

/-- the blocks allocated by `v.Equal(u)`: those of `u.Bytes()`, then those of `v.Bytes()` -/
def extEqual (v u : Fe) : List (Array Val) :=
  extBytes (EdVerif.Gen.Field.reduce u) ++ extBytes (EdVerif.Gen.Field.reduce v)

theorem extEqual_eq (v u : Fe) : extEqual v u = extBytes (EdVerif.Gen.Field.reduce u) ++ extBytes (EdVerif.Gen.Field.reduce v) := by
  rw [extEqual]

set_option maxHeartbeats 16000000 in
/-- `v.Equal(u)` called from any frame on an arbitrary heap in which `(bv, ov)` and `(bu, ou)` are element slots (any aliasing) -/
theorem callA_Equal (H : Heap) (bv ov bu ou : Nat) (hkv : OkE H bv ov) (hku : OkE H bu ou) (h16 : 16 < H.blocks.size)
    (d : Nat) (cfi : Nat) (cf : Func) (cregs cparams : Array RVal) (cblk : Nat) (crest : List Instr) (cdest : Option Nat) (frs : List Frame) :
    steps prog 1606 ⟨H, ⟨65, f65, #[], #[[.ptr bv ov], [.ptr bu ou]], 0, body65, some d⟩ :: ⟨cfi, cf, cregs, cparams, cblk, crest, cdest⟩ :: frs⟩
      = some ⟨pushB H (extEqual (getE H bv ov) (getE H bu ou)),
          ⟨cfi, cf, regSet cregs d [.int (Formulas.field_Element_Equal (getE H bv ov) (getE H bu ou))], cparams, cblk, crest, cdest⟩ :: frs⟩ := by
  rw [equal_eq]
  simp only [body65]
  ssa_execB [resultTys_65, ↓stepsA_BytesL, hkv, hku, h16, okE_pushB, getE_pushB, pushB_pushB, pushB_size, extBytes_length, lt16_add,
    add4_0, read_pushB', extBytes_eq, extEqual_eq, readBlk_bytesV, cmpK_some, bytesV_data]

derive_rules callA_Equal runA_Equal stepsA_Equal

set_option maxHeartbeats 16000000 in
theorem coreA_Equal (H : Heap) (bv ov bu ou : Nat) (hkv : OkE H bv ov) (hku : OkE H bu ou) (h16 : 16 < H.blocks.size) :
    run prog 1606 ⟨H, [⟨65, f65, #[], #[[.ptr bv ov], [.ptr bu ou]], 0, body65, none⟩]⟩
      = .done ⟨pushB H (extEqual (getE H bv ov) (getE H bu ou)), []⟩
          [[.int (Formulas.field_Element_Equal (getE H bv ov) (getE H bu ou))]] := by
  rw [equal_eq]
  simp only [body65]
  ssa_execB [resultTys_65, ↓runA_BytesL, hkv, hku, h16, okE_pushB, getE_pushB, pushB_pushB, pushB_size, extBytes_length, lt16_add,
    add4_0, read_pushB', extBytes_eq, extEqual_eq, readBlk_bytesV, cmpK_some, bytesV_data]

/-- **tie**: `v.Equal(u)` on any heap in which blocks `bv`, `bu` hold the limbs of `v`, `u` (`bv = bu` allowed; the block of the
    package variable `binary.LittleEndian` exists): the run terminates and returns T5's `Formulas.field_Element_Equal v u`
    (= `Fe.equal v u`); no block of the heap changes (the heap grows by the locals of the run) -/
theorem tie_Equal (h : Heap) (bv bu : Nat) (v u : Fe) (hv : h.blocks[bv]? = some (feCells v)) (hu : h.blocks[bu]? = some (feCells u))
    (h16 : 16 < h.blocks.size) :
    ∃ h', runCall prog 1606 h (nm! "(*field.Element).Equal") [[.ptr bv 0], [.ptr bu 0]]
            = some (.done ⟨h', []⟩ [[.int (Formulas.field_Element_Equal v u)]])
      ∧ Post0 h h' := by
  have core := coreA_Equal h bv 0 bu 0 (okE_of_feCells hv) (okE_of_feCells hu) h16
  rw [getE_of_feCells hv, getE_of_feCells hu] at core
  refine ⟨pushB h (extEqual v u), ?_, post0_pushB h _⟩
  simp only [runCall, funcIdx_65, callState, funcs_65, mkFrame_65, Option.bind_some, Option.map_some, Option.pure_def,
    Option.bind_eq_bind]
  rw [core]

end EdVerif.Ssa.Tie
