import EdVerif.Ssa.Tie.Bytes
/-!
# `(*field.Element).SetWideBytes`
-/
namespace EdVerif.Ssa.Tie
open EdVerif.Ssa EdVerif.Gen.Ssa EdVerif.Prims
set_option maxRecDepth 100000

theorem step_indexAddr (p : Program) (hp : Heap) (fi : Nat) (f : Func) (regs params : Array RVal) (blk : Nat) (rest : List Instr)
    (dest : Option Nat) (frs : List Frame) (id : Nat) (k : VK) (ln ty : Nat) (tys : List Nat) (xk : VK) (x ix : Opnd) :
    step p ⟨hp, ⟨fi, f, regs, params, blk, ⟨id, k, ln, .indexAddr xk x ix, ty, tys⟩ :: rest, dest⟩ :: frs⟩
      = stepIndexAddr p hp ⟨fi, f, regs, params, blk, rest, dest⟩ frs ⟨id, k, ln, .indexAddr xk x ix, ty, tys⟩ x ix := rfl

theorem checkIndex_lit (n len : Nat) (h1 : n < len) (h2 : n < 9223372036854775808) : checkIndex 64 true n len = some n := by
  have h : ¬ ((n : Int) < 0) := by omega
  have : n < 2 ^ (64 - 1) := by omega
  simp [checkIndex, asInt, toInt, this, h, h1]

theorem tyOf_49 : prog.tyOf 49 = .struct [19, 32] := rfl
theorem span49_0 : prog.fieldSpan [19, 32] 0 = some (0, 1) := rfl
theorem span49_1 : prog.fieldSpan [19, 32] 1 = some (1, 1) := rfl
theorem zeros_15 : prog.zeros 15 = some [.int 0] := rfl


/-- the 64 bytes `x 0 … x 63` as a T1 byte string -/
def bytes64 (x : Nat → Nat) : Bytes := Array.ofFn (n := 64) fun i => x i.1

theorem bytes64_size (x : Nat → Nat) : (bytes64 x).size = 64 := by simp [bytes64]

theorem bytes64_get (x : Nat → Nat) (i : Nat) (h : i < 64) : (bytes64 x)[i]! = x i := by
  rw [getElem!_pos (bytes64 x) i (by rw [bytes64_size]; exact h)]
  simp [bytes64]

theorem bytes64_slice_get (x : Nat → Nat) (s e i : Nat) (h : s + i < 64) (h2 : s + i < e) (h3 : e ≤ 64) :
    (Bin.slice (bytes64 x) s e)[i]! = x (s + i) := by
  have hs : i < (Bin.slice (bytes64 x) s e).size := by
    simp only [Bin.slice, Array.size_extract, bytes64_size]; omega
  rw [getElem!_pos _ i hs]
  simp only [Bin.slice, Array.getElem_extract]
  have := bytes64_get x (s + i) h
  rw [getElem!_pos (bytes64 x) (s + i) (by rw [bytes64_size]; exact h)] at this
  exact this

theorem le_bridge (b0 b1 b2 b3 b4 b5 b6 b7 : Nat) :
    b0 + 256 * (b1 + 256 * (b2 + 256 * (b3 + 256 * (b4 + 256 * (b5 + 256 * (b6 + 256 * (b7 + 0)))))))
      = b0 + b1 * 2 ^ 8 + b2 * 2 ^ 16 + b3 * 2 ^ 24 + b4 * 2 ^ 32 + b5 * 2 ^ 40 + b6 * 2 ^ 48 + b7 * 2 ^ 56 := by omega

theorem shr8_eq (a k : Nat) : U.shr 8 a k = U.shr 64 a k := by rw [U.shr, U.shr]

def body76 : List Instr := body% f76
def blk76_2 : List Instr := block% f76 2
theorem funcs_76 : prog.funcs[76]? = some f76 := rfl
theorem mkFrame_76 (args : List RVal) (dest : Option Nat) :
    mkFrame 76 f76 args dest = some ⟨76, f76, #[], args.toArray, 0, body76, dest⟩ := rfl
theorem resultTys_76 : f76.resultTys = [19, 32] := rfl
theorem funcIdx_76 : prog.funcIdx? (nm! "(*field.Element).SetWideBytes") = some 76 := by decide +kernel
theorem jumpTo_76_2 (regs params : Array RVal) (rest : List Instr) (dest : Option Nat) :
    jumpTo prog ⟨76, f76, regs, params, 0, rest, dest⟩ 2 = some ⟨76, f76, regs, params, 2, blk76_2, dest⟩ := rfl

/-- the 64 cells of the input block -/
def cells64 (x : Nat → Nat) : Array Val := #[.int (x 0), .int (x 1), .int (x 2), .int (x 3), .int (x 4), .int (x 5), .int (x 6), .int (x 7), .int (x 8), .int (x 9), .int (x 10), .int (x 11), .int (x 12), .int (x 13), .int (x 14), .int (x 15), .int (x 16), .int (x 17), .int (x 18), .int (x 19), .int (x 20), .int (x 21), .int (x 22), .int (x 23), .int (x 24), .int (x 25), .int (x 26), .int (x 27), .int (x 28), .int (x 29), .int (x 30), .int (x 31), .int (x 32), .int (x 33), .int (x 34), .int (x 35), .int (x 36), .int (x 37), .int (x 38), .int (x 39), .int (x 40), .int (x 41), .int (x 42), .int (x 43), .int (x 44), .int (x 45), .int (x 46), .int (x 47), .int (x 48), .int (x 49), .int (x 50), .int (x 51), .int (x 52), .int (x 53), .int (x 54), .int (x 55), .int (x 56), .int (x 57), .int (x 58), .int (x 59), .int (x 60), .int (x 61), .int (x 62), .int (x 63)]

set_option maxHeartbeats 64000000 in
theorem core_SetWideBytes (h0 : Heap) (ovr) (bv bx : Nat) (v0 v1 v2 v3 v4 : Nat) (x : Nat → Nat)
    (hbv : bv < h0.blocks.size) (hbx : bx < h0.blocks.size) (h16 : 16 < h0.blocks.size) (hvx : bv ≠ bx)
    (h31 : x 31 < 2 ^ 64) (h63 : x 63 < 2 ^ 64) :
    ∃ ext, run prog 243 ⟨mkH h0 ((bv, #[.int v0, .int v1, .int v2, .int v3, .int v4]) :: (bx, cells64 x) :: ovr) [],
        [⟨76, f76, #[], #[[.ptr bv 0], [.slice bx 0 64 64]], 0, body76, none⟩]⟩
      = .done ⟨mkH h0 ((bv, feCells (EdVerif.Gen.Field.SetWideBytes ⟨v0, v1, v2, v3, v4⟩ (bytes64 x))) :: (bx, cells64 x) :: ovr) ext, []⟩
          [[.ptr bv 0], [.nil]] := by
  apply Exists.intro
  simp only [body76, cells64]
  ssa_exec [resultTys_76, resultTys_75, step_if, step_slice, step_indexAddr, stepIndexAddr, checkIndex_lit, ifK, jumpTo_75_2, blk75_2, jumpTo_76_2, blk76_2,
    body75, funcs_75, mkFrame_75, tyOf_49, span49_0, span49_1, zeros_15,
    builtin_len, extern_leUint64, leK_some, stepSlice,
    tyOf_16, size_15, zeros_12, cls0, evalBound_cint, evalBound_none, read_zero, evalOpnd_nil_iface, bytesToNat,
    bne_self_eq_false, Option.isSome_some, Option.isSome_none, Nat.reduceLeDiff, decide_true, decide_false, Bool.and_true, Bool.true_and,
    Bool.and_self, Nat.zero_le, Nat.le_refl, and_eq, shr_eq, add_eq, mul_eq,
    funcs_83, mkFrame_83, ↓run_carryPropagate,
    read_hit, read_miss, write_hit, hbv, hbx, h16, hvx, hvx.symm, ne_eq, not_false_eq_true]
  have w31 : wrap 64 (U.shr 64 (x 31) 7) = U.shr 64 (x 31) 7 := by
    rw [U.shr]; apply wrap64_of_lt; exact Nat.lt_of_le_of_lt (Nat.shiftRight_le _ _) h31
  have w63 : wrap 64 (U.shr 64 (x 63) 7) = U.shr 64 (x 63) 7 := by
    rw [U.shr]; apply wrap64_of_lt; exact Nat.lt_of_le_of_lt (Nat.shiftRight_le _ _) h63
  rw [w31, w63]
  simp only [le_bridge]
  simp only [feCells, EdVerif.Gen.Field.SetWideBytes, EdVerif.Gen.Field.SetBytes, Bin.le64, shr8_eq, bytes64_size]
  simp only [Nat.reduceAdd, Nat.reduceLT, Nat.reduceLeDiff, Nat.le_refl, bytes64_slice_get, bytes64_get, cp]
  rfl


/-- **tie**: `v.SetWideBytes(x)` for a 64-byte slice `x` = the whole of block `bx` (offset 0, length and capacity 64) holding the
    bytes `x 0 … x 63` (`cells64 x`); block 16 (the package variable `binary.LittleEndian`) must exist.  Returns `(v, nil)`; block `bv`
    then holds the limbs of T1's `SetWideBytes v (bytes64 x)`; no other block of `h` changes (two temporaries are allocated).
    Only the two bytes whose top bit is extracted need a bound (`< 2^64`; they are `< 256` in Go). -/
theorem tie_SetWideBytes (h : Heap) (bv bx : Nat) (v : Fe) (x : Nat → Nat)
    (hv : h.blocks[bv]? = some (feCells v)) (hx : h.blocks[bx]? = some (cells64 x)) (h16 : 16 < h.blocks.size)
    (h31 : x 31 < 2 ^ 64) (h63 : x 63 < 2 ^ 64) :
    ∃ h', runCall prog 243 h (nm! "(*field.Element).SetWideBytes") [[.ptr bv 0], [.slice bx 0 64 64]]
            = some (.done ⟨h', []⟩ [[.ptr bv 0], [.nil]])
      ∧ Post1 h h' bv (feCells (EdVerif.Gen.Field.SetWideBytes v (bytes64 x))) := by
  obtain ⟨v0, v1, v2, v3, v4⟩ := v
  have hvx : bv ≠ bx := ne_of_cells hv hx (by
    intro e
    have := congrArg Array.size e
    simp [feCells, cells64] at this)
  obtain ⟨ext, core⟩ := core_SetWideBytes h [] bv bx v0 v1 v2 v3 v4 x (lt_of_get hv) (lt_of_get hx) h16 hvx h31 h63
  have hall : ∀ kv ∈ [(bx, cells64 x)], h.blocks[kv.1]? = some kv.2 := by simp [hx]
  rw [show mkH h [(bv, #[.int v0, .int v1, .int v2, .int v3, .int v4]), (bx, cells64 x)] [] = h from
      mkH_intro h _ (by simpa [feCells] using ⟨hv, hx⟩)] at core
  refine ⟨_, ?_, post1_mkH _ ext (lt_of_get hv) hall⟩
  simp only [runCall, funcIdx_76, callState, funcs_76, mkFrame_76, Option.bind_some, Option.map_some, Option.pure_def,
    Option.bind_eq_bind]
  rw [core]

end EdVerif.Ssa.Tie
