import EdVerif.Ssa.Tie.Heap
/-!
# Element-granular symbolic heaps

The point layer addresses `field.Element`s *inside* larger blocks (`Point` = 4 elements = 20 cells, …), so the canonical
heap of `Heap.lean` (whole blocks overridden) is refined: `mkE h0 ovr ext` is the arbitrary heap `h0` in which the cell
ranges listed in `ovr` (`(block, offset, cells)`, the head of the list applied last) are overwritten, followed by the freshly
allocated blocks `ext`.  All statements about it are derived from a cell-level characterisation (`cell`, `blkSize`).
-/
namespace EdVerif.Ssa.Tie
open EdVerif.Ssa

/-! ## cells -/

def cell (hp : Heap) (b i : Nat) : Option Val := (hp.blocks[b]?).bind (fun V => V[i]?)

def blkSize (hp : Heap) (b : Nat) : Nat := ((hp.blocks[b]?).map Array.size).getD 0

theorem cell_eq_none_of_size {hp : Heap} {b i : Nat} (h : blkSize hp b ≤ i) : cell hp b i = none := by
  simp only [cell, blkSize] at *
  cases hb : hp.blocks[b]? with
  | none => rfl
  | some V =>
    simp only [hb, Option.map_some, Option.getD_some] at h
    simp [Array.getElem?_eq_none h]

theorem cell_isSome_of_lt {hp : Heap} {b i : Nat} (h : i < blkSize hp b) : ∃ v, cell hp b i = some v := by
  simp only [cell, blkSize] at *
  cases hb : hp.blocks[b]? with
  | none => simp [hb] at h
  | some V =>
    simp only [hb, Option.map_some, Option.getD_some] at h
    exact ⟨V[i], by simp [h]⟩

theorem Heap.ext_cell {h1 h2 : Heap} (hs : h1.blocks.size = h2.blocks.size)
    (hb : ∀ b, blkSize h1 b = blkSize h2 b) (hc : ∀ b i, cell h1 b i = cell h2 b i) : h1 = h2 := by
  obtain ⟨B1⟩ := h1
  obtain ⟨B2⟩ := h2
  congr 1
  apply Array.ext_getElem?
  intro b
  by_cases hlt : b < B1.size
  · have hlt2 : b < B2.size := by simpa [← hs] using hlt
    have e1 : B1[b]? = some B1[b] := by simp [hlt]
    have e2 : B2[b]? = some B2[b] := by simp [hlt2]
    rw [e1, e2]
    congr 1
    apply Array.ext_getElem?
    intro i
    have := hc b i
    simpa [cell, e1, e2] using this
  · have hlt2 : ¬ b < B2.size := by simpa [← hs] using hlt
    rw [Array.getElem?_eq_none (by omega), Array.getElem?_eq_none (by omega)]

/-! ## overlay of a block -/

/-- `V` with the cells `W` written from offset `o` on (cells beyond the end are dropped) -/
def ovl (V : Array Val) : Nat → List Val → Array Val
  | _, [] => V
  | o, w :: ws => ovl (V.setIfInBounds o w) (o + 1) ws

@[simp] theorem ovl_size (V : Array Val) (o : Nat) (W : List Val) : (ovl V o W).size = V.size := by
  induction W generalizing V o with
  | nil => rfl
  | cons w ws ih => simp [ovl, ih]

theorem ovl_get (V : Array Val) (o : Nat) (W : List Val) (i : Nat) :
    (ovl V o W)[i]? = if o ≤ i ∧ i < o + W.length ∧ i < V.size then W[i - o]? else V[i]? := by
  induction W generalizing V o with
  | nil =>
    have : ¬ (o ≤ i ∧ i < o + ([] : List Val).length ∧ i < V.size) := by simp; omega
    simp only [ovl, this, if_false]
  | cons w ws ih =>
    simp only [ovl]
    rw [ih]
    simp only [Array.size_setIfInBounds, Array.getElem?_setIfInBounds, List.length_cons]
    by_cases h1 : o = i
    · subst h1
      by_cases h2 : o < V.size
      · have c0 : ¬ o + 1 ≤ o := by omega
        simp [c0, h2]
      · have c0 : ¬ o + 1 ≤ o := by omega
        simp [c0, h2]
    · by_cases c : o + 1 ≤ i ∧ i < o + 1 + ws.length ∧ i < V.size
      · have c2 : (o ≤ i ∧ i < o + (ws.length + 1) ∧ i < V.size) := by omega
        have e : i - o = (i - (o + 1)) + 1 := by omega
        simp only [c, c2, and_self, if_true]
        rw [e, List.getElem?_cons_succ]
      · have c2 : ¬ (o ≤ i ∧ i < o + (ws.length + 1) ∧ i < V.size) := by omega
        simp [c, c2, h1]

/-! ## overlay of a heap -/

/-- the heap `hp` with the cells `W` written at `(b, o)` -/
def ovE (b o : Nat) (W : List Val) (hp : Heap) : Heap := ⟨hp.blocks.modify b (fun V => ovl V o W)⟩

@[simp] theorem ovE_size (b o W hp) : (ovE b o W hp).blocks.size = hp.blocks.size := by simp [ovE]

@[simp] theorem ovE_blkSize (b o W hp c) : blkSize (ovE b o W hp) c = blkSize hp c := by
  simp only [blkSize, ovE, Array.getElem?_modify]
  by_cases e : b = c
  · subst e; cases hp.blocks[b]? <;> simp
  · simp [e]

theorem ovE_cell (b o : Nat) (W : List Val) (hp : Heap) (c i : Nat) :
    cell (ovE b o W hp) c i
      = if c = b ∧ o ≤ i ∧ i < o + W.length ∧ i < blkSize hp c then W[i - o]? else cell hp c i := by
  simp only [cell, ovE, Array.getElem?_modify, blkSize]
  by_cases e : b = c
  · subst e
    simp only [if_true, true_and]
    cases hp.blocks[b]? with
    | none => simp
    | some V => simp [ovl_get]
  · have e' : ¬ c = b := fun h => e h.symm
    simp [e, e']

/-! ## the canonical heap -/

abbrev Ent := Nat × Nat × List Val

def baseE (h0 : Heap) : List Ent → Heap
  | [] => h0
  | e :: r => ovE e.1 e.2.1 e.2.2 (baseE h0 r)

def mkE (h0 : Heap) (ovr : List Ent) (ext : List (Array Val)) : Heap := ⟨(baseE h0 ovr).blocks ++ ext.toArray⟩

@[simp] theorem baseE_size (h0 : Heap) : ∀ ovr, (baseE h0 ovr).blocks.size = h0.blocks.size
  | [] => rfl
  | e :: r => by simp [baseE, baseE_size h0 r]

@[simp] theorem baseE_blkSize (h0 : Heap) (c : Nat) : ∀ ovr, blkSize (baseE h0 ovr) c = blkSize h0 c
  | [] => rfl
  | e :: r => by simp [baseE, baseE_blkSize h0 c r]

theorem mkE_size (h0 : Heap) (ovr ext) : (mkE h0 ovr ext).blocks.size = h0.blocks.size + ext.length := by
  simp [mkE]

/-- the range `[o, o+n)` lies inside block `b` of `h0` -/
def Fits (h0 : Heap) (b o n : Nat) : Prop := b < h0.blocks.size ∧ o + n ≤ blkSize h0 b

/-- two element slots are disjoint -/
def SepE (b o c o' : Nat) : Prop := c ≠ b ∨ o + 5 ≤ o' ∨ o' + 5 ≤ o

theorem SepE.symm {b o c o' : Nat} (h : SepE b o c o') : SepE c o' b o := by
  unfold SepE at *; omega

theorem mkE_blkSize_lt (h0 : Heap) (ovr ext) (c : Nat) (hc : c < h0.blocks.size) :
    blkSize (mkE h0 ovr ext) c = blkSize h0 c := by
  simp only [blkSize, mkE]
  rw [Array.getElem?_append_left (by simpa using hc)]
  exact baseE_blkSize h0 c ovr

theorem mkE_cell_lt (h0 : Heap) (ovr ext) (c i : Nat) (hc : c < h0.blocks.size) :
    cell (mkE h0 ovr ext) c i = cell (baseE h0 ovr) c i := by
  simp only [cell, mkE]
  rw [Array.getElem?_append_left (by simpa using hc)]

theorem mkE_get_ext (h0 : Heap) (ovr ext) (k : Nat) : (mkE h0 ovr ext).blocks[h0.blocks.size + k]? = ext[k]? := by
  simp only [mkE]
  rw [Array.getElem?_append_right (by simp)]
  simp

theorem mkE_cell_ge (h0 : Heap) (ovr ext) (c i : Nat) (hc : h0.blocks.size ≤ c) :
    cell (mkE h0 ovr ext) c i = (ext[c - h0.blocks.size]?).bind (fun V => V[i]?) := by
  obtain ⟨k, rfl⟩ : ∃ k, c = h0.blocks.size + k := ⟨c - h0.blocks.size, by omega⟩
  simp only [cell, mkE_get_ext]
  simp

theorem mkE_blkSize_ge (h0 : Heap) (ovr ext) (c : Nat) (hc : h0.blocks.size ≤ c) :
    blkSize (mkE h0 ovr ext) c = ((ext[c - h0.blocks.size]?).map Array.size).getD 0 := by
  obtain ⟨k, rfl⟩ : ∃ k, c = h0.blocks.size + k := ⟨c - h0.blocks.size, by omega⟩
  simp only [blkSize, mkE_get_ext]
  simp

/-- cell of the head entry -/
theorem mkE_cell_hit (h0 : Heap) (b o : Nat) (W : List Val) (ovr ext) (k : Nat) (hf : Fits h0 b o W.length) (hk : k < W.length) :
    cell (mkE h0 ((b, o, W) :: ovr) ext) b (o + k) = W[k]? := by
  rw [mkE_cell_lt _ _ _ _ _ hf.1]
  simp only [baseE, ovE_cell, baseE_blkSize]
  have : (b = b ∧ o ≤ o + k ∧ o + k < o + W.length ∧ o + k < blkSize h0 b) := ⟨rfl, by omega, by omega, by have := hf.2; omega⟩
  simp only [this, and_self, if_true]
  congr 1; omega

/-- cell outside the head entry -/
theorem mkE_cell_miss (h0 : Heap) (b o : Nat) (W : List Val) (ovr ext) (c i : Nat) (h : c ≠ b ∨ i < o ∨ o + W.length ≤ i) :
    cell (mkE h0 ((b, o, W) :: ovr) ext) c i = cell (mkE h0 ovr ext) c i := by
  by_cases hc : c < h0.blocks.size
  · rw [mkE_cell_lt _ _ _ _ _ hc, mkE_cell_lt _ _ _ _ _ hc]
    simp only [baseE, ovE_cell]
    have : ¬ (c = b ∧ o ≤ i ∧ i < o + W.length ∧ i < blkSize (baseE h0 ovr) c) := by omega
    simp only [this, if_false]
  · rw [mkE_cell_ge _ _ _ _ _ (by omega), mkE_cell_ge _ _ _ _ _ (by omega)]

theorem mkE_blkSize_cons (h0 : Heap) (e : Ent) (ovr ext) (c : Nat) :
    blkSize (mkE h0 (e :: ovr) ext) c = blkSize (mkE h0 ovr ext) c := by
  by_cases hc : c < h0.blocks.size
  · rw [mkE_blkSize_lt _ _ _ _ hc, mkE_blkSize_lt _ _ _ _ hc]
  · rw [mkE_blkSize_ge _ _ _ _ (by omega), mkE_blkSize_ge _ _ _ _ (by omega)]

/-! ## `read` -/

theorem read_cell1 (hp : Heap) (b o : Nat) : hp.read b o 1 = (cell hp b o).map (fun v => [v]) := by
  simp only [Heap.read, cell]
  cases hp.blocks[b]? with
  | none => rfl
  | some V =>
    simp only [Option.bind_some, readCells, Option.bind_eq_bind, Option.pure_def]
    cases V[o]? <;> rfl

theorem read_cell5 (hp : Heap) (b o : Nat) :
    hp.read b o 5 = (cell hp b o).bind fun v0 => (cell hp b (o + 1)).bind fun v1 => (cell hp b (o + 1 + 1)).bind fun v2 =>
      (cell hp b (o + 1 + 1 + 1)).bind fun v3 => (cell hp b (o + 1 + 1 + 1 + 1)).bind fun v4 => some [v0, v1, v2, v3, v4] := by
  simp only [Heap.read, cell]
  cases hp.blocks[b]? with
  | none => rfl
  | some V =>
    simp only [Option.bind_some, readCells, Option.bind_eq_bind, Option.pure_def]
    cases V[o]? <;> try rfl
    cases V[o + 1]? <;> try rfl
    cases V[o + 1 + 1]? <;> try rfl
    cases V[o + 1 + 1 + 1]? <;> try rfl
    cases V[o + 1 + 1 + 1 + 1]? <;> rfl

section five
variable (h0 : Heap) (b o : Nat) (w0 w1 w2 w3 w4 : Val) (ovr : List Ent) (ext : List (Array Val))

theorem readE_hit_0 (hf : Fits h0 b o 5) : (mkE h0 ((b, o, [w0, w1, w2, w3, w4]) :: ovr) ext).read b (o + 0) 1 = some [w0] := by
  rw [read_cell1, mkE_cell_hit _ _ _ _ _ _ 0 hf (by simp)]; rfl
theorem readE_hit_1 (hf : Fits h0 b o 5) : (mkE h0 ((b, o, [w0, w1, w2, w3, w4]) :: ovr) ext).read b (o + 1) 1 = some [w1] := by
  rw [read_cell1, mkE_cell_hit _ _ _ _ _ _ 1 hf (by simp)]; rfl
theorem readE_hit_2 (hf : Fits h0 b o 5) : (mkE h0 ((b, o, [w0, w1, w2, w3, w4]) :: ovr) ext).read b (o + 2) 1 = some [w2] := by
  rw [read_cell1, mkE_cell_hit _ _ _ _ _ _ 2 hf (by simp)]; rfl
theorem readE_hit_3 (hf : Fits h0 b o 5) : (mkE h0 ((b, o, [w0, w1, w2, w3, w4]) :: ovr) ext).read b (o + 3) 1 = some [w3] := by
  rw [read_cell1, mkE_cell_hit _ _ _ _ _ _ 3 hf (by simp)]; rfl
theorem readE_hit_4 (hf : Fits h0 b o 5) : (mkE h0 ((b, o, [w0, w1, w2, w3, w4]) :: ovr) ext).read b (o + 4) 1 = some [w4] := by
  rw [read_cell1, mkE_cell_hit _ _ _ _ _ _ 4 hf (by simp)]; rfl

/-- a whole element of the head entry -/
theorem readE_hit5 (hf : Fits h0 b o 5) :
    (mkE h0 ((b, o, [w0, w1, w2, w3, w4]) :: ovr) ext).read b o 5 = some [w0, w1, w2, w3, w4] := by
  rw [read_cell5]
  have e0 := mkE_cell_hit h0 b o [w0, w1, w2, w3, w4] ovr ext 0 hf (by simp)
  have e1 := mkE_cell_hit h0 b o [w0, w1, w2, w3, w4] ovr ext 1 hf (by simp)
  have e2 := mkE_cell_hit h0 b o [w0, w1, w2, w3, w4] ovr ext 2 hf (by simp)
  have e3 := mkE_cell_hit h0 b o [w0, w1, w2, w3, w4] ovr ext 3 hf (by simp)
  have e4 := mkE_cell_hit h0 b o [w0, w1, w2, w3, w4] ovr ext 4 hf (by simp)
  simp only [Nat.add_zero] at e0
  rw [e0, e1, show o + 1 + 1 = o + 2 from rfl, e2, show o + 2 + 1 = o + 3 from rfl, e3, show o + 3 + 1 = o + 4 from rfl, e4]
  rfl

/-- one cell of another element slot -/
theorem readE_miss (c o' k : Nat) (hs : SepE b o c o') (hk : k < 5) :
    (mkE h0 ((b, o, [w0, w1, w2, w3, w4]) :: ovr) ext).read c (o' + k) 1 = (mkE h0 ovr ext).read c (o' + k) 1 := by
  rw [read_cell1, read_cell1, mkE_cell_miss]
  simp only [List.length_cons, List.length_nil]
  unfold SepE at hs; omega

/-- a whole other element slot -/
theorem readE_miss5 (c o' : Nat) (hs : SepE b o c o') :
    (mkE h0 ((b, o, [w0, w1, w2, w3, w4]) :: ovr) ext).read c o' 5 = (mkE h0 ovr ext).read c o' 5 := by
  have hm : ∀ k, k < 5 → cell (mkE h0 ((b, o, [w0, w1, w2, w3, w4]) :: ovr) ext) c (o' + k) = cell (mkE h0 ovr ext) c (o' + k) := by
    intro k hk
    apply mkE_cell_miss
    simp only [List.length_cons, List.length_nil]
    unfold SepE at hs; omega
  rw [read_cell5, read_cell5]
  have e0 := hm 0 (by omega)
  simp only [Nat.add_zero] at e0
  rw [e0, hm 1 (by omega), show o' + 1 + 1 = o' + 2 from rfl, hm 2 (by omega), show o' + 2 + 1 = o' + 3 from rfl, hm 3 (by omega),
    show o' + 3 + 1 = o' + 4 from rfl, hm 4 (by omega)]

/-- a cell of a block that is not the head entry's -/
theorem readE_miss_blk (c x n : Nat) (W : List Val) (hne : c ≠ b) :
    (mkE h0 ((b, o, W) :: ovr) ext).read c x n = (mkE h0 ovr ext).read c x n := by
  simp only [Heap.read]
  congr 1
  by_cases hc : c < h0.blocks.size
  · simp only [mkE]
    rw [Array.getElem?_append_left (by simpa using hc), Array.getElem?_append_left (by simpa using hc)]
    simp [baseE, ovE, Array.getElem?_modify, Ne.symm hne]
  · simp only [mkE]
    rw [Array.getElem?_append_right (by simp; omega), Array.getElem?_append_right (by simp; omega)]
    simp

end five

theorem readE_ext (h0 : Heap) (ovr ext) (k o n : Nat) :
    (mkE h0 ovr ext).read (h0.blocks.size + k) o n = (ext[k]?).bind (fun blk => readCells blk o n) := by
  simp only [Heap.read, mkE_get_ext]
  cases ext[k]? <;> rfl

/-! ## `write` -/

theorem writeCells_eq_ovl : ∀ (vs : List Val) (blk : Array Val) (off : Nat),
    (∀ j (hj : j < vs.length), ∃ old, blk[off + j]? = some old ∧ old.cls = (vs[j]).cls) → writeCells blk off vs = some (ovl blk off vs)
  | [], _, _, _ => rfl
  | v :: vs, blk, off, h => by
    obtain ⟨old, ho, hcls⟩ := h 0 (by simp)
    simp only [Nat.add_zero, List.getElem_cons_zero] at ho hcls
    simp only [writeCells, ho, hcls, if_true, ovl]
    apply writeCells_eq_ovl
    intro j hj
    obtain ⟨old', ho', hcls'⟩ := h (j + 1) (by simp; omega)
    refine ⟨old', ?_, by simpa using hcls'⟩
    rw [Array.getElem?_setIfInBounds]
    have : off ≠ off + 1 + j := by omega
    simp only [this, if_false]
    rw [← ho']; congr 1; omega

theorem write_eq_ovE (hp : Heap) (b o : Nat) (vs : List Val)
    (h : ∀ j (hj : j < vs.length), ∃ old, cell hp b (o + j) = some old ∧ old.cls = (vs[j]).cls) (hne : vs ≠ []) :
    hp.write b o vs = some (ovE b o vs hp) := by
  have hlen : 0 < vs.length := List.length_pos_iff.mpr hne
  obtain ⟨old0, h0, _⟩ := h 0 hlen
  simp only [cell] at h0
  cases hb : hp.blocks[b]? with
  | none => simp [hb] at h0
  | some blk =>
    rw [write_of_get hb, writeCells_eq_ovl]
    · simp only [Option.map_some, ovE]
      congr 2
      apply Array.ext_getElem?
      intro j
      rw [Array.getElem?_setIfInBounds, Array.getElem?_modify]
      by_cases e : b = j
      · subst e
        obtain ⟨hlt, rfl⟩ := Array.getElem?_eq_some_iff.mp hb
        simp [hlt]
      · simp [e]
    · intro j hj
      obtain ⟨old, ho, hc⟩ := h j hj
      simp only [cell, hb, Option.bind_some] at ho
      exact ⟨old, ho, hc⟩
where
  lt_of_get' {b : Nat} {blk : Array Val} (hb : hp.blocks[b]? = some blk) : b < hp.blocks.size := by
    apply Classical.byContradiction; intro hn
    rw [Array.getElem?_eq_none (by omega)] at hb; cases hb

/-! ## algebra of `ovE` -/

theorem ovE_ext {h1 h2 : Heap} (hs : h1.blocks.size = h2.blocks.size) (hb : ∀ b, blkSize h1 b = blkSize h2 b)
    (hc : ∀ b i, i < blkSize h1 b → cell h1 b i = cell h2 b i) : h1 = h2 := by
  apply Heap.ext_cell hs hb
  intro b i
  by_cases hi : i < blkSize h1 b
  · exact hc b i hi
  · rw [cell_eq_none_of_size (by omega), cell_eq_none_of_size (by rw [← hb]; omega)]

/-- writing one cell inside a written range -/
theorem ovE_set (b o : Nat) (W : List Val) (hp : Heap) (k : Nat) (x : Val) (hk : k < W.length) :
    ovE b (o + k) [x] (ovE b o W hp) = ovE b o (W.set k x) hp := by
  apply ovE_ext (by simp) (by simp)
  intro c i hi
  simp only [ovE_blkSize] at hi
  simp only [ovE_cell, ovE_blkSize, List.length_cons, List.length_nil, List.length_set]
  by_cases hA : c = b ∧ i = o + k
  · rw [if_pos (by omega), if_pos (by omega)]
    have e : i - (o + k) = 0 := by omega
    have e' : i - o = k := by omega
    rw [e, e', List.getElem?_set_self hk]; rfl
  · rw [if_neg (by omega)]
    by_cases hB : c = b ∧ o ≤ i ∧ i < o + W.length
    · rw [if_pos (by omega), if_pos (by omega), List.getElem?_set_ne (by omega)]
    · rw [if_neg (by omega), if_neg (by omega)]

/-- overwriting a written range -/
theorem ovE_ovE_same (b o : Nat) (W W' : List Val) (hp : Heap) (hl : W.length = W'.length) :
    ovE b o W (ovE b o W' hp) = ovE b o W hp := by
  apply ovE_ext (by simp) (by simp)
  intro c i hi
  simp only [ovE_blkSize] at hi
  simp only [ovE_cell, ovE_blkSize]
  by_cases h1 : c = b ∧ o ≤ i ∧ i < o + W.length
  · rw [if_pos (by omega), if_pos (by omega)]
  · rw [if_neg (by omega), if_neg (by omega), if_neg (by omega)]

/-- disjoint ranges commute -/
theorem ovE_comm (b o : Nat) (W : List Val) (b' o' : Nat) (W' : List Val) (hp : Heap)
    (h : b ≠ b' ∨ o + W.length ≤ o' ∨ o' + W'.length ≤ o) :
    ovE b o W (ovE b' o' W' hp) = ovE b' o' W' (ovE b o W hp) := by
  apply ovE_ext (by simp) (by simp)
  intro c i hi
  simp only [ovE_blkSize] at hi
  simp only [ovE_cell, ovE_blkSize]
  by_cases h1 : c = b ∧ o ≤ i ∧ i < o + W.length
  · rw [if_pos (by omega), if_neg (by omega), if_pos (by omega)]
  · rw [if_neg (by omega)]
    by_cases h2 : c = b' ∧ o' ≤ i ∧ i < o' + W'.length
    · rw [if_pos (by omega), if_pos (by omega)]
    · rw [if_neg (by omega), if_neg (by omega), if_neg (by omega)]

/-- writing what is there -/
theorem ovE_self (b o : Nat) (W : List Val) (hp : Heap) (h : ∀ k, k < W.length → o + k < blkSize hp b → cell hp b (o + k) = W[k]?) :
    ovE b o W hp = hp := by
  apply ovE_ext (by simp) (by simp)
  intro c i hi
  simp only [ovE_blkSize] at hi
  simp only [ovE_cell]
  by_cases h1 : c = b ∧ o ≤ i ∧ i < o + W.length
  · rw [if_pos (by omega)]
    obtain ⟨rfl, h2, h3⟩ := h1
    have := h (i - o) (by omega) (by rw [show o + (i - o) = i by omega]; exact hi)
    rw [show o + (i - o) = i by omega] at this
    exact this.symm
  · rw [if_neg (by omega)]

/-! ## `mkE` in terms of `ovE` -/

def pushB (hp : Heap) (ext : List (Array Val)) : Heap := ⟨hp.blocks ++ ext.toArray⟩

theorem mkE_eq (h0 : Heap) (ovr ext) : mkE h0 ovr ext = pushB (baseE h0 ovr) ext := rfl

theorem pushB_nil (hp : Heap) : pushB hp [] = hp := by simp [pushB]

theorem pushB_pushB (hp : Heap) (e1 e2) : pushB (pushB hp e1) e2 = pushB hp (e1 ++ e2) := by
  simp [pushB, Array.append_assoc]

@[simp] theorem pushB_size (hp : Heap) (ext) : (pushB hp ext).blocks.size = hp.blocks.size + ext.length := by simp [pushB]

theorem ovE_pushB (b o : Nat) (W : List Val) (hp : Heap) (ext) (hb : b < hp.blocks.size) :
    ovE b o W (pushB hp ext) = pushB (ovE b o W hp) ext := by
  simp only [ovE, pushB]
  congr 1
  apply Array.ext_getElem?
  intro j
  rw [Array.getElem?_modify]
  by_cases hj : j < hp.blocks.size
  · rw [Array.getElem?_append_left hj, Array.getElem?_append_left (by simpa using hj), Array.getElem?_modify]
  · have : b ≠ j := by omega
    rw [Array.getElem?_append_right (by omega), Array.getElem?_append_right (by simp; omega)]
    simp [this]

theorem mkE_cons (h0 : Heap) (b o : Nat) (W : List Val) (ovr ext) (hb : b < h0.blocks.size) :
    mkE h0 ((b, o, W) :: ovr) ext = ovE b o W (mkE h0 ovr ext) := by
  rw [mkE_eq, mkE_eq, ovE_pushB _ _ _ _ _ (by simpa using hb)]
  rfl

theorem mkE_nil (h0 : Heap) : mkE h0 [] [] = h0 := by simp [mkE, baseE]

theorem mkE_mkE (h0 : Heap) (ovr ext ext') : mkE (mkE h0 ovr ext) [] ext' = mkE h0 ovr (ext ++ ext') := by
  simp [mkE, baseE, Array.append_assoc]

theorem alloc_mkE (h0 : Heap) (ovr ext) (vs : List Val) :
    (mkE h0 ovr ext).alloc vs = (mkE h0 ovr (ext ++ [vs.toArray]), h0.blocks.size + ext.length) := by
  simp only [Heap.alloc, mkE]
  rw [← Array.append_push, List.push_toArray]
  simp

theorem writeE_ext (h0 : Heap) (ovr ext) (k o : Nat) (vs : List Val) :
    (mkE h0 ovr ext).write (h0.blocks.size + k) o vs
      = (ext[k]?).bind (fun blk => (writeCells blk o vs).map (fun blk' => mkE h0 ovr (ext.set k blk'))) := by
  cases hk : ext[k]? with
  | none =>
    simp only [Heap.write, mkE_get_ext, hk]; rfl
  | some blk =>
    rw [write_of_get (by rw [mkE_get_ext]; exact hk)]
    simp only [Option.bind_some]
    congr 1
    funext blk'
    simp only [mkE]
    rw [Array.setIfInBounds_append_right (by simp)]
    simp

/-! ### writes into entries -/

section five
variable (h0 : Heap) (b o : Nat) (w0 w1 w2 w3 w4 : Nat) (ovr : List Ent) (ext : List (Array Val))

theorem write1_mkE (W : List Val) (k x : Nat) (w : Nat) (hf : Fits h0 b o W.length) (hk : k < W.length) (hw : W[k]? = some (.int w)) :
    (mkE h0 ((b, o, W) :: ovr) ext).write b (o + k) [.int x] = some (mkE h0 ((b, o, W.set k (.int x)) :: ovr) ext) := by
  rw [write_eq_ovE _ _ _ _ _ (by simp)]
  · rw [mkE_cons _ _ _ _ _ _ hf.1, mkE_cons _ _ _ _ _ _ hf.1, ovE_set _ _ _ _ _ _ hk]
  · intro j hj
    have : j = 0 := by simpa using hj
    subst this
    refine ⟨.int w, ?_, rfl⟩
    rw [Nat.add_zero, mkE_cell_hit _ _ _ _ _ _ k hf hk, hw]

theorem writeE_hit_0 (x : Nat) (hf : Fits h0 b o 5) :
    (mkE h0 ((b, o, [.int w0, .int w1, .int w2, .int w3, .int w4]) :: ovr) ext).write b (o + 0) [.int x]
      = some (mkE h0 ((b, o, [.int x, .int w1, .int w2, .int w3, .int w4]) :: ovr) ext) :=
  write1_mkE h0 b o ovr ext _ 0 x w0 hf (by simp) rfl
theorem writeE_hit_1 (x : Nat) (hf : Fits h0 b o 5) :
    (mkE h0 ((b, o, [.int w0, .int w1, .int w2, .int w3, .int w4]) :: ovr) ext).write b (o + 1) [.int x]
      = some (mkE h0 ((b, o, [.int w0, .int x, .int w2, .int w3, .int w4]) :: ovr) ext) :=
  write1_mkE h0 b o ovr ext _ 1 x w1 hf (by simp) rfl
theorem writeE_hit_2 (x : Nat) (hf : Fits h0 b o 5) :
    (mkE h0 ((b, o, [.int w0, .int w1, .int w2, .int w3, .int w4]) :: ovr) ext).write b (o + 2) [.int x]
      = some (mkE h0 ((b, o, [.int w0, .int w1, .int x, .int w3, .int w4]) :: ovr) ext) :=
  write1_mkE h0 b o ovr ext _ 2 x w2 hf (by simp) rfl
theorem writeE_hit_3 (x : Nat) (hf : Fits h0 b o 5) :
    (mkE h0 ((b, o, [.int w0, .int w1, .int w2, .int w3, .int w4]) :: ovr) ext).write b (o + 3) [.int x]
      = some (mkE h0 ((b, o, [.int w0, .int w1, .int w2, .int x, .int w4]) :: ovr) ext) :=
  write1_mkE h0 b o ovr ext _ 3 x w3 hf (by simp) rfl
theorem writeE_hit_4 (x : Nat) (hf : Fits h0 b o 5) :
    (mkE h0 ((b, o, [.int w0, .int w1, .int w2, .int w3, .int w4]) :: ovr) ext).write b (o + 4) [.int x]
      = some (mkE h0 ((b, o, [.int w0, .int w1, .int w2, .int w3, .int x]) :: ovr) ext) :=
  write1_mkE h0 b o ovr ext _ 4 x w4 hf (by simp) rfl

/-- a whole element onto the head entry -/
theorem writeE_hit5 (x0 x1 x2 x3 x4 : Nat) (hf : Fits h0 b o 5) :
    (mkE h0 ((b, o, [.int w0, .int w1, .int w2, .int w3, .int w4]) :: ovr) ext).write b o [.int x0, .int x1, .int x2, .int x3, .int x4]
      = some (mkE h0 ((b, o, [.int x0, .int x1, .int x2, .int x3, .int x4]) :: ovr) ext) := by
  rw [write_eq_ovE _ _ _ _ _ (by simp)]
  · rw [mkE_cons _ _ _ _ _ _ hf.1, mkE_cons _ _ _ _ _ _ hf.1, ovE_ovE_same _ _ _ _ _ (by simp)]
  · intro j hj
    have hj' : j < 5 := by simpa using hj
    rw [mkE_cell_hit _ _ _ _ _ _ j hf (by simpa using hj')]
    match j, hj' with
    | 0, _ => exact ⟨_, rfl, rfl⟩
    | 1, _ => exact ⟨_, rfl, rfl⟩
    | 2, _ => exact ⟨_, rfl, rfl⟩
    | 3, _ => exact ⟨_, rfl, rfl⟩
    | 4, _ => exact ⟨_, rfl, rfl⟩

end five

/-- swap the first two entries -/
theorem mkE_swap (h0 : Heap) (b o : Nat) (W : List Val) (b' o' : Nat) (W' : List Val) (ovr ext)
    (h : b ≠ b' ∨ o + W.length ≤ o' ∨ o' + W'.length ≤ o) :
    mkE h0 ((b, o, W) :: (b', o', W') :: ovr) ext = mkE h0 ((b', o', W') :: (b, o, W) :: ovr) ext := by
  simp only [mkE, baseE]
  rw [ovE_comm _ _ _ _ _ _ _ h]

theorem SepE.disj5 {b o c o' : Nat} (h : SepE b o c o') : b ≠ c ∨ o + 5 ≤ o' ∨ o' + 5 ≤ o := by
  unfold SepE at h; omega

section five2
variable (h0 : Heap) (b0 o0 : Nat) (u0 u1 u2 u3 u4 : Val) (b o : Nat) (w0 w1 w2 w3 w4 : Nat) (ovr : List Ent) (ext : List (Array Val))

theorem write1_mkE_2 (U W : List Val) (k x w : Nat) (hU : U.length = 5) (hW : W.length = 5) (hs : SepE b0 o0 b o) (hf : Fits h0 b o 5)
    (hk : k < 5) (hw : W[k]? = some (.int w)) :
    (mkE h0 ((b0, o0, U) :: (b, o, W) :: ovr) ext).write b (o + k) [.int x]
      = some (mkE h0 ((b0, o0, U) :: (b, o, W.set k (.int x)) :: ovr) ext) := by
  rw [mkE_swap _ _ _ _ _ _ _ _ _ (by have := hs.disj5; omega), write1_mkE _ _ _ _ _ _ _ _ w (by rw [hW]; exact hf) (by omega) hw,
    mkE_swap _ _ _ _ _ _ _ _ _ (by have := hs.symm.disj5; simp only [List.length_set]; omega)]

/-- one cell of the second entry -/
theorem writeE_hit1_0 (x : Nat) (hs : SepE b0 o0 b o) (hf : Fits h0 b o 5) :
    (mkE h0 ((b0, o0, [u0, u1, u2, u3, u4]) :: (b, o, [.int w0, .int w1, .int w2, .int w3, .int w4]) :: ovr) ext).write b (o + 0) [.int x]
      = some (mkE h0 ((b0, o0, [u0, u1, u2, u3, u4]) :: (b, o, [.int x, .int w1, .int w2, .int w3, .int w4]) :: ovr) ext) :=
  write1_mkE_2 h0 b0 o0 b o ovr ext _ _ 0 x w0 rfl rfl hs hf (by omega) rfl
theorem writeE_hit1_1 (x : Nat) (hs : SepE b0 o0 b o) (hf : Fits h0 b o 5) :
    (mkE h0 ((b0, o0, [u0, u1, u2, u3, u4]) :: (b, o, [.int w0, .int w1, .int w2, .int w3, .int w4]) :: ovr) ext).write b (o + 1) [.int x]
      = some (mkE h0 ((b0, o0, [u0, u1, u2, u3, u4]) :: (b, o, [.int w0, .int x, .int w2, .int w3, .int w4]) :: ovr) ext) :=
  write1_mkE_2 h0 b0 o0 b o ovr ext _ _ 1 x w1 rfl rfl hs hf (by omega) rfl
theorem writeE_hit1_2 (x : Nat) (hs : SepE b0 o0 b o) (hf : Fits h0 b o 5) :
    (mkE h0 ((b0, o0, [u0, u1, u2, u3, u4]) :: (b, o, [.int w0, .int w1, .int w2, .int w3, .int w4]) :: ovr) ext).write b (o + 2) [.int x]
      = some (mkE h0 ((b0, o0, [u0, u1, u2, u3, u4]) :: (b, o, [.int w0, .int w1, .int x, .int w3, .int w4]) :: ovr) ext) :=
  write1_mkE_2 h0 b0 o0 b o ovr ext _ _ 2 x w2 rfl rfl hs hf (by omega) rfl
theorem writeE_hit1_3 (x : Nat) (hs : SepE b0 o0 b o) (hf : Fits h0 b o 5) :
    (mkE h0 ((b0, o0, [u0, u1, u2, u3, u4]) :: (b, o, [.int w0, .int w1, .int w2, .int w3, .int w4]) :: ovr) ext).write b (o + 3) [.int x]
      = some (mkE h0 ((b0, o0, [u0, u1, u2, u3, u4]) :: (b, o, [.int w0, .int w1, .int w2, .int x, .int w4]) :: ovr) ext) :=
  write1_mkE_2 h0 b0 o0 b o ovr ext _ _ 3 x w3 rfl rfl hs hf (by omega) rfl
theorem writeE_hit1_4 (x : Nat) (hs : SepE b0 o0 b o) (hf : Fits h0 b o 5) :
    (mkE h0 ((b0, o0, [u0, u1, u2, u3, u4]) :: (b, o, [.int w0, .int w1, .int w2, .int w3, .int w4]) :: ovr) ext).write b (o + 4) [.int x]
      = some (mkE h0 ((b0, o0, [u0, u1, u2, u3, u4]) :: (b, o, [.int w0, .int w1, .int w2, .int w3, .int x]) :: ovr) ext) :=
  write1_mkE_2 h0 b0 o0 b o ovr ext _ _ 4 x w4 rfl rfl hs hf (by omega) rfl

end five2

/-- every entry restates what `h` holds: the heap is unchanged -/
theorem mkE_intro (h : Heap) : ∀ (ovr : List Ent),
    (∀ e ∈ ovr, ∀ k, k < e.2.2.length → cell h e.1 (e.2.1 + k) = e.2.2[k]?) → mkE h ovr [] = h := by
  intro ovr hall
  have hb : baseE h ovr = h := by
    induction ovr with
    | nil => rfl
    | cons e r ih =>
      simp only [baseE]
      rw [ih (fun x hx => hall x (List.mem_cons_of_mem _ hx))]
      exact ovE_self _ _ _ _ (fun k hk _ => hall e List.mem_cons_self k hk)
  simp [mkE, hb]

end EdVerif.Ssa.Tie
