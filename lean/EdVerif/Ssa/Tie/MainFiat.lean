import EdVerif.Ssa.Tie.FiatFrame
import EdVerif.Ssa.Tie.FiatSmall
import EdVerif.Ssa.Tie.FiatAdd
import EdVerif.Ssa.Tie.FiatSub
import EdVerif.Ssa.Tie.FiatOpp
import EdVerif.Ssa.Tie.FiatBytes
import EdVerif.Ssa.Tie.FiatWrapSet
import EdVerif.Ssa.Tie.FiatEqual
import EdVerif.Ssa.Tie.FiatWrapAdd
import EdVerif.Ssa.Tie.FiatWrapSub
import EdVerif.Ssa.Tie.FiatWrapNeg
import EdVerif.Ssa.Tie.FiatFromMont
import EdVerif.Ssa.Tie.FiatToMont
import EdVerif.Ssa.Tie.FiatMul
import EdVerif.Ssa.Tie.FiatWrapMul
/-!
# `tie_*` for the fiat scalar kernels and the `(*Scalar)` wrappers (`EdVerif/Gen/FiatKernels.lean`, namespace `EdVerif.Gen.Fiat`)

Running the SSA (`EdVerif/Gen/Ssa.lean`) of each function in the semantics of `Sem.lean`, on an ARBITRARY heap, computes exactly
the shallow T1 definition.  Vocabulary as in `Main.lean`: `runCall p fuel h name args`, `Post1 h h' b V'` (`h'` has not shrunk,
block `b` of `h'` is `V'`, every other block of `h` is unchanged), `Post0 h h'` (no block of `h` changed).
`w4Cells v = #[.int v.w0, .int v.w1, .int v.w2, .int v.w3]` (a `[4]uint64` / a `Scalar` is 4 consecutive `u64` cells),
`cells32 x = #[.int (x 0), …, .int (x 31)]` (a `[32]byte`), `bytes32 x : Bytes = #[x 0, …, x 31]`, `bytesCells b = b.map .int`,
`v.lt64` = the four words of `v` are `< 2^64`.

## statements (for all word values; `h` arbitrary)
* `tie_fiatScalarCmovznzU64 (ho : h.blocks[bo]? = some #[.int o]) :
     ∃ h', runCall prog 8 h (nm! "fiatScalarCmovznzU64") [[.ptr bo 0], [.int c], [.int z], [.int nz]] = some (.done ⟨h', []⟩ [])
           ∧ Post1 h h' bo #[.int (fiatScalarCmovznzU64 o c z nz)]`
* `tie_fiatScalarNonzero` (13 steps): `Post1 h h' bo #[.int (fiatScalarNonzero o a)]`
* `tie_K (ho : h.blocks[bo]? = some (w4Cells o)) (ha : h.blocks[ba]? = some (w4Cells a)) (hb : h.blocks[bb]? = some (w4Cells b)) :
     ∃ h', runCall prog k h (nm! "K") [[.ptr bo 0], [.ptr ba 0], [.ptr bb 0]] = some (.done ⟨h', []⟩ [])
           ∧ Post1 h h' bo (w4Cells (K o a b))`
  with NO distinctness hypothesis (the blocks may coincide, then the arguments do), for
  `K` = `fiatScalarAdd` (116 steps), `fiatScalarSub` (78; `b.lt64`), `fiatScalarMul` (482); two-pointer versions for
  `fiatScalarOpp` (70; `a.lt64`), `fiatScalarFromMontgomery` (272), `fiatScalarToMontgomery` (423).
  Each is assembled from one theorem per aliasing pattern: `tie_K_d` (pairwise distinct), `tie_K_oa`, `tie_K_ob`, `tie_K_ab`, `tie_K_oab`;
  per pattern there are also `pre_K_*` (all instructions but the final `Return`, on any stack), `core_K_*` (outermost call on a canonical
  heap `mkH h0 ovr []`) and the call lemma `call_K_*` (the callee's frame on top of any caller), which the wrappers use.
  The `lt64` hypotheses are the contract of `bits.Sub64` (see `FiatExec.lean`): `Sem` and `Prims` agree on the difference only for a
  subtrahend `< 2^64` and a borrow `≤ 1`.
* `tie_fiatScalarFromBytes` (161; bytes `x i < 2^64` for `i < 32`): `Post1 h h' bo (w4Cells (fiatScalarFromBytes o (bytes32 x)))`
* `tie_fiatScalarToBytes` (161): `Post1 h h' bo (bytesCells (fiatScalarToBytes (bytes32 x) a))`
* wrappers (methods of `*Scalar`; result `[[.ptr bs 0]]`, any aliasing): `tie_Scalar_Add` (121), `tie_Scalar_Subtract` (83; `q.lt64`),
  `tie_Scalar_Negate` (74; `p.lt64`), `tie_Scalar_Multiply` (487), `tie_Scalar_Set` (3):
  `Post1 h h' bs (w4Cells (Fiat.Add s p q))` …
* `tie_Scalar_Equal` (133; `t.lt64`; `bs = bt` allowed):
  `runCall prog 133 h (nm! "(*Scalar).Equal") [[.ptr bs 0], [.ptr bt 0]] = some (.done ⟨h', []⟩ [[.int (Fiat.Equal s t)]]) ∧ Post0 h h'`

With these every function of `EdVerif/Gen/FiatKernels.lean` (T1) is tied.
-/

namespace EdVerif.Ssa.Tie
open EdVerif.Ssa EdVerif.Gen.Ssa EdVerif.Prims

#print axioms tie_fiatScalarCmovznzU64
#print axioms tie_fiatScalarNonzero
#print axioms tie_fiatScalarAdd
#print axioms tie_fiatScalarSub
#print axioms tie_fiatScalarOpp
#print axioms tie_fiatScalarFromBytes
#print axioms tie_fiatScalarToBytes
#print axioms tie_Scalar_Set
#print axioms tie_Scalar_Equal
#print axioms tie_Scalar_Add
#print axioms tie_Scalar_Subtract
#print axioms tie_Scalar_Negate
#print axioms tie_fiatScalarFromMontgomery
#print axioms tie_fiatScalarToMontgomery
#print axioms tie_fiatScalarMul
#print axioms tie_Scalar_Multiply

end EdVerif.Ssa.Tie
