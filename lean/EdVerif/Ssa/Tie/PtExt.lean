import EdVerif.Ssa.Tie.PtCk
/-!
# Local structures of elements (`new(projP1xP1)`, `new(projP2)`, `new(projCached)`): slots inside freshly allocated blocks
-/
namespace EdVerif.Ssa.Tie
open EdVerif.Ssa EdVerif.Gen.Ssa EdVerif.Prims EdVerif.Impl
set_option maxRecDepth 100000
set_option linter.unusedVariables false

def okBlkAt (o : Nat) : Option (Array Val) → Prop
  | some V => o + 5 ≤ V.size ∧ ∀ k, k < 5 → ∃ n, V[o + k]? = some (.int n)
  | none => False

def feAt (o : Nat) : Option (Array Val) → Fe
  | some V => ⟨natOf V[o + 0]?, natOf V[o + 1]?, natOf V[o + 2]?, natOf V[o + 3]?, natOf V[o + 4]?⟩
  | none => ⟨0, 0, 0, 0, 0⟩

def updAt (o : Nat) (x : Fe) : Option (Array Val) → Array Val
  | some V => ovl V o (feL x)
  | none => #[]

section
variable (h0 : Heap) (ovr : List Ent) (ext : List (Array Val)) (x : Fe)

theorem getE_extAt (k o : Nat) : getE (mkE h0 ovr ext) (h0.blocks.size + k) o = feAt o (ext[k]?) := by
  simp only [getE, mkE_cell_ext]
  cases ext[k]? <;> rfl

theorem okE_extAt (k o : Nat) (h : okBlkAt o (ext[k]?)) : OkE (mkE h0 ovr ext) (h0.blocks.size + k) o = True := by
  apply eq_true
  cases hk : ext[k]? with
  | none => rw [hk] at h; exact h.elim
  | some V =>
    rw [hk] at h
    have hlt : k < ext.length := by
      apply Classical.byContradiction; intro hn
      rw [List.getElem?_eq_none (by omega)] at hk; cases hk
    refine ⟨⟨by rw [mkE_size]; omega, ?_⟩, ?_⟩
    · rw [mkE_blkSize_ge _ _ _ _ (by omega), show h0.blocks.size + k - h0.blocks.size = k by omega, hk]
      simp only [Option.map_some, Option.getD_some]
      exact h.1
    · intro j hj
      rw [mkE_cell_ext, hk]
      exact h.2 j hj

theorem setE_extAt (k o : Nat) (hk : okBlkAt o (ext[k]?)) :
    setE (h0.blocks.size + k) o x (mkE h0 ovr ext) = mkE h0 ovr (ext.set k (updAt o x (ext[k]?))) := by
  cases hkk : ext[k]? with
  | none => rw [hkk] at hk; exact hk.elim
  | some V =>
    have hlt : k < ext.length := by
      apply Classical.byContradiction; intro hn
      rw [List.getElem?_eq_none (by omega)] at hkk; cases hkk
    simp only [setE, ovE, mkE]
    congr 1
    apply Array.ext_getElem?
    intro j
    rw [Array.getElem?_modify]
    by_cases hj : j < h0.blocks.size
    · have : h0.blocks.size + k ≠ j := by omega
      rw [if_neg this, Array.getElem?_append_left (by simpa using hj), Array.getElem?_append_left (by simpa using hj)]
    · rw [Array.getElem?_append_right (by simp; omega), Array.getElem?_append_right (by simp; omega)]
      simp only [baseE_size, List.getElem?_toArray]
      by_cases e : h0.blocks.size + k = j
      · subst e
        simp only [if_true, show h0.blocks.size + k - h0.blocks.size = k by omega, hkk, Option.map_some]
        rw [List.getElem?_set_self hlt]; rfl
      · rw [if_neg e, List.getElem?_set_ne (by omega)]

end

/-! ## evaluation on blocks of 3 and 4 elements -/
section shapes
variable (a b c d x : Fe)

theorem zeros20_cells : ([.int 0, .int 0, .int 0, .int 0, .int 0, .int 0, .int 0, .int 0, .int 0, .int 0,
    .int 0, .int 0, .int 0, .int 0, .int 0, .int 0, .int 0, .int 0, .int 0, .int 0] : List Val).toArray = cells4 Fe.rz Fe.rz Fe.rz Fe.rz := rfl
theorem zeros15_cells : ([.int 0, .int 0, .int 0, .int 0, .int 0, .int 0, .int 0, .int 0, .int 0, .int 0,
    .int 0, .int 0, .int 0, .int 0, .int 0] : List Val).toArray = cells3 Fe.rz Fe.rz Fe.rz := rfl

theorem okAt_cells (V : Array Val) (o : Nat) (hs : o + 5 ≤ V.size) (hv : ∀ k, k < 5 → ∃ n, V[o + k]? = some (.int n)) :
    okBlkAt o (some V) = True := eq_true ⟨hs, hv⟩

theorem okAt4_0 : okBlkAt 0 (some (cells4 a b c d)) = True := by
  cases a; cases b; cases c; cases d; exact okAt_cells _ _ (by show _ ≤ 20; decide) (lt5_cases ⟨_, rfl⟩ ⟨_, rfl⟩ ⟨_, rfl⟩ ⟨_, rfl⟩ ⟨_, rfl⟩)
theorem okAt4_5 : okBlkAt 5 (some (cells4 a b c d)) = True := by
  cases a; cases b; cases c; cases d; exact okAt_cells _ _ (by show _ ≤ 20; decide) (lt5_cases ⟨_, rfl⟩ ⟨_, rfl⟩ ⟨_, rfl⟩ ⟨_, rfl⟩ ⟨_, rfl⟩)
theorem okAt4_10 : okBlkAt 10 (some (cells4 a b c d)) = True := by
  cases a; cases b; cases c; cases d; exact okAt_cells _ _ (by show _ ≤ 20; decide) (lt5_cases ⟨_, rfl⟩ ⟨_, rfl⟩ ⟨_, rfl⟩ ⟨_, rfl⟩ ⟨_, rfl⟩)
theorem okAt4_15 : okBlkAt 15 (some (cells4 a b c d)) = True := by
  cases a; cases b; cases c; cases d; exact okAt_cells _ _ (by show _ ≤ 20; decide) (lt5_cases ⟨_, rfl⟩ ⟨_, rfl⟩ ⟨_, rfl⟩ ⟨_, rfl⟩ ⟨_, rfl⟩)
theorem okAt3_0 : okBlkAt 0 (some (cells3 a b c)) = True := by
  cases a; cases b; cases c; exact okAt_cells _ _ (by show _ ≤ 15; decide) (lt5_cases ⟨_, rfl⟩ ⟨_, rfl⟩ ⟨_, rfl⟩ ⟨_, rfl⟩ ⟨_, rfl⟩)
theorem okAt3_5 : okBlkAt 5 (some (cells3 a b c)) = True := by
  cases a; cases b; cases c; exact okAt_cells _ _ (by show _ ≤ 15; decide) (lt5_cases ⟨_, rfl⟩ ⟨_, rfl⟩ ⟨_, rfl⟩ ⟨_, rfl⟩ ⟨_, rfl⟩)
theorem okAt3_10 : okBlkAt 10 (some (cells3 a b c)) = True := by
  cases a; cases b; cases c; exact okAt_cells _ _ (by show _ ≤ 15; decide) (lt5_cases ⟨_, rfl⟩ ⟨_, rfl⟩ ⟨_, rfl⟩ ⟨_, rfl⟩ ⟨_, rfl⟩)

theorem feAt4_0 : feAt 0 (some (cells4 a b c d)) = a := by cases a; cases b; cases c; cases d; rfl
theorem feAt4_5 : feAt 5 (some (cells4 a b c d)) = b := by cases a; cases b; cases c; cases d; rfl
theorem feAt4_10 : feAt 10 (some (cells4 a b c d)) = c := by cases a; cases b; cases c; cases d; rfl
theorem feAt4_15 : feAt 15 (some (cells4 a b c d)) = d := by cases a; cases b; cases c; cases d; rfl
theorem feAt3_0 : feAt 0 (some (cells3 a b c)) = a := by cases a; cases b; cases c; rfl
theorem feAt3_5 : feAt 5 (some (cells3 a b c)) = b := by cases a; cases b; cases c; rfl
theorem feAt3_10 : feAt 10 (some (cells3 a b c)) = c := by cases a; cases b; cases c; rfl

theorem updAt4_0 : updAt 0 x (some (cells4 a b c d)) = cells4 x b c d := by cases a; cases b; cases c; cases d; cases x; rfl
theorem updAt4_5 : updAt 5 x (some (cells4 a b c d)) = cells4 a x c d := by cases a; cases b; cases c; cases d; cases x; rfl
theorem updAt4_10 : updAt 10 x (some (cells4 a b c d)) = cells4 a b x d := by cases a; cases b; cases c; cases d; cases x; rfl
theorem updAt4_15 : updAt 15 x (some (cells4 a b c d)) = cells4 a b c x := by cases a; cases b; cases c; cases d; cases x; rfl
theorem updAt3_0 : updAt 0 x (some (cells3 a b c)) = cells3 x b c := by cases a; cases b; cases c; cases x; rfl
theorem updAt3_5 : updAt 5 x (some (cells3 a b c)) = cells3 a x c := by cases a; cases b; cases c; cases x; rfl
theorem updAt3_10 : updAt 10 x (some (cells3 a b c)) = cells3 a b x := by cases a; cases b; cases c; cases x; rfl

end shapes

/-! ## a local allocated after a callee has appended its (opaque) blocks: index `X.length + j` -/

theorem getElem?_append_length {α} (X : List α) (a : α) (Y : List α) : (X ++ a :: Y)[X.length]? = some a := by
  rw [List.getElem?_append_right (Nat.le_refl _), Nat.sub_self]; rfl

theorem set_append_length {α} (X : List α) (a b : α) (Y : List α) : (X ++ a :: Y).set X.length b = X ++ b :: Y := by
  rw [List.set_append_right _ _ (Nat.le_refl _), Nat.sub_self]; rfl

theorem len2_ne_1 (n : Nat) : (n + 1 + 1 = 1) = False := by apply eq_false; omega
theorem one_ne_len2 (n : Nat) : (1 = n + 1 + 1) = False := by apply eq_false; omega
theorem len2_ne_0 (n : Nat) : (n + 1 + 1 = 0) = False := by apply eq_false; omega
theorem zero_ne_len2 (n : Nat) : (0 = n + 1 + 1) = False := by apply eq_false; omega

theorem P3_eta (s : P3) : (⟨s.x, s.y, s.z, s.t⟩ : P3) = s := rfl
theorem P1_eta (s : P1xP1) : (⟨s.X, s.Y, s.Z, s.T⟩ : P1xP1) = s := rfl
theorem P2_eta (s : P2) : (⟨s.X, s.Y, s.Z⟩ : P2) = s := rfl
theorem C_eta (s : Cached) : (⟨s.YplusX, s.YminusX, s.Z, s.T2d⟩ : Cached) = s := rfl
theorem A_eta (s : AffineCached) : (⟨s.YplusX, s.YminusX, s.T2d⟩ : AffineCached) = s := rfl

syntax "ssa_execX" "[" Lean.Parser.Tactic.simpLemma,* "]" : tactic
macro_rules
  | `(tactic| ssa_execX [$ls,*]) => `(tactic|
  ssa_execC [getE_extAt, okE_extAt, setE_extAt, zeros20_cells, zeros15_cells, okAt4_0, okAt4_5, okAt4_10, okAt4_15, okAt3_0, okAt3_5, okAt3_10,
    feAt4_0, feAt4_5, feAt4_10, feAt4_15, feAt3_0, feAt3_5, feAt3_10, updAt4_0, updAt4_5, updAt4_10, updAt4_15, updAt3_0, updAt3_5, updAt3_10,
    Ok3_eq, Ok4_eq, getP3_eq, getP1_eq, getP2_eq, getC_eq, getA_eq, set3_eq, set4_eq,
    stepAlloc_14, stepAlloc_26, P3_eta, P1_eta, P2_eta, C_eta, A_eta, getElem?_append_length, set_append_length, List.append_assoc, len2_ne_1, one_ne_len2,
    len2_ne_0, zero_ne_len2, $ls,*])

end EdVerif.Ssa.Tie
