import EdVerif.Ssa.Tie.AbsE
import EdVerif.Ssa.Tie.Select
/-!
# `(*field.Element).Swap` on two disjoint element slots, and its abstract call lemma
-/
namespace EdVerif.Ssa.Tie
open EdVerif.Ssa EdVerif.Gen.Ssa EdVerif.Prims
set_option maxRecDepth 100000
set_option linter.unusedVariables false

set_option maxHeartbeats 64000000 in
theorem callE_Swap_d (h0 : Heap) (ovr ext) (bv ov bu ou : Nat) (v0 v1 v2 v3 v4 u0 u1 u2 u3 u4 c : Nat) (hc : c < 2 ^ 64)
    (hfv : Fits h0 bv ov 5) (hfu : Fits h0 bu ou 5) (hs_vu : SepE bv ov bu ou)
    (d : Nat) (cfi : Nat) (cf : Func) (cregs cparams : Array RVal) (cblk : Nat) (crest : List Instr) (cdest : Option Nat) (frs : List Frame) :
    steps prog 86 ⟨mkE h0 ((bv, ov, [.int v0, .int v1, .int v2, .int v3, .int v4]) :: (bu, ou, [.int u0, .int u1, .int u2, .int u3, .int u4]) :: ovr) ext,
        ⟨80, f80, #[], #[[.ptr bv ov], [.ptr bu ou], [.int c]], 0, body80, some d⟩ :: ⟨cfi, cf, cregs, cparams, cblk, crest, cdest⟩ :: frs⟩
      = some ⟨mkE h0 ((bv, ov, feL (SwapT v0 v1 v2 v3 v4 u0 u1 u2 u3 u4 c).1) :: (bu, ou, feL (SwapT v0 v1 v2 v3 v4 u0 u1 u2 u3 u4 c).2) :: ovr) ext,
          ⟨cfi, cf, regSet cregs d [], cparams, cblk, crest, cdest⟩ :: frs⟩ := by
  simp only [body80]
  ssa_execE [resultTys_80, funcs_114, mkFrame_114, ↓steps_mask64Bits, and_eq, xor_eq,
    writeE_hit1_0, writeE_hit1_1, writeE_hit1_2, writeE_hit1_3, writeE_hit1_4, hfv, hfu, hc, hs_vu, hs_vu.symm]
  simp only [feL, SwapT, EdVerif.Gen.Field.Swap]

/-- `v.Swap(u, cond)` called from any frame on an arbitrary heap, `v` and `u` disjoint element slots -/
theorem callA_Swap (H : Heap) (bv ov bu ou c : Nat) (hc : c < 2 ^ 64) (hkv : OkE H bv ov) (hku : OkE H bu ou) (hs_vu : SepE bv ov bu ou)
    (d : Nat) (cfi : Nat) (cf : Func) (cregs cparams : Array RVal) (cblk : Nat) (crest : List Instr) (cdest : Option Nat) (frs : List Frame) :
    steps prog 86 ⟨H, ⟨80, f80, #[], #[[.ptr bv ov], [.ptr bu ou], [.int c]], 0, body80, some d⟩ :: ⟨cfi, cf, cregs, cparams, cblk, crest, cdest⟩ :: frs⟩
      = some ⟨setE bv ov (EdVerif.Gen.Field.Swap (getE H bv ov) (getE H bu ou) c).1
                (setE bu ou (EdVerif.Gen.Field.Swap (getE H bv ov) (getE H bu ou) c).2 H),
          ⟨cfi, cf, regSet cregs d [], cparams, cblk, crest, cdest⟩ :: frs⟩ := by
  have key := callE_Swap_d H [] [] bv ov bu ou (getE H bv ov).l0 (getE H bv ov).l1 (getE H bv ov).l2 (getE H bv ov).l3 (getE H bv ov).l4
    (getE H bu ou).l0 (getE H bu ou).l1 (getE H bu ou).l2 (getE H bu ou).l3 (getE H bu ou).l4 c hc hkv.1 hku.1 hs_vu d cfi cf cregs cparams cblk crest cdest frs
  rw [show mkE H [(bv, ov, [.int (getE H bv ov).l0, .int (getE H bv ov).l1, .int (getE H bv ov).l2, .int (getE H bv ov).l3, .int (getE H bv ov).l4]),
        (bu, ou, [.int (getE H bu ou).l0, .int (getE H bu ou).l1, .int (getE H bu ou).l2, .int (getE H bu ou).l3, .int (getE H bu ou).l4])] [] = H
      from mkE_restates H _ (restates_cons hkv (restates_cons hku (restates_nil H)))] at key
  rw [key]
  refine congrArg (fun hp => some (⟨hp, _⟩ : State)) ?_
  rw [mkE_eq]
  simp only [baseE, pushB_nil]
  rfl

derive_rules callA_Swap runA_Swap stepsA_Swap

end EdVerif.Ssa.Tie
