import EdVerif.Ssa.Tie.FeInvert
/-!
# `(*field.Element).Invert` on element slots `(block, offset)`, as a callee: `preE_Invert` (all steps but the final `Return`, whatever lies below
the frame), `callE_Invert`, and the abstract call lemma `callA_Invert` on an arbitrary heap (receiver and argument in disjoint slots)
-/
namespace EdVerif.Ssa.Tie
open EdVerif.Ssa EdVerif.Gen.Ssa EdVerif.Prims EdVerif.Impl EdVerif.Gen
set_option maxRecDepth 100000
set_option linter.unusedVariables false

set_option maxHeartbeats 400000000 in
/-- all the steps of `v.Invert(z)` but its final `Return` (130744 steps, in 12 chunks), for any stack below its frame; the appended blocks
    `E` depend on the values only -/
theorem preE_Invert (v z : Fe) : ∃ E : List (Array Val), ∀ (H : Heap) (bv ov bz oz : Nat) (hfv : Fits H bv ov 5) (hfz : Fits H bz oz 5)
    (hs : SepE bv ov bz oz) (dest : Option Nat) (tail : List Frame), ∃ regs : Array RVal,
    steps prog 130744 ⟨mkE H [(bv, ov, feL v), (bz, oz, feL z)] [], ⟨66, f66, #[], #[[.ptr bv ov], [.ptr bz oz]], 0, body66, dest⟩ :: tail⟩
      = some ⟨mkE H [(bv, ov, feL (Formulas.field_Element_Invert v z)), (bz, oz, feL z)] E,
          ⟨66, f66, regs, #[[.ptr bv ov], [.ptr bz oz]], 20, [⟨82, .none, 181, .ret [(.reg 81)], 0, [19]⟩], dest⟩ :: tail⟩
    ∧ regs[81]? = some [.ptr bv ov] := by
  apply Exists.intro
  intro H bv ov bz oz hfv hfz hs dest tail
  have hs1 : (bz ≠ bv ∨ ov + 5 ≤ oz ∨ oz + 5 ≤ ov) = True := eq_true hs
  have hs2 : (bv ≠ bz ∨ oz + 5 ≤ ov ∨ ov + 5 ≤ oz) = True := eq_true hs.symm
  have hs3 : (¬ bz = bv ∨ ov + 5 ≤ oz ∨ oz + 5 ≤ ov) = True := eq_true hs
  have hs4 : (¬ bv = bz ∨ oz + 5 ≤ ov ∨ ov + 5 ≤ oz) = True := eq_true hs.symm
  refine ⟨?regs, ?run, ?reg⟩
  case run =>
    show steps prog (12848 + (11839 + (11844 + (11592 + (11844 + (11592 + (11592 + (11592 + (11844 + (11592 + (11829 + 736))))))))))) _ = _
    refine steps_chain ⟨_, by (simp only [body66]; ssa_execI [↓stepsA_Square, ↓stepsA_Multiply, hfv, hfv.1, hfz, hfz.1, hs, hs.symm, hs1, hs2, hs3, hs4]; rfl), ?_⟩
    refine steps_chain ⟨_, by (ssa_execI [↓stepsA_Square, ↓stepsA_Multiply, hfv, hfv.1, hfz, hfz.1, hs, hs.symm, hs1, hs2, hs3, hs4]; rfl), ?_⟩
    refine steps_chain ⟨_, by (ssa_execI [↓stepsA_Square, ↓stepsA_Multiply, hfv, hfv.1, hfz, hfz.1, hs, hs.symm, hs1, hs2, hs3, hs4]; rfl), ?_⟩
    refine steps_chain ⟨_, by (ssa_execI [↓stepsA_Square, ↓stepsA_Multiply, hfv, hfv.1, hfz, hfz.1, hs, hs.symm, hs1, hs2, hs3, hs4]; rfl), ?_⟩
    refine steps_chain ⟨_, by (ssa_execI [↓stepsA_Square, ↓stepsA_Multiply, hfv, hfv.1, hfz, hfz.1, hs, hs.symm, hs1, hs2, hs3, hs4]; rfl), ?_⟩
    refine steps_chain ⟨_, by (ssa_execI [↓stepsA_Square, ↓stepsA_Multiply, hfv, hfv.1, hfz, hfz.1, hs, hs.symm, hs1, hs2, hs3, hs4]; rfl), ?_⟩
    refine steps_chain ⟨_, by (ssa_execI [↓stepsA_Square, ↓stepsA_Multiply, hfv, hfv.1, hfz, hfz.1, hs, hs.symm, hs1, hs2, hs3, hs4]; rfl), ?_⟩
    refine steps_chain ⟨_, by (ssa_execI [↓stepsA_Square, ↓stepsA_Multiply, hfv, hfv.1, hfz, hfz.1, hs, hs.symm, hs1, hs2, hs3, hs4]; rfl), ?_⟩
    refine steps_chain ⟨_, by (ssa_execI [↓stepsA_Square, ↓stepsA_Multiply, hfv, hfv.1, hfz, hfz.1, hs, hs.symm, hs1, hs2, hs3, hs4]; rfl), ?_⟩
    refine steps_chain ⟨_, by (ssa_execI [↓stepsA_Square, ↓stepsA_Multiply, hfv, hfv.1, hfz, hfz.1, hs, hs.symm, hs1, hs2, hs3, hs4]; rfl), ?_⟩
    refine steps_chain ⟨_, by (ssa_execI [↓stepsA_Square, ↓stepsA_Multiply, hfv, hfv.1, hfz, hfz.1, hs, hs.symm, hs1, hs2, hs3, hs4]; rfl), ?_⟩
    ssa_execI [↓stepsA_Square, ↓stepsA_Multiply, hfv, hfv.1, hfz, hfz.1, hs, hs.symm, hs1, hs2, hs3, hs4]
    rfl
  case reg => rfl

end EdVerif.Ssa.Tie
