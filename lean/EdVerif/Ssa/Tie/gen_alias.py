#!/usr/bin/env python3
"""Generate the aliased variants of the pointer kernels and the combined (no distinctness hypothesis) theorems."""
import itertools, sys

LIMBS = range(5)

def cells(p):
    return "#[" + ", ".join(f".int {p}{i}" for i in LIMBS) + "]"

def fe(p):
    return "⟨" + ", ".join(f"{p}{i}" for i in LIMBS) + "⟩"

def limbvars(p):
    return " ".join(f"{p}{i}" for i in LIMBS)

def partitions(ps):
    """set partitions of the list ps, as maps param -> representative (first element of its class)"""
    res = []
    def rec(i, classes):
        if i == len(ps):
            res.append([list(c) for c in classes]); return
        for c in classes:
            c.append(ps[i]); rec(i + 1, classes); c.pop()
        classes.append([ps[i]]); rec(i + 1, classes); classes.pop()
    rec(0, [])
    return res

def variant_name(classes):
    multi = [c for c in classes if len(c) > 1]
    if not multi: return "d"
    return "_".join("".join(c) for c in multi)

class K:
    def __init__(self, name, fidx, gofn, fuel, ptrs, scalars, rets, t1, extras, closing, allocs):
        self.name, self.fidx, self.gofn, self.fuel, self.ptrs, self.scalars = name, fidx, gofn, fuel, ptrs, scalars
        self.rets, self.t1, self.extras, self.closing, self.allocs = rets, t1, extras, closing, allocs

def gen_variant(k, classes, out):
    vn = variant_name(classes)
    rep = {}
    for c in classes:
        for p in c: rep[p] = c[0]
    reps = [c[0] for c in classes]
    sc_vars = " ".join(s for s, _ in k.scalars)
    sc_hyps = " ".join(f"(h{s} : {s} < 2 ^ 64)" for s, h in k.scalars if h)
    sc_hyp_names = [f"h{s}" for s, h in k.scalars if h]
    t1args = " ".join(fe(rep[p]) for p in k.ptrs) + (" " + sc_vars if sc_vars else "")
    t1 = f"({k.t1} {t1args})"
    args = ", ".join(f"[.ptr b{rep[p]} 0]" for p in k.ptrs) + "".join(f", [.int {s}]" for s, _ in k.scalars)
    ovr_in = " :: ".join(f"(b{r}, {cells(r)})" for r in reps) + " :: ovr"
    ovr_out = " :: ".join([f"(b{reps[0]}, feCells {t1})"] + [f"(b{r}, {cells(r)})" for r in reps[1:]]) + " :: ovr"
    range_hyps = " ".join(f"(hb{r} : b{r} < h0.blocks.size)" for r in reps)
    ne = [(x, y) for x, y in itertools.combinations(reps, 2)]
    ne_hyps = " ".join(f"(hne_{x}{y} : b{x} ≠ b{y})" for x, y in ne)
    simp_hyps = [f"hb{r}" for r in reps] + sc_hyp_names
    for x, y in ne: simp_hyps += [f"hne_{x}{y}", f"hne_{x}{y}.symm"]
    allvars = " ".join(limbvars(r) for r in reps) + (" " + sc_vars if sc_vars else "")
    bl = " ".join(f"b{r}" for r in reps)
    ext_in = "[]" if k.allocs else "ext"
    ext_binder = "" if k.allocs else " ext"
    ex = "∃ ext, " if k.allocs else ""
    core = f"core_{k.name}_{vn}"
    out.append(f"""
set_option maxHeartbeats 64000000 in
/-- `{k.gofn}`, aliasing pattern `{vn}` (parameters in one class share a block), outermost call on a canonical heap -/
theorem {core} (h0 : Heap) (ovr{ext_binder}) ({bl} : Nat) ({allvars} : Nat) {sc_hyps}
    {range_hyps} {ne_hyps} :
    {ex}run prog {k.fuel} ⟨mkH h0 ({ovr_in}) {ext_in},
        [⟨{k.fidx}, f{k.fidx}, #[], #[{args}], 0, body{k.fidx}, none⟩]⟩
      = .done ⟨mkH h0 ({ovr_out}) ext, []⟩ {k.rets} := by
  {"apply Exists.intro" if k.allocs else "skip"}
  simp only [body{k.fidx}]
  ssa_exec [resultTys_{k.fidx}, {k.extras}, read_hit, read_miss, write_hit, {", ".join(simp_hyps)}, ne_eq, not_false_eq_true]
  {k.closing}
""")
    # top-level
    fes = " ".join(r for r in reps)
    hyps = " ".join(f"(h{r} : h.blocks[b{r}]? = some (feCells {r}))" for r in reps)
    t1top = f"({k.t1} " + " ".join(rep[p] for p in k.ptrs) + (" " + sc_vars if sc_vars else "") + ")"
    obt = "\n".join(f"  obtain ⟨{', '.join(f'{r}{i}' for i in LIMBS)}⟩ := {r}" for r in reps)
    core_args = " ".join([bl] + [limbvars(r) for r in reps] + ([sc_vars] if sc_vars else []) + sc_hyp_names
                         + [f"(lt_of_get h{r})" for r in reps] + [f"hne_{x}{y}" for x, y in ne])
    rest_list = ", ".join(f"(b{r}, feCells {fe(r)})" for r in reps[1:])
    hall = (f"  have hall : ∀ kv ∈ [{rest_list}], h.blocks[kv.1]? = some kv.2 := by\n    simp [{', '.join('h' + r for r in reps[1:])}]"
            if len(reps) > 1 else "  have hall : ∀ kv ∈ ([] : List (Nat × Array Val)), h.blocks[kv.1]? = some kv.2 := by simp")
    intro_list = ", ".join(f"(b{r}, {cells(r)})" for r in reps)
    hs = ", ".join(f"h{r}" for r in reps)
    intro_pf = f"⟨{hs}⟩" if len(reps) > 1 else hs
    get_core = (f"obtain ⟨ext, core⟩ := {core} h [] {core_args}" if k.allocs else f"have core := {core} h [] [] {core_args}")
    ext_out = "ext" if k.allocs else "[]"
    out.append(f"""
/-- **tie**: `{k.gofn}`, aliasing pattern `{vn}` -/
theorem tie_{k.name}_{vn} (h : Heap) ({bl} : Nat) ({fes} : Fe) {("(" + sc_vars + " : Nat) ") if sc_vars else ""}{sc_hyps}
    {hyps} {ne_hyps} :
    ∃ h', runCall prog {k.fuel} h (nm! "{k.gofn}") [{args}] = some (.done ⟨h', []⟩ {k.rets})
      ∧ Post1 h h' b{reps[0]} (feCells {t1top}) := by
{obt}
  {get_core}
{hall}
  rw [show mkH h [{intro_list}] [] = h from
      mkH_intro h _ (by simpa [feCells] using {intro_pf})] at core
  refine ⟨_, ?_, post1_mkH _ {ext_out} (lt_of_get h{reps[0]}) hall⟩
  simp only [runCall, funcIdx_{k.fidx}, callState, funcs_{k.fidx}, mkFrame_{k.fidx}, Option.bind_some, Option.map_some, Option.pure_def,
    Option.bind_eq_bind]
  rw [core]; first | rfl | skip
""")

def gen_any(k, out):
    """combined theorem: no distinctness hypotheses"""
    ps = k.ptrs
    sc_vars = " ".join(s for s, _ in k.scalars)
    sc_hyps = " ".join(f"(h{s} : {s} < 2 ^ 64)" for s, h in k.scalars if h)
    sc_hyp_names = [f"h{s}" for s, h in k.scalars if h]
    args = ", ".join(f"[.ptr b{p} 0]" for p in ps) + "".join(f", [.int {s}]" for s, _ in k.scalars)
    hyps = " ".join(f"(h{p} : h.blocks[b{p}]? = some (feCells {p}))" for p in ps)
    t1top = f"({k.t1} " + " ".join(ps) + (" " + sc_vars if sc_vars else "") + ")"
    lines = []
    # decision tree over pairs in order; track current classes
    def rec(i, classes, indent):
        pad = "  " * indent
        if i == len(ps):
            vn = variant_name(classes)
            reps = [c[0] for c in classes]
            ne = [(x, y) for x, y in itertools.combinations(reps, 2)]
            a = " ".join(["h"] + [f"b{r}" for r in reps] + reps + ([sc_vars] if sc_vars else []) + sc_hyp_names
                         + [f"h{r}" for r in reps] + [f"hne_{x}{y}" for x, y in ne])
            lines.append(f"{pad}exact tie_{k.name}_{vn} {a}")
            return
        p = ps[i]
        # try to merge p with each existing class representative in turn
        def try_classes(j, indent):
            pad = "  " * indent
            if j == len(classes):
                classes.append([p]); rec(i + 1, classes, indent); classes.pop(); return
            r = classes[j][0]
            lines.append(f"{pad}by_cases hne_{r}{p} : b{r} = b{p}")
            lines.append(f"{pad}· subst hne_{r}{p}")
            lines.append(f"{pad}  have e := feCells_inj (Option.some.inj (h{r}.symm.trans h{p})); subst e")
            classes[j].append(p); rec(i + 1, classes, indent + 1); classes[j].pop()
            lines.append(f"{pad}· skip")
            try_classes(j + 1, indent + 1)
        try_classes(0, indent)
    rec(0, [], 1)
    out.append(f"""
/-- **tie** (any aliasing): `{k.gofn}` on an arbitrary heap in which the argument blocks hold the limbs of the arguments
    (the blocks may coincide, in which case the arguments do). -/
theorem tie_{k.name}_any (h : Heap) ({" ".join("b" + p for p in ps)} : Nat) ({" ".join(ps)} : Fe) {("(" + sc_vars + " : Nat) ") if sc_vars else ""}{sc_hyps}
    {hyps} :
    ∃ h', runCall prog {k.fuel} h (nm! "{k.gofn}") [{args}] = some (.done ⟨h', []⟩ {k.rets})
      ∧ Post1 h h' b{ps[0]} (feCells {t1top}) := by
""" + "\n".join(lines) + "\n")

HDR = """import EdVerif.Ssa.Tie.{imp}
/-!
# GENERATED by /tmp/tie/gen_alias.py — aliased variants of {what}, and the combined theorems
-/
namespace EdVerif.Ssa.Tie
open EdVerif.Ssa EdVerif.Gen.Ssa EdVerif.Prims
set_option maxRecDepth 100000
"""

def prelude(fidx, gofn, rtys):
    return f"""
def body{fidx} : List Instr := body% f{fidx}
theorem funcs_{fidx} : prog.funcs[{fidx}]? = some f{fidx} := rfl
theorem mkFrame_{fidx} (args : List RVal) (dest : Option Nat) :
    mkFrame {fidx} f{fidx} args dest = some ⟨{fidx}, f{fidx}, #[], args.toArray, 0, body{fidx}, dest⟩ := rfl
theorem resultTys_{fidx} : f{fidx}.resultTys = {rtys} := rfl
theorem funcIdx_{fidx} : prog.funcIdx? (nm! "{gofn}") = some {fidx} := by decide +kernel
"""

def emit(fname, imp, what, ks, distinct_names, pre=""):
    out = [HDR.format(imp=imp, what=what), pre]
    for k in ks:
        for classes in partitions(k.ptrs):
            if variant_name(classes) == "d" and k.name in distinct_names:
                # alias to the hand-written distinct theorem
                reps = k.ptrs
                ne = list(itertools.combinations(reps, 2))
                sc_vars = " ".join(s for s, _ in k.scalars)
                sc_hyps = " ".join(f"(h{s} : {s} < 2 ^ 64)" for s, h in k.scalars if h)
                sc_hyp_names = [f"h{s}" for s, h in k.scalars if h]
                args = ", ".join(f"[.ptr b{p} 0]" for p in reps) + "".join(f", [.int {s}]" for s, _ in k.scalars)
                hyps = " ".join(f"(h{r} : h.blocks[b{r}]? = some (feCells {r}))" for r in reps)
                ne_hyps = " ".join(f"(hne_{x}{y} : b{x} ≠ b{y})" for x, y in ne)
                t1top = f"({k.t1} " + " ".join(reps) + (" " + sc_vars if sc_vars else "") + ")"
                a = " ".join(["h"] + [f"b{r}" for r in reps] + reps + ([sc_vars] if sc_vars else []) + sc_hyp_names
                             + [f"h{r}" for r in reps] + [f"hne_{x}{y}" for x, y in ne])
                out.append(f"""
theorem tie_{k.name}_d (h : Heap) ({" ".join("b" + p for p in reps)} : Nat) ({" ".join(reps)} : Fe) {("(" + sc_vars + " : Nat) ") if sc_vars else ""}{sc_hyps}
    {hyps} {ne_hyps} :
    ∃ h', runCall prog {k.fuel} h (nm! "{k.gofn}") [{args}] = some (.done ⟨h', []⟩ {k.rets})
      ∧ Post1 h h' b{reps[0]} (feCells {t1top}) :=
  {distinct_names[k.name]} {a}
""")
            else:
                gen_variant(k, classes, out)
        gen_any(k, out)
    out.append("\nend EdVerif.Ssa.Tie\n")
    open(fname, "w").write("".join(out))

MULX = ("funcs_83, mkFrame_83, funcs_116, mkFrame_116, funcs_108, mkFrame_108, funcs_117, mkFrame_117, "
        "↓run_carryPropagate, ↓run_mul64, ↓run_addMul64, ↓run_shiftRightBy51, U128_eta")

kAdd = K("Add", 63, "(*field.Element).Add", 84, ["v", "a", "b"], [], "[[.ptr bv 0]]", "EdVerif.Gen.Field.Add",
         "funcs_84, mkFrame_84, ↓run_carryPropagateGeneric", "rfl", False)
kSub = K("Subtract", 79, "(*field.Element).Subtract", 91, ["v", "a", "b"], [], "[[.ptr bv 0]]", "EdVerif.Gen.Field.Subtract",
         "funcs_83, mkFrame_83, ↓run_carryPropagate", "rfl", False)
kSel = K("Select", 73, "(*field.Element).Select", 56, ["v", "a", "b"], [("c", True)], "[[.ptr bv 0]]", "EdVerif.Gen.Field.Select",
         "funcs_114, mkFrame_114, ↓run_mask64Bits, not64_mask, and_eq, or_eq", "simp only [feCells, EdVerif.Gen.Field.Select]", False)
kSet = K("Set", 74, "(*field.Element).Set", 3, ["v", "a"], [], "[[.ptr bv 0]]", "EdVerif.Gen.Field.Set", "cls5", "rfl", False)
kM32 = K("Mult32", 68, "(*field.Element).Mult32", 87, ["v", "a"], [("y", True)], "[[.ptr bv 0]]", "EdVerif.Gen.Field.Mult32",
         "funcs_115, mkFrame_115, ↓run_mul51, add_eq, mul_eq", "rfl", False)
kMul = K("feMulGeneric", 110, "field.feMulGeneric", 731, ["v", "a", "b"], [], "[]", "EdVerif.Gen.Field.feMulGeneric", MULX, "rfl", True)
kSq = K("feSquareGeneric", 112, "field.feSquareGeneric", 474, ["v", "a"], [], "[]", "EdVerif.Gen.Field.feSquareGeneric", MULX, "rfl", True)

D = "/tmp/tie/lean/EdVerif/Ssa/Tie/"
names = {k: "tie_" + k for k in ["Add", "Subtract", "Select", "Set", "Mult32", "feMulGeneric", "feSquareGeneric"]}
emit(D + "AliasAdd.lean", "Add", "`Add`", [kAdd], names)
emit(D + "AliasSub.lean", "Sub", "`Subtract`", [kSub], names)
emit(D + "AliasSelect.lean", "Select", "`Select`", [kSel], names)
emit(D + "AliasMisc.lean", "Misc", "`Set`, `Mult32`", [kSet, kM32], names)
emit(D + "AliasMul.lean", "Mul", "`feMulGeneric`", [kMul], names)
emit(D + "AliasSq.lean", "Sq", "`feSquareGeneric`", [kSq], names)

kfeMul = K("feMul", 109, "field.feMul", 733, ["v", "a", "b"], [], "[]", "EdVerif.Gen.Field.feMul",
           MULX + ", funcs_110, mkFrame_110, resultTys_110, body110", "rfl", True)
kMultiply = K("Multiply", 69, "(*field.Element).Multiply", 735, ["v", "a", "b"], [], "[[.ptr bv 0]]", "EdVerif.Gen.Field.Multiply",
           MULX + ", funcs_110, mkFrame_110, resultTys_110, body110, funcs_109, mkFrame_109, resultTys_109, body109", "rfl", True)
kfeSquare = K("feSquare", 111, "field.feSquare", 476, ["v", "a"], [], "[]", "EdVerif.Gen.Field.feSquare",
           MULX + ", funcs_112, mkFrame_112, resultTys_112, body112", "rfl", True)
kSquare = K("Square", 78, "(*field.Element).Square", 478, ["v", "a"], [], "[[.ptr bv 0]]", "EdVerif.Gen.Field.Square",
           MULX + ", funcs_112, mkFrame_112, resultTys_112, body112, funcs_111, mkFrame_111, resultTys_111, body111", "rfl", True)
emit(D + "WrapFeMul.lean", "Mul", "`field.feMul` (all aliasing patterns)", [kfeMul], {}, prelude(109, "field.feMul", "[]"))
emit(D + "WrapMultiply.lean", "WrapFeMul", "`(*field.Element).Multiply` (all aliasing patterns)", [kMultiply], {},
     prelude(69, "(*field.Element).Multiply", "[19]"))
emit(D + "WrapFeSquare.lean", "Sq", "`field.feSquare`", [kfeSquare], {}, prelude(111, "field.feSquare", "[]"))
emit(D + "WrapSquare.lean", "WrapFeSquare", "`(*field.Element).Square`", [kSquare], {}, prelude(78, "(*field.Element).Square", "[19]"))
