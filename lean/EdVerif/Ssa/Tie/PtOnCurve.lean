import EdVerif.Ssa.Tie.PtEqual
/-!
# `isOnCurve`: SSA execution = T5's `Formulas.isOnCurve` (by hand; three paths, decided by the results of `Equal`)

The locals `new(Element)` are allocated *between* kernel calls, so their block indices involve the (unknown) lengths of the blocks
appended by the callees: `getElem?_append_add`, `set_append_add` and the index disequalities below.
-/
namespace EdVerif.Ssa.Tie
open EdVerif.Ssa EdVerif.Gen.Ssa EdVerif.Prims EdVerif.Impl EdVerif.Gen
set_option maxRecDepth 100000
set_option linter.unusedVariables false

theorem getElem?_append_add {α} (X Y : List α) (j : Nat) : (X ++ Y)[X.length + j]? = Y[j]? := by
  rw [List.getElem?_append_right (by omega)]; congr 1; omega

theorem set_append_add {α} (X Y : List α) (j : Nat) (a : α) : (X ++ Y).set (X.length + j) a = X ++ Y.set j a := by
  rw [List.set_append_right _ _ (by omega)]; congr 2; omega

theorem feAt0_lit (a0 a1 a2 a3 a4 : Nat) : feAt 0 (some #[.int a0, .int a1, .int a2, .int a3, .int a4]) = ⟨a0, a1, a2, a3, a4⟩ := by
  rw [feAt]; rfl

theorem feAt0_feL (x : Fe) : feAt 0 (some (feL x).toArray) = x := by cases x; rfl

theorem lit0_ne (n : Nat) : (0 = n + 1) = False := by apply eq_false; omega
theorem ne_lit0 (n : Nat) : (n + 1 = 0) = False := by apply eq_false; omega
theorem lit1_ne (n : Nat) : (1 = n + 1 + 1) = False := by apply eq_false; omega
theorem ne_lit1 (n : Nat) : (n + 1 + 1 = 1) = False := by apply eq_false; omega
theorem lit2_ne (n : Nat) : (2 = n + 1 + 1 + 1) = False := by apply eq_false; omega
theorem ne_lit2 (n : Nat) : (n + 1 + 1 + 1 = 2) = False := by apply eq_false; omega

def body106 : List Instr := body% f106
def blk106_1 : List Instr := block% f106 1
def blk106_2 : List Instr := block% f106 2
def blk106_3 : List Instr := block% f106 3
def blk106_4 : List Instr := block% f106 4
theorem funcs_106 : prog.funcs[106]? = some f106 := rfl
theorem mkFrame_106 (args : List RVal) (dest : Option Nat) :
    mkFrame 106 f106 args dest = some ⟨106, f106, #[], args.toArray, 0, body106, dest⟩ := rfl
theorem resultTys_106 : f106.resultTys = [31] := rfl
theorem funcIdx_106 : prog.funcIdx? (nm! "isOnCurve") = some 106 := by decide +kernel

section jumps
variable (regs params : Array RVal) (rest : List Instr) (dest : Option Nat)
theorem jumpTo_106_0_1 : jumpTo prog ⟨106, f106, regs, params, 0, rest, dest⟩ 1 = some ⟨106, f106, regs, params, 1, blk106_1, dest⟩ := rfl
theorem jumpTo_106_0_2 : jumpTo prog ⟨106, f106, regs, params, 0, rest, dest⟩ 2 = some ⟨106, f106, regs, params, 2, blk106_2, dest⟩ := rfl
theorem jumpTo_106_2_3 : jumpTo prog ⟨106, f106, regs, params, 2, rest, dest⟩ 3 = some ⟨106, f106, regs, params, 3, blk106_3, dest⟩ := rfl
theorem jumpTo_106_2_4 : jumpTo prog ⟨106, f106, regs, params, 2, rest, dest⟩ 4 = some ⟨106, f106, regs, params, 4, blk106_4, dest⟩ := rfl
end jumps

/-- the stepper for `isOnCurve` (also used by `SetExtendedCoordinates`, which runs it inline) -/
syntax "ssa_execO" "[" Lean.Parser.Tactic.simpLemma,* "]" : tactic
macro_rules
  | `(tactic| ssa_execO [$ls,*]) => `(tactic|
  ssa_execX [resultTys_106, blk106_1, blk106_2, blk106_3, blk106_4, jumpTo_106_0_1, jumpTo_106_0_2, jumpTo_106_2_3, jumpTo_106_2_4,
    ↓runA_Square, ↓runA_Multiply, ↓runA_Subtract, ↓runA_Add, ↓runA_Equal, funcs_65, mkFrame_65,
    mkE_size, lt16_add, List.length_append, getElem?_append_add, set_append_add, feAt0_lit, feAt0_feL, lit0_ne, ne_lit0, lit1_ne, ne_lit1, lit2_ne, ne_lit2,
    Multiply_rz, Square_rz, Add_rz, Subtract_rz, Select_rz, Set_rz, $ls,*])

set_option maxHeartbeats 64000000 in
/-- `isOnCurve` as the outermost call, on the canonical heap of its parameters; path 1 -/
theorem coreE_isOnCurve_1 (X Y Z T : Fe) (hE1 : (Formulas.field_Element_Equal Z Fe.rz == 1) = true) : ∀ (H : Heap) (bX bY bZ bT bg_d : Nat) (hfX : Fits H bX 0 5) (hfY : Fits H bY 0 5) (hfZ : Fits H bZ 0 5) (hfT : Fits H bT 0 5) (hne_XY : bX ≠ bY) (hne_XZ : bX ≠ bZ) (hne_XT : bX ≠ bT) (hne_YZ : bY ≠ bZ) (hne_YT : bY ≠ bT) (hne_ZT : bZ ≠ bT) (hg_d : H.read 3 0 1 = some [.ptr bg_d 0]) (hfg_d : Fits H bg_d 0 5) (hn_d : bg_d ≠ 3) (hne_X_d : bX ≠ bg_d) (hng_X_d : bX ≠ 3) (hne_Y_d : bY ≠ bg_d) (hng_Y_d : bY ≠ 3) (hne_Z_d : bZ ≠ bg_d) (hng_Z_d : bZ ≠ 3) (hne_T_d : bT ≠ bg_d) (hng_T_d : bT ≠ 3) (h16 : 16 < H.blocks.size), ∃ E : List (Array Val),
    run prog 10000 ⟨mkE H [(bX, 0, feL X), (bY, 0, feL Y), (bZ, 0, feL Z), (bT, 0, feL T), (bg_d, 0, feL Point.d)] [],
        [⟨106, f106, #[], #[[.ptr bX 0], [.ptr bY 0], [.ptr bZ 0], [.ptr bT 0]], 0, body106, none⟩]⟩
      = .done ⟨mkE H [(bX, 0, feL X), (bY, 0, feL Y), (bZ, 0, feL Z), (bT, 0, feL T), (bg_d, 0, feL Point.d)] E, []⟩ [[.bool (Formulas.isOnCurve X Y Z T)]] := by
  intro H bX bY bZ bT bg_d hfX hfY hfZ hfT hne_XY hne_XZ hne_XT hne_YZ hne_YT hne_ZT hg_d hfg_d hn_d hne_X_d hng_X_d hne_Y_d hng_Y_d hne_Z_d hng_Z_d hne_T_d hng_T_d h16
  apply Exists.intro
  have e : Formulas.isOnCurve X Y Z T = false := by
    unfold Formulas.isOnCurve
    simp only [hE1, if_true]
  rw [e]
  have hE1z : (Formulas.field_Element_Equal Z ⟨0, 0, 0, 0, 0⟩ == 1) = true := hE1
  have hbX := hfX.1
  have hbY := hfY.1
  have hbZ := hfZ.1
  have hbT := hfT.1
  have hlt_d := lt_of_read hg_d
  simp only [body106]
  ssa_execO [hE1z, hbX, hbY, hbZ, hbT, hfX, hfY, hfZ, hfT, hne_XY, hne_XY.symm, hne_XZ, hne_XZ.symm, hne_XT, hne_XT.symm, hne_YZ, hne_YZ.symm, hne_YT, hne_YT.symm, hne_ZT, hne_ZT.symm, read_mkE_base hg_d, gptr_mkE hg_d, isGlob_mkE hg_d, hfg_d, hfg_d.1,
    hn_d, hn_d.symm, hne_X_d, hne_X_d.symm, hng_X_d, hng_X_d.symm, hne_Y_d, hne_Y_d.symm, hng_Y_d, hng_Y_d.symm, hne_Z_d, hne_Z_d.symm, hng_Z_d, hng_Z_d.symm, hne_T_d, hne_T_d.symm, hng_T_d, hng_T_d.symm, hlt_d, h16]
  rfl

set_option maxHeartbeats 64000000 in
/-- `isOnCurve` as the outermost call, on the canonical heap of its parameters; path 2 -/
theorem coreE_isOnCurve_2 (X Y Z T : Fe) (hE1 : (Formulas.field_Element_Equal Z Fe.rz == 1) = false) (hE2 : (Formulas.field_Element_Equal (Fe.sub (Fe.square Y) (Fe.square X)) (Fe.add (Fe.mul Point.d (Fe.square T)) (Fe.square Z)) != 1) = true) : ∀ (H : Heap) (bX bY bZ bT bg_d : Nat) (hfX : Fits H bX 0 5) (hfY : Fits H bY 0 5) (hfZ : Fits H bZ 0 5) (hfT : Fits H bT 0 5) (hne_XY : bX ≠ bY) (hne_XZ : bX ≠ bZ) (hne_XT : bX ≠ bT) (hne_YZ : bY ≠ bZ) (hne_YT : bY ≠ bT) (hne_ZT : bZ ≠ bT) (hg_d : H.read 3 0 1 = some [.ptr bg_d 0]) (hfg_d : Fits H bg_d 0 5) (hn_d : bg_d ≠ 3) (hne_X_d : bX ≠ bg_d) (hng_X_d : bX ≠ 3) (hne_Y_d : bY ≠ bg_d) (hng_Y_d : bY ≠ 3) (hne_Z_d : bZ ≠ bg_d) (hng_Z_d : bZ ≠ 3) (hne_T_d : bT ≠ bg_d) (hng_T_d : bT ≠ 3) (h16 : 16 < H.blocks.size), ∃ E : List (Array Val),
    run prog 10000 ⟨mkE H [(bX, 0, feL X), (bY, 0, feL Y), (bZ, 0, feL Z), (bT, 0, feL T), (bg_d, 0, feL Point.d)] [],
        [⟨106, f106, #[], #[[.ptr bX 0], [.ptr bY 0], [.ptr bZ 0], [.ptr bT 0]], 0, body106, none⟩]⟩
      = .done ⟨mkE H [(bX, 0, feL X), (bY, 0, feL Y), (bZ, 0, feL Z), (bT, 0, feL T), (bg_d, 0, feL Point.d)] E, []⟩ [[.bool (Formulas.isOnCurve X Y Z T)]] := by
  intro H bX bY bZ bT bg_d hfX hfY hfZ hfT hne_XY hne_XZ hne_XT hne_YZ hne_YT hne_ZT hg_d hfg_d hn_d hne_X_d hng_X_d hne_Y_d hng_Y_d hne_Z_d hng_Z_d hne_T_d hng_T_d h16
  apply Exists.intro
  have e : Formulas.isOnCurve X Y Z T = false := by
    unfold Formulas.isOnCurve
    simp only [hE1, hE2, if_true, if_false, Bool.false_eq_true]
  rw [e]
  have hE1z : (Formulas.field_Element_Equal Z ⟨0, 0, 0, 0, 0⟩ == 1) = false := hE1
  have hbX := hfX.1
  have hbY := hfY.1
  have hbZ := hfZ.1
  have hbT := hfT.1
  have hlt_d := lt_of_read hg_d
  simp only [body106]
  ssa_execO [hE1z, hE2, hbX, hbY, hbZ, hbT, hfX, hfY, hfZ, hfT, hne_XY, hne_XY.symm, hne_XZ, hne_XZ.symm, hne_XT, hne_XT.symm, hne_YZ, hne_YZ.symm, hne_YT, hne_YT.symm, hne_ZT, hne_ZT.symm, read_mkE_base hg_d, gptr_mkE hg_d, isGlob_mkE hg_d, hfg_d, hfg_d.1,
    hn_d, hn_d.symm, hne_X_d, hne_X_d.symm, hng_X_d, hng_X_d.symm, hne_Y_d, hne_Y_d.symm, hng_Y_d, hng_Y_d.symm, hne_Z_d, hne_Z_d.symm, hng_Z_d, hng_Z_d.symm, hne_T_d, hne_T_d.symm, hng_T_d, hng_T_d.symm, hlt_d, h16]
  rfl

set_option maxHeartbeats 64000000 in
/-- `isOnCurve` as the outermost call, on the canonical heap of its parameters; path 3 -/
theorem coreE_isOnCurve_3 (X Y Z T : Fe) (hE1 : (Formulas.field_Element_Equal Z Fe.rz == 1) = false) (hE2 : (Formulas.field_Element_Equal (Fe.sub (Fe.square Y) (Fe.square X)) (Fe.add (Fe.mul Point.d (Fe.square T)) (Fe.square Z)) != 1) = false) : ∀ (H : Heap) (bX bY bZ bT bg_d : Nat) (hfX : Fits H bX 0 5) (hfY : Fits H bY 0 5) (hfZ : Fits H bZ 0 5) (hfT : Fits H bT 0 5) (hne_XY : bX ≠ bY) (hne_XZ : bX ≠ bZ) (hne_XT : bX ≠ bT) (hne_YZ : bY ≠ bZ) (hne_YT : bY ≠ bT) (hne_ZT : bZ ≠ bT) (hg_d : H.read 3 0 1 = some [.ptr bg_d 0]) (hfg_d : Fits H bg_d 0 5) (hn_d : bg_d ≠ 3) (hne_X_d : bX ≠ bg_d) (hng_X_d : bX ≠ 3) (hne_Y_d : bY ≠ bg_d) (hng_Y_d : bY ≠ 3) (hne_Z_d : bZ ≠ bg_d) (hng_Z_d : bZ ≠ 3) (hne_T_d : bT ≠ bg_d) (hng_T_d : bT ≠ 3) (h16 : 16 < H.blocks.size), ∃ E : List (Array Val),
    run prog 10000 ⟨mkE H [(bX, 0, feL X), (bY, 0, feL Y), (bZ, 0, feL Z), (bT, 0, feL T), (bg_d, 0, feL Point.d)] [],
        [⟨106, f106, #[], #[[.ptr bX 0], [.ptr bY 0], [.ptr bZ 0], [.ptr bT 0]], 0, body106, none⟩]⟩
      = .done ⟨mkE H [(bX, 0, feL X), (bY, 0, feL Y), (bZ, 0, feL Z), (bT, 0, feL T), (bg_d, 0, feL Point.d)] E, []⟩ [[.bool (Formulas.isOnCurve X Y Z T)]] := by
  intro H bX bY bZ bT bg_d hfX hfY hfZ hfT hne_XY hne_XZ hne_XT hne_YZ hne_YT hne_ZT hg_d hfg_d hn_d hne_X_d hng_X_d hne_Y_d hng_Y_d hne_Z_d hng_Z_d hne_T_d hng_T_d h16
  apply Exists.intro
  have e : Formulas.isOnCurve X Y Z T = (Formulas.field_Element_Equal (Fe.mul X Y) (Fe.mul T Z) == 1) := by
    unfold Formulas.isOnCurve
    simp only [hE1, hE2, if_true, if_false, Bool.false_eq_true]
  rw [e]
  have hE1z : (Formulas.field_Element_Equal Z ⟨0, 0, 0, 0, 0⟩ == 1) = false := hE1
  have hbX := hfX.1
  have hbY := hfY.1
  have hbZ := hfZ.1
  have hbT := hfT.1
  have hlt_d := lt_of_read hg_d
  simp only [body106]
  ssa_execO [hE1z, hE2, hbX, hbY, hbZ, hbT, hfX, hfY, hfZ, hfT, hne_XY, hne_XY.symm, hne_XZ, hne_XZ.symm, hne_XT, hne_XT.symm, hne_YZ, hne_YZ.symm, hne_YT, hne_YT.symm, hne_ZT, hne_ZT.symm, read_mkE_base hg_d, gptr_mkE hg_d, isGlob_mkE hg_d, hfg_d, hfg_d.1,
    hn_d, hn_d.symm, hne_X_d, hne_X_d.symm, hng_X_d, hng_X_d.symm, hne_Y_d, hne_Y_d.symm, hng_Y_d, hng_Y_d.symm, hne_Z_d, hne_Z_d.symm, hng_Z_d, hng_Z_d.symm, hne_T_d, hne_T_d.symm, hng_T_d, hng_T_d.symm, hlt_d, h16]
  rfl

/-- **tie**: `isOnCurve(X, Y, Z, T)` on any heap in which the pairwise distinct blocks `bX … bT` hold the limbs of `X … T`, the package
    variable `d` (global 2 = block 3) points to a block (distinct from them) holding `Point.d`, and the block of `binary.LittleEndian` exists:
    the run terminates and returns T5's `Formulas.isOnCurve X Y Z T`; no block of the heap changes. -/
theorem tie_isOnCurve (h : Heap) (bX bY bZ bT bg_d : Nat) (X Y Z T : Fe)
    (hcX : h.blocks[bX]? = some (feCells X)) (hcY : h.blocks[bY]? = some (feCells Y)) (hcZ : h.blocks[bZ]? = some (feCells Z))
    (hcT : h.blocks[bT]? = some (feCells T))
    (hne_XY : bX ≠ bY) (hne_XZ : bX ≠ bZ) (hne_XT : bX ≠ bT) (hne_YZ : bY ≠ bZ) (hne_YT : bY ≠ bT) (hne_ZT : bZ ≠ bT)
    (hgp_d : h.blocks[3]? = some #[.ptr bg_d 0]) (hgv_d : h.blocks[bg_d]? = some (feCells Point.d))
    (hne_X_d : bX ≠ bg_d) (hne_Y_d : bY ≠ bg_d) (hne_Z_d : bZ ≠ bg_d) (hne_T_d : bT ≠ bg_d) (h16 : 16 < h.blocks.size) :
    ∃ h', runCall prog 10000 h (nm! "isOnCurve") [[.ptr bX 0], [.ptr bY 0], [.ptr bZ 0], [.ptr bT 0]]
            = some (.done ⟨h', []⟩ [[.bool (Formulas.isOnCurve X Y Z T)]])
      ∧ Post0 h h' := by
  have fin : (∀ (H : Heap) (bX bY bZ bT bg_d : Nat) (hfX : Fits H bX 0 5) (hfY : Fits H bY 0 5) (hfZ : Fits H bZ 0 5) (hfT : Fits H bT 0 5) (hne_XY : bX ≠ bY) (hne_XZ : bX ≠ bZ) (hne_XT : bX ≠ bT) (hne_YZ : bY ≠ bZ) (hne_YT : bY ≠ bT) (hne_ZT : bZ ≠ bT) (hg_d : H.read 3 0 1 = some [.ptr bg_d 0]) (hfg_d : Fits H bg_d 0 5) (hn_d : bg_d ≠ 3) (hne_X_d : bX ≠ bg_d) (hng_X_d : bX ≠ 3) (hne_Y_d : bY ≠ bg_d) (hng_Y_d : bY ≠ 3) (hne_Z_d : bZ ≠ bg_d) (hng_Z_d : bZ ≠ 3) (hne_T_d : bT ≠ bg_d) (hng_T_d : bT ≠ 3) (h16 : 16 < H.blocks.size), ∃ E : List (Array Val),
    run prog 10000 ⟨mkE H [(bX, 0, feL X), (bY, 0, feL Y), (bZ, 0, feL Z), (bT, 0, feL T), (bg_d, 0, feL Point.d)] [],
        [⟨106, f106, #[], #[[.ptr bX 0], [.ptr bY 0], [.ptr bZ 0], [.ptr bT 0]], 0, body106, none⟩]⟩
      = .done ⟨mkE H [(bX, 0, feL X), (bY, 0, feL Y), (bZ, 0, feL Z), (bT, 0, feL T), (bg_d, 0, feL Point.d)] E, []⟩ [[.bool (Formulas.isOnCurve X Y Z T)]]) →
      ∃ h', runCall prog 10000 h (nm! "isOnCurve") [[.ptr bX 0], [.ptr bY 0], [.ptr bZ 0], [.ptr bT 0]]
            = some (.done ⟨h', []⟩ [[.bool (Formulas.isOnCurve X Y Z T)]])
      ∧ Post0 h h' := by
    intro core
    obtain ⟨E, core⟩ := core h bX bY bZ bT bg_d (fits_of_get hcX 5 (Nat.le_refl _)) (fits_of_get hcY 5 (Nat.le_refl _))
      (fits_of_get hcZ 5 (Nat.le_refl _)) (fits_of_get hcT 5 (Nat.le_refl _)) hne_XY hne_XZ hne_XT hne_YZ hne_YT hne_ZT
      (read_of_get1 hgp_d) (fits_of_get hgv_d 5 (Nat.le_refl _)) (ne_of_size' hgv_d hgp_d (n1 := 5) (n2 := 1) rfl rfl (by decide))
      hne_X_d (ne_of_size' hcX hgp_d (n1 := 5) (n2 := 1) rfl rfl (by decide))
      hne_Y_d (ne_of_size' hcY hgp_d (n1 := 5) (n2 := 1) rfl rfl (by decide))
      hne_Z_d (ne_of_size' hcZ hgp_d (n1 := 5) (n2 := 1) rfl rfl (by decide))
      hne_T_d (ne_of_size' hcT hgp_d (n1 := 5) (n2 := 1) rfl rfl (by decide)) h16
    have hr : Restates h [(bX, 0, feL X), (bY, 0, feL Y), (bZ, 0, feL Z), (bT, 0, feL T), (bg_d, 0, feL Point.d)] :=
      restates_feCells hcX (restates_feCells hcY (restates_feCells hcZ (restates_feCells hcT (restates_feCells hgv_d (restates_nil h)))))
    rw [mkE_restates h _ hr, mkE_restates_ext h _ _ hr] at core
    refine ⟨pushB h E, ?_, post0_pushB h E⟩
    simp only [runCall, funcIdx_106, callState, funcs_106, mkFrame_106, Option.bind_some, Option.map_some, Option.pure_def,
      Option.bind_eq_bind]
    rw [core]
  cases hE1 : (Formulas.field_Element_Equal Z Fe.rz == 1) with
  | true => exact fin (coreE_isOnCurve_1 X Y Z T hE1)
  | false =>
    cases hE2 : (Formulas.field_Element_Equal (Fe.sub (Fe.square Y) (Fe.square X)) (Fe.add (Fe.mul Point.d (Fe.square T)) (Fe.square Z)) != 1) with
    | true => exact fin (coreE_isOnCurve_2 X Y Z T hE1 hE2)
    | false => exact fin (coreE_isOnCurve_3 X Y Z T hE1 hE2)

end EdVerif.Ssa.Tie
