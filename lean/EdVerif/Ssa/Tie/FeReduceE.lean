import EdVerif.Ssa.Tie.PtCk
import EdVerif.Ssa.Tie.Reduce
/-!
# `(*field.Element).reduce` on an element slot `(block, offset)` of an arbitrary heap (abstract call lemma)
-/
namespace EdVerif.Ssa.Tie
open EdVerif.Ssa EdVerif.Gen.Ssa EdVerif.Prims EdVerif.Impl
set_option maxRecDepth 100000
set_option linter.unusedVariables false

set_option maxHeartbeats 16000000 in
theorem callE_reduce (h0 : Heap) (ovr ext) (bv ov : Nat) (v0 v1 v2 v3 v4 : Nat) (hfv : Fits h0 bv ov 5) (d : Nat)
    (cfi : Nat) (cf : Func) (cregs cparams : Array RVal) (cblk : Nat) (crest : List Instr) (cdest : Option Nat) (frs : List Frame) :
    steps prog 134 ⟨mkE h0 ((bv, ov, [.int v0, .int v1, .int v2, .int v3, .int v4]) :: ovr) ext,
        ⟨85, f85, #[], #[[.ptr bv ov]], 0, body85, some d⟩ :: ⟨cfi, cf, cregs, cparams, cblk, crest, cdest⟩ :: frs⟩
      = some ⟨mkE h0 ((bv, ov, feL (redT v0 v1 v2 v3 v4)) :: ovr) ext,
          ⟨cfi, cf, regSet cregs d [.ptr bv ov], cparams, cblk, crest, cdest⟩ :: frs⟩ := by
  simp only [body85]
  ssa_execE [resultTys_85, funcs_83, mkFrame_83, ↓stepsE_carryPropagate, hfv]
  rfl

/-- `(*field.Element).reduce` called from any frame on an arbitrary heap: the slot holds an element -/
theorem callA_reduce (H : Heap) (bv ov : Nat) (hkv : OkE H bv ov) (d : Nat)
    (cfi : Nat) (cf : Func) (cregs cparams : Array RVal) (cblk : Nat) (crest : List Instr) (cdest : Option Nat) (frs : List Frame) :
    steps prog 134 ⟨H, ⟨85, f85, #[], #[[.ptr bv ov]], 0, body85, some d⟩ :: ⟨cfi, cf, cregs, cparams, cblk, crest, cdest⟩ :: frs⟩
      = some ⟨setE bv ov (EdVerif.Gen.Field.reduce (getE H bv ov)) H,
          ⟨cfi, cf, regSet cregs d [.ptr bv ov], cparams, cblk, crest, cdest⟩ :: frs⟩ := by
  have key := callE_reduce H [] [] bv ov (getE H bv ov).l0 (getE H bv ov).l1 (getE H bv ov).l2 (getE H bv ov).l3 (getE H bv ov).l4
    hkv.1 d cfi cf cregs cparams cblk crest cdest frs
  rw [show mkE H [(bv, ov, [.int (getE H bv ov).l0, .int (getE H bv ov).l1, .int (getE H bv ov).l2, .int (getE H bv ov).l3,
      .int (getE H bv ov).l4])] [] = H from mkE_restates H _ (restates_cons hkv (restates_nil H))] at key
  rw [key]
  refine congrArg (fun hp => some (⟨hp, _⟩ : State)) ?_
  refine (mkE_head_intro H _ _ _ _ _ (restates_nil H)).trans ?_
  rw [pushB_nil]
  rfl

derive_rules callA_reduce runA_reduce stepsA_reduce

end EdVerif.Ssa.Tie
