import EdVerif.Ssa.Tie.ExecE
import EdVerif.Ssa.Tie.Carry
/-!
# `carryPropagateGeneric`, `carryPropagate` on element slots `(block, offset)`
-/
namespace EdVerif.Ssa.Tie
open EdVerif.Ssa EdVerif.Gen.Ssa EdVerif.Prims
set_option maxRecDepth 100000

/-- the five cells of an `Element`, as a list -/
def feL (v : Fe) : List Val := [.int v.l0, .int v.l1, .int v.l2, .int v.l3, .int v.l4]

set_option maxHeartbeats 4000000 in
theorem callE_carryPropagateGeneric (h0 : Heap) (ovr ext) (bv ov : Nat) (v0 v1 v2 v3 v4 : Nat) (hfv : Fits h0 bv ov 5) (d : Nat)
    (cfi : Nat) (cf : Func) (cregs cparams : Array RVal) (cblk : Nat) (crest : List Instr) (cdest : Option Nat) (frs : List Frame) :
    steps prog 47 ⟨mkE h0 ((bv, ov, [.int v0, .int v1, .int v2, .int v3, .int v4]) :: ovr) ext,
        ⟨84, f84, #[], #[[.ptr bv ov]], 0, body84, some d⟩ :: ⟨cfi, cf, cregs, cparams, cblk, crest, cdest⟩ :: frs⟩
      = some ⟨mkE h0 ((bv, ov, [.int (cpg v0 v1 v2 v3 v4).l0, .int (cpg v0 v1 v2 v3 v4).l1, .int (cpg v0 v1 v2 v3 v4).l2,
                              .int (cpg v0 v1 v2 v3 v4).l3, .int (cpg v0 v1 v2 v3 v4).l4]) :: ovr) ext,
          ⟨cfi, cf, regSet cregs d [.ptr bv ov], cparams, cblk, crest, cdest⟩ :: frs⟩ := by
  simp only [body84]
  ssa_execE [resultTys_84, hfv]
  rfl

derive_rules callE_carryPropagateGeneric runE_carryPropagateGeneric stepsE_carryPropagateGeneric

set_option maxHeartbeats 4000000 in
theorem callE_carryPropagate (h0 : Heap) (ovr ext) (bv ov : Nat) (v0 v1 v2 v3 v4 : Nat) (hfv : Fits h0 bv ov 5) (d : Nat)
    (cfi : Nat) (cf : Func) (cregs cparams : Array RVal) (cblk : Nat) (crest : List Instr) (cdest : Option Nat) (frs : List Frame) :
    steps prog 49 ⟨mkE h0 ((bv, ov, [.int v0, .int v1, .int v2, .int v3, .int v4]) :: ovr) ext,
        ⟨83, f83, #[], #[[.ptr bv ov]], 0, body83, some d⟩ :: ⟨cfi, cf, cregs, cparams, cblk, crest, cdest⟩ :: frs⟩
      = some ⟨mkE h0 ((bv, ov, [.int (cp v0 v1 v2 v3 v4).l0, .int (cp v0 v1 v2 v3 v4).l1, .int (cp v0 v1 v2 v3 v4).l2,
                              .int (cp v0 v1 v2 v3 v4).l3, .int (cp v0 v1 v2 v3 v4).l4]) :: ovr) ext,
          ⟨cfi, cf, regSet cregs d [.ptr bv ov], cparams, cblk, crest, cdest⟩ :: frs⟩ := by
  simp only [body83]
  ssa_execE [resultTys_83, funcs_84, mkFrame_84, ↓stepsE_carryPropagateGeneric, hfv]
  rfl

derive_rules callE_carryPropagate runE_carryPropagate stepsE_carryPropagate

end EdVerif.Ssa.Tie
