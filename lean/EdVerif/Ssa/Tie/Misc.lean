import EdVerif.Ssa.Tie.Carry
import EdVerif.Ssa.Tie.Arith
/-!
# `(*field.Element).Set`, `Zero`, `One`, `field.mul51`, `(*field.Element).Mult32`
-/
namespace EdVerif.Ssa.Tie
open EdVerif.Ssa EdVerif.Gen.Ssa EdVerif.Prims
set_option maxRecDepth 100000

/-! ## `Set` -/

def body74 : List Instr := body% f74
theorem funcs_74 : prog.funcs[74]? = some f74 := rfl
theorem mkFrame_74 (args : List RVal) (dest : Option Nat) :
    mkFrame 74 f74 args dest = some ⟨74, f74, #[], args.toArray, 0, body74, dest⟩ := rfl
theorem resultTys_74 : f74.resultTys = [19] := rfl
theorem funcIdx_74 : prog.funcIdx? (nm! "(*field.Element).Set") = some 74 := by decide +kernel

set_option maxHeartbeats 4000000 in
theorem core_Set (h0 : Heap) (ovr ext) (bv ba : Nat) (v0 v1 v2 v3 v4 a0 a1 a2 a3 a4 : Nat)
    (hbv : bv < h0.blocks.size) (hba : ba < h0.blocks.size) (hva : bv ≠ ba) :
    run prog 3 ⟨mkH h0 ((bv, #[.int v0, .int v1, .int v2, .int v3, .int v4]) :: (ba, #[.int a0, .int a1, .int a2, .int a3, .int a4]) :: ovr) ext,
        [⟨74, f74, #[], #[[.ptr bv 0], [.ptr ba 0]], 0, body74, none⟩]⟩
      = .done ⟨mkH h0 ((bv, feCells (EdVerif.Gen.Field.Set ⟨v0, v1, v2, v3, v4⟩ ⟨a0, a1, a2, a3, a4⟩)) :: (ba, #[.int a0, .int a1, .int a2, .int a3, .int a4]) :: ovr) ext, []⟩
          [[.ptr bv 0]] := by
  simp only [body74]
  ssa_exec [resultTys_74, read_hit, read_miss, write_hit, hbv, hba, hva, hva.symm, ne_eq, not_false_eq_true]
  rfl

/-- **tie**: `v.Set(a)` (distinct blocks) -/
theorem tie_Set (h : Heap) (bv ba : Nat) (v a : Fe)
    (hv : h.blocks[bv]? = some (feCells v)) (ha : h.blocks[ba]? = some (feCells a)) (hva : bv ≠ ba) :
    ∃ h', runCall prog 3 h (nm! "(*field.Element).Set") [[.ptr bv 0], [.ptr ba 0]] = some (.done ⟨h', []⟩ [[.ptr bv 0]])
      ∧ Post1 h h' bv (feCells (EdVerif.Gen.Field.Set v a)) := by
  obtain ⟨v0, v1, v2, v3, v4⟩ := v
  obtain ⟨a0, a1, a2, a3, a4⟩ := a
  have core := core_Set h [] [] bv ba v0 v1 v2 v3 v4 a0 a1 a2 a3 a4 (lt_of_get hv) (lt_of_get ha) hva
  have hall : ∀ kv ∈ [(ba, feCells ⟨a0, a1, a2, a3, a4⟩)], h.blocks[kv.1]? = some kv.2 := by simp [ha]
  rw [show mkH h [(bv, #[.int v0, .int v1, .int v2, .int v3, .int v4]), (ba, #[.int a0, .int a1, .int a2, .int a3, .int a4])] [] = h from
      mkH_intro h _ (by simpa [feCells] using ⟨hv, ha⟩)] at core
  refine ⟨_, ?_, post1_mkH _ [] (lt_of_get hv) hall⟩
  simp only [runCall, funcIdx_74, callState, funcs_74, mkFrame_74, Option.bind_some, Option.map_some, Option.pure_def,
    Option.bind_eq_bind]
  rw [core]; rfl


/-! ## `Zero`, `One`

The Go code is `*v = *feZero` / `*v = *feOne`: the package-level variable (global 12 / 11, i.e. block 13 / 12 of the heap)
holds a pointer to an `Element`.  Hypotheses: that variable points to a block `bz` holding the limbs of T1's `feZero` / `feOne`
(what `field.init` establishes). -/

def body81 : List Instr := body% f81
theorem funcs_81 : prog.funcs[81]? = some f81 := rfl
theorem mkFrame_81 (args : List RVal) (dest : Option Nat) :
    mkFrame 81 f81 args dest = some ⟨81, f81, #[], args.toArray, 0, body81, dest⟩ := rfl
theorem resultTys_81 : f81.resultTys = [19] := rfl
theorem funcIdx_81 : prog.funcIdx? (nm! "(*field.Element).Zero") = some 81 := by decide +kernel
theorem globalIdx_feZero : prog.globalIdx? (nm! "field.feZero") = some 12 := by decide +kernel
theorem globalIdx_feOne : prog.globalIdx? (nm! "field.feOne") = some 11 := by decide +kernel

set_option maxHeartbeats 4000000 in
theorem core_Zero (h0 : Heap) (ovr ext) (bv bz g : Nat) (v0 v1 v2 v3 v4 z0 z1 z2 z3 z4 : Nat)
    (hbv : bv < h0.blocks.size) (hbz : bz < h0.blocks.size) (hg : g + 1 < h0.blocks.size)
    (hvz : bv ≠ bz) (hvg : bv ≠ g + 1) (hzg : bz ≠ g + 1) (fi : Nat) (f : Func) (body : List Instr) (l1 l2 : Nat)
    (hbody : body = [⟨0, .ptr, l1, .load (.global g), 19, [50]⟩, ⟨1, (.agg false), l1, .load (.reg 0), 4, [19]⟩,
        ⟨2, .none, l1, .store (.agg false) (.param 0) (.reg 1), 0, [19, 4]⟩, ⟨3, .none, l2, .ret [(.param 0)], 0, [19]⟩])
    (hres : f.resultTys = [19]) :
    run prog 4 ⟨mkH h0 ((bv, #[.int v0, .int v1, .int v2, .int v3, .int v4]) :: (g + 1, #[.ptr bz 0])
                    :: (bz, #[.int z0, .int z1, .int z2, .int z3, .int z4]) :: ovr) ext,
        [⟨fi, f, #[], #[[.ptr bv 0]], 0, body, none⟩]⟩
      = .done ⟨mkH h0 ((bv, #[.int z0, .int z1, .int z2, .int z3, .int z4]) :: (g + 1, #[.ptr bz 0])
                    :: (bz, #[.int z0, .int z1, .int z2, .int z3, .int z4]) :: ovr) ext, []⟩ [[.ptr bv 0]] := by
  subst hbody
  ssa_exec [hres, read_hit, read_miss, write_hit, hbv, hbz, hg, hvz, hvg, hzg, hvz.symm, hvg.symm, hzg.symm, ne_eq, not_false_eq_true]


theorem ne_of_cells {h : Heap} {b1 b2 : Nat} {V1 V2 : Array Val} (h1 : h.blocks[b1]? = some V1) (h2 : h.blocks[b2]? = some V2)
    (hne : V1 ≠ V2) : b1 ≠ b2 := by
  intro e; subst e; rw [h1] at h2; exact hne (Option.some.inj h2)

/-- **tie**: `v.Zero()`; `bz` is the block the package variable `feZero` points to -/
theorem tie_Zero (h : Heap) (bv bz : Nat) (v : Fe)
    (hv : h.blocks[bv]? = some (feCells v)) (hg : h.blocks[13]? = some #[.ptr bz 0])
    (hz : h.blocks[bz]? = some (feCells EdVerif.Gen.Field.feZero)) (hvz : bv ≠ bz) :
    ∃ h', runCall prog 4 h (nm! "(*field.Element).Zero") [[.ptr bv 0]] = some (.done ⟨h', []⟩ [[.ptr bv 0]])
      ∧ Post1 h h' bv (feCells (EdVerif.Gen.Field.Zero v)) := by
  obtain ⟨v0, v1, v2, v3, v4⟩ := v
  have hvg : bv ≠ 12 + 1 := ne_of_cells hv hg (by simp [feCells])
  have hzg : bz ≠ 12 + 1 := ne_of_cells hz hg (by simp [feCells])
  have core := core_Zero h [] [] bv bz 12 v0 v1 v2 v3 v4 0 0 0 0 0 (lt_of_get hv) (lt_of_get hz) (lt_of_get hg) hvz hvg hzg
    81 f81 body81 41 42 rfl resultTys_81
  have hall : ∀ kv ∈ [(12 + 1, #[Val.ptr bz 0]), (bz, #[Val.int 0, .int 0, .int 0, .int 0, .int 0])], h.blocks[kv.1]? = some kv.2 := by
    simpa [feCells, EdVerif.Gen.Field.feZero] using ⟨hg, hz⟩
  rw [show mkH h [(bv, #[.int v0, .int v1, .int v2, .int v3, .int v4]), (12 + 1, #[.ptr bz 0]), (bz, #[.int 0, .int 0, .int 0, .int 0, .int 0])] [] = h from
      mkH_intro h _ (by simpa [feCells, EdVerif.Gen.Field.feZero] using ⟨hv, hg, hz⟩)] at core
  refine ⟨_, ?_, post1_mkH _ [] (lt_of_get hv) hall⟩
  simp only [runCall, funcIdx_81, callState, funcs_81, mkFrame_81, Option.bind_some, Option.map_some, Option.pure_def,
    Option.bind_eq_bind]
  rw [core]; rfl

def body71 : List Instr := body% f71
theorem funcs_71 : prog.funcs[71]? = some f71 := rfl
theorem mkFrame_71 (args : List RVal) (dest : Option Nat) :
    mkFrame 71 f71 args dest = some ⟨71, f71, #[], args.toArray, 0, body71, dest⟩ := rfl
theorem resultTys_71 : f71.resultTys = [19] := rfl
theorem funcIdx_71 : prog.funcIdx? (nm! "(*field.Element).One") = some 71 := by decide +kernel

/-- **tie**: `v.One()`; `bz` is the block the package variable `feOne` points to -/
theorem tie_One (h : Heap) (bv bz : Nat) (v : Fe)
    (hv : h.blocks[bv]? = some (feCells v)) (hg : h.blocks[12]? = some #[.ptr bz 0])
    (hz : h.blocks[bz]? = some (feCells EdVerif.Gen.Field.feOne)) (hvz : bv ≠ bz) :
    ∃ h', runCall prog 4 h (nm! "(*field.Element).One") [[.ptr bv 0]] = some (.done ⟨h', []⟩ [[.ptr bv 0]])
      ∧ Post1 h h' bv (feCells (EdVerif.Gen.Field.One v)) := by
  obtain ⟨v0, v1, v2, v3, v4⟩ := v
  have hvg : bv ≠ 11 + 1 := ne_of_cells hv hg (by simp [feCells])
  have hzg : bz ≠ 11 + 1 := ne_of_cells hz hg (by simp [feCells])
  have core := core_Zero h [] [] bv bz 11 v0 v1 v2 v3 v4 1 0 0 0 0 (lt_of_get hv) (lt_of_get hz) (lt_of_get hg) hvz hvg hzg
    71 f71 body71 49 50 rfl resultTys_71
  have hall : ∀ kv ∈ [(11 + 1, #[Val.ptr bz 0]), (bz, #[Val.int 1, .int 0, .int 0, .int 0, .int 0])], h.blocks[kv.1]? = some kv.2 := by
    simpa [feCells, EdVerif.Gen.Field.feOne] using ⟨hg, hz⟩
  rw [show mkH h [(bv, #[.int v0, .int v1, .int v2, .int v3, .int v4]), (11 + 1, #[.ptr bz 0]), (bz, #[.int 1, .int 0, .int 0, .int 0, .int 0])] [] = h from
      mkH_intro h _ (by simpa [feCells, EdVerif.Gen.Field.feOne] using ⟨hv, hg, hz⟩)] at core
  refine ⟨_, ?_, post1_mkH _ [] (lt_of_get hv) hall⟩
  simp only [runCall, funcIdx_71, callState, funcs_71, mkFrame_71, Option.bind_some, Option.map_some, Option.pure_def,
    Option.bind_eq_bind]
  rw [core]; rfl


/-! ## `field.mul51` -/

def body115 : List Instr := body% f115
theorem funcs_115 : prog.funcs[115]? = some f115 := rfl
theorem mkFrame_115 (args : List RVal) (dest : Option Nat) :
    mkFrame 115 f115 args dest = some ⟨115, f115, #[], args.toArray, 0, body115, dest⟩ := rfl
theorem resultTys_115 : f115.resultTys = [3, 3] := rfl
theorem funcIdx_115 : prog.funcIdx? (nm! "field.mul51") = some 115 := by decide +kernel

set_option maxHeartbeats 4000000 in
/-- the second argument is a `uint32`; the conversion to `uint64` (dropped by T1) is the identity below `2^64` -/
theorem call_mul51 (hp : Heap) (a y d : Nat) (hy : y < 2 ^ 64) (cfi : Nat) (cf : Func) (cregs cparams : Array RVal) (cblk : Nat)
    (crest : List Instr) (cdest : Option Nat) (frs : List Frame) :
    steps prog 9 ⟨hp, ⟨115, f115, #[], #[[.int a], [.int y]], 0, body115, some d⟩ :: ⟨cfi, cf, cregs, cparams, cblk, crest, cdest⟩ :: frs⟩
      = some ⟨hp, ⟨cfi, cf, regSet cregs d [.int (EdVerif.Gen.Field.mul51 a y).1, .int (EdVerif.Gen.Field.mul51 a y).2], cparams, cblk, crest, cdest⟩ :: frs⟩ := by
  simp only [body115]
  ssa_exec [resultTys_115, wrap64_of_lt y hy, and_eq, or_eq, shl_eq, shr_eq]
  simp only [EdVerif.Gen.Field.mul51, Bits.Mul64]

derive_rules call_mul51 run_mul51 steps_mul51

set_option maxHeartbeats 4000000 in
/-- **tie**: `field.mul51` -/
theorem tie_mul51 (h : Heap) (a y : Nat) (hy : y < 2 ^ 64) :
    runCall prog 9 h (nm! "field.mul51") [[.int a], [.int y]]
      = some (.done ⟨h, []⟩ [[.int (EdVerif.Gen.Field.mul51 a y).1], [.int (EdVerif.Gen.Field.mul51 a y).2]]) := by
  simp only [runCall, funcIdx_115, callState, funcs_115, mkFrame_115, Option.bind_some, Option.map_some, Option.pure_def,
    Option.bind_eq_bind, body115]
  ssa_exec [resultTys_115, wrap64_of_lt y hy, and_eq, or_eq, shl_eq, shr_eq]
  simp only [EdVerif.Gen.Field.mul51, Bits.Mul64]

/-! ## `(*field.Element).Mult32` -/

def body68 : List Instr := body% f68
theorem funcs_68 : prog.funcs[68]? = some f68 := rfl
theorem mkFrame_68 (args : List RVal) (dest : Option Nat) :
    mkFrame 68 f68 args dest = some ⟨68, f68, #[], args.toArray, 0, body68, dest⟩ := rfl
theorem resultTys_68 : f68.resultTys = [19] := rfl
theorem funcIdx_68 : prog.funcIdx? (nm! "(*field.Element).Mult32") = some 68 := by decide +kernel

abbrev Mult32T (v0 v1 v2 v3 v4 a0 a1 a2 a3 a4 y : Nat) : Fe :=
  EdVerif.Gen.Field.Mult32 ⟨v0, v1, v2, v3, v4⟩ ⟨a0, a1, a2, a3, a4⟩ y

set_option maxHeartbeats 16000000 in
theorem core_Mult32 (h0 : Heap) (ovr ext) (bv ba : Nat) (v0 v1 v2 v3 v4 a0 a1 a2 a3 a4 y : Nat) (hy : y < 2 ^ 64)
    (hbv : bv < h0.blocks.size) (hba : ba < h0.blocks.size) (hva : bv ≠ ba) :
    run prog 87 ⟨mkH h0 ((bv, #[.int v0, .int v1, .int v2, .int v3, .int v4]) :: (ba, #[.int a0, .int a1, .int a2, .int a3, .int a4]) :: ovr) ext,
        [⟨68, f68, #[], #[[.ptr bv 0], [.ptr ba 0], [.int y]], 0, body68, none⟩]⟩
      = .done ⟨mkH h0 ((bv, feCells (Mult32T v0 v1 v2 v3 v4 a0 a1 a2 a3 a4 y)) :: (ba, #[.int a0, .int a1, .int a2, .int a3, .int a4]) :: ovr) ext, []⟩
          [[.ptr bv 0]] := by
  simp only [body68]
  ssa_exec [resultTys_68, funcs_115, mkFrame_115, ↓run_mul51, add_eq, mul_eq, read_hit, read_miss, write_hit, hbv, hba, hy, hva, hva.symm,
    ne_eq, not_false_eq_true]
  rfl

/-- **tie**: `v.Mult32(a, y)` (distinct blocks; `y` a `uint32`, only `y < 2^64` is needed) -/
theorem tie_Mult32 (h : Heap) (bv ba : Nat) (v a : Fe) (y : Nat) (hy : y < 2 ^ 64)
    (hv : h.blocks[bv]? = some (feCells v)) (ha : h.blocks[ba]? = some (feCells a)) (hva : bv ≠ ba) :
    ∃ h', runCall prog 87 h (nm! "(*field.Element).Mult32") [[.ptr bv 0], [.ptr ba 0], [.int y]] = some (.done ⟨h', []⟩ [[.ptr bv 0]])
      ∧ Post1 h h' bv (feCells (EdVerif.Gen.Field.Mult32 v a y)) := by
  obtain ⟨v0, v1, v2, v3, v4⟩ := v
  obtain ⟨a0, a1, a2, a3, a4⟩ := a
  have core := core_Mult32 h [] [] bv ba v0 v1 v2 v3 v4 a0 a1 a2 a3 a4 y hy (lt_of_get hv) (lt_of_get ha) hva
  have hall : ∀ kv ∈ [(ba, feCells ⟨a0, a1, a2, a3, a4⟩)], h.blocks[kv.1]? = some kv.2 := by simp [ha]
  rw [show mkH h [(bv, #[.int v0, .int v1, .int v2, .int v3, .int v4]), (ba, #[.int a0, .int a1, .int a2, .int a3, .int a4])] [] = h from
      mkH_intro h _ (by simpa [feCells] using ⟨hv, ha⟩)] at core
  refine ⟨_, ?_, post1_mkH _ [] (lt_of_get hv) hall⟩
  simp only [runCall, funcIdx_68, callState, funcs_68, mkFrame_68, Option.bind_some, Option.map_some, Option.pure_def,
    Option.bind_eq_bind]
  rw [core]; rfl

end EdVerif.Ssa.Tie
