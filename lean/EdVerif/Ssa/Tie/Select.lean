import EdVerif.Ssa.Tie.Carry
import EdVerif.Ssa.Tie.Arith
/-!
# `field.mask64Bits`, `(*field.Element).Select`, `(*field.Element).Swap`
-/
namespace EdVerif.Ssa.Tie
open EdVerif.Ssa EdVerif.Gen.Ssa EdVerif.Prims
set_option maxRecDepth 100000

/-! ## `field.mask64Bits` -/

def body114 : List Instr := body% f114
theorem funcs_114 : prog.funcs[114]? = some f114 := rfl
theorem mkFrame_114 (args : List RVal) (dest : Option Nat) :
    mkFrame 114 f114 args dest = some ⟨114, f114, #[], args.toArray, 0, body114, dest⟩ := rfl
theorem resultTys_114 : f114.resultTys = [3] := rfl
theorem funcIdx_114 : prog.funcIdx? (nm! "field.mask64Bits") = some 114 := by decide +kernel

set_option maxHeartbeats 4000000 in
theorem call_mask64Bits (hp : Heap) (c d : Nat) (hc : c < 2 ^ 64) (cfi : Nat) (cf : Func) (cregs cparams : Array RVal) (cblk : Nat)
    (crest : List Instr) (cdest : Option Nat) (frs : List Frame) :
    steps prog 4 ⟨hp, ⟨114, f114, #[], #[[.int c]], 0, body114, some d⟩ :: ⟨cfi, cf, cregs, cparams, cblk, crest, cdest⟩ :: frs⟩
      = some ⟨hp, ⟨cfi, cf, regSet cregs d [.int (EdVerif.Gen.Field.mask64Bits c)], cparams, cblk, crest, cdest⟩ :: frs⟩ := by
  simp only [body114]
  ssa_exec [resultTys_114]
  rw [ofInt_toInt64 c hc, not64 _ (wrap_lt _ _)]
  rfl

derive_rules call_mask64Bits run_mask64Bits steps_mask64Bits

/-- **tie**: `field.mask64Bits` (argument below `2^64`, i.e. any `int` in two's complement) -/
theorem tie_mask64Bits (h : Heap) (c : Nat) (hc : c < 2 ^ 64) :
    runCall prog 4 h (nm! "field.mask64Bits") [[.int c]] = some (.done ⟨h, []⟩ [[.int (EdVerif.Gen.Field.mask64Bits c)]]) := by
  simp only [runCall, funcIdx_114, callState, funcs_114, mkFrame_114, Option.bind_some, Option.map_some, Option.pure_def,
    Option.bind_eq_bind, body114]
  ssa_exec [resultTys_114]
  rw [ofInt_toInt64 c hc, not64 _ (wrap_lt _ _)]
  rfl

theorem mask_lt (c : Nat) : EdVerif.Gen.Field.mask64Bits c < 2 ^ 64 := by
  simp only [EdVerif.Gen.Field.mask64Bits, U.not]; omega

theorem not64_mask (c : Nat) : (2 ^ 64 - 1) ^^^ EdVerif.Gen.Field.mask64Bits c = U.not 64 (EdVerif.Gen.Field.mask64Bits c) :=
  not64 _ (mask_lt c)



/-! ## `(*field.Element).Select` -/

def body73 : List Instr := body% f73
theorem funcs_73 : prog.funcs[73]? = some f73 := rfl
theorem mkFrame_73 (args : List RVal) (dest : Option Nat) :
    mkFrame 73 f73 args dest = some ⟨73, f73, #[], args.toArray, 0, body73, dest⟩ := rfl
theorem resultTys_73 : f73.resultTys = [19] := rfl
theorem funcIdx_73 : prog.funcIdx? (nm! "(*field.Element).Select") = some 73 := by decide +kernel

abbrev SelT (v0 v1 v2 v3 v4 a0 a1 a2 a3 a4 b0 b1 b2 b3 b4 c : Nat) : Fe :=
  EdVerif.Gen.Field.Select ⟨v0, v1, v2, v3, v4⟩ ⟨a0, a1, a2, a3, a4⟩ ⟨b0, b1, b2, b3, b4⟩ c

set_option maxHeartbeats 16000000 in
/-- `v.Select(a, b, cond)` as the outermost call on a canonical heap, `v`, `a`, `b` pairwise distinct blocks -/
theorem core_Select (h0 : Heap) (ovr ext) (bv ba bb : Nat) (v0 v1 v2 v3 v4 a0 a1 a2 a3 a4 b0 b1 b2 b3 b4 c : Nat) (hc : c < 2 ^ 64)
    (hbv : bv < h0.blocks.size) (hba : ba < h0.blocks.size) (hbb : bb < h0.blocks.size)
    (hva : bv ≠ ba) (hvb : bv ≠ bb) (hab : ba ≠ bb) :
    run prog 56 ⟨mkH h0 ((bv, #[.int v0, .int v1, .int v2, .int v3, .int v4]) :: (ba, #[.int a0, .int a1, .int a2, .int a3, .int a4])
                    :: (bb, #[.int b0, .int b1, .int b2, .int b3, .int b4]) :: ovr) ext,
        [⟨73, f73, #[], #[[.ptr bv 0], [.ptr ba 0], [.ptr bb 0], [.int c]], 0, body73, none⟩]⟩
      = .done ⟨mkH h0 ((bv, feCells (SelT v0 v1 v2 v3 v4 a0 a1 a2 a3 a4 b0 b1 b2 b3 b4 c)) :: (ba, #[.int a0, .int a1, .int a2, .int a3, .int a4])
                    :: (bb, #[.int b0, .int b1, .int b2, .int b3, .int b4]) :: ovr) ext, []⟩ [[.ptr bv 0]] := by
  simp only [body73]
  ssa_exec [resultTys_73, funcs_114, mkFrame_114, ↓run_mask64Bits, not64_mask, and_eq, or_eq, read_hit, read_miss, write_hit, hbv, hba, hbb, hc,
    hva, hvb, hab, hva.symm, hvb.symm, hab.symm, ne_eq, not_false_eq_true]
  simp only [feCells, SelT, EdVerif.Gen.Field.Select]

/-- **tie**: `v.Select(a, b, cond)` (three distinct blocks; `cond` any 64-bit value) -/
theorem tie_Select (h : Heap) (bv ba bb : Nat) (v a b : Fe) (c : Nat) (hc : c < 2 ^ 64)
    (hv : h.blocks[bv]? = some (feCells v)) (ha : h.blocks[ba]? = some (feCells a)) (hb : h.blocks[bb]? = some (feCells b))
    (hva : bv ≠ ba) (hvb : bv ≠ bb) (hab : ba ≠ bb) :
    ∃ h', runCall prog 56 h (nm! "(*field.Element).Select") [[.ptr bv 0], [.ptr ba 0], [.ptr bb 0], [.int c]]
            = some (.done ⟨h', []⟩ [[.ptr bv 0]])
      ∧ Post1 h h' bv (feCells (EdVerif.Gen.Field.Select v a b c)) := by
  obtain ⟨v0, v1, v2, v3, v4⟩ := v
  obtain ⟨a0, a1, a2, a3, a4⟩ := a
  obtain ⟨b0, b1, b2, b3, b4⟩ := b
  have core := core_Select h [] [] bv ba bb v0 v1 v2 v3 v4 a0 a1 a2 a3 a4 b0 b1 b2 b3 b4 c hc (lt_of_get hv) (lt_of_get ha) (lt_of_get hb) hva hvb hab
  have hall : ∀ kv ∈ [(ba, feCells ⟨a0, a1, a2, a3, a4⟩), (bb, feCells ⟨b0, b1, b2, b3, b4⟩)], h.blocks[kv.1]? = some kv.2 := by
    simp [ha, hb]
  rw [show mkH h [(bv, #[.int v0, .int v1, .int v2, .int v3, .int v4]), (ba, #[.int a0, .int a1, .int a2, .int a3, .int a4]),
        (bb, #[.int b0, .int b1, .int b2, .int b3, .int b4])] [] = h from
      mkH_intro h _ (by simpa [feCells] using ⟨hv, ha, hb⟩)] at core
  refine ⟨_, ?_, post1_mkH _ [] (lt_of_get hv) hall⟩
  simp only [runCall, funcIdx_73, callState, funcs_73, mkFrame_73, Option.bind_some, Option.map_some, Option.pure_def,
    Option.bind_eq_bind]
  rw [core]; rfl


/-! ## `(*field.Element).Swap` -/

def body80 : List Instr := body% f80
theorem funcs_80 : prog.funcs[80]? = some f80 := rfl
theorem mkFrame_80 (args : List RVal) (dest : Option Nat) :
    mkFrame 80 f80 args dest = some ⟨80, f80, #[], args.toArray, 0, body80, dest⟩ := rfl
theorem resultTys_80 : f80.resultTys = [] := rfl
theorem funcIdx_80 : prog.funcIdx? (nm! "(*field.Element).Swap") = some 80 := by decide +kernel

abbrev SwapT (v0 v1 v2 v3 v4 u0 u1 u2 u3 u4 c : Nat) : Fe × Fe :=
  EdVerif.Gen.Field.Swap ⟨v0, v1, v2, v3, v4⟩ ⟨u0, u1, u2, u3, u4⟩ c

set_option maxHeartbeats 16000000 in
/-- `v.Swap(u, cond)` as the outermost call on a canonical heap, `v`, `u` distinct blocks -/
theorem core_Swap (h0 : Heap) (ovr ext) (bv bu : Nat) (v0 v1 v2 v3 v4 u0 u1 u2 u3 u4 c : Nat) (hc : c < 2 ^ 64)
    (hbv : bv < h0.blocks.size) (hbu : bu < h0.blocks.size) (hvu : bv ≠ bu) :
    run prog 86 ⟨mkH h0 ((bv, #[.int v0, .int v1, .int v2, .int v3, .int v4]) :: (bu, #[.int u0, .int u1, .int u2, .int u3, .int u4]) :: ovr) ext,
        [⟨80, f80, #[], #[[.ptr bv 0], [.ptr bu 0], [.int c]], 0, body80, none⟩]⟩
      = .done ⟨mkH h0 ((bv, feCells (SwapT v0 v1 v2 v3 v4 u0 u1 u2 u3 u4 c).1) :: (bu, feCells (SwapT v0 v1 v2 v3 v4 u0 u1 u2 u3 u4 c).2) :: ovr) ext, []⟩ [] := by
  simp only [body80]
  ssa_exec [resultTys_80, funcs_114, mkFrame_114, ↓run_mask64Bits, and_eq, xor_eq, read_hit, read_miss, write_hit, write_hit1,
    hbv, hbu, hc, hvu, hvu.symm, ne_eq, not_false_eq_true]
  simp only [feCells, SwapT, EdVerif.Gen.Field.Swap]

/-- **tie**: `v.Swap(u, cond)` (two distinct blocks; `cond` any 64-bit value): afterwards the blocks hold the two components
    of T1's `Swap v u cond`; nothing else changes. -/
theorem tie_Swap (h : Heap) (bv bu : Nat) (v u : Fe) (c : Nat) (hc : c < 2 ^ 64)
    (hv : h.blocks[bv]? = some (feCells v)) (hu : h.blocks[bu]? = some (feCells u)) (hvu : bv ≠ bu) :
    ∃ h', runCall prog 86 h (nm! "(*field.Element).Swap") [[.ptr bv 0], [.ptr bu 0], [.int c]] = some (.done ⟨h', []⟩ [])
      ∧ Post2 h h' bv (feCells (EdVerif.Gen.Field.Swap v u c).1) bu (feCells (EdVerif.Gen.Field.Swap v u c).2) := by
  obtain ⟨v0, v1, v2, v3, v4⟩ := v
  obtain ⟨u0, u1, u2, u3, u4⟩ := u
  have core := core_Swap h [] [] bv bu v0 v1 v2 v3 v4 u0 u1 u2 u3 u4 c hc (lt_of_get hv) (lt_of_get hu) hvu
  rw [show mkH h [(bv, #[.int v0, .int v1, .int v2, .int v3, .int v4]), (bu, #[.int u0, .int u1, .int u2, .int u3, .int u4])] [] = h from
      mkH_intro h _ (by simpa [feCells] using ⟨hv, hu⟩)] at core
  refine ⟨_, ?_, post2_mkH (ovr := []) _ _ [] (lt_of_get hv) (lt_of_get hu) hvu (by simp)⟩
  simp only [runCall, funcIdx_80, callState, funcs_80, mkFrame_80, Option.bind_some, Option.map_some, Option.pure_def,
    Option.bind_eq_bind]
  rw [core]

end EdVerif.Ssa.Tie
