import EdVerif.Ssa.Tie.FeReduceE
/-!
# Rewrite rules for the byte layer: `Index`, `i64` arithmetic on literals, `[N]byte` allocations,
`binary.LittleEndian.PutUint64`, `subtle.ConstantTimeCompare`, and the blocks of `(*field.Element).bytes` (function 82)
-/
namespace EdVerif.Ssa.Tie
open EdVerif.Ssa EdVerif.Gen.Ssa EdVerif.Prims EdVerif.Impl
set_option maxRecDepth 100000
set_option linter.unusedVariables false

section rules
variable (p : Program) (hp : Heap) (fi : Nat) (f : Func) (regs params : Array RVal) (blk : Nat) (rest : List Instr)
  (dest : Option Nat) (frs : List Frame) (id : Nat) (k : VK) (ln ty : Nat) (tys : List Nat)

theorem step_index (x ix : Opnd) :
    step p ⟨hp, ⟨fi, f, regs, params, blk, ⟨id, k, ln, .index x ix, ty, tys⟩ :: rest, dest⟩ :: frs⟩
      = stepIndex p hp ⟨fi, f, regs, params, blk, rest, dest⟩ frs ⟨id, k, ln, .index x ix, ty, tys⟩ x ix := rfl

end rules

/-! ## `int` (i64) arithmetic on small literals -/

theorem wrap64_lit (n : Nat) (h : n < 18446744073709551616) : wrap 64 n = n := Nat.mod_eq_of_lt h
theorem wrap64_2p64 : wrap 64 18446744073709551616 = 0 := by decide

theorem toInt64_small (a : Nat) (ha : a < 9223372036854775808) : toInt 64 a = (a : Int) := by
  have h1 : a < 2 ^ (64 - 1) := by omega
  simp [toInt, h1]

theorem ofInt64_nat (n : Nat) (h : n < 18446744073709551616) : ofInt 64 (n : Int) = n := by
  simp only [ofInt]
  have : ((n : Int) % ((2 ^ 64 : Nat) : Int)) = (n : Int) := by omega
  rw [this]; rfl

theorem ge_i64 (a b : Nat) (ha : a < 9223372036854775808) (hb : b < 9223372036854775808) :
    decide (asInt 64 true a ≥ asInt 64 true b) = decide (b ≤ a) := by
  simp only [asInt, if_true, toInt64_small a ha, toInt64_small b hb]
  simp

theorem rem_i64 (a b : Nat) (ha : a < 9223372036854775808) (hb : b < 9223372036854775808) :
    ofInt 64 (Int.tmod (toInt 64 a) (toInt 64 b)) = a % b := by
  rw [toInt64_small a ha, toInt64_small b hb]
  have e : Int.tmod (a : Int) (b : Int) = ((a % b : Nat) : Int) := by
    rw [Int.tmod_eq_emod_of_nonneg (by omega)]; simp
  rw [e]
  apply ofInt64_nat
  have : a % b ≤ a := Nat.mod_le a b
  omega

theorem quo_i64 (a b : Nat) (ha : a < 9223372036854775808) (hb : b < 9223372036854775808) :
    ofInt 64 (Int.tdiv (toInt 64 a) (toInt 64 b)) = a / b := by
  rw [toInt64_small a ha, toInt64_small b hb]
  have e : Int.tdiv (a : Int) (b : Int) = ((a / b : Nat) : Int) := by
    rw [Int.tdiv_eq_ediv_of_nonneg (by omega)]; simp
  rw [e]
  apply ofInt64_nat
  have : a / b ≤ a := Nat.div_le_self a b
  omega

theorem conv_i64_u64 (c : Nat) (hc : c < 9223372036854775808) : ofInt 64 (toInt 64 c) = c :=
  ofInt_toInt64 c (by omega)

/-! ## the types of the byte layer -/

theorem tyOf_15 : prog.tyOf 15 = .int 8 false := rfl
theorem tyOf_17 : prog.tyOf 17 = .arr 32 15 := rfl
theorem tyOf_18 : prog.tyOf 18 = .ptr 17 := rfl
theorem tyOf_52 : prog.tyOf 52 = .ptr 15 := rfl
theorem tyOf_66 : prog.tyOf 66 = .arr 5 3 := rfl
theorem tyOf_67 : prog.tyOf 67 = .ptr 66 := rfl
theorem tyOf_68 : prog.tyOf 68 = .ptr 12 := rfl
theorem tyOf_74 : prog.tyOf 74 = .arr 8 15 := rfl
theorem tyOf_75 : prog.tyOf 75 = .ptr 74 := rfl
theorem size_3 : prog.size 3 = some 1 := rfl
theorem zeros_15 : prog.zeros 15 = some [.int 0] := rfl
theorem zeros_66 : prog.zeros 66 = some [.int 0, .int 0, .int 0, .int 0, .int 0] := rfl
theorem zeros_74 : prog.zeros 74 = some [.int 0, .int 0, .int 0, .int 0, .int 0, .int 0, .int 0, .int 0] := rfl
theorem zeros_17 : prog.zeros 17 = some [.int 0, .int 0, .int 0, .int 0, .int 0, .int 0, .int 0, .int 0,
    .int 0, .int 0, .int 0, .int 0, .int 0, .int 0, .int 0, .int 0, .int 0, .int 0, .int 0, .int 0, .int 0, .int 0, .int 0, .int 0,
    .int 0, .int 0, .int 0, .int 0, .int 0, .int 0, .int 0, .int 0] := rfl
theorem intOfTy_15 : intOfTy prog 15 = some (8, false) := rfl

theorem cls8 (a b c d e f g h : Nat) :
    listEqClasses [.int a, .int b, .int c, .int d, .int e, .int f, .int g, .int h]
      [.int 0, .int 0, .int 0, .int 0, .int 0, .int 0, .int 0, .int 0] = true := rfl

/-- `new([32]byte)` -/
theorem stepAlloc_18 (hp : Heap) (fr : Frame) (frs : List Frame) (id : Nat) (k : VK) (ln : Nat) (op : Op) (tys : List Nat) :
    stepAlloc prog hp fr frs ⟨id, k, ln, op, 18, tys⟩
      = contReg fr frs id [.ptr (hp.alloc [.int 0, .int 0, .int 0, .int 0, .int 0, .int 0, .int 0, .int 0,
    .int 0, .int 0, .int 0, .int 0, .int 0, .int 0, .int 0, .int 0, .int 0, .int 0, .int 0, .int 0, .int 0, .int 0, .int 0, .int 0,
    .int 0, .int 0, .int 0, .int 0, .int 0, .int 0, .int 0, .int 0]).2 0]
        (hp.alloc [.int 0, .int 0, .int 0, .int 0, .int 0, .int 0, .int 0, .int 0,
    .int 0, .int 0, .int 0, .int 0, .int 0, .int 0, .int 0, .int 0, .int 0, .int 0, .int 0, .int 0, .int 0, .int 0, .int 0, .int 0,
    .int 0, .int 0, .int 0, .int 0, .int 0, .int 0, .int 0, .int 0]).1 [] :=
  stepAlloc_of tyOf_18 zeros_17 (by decide) hp fr frs id k ln op tys

/-- `new([8]byte)` -/
theorem stepAlloc_75 (hp : Heap) (fr : Frame) (frs : List Frame) (id : Nat) (k : VK) (ln : Nat) (op : Op) (tys : List Nat) :
    stepAlloc prog hp fr frs ⟨id, k, ln, op, 75, tys⟩
      = contReg fr frs id [.ptr (hp.alloc [.int 0, .int 0, .int 0, .int 0, .int 0, .int 0, .int 0, .int 0]).2 0]
        (hp.alloc [.int 0, .int 0, .int 0, .int 0, .int 0, .int 0, .int 0, .int 0]).1 [] :=
  stepAlloc_of tyOf_75 zeros_74 (by decide) hp fr frs id k ln op tys

/-- `new([5]uint64)` -/
theorem stepAlloc_67 (hp : Heap) (fr : Frame) (frs : List Frame) (id : Nat) (k : VK) (ln : Nat) (op : Op) (tys : List Nat) :
    stepAlloc prog hp fr frs ⟨id, k, ln, op, 67, tys⟩
      = contReg fr frs id [.ptr (hp.alloc [.int 0, .int 0, .int 0, .int 0, .int 0]).2 0]
        (hp.alloc [.int 0, .int 0, .int 0, .int 0, .int 0]).1 [] :=
  stepAlloc_of tyOf_67 zeros_66 (by decide) hp fr frs id k ln op tys

/-- a load of zero cells only needs the block to exist -/
theorem readE_zero (h0 : Heap) (ovr ext) (b o : Nat) (hb : b < h0.blocks.size) : (mkE h0 ovr ext).read b o 0 = some [] := by
  have hlt : b < (mkE h0 ovr ext).blocks.size := by rw [mkE_size]; omega
  simp only [Heap.read, Array.getElem?_eq_getElem hlt]
  rfl

/-! ## `binary.LittleEndian.PutUint64` -/

/-- byte `j` of `v` (the shift amount is `8 * j`) -/
def putK (fr : Frame) (frs : List Frame) (id b o : Nat) : Option Heap → Step
  | some h => contReg fr frs id [] h [ev fr K.sliceBound [.int 8], ev fr EK.addr [.ptr b o, .int 8]]
  | none => .fault "PutUint64: not bytes"

theorem extern_lePutUint64 (p : Program) (hp : Heap) (fr : Frame) (frs : List Frame) (i : Instr) (a : RVal) (b o c v : Nat) :
    stepExtern p hp fr frs i N213 [a, [.slice b o 8 c], [.int v]] = putK fr frs i.id b o (hp.write b o (natToBytes 8 v)) := by
  have h1 : (N213 == Ext.mul64) = false := by decide
  have h2 : (N213 == Ext.add64) = false := by decide
  have h3 : (N213 == Ext.sub64) = false := by decide
  have h4 : (N213 == Ext.ctByteEq) = false := by decide
  have h5 : (N213 == Ext.ctCompare) = false := by decide
  have h6 : (N213 == Ext.leUint64) = false := by decide
  have h7 : (N213 == Ext.lePutUint64) = true := by decide
  simp only [stepExtern, h1, h2, h3, h4, h5, h6, h7, if_true, Bool.false_eq_true, if_false, Nat.lt_irrefl]
  cases hp.write b o (natToBytes 8 v) <;> rfl

theorem putK_some (fr : Frame) (frs : List Frame) (id b o : Nat) (h : Heap) :
    putK fr frs id b o (some h) = contReg fr frs id [] h [ev fr K.sliceBound [.int 8], ev fr EK.addr [.ptr b o, .int 8]] := rfl

theorem natToBytes_8 (v : Nat) :
    natToBytes 8 v = [.int ((v >>> 0) % 256), .int ((v >>> 8) % 256), .int ((v >>> 16) % 256), .int ((v >>> 24) % 256),
      .int ((v >>> 32) % 256), .int ((v >>> 40) % 256), .int ((v >>> 48) % 256), .int ((v >>> 56) % 256)] := by
  simp only [natToBytes, Nat.shiftRight_eq_div_pow, Nat.div_div_eq_div_mul, Nat.reducePow, Nat.reduceMul, Nat.div_one]

/-! ## `subtle.ConstantTimeCompare` on two 32-byte slices -/

def cmpK (fr : Frame) (frs : List Frame) (hp : Heap) (id b1 o1 b2 o2 : Nat) : Option (List Val) → Option (List Val) → Step
  | some x, some y =>
    if x.all (·.cls = .data) && y.all (·.cls = .data) then
      contReg fr frs id [.int (if x = y then 1 else 0)] hp
        [ev fr K.sliceBound [.int 32, .int 32], ev fr EK.addr [.ptr b1 o1, .int 32], ev fr EK.addr [.ptr b2 o2, .int 32]]
    else .fault "ConstantTimeCompare: not bytes"
  | _, _ => .fault "ConstantTimeCompare: out of block"

theorem extern_ctCompare (p : Program) (hp : Heap) (fr : Frame) (frs : List Frame) (i : Instr) (b1 o1 c1 b2 o2 c2 : Nat) :
    stepExtern p hp fr frs i N184 [[.slice b1 o1 32 c1], [.slice b2 o2 32 c2]]
      = cmpK fr frs hp i.id b1 o1 b2 o2 (hp.read b1 o1 32) (hp.read b2 o2 32) := by
  have h1 : (N184 == Ext.mul64) = false := by decide
  have h2 : (N184 == Ext.add64) = false := by decide
  have h3 : (N184 == Ext.sub64) = false := by decide
  have h4 : (N184 == Ext.ctByteEq) = false := by decide
  have h5 : (N184 == Ext.ctCompare) = true := by decide
  simp only [stepExtern, h1, h2, h3, h4, h5, if_true, Bool.false_eq_true, if_false, ne_eq, not_true_eq_false]
  cases hp.read b1 o1 32 <;> cases hp.read b2 o2 32 <;> rfl

theorem cmpK_some (fr : Frame) (frs : List Frame) (hp : Heap) (id b1 o1 b2 o2 : Nat) (x y : List Val)
    (hx : x.all (·.cls = .data) = true) (hy : y.all (·.cls = .data) = true) :
    cmpK fr frs hp id b1 o1 b2 o2 (some x) (some y) = contReg fr frs id [.int (if x = y then 1 else 0)] hp
        [ev fr K.sliceBound [.int 32, .int 32], ev fr EK.addr [.ptr b1 o1, .int 32], ev fr EK.addr [.ptr b2 o2, .int 32]] := by
  simp [cmpK, hx, hy]

/-! ## the blocks of `(*field.Element).bytes` and `Bytes` -/

def body64 : List Instr := body% f64
theorem funcs_64 : prog.funcs[64]? = some f64 := rfl
theorem mkFrame_64 (args : List RVal) (dest : Option Nat) :
    mkFrame 64 f64 args dest = some ⟨64, f64, #[], args.toArray, 0, body64, dest⟩ := rfl
theorem resultTys_64 : f64.resultTys = [16] := rfl

def body82 : List Instr := body% f82
def blk82_1 : List Instr := List.tail (block% f82 1)
def blk82_2 : List Instr := block% f82 2
def blk82_3 : List Instr := block% f82 3
def blk82_4 : List Instr := List.tail (block% f82 4)
def blk82_5 : List Instr := block% f82 5
def blk82_6 : List Instr := block% f82 6
theorem funcs_82 : prog.funcs[82]? = some f82 := rfl
theorem mkFrame_82 (args : List RVal) (dest : Option Nat) :
    mkFrame 82 f82 args dest = some ⟨82, f82, #[], args.toArray, 0, body82, dest⟩ := rfl
theorem resultTys_82 : f82.resultTys = [16] := rfl

theorem phi_bind1 (mk : Array RVal → Frame) (regs : Array RVal) (id : Nat) (x : Option RVal) :
    (x.bind fun v => (some ([] : List (Nat × RVal))).bind fun r => some ((id, v) :: r)).bind
        (fun vals => some (mk (assignAll regs vals)))
      = x.bind (fun v => some (mk (regSet regs id v))) := by
  cases x <;> rfl

section jumps
variable (regs params : Array RVal) (rest : List Instr) (dest : Option Nat)

theorem jumpTo_82_0_1 : jumpTo prog ⟨82, f82, regs, params, 0, rest, dest⟩ 1
      = some ⟨82, f82, regSet regs 28 [.int 18446744073709551615], params, 1, blk82_1, dest⟩ := rfl
theorem jumpTo_82_4_1 : jumpTo prog ⟨82, f82, regs, params, 4, rest, dest⟩ 1
      = (regs[29]?).bind (fun v => some ⟨82, f82, regSet regs 28 v, params, 1, blk82_1, dest⟩) :=
  phi_bind1 (fun r => ⟨82, f82, r, params, 1, blk82_1, dest⟩) regs 28 regs[29]?
theorem jumpTo_82_5_1 : jumpTo prog ⟨82, f82, regs, params, 5, rest, dest⟩ 1
      = (regs[29]?).bind (fun v => some ⟨82, f82, regSet regs 28 v, params, 1, blk82_1, dest⟩) :=
  phi_bind1 (fun r => ⟨82, f82, r, params, 1, blk82_1, dest⟩) regs 28 regs[29]?
theorem jumpTo_82_1_2 : jumpTo prog ⟨82, f82, regs, params, 1, rest, dest⟩ 2
      = some ⟨82, f82, regs, params, 2, blk82_2, dest⟩ := rfl
theorem jumpTo_82_1_3 : jumpTo prog ⟨82, f82, regs, params, 1, rest, dest⟩ 3
      = some ⟨82, f82, regs, params, 3, blk82_3, dest⟩ := rfl
theorem jumpTo_82_2_4 : jumpTo prog ⟨82, f82, regs, params, 2, rest, dest⟩ 4
      = some ⟨82, f82, regSet regs 44 [.int 18446744073709551615], params, 4, blk82_4, dest⟩ := rfl
theorem jumpTo_82_6_4 : jumpTo prog ⟨82, f82, regs, params, 6, rest, dest⟩ 4
      = (regs[45]?).bind (fun v => some ⟨82, f82, regSet regs 44 v, params, 4, blk82_4, dest⟩) :=
  phi_bind1 (fun r => ⟨82, f82, r, params, 4, blk82_4, dest⟩) regs 44 regs[45]?
theorem jumpTo_82_4_5 : jumpTo prog ⟨82, f82, regs, params, 4, rest, dest⟩ 5
      = some ⟨82, f82, regs, params, 5, blk82_5, dest⟩ := rfl
theorem jumpTo_82_5_6 : jumpTo prog ⟨82, f82, regs, params, 5, rest, dest⟩ 6
      = some ⟨82, f82, regs, params, 6, blk82_6, dest⟩ := rfl

end jumps

/-- the stepper of the byte layer -/
syntax "ssa_execB" "[" Lean.Parser.Tactic.simpLemma,* "]" : tactic
macro_rules
  | `(tactic| ssa_execB [$ls,*]) => `(tactic|
  ssa_execC [step_index, stepIndex, wrap64_lit, wrap64_2p64, ge_i64, rem_i64, quo_i64, conv_i64_u64,
    tyOf_15, tyOf_17, tyOf_18, tyOf_52, tyOf_66, tyOf_67, tyOf_68, tyOf_74, tyOf_75, size_3, size_15, tyOf_16, zeros_12, cls0,
    zeros_15, zeros_66, zeros_74, zeros_17, intOfTy_15, cls8, stepAlloc_18, stepAlloc_75, stepAlloc_67, readE_zero,
    extern_lePutUint64, putK_some, natToBytes_8, extern_ctCompare,
    body64, funcs_64, mkFrame_64, resultTys_64, body82, blk82_1, blk82_2, blk82_3, blk82_4, blk82_5, blk82_6, funcs_82, mkFrame_82,
    resultTys_82, jumpTo_82_0_1, jumpTo_82_4_1, jumpTo_82_5_1, jumpTo_82_1_2, jumpTo_82_1_3, jumpTo_82_2_4, jumpTo_82_6_4,
    jumpTo_82_4_5, jumpTo_82_5_6, stepsA_reduce, feL, shl_eq, Nat.reduceMod, Nat.reduceDiv, Nat.reduceEqDiff, $ls,*])

end EdVerif.Ssa.Tie
