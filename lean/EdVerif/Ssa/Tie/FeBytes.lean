import EdVerif.Ssa.Tie.FeBytesModel
/-!
# `(*field.Element).Bytes` (with `bytes` inline) as a callee: 801 steps, executed in six chunks
-/
namespace EdVerif.Ssa.Tie
open EdVerif.Ssa EdVerif.Gen.Ssa EdVerif.Prims EdVerif.Impl
set_option maxRecDepth 100000
set_option linter.unusedVariables false

theorem steps_chain {p : Program} {a b : Nat} {s s2 : State} (h : ∃ s1, steps p a s = some s1 ∧ steps p b s1 = some s2) :
    steps p (a + b) s = some s2 := by
  obtain ⟨s1, h1, h2⟩ := h
  exact steps_trans h1 h2

set_option maxHeartbeats 64000000 in
/-- the first 800 steps of `v.Bytes()` (everything but its final `Return`), whatever lies below its frame -/
theorem preE_Bytes (v0 v1 v2 v3 v4 : Nat) (H : Heap) (bv ov : Nat) (hfv : Fits H bv ov 5) (h16 : 16 < H.blocks.size)
    (dest : Option Nat) (tail : List Frame) :
    steps prog 800 ⟨mkE H [(bv, ov, [.int v0, .int v1, .int v2, .int v3, .int v4])] [],
        ⟨64, f64, #[], #[[.ptr bv ov]], 0, body64, dest⟩ :: tail⟩
      = some ⟨mkE H [(bv, ov, [.int v0, .int v1, .int v2, .int v3, .int v4])] (extBytes (EdVerif.Gen.Field.reduce ⟨v0, v1, v2, v3, v4⟩)),
          ⟨64, f64, #[[.ptr (H.blocks.size + 0) 0], [.slice (H.blocks.size + 0) 0 32 32]], #[[.ptr bv ov]], 0,
            [⟨2, .none, 228, .ret [(.reg 1)], 0, [16]⟩], dest⟩ :: tail⟩ := by
  have hbv := hfv.1
  show steps prog (150 + (130 + (130 + (130 + (130 + 130))))) _ = _
  refine steps_chain ⟨_, by (simp only [body64]; ssa_execB [hfv, hbv, h16, funcs_85, mkFrame_85, ↓stepsA_reduce]; rfl), ?_⟩
  refine steps_chain ⟨_, by (ssa_execB [hfv, hbv, h16]; rfl), ?_⟩
  refine steps_chain ⟨_, by (ssa_execB [hfv, hbv, h16]; rfl), ?_⟩
  refine steps_chain ⟨_, by (ssa_execB [hfv, hbv, h16]; rfl), ?_⟩
  refine steps_chain ⟨_, by (ssa_execB [hfv, hbv, h16]; rfl), ?_⟩
  ssa_execB [hfv, hbv, h16, extBytes_eq, bytesV, bytesL, bufV, List.map_cons, List.map_nil]

/-- `v.Bytes()` called from any frame, on the canonical heap of its operand (an element slot); needs the block of the package variable
    `binary.LittleEndian` (global 15 = block 16, a zero-size struct) -/
theorem callE_Bytes (v0 v1 v2 v3 v4 : Nat) (H : Heap) (bv ov : Nat) (hfv : Fits H bv ov 5) (h16 : 16 < H.blocks.size)
    (d : Nat) (cfi : Nat) (cf : Func) (cregs cparams : Array RVal) (cblk : Nat) (crest : List Instr) (cdest : Option Nat) (frs : List Frame) :
    steps prog 801 ⟨mkE H [(bv, ov, [.int v0, .int v1, .int v2, .int v3, .int v4])] [],
        ⟨64, f64, #[], #[[.ptr bv ov]], 0, body64, some d⟩ :: ⟨cfi, cf, cregs, cparams, cblk, crest, cdest⟩ :: frs⟩
      = some ⟨mkE H [(bv, ov, [.int v0, .int v1, .int v2, .int v3, .int v4])] (extBytes (EdVerif.Gen.Field.reduce ⟨v0, v1, v2, v3, v4⟩)),
          ⟨cfi, cf, regSet cregs d [.slice (H.blocks.size + 0) 0 32 32], cparams, cblk, crest, cdest⟩ :: frs⟩ := by
  refine steps_trans (a := 800) (b := 1) (preE_Bytes v0 v1 v2 v3 v4 H bv ov hfv h16 _ _) ?_
  ssa_execB [hfv]

/-- `v.Bytes()` as the outermost call -/
theorem coreE_Bytes (v0 v1 v2 v3 v4 : Nat) (H : Heap) (bv ov : Nat) (hfv : Fits H bv ov 5) (h16 : 16 < H.blocks.size) :
    run prog 801 ⟨mkE H [(bv, ov, [.int v0, .int v1, .int v2, .int v3, .int v4])] [],
        [⟨64, f64, #[], #[[.ptr bv ov]], 0, body64, none⟩]⟩
      = .done ⟨mkE H [(bv, ov, [.int v0, .int v1, .int v2, .int v3, .int v4])] (extBytes (EdVerif.Gen.Field.reduce ⟨v0, v1, v2, v3, v4⟩)), []⟩
          [[.slice (H.blocks.size + 0) 0 32 32]] := by
  rw [run_steps' (preE_Bytes v0 v1 v2 v3 v4 H bv ov hfv h16 none []) 1]
  ssa_execB [hfv]

theorem mkE_restates_ext (H : Heap) (ovr : List Ent) (E : List (Array Val)) (h : Restates H ovr) : mkE H ovr E = pushB H E := by
  rw [mkE_eq, baseE_restates H ovr h]

/-- `v.Bytes()` called from any frame on an arbitrary heap in which `(bv, ov)` is an element slot: the heap grows by the four blocks
    `extBytes (reduce v)` (the first one is the result array, holding the model's `Fe.bytes v`), nothing else changes, and the
    caller receives the slice of the whole result array -/
theorem callA_Bytes (H : Heap) (bv ov : Nat) (hkv : OkE H bv ov) (h16 : 16 < H.blocks.size)
    (d : Nat) (cfi : Nat) (cf : Func) (cregs cparams : Array RVal) (cblk : Nat) (crest : List Instr) (cdest : Option Nat) (frs : List Frame) :
    steps prog 801 ⟨H, ⟨64, f64, #[], #[[.ptr bv ov]], 0, body64, some d⟩ :: ⟨cfi, cf, cregs, cparams, cblk, crest, cdest⟩ :: frs⟩
      = some ⟨pushB H (extBytes (EdVerif.Gen.Field.reduce (getE H bv ov))),
          ⟨cfi, cf, regSet cregs d [.slice (H.blocks.size + 0) 0 32 32], cparams, cblk, crest, cdest⟩ :: frs⟩ := by
  have key := callE_Bytes (getE H bv ov).l0 (getE H bv ov).l1 (getE H bv ov).l2 (getE H bv ov).l3 (getE H bv ov).l4
    H bv ov hkv.1 h16 d cfi cf cregs cparams cblk crest cdest frs
  have hr : Restates H [(bv, ov, [.int (getE H bv ov).l0, .int (getE H bv ov).l1, .int (getE H bv ov).l2, .int (getE H bv ov).l3,
      .int (getE H bv ov).l4])] := restates_cons hkv (restates_nil H)
  rw [mkE_restates H _ hr, mkE_restates_ext H _ _ hr] at key
  exact key

derive_rules callA_Bytes runA_Bytes stepsA_Bytes

theorem funcIdx_64 : prog.funcIdx? (nm! "(*field.Element).Bytes") = some 64 := by decide +kernel

/-- **tie**: `v.Bytes()` on any heap in which block `bv` holds the limbs of `v` (and the block of the package variable
    `binary.LittleEndian` exists): the run terminates and returns the slice of a fresh 32-cell block (the first block appended to the heap)
    that holds the bytes of the model's `Fe.bytes v`; no block of the heap changes. -/
theorem tie_Bytes (h : Heap) (bv : Nat) (v : Fe) (hv : h.blocks[bv]? = some (feCells v)) (h16 : 16 < h.blocks.size) :
    ∃ h', runCall prog 801 h (nm! "(*field.Element).Bytes") [[.ptr bv 0]] = some (.done ⟨h', []⟩ [[.slice (h.blocks.size + 0) 0 32 32]])
      ∧ Post0 h h' ∧ h'.blocks[h.blocks.size + 0]? = some (((Fe.bytes v).toList.map Val.int).toArray) := by
  obtain ⟨v0, v1, v2, v3, v4⟩ := v
  have hf : Fits h bv 0 5 := fits_of_get hv 5 (Nat.le_refl _)
  have core := coreE_Bytes v0 v1 v2 v3 v4 h bv 0 hf h16
  have hr : Restates h [(bv, 0, [.int v0, .int v1, .int v2, .int v3, .int v4])] :=
    restates_one hv (lt5_cases rfl rfl rfl rfl rfl) (restates_nil h)
  rw [mkE_restates h _ hr, mkE_restates_ext h _ _ hr] at core
  refine ⟨pushB h (extBytes (EdVerif.Gen.Field.reduce ⟨v0, v1, v2, v3, v4⟩)), ?_, ?_, ?_⟩
  · simp only [runCall, funcIdx_64, callState, funcs_64, mkFrame_64, Option.bind_some, Option.map_some, Option.pure_def,
      Option.bind_eq_bind]
    rw [core]
  · exact ⟨by rw [pushB_size]; omega, fun c hc => get_pushB_lt h _ c hc⟩
  · have e := mkE_get_ext h [] (extBytes (EdVerif.Gen.Field.reduce ⟨v0, v1, v2, v3, v4⟩)) 0
    rw [mkE_eq] at e
    rw [show (pushB h (extBytes (EdVerif.Gen.Field.reduce ⟨v0, v1, v2, v3, v4⟩))).blocks[h.blocks.size + 0]? = _ from e, bytes_eq]
    rfl

end EdVerif.Ssa.Tie
