import EdVerif.Ssa.Tie.FiatSmall
/-!
# `(*Scalar).Set` (`*s = *x`): every aliasing pattern, and the combined theorem (written from the template of gen_fiat.py; not regenerated)
-/
namespace EdVerif.Ssa.Tie
open EdVerif.Ssa EdVerif.Gen.Ssa EdVerif.Prims EdVerif.Gen.Fiat
set_option maxRecDepth 100000
set_option linter.unusedSimpArgs false

def body28 : List Instr := body% f28
theorem funcs_28 : prog.funcs[28]? = some f28 := rfl
theorem mkFrame_28 (args : List RVal) (dest : Option Nat) :
    mkFrame 28 f28 args dest = some ⟨28, f28, #[], args.toArray, 0, body28, dest⟩ := rfl
theorem resultTys_28 : f28.resultTys = [29] := rfl
theorem funcIdx_28 : prog.funcIdx? (nm! "(*Scalar).Set") = some 28 := by decide +kernel

set_option maxHeartbeats 64000000 in
/-- `(*Scalar).Set`, aliasing pattern `sp` (parameters in one class share a block), outermost call on a canonical heap -/
theorem core_Scalar_Set_sp (h0 : Heap) (ovr) (bs : Nat) (s0 s1 s2 s3 : Nat) 
    (hbs : bs < h0.blocks.size)  :
    ∃ ext, run prog 3 ⟨mkH h0 ((bs, #[.int s0, .int s1, .int s2, .int s3]) :: ovr) [],
        [⟨28, f28, #[], #[[.ptr bs 0], [.ptr bs 0]], 0, body28, none⟩]⟩
      = .done ⟨mkH h0 ((bs, w4Cells (EdVerif.Gen.Fiat.Set ⟨s0, s1, s2, s3⟩ ⟨s0, s1, s2, s3⟩)) :: ovr) ext, []⟩ [[.ptr bs 0]] := by
  apply Exists.intro
  simp only [body28]
  fiat_exec [resultTys_28, cls4, read_hit, read_miss, write_hit, hbs, ne_eq, not_false_eq_true]
  rfl

/-- **tie**: `(*Scalar).Set`, aliasing pattern `sp` -/
theorem tie_Scalar_Set_sp (h : Heap) (bs : Nat) (s : W4) 
    (hs : h.blocks[bs]? = some (w4Cells s))  :
    ∃ h', runCall prog 3 h (nm! "(*Scalar).Set") [[.ptr bs 0], [.ptr bs 0]] = some (.done ⟨h', []⟩ [[.ptr bs 0]])
      ∧ Post1 h h' bs (w4Cells (EdVerif.Gen.Fiat.Set s s)) := by
  obtain ⟨s0, s1, s2, s3⟩ := s
  obtain ⟨ext, core⟩ := core_Scalar_Set_sp h [] bs s0 s1 s2 s3 (lt_of_get hs)
  have hall : ∀ kv ∈ ([] : List (Nat × Array Val)), h.blocks[kv.1]? = some kv.2 := by simp
  rw [show mkH h [(bs, #[.int s0, .int s1, .int s2, .int s3])] [] = h from
      mkH_intro h _ (by simpa [w4Cells] using hs)] at core
  refine ⟨_, ?_, post1_mkH _ ext (lt_of_get hs) hall⟩
  simp only [runCall, funcIdx_28, callState, funcs_28, mkFrame_28, Option.bind_some, Option.map_some, Option.pure_def,
    Option.bind_eq_bind]
  rw [core]; first | rfl | skip

set_option maxHeartbeats 64000000 in
/-- `(*Scalar).Set`, aliasing pattern `d` (parameters in one class share a block), outermost call on a canonical heap -/
theorem core_Scalar_Set_d (h0 : Heap) (ovr) (bs bp : Nat) (s0 s1 s2 s3 p0 p1 p2 p3 : Nat) 
    (hbs : bs < h0.blocks.size) (hbp : bp < h0.blocks.size) (hne_sp : bs ≠ bp) :
    ∃ ext, run prog 3 ⟨mkH h0 ((bs, #[.int s0, .int s1, .int s2, .int s3]) :: (bp, #[.int p0, .int p1, .int p2, .int p3]) :: ovr) [],
        [⟨28, f28, #[], #[[.ptr bs 0], [.ptr bp 0]], 0, body28, none⟩]⟩
      = .done ⟨mkH h0 ((bs, w4Cells (EdVerif.Gen.Fiat.Set ⟨s0, s1, s2, s3⟩ ⟨p0, p1, p2, p3⟩)) :: (bp, #[.int p0, .int p1, .int p2, .int p3]) :: ovr) ext, []⟩ [[.ptr bs 0]] := by
  apply Exists.intro
  simp only [body28]
  fiat_exec [resultTys_28, cls4, read_hit, read_miss, write_hit, hbs, hbp, hne_sp, hne_sp.symm, ne_eq, not_false_eq_true]
  rfl

/-- **tie**: `(*Scalar).Set`, aliasing pattern `d` -/
theorem tie_Scalar_Set_d (h : Heap) (bs bp : Nat) (s p : W4) 
    (hs : h.blocks[bs]? = some (w4Cells s)) (hp : h.blocks[bp]? = some (w4Cells p)) (hne_sp : bs ≠ bp) :
    ∃ h', runCall prog 3 h (nm! "(*Scalar).Set") [[.ptr bs 0], [.ptr bp 0]] = some (.done ⟨h', []⟩ [[.ptr bs 0]])
      ∧ Post1 h h' bs (w4Cells (EdVerif.Gen.Fiat.Set s p)) := by
  obtain ⟨s0, s1, s2, s3⟩ := s
  obtain ⟨p0, p1, p2, p3⟩ := p
  obtain ⟨ext, core⟩ := core_Scalar_Set_d h [] bs bp s0 s1 s2 s3 p0 p1 p2 p3 (lt_of_get hs) (lt_of_get hp) hne_sp
  have hall : ∀ kv ∈ [(bp, w4Cells ⟨p0, p1, p2, p3⟩)], h.blocks[kv.1]? = some kv.2 := by
    simp [hp]
  rw [show mkH h [(bs, #[.int s0, .int s1, .int s2, .int s3]), (bp, #[.int p0, .int p1, .int p2, .int p3])] [] = h from
      mkH_intro h _ (by simpa [w4Cells] using ⟨hs, hp⟩)] at core
  refine ⟨_, ?_, post1_mkH _ ext (lt_of_get hs) hall⟩
  simp only [runCall, funcIdx_28, callState, funcs_28, mkFrame_28, Option.bind_some, Option.map_some, Option.pure_def,
    Option.bind_eq_bind]
  rw [core]; first | rfl | skip

/-- **tie** (any aliasing): `(*Scalar).Set` on an arbitrary heap in which the argument blocks hold the words of the arguments
    (the blocks may coincide, in which case the arguments do). -/
theorem tie_Scalar_Set (h : Heap) (bs bp : Nat) (s p : W4) 
    (hs : h.blocks[bs]? = some (w4Cells s)) (hp : h.blocks[bp]? = some (w4Cells p)) :
    ∃ h', runCall prog 3 h (nm! "(*Scalar).Set") [[.ptr bs 0], [.ptr bp 0]] = some (.done ⟨h', []⟩ [[.ptr bs 0]])
      ∧ Post1 h h' bs (w4Cells (EdVerif.Gen.Fiat.Set s p)) := by
  by_cases hne_sp : bs = bp
  · subst hne_sp
    have e := w4Cells_inj (Option.some.inj (hs.symm.trans hp)); subst e
    exact tie_Scalar_Set_sp h bs s hs
  · skip
    exact tie_Scalar_Set_d h bs bp s p hs hp hne_sp

end EdVerif.Ssa.Tie
