import EdVerif.Ssa.Tie.PtBase
/-!
# Structures of elements (`Point`, `projP1xP1`, `projP2`, `projCached`, `affineCached`) in the heap

Whole blocks (`cells3`, `cells4`) for the top-level `tie_*` statements; `Ok*`/`get*`/`set*` for the abstract call lemmas of the
point-layer functions (used by the functions that call them).
-/
namespace EdVerif.Ssa.Tie
open EdVerif.Ssa EdVerif.Gen.Ssa EdVerif.Prims EdVerif.Impl
set_option maxRecDepth 100000

/-! ## whole blocks -/

def cells3 (a b c : Fe) : Array Val := (feL a ++ feL b ++ feL c).toArray
def cells4 (a b c d : Fe) : Array Val := (feL a ++ feL b ++ feL c ++ feL d).toArray

def cellsP3 (p : P3) : Array Val := cells4 p.x p.y p.z p.t
def cellsP1 (p : P1xP1) : Array Val := cells4 p.X p.Y p.Z p.T
def cellsP2 (p : P2) : Array Val := cells3 p.X p.Y p.Z
def cellsC (p : Cached) : Array Val := cells4 p.YplusX p.YminusX p.Z p.T2d
def cellsA (p : AffineCached) : Array Val := cells3 p.YplusX p.YminusX p.T2d

theorem cell_of_get {h : Heap} {b : Nat} {V : Array Val} (hb : h.blocks[b]? = some V) (i : Nat) : cell h b i = V[i]? := by
  simp [cell, hb]

theorem fits_of_get {h : Heap} {b : Nat} {V : Array Val} (hb : h.blocks[b]? = some V) (n : Nat) (hn : n ≤ V.size) : Fits h b 0 n := by
  refine ⟨lt_of_get hb, ?_⟩
  simp [blkSize, hb, hn]

theorem restates_one {h : Heap} {b o : Nat} {V : Array Val} {W : List Val} {r : List Ent} (hb : h.blocks[b]? = some V)
    (hW : ∀ k, k < W.length → V[o + k]? = W[k]?) (hr : Restates h r) : Restates h ((b, o, W) :: r) := by
  intro e he k hk
  rcases List.mem_cons.mp he with rfl | he
  · rw [cell_of_get hb]; exact hW k hk
  · exact hr e he k hk

theorem lt5_cases {P : Nat → Prop} (h0 : P 0) (h1 : P 1) (h2 : P 2) (h3 : P 3) (h4 : P 4) : ∀ k, k < 5 → P k := by
  intro k hk
  match k, hk with
  | 0, _ => exact h0
  | 1, _ => exact h1
  | 2, _ => exact h2
  | 3, _ => exact h3
  | 4, _ => exact h4

theorem restates3 {h : Heap} {b : Nat} {x y z : Fe} {r : List Ent} (hb : h.blocks[b]? = some (cells3 x y z)) (hr : Restates h r) :
    Restates h ((b, 0, feL x) :: (b, 5, feL y) :: (b, 10, feL z) :: r) := by
  refine restates_one hb ?_ (restates_one hb ?_ (restates_one hb ?_ hr))
  · exact lt5_cases rfl rfl rfl rfl rfl
  · exact lt5_cases rfl rfl rfl rfl rfl
  · exact lt5_cases rfl rfl rfl rfl rfl

theorem restates4 {h : Heap} {b : Nat} {x y z t : Fe} {r : List Ent} (hb : h.blocks[b]? = some (cells4 x y z t)) (hr : Restates h r) :
    Restates h ((b, 0, feL x) :: (b, 5, feL y) :: (b, 10, feL z) :: (b, 15, feL t) :: r) := by
  refine restates_one hb ?_ (restates_one hb ?_ (restates_one hb ?_ (restates_one hb ?_ hr)))
  · exact lt5_cases rfl rfl rfl rfl rfl
  · exact lt5_cases rfl rfl rfl rfl rfl
  · exact lt5_cases rfl rfl rfl rfl rfl
  · exact lt5_cases rfl rfl rfl rfl rfl

/-! ## the final heap -/

theorem ovl_append (V : Array Val) (o : Nat) (W1 W2 : List Val) : ovl (ovl V (o + W1.length) W2) o W1 = ovl V o (W1 ++ W2) := by
  apply Array.ext_getElem?
  intro i
  simp only [ovl_get, ovl_size, List.length_append]
  by_cases h1 : o ≤ i ∧ i < o + W1.length ∧ i < V.size
  · rw [if_pos h1, if_pos (by omega), List.getElem?_append_left (by omega)]
  · rw [if_neg h1]
    by_cases h2 : o + W1.length ≤ i ∧ i < o + W1.length + W2.length ∧ i < V.size
    · rw [if_pos h2, if_pos (by omega), List.getElem?_append_right (by omega)]
      congr 1; omega
    · rw [if_neg h2, if_neg (by omega)]

theorem get_ovE_same (b o : Nat) (W : List Val) (hp : Heap) : (ovE b o W hp).blocks[b]? = (hp.blocks[b]?).map (fun V => ovl V o W) := by
  simp [ovE, Array.getElem?_modify]

theorem get_ovE_other (b o : Nat) (W : List Val) (hp : Heap) (c : Nat) (hc : c ≠ b) : (ovE b o W hp).blocks[c]? = hp.blocks[c]? := by
  simp [ovE, Array.getElem?_modify, Ne.symm hc]

theorem get_pushB_lt (hp : Heap) (E : List (Array Val)) (c : Nat) (hc : c < hp.blocks.size) : (pushB hp E).blocks[c]? = hp.blocks[c]? := by
  simp only [pushB]; rw [Array.getElem?_append_left hc]

theorem post1_mkE3 {h : Heap} {b : Nat} {V : Array Val} (x y z : Fe) (rest : List Ent) (E : List (Array Val))
    (hb : h.blocks[b]? = some V) (hs : V.size = 15) (hr : Restates h rest) :
    Post1 h (mkE h ((b, 0, feL x) :: (b, 5, feL y) :: (b, 10, feL z) :: rest) E) b (cells3 x y z) := by
  have hlt := lt_of_get hb
  rw [mkE_eq]
  simp only [baseE]
  rw [baseE_restates h rest hr]
  refine ⟨by simp only [pushB_size, ovE_size]; omega, ?_, ?_⟩
  · rw [get_pushB_lt _ _ _ (by simpa using hlt), get_ovE_same, get_ovE_same, get_ovE_same, hb]
    simp only [Option.map_some]
    refine congrArg some ?_
    unfold cells3
    have e1 := ovl_append V 5 (feL y) (feL z)
    have e2 := ovl_append V 0 (feL x) (feL y ++ feL z)
    simp only [feL_length, List.length_append, Nat.zero_add, Nat.reduceAdd] at e1 e2
    rw [e1, e2, ← List.append_assoc]
    exact ovl_full _ _ (by simp only [List.length_append, feL_length, hs])
  · intro c hc hne
    rw [get_pushB_lt _ _ _ (by simpa using hc), get_ovE_other _ _ _ _ _ hne, get_ovE_other _ _ _ _ _ hne, get_ovE_other _ _ _ _ _ hne]

theorem post1_mkE4 {h : Heap} {b : Nat} {V : Array Val} (x y z t : Fe) (rest : List Ent) (E : List (Array Val))
    (hb : h.blocks[b]? = some V) (hs : V.size = 20) (hr : Restates h rest) :
    Post1 h (mkE h ((b, 0, feL x) :: (b, 5, feL y) :: (b, 10, feL z) :: (b, 15, feL t) :: rest) E) b (cells4 x y z t) := by
  have hlt := lt_of_get hb
  rw [mkE_eq]
  simp only [baseE]
  rw [baseE_restates h rest hr]
  refine ⟨by simp only [pushB_size, ovE_size]; omega, ?_, ?_⟩
  · rw [get_pushB_lt _ _ _ (by simpa using hlt), get_ovE_same, get_ovE_same, get_ovE_same, get_ovE_same, hb]
    simp only [Option.map_some]
    refine congrArg some ?_
    unfold cells4
    have e0 := ovl_append V 10 (feL z) (feL t)
    have e1 := ovl_append V 5 (feL y) (feL z ++ feL t)
    have e2 := ovl_append V 0 (feL x) (feL y ++ (feL z ++ feL t))
    simp only [feL_length, List.length_append, Nat.zero_add, Nat.reduceAdd] at e0 e1 e2
    rw [e0, e1, e2, ← List.append_assoc, ← List.append_assoc]
    exact ovl_full _ _ (by simp only [List.length_append, feL_length, hs])
  · intro c hc hne
    rw [get_pushB_lt _ _ _ (by simpa using hc), get_ovE_other _ _ _ _ _ hne, get_ovE_other _ _ _ _ _ hne, get_ovE_other _ _ _ _ _ hne,
      get_ovE_other _ _ _ _ _ hne]

theorem cells3_size (a b c : Fe) : (cells3 a b c).size = 15 := rfl
theorem cells4_size (a b c d : Fe) : (cells4 a b c d).size = 20 := rfl

/-! ## structures in an arbitrary heap -/

def Ok3 (H : Heap) (b : Nat) : Prop := OkE H b 0 ∧ OkE H b 5 ∧ OkE H b 10
def Ok4 (H : Heap) (b : Nat) : Prop := OkE H b 0 ∧ OkE H b 5 ∧ OkE H b 10 ∧ OkE H b 15

def getP3 (H : Heap) (b : Nat) : P3 := ⟨getE H b 0, getE H b 5, getE H b 10, getE H b 15⟩
def getP1 (H : Heap) (b : Nat) : P1xP1 := ⟨getE H b 0, getE H b 5, getE H b 10, getE H b 15⟩
def getP2 (H : Heap) (b : Nat) : P2 := ⟨getE H b 0, getE H b 5, getE H b 10⟩
def getC (H : Heap) (b : Nat) : Cached := ⟨getE H b 0, getE H b 5, getE H b 10, getE H b 15⟩
def getA (H : Heap) (b : Nat) : AffineCached := ⟨getE H b 0, getE H b 5, getE H b 10⟩

def set3 (b : Nat) (x y z : Fe) (H : Heap) : Heap := setE b 0 x (setE b 5 y (setE b 10 z H))
def set4 (b : Nat) (x y z t : Fe) (H : Heap) : Heap := setE b 0 x (setE b 5 y (setE b 10 z (setE b 15 t H)))

theorem Ok3_eq (H : Heap) (b : Nat) : Ok3 H b = (OkE H b 0 ∧ OkE H b 5 ∧ OkE H b 10) := by rw [Ok3]
theorem Ok4_eq (H : Heap) (b : Nat) : Ok4 H b = (OkE H b 0 ∧ OkE H b 5 ∧ OkE H b 10 ∧ OkE H b 15) := by rw [Ok4]
theorem getP3_eq (H : Heap) (b : Nat) : getP3 H b = ⟨getE H b 0, getE H b 5, getE H b 10, getE H b 15⟩ := by rw [getP3]
theorem getP1_eq (H : Heap) (b : Nat) : getP1 H b = ⟨getE H b 0, getE H b 5, getE H b 10, getE H b 15⟩ := by rw [getP1]
theorem getP2_eq (H : Heap) (b : Nat) : getP2 H b = ⟨getE H b 0, getE H b 5, getE H b 10⟩ := by rw [getP2]
theorem getC_eq (H : Heap) (b : Nat) : getC H b = ⟨getE H b 0, getE H b 5, getE H b 10, getE H b 15⟩ := by rw [getC]
theorem getA_eq (H : Heap) (b : Nat) : getA H b = ⟨getE H b 0, getE H b 5, getE H b 10⟩ := by rw [getA]
theorem set3_eq (b : Nat) (x y z : Fe) (H : Heap) : set3 b x y z H = setE b 0 x (setE b 5 y (setE b 10 z H)) := by rw [set3]
theorem set4_eq (b : Nat) (x y z t : Fe) (H : Heap) : set4 b x y z t H = setE b 0 x (setE b 5 y (setE b 10 z (setE b 15 t H))) := by
  rw [set4]

theorem restatesO3 {H : Heap} {b : Nat} {r : List Ent} (h : Ok3 H b) (hr : Restates H r) :
    Restates H ((b, 0, feL (getE H b 0)) :: (b, 5, feL (getE H b 5)) :: (b, 10, feL (getE H b 10)) :: r) :=
  restates_cons h.1 (restates_cons h.2.1 (restates_cons h.2.2 hr))

theorem restatesO4 {H : Heap} {b : Nat} {r : List Ent} (h : Ok4 H b) (hr : Restates H r) :
    Restates H ((b, 0, feL (getE H b 0)) :: (b, 5, feL (getE H b 5)) :: (b, 10, feL (getE H b 10)) :: (b, 15, feL (getE H b 15)) :: r) :=
  restates_cons h.1 (restates_cons h.2.1 (restates_cons h.2.2.1 (restates_cons h.2.2.2 hr)))

theorem fits_ok3 {H : Heap} {b : Nat} (h : Ok3 H b) : Fits H b 0 15 := ⟨h.1.1.1, by have := h.2.2.1.2; omega⟩
theorem fits_ok4 {H : Heap} {b : Nat} (h : Ok4 H b) : Fits H b 0 20 := ⟨h.1.1.1, by have := h.2.2.2.1.2; omega⟩

theorem mkE_head3 (H : Heap) (b : Nat) (W1 W2 W3 : List Val) (rest : List Ent) (E : List (Array Val)) (hr : Restates H rest) :
    mkE H ((b, 0, W1) :: (b, 5, W2) :: (b, 10, W3) :: rest) E = pushB (ovE b 0 W1 (ovE b 5 W2 (ovE b 10 W3 H))) E := by
  rw [mkE_eq]; simp only [baseE]; rw [baseE_restates H rest hr]

theorem mkE_head4 (H : Heap) (b : Nat) (W1 W2 W3 W4 : List Val) (rest : List Ent) (E : List (Array Val)) (hr : Restates H rest) :
    mkE H ((b, 0, W1) :: (b, 5, W2) :: (b, 10, W3) :: (b, 15, W4) :: rest) E
      = pushB (ovE b 0 W1 (ovE b 5 W2 (ovE b 10 W3 (ovE b 15 W4 H)))) E := by
  rw [mkE_eq]; simp only [baseE]; rw [baseE_restates H rest hr]

end EdVerif.Ssa.Tie
