import Lean
import EdVerif.Ssa.Tie.Heap
import EdVerif.Gen.Ssa
/-!
# Rewrite rules that evaluate `step` on a state with a literal frame and a canonical heap

Everything here is either `rfl` or a one-line unfolding of `Sem.lean`; the rules are stated only for
states whose top frame is a constructor application with a literal next instruction, so that `simp`
never unfolds the interpreter on a variable.
-/
namespace EdVerif.Ssa.Tie
open EdVerif.Ssa EdVerif.Gen.Ssa
set_option maxRecDepth 100000

/-! ## driving `run` and `steps` without exposing a binder -/

def runK (p : Program) (fuel : Nat) : Step → Outcome
  | .cont s' _ => run p fuel s'
  | .done s' r _ => .done s' r
  | .panic s' c _ => .panic s' c
  | .fault w => .fault w

theorem run_succ (p : Program) (fuel : Nat) (s : State) : run p (fuel + 1) s = runK p fuel (step p s) := by
  rw [run]; cases step p s <;> rfl

theorem runK_cont (p : Program) (fuel : Nat) (s : State) (ev) : runK p fuel (.cont s ev) = run p fuel s := rfl
theorem runK_done (p : Program) (fuel : Nat) (s : State) (r ev) : runK p fuel (.done s r ev) = .done s r := rfl

def stepsK (p : Program) (k : Nat) : Step → Option State
  | .cont s' _ => steps p k s'
  | _ => none

theorem steps_succ (p : Program) (k : Nat) (s : State) : steps p (k + 1) s = stepsK p k (step p s) := by
  rw [steps]; cases step p s <;> rfl

theorem stepsK_cont (p : Program) (k : Nat) (s : State) (ev) : stepsK p k (.cont s ev) = steps p k s := rfl
theorem steps_zero (p : Program) (s : State) : steps p 0 s = some s := rfl

/-! ## dispatch on the next instruction (all `rfl`) -/
section dispatch
variable (p : Program) (hp : Heap) (fi : Nat) (f : Func) (regs params : Array RVal) (blk : Nat) (rest : List Instr)
  (dest : Option Nat) (frs : List Frame) (id : Nat) (k : VK) (ln ty : Nat) (tys : List Nat)

theorem step_alloc (a : Bool) (e : VK) :
    step p ⟨hp, ⟨fi, f, regs, params, blk, ⟨id, k, ln, .alloc a e, ty, tys⟩ :: rest, dest⟩ :: frs⟩
      = stepAlloc p hp ⟨fi, f, regs, params, blk, rest, dest⟩ frs ⟨id, k, ln, .alloc a e, ty, tys⟩ := rfl

theorem step_binop (op : BinOp) (xk : VK) (x y : Opnd) :
    step p ⟨hp, ⟨fi, f, regs, params, blk, ⟨id, k, ln, .binop op xk x y, ty, tys⟩ :: rest, dest⟩ :: frs⟩
      = stepBinop p hp ⟨fi, f, regs, params, blk, rest, dest⟩ frs ⟨id, k, ln, .binop op xk x y, ty, tys⟩ op xk x y := rfl

theorem step_unop (op : UnOp) (x : Opnd) :
    step p ⟨hp, ⟨fi, f, regs, params, blk, ⟨id, k, ln, .unop op x, ty, tys⟩ :: rest, dest⟩ :: frs⟩
      = stepUnop p hp ⟨fi, f, regs, params, blk, rest, dest⟩ frs ⟨id, k, ln, .unop op x, ty, tys⟩ op x := rfl

theorem step_load (x : Opnd) :
    step p ⟨hp, ⟨fi, f, regs, params, blk, ⟨id, k, ln, .load x, ty, tys⟩ :: rest, dest⟩ :: frs⟩
      = stepLoad p hp ⟨fi, f, regs, params, blk, rest, dest⟩ frs ⟨id, k, ln, .load x, ty, tys⟩ x := rfl

theorem step_call (c : Callee) (args : List Opnd) :
    step p ⟨hp, ⟨fi, f, regs, params, blk, ⟨id, k, ln, .call c args, ty, tys⟩ :: rest, dest⟩ :: frs⟩
      = stepCall p hp ⟨fi, f, regs, params, blk, rest, dest⟩ frs ⟨id, k, ln, .call c args, ty, tys⟩ c args := rfl

theorem step_convert (fk : VK) (x : Opnd) :
    step p ⟨hp, ⟨fi, f, regs, params, blk, ⟨id, k, ln, .convert fk x, ty, tys⟩ :: rest, dest⟩ :: frs⟩
      = stepConvert p hp ⟨fi, f, regs, params, blk, rest, dest⟩ frs ⟨id, k, ln, .convert fk x, ty, tys⟩ fk x := rfl

theorem step_extract (x : Opnd) (idx : Nat) :
    step p ⟨hp, ⟨fi, f, regs, params, blk, ⟨id, k, ln, .extract x idx, ty, tys⟩ :: rest, dest⟩ :: frs⟩
      = stepField p hp ⟨fi, f, regs, params, blk, rest, dest⟩ frs ⟨id, k, ln, .extract x idx, ty, tys⟩ x idx := rfl

theorem step_fieldAddr (x : Opnd) (fld : Nat) (nm : Nm) :
    step p ⟨hp, ⟨fi, f, regs, params, blk, ⟨id, k, ln, .fieldAddr x fld nm, ty, tys⟩ :: rest, dest⟩ :: frs⟩
      = stepFieldAddr p hp ⟨fi, f, regs, params, blk, rest, dest⟩ frs ⟨id, k, ln, .fieldAddr x fld nm, ty, tys⟩ x fld := rfl

theorem step_field (x : Opnd) (fld : Nat) (nm : Nm) :
    step p ⟨hp, ⟨fi, f, regs, params, blk, ⟨id, k, ln, .field x fld nm, ty, tys⟩ :: rest, dest⟩ :: frs⟩
      = stepField p hp ⟨fi, f, regs, params, blk, rest, dest⟩ frs ⟨id, k, ln, .field x fld nm, ty, tys⟩ x fld := rfl

theorem step_store (vk : VK) (a v : Opnd) :
    step p ⟨hp, ⟨fi, f, regs, params, blk, ⟨id, k, ln, .store vk a v, ty, tys⟩ :: rest, dest⟩ :: frs⟩
      = stepStore p hp ⟨fi, f, regs, params, blk, rest, dest⟩ frs ⟨id, k, ln, .store vk a v, ty, tys⟩ a v := rfl

theorem step_ret (vals : List Opnd) :
    step p ⟨hp, ⟨fi, f, regs, params, blk, ⟨id, k, ln, .ret vals, ty, tys⟩ :: rest, dest⟩ :: frs⟩
      = stepRet p hp ⟨fi, f, regs, params, blk, rest, dest⟩ frs vals := rfl

end dispatch

/-! ## operands -/
section opnd
variable (p : Program) (fr : Frame) (ty : Nat)
theorem evalOpnd_reg (id : Nat) : evalOpnd p fr ty (.reg id) = fr.regs[id]? := rfl
theorem evalOpnd_param (i : Nat) : evalOpnd p fr ty (.param i) = fr.params[i]? := rfl
theorem evalOpnd_cint (k : VK) (v : Nat) : evalOpnd p fr ty (.cint k v) = some [.int v] := rfl
theorem evalOpnd_global (g : Nat) : evalOpnd p fr ty (.global g) = some [.ptr (g + 1) 0] := rfl
theorem evalOpnds_nil (tys : List Nat) : evalOpnds p fr [] tys = some [] := rfl
theorem evalOpnds_cons (o : Opnd) (os : List Opnd) (tys : List Nat) :
    evalOpnds p fr (o :: os) tys
      = (evalOpnd p fr (tys.headD 0) o).bind (fun v => (evalOpnds p fr os tys.tail).bind (fun vs => some (v :: vs))) := rfl
end opnd

/-! ## registers -/

theorem regSet_toArray (l : List RVal) (id : Nat) (v : RVal) :
    regSet l.toArray id v
      = if id < l.length then (l.set id v).toArray else (l ++ (List.replicate (id - l.length) [] ++ [v])).toArray := by
  simp only [regSet, List.size_toArray]
  split
  · simp
  · simp

/-! ## the type table of `prog` -/

theorem tyOf_3 : prog.tyOf 3 = .int 64 false := rfl
theorem tyOf_4 : prog.tyOf 4 = .struct [3, 3, 3, 3, 3] := rfl
theorem tyOf_10 : prog.tyOf 10 = .int 64 true := rfl
theorem tyOf_19 : prog.tyOf 19 = .ptr 4 := rfl
theorem tyOf_60 : prog.tyOf 60 = .ptr 3 := rfl
theorem tyOf_72 : prog.tyOf 72 = .int 32 false := rfl
theorem tyOf_73 : prog.tyOf 73 = .struct [3, 3] := rfl
theorem tyOf_84 : prog.tyOf 84 = .ptr 73 := rfl
theorem tyOf_50 : prog.tyOf 50 = .ptr 19 := rfl
theorem zeros_19 : prog.zeros 19 = some [.nil] := rfl
theorem cls_ptr (b o : Nat) : listEqClasses [.ptr b o] [.nil] = true := rfl
theorem zeros_3 : prog.zeros 3 = some [.int 0] := rfl
theorem zeros_4 : prog.zeros 4 = some [.int 0, .int 0, .int 0, .int 0, .int 0] := rfl
theorem zeros_73 : prog.zeros 73 = some [.int 0, .int 0] := rfl
theorem span2_0 : prog.fieldSpan [3, 3] 0 = some (0, 1) := rfl
theorem span2_1 : prog.fieldSpan [3, 3] 1 = some (1, 1) := rfl
theorem span5_0 : prog.fieldSpan [3, 3, 3, 3, 3] 0 = some (0, 1) := rfl
theorem span5_1 : prog.fieldSpan [3, 3, 3, 3, 3] 1 = some (1, 1) := rfl
theorem span5_2 : prog.fieldSpan [3, 3, 3, 3, 3] 2 = some (2, 1) := rfl
theorem span5_3 : prog.fieldSpan [3, 3, 3, 3, 3] 3 = some (3, 1) := rfl
theorem span5_4 : prog.fieldSpan [3, 3, 3, 3, 3] 4 = some (4, 1) := rfl
theorem intOfTy_3 : intOfTy prog 3 = some (64, false) := rfl
theorem intOfTy_10 : intOfTy prog 10 = some (64, true) := rfl

theorem stepAlloc_of {p : Program} {ty e : Nat} {zs : List Val} (h1 : p.tyOf ty = .ptr e) (h2 : p.zeros e = some zs)
    (h3 : ¬ zs.length > maxAlloc) (hp : Heap) (fr : Frame) (frs : List Frame) (id : Nat) (k : VK) (ln : Nat) (op : Op) (tys : List Nat) :
    stepAlloc p hp fr frs ⟨id, k, ln, op, ty, tys⟩ = contReg fr frs id [.ptr (hp.alloc zs).2 0] (hp.alloc zs).1 [] := by
  simp only [stepAlloc, h1, h2, h3, if_false]

/-- `new(uint128)` -/
theorem stepAlloc_84 (hp : Heap) (fr : Frame) (frs : List Frame) (id : Nat) (k : VK) (ln : Nat) (op : Op) (tys : List Nat) :
    stepAlloc prog hp fr frs ⟨id, k, ln, op, 84, tys⟩
      = contReg fr frs id [.ptr (hp.alloc [.int 0, .int 0]).2 0] (hp.alloc [.int 0, .int 0]).1 [] :=
  stepAlloc_of tyOf_84 zeros_73 (by decide) hp fr frs id k ln op tys

/-- `new(Element)` -/
theorem stepAlloc_19 (hp : Heap) (fr : Frame) (frs : List Frame) (id : Nat) (k : VK) (ln : Nat) (op : Op) (tys : List Nat) :
    stepAlloc prog hp fr frs ⟨id, k, ln, op, 19, tys⟩
      = contReg fr frs id [.ptr (hp.alloc [.int 0, .int 0, .int 0, .int 0, .int 0]).2 0] (hp.alloc [.int 0, .int 0, .int 0, .int 0, .int 0]).1 [] :=
  stepAlloc_of tyOf_19 zeros_4 (by decide) hp fr frs id k ln op tys

theorem cls1 (a : Nat) : listEqClasses [.int a] [.int 0] = true := rfl
theorem cls2 (a b : Nat) : listEqClasses [.int a, .int b] [.int 0, .int 0] = true := rfl
theorem cls5 (a b c d e : Nat) :
    listEqClasses [.int a, .int b, .int c, .int d, .int e] [.int 0, .int 0, .int 0, .int 0, .int 0] = true := rfl

theorem cls_int (a : Nat) : (Val.int a).cls = SC.data := rfl

/-! ## shifts by an unsigned count -/

theorem beq_shl_shl : (BinOp.shl == BinOp.shl) = true := rfl
theorem beq_shr_shl : (BinOp.shr == BinOp.shl) = false := rfl

theorem intShift_shl (w a cw c : Nat) (h : c < w) :
    intShift true w false a cw false c = .ok (.int (wrap w (a <<< c))) := by
  have : ¬ c ≥ w := by omega
  simp [intShift, this]

theorem intShift_shr (w a cw c : Nat) : intShift false w false a cw false c = .ok (.int (a >>> c)) := by
  simp [intShift]

theorem isConst_cint (k : VK) (v : Nat) : (Opnd.cint k v).isConst = true := rfl

/-! ## externals -/

theorem extern_mul64 (p : Program) (hp : Heap) (fr : Frame) (frs : List Frame) (i : Instr) (x y : Nat) :
    stepExtern p hp fr frs i N252 [[.int x], [.int y]]
      = contReg fr frs i.id [.int (x * y / 2 ^ 64), .int (x * y % 2 ^ 64)] hp [] := by
  have h1 : (N252 == Ext.mul64) = true := by decide
  simp only [stepExtern, h1, if_true]

theorem extern_add64 (p : Program) (hp : Heap) (fr : Frame) (frs : List Frame) (i : Instr) (x y c : Nat) :
    stepExtern p hp fr frs i N240 [[.int x], [.int y], [.int c]]
      = contReg fr frs i.id [.int ((x + y + c) % 2 ^ 64), .int ((x + y + c) / 2 ^ 64)] hp [] := by
  have h1 : (N240 == Ext.mul64) = false := by decide
  have h2 : (N240 == Ext.add64) = true := by decide
  simp only [stepExtern, h1, h2, if_true, Bool.false_eq_true, if_false]


/-! ## composition -/

theorem run_steps' {p : Program} {k : Nat} {s s' : State} (h : steps p k s = some s') (n : Nat) :
    run p (n + k) s = run p n s' := by
  rw [Nat.add_comm]; exact run_of_steps k n h

theorem steps_steps' {p : Program} {k : Nat} {s s' : State} (h : steps p k s = some s') (n : Nat) :
    steps p (n + k) s = steps p n s' := by
  rw [Nat.add_comm, steps_add, h]; rfl

theorem mkH_mkH (h0 : Heap) (ovr ext ext') : mkH (mkH h0 ovr ext) [] ext' = mkH h0 ovr (ext ++ ext') := by
  simp [mkH, base, Array.append_assoc]

theorem mkH_nil (h0 : Heap) : mkH h0 [] [] = h0 := by simp [mkH, base]

/-! ## the entry block of a function, as a literal -/

open Lean Elab Term Meta in
/-- `body% f`: the instruction list of block 0 of the `Func` constant `f` (read off its definition) -/
elab "body% " c:ident : term => do
  let n ← realizeGlobalConstNoOverloadWithInfo c
  let some (.defnInfo d) := (← getEnv).find? n | throwError "not a definition"
  let args := d.value.getAppArgs
  let blocks := args[args.size - 1]!
  let some (_, b0, _) := blocks.app3? ``List.cons | throwError "no block"
  let bargs := b0.getAppArgs
  unless b0.isAppOf ``Block.mk do throwError "not a block literal"
  return bargs[0]!

open Lean Elab Command Meta in
/-- `derive_rules c r s`: from `c : ∀ xs, steps p k S = some S'` derive the rewrite rules
    `r : ∀ xs n, run p (n + k) S = run p n S'` and `s : ∀ xs n, steps p (n + k) S = steps p n S'`. -/
elab "derive_rules " c:ident r:ident s:ident : command => liftTermElabM do
  let cn ← realizeGlobalConstNoOverloadWithInfo c
  let info ← getConstInfo cn
  let mk (lem : Name) (nm : Name) : MetaM Unit := do
    let (ty, val) ← forallTelescope info.type fun xs _ => do
      let pf := mkAppN (mkConst cn (info.levelParams.map mkLevelParam)) xs
      withLocalDeclD `n (mkConst ``Nat) fun n => do
        let e ← mkAppM lem #[pf, n]
        let t ← inferType e
        let t ← instantiateMVars t
        return (← mkForallFVars (xs.push n) t, ← mkLambdaFVars (xs.push n) e)
    addDecl <| .thmDecl { name := nm, levelParams := info.levelParams, type := ty, value := val }
  let ns ← getCurrNamespace
  mk ``run_steps' (ns ++ r.getId)
  mk ``steps_steps' (ns ++ s.getId)

/-- call `name` with `args` on `h` and run for `fuel` steps -/
def runCall (p : Program) (fuel : Nat) (h : Heap) (name : Nm) (args : List RVal) : Option Outcome :=
  (p.funcIdx? name).bind fun fi => (callState p h fi args).map (run p fuel)

syntax "ssa_exec" "[" Lean.Parser.Tactic.simpLemma,* "]" : tactic
macro_rules
  | `(tactic| ssa_exec [$ls,*]) => `(tactic|
  simp only [run_succ, runK_cont, runK_done, steps_succ, stepsK_cont, steps_zero,
    step_alloc, step_binop, step_unop, step_load, step_call, step_convert, step_extract, step_fieldAddr, step_field,
    step_store, step_ret,
    stepStore, stepLoad, stepFieldAddr, stepField, stepBinop, stepUnop, stepConvert, stepRet, stepCall,
    evalOpnd_reg, evalOpnd_param, evalOpnd_cint, evalOpnds_nil, evalOpnds_cons,
    contReg, contNoReg, regSet_toArray, intBinop, beq_shl_shl, beq_shr_shl, intShift_shl, intShift_shr, isConst_cint,
    tyOf_3, tyOf_4, tyOf_10, tyOf_19, tyOf_50, zeros_19, cls_ptr, evalOpnd_global, tyOf_60, tyOf_72, tyOf_73, tyOf_84, zeros_3, zeros_4, zeros_73,
    span2_0, span2_1, span5_0, span5_1, span5_2, span5_3, span5_4, intOfTy_3, intOfTy_10,
    stepAlloc_84, stepAlloc_19, cls1, cls2, cls5, cls_int, extern_mul64, extern_add64,
    alloc_mkH, read_ext, write_ext, readCells, writeCells, mkH_mkH, retValue,
    List.headD, List.tail, List.getElem?_toArray, List.getElem?_cons_zero, List.getElem?_cons_succ,
    List.length_cons, List.length_nil, List.cons_append, List.nil_append, List.replicate, List.set_cons_zero, List.set_cons_succ,
    List.setIfInBounds_toArray, List.drop, List.take, List.flatten_cons, List.flatten_nil, List.append_nil,
    Option.bind_some, Option.map_some, Option.pure_def, Option.bind_eq_bind,
    if_true, if_false, ite_true, ite_false, Bool.false_eq_true, Nat.reduceAdd, Nat.reduceSub, Nat.reduceLT, Nat.reduceLeDiff, Nat.reduceGT,
    reduceIte, Nat.reduceMul, $ls,*])

end EdVerif.Ssa.Tie
