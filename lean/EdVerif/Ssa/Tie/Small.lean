import EdVerif.Ssa.Tie.Exec
import EdVerif.Gen.FieldKernels
/-!
# `field.shiftRightBy51`, `field.mul64`, `field.addMul64`

For each: the entry block as a literal, the frame a call creates, a *call lemma* (the callee's frame on top of any
caller: after `k` steps the caller's register holds T1's value and the heap has grown by the callee's locals), and the
top-level `tie_*` theorem.
-/
namespace EdVerif.Ssa.Tie
open EdVerif.Ssa EdVerif.Gen.Ssa EdVerif.Prims
set_option maxRecDepth 100000

/-! ## `field.shiftRightBy51` -/

def body117 : List Instr := body% f117
theorem funcs_117 : prog.funcs[117]? = some f117 := rfl
theorem mkFrame_117 (args : List RVal) (dest : Option Nat) :
    mkFrame 117 f117 args dest = some ⟨117, f117, #[], args.toArray, 0, body117, dest⟩ := rfl
theorem resultTys_117 : f117.resultTys = [3] := rfl

set_option maxHeartbeats 1000000 in
theorem call_shiftRightBy51 (hp : Heap) (lo hi d : Nat) (cfi : Nat) (cf : Func) (cregs cparams : Array RVal) (cblk : Nat)
    (crest : List Instr) (cdest : Option Nat) (frs : List Frame) :
    steps prog 10 ⟨hp, ⟨117, f117, #[], #[[.int lo, .int hi]], 0, body117, some d⟩ :: ⟨cfi, cf, cregs, cparams, cblk, crest, cdest⟩ :: frs⟩
      = some ⟨mkH hp [] [#[.int lo, .int hi]],
          ⟨cfi, cf, regSet cregs d [.int (EdVerif.Gen.Field.shiftRightBy51 ⟨lo, hi⟩)], cparams, cblk, crest, cdest⟩ :: frs⟩ := by
  rw [← mkH_nil hp]
  simp only [body117]
  ssa_exec [resultTys_117]
  rfl


theorem funcIdx_117 : prog.funcIdx? (nm! "field.shiftRightBy51") = some 117 := by decide +kernel

/-- **tie**: `field.shiftRightBy51` on any heap returns T1's value; the heap only grows (by the callee's copy of the argument). -/
theorem tie_shiftRightBy51 (h : Heap) (lo hi : Nat) :
    runCall prog 10 h (nm! "field.shiftRightBy51") [[.int lo, .int hi]]
      = some (.done ⟨mkH h [] [#[.int lo, .int hi]], []⟩ [[.int (EdVerif.Gen.Field.shiftRightBy51 ⟨lo, hi⟩)]]) := by
  simp only [runCall, funcIdx_117, callState, funcs_117, mkFrame_117, Option.bind_some, Option.map_some, Option.pure_def,
    Option.bind_eq_bind, body117]
  rw [← mkH_nil h]
  ssa_exec [resultTys_117]
  rfl

/-! ## `field.mul64` -/

def body116 : List Instr := body% f116
theorem funcs_116 : prog.funcs[116]? = some f116 := rfl
theorem mkFrame_116 (args : List RVal) (dest : Option Nat) :
    mkFrame 116 f116 args dest = some ⟨116, f116, #[], args.toArray, 0, body116, dest⟩ := rfl
theorem resultTys_116 : f116.resultTys = [73] := rfl
theorem funcIdx_116 : prog.funcIdx? (nm! "field.mul64") = some 116 := by decide +kernel

set_option maxHeartbeats 1000000 in
theorem call_mul64 (hp : Heap) (a b d : Nat) (cfi : Nat) (cf : Func) (cregs cparams : Array RVal) (cblk : Nat)
    (crest : List Instr) (cdest : Option Nat) (frs : List Frame) :
    steps prog 10 ⟨hp, ⟨116, f116, #[], #[[.int a], [.int b]], 0, body116, some d⟩ :: ⟨cfi, cf, cregs, cparams, cblk, crest, cdest⟩ :: frs⟩
      = some ⟨mkH hp [] [#[.int (EdVerif.Gen.Field.mul64 a b).lo, .int (EdVerif.Gen.Field.mul64 a b).hi]],
          ⟨cfi, cf, regSet cregs d [.int (EdVerif.Gen.Field.mul64 a b).lo, .int (EdVerif.Gen.Field.mul64 a b).hi], cparams, cblk, crest, cdest⟩ :: frs⟩ := by
  rw [← mkH_nil hp]
  simp only [body116]
  ssa_exec [resultTys_116]
  rfl

set_option maxHeartbeats 1000000 in
/-- **tie**: `field.mul64` -/
theorem tie_mul64 (h : Heap) (a b : Nat) :
    runCall prog 10 h (nm! "field.mul64") [[.int a], [.int b]]
      = some (.done ⟨mkH h [] [#[.int (EdVerif.Gen.Field.mul64 a b).lo, .int (EdVerif.Gen.Field.mul64 a b).hi]], []⟩
          [[.int (EdVerif.Gen.Field.mul64 a b).lo, .int (EdVerif.Gen.Field.mul64 a b).hi]]) := by
  simp only [runCall, funcIdx_116, callState, funcs_116, mkFrame_116, Option.bind_some, Option.map_some, Option.pure_def,
    Option.bind_eq_bind, body116]
  rw [← mkH_nil h]
  ssa_exec [resultTys_116]
  rfl

/-! ## `field.addMul64` -/

def body108 : List Instr := body% f108
theorem funcs_108 : prog.funcs[108]? = some f108 := rfl
theorem mkFrame_108 (args : List RVal) (dest : Option Nat) :
    mkFrame 108 f108 args dest = some ⟨108, f108, #[], args.toArray, 0, body108, dest⟩ := rfl
theorem resultTys_108 : f108.resultTys = [73] := rfl
theorem funcIdx_108 : prog.funcIdx? (nm! "field.addMul64") = some 108 := by decide +kernel

set_option maxHeartbeats 2000000 in
theorem call_addMul64 (hp : Heap) (lo hi a b d : Nat) (cfi : Nat) (cf : Func) (cregs cparams : Array RVal) (cblk : Nat)
    (crest : List Instr) (cdest : Option Nat) (frs : List Frame) :
    steps prog 22 ⟨hp, ⟨108, f108, #[], #[[.int lo, .int hi], [.int a], [.int b]], 0, body108, some d⟩ :: ⟨cfi, cf, cregs, cparams, cblk, crest, cdest⟩ :: frs⟩
      = some ⟨mkH hp [] [#[.int lo, .int hi],
                         #[.int (EdVerif.Gen.Field.addMul64 ⟨lo, hi⟩ a b).lo, .int (EdVerif.Gen.Field.addMul64 ⟨lo, hi⟩ a b).hi]],
          ⟨cfi, cf, regSet cregs d [.int (EdVerif.Gen.Field.addMul64 ⟨lo, hi⟩ a b).lo, .int (EdVerif.Gen.Field.addMul64 ⟨lo, hi⟩ a b).hi],
            cparams, cblk, crest, cdest⟩ :: frs⟩ := by
  rw [← mkH_nil hp]
  simp only [body108]
  ssa_exec [resultTys_108]
  rfl

set_option maxHeartbeats 2000000 in
/-- **tie**: `field.addMul64` -/
theorem tie_addMul64 (h : Heap) (lo hi a b : Nat) :
    runCall prog 22 h (nm! "field.addMul64") [[.int lo, .int hi], [.int a], [.int b]]
      = some (.done ⟨mkH h [] [#[.int lo, .int hi],
                         #[.int (EdVerif.Gen.Field.addMul64 ⟨lo, hi⟩ a b).lo, .int (EdVerif.Gen.Field.addMul64 ⟨lo, hi⟩ a b).hi]], []⟩
          [[.int (EdVerif.Gen.Field.addMul64 ⟨lo, hi⟩ a b).lo, .int (EdVerif.Gen.Field.addMul64 ⟨lo, hi⟩ a b).hi]]) := by
  simp only [runCall, funcIdx_108, callState, funcs_108, mkFrame_108, Option.bind_some, Option.map_some, Option.pure_def,
    Option.bind_eq_bind, body108]
  rw [← mkH_nil h]
  ssa_exec [resultTys_108]
  rfl


/-! ## the call lemmas as rewrite rules (`n` further steps after the call returned) -/
derive_rules call_shiftRightBy51 run_shiftRightBy51 steps_shiftRightBy51
derive_rules call_mul64 run_mul64 steps_mul64
derive_rules call_addMul64 run_addMul64 steps_addMul64

end EdVerif.Ssa.Tie
