import EdVerif.Ssa.Tie.FiatExec
/-!
# `fiatScalarCmovznzU64`, `fiatScalarNonzero`
-/
namespace EdVerif.Ssa.Tie
open EdVerif.Ssa EdVerif.Gen.Ssa EdVerif.Prims EdVerif.Gen.Fiat
set_option maxRecDepth 100000

/-! ## `fiatScalarCmovznzU64` -/

def body96 : List Instr := body% f96
theorem funcs_96 : prog.funcs[96]? = some f96 := rfl
theorem mkFrame_96 (args : List RVal) (dest : Option Nat) :
    mkFrame 96 f96 args dest = some ⟨96, f96, #[], args.toArray, 0, body96, dest⟩ := rfl
theorem resultTys_96 : f96.resultTys = [] := rfl
theorem funcIdx_96 : prog.funcIdx? (nm! "fiatScalarCmovznzU64") = some 96 := by decide +kernel

/-- the value computed by the SSA of `fiatScalarCmovznzU64`, folded back into T1's definition -/
theorem cmov_fold (o c z nz : Nat) :
    U.or 64 (U.and 64 (U.mul 64 c 18446744073709551615) nz) (U.and 64 (U.not 64 (U.mul 64 c 18446744073709551615)) z)
      = fiatScalarCmovznzU64 o c z nz := by
  rw [fiatScalarCmovznzU64]

set_option maxHeartbeats 4000000 in
/-- `fiatScalarCmovznzU64(&out, c, z, nz)` as the outermost call on a canonical heap; `out` is the one-cell block `bo` -/
theorem core_Cmovznz (h0 : Heap) (ovr ext) (bo o c z nz : Nat) (hbo : bo < h0.blocks.size) :
    run prog 8 ⟨mkH h0 ((bo, #[.int o]) :: ovr) ext,
        [⟨96, f96, #[], #[[.ptr bo 0], [.int c], [.int z], [.int nz]], 0, body96, none⟩]⟩
      = .done ⟨mkH h0 ((bo, #[.int (fiatScalarCmovznzU64 o c z nz)]) :: ovr) ext, []⟩ [] := by
  simp only [body96]
  fiat_exec [resultTys_96, mul_eq, and_eq, or_eq, not64_mul, cmov_fold o, read_hit, write_hit, hbo]

/-- **tie**: `fiatScalarCmovznzU64(&out, c, z, nz)` on any heap in which block `bo` is a `uint64` variable: afterwards the
    variable holds T1's value, nothing else changes. -/
theorem tie_fiatScalarCmovznzU64 (h : Heap) (bo o c z nz : Nat) (ho : h.blocks[bo]? = some #[.int o]) :
    ∃ h', runCall prog 8 h (nm! "fiatScalarCmovznzU64") [[.ptr bo 0], [.int c], [.int z], [.int nz]] = some (.done ⟨h', []⟩ [])
      ∧ Post1 h h' bo #[.int (fiatScalarCmovznzU64 o c z nz)] := by
  have core := core_Cmovznz h [] [] bo o c z nz (lt_of_get ho)
  rw [mkH_intro h [(bo, _)] (by simpa using ho)] at core
  refine ⟨_, ?_, post1_mkH (ovr := []) _ [] (lt_of_get ho) (by simp)⟩
  simp only [runCall, funcIdx_96, callState, funcs_96, mkFrame_96, Option.bind_some, Option.map_some, Option.pure_def,
    Option.bind_eq_bind]
  rw [core]

set_option maxHeartbeats 4000000 in
/-- call lemma: the callee's frame on top of any caller, the out-pointer being a freshly allocated (zero) variable `ext[k]` -/
theorem call_Cmovznz_ext (h0 : Heap) (ovr) (ext : List (Array Val)) (k c z nz d : Nat) (hk : ext[k]? = some #[.int 0])
    (cfi : Nat) (cf : Func) (cregs cparams : Array RVal) (cblk : Nat) (crest : List Instr) (cdest : Option Nat) (frs : List Frame) :
    steps prog 8 ⟨mkH h0 ovr ext,
        ⟨96, f96, #[], #[[.ptr (h0.blocks.size + k) 0], [.int c], [.int z], [.int nz]], 0, body96, some d⟩
          :: ⟨cfi, cf, cregs, cparams, cblk, crest, cdest⟩ :: frs⟩
      = some ⟨mkH h0 ovr (ext.set k #[.int (fiatScalarCmovznzU64 0 c z nz)]),
          ⟨cfi, cf, regSet cregs d [], cparams, cblk, crest, cdest⟩ :: frs⟩ := by
  simp only [body96]
  fiat_exec [resultTys_96, mul_eq, and_eq, or_eq, not64_mul, cmov_fold 0, hk]

derive_rules call_Cmovznz_ext run_Cmovznz_ext steps_Cmovznz_ext

/-! ## `fiatScalarNonzero` -/

def body100 : List Instr := body% f100
theorem funcs_100 : prog.funcs[100]? = some f100 := rfl
theorem mkFrame_100 (args : List RVal) (dest : Option Nat) :
    mkFrame 100 f100 args dest = some ⟨100, f100, #[], args.toArray, 0, body100, dest⟩ := rfl
theorem resultTys_100 : f100.resultTys = [] := rfl
theorem funcIdx_100 : prog.funcIdx? (nm! "fiatScalarNonzero") = some 100 := by decide +kernel

set_option maxHeartbeats 4000000 in
/-- `fiatScalarNonzero(&out, &a)`, distinct blocks -/
theorem core_Nonzero (h0 : Heap) (ovr ext) (bo ba o a0 a1 a2 a3 : Nat) (hbo : bo < h0.blocks.size) (hba : ba < h0.blocks.size)
    (hoa : bo ≠ ba) :
    run prog 13 ⟨mkH h0 ((bo, #[.int o]) :: (ba, #[.int a0, .int a1, .int a2, .int a3]) :: ovr) ext,
        [⟨100, f100, #[], #[[.ptr bo 0], [.ptr ba 0]], 0, body100, none⟩]⟩
      = .done ⟨mkH h0 ((bo, #[.int (fiatScalarNonzero o ⟨a0, a1, a2, a3⟩)]) :: (ba, #[.int a0, .int a1, .int a2, .int a3]) :: ovr) ext, []⟩ [] := by
  simp only [body100]
  fiat_exec [resultTys_100, or_eq, read_hit, read_miss, write_hit, hbo, hba, hoa, hoa.symm, ne_eq, not_false_eq_true]
  rfl

/-- **tie**: `fiatScalarNonzero(&out, &a)` -/
theorem tie_fiatScalarNonzero (h : Heap) (bo ba o : Nat) (a : W4)
    (ho : h.blocks[bo]? = some #[.int o]) (ha : h.blocks[ba]? = some (w4Cells a)) :
    ∃ h', runCall prog 13 h (nm! "fiatScalarNonzero") [[.ptr bo 0], [.ptr ba 0]] = some (.done ⟨h', []⟩ [])
      ∧ Post1 h h' bo #[.int (fiatScalarNonzero o a)] := by
  obtain ⟨a0, a1, a2, a3⟩ := a
  have hoa : bo ≠ ba := ne_of_cells ho ha (by simp [w4Cells])
  have core := core_Nonzero h [] [] bo ba o a0 a1 a2 a3 (lt_of_get ho) (lt_of_get ha) hoa
  have hall : ∀ kv ∈ [(ba, w4Cells ⟨a0, a1, a2, a3⟩)], h.blocks[kv.1]? = some kv.2 := by simp [ha]
  rw [show mkH h [(bo, #[.int o]), (ba, #[.int a0, .int a1, .int a2, .int a3])] [] = h from
      mkH_intro h _ (by simpa [w4Cells] using ⟨ho, ha⟩)] at core
  refine ⟨_, ?_, post1_mkH _ [] (lt_of_get ho) hall⟩
  simp only [runCall, funcIdx_100, callState, funcs_100, mkFrame_100, Option.bind_some, Option.map_some, Option.pure_def,
    Option.bind_eq_bind]
  rw [core]; first | done | rfl

end EdVerif.Ssa.Tie
