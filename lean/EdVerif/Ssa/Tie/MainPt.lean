import EdVerif.Ssa.Tie.Pt_projP2_FromP1xP1
import EdVerif.Ssa.Tie.Pt_projP2_FromP3
import EdVerif.Ssa.Tie.Pt_Point_fromP1xP1
import EdVerif.Ssa.Tie.Pt_Point_fromP2
import EdVerif.Ssa.Tie.Pt_projP1xP1_Add
import EdVerif.Ssa.Tie.Pt_projP1xP1_Sub
import EdVerif.Ssa.Tie.Pt_projP1xP1_AddAffine
import EdVerif.Ssa.Tie.Pt_projP1xP1_SubAffine
import EdVerif.Ssa.Tie.Pt_projP1xP1_Double
import EdVerif.Ssa.Tie.Pt_projCached_Select
import EdVerif.Ssa.Tie.Pt_affineCached_Select
import EdVerif.Ssa.Tie.Pt_projCached_FromP3
import EdVerif.Ssa.Tie.Pt_projCached_CondNeg
import EdVerif.Ssa.Tie.Pt_affineCached_CondNeg
import EdVerif.Ssa.Tie.Pt_Point_Negate
import EdVerif.Ssa.Tie.Pt_Point_MultByCofactor
import EdVerif.Ssa.Tie.Pt_Point_Add
import EdVerif.Ssa.Tie.Pt_Point_Subtract
import EdVerif.Ssa.Tie.Pt_Point_Add__al010
import EdVerif.Ssa.Tie.Pt_Point_Add__al011
import EdVerif.Ssa.Tie.Pt_Point_Add__al002
import EdVerif.Ssa.Tie.Pt_Point_Add__al000
import EdVerif.Ssa.Tie.Pt_Point_Subtract__al010
import EdVerif.Ssa.Tie.Pt_Point_Subtract__al011
import EdVerif.Ssa.Tie.Pt_Point_Subtract__al002
import EdVerif.Ssa.Tie.Pt_Point_Subtract__al000
import EdVerif.Ssa.Tie.Pt_Point_Negate__al00
import EdVerif.Ssa.Tie.Pt_Point_MultByCofactor__al00
import EdVerif.Ssa.Tie.PtSet
/-!
# Point layer: SSA execution = T5 definitions (`EdVerif/Gen/Formulas.lean`) — headline theorems and their axioms
-/
open EdVerif.Ssa.Tie
#print axioms tie_projP2_FromP1xP1
#print axioms callA_projP2_FromP1xP1
#print axioms tie_projP2_FromP3
#print axioms callA_projP2_FromP3
#print axioms tie_Point_fromP1xP1
#print axioms callA_Point_fromP1xP1
#print axioms tie_Point_fromP2
#print axioms callA_Point_fromP2
#print axioms tie_projP1xP1_Add
#print axioms callA_projP1xP1_Add
#print axioms tie_projP1xP1_Sub
#print axioms callA_projP1xP1_Sub
#print axioms tie_projP1xP1_AddAffine
#print axioms callA_projP1xP1_AddAffine
#print axioms tie_projP1xP1_SubAffine
#print axioms callA_projP1xP1_SubAffine
#print axioms tie_projP1xP1_Double
#print axioms callA_projP1xP1_Double
#print axioms tie_projCached_Select
#print axioms callA_projCached_Select
#print axioms tie_affineCached_Select
#print axioms callA_affineCached_Select
#print axioms tie_projCached_FromP3
#print axioms callA_projCached_FromP3
#print axioms tie_projCached_CondNeg
#print axioms callA_projCached_CondNeg
#print axioms tie_affineCached_CondNeg
#print axioms callA_affineCached_CondNeg
#print axioms tie_Point_Negate
#print axioms tie_Point_MultByCofactor
#print axioms tie_Point_Add
#print axioms tie_Point_Subtract
#print axioms tie_Point_Add__al010
#print axioms tie_Point_Add__al011
#print axioms tie_Point_Add__al002
#print axioms tie_Point_Add__al000
#print axioms tie_Point_Subtract__al010
#print axioms tie_Point_Subtract__al011
#print axioms tie_Point_Subtract__al002
#print axioms tie_Point_Subtract__al000
#print axioms tie_Point_Negate__al00
#print axioms tie_Point_MultByCofactor__al00
#print axioms tie_Point_Set
#print axioms callA_Add
#print axioms callA_Subtract
#print axioms callA_Multiply
#print axioms callA_Square
#print axioms callA_Select
#print axioms callA_Set
#print axioms callA_Swap
#print axioms callA_Negate
