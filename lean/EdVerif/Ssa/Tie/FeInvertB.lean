import EdVerif.Ssa.Tie.FeInvertA
/-!
# `(*field.Element).Invert`: the theorems (from `preE_Invert`): outermost call, callee, abstract call lemma, `tie_Invert`
-/
namespace EdVerif.Ssa.Tie
open EdVerif.Ssa EdVerif.Gen.Ssa EdVerif.Prims EdVerif.Impl EdVerif.Gen
set_option maxRecDepth 100000
set_option linter.unusedVariables false

/-- the blocks `v.Invert(z)` allocates (nine local elements and the temporaries of the 265 kernel calls): they depend on the values only -/
noncomputable def ext_Invert (v z : Fe) : List (Array Val) := Classical.choose (preE_Invert v z)

theorem preX_Invert (v z : Fe) (H : Heap) (bv ov bz oz : Nat) (hfv : Fits H bv ov 5) (hfz : Fits H bz oz 5)
    (hs : SepE bv ov bz oz) (dest : Option Nat) (tail : List Frame) : ∃ regs : Array RVal,
    steps prog 130744 ⟨mkE H [(bv, ov, feL v), (bz, oz, feL z)] [], ⟨66, f66, #[], #[[.ptr bv ov], [.ptr bz oz]], 0, body66, dest⟩ :: tail⟩
      = some ⟨mkE H [(bv, ov, feL (Formulas.field_Element_Invert v z)), (bz, oz, feL z)] (ext_Invert v z),
          ⟨66, f66, regs, #[[.ptr bv ov], [.ptr bz oz]], 20, [⟨82, .none, 181, .ret [(.reg 81)], 0, [19]⟩], dest⟩ :: tail⟩
    ∧ regs[81]? = some [.ptr bv ov] :=
  Classical.choose_spec (preE_Invert v z) H bv ov bz oz hfv hfz hs dest tail

/-- `v.Invert(z)` called from any frame, on the canonical heap of its parameters (disjoint element slots) -/
theorem callX_Invert (v z : Fe) (H : Heap) (bv ov bz oz : Nat) (hfv : Fits H bv ov 5) (hfz : Fits H bz oz 5) (hs : SepE bv ov bz oz)
    (d : Nat) (cfi : Nat) (cf : Func) (cregs cparams : Array RVal) (cblk : Nat) (crest : List Instr) (cdest : Option Nat) (frs : List Frame) :
    steps prog 130745 ⟨mkE H [(bv, ov, feL v), (bz, oz, feL z)] [],
        ⟨66, f66, #[], #[[.ptr bv ov], [.ptr bz oz]], 0, body66, some d⟩ :: ⟨cfi, cf, cregs, cparams, cblk, crest, cdest⟩ :: frs⟩
      = some ⟨mkE H [(bv, ov, feL (Formulas.field_Element_Invert v z)), (bz, oz, feL z)] (ext_Invert v z),
          ⟨cfi, cf, regSet cregs d [.ptr bv ov], cparams, cblk, crest, cdest⟩ :: frs⟩ := by
  obtain ⟨regs, h1, h2⟩ := preX_Invert v z H bv ov bz oz hfv hfz hs (some d) (⟨cfi, cf, cregs, cparams, cblk, crest, cdest⟩ :: frs)
  refine steps_trans (a := 130744) (b := 1) h1 ?_
  ssa_execI [h2]

/-- `v.Invert(z)` as the outermost call -/
theorem coreX_Invert (v z : Fe) (H : Heap) (bv ov bz oz : Nat) (hfv : Fits H bv ov 5) (hfz : Fits H bz oz 5) (hs : SepE bv ov bz oz) :
    run prog 130745 ⟨mkE H [(bv, ov, feL v), (bz, oz, feL z)] [], [⟨66, f66, #[], #[[.ptr bv ov], [.ptr bz oz]], 0, body66, none⟩]⟩
      = .done ⟨mkE H [(bv, ov, feL (Formulas.field_Element_Invert v z)), (bz, oz, feL z)] (ext_Invert v z), []⟩ [[.ptr bv ov]] := by
  obtain ⟨regs, h1, h2⟩ := preX_Invert v z H bv ov bz oz hfv hfz hs none []
  rw [run_steps' h1 1]
  ssa_execI [h2]

/-- `v.Invert(z)` called from any frame on an arbitrary heap in which `(bv, ov)` and `(bz, oz)` are disjoint element slots -/
theorem callA_Invert (H : Heap) (bv ov bz oz : Nat) (hkv : OkE H bv ov) (hkz : OkE H bz oz) (hs : SepE bv ov bz oz)
    (d : Nat) (cfi : Nat) (cf : Func) (cregs cparams : Array RVal) (cblk : Nat) (crest : List Instr) (cdest : Option Nat) (frs : List Frame) :
    steps prog 130745 ⟨H, ⟨66, f66, #[], #[[.ptr bv ov], [.ptr bz oz]], 0, body66, some d⟩ :: ⟨cfi, cf, cregs, cparams, cblk, crest, cdest⟩ :: frs⟩
      = some ⟨pushB (setE bv ov (Formulas.field_Element_Invert (getE H bv ov) (getE H bz oz)) H) (ext_Invert (getE H bv ov) (getE H bz oz)),
          ⟨cfi, cf, regSet cregs d [.ptr bv ov], cparams, cblk, crest, cdest⟩ :: frs⟩ := by
  have key := callX_Invert (getE H bv ov) (getE H bz oz) H bv ov bz oz hkv.1 hkz.1 hs d cfi cf cregs cparams cblk crest cdest frs
  rw [mkE_restates H _ (restates_cons hkv (restates_cons hkz (restates_nil H)))] at key
  rw [key]
  refine congrArg (fun hp => some (⟨hp, _⟩ : State)) ?_
  exact mkE_head_intro H _ _ _ _ _ (restates_cons hkz (restates_nil H))

derive_rules callA_Invert runA_Invert stepsA_Invert

/-- **tie**: `v.Invert(z)` (distinct blocks): block `bv` then holds the limbs of T5's `Formulas.field_Element_Invert v z` (= `Fe.invert z`);
    every other block of the heap is unchanged -/
theorem tie_Invert (h : Heap) (bv bz : Nat) (v z : Fe) (hv : h.blocks[bv]? = some (feCells v)) (hz : h.blocks[bz]? = some (feCells z))
    (hne_vz : bv ≠ bz) :
    ∃ h', runCall prog 130745 h (nm! "(*field.Element).Invert") [[.ptr bv 0], [.ptr bz 0]] = some (.done ⟨h', []⟩ [[.ptr bv 0]])
      ∧ Post1 h h' bv (feCells (Formulas.field_Element_Invert v z)) := by
  have core := coreX_Invert v z h bv 0 bz 0 (fits_of_get hv 5 (Nat.le_refl _)) (fits_of_get hz 5 (Nat.le_refl _)) (Or.inl hne_vz.symm)
  rw [mkE_restates h _ (restates_feCells hv (restates_feCells hz (restates_nil h)))] at core
  refine ⟨_, ?_, post1_mkE1 _ _ (ext_Invert v z) hv (feCells_size _) (restates_feCells hz (restates_nil h))⟩
  simp only [runCall, funcIdx_66, callState, funcs_66, mkFrame_66, Option.bind_some, Option.map_some, Option.pure_def,
    Option.bind_eq_bind]
  rw [core]

end EdVerif.Ssa.Tie
