import EdVerif.Ssa.Tie.Carry
/-!
# `field.init` establishes the hypotheses of `tie_Zero`, `tie_One`, `tie_Negate`

Everything is concrete here (the initial heap `initHeap prog`, no symbolic value), so the run is evaluated by the kernel.
-/
namespace EdVerif.Ssa.Tie
open EdVerif.Ssa EdVerif.Gen.Ssa EdVerif.Prims
set_option maxRecDepth 100000

/-- `field.init()` on the initial heap -/
def initRun : Option Outcome := (initHeap prog).bind fun h0 => runCall prog 60 h0 (nm! "field.init") []

/-- what `field.init` establishes: the package variables `feZero`, `feOne`, `sqrtM1` (globals 12, 11, 14 = heap blocks 13, 12, 15)
    point to fresh blocks holding T1's constants; block 16 (`binary.LittleEndian`) exists -/
def InitGood (h' : Heap) : Prop :=
  h'.blocks[13]? = some #[.ptr 17 0] ∧ h'.blocks[17]? = some (feCells EdVerif.Gen.Field.feZero) ∧
  h'.blocks[12]? = some #[.ptr 18 0] ∧ h'.blocks[18]? = some (feCells EdVerif.Gen.Field.feOne) ∧
  h'.blocks[15]? = some #[.ptr 19 0] ∧ h'.blocks[19]? = some (feCells EdVerif.Gen.Field.sqrtM1) ∧
  16 < h'.blocks.size

instance (h' : Heap) : Decidable (InitGood h') := by unfold InitGood; infer_instance

def initHeapAfter : Option Heap :=
  match initRun with
  | some (.done ⟨h', []⟩ []) => some h'
  | _ => none

theorem initHeapAfter_good : (initHeapAfter.map fun h' => decide (InitGood h')) = some true := by decide +kernel

/-- **tie** (`field.init`): the run terminates normally and leaves the three constants where `Zero`, `One`, `Negate`, … expect them. -/
theorem tie_field_init : ∃ h', initRun = some (.done ⟨h', []⟩ []) ∧ InitGood h' := by
  have key := initHeapAfter_good
  unfold initHeapAfter at key
  split at key
  · rename_i h' heq
    refine ⟨h', heq, ?_⟩
    simpa using key
  · simp at key

end EdVerif.Ssa.Tie
