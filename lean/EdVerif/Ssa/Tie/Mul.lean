import EdVerif.Ssa.Tie.Carry
/-!
# `field.feMulGeneric`
-/
namespace EdVerif.Ssa.Tie
open EdVerif.Ssa EdVerif.Gen.Ssa EdVerif.Prims
set_option maxRecDepth 100000

theorem U128_eta (x : U128) : (⟨x.lo, x.hi⟩ : U128) = x := rfl

def body110 : List Instr := body% f110
theorem funcs_110 : prog.funcs[110]? = some f110 := rfl
theorem mkFrame_110 (args : List RVal) (dest : Option Nat) :
    mkFrame 110 f110 args dest = some ⟨110, f110, #[], args.toArray, 0, body110, dest⟩ := rfl
theorem resultTys_110 : f110.resultTys = [] := rfl
theorem funcIdx_110 : prog.funcIdx? (nm! "field.feMulGeneric") = some 110 := by decide +kernel

abbrev MulT (v0 v1 v2 v3 v4 a0 a1 a2 a3 a4 b0 b1 b2 b3 b4 : Nat) : Fe :=
  EdVerif.Gen.Field.feMulGeneric ⟨v0, v1, v2, v3, v4⟩ ⟨a0, a1, a2, a3, a4⟩ ⟨b0, b1, b2, b3, b4⟩

set_option maxHeartbeats 64000000 in
/-- `feMulGeneric(v, a, b)` as the outermost call on a canonical heap, `v`, `a`, `b` pairwise distinct blocks -/
theorem core_feMulGeneric (h0 : Heap) (ovr) (bv ba bb : Nat) (v0 v1 v2 v3 v4 a0 a1 a2 a3 a4 b0 b1 b2 b3 b4 : Nat)
    (hbv : bv < h0.blocks.size) (hba : ba < h0.blocks.size) (hbb : bb < h0.blocks.size)
    (hva : bv ≠ ba) (hvb : bv ≠ bb) (hab : ba ≠ bb) :
    ∃ ext, run prog 731 ⟨mkH h0 ((bv, #[.int v0, .int v1, .int v2, .int v3, .int v4]) :: (ba, #[.int a0, .int a1, .int a2, .int a3, .int a4])
                    :: (bb, #[.int b0, .int b1, .int b2, .int b3, .int b4]) :: ovr) [],
        [⟨110, f110, #[], #[[.ptr bv 0], [.ptr ba 0], [.ptr bb 0]], 0, body110, none⟩]⟩
      = .done ⟨mkH h0 ((bv, feCells (MulT v0 v1 v2 v3 v4 a0 a1 a2 a3 a4 b0 b1 b2 b3 b4)) :: (ba, #[.int a0, .int a1, .int a2, .int a3, .int a4])
                    :: (bb, #[.int b0, .int b1, .int b2, .int b3, .int b4]) :: ovr) ext, []⟩ [] := by
  apply Exists.intro
  simp only [body110]
  ssa_exec [resultTys_110, funcs_83, mkFrame_83, funcs_116, mkFrame_116, funcs_108, mkFrame_108, funcs_117, mkFrame_117,
    ↓run_carryPropagate, ↓run_mul64, ↓run_addMul64, ↓run_shiftRightBy51, U128_eta,
    read_hit, read_miss, write_hit, hbv, hba, hbb,
    hva, hvb, hab, hva.symm, hvb.symm, hab.symm, ne_eq, not_false_eq_true]
  rfl


/-- **tie**: `feMulGeneric(v, a, b)` (three distinct blocks) on any heap: afterwards block `bv` holds the limbs of T1's
    `feMulGeneric v a b`; every other block of the heap is unchanged (the heap grows by the locals of the run). -/
theorem tie_feMulGeneric (h : Heap) (bv ba bb : Nat) (v a b : Fe)
    (hv : h.blocks[bv]? = some (feCells v)) (ha : h.blocks[ba]? = some (feCells a)) (hb : h.blocks[bb]? = some (feCells b))
    (hva : bv ≠ ba) (hvb : bv ≠ bb) (hab : ba ≠ bb) :
    ∃ h', runCall prog 731 h (nm! "field.feMulGeneric") [[.ptr bv 0], [.ptr ba 0], [.ptr bb 0]]
            = some (.done ⟨h', []⟩ [])
      ∧ Post1 h h' bv (feCells (EdVerif.Gen.Field.feMulGeneric v a b)) := by
  obtain ⟨v0, v1, v2, v3, v4⟩ := v
  obtain ⟨a0, a1, a2, a3, a4⟩ := a
  obtain ⟨b0, b1, b2, b3, b4⟩ := b
  obtain ⟨ext, core⟩ := core_feMulGeneric h [] bv ba bb v0 v1 v2 v3 v4 a0 a1 a2 a3 a4 b0 b1 b2 b3 b4 (lt_of_get hv) (lt_of_get ha) (lt_of_get hb) hva hvb hab
  have hall : ∀ kv ∈ [(ba, feCells ⟨a0, a1, a2, a3, a4⟩), (bb, feCells ⟨b0, b1, b2, b3, b4⟩)], h.blocks[kv.1]? = some kv.2 := by
    simp [ha, hb]
  rw [show mkH h [(bv, #[.int v0, .int v1, .int v2, .int v3, .int v4]), (ba, #[.int a0, .int a1, .int a2, .int a3, .int a4]),
        (bb, #[.int b0, .int b1, .int b2, .int b3, .int b4])] [] = h from
      mkH_intro h _ (by simpa [feCells] using ⟨hv, ha, hb⟩)] at core
  refine ⟨_, ?_, post1_mkH _ ext (lt_of_get hv) hall⟩
  simp only [runCall, funcIdx_110, callState, funcs_110, mkFrame_110, Option.bind_some, Option.map_some, Option.pure_def,
    Option.bind_eq_bind]
  rw [core]; rfl

end EdVerif.Ssa.Tie
