import EdVerif.Ssa.Sem
import EdVerif.Ssa.Taint
/-!
# C03 — what the constant-time checker is supposed to guarantee (statement only)

`ctCheck` (`Taint.lean`) is evaluated by the kernel on the regenerated SSA.  This file states, against
the leakage semantics of `Sem.lean`, what a passing check means.  The proof is in `EdVerif/Ssa/NI/*.lean`.

## Simple form of the verdict

`ctCheck` counts offending sites per (function, kind) in packed vectors and compares with allowances.
For the soundness statement only this consequence is needed: *every offending site of a checked
function is a leak point (`leakKinds`) whose (function, kind) is allowed, every function a checked
function calls or mentions is itself checked, and static kinds agree with layouts*.  `ctOkSimple`
says exactly that and is evaluated by the kernel next to `ctCheck` (`Props/Structural/CtSound.lean`).

## The statement

Two runs of a checked function from related states (same control state, same heap shape, equal
address-class scalars everywhere, equal public registers and parameters; secret integers/booleans
arbitrary) produce leakage traces that are **equal, or first differ at an event of an allowed
(function, kind)** — i.e. the only thing an observer of branches, memory addresses, indices, slice
bounds, shift counts, division operands and allocation sizes can learn is what the allowed sites
(decoder validity decisions, the discharged `signedRadix16` guard, the recorded known finding) declassify.
-/
namespace EdVerif.Ssa

/-- site kinds that are leak points of the semantics (an event of that kind is emitted) -/
def leakKinds : List Nm := [K.branch, K.index, K.sliceBound, K.shiftCount, K.divmod, K.makeSlice, K.aggCompare]

/-- (function, kind) pairs at which a secret may reach a leak point -/
abbrev AllowedSites := List (Nm × Nm)

def allowedPair (al : AllowedSites) (fn k : Nm) : Bool := al.any fun a => a.1 == fn && a.2 == k

def siteOk (al : AllowedSites) (fn k : Nm) : Bool := leakKinds.any (· == k) && allowedPair al fn k

/-! ### static kinds agree with layouts

The checker reasons on `VK` (kinds), the semantics on `Ty` (layouts); both are printed from the same
Go type.  The soundness proof needs: a value whose kind is address-like has a layout consisting of
address-class scalars only. -/

def tyAllAddr (p : Program) (ty : Nat) : Bool :=
  match p.zeros ty with
  | some zs => zs.all (·.cls == .addr)
  | none => false

def kindTyOk (p : Program) (k : VK) (ty : Nat) : Bool :=
  match k with
  | .none => true
  | k => !k.addressLike || tyAllAddr p ty

def instrKindsOk (p : Program) (i : Instr) : Bool := kindTyOk p i.k i.ty

def paramsKindsOk (p : Program) : List Param → Bool
  | [] => true
  | q :: qs => kindTyOk p q.k q.tyId && paramsKindsOk p qs

def resultsKindsOk (p : Program) : List VK → List Nat → Bool
  | [], [] => true
  | k :: ks, t :: ts => kindTyOk p k t && resultsKindsOk p ks ts
  | _, _ => false

/-! ### the verdict in simple form -/

def opndFnsChecked (checked : Nat) : List Opnd → Bool
  | [] => true
  | .fn g :: os => checked.testBit g && opndFnsChecked checked os
  | _ :: os => opndFnsChecked checked os

/-- every function called, or mentioned as a value, by the instruction is checked -/
def instrCalleesChecked (checked : Nat) (i : Instr) : Bool :=
  opndFnsChecked checked i.op.operands &&
  match i.op with
  | .call (.fn g) _ => checked.testBit g
  | _ => true

def ctInstrOk (prog : Program) (hints : List FuncHints) (al : AllowedSites) (checked : Nat) (f : Func) (h : FuncHints) (i : Instr) : Bool :=
  (tInstr { prog := prog, hints := hints, f := f, h := h } i).all (siteOk al f.name)
  && instrCalleesChecked checked i && instrKindsOk prog i

def ctBlocksOk (prog : Program) (hints : List FuncHints) (al : AllowedSites) (checked : Nat) (f : Func) (h : FuncHints) : List Block → Bool
  | [] => true
  | b :: bs => b.instrs.all (ctInstrOk prog hints al checked f h) && ctBlocksOk prog hints al checked f h bs

def ctFuncOk (prog : Program) (hints : List FuncHints) (al : AllowedSites) (checked : Nat) (f : Func) (h : FuncHints) : Bool :=
  paramsKindsOk prog f.params && resultsKindsOk prog f.results f.resultTys && f.freeVars.isEmpty
  && ctBlocksOk prog hints al checked f h f.blocks

def ctFuncsOk (prog : Program) (hints : List FuncHints) (al : AllowedSites) (checked : Nat) : List Func → List FuncHints → Nat → Bool
  | [], _, _ => true
  | f :: fs, hs, i =>
    (if checked.testBit i then
      (match hs with
       | h :: _ => ctFuncOk prog hints al checked f h
       | [] => false)
     else true) && ctFuncsOk prog hints al checked fs hs.tail (i + 1)

/-- **the verdict of `ctCheck` in the form the soundness theorem uses** -/
def ctOkSimple (prog : Program) (hints : List FuncHints) (pol : CtPolicy) (al : AllowedSites) : Bool :=
  ctFuncsOk prog hints al (ctChecked prog pol) prog.funcs hints 0

/-! ### relating two runs -/

/-- two scalars that may differ only if both are secret-capable data of the same shape -/
def RelH (a b : Val) : Prop :=
  a = b ∨ (∃ x y, a = .int x ∧ b = .int y) ∨ (∃ x y, a = .bool x ∧ b = .bool y)

/-- pointwise relation of two lists of the same length -/
inductive ListRel {α β : Type} (R : α → β → Prop) : List α → List β → Prop
  | nil : ListRel R [] []
  | cons {a b as bs} : R a b → ListRel R as bs → ListRel R (a :: as) (b :: bs)

/-- register / parameter values: equal if public, scalar-wise `RelH` if secret -/
def RelR (secret : Bool) (a b : RVal) : Prop :=
  if secret then ListRel RelH a b else a = b

/-- heaps of the same shape whose address-class cells agree -/
def RelHeap (h1 h2 : Heap) : Prop :=
  h1.blocks.size = h2.blocks.size ∧
  ∀ b, b < h1.blocks.size → ListRel RelH ((h1.blocks[b]?).getD #[]).toList ((h2.blocks[b]?).getD #[]).toList

/-- arguments of a call of `f` labelled by `h` -/
def RelArgs (f : Func) (h : FuncHints) : Nat → List RVal → List RVal → Prop
  | _, [], [] => True
  | i, a :: as, b :: bs => RelR (paramSecret f.params h.publicParams i) a b ∧ RelArgs f h (i + 1) as bs
  | _, _, _ => False

/-- the trace as emitted (oldest event first) -/
def Outcome.isFault : Outcome → Bool
  | .fault _ => true
  | _ => false

/-- `t1` and `t2` are equal, or their first difference is a pair of events of the same allowed
    (function, kind) with different payloads -/
def TraceRel (al : AllowedSites) (t1 t2 : List Event) : Prop :=
  t1 = t2 ∨
  ∃ pre e1 e2 r1 r2, t1 = pre ++ e1 :: r1 ∧ t2 = pre ++ e2 :: r2 ∧ e1 ≠ e2 ∧ e1.fn = e2.fn ∧ e1.kind = e2.kind ∧
    allowedPair al e1.fn e1.kind = true

/-- **Statement of C03 soundness.**  For a program whose simple verdict is `true`, a checked function
    `fi`, related heaps and related arguments, the traces (in emission order) of the two runs with the
    same fuel are `TraceRel`-related. -/
def NIStatement : Prop :=
  ∀ (prog : Program) (hints : List FuncHints) (pol : CtPolicy) (al : AllowedSites),
    ctOkSimple prog hints pol al = true →
    ∀ (fi : Nat) (f : Func) (h : FuncHints), (ctChecked prog pol).testBit fi = true →
      prog.funcs[fi]? = some f → hints[fi]? = some h →
    ∀ (h1 h2 : Heap) (args1 args2 : List RVal), RelHeap h1 h2 → RelArgs f h 0 args1 args2 →
    ∀ (s1 s2 : State), callState prog h1 fi args1 = some s1 → callState prog h2 fi args2 = some s2 →
    ∀ fuel, TraceRel al (runTrace prog fuel s1 []).2.reverse (runTrace prog fuel s2 []).2.reverse

end EdVerif.Ssa
