import EdVerif.Ssa.Sem
import EdVerif.Ssa.Taint
/-!
# C03 — what the constant-time checker is supposed to guarantee (statement only)

`ctCheck` (`Taint.lean`) is evaluated by the kernel on the regenerated SSA.  This file states, against
the leakage semantics of `Sem.lean`, what a passing check means.  The proof is in `EdVerif/Ssa/NI/*.lean`.

## Simple form of the verdict

`ctCheck` counts offending sites per (function, kind) in packed vectors and compares with allowances.
For the soundness statement only this consequence is needed: *every offending site of a checked
function is a leak point (`leakKinds`) whose (function, kind) is allowed, every function a checked
function calls or mentions is itself checked, and static kinds agree with layouts*.  `ctOkSimple`
says exactly that and is evaluated by the kernel next to `ctCheck` (`Props/Structural/CtSound.lean`).

## The statement

Two runs of a checked function from related states (same control state, same heap shape, equal
address-class scalars everywhere, equal public registers and parameters; secret integers/booleans
arbitrary) produce leakage traces that are **equal, or first differ at an event of an allowed
(function, kind)** — i.e. the only thing an observer of branches, memory addresses, indices, slice
bounds, shift counts, division operands and allocation sizes can learn is what the allowed sites
(decoder validity decisions, the discharged `signedRadix16` guard, the recorded known finding) declassify.
-/
namespace EdVerif.Ssa

/-- site kinds that are leak points of the semantics (an event of that kind is emitted) -/
def leakKinds : List Nm := [K.branch, K.index, K.sliceBound, K.shiftCount, K.divmod, K.makeSlice, K.aggCompare]

/-- (function, kind) pairs at which a secret may reach a leak point -/
abbrev AllowedSites := List (Nm × Nm)

def allowedPair (al : AllowedSites) (fn k : Nm) : Bool := al.any fun a => a.1 == fn && a.2 == k

def siteOk (al : AllowedSites) (fn k : Nm) : Bool := leakKinds.any (· == k) && allowedPair al fn k

/-! ### static kinds agree with layouts

The checker reasons on `VK` (kinds), the semantics on `Ty` (layouts); both are printed from the same
Go type.  The soundness proof needs: a value whose kind is address-like has a layout consisting of
address-class scalars only. -/

def tyAllAddr (p : Program) (ty : Nat) : Bool :=
  match p.zeros ty with
  | some zs => zs.all (·.cls == .addr)
  | none => false

def kindTyOk (p : Program) (k : VK) (ty : Nat) : Bool :=
  match k with
  | .none => true
  | k => !k.addressLike || tyAllAddr p ty

def instrKindsOk (p : Program) (i : Instr) : Bool := kindTyOk p i.k i.ty

def paramsKindsOk (p : Program) : List Param → Bool
  | [] => true
  | q :: qs => kindTyOk p q.k q.tyId && paramsKindsOk p qs

def resultsKindsOk (p : Program) : List VK → List Nat → Bool
  | [], [] => true
  | k :: ks, t :: ts => kindTyOk p k t && resultsKindsOk p ks ts
  | _, _ => false

/-! ### the verdict in simple form -/

def opndFnsChecked (checked : Nat) : List Opnd → Bool
  | [] => true
  | .fn g :: os => checked.testBit g && opndFnsChecked checked os
  | _ :: os => opndFnsChecked checked os

/-- every function called, or mentioned as a value, by the instruction is checked -/
def instrCalleesChecked (checked : Nat) (i : Instr) : Bool :=
  opndFnsChecked checked i.op.operands &&
  match i.op with
  | .call (.fn g) _ => checked.testBit g
  | _ => true

def ctInstrOk (prog : Program) (hints : List FuncHints) (al : AllowedSites) (checked : Nat) (f : Func) (h : FuncHints) (i : Instr) : Bool :=
  (tInstr { prog := prog, hints := hints, f := f, h := h } i).all (siteOk al f.name)
  && instrCalleesChecked checked i && instrKindsOk prog i

def ctBlocksOk (prog : Program) (hints : List FuncHints) (al : AllowedSites) (checked : Nat) (f : Func) (h : FuncHints) : List Block → Bool
  | [] => true
  | b :: bs => b.instrs.all (ctInstrOk prog hints al checked f h) && ctBlocksOk prog hints al checked f h bs

/-! ### the strengthened labelling the soundness proof works with (side condition of `ctOkSimple`)

The semantics of `Sem.lean` is untyped (a register holds whatever flat scalars were put there) and the
top-level arguments of `NIStatement` are arbitrary, so "address-like values are public by definition"
cannot be read as *equal in both runs*: an address-kind register that is copied out of a secret
aggregate (`Extract` of the pointer component of `(*Element, int)`) is only known to be scalar-wise
`RelH`-related.  This is harmless wherever the value is *used as an address* (the semantics
pattern-matches on `.ptr`/`.slice`/…, and `RelH` forces address-class scalars to be equal), but it must
not flow into a public data value or a leak point.  The proof therefore works with the labelling

* `hi = secretRegs ||| weakRegs`: a register is *not known to be equal* if the hint says secret or if its
  kind is pointer-like / `none` and it is defined by a copying instruction (`weakRegs`);
* `paramHi`: a parameter is known to be equal only if it is explicitly public and not pointer-like;

and `sInstrOk` re-checks every instruction under that labelling (same sinks as `tRule`, same notion of
allowed site), together with the shape conditions without which `NIStatement` is false for artificial
programs (see `NI/STATUS.md`): a declassified shift count is unsigned, the index of `Index` and the
lengths of `MakeSlice` are public, the operand of `Panic` is public, arguments for public parameters are
public, pointer-like results are public operands of `Return` unless the callee's result is secret,
`Once.Do` is called with a function constant, and both targets of a declassified `If` can be entered
(their phis read constants or registers defined earlier in the same block). -/

def weakKind (k : VK) : Bool :=
  match k with
  | .none => true
  | k => k.pointerish

/-- instructions whose value is computed from address-class scalars only (always public) -/
def opAlwaysPublic : Op → Bool
  | .alloc _ _ | .sliceToArrayPointer _ | .fieldAddr _ _ _ | .indexAddr _ _ _ | .slice _ _ _ _ _
  | .makeSlice _ _ | .makeInterface _ => true
  | _ => false

def weakMaskI : List Instr → Nat → Nat
  | [], m => m
  | i :: is, m => weakMaskI is (if weakKind i.k && !opAlwaysPublic i.op then m ||| (1 <<< i.id) else m)

def weakMaskB : List Block → Nat → Nat
  | [], m => m
  | b :: bs, m => weakMaskB bs (weakMaskI b.instrs m)

/-- registers of pointer-like (or no) kind that are defined by a copying instruction, as a bit set -/
def Func.weakRegs (f : Func) : Nat := weakMaskB f.blocks 0

/-- the parameter is not known to be equal in the two runs -/
def paramHi (ps : List Param) (pub : Nat) (i : Nat) : Bool :=
  match ps[i]? with
  | some p => p.k.pointerish || !pub.testBit i
  | none => true

structure SCtx where
  prog : Program
  hints : List FuncHints
  f : Func
  h : FuncHints
  /-- `secretRegs ||| weakRegs` -/
  hi : Nat

def SCtx.lab (c : SCtx) : Opnd → Bool
  | .reg id => c.hi.testBit id
  | .param i => paramHi c.f.params c.h.publicParams i
  | .freeVar _ => true
  | _ => false

/-- constants that evaluate to one address-class scalar -/
def Opnd.isAddrConst : Opnd → Bool
  | .nil _ | .global _ | .fn _ => true
  | _ => false

/-- demanded label of the defined value, violated sinks, further conditions -/
structure SOut where
  req : Bool
  sites : List Nm
  ok : Bool

def ssink (c : SCtx) (k : Nm) (o : Opnd) : List Nm := if c.lab o then [k] else []

def ssinkO (c : SCtx) (k : Nm) : Option Opnd → List Nm
  | some o => if c.lab o then [k] else []
  | none => []

/-- the shift count of the instruction is of an unsigned type (a shift cannot panic) -/
def countUnsigned (p : Program) (i : Instr) : Bool :=
  match intOfTy p (i.opTys.tail.headD 0) with
  | some (_, false) => true
  | _ => false

def sBinop (c : SCtx) (i : Instr) (op : BinOp) (xk : VK) (x y : Opnd) : SOut :=
  match xk with
  | .ptr | .slice | .func | .iface =>
    -- identity comparison; against an address constant the outcome is determined by address-class scalars
    ⟨(c.lab x && !y.isAddrConst) || (c.lab y && !x.isAddrConst), [], true⟩
  | _ =>
    let s := c.lab x || c.lab y
    match op with
    | .shl | .shr => ⟨s, if y.isConst then [] else ssink c K.shiftCount y, y.isConst || !c.lab y || countUnsigned c.prog i⟩
    | .quo | .rem => ⟨s, if s then [K.divmod] else [], true⟩
    | .eq | .ne => ⟨s, if s && xk.cmpLeaky then [K.aggCompare] else [], true⟩
    | _ => ⟨s, [], true⟩

/-- an argument for a parameter that the callee assumes equal must be known equal -/
def argsOk (lab : Opnd → Bool) (ps : List Param) (pub : Nat) : List Opnd → Nat → Bool
  | [], _ => true
  | a :: as, j => (paramHi ps pub j || !lab a) && argsOk lab ps pub as (j + 1)

/-- the result of a call of `f` is not known to be equal -/
def resHi (f : Func) (h : FuncHints) : Bool := h.secretResult || f.results.any (·.pointerish)

def sCallFn (c : SCtx) (g : Nat) (args : List Opnd) : SOut :=
  match c.prog.funcs[g]?, c.hints[g]? with
  | some gf, some gh => ⟨resHi gf gh, [], argsOk c.lab gf.params gh.publicParams args 0⟩
  | _, _ => ⟨true, [K.badReference], false⟩

def onceArgsOk : List Opnd → Bool
  | [_, .fn _] => true
  | _ => false

def sCallExtern (c : SCtx) (n : Nm) (args : List Opnd) : SOut :=
  match externModel n with
  | some .join => ⟨anyL c.lab args, [], true⟩
  | some .secret => ⟨true, [], true⟩
  | some .pub => ⟨false, [], n != Ext.onceDo || onceArgsOk args⟩
  | none => ⟨true, [K.externCall], false⟩

def sCall (c : SCtx) (callee : Callee) (args : List Opnd) : SOut :=
  match callee with
  | .fn g => sCallFn c g args
  | .builtin b => if b == Ext.len || b == Ext.cap || b == Ext.copy then ⟨false, [], true⟩ else ⟨true, [K.externCall], false⟩
  | .extern n => sCallExtern c n args
  | .dynamic _ => ⟨true, [K.externCall], false⟩
  | .invoke _ _ => ⟨true, [K.externCall], false⟩

def sPhi (c : SCtx) : List (Nat × Opnd) → Bool
  | [] => false
  | e :: es => c.lab e.2 || sPhi c es

/-- a `Return` operand that is not known equal is allowed for a secret result or a pointer-like result -/
def retOk (c : SCtx) : List Opnd → List VK → Bool
  | [], _ => true
  | v :: vs, ks =>
    (!c.lab v || c.h.secretResult || (match ks with | k :: _ => k.pointerish | [] => false)) && retOk c vs ks.tail

def sRule (c : SCtx) (i : Instr) : SOut :=
  match i.op with
  | .alloc _ _ => ⟨false, [], true⟩
  | .binop op xk x y => sBinop c i op xk x y
  | .unop _ x => ⟨c.lab x, [], true⟩
  | .load _ => ⟨true, [], true⟩
  | .call callee args => sCall c callee args
  | .changeType x => ⟨c.lab x, [], true⟩
  | .convert _ x => ⟨c.lab x, [], true⟩
  | .sliceToArrayPointer _ => ⟨false, [], true⟩
  | .extract x _ => ⟨c.lab x, [], true⟩
  | .fieldAddr _ _ _ => ⟨false, [], true⟩
  | .field x _ _ => ⟨c.lab x, [], true⟩
  | .indexAddr _ _ ix => ⟨false, ssink c K.index ix, true⟩
  | .index x ix => ⟨c.lab x, [], !c.lab ix⟩
  | .lookup _ _ => ⟨false, [], true⟩
  | .slice _ _ lo hi mx => ⟨false, ssinkO c K.sliceBound lo ++ ssinkO c K.sliceBound hi ++ ssinkO c K.sliceBound mx, true⟩
  | .makeSlice l cp => ⟨false, [], !c.lab l && !c.lab cp⟩
  | .makeClosure _ _ => ⟨false, [], true⟩
  | .makeInterface _ => ⟨false, [], true⟩
  | .phi es => ⟨sPhi c es, [], true⟩
  | .store _ _ _ => ⟨false, [], true⟩
  | .if cnd _ _ => ⟨false, ssink c K.branch cnd, true⟩
  | .jump _ => ⟨false, [], true⟩
  | .ret vs => ⟨false, [], retOk c vs c.f.results⟩
  | .panic x => ⟨false, [], !c.lab x⟩
  | .unsupported _ _ => ⟨false, [], true⟩

def sInstrOk (c : SCtx) (al : AllowedSites) (i : Instr) : Bool :=
  match sRule c i with
  | ⟨req, sites, ok⟩ => sites.all (siteOk al c.f.name) && ok && (!req || c.hi.testBit i.id)

/-- instructions that, when they continue, have written their register -/
def immDef : Op → Bool
  | .alloc _ _ | .binop _ _ _ _ | .unop _ _ | .load _ | .changeType _ | .convert _ _ | .sliceToArrayPointer _
  | .extract _ _ | .fieldAddr _ _ _ | .field _ _ _ | .indexAddr _ _ _ | .index _ _ | .slice _ _ _ _ _
  | .makeSlice _ _ | .makeInterface _ => true
  | _ => false

/-- the phi operand can be evaluated when all registers below `defd` are defined -/
def opndSafe (c : SCtx) (defd : Nat) (ty : Nat) : Opnd → Bool
  | .reg id => id < defd
  | .cint _ _ | .cbool _ | .cstr _ | .nil _ | .global _ | .fn _ => true
  | .zero _ => (c.prog.zeros ty).isSome
  | _ => false

def phisOk (c : SCtx) (bi defd : Nat) : List Instr → Bool
  | [] => true
  | ph :: phs =>
    (match ph.op with
     | .phi es =>
       (match phiEdge bi es with
        | some o => opndSafe c defd ph.ty o
        | none => false)
     | _ => false) && phisOk c bi defd phs

/-- block `t` can be entered from block `bi` -/
def targetOk (c : SCtx) (bi defd t : Nat) : Bool :=
  match c.f.blocks[t]? with
  | some tb => phisOk c bi defd (splitPhis tb.instrs).1
  | none => false

/-- `defd`: all registers below it have been written by the preceding instructions of the block -/
def sBlockOk (c : SCtx) (al : AllowedSites) (bi : Nat) : List Instr → Nat → Bool
  | [], _ => true
  | i :: is, defd =>
    sInstrOk c al i &&
    (match i.op with
     | .if cnd t e => !c.lab cnd || (targetOk c bi defd t && targetOk c bi defd e)
     | _ => true) &&
    sBlockOk c al bi is (if immDef i.op then max defd (i.id + 1) else defd)

def sBlocksOk (c : SCtx) (al : AllowedSites) : List Block → Nat → Bool
  | [], _ => true
  | b :: bs, bi => sBlockOk c al bi b.instrs 0 && sBlocksOk c al bs (bi + 1)

def sFuncOk (prog : Program) (hints : List FuncHints) (al : AllowedSites) (f : Func) (h : FuncHints) : Bool :=
  sBlocksOk { prog := prog, hints := hints, f := f, h := h, hi := h.secretRegs ||| f.weakRegs } al f.blocks 0

def ctFuncOk (prog : Program) (hints : List FuncHints) (al : AllowedSites) (checked : Nat) (f : Func) (h : FuncHints) : Bool :=
  paramsKindsOk prog f.params && resultsKindsOk prog f.results f.resultTys && f.freeVars.isEmpty
  && ctBlocksOk prog hints al checked f h f.blocks && sFuncOk prog hints al f h

def ctFuncsOk (prog : Program) (hints : List FuncHints) (al : AllowedSites) (checked : Nat) : List Func → List FuncHints → Nat → Bool
  | [], _, _ => true
  | f :: fs, hs, i =>
    (if checked.testBit i then
      (match hs with
       | h :: _ => ctFuncOk prog hints al checked f h
       | [] => false)
     else true) && ctFuncsOk prog hints al checked fs hs.tail (i + 1)

/-- **the verdict of `ctCheck` in the form the soundness theorem uses** -/
def ctOkSimple (prog : Program) (hints : List FuncHints) (pol : CtPolicy) (al : AllowedSites) : Bool :=
  ctFuncsOk prog hints al (ctChecked prog pol) prog.funcs hints 0

/-! ### relating two runs -/

/-- two scalars that may differ only if both are secret-capable data of the same shape -/
def RelH (a b : Val) : Prop :=
  a = b ∨ (∃ x y, a = .int x ∧ b = .int y) ∨ (∃ x y, a = .bool x ∧ b = .bool y)

/-- pointwise relation of two lists of the same length -/
inductive ListRel {α β : Type} (R : α → β → Prop) : List α → List β → Prop
  | nil : ListRel R [] []
  | cons {a b as bs} : R a b → ListRel R as bs → ListRel R (a :: as) (b :: bs)

/-- register / parameter values: equal if public, scalar-wise `RelH` if secret -/
def RelR (secret : Bool) (a b : RVal) : Prop :=
  if secret then ListRel RelH a b else a = b

/-- heaps of the same shape whose address-class cells agree -/
def RelHeap (h1 h2 : Heap) : Prop :=
  h1.blocks.size = h2.blocks.size ∧
  ∀ b, b < h1.blocks.size → ListRel RelH ((h1.blocks[b]?).getD #[]).toList ((h2.blocks[b]?).getD #[]).toList

/-- arguments of a call of `f` labelled by `h` -/
def RelArgs (f : Func) (h : FuncHints) : Nat → List RVal → List RVal → Prop
  | _, [], [] => True
  | i, a :: as, b :: bs => RelR (paramSecret f.params h.publicParams i) a b ∧ RelArgs f h (i + 1) as bs
  | _, _, _ => False

/-- the trace as emitted (oldest event first) -/
def Outcome.isFault : Outcome → Bool
  | .fault _ => true
  | _ => false

/-- `t1` and `t2` are equal, or their first difference is a pair of events of the same allowed
    (function, kind) with different payloads -/
def TraceRel (al : AllowedSites) (t1 t2 : List Event) : Prop :=
  t1 = t2 ∨
  ∃ pre e1 e2 r1 r2, t1 = pre ++ e1 :: r1 ∧ t2 = pre ++ e2 :: r2 ∧ e1 ≠ e2 ∧ e1.fn = e2.fn ∧ e1.kind = e2.kind ∧
    allowedPair al e1.fn e1.kind = true

/-- **Statement of C03 soundness.**  For a program whose simple verdict is `true`, a checked function
    `fi`, related heaps and related arguments, the traces (in emission order) of the two runs with the
    same fuel are `TraceRel`-related. -/
def NIStatement : Prop :=
  ∀ (prog : Program) (hints : List FuncHints) (pol : CtPolicy) (al : AllowedSites),
    ctOkSimple prog hints pol al = true →
    ∀ (fi : Nat) (f : Func) (h : FuncHints), (ctChecked prog pol).testBit fi = true →
      prog.funcs[fi]? = some f → hints[fi]? = some h →
    ∀ (h1 h2 : Heap) (args1 args2 : List RVal), RelHeap h1 h2 → RelArgs f h 0 args1 args2 →
    ∀ (s1 s2 : State), callState prog h1 fi args1 = some s1 → callState prog h2 fi args2 = some s2 →
    ∀ fuel, TraceRel al (runTrace prog fuel s1 []).2.reverse (runTrace prog fuel s2 []).2.reverse

end EdVerif.Ssa
