import EdVerif.Ssa.Common
/-!
# Well-formedness of the printed program

The structural checkers read the generated data through conventions of the printer: `.reg id` is the
instruction with that `id`, ids count the instructions of a function in block order, a block ends in
its only terminator, `succs`/`preds` agree with the terminators and with each other, phi edges follow
`preds`, every index (register, parameter, free variable, function, global, block) is in range, and
there is one hint record per function.  `wellFormed` checks all of that, so that a bug of the printer
in these conventions cannot silently weaken another predicate.
-/
namespace EdVerif.Ssa

structure WfCtx where
  nInstr : Nat
  nParam : Nat
  nFree : Nat
  nFunc : Nat
  nGlobal : Nat
  nBlock : Nat

def wfOpnd (w : WfCtx) : Opnd → Bool
  | .reg id => id < w.nInstr
  | .param i => i < w.nParam
  | .freeVar i => i < w.nFree
  | .global g => g < w.nGlobal
  | .fn f => f < w.nFunc
  | _ => true

def wfOpnds (w : WfCtx) : List Opnd → Bool
  | [] => true
  | o :: os => wfOpnd w o && wfOpnds w os

def Op.isTerminator : Op → Bool
  | .if _ _ _ | .jump _ | .ret _ | .panic _ => true
  | _ => false

def natListEq : List Nat → List Nat → Bool
  | [], [] => true
  | a :: as, b :: bs => a == b && natListEq as bs
  | _, _ => false

def phiPreds : List (Nat × Opnd) → List Nat
  | [] => []
  | e :: es => e.1 :: phiPreds es

def wfShape (w : WfCtx) (bl : Block) (i : Instr) : Bool :=
  match i.op with
  | .if _ t e => natListEq bl.succs [t, e]
  | .jump t => natListEq bl.succs [t]
  | .ret _ => bl.succs.isEmpty
  | .panic _ => bl.succs.isEmpty
  | .phi es => natListEq (phiPreds es) bl.preds
  | .call (.fn g) _ => g < w.nFunc
  | _ => true

def blockOffsets : List Block → Nat → List Nat
  | [], _ => []
  | b :: bs, n => n :: blockOffsets bs (n + b.instrs.length)

def memNat (x : Nat) : List Nat → Bool
  | [] => false
  | y :: ys => x == y || memNat x ys

/-- every successor is in range and lists this block among its predecessors, and conversely -/
def wfEdges (blocks : List Block) (b : Nat) (bl : Block) : Bool :=
  bl.succs.all (fun s => match blocks[s]? with | some sb => memNat b sb.preds | none => false) &&
  bl.preds.all (fun p => match blocks[p]? with | some pb => memNat b pb.succs | none => false)

def wfInstr (w : WfCtx) (f : Func) (offsets : List Nat) (b n : Nat) (i : Instr) : List Nm :=
  match f.blocks[b]? with
  | some bl =>
    if i.id == offsets.getD b 0 + n && wfOpnds w i.op.operands && wfShape w bl i
        && (i.op.isTerminator == (n + 1 == bl.instrs.length)) then [] else [K.malformed]
  | none => [K.malformed]

def wfBlocks (blocks : List Block) : List Block → Nat → Bool
  | [], _ => true
  | bl :: bs, b => !bl.instrs.isEmpty && wfEdges blocks b bl && wfBlocks blocks bs (b + 1)

def wfSelector (prog : Program) : Selector :=
  fun _ f _ =>
    let w : WfCtx := { nInstr := f.instrs.length, nParam := f.params.length, nFree := f.freeVars.length,
                       nFunc := prog.funcs.length, nGlobal := prog.globals.length, nBlock := f.blocks.length }
    let offsets := blockOffsets f.blocks 0
    some { fnKinds := if f.params.length ≤ 16 && !f.blocks.isEmpty && wfBlocks f.blocks f.blocks 0
                         && (match f.parent with | some p => p < prog.funcs.length | none => true)
                      then [] else [K.malformed],
           instr := wfInstr w f offsets }

/-- the printed program respects the conventions the other checkers rely on -/
def wellFormed (prog : Program) (hints : List FuncHints) : Bool :=
  hints.length == prog.funcs.length && prog.globals.length ≤ 44 && verdictOk prog hints (wfSelector prog) []

end EdVerif.Ssa
