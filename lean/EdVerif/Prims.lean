/-!
Hand-written (trusted) semantics of the Go primitives that occur in the straight-line kernels
translated by `tools/go2lean` (T1). Core Lean only. Unsigned `w`-bit integers are canonical
natural numbers `< 2^w`; every operation that can wrap carries an explicit `% 2^w`.
-/
namespace EdVerif.Prims

/-- `field.Element`: five `uint64` limbs. -/
structure Fe where
  l0 : Nat
  l1 : Nat
  l2 : Nat
  l3 : Nat
  l4 : Nat
deriving Repr, DecidableEq, Inhabited

/-- `field.uint128` -/
structure U128 where
  lo : Nat
  hi : Nat
deriving Repr, DecidableEq, Inhabited

/-- `[4]uint64` (fiat Montgomery / non-Montgomery domain elements) -/
structure W4 where
  w0 : Nat
  w1 : Nat
  w2 : Nat
  w3 : Nat
deriving Repr, DecidableEq, Inhabited

/-- byte strings / `[32]byte`: arrays of naturals `< 256` -/
abbrev Bytes := Array Nat

namespace U
/-- unsigned `w`-bit arithmetic on canonical representatives -/
@[inline] def add (w a b : Nat) : Nat := (a + b) % 2^w
@[inline] def sub (w a b : Nat) : Nat := (a + 2^w - b % 2^w) % 2^w
@[inline] def mul (w a b : Nat) : Nat := (a * b) % 2^w
@[inline] def and (_w a b : Nat) : Nat := a &&& b
@[inline] def or (_w a b : Nat) : Nat := a ||| b
@[inline] def xor (_w a b : Nat) : Nat := a ^^^ b
@[inline] def not (w a : Nat) : Nat := 2^w - 1 - a % 2^w
@[inline] def shl (w a k : Nat) : Nat := (a <<< k) % 2^w
@[inline] def shr (_w a k : Nat) : Nat := a >>> k
@[inline] def andnot (w a b : Nat) : Nat := a &&& (not w b)
@[inline] def trunc (w a : Nat) : Nat := a % 2^w
end U

namespace Bits
/-- `math/bits.Mul64`: `(hi, lo)` -/
@[inline] def Mul64 (x y : Nat) : Nat × Nat := ((x * y) / 2^64, (x * y) % 2^64)
/-- `math/bits.Add64`: `(sum, carryOut)` -/
@[inline] def Add64 (x y c : Nat) : Nat × Nat := ((x + y + c) % 2^64, (x + y + c) / 2^64)
/-- `math/bits.Sub64`: `(diff, borrowOut)` -/
@[inline] def Sub64 (x y b : Nat) : Nat × Nat :=
  ((x + 2^64 - y - b) % 2^64, if x < y + b then 1 else 0)
end Bits

namespace Bin
/-- `binary.LittleEndian.Uint64(x[a:a+8])` -/
@[inline] def le64 (x : Bytes) (a : Nat) : Nat :=
  x[a]! + x[a+1]! * 2^8 + x[a+2]! * 2^16 + x[a+3]! * 2^24 +
  x[a+4]! * 2^32 + x[a+5]! * 2^40 + x[a+6]! * 2^48 + x[a+7]! * 2^56
/-- `x[a:b]` -/
@[inline] def slice (x : Bytes) (a b : Nat) : Bytes := x.extract a b
/-- a zeroed `[n]byte` -/
@[inline] def zeros (n : Nat) : Bytes := Array.replicate n 0
end Bin

end EdVerif.Prims

namespace EdVerif.Prims
/-- a memory event of a translated kernel, numerically coded so that the kernel can evaluate checks on it quickly:
`kind` 0 = read, 1 = write; `param` = position of the pointer/slice parameter; `field` 0 = whole pointee, otherwise a
per-function code of the field / constant index accessed -/
structure Ev where
  kind : Nat
  param : Nat
  field : Nat
deriving Repr, DecidableEq
end EdVerif.Prims
