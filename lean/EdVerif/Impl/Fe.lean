import EdVerif.Consts
import EdVerif.Gen.FieldKernels
/-!
Hand-written executable model of `field.Element` above the straight-line kernels (which come,
regenerated, from `EdVerif.Gen.Field`). Each function mirrors its Go counterpart statement for
statement. Core Lean only.

Receivers: every Go method writes its receiver completely; the generated kernels take the prior
receiver value as a parameter and the model passes `rz` (all-zero). Independence of that argument
is the lemma family `*_recv` in `Proofs/FeKernels.lean` and is observed by the harness.
-/
namespace EdVerif.Impl
open EdVerif.Prims
open EdVerif.Gen

namespace Fe

/-- dummy prior receiver -/
def rz : Fe := ⟨0, 0, 0, 0, 0⟩

def zero : Fe := Field.Zero rz
def one : Fe := Field.One rz
def sqrtM1 : Fe := Field.sqrtM1

def add (a b : Fe) : Fe := Field.Add rz a b
def sub (a b : Fe) : Fe := Field.Subtract rz a b
def neg (a : Fe) : Fe := Field.Negate rz a
def mul (a b : Fe) : Fe := Field.Multiply rz a b
def square (a : Fe) : Fe := Field.Square rz a
def mult32 (a : Fe) (y : Nat) : Fe := Field.Mult32 rz a y
def select (a b : Fe) (cond : Nat) : Fe := Field.Select rz a b cond
def swap (v u : Fe) (cond : Nat) : Fe × Fe := Field.Swap v u cond
def reduce (a : Fe) : Fe := Field.reduce a
def carryPropagate (a : Fe) : Fe := Field.carryPropagate a

/-- `for i := 0; i < n; i++ { t.Square(&t) }` -/
def sqn : Nat → Fe → Fe
  | 0, t => t
  | n+1, t => sqn n (square t)

/-- `Element.Invert` (exponent `p - 2`), same chain and order as the Go code. -/
def invert (z : Fe) : Fe :=
  let z2 := square z
  let t := square z2
  let t := square t
  let z9 := mul t z
  let z11 := mul z9 z2
  let t := square z11
  let z2_5_0 := mul t z9
  let t := square z2_5_0
  let t := sqn 4 t
  let z2_10_0 := mul t z2_5_0
  let t := square z2_10_0
  let t := sqn 9 t
  let z2_20_0 := mul t z2_10_0
  let t := square z2_20_0
  let t := sqn 19 t
  let t := mul t z2_20_0
  let t := square t
  let t := sqn 9 t
  let z2_50_0 := mul t z2_10_0
  let t := square z2_50_0
  let t := sqn 49 t
  let z2_100_0 := mul t z2_50_0
  let t := square z2_100_0
  let t := sqn 99 t
  let t := mul t z2_100_0
  let t := square t
  let t := sqn 49 t
  let t := mul t z2_50_0
  let t := square t
  let t := square t
  let t := square t
  let t := square t
  let t := square t
  mul t z11

/-- `Element.Pow22523` (exponent `2^252 - 3`). -/
def pow22523 (x : Fe) : Fe :=
  let t0 := square x
  let t1 := square t0
  let t1 := square t1
  let t1 := mul x t1
  let t0 := mul t0 t1
  let t0 := square t0
  let t0 := mul t1 t0
  let t1 := square t0
  let t1 := sqn 4 t1
  let t0 := mul t1 t0
  let t1 := square t0
  let t1 := sqn 9 t1
  let t1 := mul t1 t0
  let t2 := square t1
  let t2 := sqn 19 t2
  let t1 := mul t2 t1
  let t1 := square t1
  let t1 := sqn 9 t1
  let t0 := mul t1 t0
  let t1 := square t0
  let t1 := sqn 49 t1
  let t1 := mul t1 t0
  let t2 := square t1
  let t2 := sqn 99 t2
  let t1 := mul t2 t1
  let t1 := square t1
  let t1 := sqn 49 t1
  let t0 := mul t1 t0
  let t0 := square t0
  let t0 := square t0
  mul t0 x

/-- `binary.LittleEndian.PutUint64(buf[:], w)` as the list of 8 bytes -/
def putLE64 (w : Nat) : List Nat :=
  (List.range 8).map fun j => (w >>> (8 * j)) % 256

/-- inner loop of `Element.bytes`: `out[off] |= bb` for `off = base + j < 32` -/
def orBytesAt (out : Bytes) (base : Nat) (buf : List Nat) : Bytes :=
  (buf.zipIdx).foldl (fun out (bb, j) =>
    let off := base + j
    if off ≥ out.size then out else out.set! off (out[off]! ||| bb)) out

/-- `Element.bytes` : reduce a copy, then serialise the five limbs at bit offsets `51 i`. -/
def bytes (v : Fe) : Bytes :=
  let t := reduce v
  ([t.l0, t.l1, t.l2, t.l3, t.l4].zipIdx).foldl (fun out (l, i) =>
    let bitsOffset := i * 51
    let buf := putLE64 (U.shl 64 l (bitsOffset % 8))
    orBytesAt out (bitsOffset / 8) buf) (Bin.zeros 32)

/-- `subtle.ConstantTimeCompare` on equal-length slices -/
def ctCompare (a b : Bytes) : Nat :=
  if a.size != b.size then 0
  else
    let v := (List.range a.size).foldl (fun acc i => acc ||| (a[i]! ^^^ b[i]!)) 0
    if v == 0 then 1 else 0

def equal (v u : Fe) : Nat := ctCompare (bytes u) (bytes v)

def isNegative (v : Fe) : Nat := (bytes v)[0]! &&& 1

def absolute (u : Fe) : Fe := select (neg u) u (isNegative u)

/-- `Element.SqrtRatio`; returns `(r, wasSquare)`. -/
def sqrtRatio (u v : Fe) : Fe × Nat :=
  let v2 := square v
  let t0 := mul v2 v
  let uv3 := mul u t0
  let t0 := square v2
  let uv7 := mul uv3 t0
  let t0 := pow22523 uv7
  let rr := mul uv3 t0
  let t0 := square rr
  let check := mul v t0
  let uNeg := neg u
  let correctSignSqrt := equal check u
  let flippedSignSqrt := equal check uNeg
  let t0 := mul uNeg sqrtM1
  let flippedSignSqrtI := equal check t0
  let rPrime := mul rr sqrtM1
  let rr := select rPrime rr (flippedSignSqrt ||| flippedSignSqrtI)
  (absolute rr, correctSignSqrt ||| flippedSignSqrt)

/-- `Element.SetBytes`: `none` = (nil, error). -/
def setBytes (x : Bytes) : Option Fe :=
  if x.size != Field.SetBytes_reqLen then none else some (Field.SetBytes rz x)

/-- `Element.SetWideBytes` -/
def setWideBytes (x : Bytes) : Option Fe :=
  if x.size != Field.SetWideBytes_reqLen then none else some (Field.SetWideBytes rz x)

/-- the integer represented by the limbs -/
def val (e : Fe) : Nat := e.l0 + e.l1 * 2^51 + e.l2 * 2^102 + e.l3 * 2^153 + e.l4 * 2^204

/-- The representation invariant on which the arithmetic is correct and which every public
operation re-establishes: each limb `≤ 2^52 - 38` (NOT the `< 2^52` of the source comment). -/
def Inv (e : Fe) : Prop :=
  e.l0 ≤ 2^52 - 38 ∧ e.l1 ≤ 2^52 - 38 ∧ e.l2 ≤ 2^52 - 38 ∧ e.l3 ≤ 2^52 - 38 ∧ e.l4 ≤ 2^52 - 38

instance (e : Fe) : Decidable (Inv e) := by unfold Inv; infer_instance

/-- bound met by every output of a carry chain -/
def Tight (e : Fe) : Prop :=
  e.l0 < 2^51 + 2^18 ∧ e.l1 < 2^51 + 2^13 ∧ e.l2 < 2^51 + 2^13 ∧ e.l3 < 2^51 + 2^13 ∧ e.l4 < 2^51 + 2^13

end Fe
end EdVerif.Impl
