import EdVerif.Impl.Fe
import EdVerif.Impl.Scalar
/-!
Hand-written executable model of the point layer (`edwards25519.go`, `extra.go`, `tables.go`,
`scalarmult.go`): the five representations, their formulas (temporaries included, same order as
the Go code), tables, selection, and the five scalar multiplications. Core Lean only.
-/
namespace EdVerif.Impl
open EdVerif.Prims

/-- `Point` (extended coordinates). The zero value is the all-zero structure. -/
structure P3 where
  x : Fe
  y : Fe
  z : Fe
  t : Fe
deriving Repr, DecidableEq, Inhabited

structure P1xP1 where
  X : Fe
  Y : Fe
  Z : Fe
  T : Fe
deriving Repr, DecidableEq

structure P2 where
  X : Fe
  Y : Fe
  Z : Fe
deriving Repr, DecidableEq

structure Cached where
  YplusX : Fe
  YminusX : Fe
  Z : Fe
  T2d : Fe
deriving Repr, DecidableEq

structure AffineCached where
  YplusX : Fe
  YminusX : Fe
  T2d : Fe
deriving Repr, DecidableEq

namespace Point

def feZero : Fe := Fe.zero
def feOne : Fe := Fe.one

/-- the zero value `Point{}` -/
def zeroValue : P3 := ⟨Fe.rz, Fe.rz, Fe.rz, Fe.rz⟩

/-- `checkInitialized`: panics iff both `x` and `y` are the zero value (limb-wise `==`) -/
def isUninit (p : P3) : Bool := p.x == Fe.rz && p.y == Fe.rz

def dBytes : Bytes := #[0xa3, 0x78, 0x59, 0x13, 0xca, 0x4d, 0xeb, 0x75,
  0xab, 0xd8, 0x41, 0x41, 0x4d, 0x0a, 0x70, 0x00,
  0x98, 0xe8, 0x79, 0x77, 0x79, 0x40, 0xc7, 0x8c,
  0x73, 0xfe, 0x6f, 0x2b, 0xee, 0x6c, 0x03, 0x52]

/-- `var d, _ = new(field.Element).SetBytes(...)` -/
def d : Fe := (Fe.setBytes dBytes).getD Fe.rz
/-- `var d2 = new(field.Element).Add(d, d)` -/
def d2 : Fe := Fe.add d d

/-- `copyFieldElement(buf, v)`: `copy(buf[:], v.Bytes())` -/
def copyFieldElement (v : Fe) : Bytes := Fe.bytes v

/-- `Point.bytes` (caller has checked initialisation) -/
def bytes (v : P3) : Bytes :=
  let zInv := Fe.invert v.z
  let x := Fe.mul v.x zInv
  let y := Fe.mul v.y zInv
  let out := copyFieldElement y
  out.set! 31 (out[31]! ||| (U.trunc 8 (U.shl 64 (Fe.isNegative x) 7)))

/-- `Point.SetBytes`: `none` = (nil, error) -/
def setBytes (x : Bytes) : Option P3 :=
  match Fe.setBytes x with
  | none => none
  | some y =>
    let y2 := Fe.square y
    let u := Fe.sub y2 feOne
    let vv := Fe.mul y2 d
    let vv := Fe.add vv feOne
    let (xx, wasSquare) := Fe.sqrtRatio u vv
    if wasSquare == 0 then none else
    let xxNeg := Fe.neg xx
    let xx := Fe.select xxNeg xx (x[31]! >>> 7)
    some ⟨xx, y, Fe.one, Fe.mul xx y⟩

def identityBytes : Bytes := #[1, 0, 0, 0, 0, 0, 0, 0, 0, 0, 0, 0, 0, 0, 0, 0,
  0, 0, 0, 0, 0, 0, 0, 0, 0, 0, 0, 0, 0, 0, 0, 0]
def generatorBytes : Bytes := #[0x58, 0x66, 0x66, 0x66, 0x66, 0x66, 0x66, 0x66,
  0x66, 0x66, 0x66, 0x66, 0x66, 0x66, 0x66, 0x66,
  0x66, 0x66, 0x66, 0x66, 0x66, 0x66, 0x66, 0x66,
  0x66, 0x66, 0x66, 0x66, 0x66, 0x66, 0x66, 0x66]

/-- `var identity, _ = new(Point).SetBytes(...)` -/
def identity : P3 := (setBytes identityBytes).getD zeroValue
/-- `var generator, _ = new(Point).SetBytes(...)` -/
def generator : P3 := (setBytes generatorBytes).getD zeroValue

-- Conversions

def P2.zero : P2 := ⟨Fe.zero, Fe.one, Fe.one⟩
def Cached.zero : Cached := ⟨Fe.one, Fe.one, Fe.one, Fe.zero⟩
def AffineCached.zero : AffineCached := ⟨Fe.one, Fe.one, Fe.zero⟩
instance : Inhabited Cached := ⟨Cached.zero⟩
instance : Inhabited AffineCached := ⟨AffineCached.zero⟩

def P2.fromP1xP1 (p : P1xP1) : P2 := ⟨Fe.mul p.X p.T, Fe.mul p.Y p.Z, Fe.mul p.Z p.T⟩
def P2.fromP3 (p : P3) : P2 := ⟨p.x, p.y, p.z⟩
def fromP1xP1 (p : P1xP1) : P3 := ⟨Fe.mul p.X p.T, Fe.mul p.Y p.Z, Fe.mul p.Z p.T, Fe.mul p.X p.Y⟩
def fromP2 (p : P2) : P3 := ⟨Fe.mul p.X p.Z, Fe.mul p.Y p.Z, Fe.square p.Z, Fe.mul p.X p.Y⟩

def Cached.fromP3 (p : P3) : Cached := ⟨Fe.add p.y p.x, Fe.sub p.y p.x, p.z, Fe.mul p.t d2⟩

def AffineCached.fromP3 (p : P3) : AffineCached :=
  let ypx := Fe.add p.y p.x
  let ymx := Fe.sub p.y p.x
  let t2d := Fe.mul p.t d2
  let invZ := Fe.invert p.z
  ⟨Fe.mul ypx invZ, Fe.mul ymx invZ, Fe.mul t2d invZ⟩

-- (Re)addition and subtraction

def P1xP1.add (p : P3) (q : Cached) : P1xP1 :=
  let YplusX := Fe.add p.y p.x
  let YminusX := Fe.sub p.y p.x
  let PP := Fe.mul YplusX q.YplusX
  let MM := Fe.mul YminusX q.YminusX
  let TT2d := Fe.mul p.t q.T2d
  let ZZ2 := Fe.mul p.z q.Z
  let ZZ2 := Fe.add ZZ2 ZZ2
  ⟨Fe.sub PP MM, Fe.add PP MM, Fe.add ZZ2 TT2d, Fe.sub ZZ2 TT2d⟩

def P1xP1.sub (p : P3) (q : Cached) : P1xP1 :=
  let YplusX := Fe.add p.y p.x
  let YminusX := Fe.sub p.y p.x
  let PP := Fe.mul YplusX q.YminusX
  let MM := Fe.mul YminusX q.YplusX
  let TT2d := Fe.mul p.t q.T2d
  let ZZ2 := Fe.mul p.z q.Z
  let ZZ2 := Fe.add ZZ2 ZZ2
  ⟨Fe.sub PP MM, Fe.add PP MM, Fe.sub ZZ2 TT2d, Fe.add ZZ2 TT2d⟩

def P1xP1.addAffine (p : P3) (q : AffineCached) : P1xP1 :=
  let YplusX := Fe.add p.y p.x
  let YminusX := Fe.sub p.y p.x
  let PP := Fe.mul YplusX q.YplusX
  let MM := Fe.mul YminusX q.YminusX
  let TT2d := Fe.mul p.t q.T2d
  let Z2 := Fe.add p.z p.z
  ⟨Fe.sub PP MM, Fe.add PP MM, Fe.add Z2 TT2d, Fe.sub Z2 TT2d⟩

def P1xP1.subAffine (p : P3) (q : AffineCached) : P1xP1 :=
  let YplusX := Fe.add p.y p.x
  let YminusX := Fe.sub p.y p.x
  let PP := Fe.mul YplusX q.YminusX
  let MM := Fe.mul YminusX q.YplusX
  let TT2d := Fe.mul p.t q.T2d
  let Z2 := Fe.add p.z p.z
  ⟨Fe.sub PP MM, Fe.add PP MM, Fe.sub Z2 TT2d, Fe.add Z2 TT2d⟩

def P1xP1.double (p : P2) : P1xP1 :=
  let XX := Fe.square p.X
  let YY := Fe.square p.Y
  let ZZ2 := Fe.square p.Z
  let ZZ2 := Fe.add ZZ2 ZZ2
  let XplusYsq := Fe.add p.X p.Y
  let XplusYsq := Fe.square XplusYsq
  let vY := Fe.add YY XX
  let vZ := Fe.sub YY XX
  ⟨Fe.sub XplusYsq vY, vY, vZ, Fe.sub ZZ2 vZ⟩

/-- `Point.Add` (after `checkInitialized`) -/
def add (p q : P3) : P3 := fromP1xP1 (P1xP1.add p (Cached.fromP3 q))
/-- `Point.Subtract` -/
def sub (p q : P3) : P3 := fromP1xP1 (P1xP1.sub p (Cached.fromP3 q))
/-- `Point.Negate` -/
def neg (p : P3) : P3 := ⟨Fe.neg p.x, p.y, p.z, Fe.neg p.t⟩

/-- `Point.Equal` -/
def equal (v u : P3) : Nat :=
  let t1 := Fe.mul v.x u.z
  let t2 := Fe.mul u.x v.z
  let t3 := Fe.mul v.y u.z
  let t4 := Fe.mul u.y v.z
  Fe.equal t1 t2 &&& Fe.equal t3 t4

def Cached.select (a b : Cached) (cond : Nat) : Cached :=
  ⟨Fe.select a.YplusX b.YplusX cond, Fe.select a.YminusX b.YminusX cond, Fe.select a.Z b.Z cond, Fe.select a.T2d b.T2d cond⟩

def AffineCached.select (a b : AffineCached) (cond : Nat) : AffineCached :=
  ⟨Fe.select a.YplusX b.YplusX cond, Fe.select a.YminusX b.YminusX cond, Fe.select a.T2d b.T2d cond⟩

def Cached.condNeg (v : Cached) (cond : Nat) : Cached :=
  let (ypx, ymx) := Fe.swap v.YplusX v.YminusX cond
  ⟨ypx, ymx, v.Z, Fe.select (Fe.neg v.T2d) v.T2d cond⟩

def AffineCached.condNeg (v : AffineCached) (cond : Nat) : AffineCached :=
  let (ypx, ymx) := Fe.swap v.YplusX v.YminusX cond
  ⟨ypx, ymx, Fe.select (Fe.neg v.T2d) v.T2d cond⟩

-- extra.go

/-- `isOnCurve` -/
def isOnCurve (X Y Z T : Fe) : Bool :=
  let XX := Fe.square X
  let YY := Fe.square Y
  let ZZ := Fe.square Z
  let TT := Fe.square T
  if Fe.equal Z Fe.rz == 1 then false else
  let lhs := Fe.sub YY XX
  let rhs := Fe.mul d TT
  let rhs := Fe.add rhs ZZ
  if Fe.equal lhs rhs != 1 then false else
  let lhs := Fe.mul X Y
  let rhs := Fe.mul T Z
  Fe.equal lhs rhs == 1

/-- `SetExtendedCoordinates` -/
def setExtendedCoordinates (X Y Z T : Fe) : Option P3 :=
  if !isOnCurve X Y Z T then none else some ⟨X, Y, Z, T⟩

/-- `bytesMontgomery` -/
def bytesMontgomery (v : P3) : Bytes :=
  let y := Fe.invert v.z
  let y := Fe.mul v.y y
  let recip := Fe.sub feOne y
  let recip := Fe.invert recip
  let u := Fe.add feOne y
  let u := Fe.mul u recip
  copyFieldElement u

/-- `MultByCofactor` -/
def multByCofactor (p : P3) : P3 :=
  let pp := P2.fromP3 p
  let result := P1xP1.double pp
  let pp := P2.fromP1xP1 result
  let result := P1xP1.double pp
  let pp := P2.fromP1xP1 result
  let result := P1xP1.double pp
  fromP1xP1 result

-- tables.go

/-- `projLookupTable.FromP3`: entries `(i+1) Q` -/
def projTable (q : P3) : Array Cached :=
  (List.range 7).foldl (fun (t : Array Cached) i =>
    t.push (Cached.fromP3 (fromP1xP1 (P1xP1.add q t[i]!)))) #[Cached.fromP3 q]

/-- `affineLookupTable.FromP3` -/
def affineTable (q : P3) : Array AffineCached :=
  (List.range 7).foldl (fun (t : Array AffineCached) i =>
    t.push (AffineCached.fromP3 (fromP1xP1 (P1xP1.addAffine q t[i]!)))) #[AffineCached.fromP3 q]

/-- `nafLookupTable5.FromP3`: entries `(2i+1) Q` -/
def naf5Table (q : P3) : Array Cached :=
  let q2 := Point.add q q
  (List.range 7).foldl (fun (t : Array Cached) i =>
    t.push (Cached.fromP3 (fromP1xP1 (P1xP1.add q2 t[i]!)))) #[Cached.fromP3 q]

/-- `nafLookupTable8.FromP3` -/
def naf8Table (q : P3) : Array AffineCached :=
  let q2 := Point.add q q
  (List.range 63).foldl (fun (t : Array AffineCached) i =>
    t.push (AffineCached.fromP3 (fromP1xP1 (P1xP1.addAffine q2 t[i]!)))) #[AffineCached.fromP3 q]

/-- `xmask := x >> 7` (as the `int8` bit pattern 0 or 255) and `xabs := uint8((x + xmask) ^ xmask)` -/
def xmaskOf (x : Int) : Nat := if x < 0 then 255 else 0
def xabsOf (x : Int) : Nat :=
  let xb := (x % 256).toNat
  let m := xmaskOf x
  ((xb + m) % 256) ^^^ m

/-- `subtle.ConstantTimeByteEq` -/
def ctByteEq (a b : Nat) : Nat := if a == b then 1 else 0

/-- `projLookupTable.SelectInto` -/
def projSelect (t : Array Cached) (x : Int) : Cached :=
  let xabs := xabsOf x
  let dest := (List.range 8).foldl (fun dest j =>
    Cached.select t[j]! dest (ctByteEq xabs (j + 1))) Cached.zero
  Cached.condNeg dest (xmaskOf x &&& 1)

/-- `affineLookupTable.SelectInto` -/
def affineSelect (t : Array AffineCached) (x : Int) : AffineCached :=
  let xabs := xabsOf x
  let dest := (List.range 8).foldl (fun dest j =>
    AffineCached.select t[j]! dest (ctByteEq xabs (j + 1))) AffineCached.zero
  AffineCached.condNeg dest (xmaskOf x &&& 1)

/-- `nafLookupTable5/8.SelectInto`: `*dest = v.points[x/2]` (Go truncated division, `x > 0`) -/
def nafSelect {α} [Inhabited α] (t : Array α) (x : Int) : α := t[(Int.tdiv x 2).toNat]!

-- scalarmult.go

/-- `basepointTable()`: 32 affine tables, table `i` from `256^i B` -/
def basepointTable : Array (Array AffineCached) :=
  ((List.range 32).foldl (fun (acc : Array (Array AffineCached) × P3) _ =>
    let (tabs, p) := acc
    let tabs := tabs.push (affineTable p)
    let p := (List.range 8).foldl (fun p _ => Point.add p p) p
    (tabs, p)) (#[], generator)).1

/-- `basepointNafTable()` -/
def basepointNafTable : Array AffineCached := naf8Table generator

/-- four doublings starting from a P1xP1 value `tmp1` whose P2 form is taken first:
`tmp2.FromP1xP1(tmp1); tmp1.Double(tmp2)` four times -/
def mul16 (tmp1 : P1xP1) : P1xP1 :=
  let tmp2 := P2.fromP1xP1 tmp1
  let tmp1 := P1xP1.double tmp2
  let tmp2 := P2.fromP1xP1 tmp1
  let tmp1 := P1xP1.double tmp2
  let tmp2 := P2.fromP1xP1 tmp1
  let tmp1 := P1xP1.double tmp2
  let tmp2 := P2.fromP1xP1 tmp1
  P1xP1.double tmp2

/-- `ScalarMult` (after `checkInitialized(q)`); `digits` from `signedRadix16` -/
def scalarMultDigits (digits : Array Int) (q : P3) : P3 :=
  let table := projTable q
  let multiple := projSelect table digits[63]!
  let v := identity
  let tmp1 := P1xP1.add v multiple
  let tmp1 := (List.range 63).foldl (fun tmp1 k =>
    let i := 62 - k
    let tmp1 := mul16 tmp1
    let v := fromP1xP1 tmp1
    let multiple := projSelect table digits[i]!
    P1xP1.add v multiple) tmp1
  fromP1xP1 tmp1

def scalarMult (x : W4) (q : P3) : Res P3 :=
  match Scalar.signedRadix16 x with
  | .ok digits => .ok (scalarMultDigits digits q)
  | .err => .err
  | .panic c => .panic c

/-- `ScalarBaseMult` -/
def scalarBaseMultDigits (digits : Array Int) : P3 :=
  let bt := basepointTable
  let v := identity
  let v := (List.range 32).foldl (fun v k =>
    let i := 2 * k + 1
    let multiple := affineSelect bt[i / 2]! digits[i]!
    fromP1xP1 (P1xP1.addAffine v multiple)) v
  let tmp2 := P2.fromP3 v
  let tmp1 := P1xP1.double tmp2
  let tmp2 := P2.fromP1xP1 tmp1
  let tmp1 := P1xP1.double tmp2
  let tmp2 := P2.fromP1xP1 tmp1
  let tmp1 := P1xP1.double tmp2
  let tmp2 := P2.fromP1xP1 tmp1
  let tmp1 := P1xP1.double tmp2
  let v := fromP1xP1 tmp1
  (List.range 32).foldl (fun v k =>
    let i := 2 * k
    let multiple := affineSelect bt[i / 2]! digits[i]!
    fromP1xP1 (P1xP1.addAffine v multiple)) v

def scalarBaseMult (x : W4) : Res P3 :=
  match Scalar.signedRadix16 x with
  | .ok digits => .ok (scalarBaseMultDigits digits)
  | .err => .err
  | .panic c => .panic c

/-- `VarTimeDoubleScalarBaseMult` on NAF digit arrays. `v0` is the prior receiver: the Go code only
assigns `v` inside the branches and at the end, so it never influences the result. -/
def varTimeDoubleDigits (aNaf bNaf : Array Int) (A : P3) : P3 :=
  let bTable := basepointNafTable
  let aTable := naf5Table A
  -- `i := 255; for j := i; j >= 0; j-- { if aNaf[j] != 0 || bNaf[j] != 0 { break } }` : `i` stays 255
  let tmp2 := (List.range 256).foldl (fun (tmp2 : P2) k =>
    let i := 255 - k
    let tmp1 := P1xP1.double tmp2
    let tmp1 :=
      if aNaf[i]! > 0 then
        let v := fromP1xP1 tmp1
        P1xP1.add v (nafSelect aTable aNaf[i]!)
      else if aNaf[i]! < 0 then
        let v := fromP1xP1 tmp1
        P1xP1.sub v (nafSelect aTable (Scalar.wrap8 (-aNaf[i]!)))
      else tmp1
    let tmp1 :=
      if bNaf[i]! > 0 then
        let v := fromP1xP1 tmp1
        P1xP1.addAffine v (nafSelect bTable bNaf[i]!)
      else if bNaf[i]! < 0 then
        let v := fromP1xP1 tmp1
        P1xP1.subAffine v (nafSelect bTable (Scalar.wrap8 (-bNaf[i]!)))
      else tmp1
    P2.fromP1xP1 tmp1) P2.zero
  fromP2 tmp2

def varTimeDoubleScalarBaseMult (a : W4) (A : P3) (b : W4) : Res P3 :=
  match Scalar.nonAdjacentForm a 5, Scalar.nonAdjacentForm b 8 with
  | .ok aNaf, .ok bNaf => .ok (varTimeDoubleDigits aNaf bNaf A)
  | .panic c, _ => .panic c
  | _, .panic c => .panic c
  | _, _ => .err

/-- `MultiScalarMult` on digit arrays (lengths already checked equal) -/
def multiScalarMultDigits (digits : Array (Array Int)) (points : Array P3) : P3 :=
  let tables := points.map projTable
  let v := identity
  let addAll (v : P3) (i : Nat) : P3 :=
    (List.range tables.size).foldl (fun v j =>
      let multiple := projSelect tables[j]! (digits[j]!)[i]!
      fromP1xP1 (P1xP1.add v multiple)) v
  let v := addAll v 63
  let tmp2 := P2.fromP3 v
  let (v, _) := (List.range 63).foldl (fun (st : P3 × P2) k =>
    let i := 62 - k
    let tmp2 := st.2
    let tmp1 := P1xP1.double tmp2
    let tmp2 := P2.fromP1xP1 tmp1
    let tmp1 := P1xP1.double tmp2
    let tmp2 := P2.fromP1xP1 tmp1
    let tmp1 := P1xP1.double tmp2
    let tmp2 := P2.fromP1xP1 tmp1
    let tmp1 := P1xP1.double tmp2
    let v := fromP1xP1 tmp1
    let v := addAll v i
    (v, P2.fromP3 v)) (v, tmp2)
  v

/-- sequence a list of results, first failure wins -/
def collect {α} (xs : List (Res α)) : Res (Array α) :=
  xs.foldl (fun acc r => match acc, r with
    | .ok a, .ok x => .ok (a.push x)
    | .ok _, .err => .err
    | .ok _, .panic c => .panic c
    | e, _ => e) (.ok #[])

def multiScalarMult (scalars : Array W4) (points : Array P3) : Res P3 :=
  match collect (scalars.toList.map Scalar.signedRadix16) with
  | .ok digits => .ok (multiScalarMultDigits digits points)
  | .err => .err
  | .panic c => .panic c

/-- `VarTimeMultiScalarMult` on NAF arrays. The receiver `v` is only a scratch value inside the
loop and is assigned `fromP2(tmp2)` at the end. -/
def varTimeMultiDigits (nafs : Array (Array Int)) (points : Array P3) : P3 :=
  let tables := points.map naf5Table
  let tmp2 := (List.range 256).foldl (fun (tmp2 : P2) k =>
    let i := 255 - k
    let tmp1 := P1xP1.double tmp2
    let tmp1 := (List.range nafs.size).foldl (fun (tmp1 : P1xP1) (j : Nat) =>
      let dgt : Int := (nafs[j]!)[i]!
      if dgt > 0 then
        let v := fromP1xP1 tmp1
        P1xP1.add v (nafSelect tables[j]! dgt)
      else if dgt < 0 then
        let v := fromP1xP1 tmp1
        P1xP1.sub v (nafSelect tables[j]! (Scalar.wrap8 (-dgt)))
      else tmp1) tmp1
    P2.fromP1xP1 tmp1) P2.zero
  fromP2 tmp2

def varTimeMultiScalarMult (scalars : Array W4) (points : Array P3) : Res P3 :=
  match collect (scalars.toList.map (Scalar.nonAdjacentForm · 5)) with
  | .ok nafs => .ok (varTimeMultiDigits nafs points)
  | .err => .err
  | .panic c => .panic c

end Point
end EdVerif.Impl
