import EdVerif.Consts
import EdVerif.Gen.FiatKernels
/-!
Hand-written executable model of `Scalar` above the fiat kernels (regenerated in
`EdVerif.Gen.Fiat`). A `Scalar` is its Montgomery-domain `[4]uint64` (`W4`). Core Lean only.
-/
namespace EdVerif.Impl
open EdVerif.Prims
open EdVerif.Gen

/-- outcome of a fallible / panicking operation -/
inductive Res (α : Type) where
  | ok : α → Res α
  | err : Res α                 -- returned (nil, error)
  | panic : String → Res α      -- class of the panic
deriving Repr

namespace Scalar

def rz : W4 := ⟨0, 0, 0, 0⟩

def add (x y : W4) : W4 := Fiat.Add rz x y
def sub (x y : W4) : W4 := Fiat.Subtract rz x y
def neg (x : W4) : W4 := Fiat.Negate rz x
def mul (x y : W4) : W4 := Fiat.Multiply rz x y
def equal (s t : W4) : Nat := Fiat.Equal s t

/-- `MultiplyAdd`: `zCopy := new(Scalar).Set(z); s.Multiply(x, y).Add(s, zCopy)` -/
def multiplyAdd (x y z : W4) : W4 :=
  let zCopy := Fiat.Set rz z
  add (mul x y) zCopy

/-- `Scalar.bytes` -/
def bytes (s : W4) : Bytes :=
  let ss := Fiat.fiatScalarFromMontgomery rz s
  Fiat.fiatScalarToBytes (Bin.zeros 32) ss

/-- `copy(buf[:], x)` into a zeroed buffer of `n` bytes -/
def copyInto (n : Nat) (x : Bytes) : Bytes :=
  (List.range n).toArray.map fun i => if i < x.size then x[i]! else 0

/-- `setShortBytes` -/
def setShortBytes (x : Bytes) : Res W4 :=
  if x.size ≥ 32 then .panic "internal" else
  let buf := copyInto 32 x
  let s := Fiat.fiatScalarFromBytes rz buf
  .ok (Fiat.fiatScalarToMontgomery s s)

/-- `SetUniformBytes` -/
def setUniformBytes (x : Bytes) : Res W4 :=
  if x.size != 64 then .err else
  match setShortBytes (Bin.slice x 0 21), setShortBytes (Bin.slice x 21 42), setShortBytes (Bin.slice x 42 x.size) with
  | .ok s, .ok t1, .ok t2 =>
    let s := add s (mul t1 Fiat.scalarTwo168)
    .ok (add s (mul t2 Fiat.scalarTwo336))
  | _, _, _ => .panic "internal"

/-- `isReduced`: lexicographic comparison with `l - 1` from the most significant byte -/
def isReduced (s : Bytes) : Bool :=
  if s.size != 32 then false else
  let rec go : Nat → Bool
    | 0 => true
    | i+1 =>
      if s[i]! > Fiat.scalarMinusOneBytes[i]! then false
      else if s[i]! < Fiat.scalarMinusOneBytes[i]! then true
      else go i
  go 32

/-- `SetCanonicalBytes` -/
def setCanonicalBytes (x : Bytes) : Res W4 :=
  if x.size != 32 then .err else
  if !isReduced x then .err else
  let s := Fiat.fiatScalarFromBytes rz x
  .ok (Fiat.fiatScalarToMontgomery s s)

/-- `SetBytesWithClamping` -/
def setBytesWithClamping (x : Bytes) : Res W4 :=
  if x.size != 32 then .err else
  let wide := copyInto 64 x
  let wide := wide.set! 0 (wide[0]! &&& 248)
  let wide := wide.set! 31 (wide[31]! &&& 63)
  let wide := wide.set! 31 (wide[31]! ||| 64)
  setUniformBytes wide

/-- `pow2k`: `for i := 0; i < k; i++ { s.Multiply(s, s) }` -/
def pow2k : Nat → W4 → W4
  | 0, s => s
  | k+1, s => pow2k k (mul s s)

/-- `Scalar.Invert` (sliding window of width 4 over `l - 2`) -/
def invert (t : W4) : W4 :=
  let tt := mul t t
  -- table[i+1] = table[i] * tt
  let t1 := t
  let t3 := mul t1 tt
  let t5 := mul t3 tt
  let t7 := mul t5 tt
  let t9 := mul t7 tt
  let t11 := mul t9 tt
  let t13 := mul t11 tt
  let t15 := mul t13 tt
  let step (s : W4) (k : Nat) (m : W4) : W4 := mul (pow2k k s) m
  let s := t1
  let s := step s (127 + 1) t1
  let s := step s (4 + 1) t9
  let s := step s (3 + 1) t11
  let s := step s (3 + 1) t13
  let s := step s (3 + 1) t15
  let s := step s (4 + 1) t7
  let s := step s (4 + 1) t15
  let s := step s (3 + 1) t5
  let s := step s (3 + 1) t1
  let s := step s (4 + 1) t15
  let s := step s (4 + 1) t15
  let s := step s (4 + 1) t7
  let s := step s (3 + 1) t3
  let s := step s (4 + 1) t11
  let s := step s (5 + 1) t11
  let s := step s (9 + 1) t9
  let s := step s (3 + 1) t3
  let s := step s (4 + 1) t3
  let s := step s (4 + 1) t3
  let s := step s (4 + 1) t9
  let s := step s (3 + 1) t7
  let s := step s (3 + 1) t3
  let s := step s (3 + 1) t13
  let s := step s (3 + 1) t7
  let s := step s (4 + 1) t9
  let s := step s (3 + 1) t15
  let s := step s (4 + 1) t11
  s

/-- two's-complement wrap to `int8` -/
def wrap8 (x : Int) : Int := (x + 128) % 256 - 128

/-- `signedRadix16`: 64 signed digits (as `Int`, each an `int8` value) -/
def signedRadix16 (s : W4) : Res (Array Int) :=
  let b := bytes s
  if b[31]! > 127 then .panic "highbit" else
  -- unsigned radix-16 digits
  let digits : Array Int := (List.range 64).toArray.map fun k =>
    if k % 2 == 0 then ((b[k / 2]! &&& 15 : Nat) : Int) else (((b[k / 2]! >>> 4) &&& 15 : Nat) : Int)
  -- recentre
  let digits := (List.range 63).foldl (fun (d : Array Int) i =>
    let carry := wrap8 ((wrap8 (d[i]! + 8)) / 16)      -- arithmetic shift: floor division
    let d := d.set! i (wrap8 (d[i]! - wrap8 (carry * 16)))
    d.set! (i+1) (wrap8 (d[i+1]! + carry))) digits
  .ok digits

/-- `binary.LittleEndian.Uint64(b[i*8:])` -/
def le64at (b : Bytes) (i : Nat) : Nat := Bin.le64 b (i * 8)

structure NafState where
  naf : Array Int
  pos : Nat
  carry : Nat

/-- one iteration of the `for pos < 256` loop of `nonAdjacentForm` -/
def nafStep (w : Nat) (digits : Array Nat) (st : NafState) : NafState :=
  let width := U.shl 64 1 w
  let windowMask := U.sub 64 width 1
  let pos := st.pos
  let indexU64 := pos / 64
  let indexBit := pos % 64
  let bitBuf :=
    if indexBit < 64 - w then digits[indexU64]! >>> indexBit
    else (digits[indexU64]! >>> indexBit) ||| (U.shl 64 digits[1 + indexU64]! (64 - indexBit))
  let window := U.add 64 st.carry (bitBuf &&& windowMask)
  if window &&& 1 == 0 then { st with pos := pos + 1 }
  else if window < width / 2 then
    { naf := st.naf.set! pos (wrap8 window), pos := pos + w, carry := 0 }
  else
    { naf := st.naf.set! pos (wrap8 (wrap8 window - wrap8 width)), pos := pos + w, carry := 1 }

def nafLoop (w : Nat) (digits : Array Nat) : Nat → NafState → NafState
  | 0, st => st
  | fuel+1, st => if st.pos < 256 then nafLoop w digits fuel (nafStep w digits st) else st

/-- `nonAdjacentForm(w)`: 256 signed digits -/
def nonAdjacentForm (s : W4) (w : Nat) : Res (Array Int) :=
  let b := bytes s
  if b[31]! > 127 then .panic "highbit" else
  if w < 2 then .panic "naf-w" else if w > 8 then .panic "naf-w" else
  let digits : Array Nat := #[le64at b 0, le64at b 1, le64at b 2, le64at b 3, 0]
  let st := nafLoop w digits 256 { naf := Array.replicate 256 0, pos := 0, carry := 0 }
  .ok st.naf

/-- Montgomery-domain evaluation `s0 + s1 2^64 + s2 2^128 + s3 2^192` -/
def eval (s : W4) : Nat := s.w0 + s.w1 * 2^64 + s.w2 * 2^128 + s.w3 * 2^192

/-- representation invariant of fiat: words `< 2^64`, value `< l` -/
def Inv (s : W4) : Prop := s.w0 < 2^64 ∧ s.w1 < 2^64 ∧ s.w2 < 2^64 ∧ s.w3 < 2^64 ∧ eval s < L

end Scalar
end EdVerif.Impl
