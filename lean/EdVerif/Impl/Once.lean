/-! Abstract interleaving model of the lazily built basepoint tables behind `sync.Once` (property C18): any set of
thread ids, any schedule. `N` table cells are written by the single builder and read by everyone after
publication. Proved for all schedules by an inductive invariant. Core Lean only. The *flag* protocol
(check-then-build without Once) is shown unsafe by a concrete schedule — the counter-model used when the
SSA facts F1/F2 fail. -/
namespace EdVerif.Impl.Once

abbrev Tid := Nat

inductive OnceSt | fresh | running (t : Tid) | complete
deriving DecidableEq, Repr

inductive Pc | idle | waiting | building (k : Nat) | reading (k : Nat) | done
deriving DecidableEq, Repr

/-- number of table cells -/
def N : Nat := 32

structure St where
  once : OnceSt
  built : Nat
  builds : Nat
  pc : Tid → Pc

def init : St := { once := .fresh, built := 0, builds := 0, pc := fun _ => .idle }

def setPc (s : St) (t : Tid) (p : Pc) : St := { s with pc := fun u => if u = t then p else s.pc u }

/-- one step of thread `t` (a blocked thread stutters) -/
def step (s : St) (t : Tid) : St :=
  match s.pc t with
  | .idle =>
    match s.once with
    | .fresh => setPc { s with once := .running t, builds := s.builds + 1 } t (.building 0)
    | .running _ => setPc s t .waiting
    | .complete => setPc s t (.reading 0)
  | .waiting =>
    match s.once with
    | .complete => setPc s t (.reading 0)
    | _ => s
  | .building k =>
    if k < N then setPc { s with built := k + 1 } t (.building (k + 1))
    else setPc { s with once := .complete } t (.reading 0)
  | .reading k => if k < N then setPc s t (.reading (k + 1)) else setPc s t .done
  | .done => s

def run (sched : List Tid) : St := sched.foldl step init

def isBuilding : Pc → Bool | .building _ => true | _ => false
def isReading : Pc → Bool | .reading _ => true | _ => false

/-- two different threads have conflicting accesses to the table enabled in the same state -/
def Raced (s : St) : Prop :=
  ∃ t u, t ≠ u ∧ isBuilding (s.pc t) = true ∧ (isBuilding (s.pc u) = true ∨ isReading (s.pc u) = true)

structure Inv (s : St) : Prop where
  builds_le : s.builds ≤ 1
  fresh_builds : s.once = .fresh → s.builds = 0 ∧ s.built = 0 ∧ ∀ u, s.pc u = .idle
  building_owner : ∀ t k, s.pc t = .building k → s.once = .running t ∧ s.built = k ∧ k ≤ N
  running_owner : ∀ t, s.once = .running t → ∃ k, s.pc t = .building k
  reading_ok : ∀ t k, s.pc t = .reading k → s.once = .complete
  done_ok : ∀ t, s.pc t = .done → s.once = .complete
  complete_built : s.once = .complete → s.built = N

theorem inv_init : Inv init := by
  refine ⟨by simp [init], ?_, ?_, ?_, ?_, ?_, ?_⟩ <;> simp [init]

theorem pc_setPc (s : St) (t u : Tid) (p : Pc) : (setPc s t p).pc u = if u = t then p else s.pc u := rfl

theorem inv_step (s : St) (t : Tid) (h : Inv s) : Inv (step s t) := by
  unfold step
  cases hpc : s.pc t with
  | idle =>
    cases ho : s.once with
    | fresh =>
      obtain ⟨hb, hbt, hidle⟩ := h.fresh_builds ho
      refine ⟨by simp [setPc]; omega, by simp [setPc], ?_, ?_, ?_, ?_, by simp [setPc]⟩
      · intro u k hu
        simp only [pc_setPc] at hu
        split at hu
        · next e => subst e; cases hu; simp [setPc, N, hbt]
        · rw [hidle u] at hu; cases hu
      · intro u hu; simp only [setPc] at hu; cases hu; exact ⟨0, by simp [pc_setPc]⟩
      · intro u k hu
        simp only [pc_setPc] at hu
        split at hu
        · cases hu
        · rw [hidle u] at hu; cases hu
      · intro u hu
        simp only [pc_setPc] at hu
        split at hu
        · cases hu
        · rw [hidle u] at hu; cases hu
    | running o =>
      simp only
      refine ⟨h.builds_le, by simp [setPc, ho], ?_, ?_, ?_, ?_, by simp [setPc, ho]⟩
      · intro u k hu
        simp only [pc_setPc] at hu
        split at hu
        · cases hu
        · exact h.building_owner u k hu
      · intro u hu
        simp only [setPc] at hu
        obtain ⟨k, hk⟩ := h.running_owner u hu
        refine ⟨k, ?_⟩
        simp only [pc_setPc]
        split
        · next e => subst e; rw [hpc] at hk; cases hk
        · exact hk
      · intro u k hu
        simp only [pc_setPc] at hu
        split at hu
        · cases hu
        · exact h.reading_ok u k hu
      · intro u hu
        simp only [pc_setPc] at hu
        split at hu
        · cases hu
        · exact h.done_ok u hu
    | complete =>
      simp only
      refine ⟨h.builds_le, by simp [setPc, ho], ?_, ?_, ?_, ?_, fun _ => h.complete_built ho⟩
      · intro u k hu
        simp only [pc_setPc] at hu
        split at hu
        · cases hu
        · exact h.building_owner u k hu
      · intro u hu; simp only [setPc] at hu; rw [ho] at hu; cases hu
      · intro u k _; simp [setPc, ho]
      · intro u _; simp [setPc, ho]
  | waiting =>
    cases ho : s.once with
    | fresh => simpa using h
    | running o => simpa using h
    | complete =>
      simp only
      refine ⟨h.builds_le, by simp [setPc, ho], ?_, ?_, ?_, ?_, fun _ => h.complete_built ho⟩
      · intro u k hu
        simp only [pc_setPc] at hu
        split at hu
        · cases hu
        · exact h.building_owner u k hu
      · intro u hu; simp only [setPc] at hu; rw [ho] at hu; cases hu
      · intro u k _; simp [setPc, ho]
      · intro u _; simp [setPc, ho]
  | building k =>
    obtain ⟨ho, hbk, hkN⟩ := h.building_owner t k hpc
    simp only
    split
    · next hlt =>
      refine ⟨h.builds_le, by simp [setPc, ho], ?_, ?_, ?_, ?_, by simp [setPc, ho]⟩
      · intro u j hu
        simp only [pc_setPc] at hu
        split at hu
        · next e => subst e; cases hu; simp [setPc, ho]; omega
        · next ne =>
          obtain ⟨ho', _, _⟩ := h.building_owner u j hu
          rw [ho] at ho'; cases ho'; exact absurd rfl ne
      · intro u hu
        simp only [setPc] at hu; rw [ho] at hu; cases hu
        exact ⟨k + 1, by simp [pc_setPc]⟩
      · intro u j hu
        simp only [pc_setPc] at hu
        split at hu
        · cases hu
        · have := h.reading_ok u j hu; rw [ho] at this; cases this
      · intro u hu
        simp only [pc_setPc] at hu
        split at hu
        · cases hu
        · have := h.done_ok u hu; rw [ho] at this; cases this
    · next hge =>
      have hk : k = N := by omega
      refine ⟨h.builds_le, by simp [setPc], ?_, by simp [setPc], by simp [setPc], by simp [setPc], ?_⟩
      · intro u j hu
        simp only [pc_setPc] at hu
        split at hu
        · cases hu
        · next ne =>
          obtain ⟨ho', _, _⟩ := h.building_owner u j hu
          rw [ho] at ho'; cases ho'; exact absurd rfl ne
      · intro _; simp [setPc]; omega
  | reading k =>
    have ho := h.reading_ok t k hpc
    simp only
    split
    all_goals
      refine ⟨h.builds_le, by simp [setPc, ho], ?_, ?_, ?_, ?_, fun _ => h.complete_built ho⟩
      · intro u j hu
        simp only [pc_setPc] at hu
        split at hu
        · cases hu
        · exact h.building_owner u j hu
      · intro u hu; simp only [setPc] at hu; rw [ho] at hu; cases hu
      · intro u j _; simp [setPc, ho]
      · intro u _; simp [setPc, ho]
  | done => simpa using h

theorem inv_run (sched : List Tid) : Inv (run sched) := by
  unfold run
  suffices ∀ s, Inv s → Inv (sched.foldl step s) from this _ inv_init
  induction sched with
  | nil => intro s h; exact h
  | cons t ts ih => intro s h; exact ih _ (inv_step s t h)

/-- the C18 statement for the abstract protocol: for every schedule, the table is built at most
once, no two conflicting accesses are ever enabled together, and a reader only ever sees the
complete table -/
theorem once_safe (sched : List Tid) :
    (run sched).builds ≤ 1 ∧ ¬ Raced (run sched) ∧
    ∀ t k, (run sched).pc t = .reading k → (run sched).built = N := by
  have h := inv_run sched
  refine ⟨h.builds_le, ?_, ?_⟩
  · rintro ⟨t, u, hne, hb, hu⟩
    cases hpt : (run sched).pc t with
    | building k =>
      obtain ⟨ho, _, _⟩ := h.building_owner t k hpt
      rcases hu with hu | hu
      · cases hpu : (run sched).pc u with
        | building j =>
          obtain ⟨ho', _, _⟩ := h.building_owner u j hpu
          rw [ho] at ho'; cases ho'; exact hne rfl
        | _ => simp [hpu, isBuilding] at hu
      · cases hpu : (run sched).pc u with
        | reading j =>
          have := h.reading_ok u j hpu; rw [ho] at this; cases this
        | _ => simp [hpu, isReading] at hu
    | _ => simp [hpt, isBuilding] at hb
  · intro t k hk
    exact h.complete_built (h.reading_ok t k hk)

/-! The counter-model: "replace sync.Once by a flag" (check, build, then set the flag). -/
structure FSt where
  flag : Bool
  builds : Nat
  pc : Tid → Pc

def finit : FSt := { flag := false, builds := 0, pc := fun _ => .idle }
def fsetPc (s : FSt) (t : Tid) (p : Pc) : FSt := { s with pc := fun u => if u = t then p else s.pc u }

def fstep (s : FSt) (t : Tid) : FSt :=
  match s.pc t with
  | .idle => if s.flag then fsetPc s t (.reading 0) else fsetPc { s with builds := s.builds + 1 } t (.building 0)
  | .building k => if k < N then fsetPc s t (.building (k + 1)) else fsetPc { s with flag := true } t (.reading 0)
  | .reading k => if k < N then fsetPc s t (.reading (k + 1)) else fsetPc s t .done
  | _ => s

def frun (sched : List Tid) : FSt := sched.foldl fstep finit

/-- with a plain flag two first users both build: the table is built twice and two writers are enabled at once -/
theorem flag_unsafe : ∃ sched : List Tid,
    (frun sched).builds = 2 ∧
    ∃ t u, t ≠ u ∧ isBuilding ((frun sched).pc t) = true ∧ isBuilding ((frun sched).pc u) = true :=
  ⟨[0, 1], by decide, 0, 1, by decide, by decide, by decide⟩

end EdVerif.Impl.Once
