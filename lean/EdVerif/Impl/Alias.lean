import EdVerif.Prims
/-!
Checker over the memory-event lists that the kernel translator emits for every straight-line
kernel (`Gen.*.memEvents`): after a write through parameter `p` (field `f`), no later read goes
through a *different* parameter `q` of the same pointee type at an overlapping field. When this
holds, running the kernel with `q` aliased to `p` reads exactly the values it reads with distinct
storage, so the pure translation (which treats parameters as independent values) describes the
aliased call too. A write through a byte-slice parameter is never allowed (inputs are read-only).
Core Lean only.
-/
namespace EdVerif.Impl.Alias
open EdVerif.Prims

def overlap (f g : Nat) : Bool := f == g || f == 0 || g == 0

/-- type code of parameter `n`: 0 = value, 1 = byte slice (read-only input), ≥ 2 = pointee type -/
def tyOf (ps : List Nat) (n : Nat) : Nat := ps.getD n 0

def aliasSafe (ps : List Nat) : List Ev → Bool
  | [] => true
  | e :: rest =>
    (if e.kind == 1 then
      tyOf ps e.param != 1 &&
      rest.all (fun r => !(r.kind == 0 && r.param != e.param && tyOf ps r.param == tyOf ps e.param
                           && overlap e.field r.field))
     else true) && aliasSafe ps rest

/-- names of the kernels that are NOT alias-safe by the syntactic rule -/
def unsafeKernels (evs : List (String × List Nat × List Ev)) : List String :=
  (evs.filter (fun x => !(aliasSafe x.2.1 x.2.2))).map (·.1)

end EdVerif.Impl.Alias
