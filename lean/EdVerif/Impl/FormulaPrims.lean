import EdVerif.Impl.Point
/-!
Primitive callees of the regenerated formulas (`Gen/Formulas.lean`) that are not plain `Impl` functions:
total versions of the digit recoders (the panic on a scalar with the high bit set is modelled by
`Scalar.signedRadix16` itself; here the digits are `#[]` in that case — the regenerated scalar
multiplications are only used together with the model's `Res` wrapper, see `Proofs/FormulaSpec.lean`).
-/
namespace EdVerif.Impl
open EdVerif.Prims
namespace Scalar

/-- the value of a successful outcome, `d` otherwise -/
def _root_.EdVerif.Impl.Res.getD {α : Type} (r : Res α) (d : α) : α :=
  match r with
  | .ok v => v
  | _ => d

/-- the 64 signed radix-16 digits of a scalar (`(*Scalar).signedRadix16`); `#[]` when `signedRadix16` panics.
(Stated with `Res.getD` rather than an inline `match`, so that no definitional check ever has to evaluate
`signedRadix16 x` on a symbolic scalar.) -/
def radix16Digits (x : W4) : Array Int := (signedRadix16 x).getD #[]

end Scalar

/-! `int8` values are modelled by the mathematical integer they denote (`Int`, range `-128 … 127`); all other Go
integer types by their two's complement representative (`Nat`).  The operations below are the Go operations on
`int8` operands (wrapping), and the conversions between the two models. -/
namespace I8

/-- two's-complement wrap to `int8` -/
def wrap (x : Int) : Int := (x + 128) % 256 - 128
/-- `uint8(a)` / the bit pattern of an `int8` -/
def toU8 (a : Int) : Nat := (a % 256).toNat
/-- conversion of an `int8` to a `bits`-wide integer type (sign extension; the result is the representative mod `2^bits`) -/
def toU (bits : Nat) (a : Int) : Nat := (a % ((2 ^ bits : Nat) : Int)).toNat
/-- `int8(b)` for a byte `b` -/
def ofU8 (n : Nat) : Int := if n < 128 then (n : Int) else (n : Int) - 256
def add (a b : Int) : Int := wrap (a + b)
def sub (a b : Int) : Int := wrap (a - b)
/-- `a >> k` on `int8`: arithmetic shift = floor division -/
def sar (a : Int) (k : Nat) : Int := a / ((2 ^ k : Nat) : Int)
/-- `a << k` on `int8` -/
def shl (a : Int) (k : Nat) : Int := wrap (a * ((2 ^ k : Nat) : Int))
def xor (a b : Int) : Int := ofU8 (toU8 a ^^^ toU8 b)
def and (a b : Int) : Int := ofU8 (toU8 a &&& toU8 b)
def or (a b : Int) : Int := ofU8 (toU8 a ||| toU8 b)
/-- `-a` on `int8` (`-(-128) = -128`) -/
def neg (a : Int) : Int := wrap (-a)
/-- `a / b` on `int8` for a constant `b ≠ 0`: truncated division (`-128 / -1` wraps) -/
def quo (a b : Int) : Int := wrap (Int.tdiv a b)

end I8

/-! Signed comparisons of `bits`-wide integers given by their two's complement representatives. -/
namespace S
/-- the integer denoted by the representative `a` of a signed `bits`-wide integer -/
def toInt (bits a : Nat) : Int := if a < 2 ^ (bits - 1) then (a : Int) else (a : Int) - ((2 ^ bits : Nat) : Int)
def lt (bits a b : Nat) : Bool := decide (toInt bits a < toInt bits b)
def le (bits a b : Nat) : Bool := decide (toInt bits a ≤ toInt bits b)
end S

/-- `binary.LittleEndian.Uint64(x)` (the caller has checked `len(x) ≥ 8`) -/
def Scalar.le64 (x : Bytes) : Nat := Bin.le64 x 0

/-- `a[k] |= v` on a byte array -/
def Bin.orAt (a : Bytes) (k v : Nat) : Bytes := a.set! k (a[k]! ||| v)

/-- `binary.LittleEndian.PutUint64(buf[:], w)` for an 8-byte buffer: the new contents of the buffer -/
def Fe.putLE64A (w : Nat) : Bytes := (Fe.putLE64 w).toArray

/-! ## Loops that are not unrolled

A function whose loops are kept as loops has result type `Res T`.  Calls of `Res`-valued functions, run-time checks
(`Res.guard`: an index that the translator could not prove in range) and loops are sequenced with `Res.bind`. -/
namespace Res
def bind {α β : Type} (r : Res α) (f : α → Res β) : Res β :=
  match r with
  | .ok v => f v
  | .err => .err
  | .panic c => .panic c
/-- a run-time check of the Go code (index in range): panics with class `cls` when `c` is false -/
def guard (c : Bool) (cls : String) : Res Unit := if c then .ok () else .panic cls
end Res

namespace Loop
/-- A loop of the SSA form.  The state `σ` is the tuple of the header's φ-values and of the memory objects written in
the loop.  `step s` executes from the loop header in state `s` to the next arrival at the header (`.ok (s', true)`:
`s'` holds the φ-values of that back edge) or to the loop's exit (`.ok (s', false)`: the φ-values are those of the
iteration that left).  The loop panics with class `"fuel"` if it has not exited after `fuel` evaluations of `step`
(no Go execution does that: the hand-proved lemmas show that the fuel passed by the translator is never exhausted). -/
def iter {σ : Type} (step : σ → Res (σ × Bool)) : Nat → σ → Res σ
  | 0, _ => .panic "fuel"
  | fuel+1, s => (step s).bind fun r => if r.2 then iter step fuel r.1 else .ok r.1
end Loop
end EdVerif.Impl
