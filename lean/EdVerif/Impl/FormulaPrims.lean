import EdVerif.Impl.Point
/-!
Primitive callees of the regenerated formulas (`Gen/Formulas.lean`) that are not plain `Impl` functions:
total versions of the digit recoders (the panic on a scalar with the high bit set is modelled by
`Scalar.signedRadix16` itself; here the digits are `#[]` in that case — the regenerated scalar
multiplications are only used together with the model's `Res` wrapper, see `Proofs/FormulaSpec.lean`).
-/
namespace EdVerif.Impl
open EdVerif.Prims
namespace Scalar

/-- the 64 signed radix-16 digits of a scalar (`(*Scalar).signedRadix16`) -/
def radix16Digits (x : W4) : Array Int :=
  match signedRadix16 x with
  | .ok d => d
  | _ => #[]

end Scalar
end EdVerif.Impl
