import EdVerif.Impl.Point
/-!
Primitive callees of the regenerated formulas (`Gen/Formulas.lean`) that are not plain `Impl` functions:
total versions of the digit recoders (the panic on a scalar with the high bit set is modelled by
`Scalar.signedRadix16` itself; here the digits are `#[]` in that case — the regenerated scalar
multiplications are only used together with the model's `Res` wrapper, see `Proofs/FormulaSpec.lean`).
-/
namespace EdVerif.Impl
open EdVerif.Prims
namespace Scalar

/-- the value of a successful outcome, `d` otherwise -/
def _root_.EdVerif.Impl.Res.getD {α : Type} (r : Res α) (d : α) : α :=
  match r with
  | .ok v => v
  | _ => d

/-- the 64 signed radix-16 digits of a scalar (`(*Scalar).signedRadix16`); `#[]` when `signedRadix16` panics.
(Stated with `Res.getD` rather than an inline `match`, so that no definitional check ever has to evaluate
`signedRadix16 x` on a symbolic scalar.) -/
def radix16Digits (x : W4) : Array Int := (signedRadix16 x).getD #[]

end Scalar

/-! `int8` values are modelled by the mathematical integer they denote (`Int`, range `-128 … 127`); all other Go
integer types by their two's complement representative (`Nat`).  The operations below are the Go operations on
`int8` operands (wrapping), and the conversions between the two models. -/
namespace I8

/-- two's-complement wrap to `int8` -/
def wrap (x : Int) : Int := (x + 128) % 256 - 128
/-- `uint8(a)` / the bit pattern of an `int8` -/
def toU8 (a : Int) : Nat := (a % 256).toNat
/-- conversion of an `int8` to a `bits`-wide integer type (sign extension; the result is the representative mod `2^bits`) -/
def toU (bits : Nat) (a : Int) : Nat := (a % ((2 ^ bits : Nat) : Int)).toNat
/-- `int8(b)` for a byte `b` -/
def ofU8 (n : Nat) : Int := if n < 128 then (n : Int) else (n : Int) - 256
def add (a b : Int) : Int := wrap (a + b)
def sub (a b : Int) : Int := wrap (a - b)
/-- `a >> k` on `int8`: arithmetic shift = floor division -/
def sar (a : Int) (k : Nat) : Int := a / ((2 ^ k : Nat) : Int)
/-- `a << k` on `int8` -/
def shl (a : Int) (k : Nat) : Int := wrap (a * ((2 ^ k : Nat) : Int))
def xor (a b : Int) : Int := ofU8 (toU8 a ^^^ toU8 b)
def and (a b : Int) : Int := ofU8 (toU8 a &&& toU8 b)
def or (a b : Int) : Int := ofU8 (toU8 a ||| toU8 b)

end I8
end EdVerif.Impl
