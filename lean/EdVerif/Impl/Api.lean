import Std.Data.HashMap
import EdVerif.Impl.Point
/-!
The API state machine: a store of named `Element`s, `Scalar`s, `Point`s and byte strings and one
`Op` per exported function / method of the three public types, with *names* for the receiver and
the arguments (so aliasing is a property of the `Op`). `step` reads all arguments first and then
writes the receiver slot only (`Swap`: both; `Bytes`‑like and `ExtendedCoordinates`: fresh output
slots), and returns the store unchanged on `err` / `panic`. Core Lean only.
-/
namespace EdVerif.Impl
open EdVerif.Prims

inductive Kind where
  | ok | err | panic (cls : String) | bad
deriving Repr, DecidableEq

structure Outcome where
  kind : Kind
  /-- integer result (`Equal`, `IsNegative`, `wasSquare`) -/
  ret : Option Nat := none
deriving Repr, DecidableEq

structure Store where
  e : Std.HashMap String Fe := {}
  s : Std.HashMap String W4 := {}
  p : Std.HashMap String P3 := {}
  b : Std.HashMap String Bytes := {}

inductive EConst | zero | one deriving Repr, DecidableEq
inductive EOp1 | set | negate | square | invert | pow22523 | absolute deriving Repr, DecidableEq
inductive EOp2 | add | subtract | multiply deriving Repr, DecidableEq
inductive SOp1 | set | negate | invert deriving Repr, DecidableEq
inductive SOp2 | add | subtract | multiply deriving Repr, DecidableEq
inductive SSet | uniform | canonical | clamping deriving Repr, DecidableEq
inductive POp1 | negate | multByCofactor deriving Repr, DecidableEq
inductive POp2 | add | subtract deriving Repr, DecidableEq

inductive Op where
  | eNew (n : String) | sNew (n : String) | pNew (n : String) | bSet (n : String) (x : Bytes)
  | eLimbs (n : String) (v : Fe) | sLimbs (n : String) (v : W4) | pLimbs (n : String) (v : P3)
  | eConst (k : EConst) (v : String)
  | e1 (o : EOp1) (v a : String)
  | e2 (o : EOp2) (v a b : String)
  | eMult32 (v a : String) (y : Nat)
  | eSelect (v a b : String) (cond : Nat)
  | eSwap (v u : String) (cond : Nat)
  | eSqrtRatio (r u v : String)
  | eSetBytes (v b : String) | eSetWideBytes (v b : String)
  | eBytes (v out : String) | eEqual (v u : String) | eIsNegative (v : String)
  | s1 (o : SOp1) (s x : String)
  | s2 (o : SOp2) (s x y : String)
  | sMultiplyAdd (s x y z : String)
  | sSetBytes (k : SSet) (s b : String)
  | sBytes (s out : String) | sEqual (s t : String)
  | pNewIdentity (v : String) | pNewGenerator (v : String) | pSet (v u : String)
  | pSetBytes (v b : String) | pBytes (v out : String) | pBytesMontgomery (v out : String)
  | p1 (o : POp1) (v p : String)
  | p2 (o : POp2) (v p q : String)
  | pEqual (v u : String)
  | pExtCoords (v X Y Z T : String)
  | pSetExtCoords (v X Y Z T : String)
  | pScalarBaseMult (v x : String)
  | pScalarMult (v x q : String)
  | pVarTimeDouble (v a A b : String)
  | pMSM (varTime : Bool) (v : String) (xs qs : List String)
deriving Repr

namespace Api

def okO : Outcome := { kind := .ok }
def errO : Outcome := { kind := .err }
def badO : Outcome := { kind := .bad }
def panicO (c : String) : Outcome := { kind := .panic c }
def retO (n : Nat) : Outcome := { kind := .ok, ret := some n }

def evalE1 : EOp1 → Fe → Fe
  | .set, a => a
  | .negate, a => Fe.neg a
  | .square, a => Fe.square a
  | .invert, a => Fe.invert a
  | .pow22523, a => Fe.pow22523 a
  | .absolute, a => Fe.absolute a

def evalE2 : EOp2 → Fe → Fe → Fe
  | .add, a, b => Fe.add a b
  | .subtract, a, b => Fe.sub a b
  | .multiply, a, b => Fe.mul a b

def evalS1 : SOp1 → W4 → W4
  | .set, x => x
  | .negate, x => Scalar.neg x
  | .invert, x => Scalar.invert x

def evalS2 : SOp2 → W4 → W4 → W4
  | .add, x, y => Scalar.add x y
  | .subtract, x, y => Scalar.sub x y
  | .multiply, x, y => Scalar.mul x y

def evalSSet : SSet → Bytes → Res W4
  | .uniform, x => Scalar.setUniformBytes x
  | .canonical, x => Scalar.setCanonicalBytes x
  | .clamping, x => Scalar.setBytesWithClamping x

def evalP1 : POp1 → P3 → P3
  | .negate, p => Point.neg p
  | .multByCofactor, p => Point.multByCofactor p

def evalP2 : POp2 → P3 → P3 → P3
  | .add, p, q => Point.add p q
  | .subtract, p, q => Point.sub p q

def ofRes {α} (σ : Store) (r : Res α) (put : α → Store) : Store × Outcome :=
  match r with
  | .ok a => (put a, okO)
  | .err => (σ, errO)
  | .panic c => (σ, panicO c)

/-- all names resolve? -/
def getAll {α} (m : Std.HashMap String α) (ns : List String) : Option (List α) :=
  ns.mapM (fun n => m[n]?)

def uninitP : Outcome := panicO "uninit"

/-- One API call. -/
def step (σ : Store) : Op → Store × Outcome
  | .eNew n => ({ σ with e := σ.e.insert n Fe.rz }, okO)
  | .sNew n => ({ σ with s := σ.s.insert n Scalar.rz }, okO)
  | .pNew n => ({ σ with p := σ.p.insert n Point.zeroValue }, okO)
  | .bSet n x => ({ σ with b := σ.b.insert n x }, okO)
  | .eLimbs n v => ({ σ with e := σ.e.insert n v }, okO)
  | .sLimbs n v => ({ σ with s := σ.s.insert n v }, okO)
  | .pLimbs n v => ({ σ with p := σ.p.insert n v }, okO)
  | .eConst k v =>
    match σ.e[v]? with
    | some _ => ({ σ with e := σ.e.insert v (match k with | .zero => Fe.zero | .one => Fe.one) }, okO)
    | none => (σ, badO)
  | .e1 o v a =>
    match σ.e[v]?, σ.e[a]? with
    | some _, some x => ({ σ with e := σ.e.insert v (evalE1 o x) }, okO)
    | _, _ => (σ, badO)
  | .e2 o v a b =>
    match σ.e[v]?, σ.e[a]?, σ.e[b]? with
    | some _, some x, some y => ({ σ with e := σ.e.insert v (evalE2 o x y) }, okO)
    | _, _, _ => (σ, badO)
  | .eMult32 v a y =>
    match σ.e[v]?, σ.e[a]? with
    | some _, some x => ({ σ with e := σ.e.insert v (Fe.mult32 x y) }, okO)
    | _, _ => (σ, badO)
  | .eSelect v a b cond =>
    match σ.e[v]?, σ.e[a]?, σ.e[b]? with
    | some _, some x, some y => ({ σ with e := σ.e.insert v (Fe.select x y cond) }, okO)
    | _, _, _ => (σ, badO)
  | .eSwap v u cond =>
    match σ.e[v]?, σ.e[u]? with
    | some x, some y =>
      let (x', y') := Fe.swap x y cond
      -- when v and u are the same slot both writes hit it; the second (`u.l* ^= t`) wins limb-wise,
      -- and with x = y the mask term is 0, so the value is unchanged either way
      ({ σ with e := (σ.e.insert v x').insert u y' }, okO)
    | _, _ => (σ, badO)
  | .eSqrtRatio r u v =>
    match σ.e[r]?, σ.e[u]?, σ.e[v]? with
    | some _, some x, some y =>
      let (res, w) := Fe.sqrtRatio x y
      ({ σ with e := σ.e.insert r res }, retO w)
    | _, _, _ => (σ, badO)
  | .eSetBytes v b =>
    match σ.e[v]?, σ.b[b]? with
    | some _, some x =>
      match Fe.setBytes x with
      | some r => ({ σ with e := σ.e.insert v r }, okO)
      | none => (σ, errO)
    | _, _ => (σ, badO)
  | .eSetWideBytes v b =>
    match σ.e[v]?, σ.b[b]? with
    | some _, some x =>
      match Fe.setWideBytes x with
      | some r => ({ σ with e := σ.e.insert v r }, okO)
      | none => (σ, errO)
    | _, _ => (σ, badO)
  | .eBytes v out =>
    match σ.e[v]? with
    | some x => ({ σ with b := σ.b.insert out (Fe.bytes x) }, okO)
    | none => (σ, badO)
  | .eEqual v u =>
    match σ.e[v]?, σ.e[u]? with
    | some x, some y => (σ, retO (Fe.equal x y))
    | _, _ => (σ, badO)
  | .eIsNegative v =>
    match σ.e[v]? with
    | some x => (σ, retO (Fe.isNegative x))
    | none => (σ, badO)
  | .s1 o s x =>
    match σ.s[s]?, σ.s[x]? with
    | some _, some a => ({ σ with s := σ.s.insert s (evalS1 o a) }, okO)
    | _, _ => (σ, badO)
  | .s2 o s x y =>
    match σ.s[s]?, σ.s[x]?, σ.s[y]? with
    | some _, some a, some b => ({ σ with s := σ.s.insert s (evalS2 o a b) }, okO)
    | _, _, _ => (σ, badO)
  | .sMultiplyAdd s x y z =>
    match σ.s[s]?, σ.s[x]?, σ.s[y]?, σ.s[z]? with
    | some _, some a, some b, some c => ({ σ with s := σ.s.insert s (Scalar.multiplyAdd a b c) }, okO)
    | _, _, _, _ => (σ, badO)
  | .sSetBytes k s b =>
    match σ.s[s]?, σ.b[b]? with
    | some _, some x => ofRes σ (evalSSet k x) (fun r => { σ with s := σ.s.insert s r })
    | _, _ => (σ, badO)
  | .sBytes s out =>
    match σ.s[s]? with
    | some x => ({ σ with b := σ.b.insert out (Scalar.bytes x) }, okO)
    | none => (σ, badO)
  | .sEqual s t =>
    match σ.s[s]?, σ.s[t]? with
    | some x, some y => (σ, retO (Scalar.equal x y))
    | _, _ => (σ, badO)
  | .pNewIdentity v => ({ σ with p := σ.p.insert v Point.identity }, okO)
  | .pNewGenerator v => ({ σ with p := σ.p.insert v Point.generator }, okO)
  | .pSet v u =>
    match σ.p[v]?, σ.p[u]? with
    | some _, some x => ({ σ with p := σ.p.insert v x }, okO)
    | _, _ => (σ, badO)
  | .pSetBytes v b =>
    match σ.p[v]?, σ.b[b]? with
    | some _, some x =>
      match Point.setBytes x with
      | some r => ({ σ with p := σ.p.insert v r }, okO)
      | none => (σ, errO)
    | _, _ => (σ, badO)
  | .pBytes v out =>
    match σ.p[v]? with
    | some x => if Point.isUninit x then (σ, uninitP) else ({ σ with b := σ.b.insert out (Point.bytes x) }, okO)
    | none => (σ, badO)
  | .pBytesMontgomery v out =>
    match σ.p[v]? with
    | some x => if Point.isUninit x then (σ, uninitP) else ({ σ with b := σ.b.insert out (Point.bytesMontgomery x) }, okO)
    | none => (σ, badO)
  | .p1 o v p =>
    match σ.p[v]?, σ.p[p]? with
    | some _, some x => if Point.isUninit x then (σ, uninitP) else ({ σ with p := σ.p.insert v (evalP1 o x) }, okO)
    | _, _ => (σ, badO)
  | .p2 o v p q =>
    match σ.p[v]?, σ.p[p]?, σ.p[q]? with
    | some _, some x, some y =>
      if Point.isUninit x || Point.isUninit y then (σ, uninitP)
      else ({ σ with p := σ.p.insert v (evalP2 o x y) }, okO)
    | _, _, _ => (σ, badO)
  | .pEqual v u =>
    match σ.p[v]?, σ.p[u]? with
    | some x, some y =>
      if Point.isUninit x || Point.isUninit y then (σ, uninitP) else (σ, retO (Point.equal x y))
    | _, _ => (σ, badO)
  | .pExtCoords v X Y Z T =>
    match σ.p[v]? with
    | some x =>
      if Point.isUninit x then (σ, uninitP)
      else ({ σ with e := (((σ.e.insert X x.x).insert Y x.y).insert Z x.z).insert T x.t }, okO)
    | none => (σ, badO)
  | .pSetExtCoords v X Y Z T =>
    match σ.p[v]?, σ.e[X]?, σ.e[Y]?, σ.e[Z]?, σ.e[T]? with
    | some _, some x, some y, some z, some t =>
      match Point.setExtendedCoordinates x y z t with
      | some r => ({ σ with p := σ.p.insert v r }, okO)
      | none => (σ, errO)
    | _, _, _, _, _ => (σ, badO)
  | .pScalarBaseMult v x =>
    match σ.p[v]?, σ.s[x]? with
    | some _, some k => ofRes σ (Point.scalarBaseMult k) (fun r => { σ with p := σ.p.insert v r })
    | _, _ => (σ, badO)
  | .pScalarMult v x q =>
    match σ.p[v]?, σ.s[x]?, σ.p[q]? with
    | some _, some k, some Q =>
      if Point.isUninit Q then (σ, uninitP)
      else ofRes σ (Point.scalarMult k Q) (fun r => { σ with p := σ.p.insert v r })
    | _, _, _ => (σ, badO)
  | .pVarTimeDouble v a A b =>
    match σ.p[v]?, σ.s[a]?, σ.p[A]?, σ.s[b]? with
    | some _, some ka, some PA, some kb =>
      if Point.isUninit PA then (σ, uninitP)
      else ofRes σ (Point.varTimeDoubleScalarBaseMult ka PA kb) (fun r => { σ with p := σ.p.insert v r })
    | _, _, _, _ => (σ, badO)
  | .pMSM vt v xs qs =>
    match σ.p[v]?, getAll σ.s xs, getAll σ.p qs with
    | some _, some ks, some Qs =>
      if ks.length != Qs.length then (σ, panicO "length")
      else if Qs.any Point.isUninit then (σ, uninitP)
      else
        let r := if vt then Point.varTimeMultiScalarMult ks.toArray Qs.toArray
                 else Point.multiScalarMult ks.toArray Qs.toArray
        ofRes σ r (fun r => { σ with p := σ.p.insert v r })
    | _, _, _ => (σ, badO)

/-- run a history from the empty store -/
def run (ops : List Op) : Store := ops.foldl (fun σ o => (step σ o).1) {}

end Api
end EdVerif.Impl
