import EdVerif.Consts
import EdVerif.Spec.Primes
import EdVerif.Spec.Edwards
import Mathlib.NumberTheory.LegendreSymbol.Basic

/-! The curve edwards25519: `-x² + y² = 1 + d x² y²` over `F = ZMod (2^255 - 19)`. -/
namespace EdVerif.Spec

/-- the base field `GF(2^255 - 19)` -/
abbrev F := ZMod EdVerif.P

/-- the curve constant `d = -121665/121666` -/
def d : F := (EdVerif.D : F)

/-- a square root of `-1` -/
def sqrtM1 : F := (EdVerif.SQRTM1 : F)

theorem P_mod_8 : EdVerif.P % 8 = 5 := by decide +kernel

theorem P_pos : 0 < EdVerif.P := by decide +kernel

theorem two_ne_zero : (2 : F) ≠ 0 := by
  intro h
  have h' : ((2 : ℕ) : F) = 0 := by exact_mod_cast h
  rw [ZMod.natCast_eq_zero_iff] at h'
  exact absurd h' (by decide +kernel)

theorem d_eq : d * 121666 = -121665 := by
  have h : ((EdVerif.D * 121666 + 121665 : ℕ) : F) = 0 := by
    rw [ZMod.natCast_eq_zero_iff]; decide +kernel
  push_cast at h
  unfold d
  linear_combination h

theorem c121666_ne_zero : (121666 : F) ≠ 0 := by
  intro h
  have h' : ((121666 : ℕ) : F) = 0 := by exact_mod_cast h
  rw [ZMod.natCast_eq_zero_iff] at h'
  exact absurd h' (by decide +kernel)

theorem d_eq_div : d = -121665 / 121666 := by
  rw [eq_div_iff c121666_ne_zero]; exact d_eq

theorem sqrtM1_sq : sqrtM1 ^ 2 = -1 := by
  have h : ((EdVerif.SQRTM1 ^ 2 + 1 : ℕ) : F) = 0 := by
    rw [ZMod.natCast_eq_zero_iff]; decide +kernel
  push_cast at h
  unfold sqrtM1
  linear_combination h

theorem d_ne_zero : d ≠ 0 := by
  intro h
  unfold d at h
  rw [ZMod.natCast_eq_zero_iff] at h
  exact absurd h (by decide +kernel)

/-- Euler's criterion value: `d ^ ((p-1)/2) = -1` -/
theorem d_pow_half : d ^ (EdVerif.P / 2) = -1 := by
  have h : powMod EdVerif.D (EdVerif.P / 2) EdVerif.P = EdVerif.P - 1 := by decide +kernel
  rw [powMod_eq] at h
  have e : d ^ (EdVerif.P / 2) = ((EdVerif.D ^ (EdVerif.P / 2) % EdVerif.P : ℕ) : F) := by
    rw [ZMod.natCast_mod]; unfold d; push_cast; rfl
  rw [e, h, Nat.cast_sub (by decide +kernel : 1 ≤ EdVerif.P)]
  simp

theorem d_not_square : ¬ IsSquare d := by
  rw [ZMod.euler_criterion (p := EdVerif.P) d_ne_zero, d_pow_half]
  intro h
  apply two_ne_zero
  linear_combination -h

theorem neg_d_not_square : ¬ IsSquare (-d) := by
  rintro ⟨r, hr⟩
  apply d_not_square
  refine ⟨sqrtM1 * r, ?_⟩
  linear_combination -hr + (-(r * r)) * sqrtM1_sq

/-- if `n` is a non-square then `a² = n b²` only trivially -/
theorem sq_eq_nonsquare_mul_sq {n a b : F} (hn : ¬ IsSquare n) (h : a ^ 2 = n * b ^ 2) :
    a = 0 ∧ b = 0 := by
  have hb : b = 0 := by
    by_contra hb
    apply hn
    refine ⟨a / b, ?_⟩
    field_simp
    linear_combination -h
  subst hb
  refine ⟨?_, rfl⟩
  simpa using h

/-- the Edwards parameters of edwards25519 -/
def params : Edwards.Params F where
  d := d
  i := sqrtM1
  hi := sqrtM1_sq
  hd := d_not_square
  h2 := two_ne_zero

@[simp] theorem params_d : params.d = d := rfl
@[simp] theorem params_i : params.i = sqrtM1 := rfl

/-- the affine curve equation of edwards25519 -/
def onCurve (x y : F) : Prop := -x ^ 2 + y ^ 2 = 1 + d * x ^ 2 * y ^ 2

theorem onCurve_iff (x y : F) : onCurve x y ↔ Edwards.OnCurve params x y := Iff.rfl

/-- the group of affine points of edwards25519 (`AddCommGroup` by instance search) -/
abbrev Ed25519 := Edwards.Pt params

namespace Ed25519

/-- constructor from affine coordinates and the curve equation -/
def mk (x y : F) (h : onCurve x y) : Ed25519 := ⟨x, y, h⟩

@[simp] theorem mk_x (x y : F) (h : onCurve x y) : (mk x y h).x = x := rfl
@[simp] theorem mk_y (x y : F) (h : onCurve x y) : (mk x y h).y = y := rfl

theorem onCurve (p : Ed25519) : Spec.onCurve p.x p.y := p.on

@[ext] theorem ext' {p q : Ed25519} (hx : p.x = q.x) (hy : p.y = q.y) : p = q :=
  Edwards.Pt.ext hx hy

theorem mk_eq_mk {x y x' y' : F} {h : Spec.onCurve x y} {h' : Spec.onCurve x' y'} :
    mk x y h = mk x' y' h' ↔ x = x' ∧ y = y' := by
  constructor
  · intro e; exact ⟨congrArg Edwards.Pt.x e, congrArg Edwards.Pt.y e⟩
  · rintro ⟨rfl, rfl⟩; rfl

@[simp] theorem zero_x : (0 : Ed25519).x = 0 := rfl
@[simp] theorem zero_y : (0 : Ed25519).y = 1 := rfl
@[simp] theorem neg_x (p : Ed25519) : (-p).x = -p.x := rfl
@[simp] theorem neg_y (p : Ed25519) : (-p).y = p.y := rfl
@[simp] theorem add_x (p q : Ed25519) :
    (p + q).x = (p.x * q.y + p.y * q.x) / (1 + d * p.x * q.x * p.y * q.y) := rfl
@[simp] theorem add_y (p q : Ed25519) :
    (p + q).y = (p.y * q.y + p.x * q.x) / (1 - d * p.x * q.x * p.y * q.y) := rfl
@[simp] theorem sub_x (p q : Ed25519) :
    (p - q).x = (p.x * q.y - p.y * q.x) / (1 - d * p.x * q.x * p.y * q.y) := Edwards.sub_x p q
@[simp] theorem sub_y (p q : Ed25519) :
    (p - q).y = (p.y * q.y - p.x * q.x) / (1 + d * p.x * q.x * p.y * q.y) := Edwards.sub_y p q

end Ed25519

/-- completeness for edwards25519 -/
theorem den_plus_ne_zero {x1 y1 x2 y2 : F} (h1 : onCurve x1 y1) (h2 : onCurve x2 y2) :
    1 + d * x1 * x2 * y1 * y2 ≠ 0 := Edwards.den_plus_ne_zero (c := params) h1 h2

theorem den_minus_ne_zero {x1 y1 x2 y2 : F} (h1 : onCurve x1 y1) (h2 : onCurve x2 y2) :
    1 - d * x1 * x2 * y1 * y2 ≠ 0 := Edwards.den_minus_ne_zero (c := params) h1 h2

/-- a projective quadruple satisfying the extended-coordinate equations with `Z = 0` is zero:
there are no points at infinity over `F`. -/
theorem z_zero_only_trivial {X Y Z T : F} (hZ : Z = 0)
    (hcurve : -X ^ 2 + Y ^ 2 = Z ^ 2 + d * T ^ 2) (hT : X * Y = Z * T) :
    X = 0 ∧ Y = 0 ∧ T = 0 := by
  subst hZ
  have hxy : X * Y = 0 := by linear_combination hT
  rcases mul_eq_zero.mp hxy with hx | hy
  · subst hx
    obtain ⟨hy, ht⟩ := sq_eq_nonsquare_mul_sq (a := Y) (b := T) d_not_square
      (by linear_combination hcurve)
    exact ⟨rfl, hy, ht⟩
  · subst hy
    obtain ⟨hx, ht⟩ := sq_eq_nonsquare_mul_sq (a := X) (b := T) neg_d_not_square
      (by linear_combination -hcurve)
    exact ⟨hx, rfl, ht⟩

end EdVerif.Spec
