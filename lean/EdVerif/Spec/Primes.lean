import EdVerif.Consts
import EdVerif.Spec.PrattChains

/-! Primality of the field prime `p = 2^255 - 19` and the group order `l`. -/
namespace EdVerif.Spec

theorem prime_P : Nat.Prime EdVerif.P := PrattChains.prime_p25519

theorem prime_L : Nat.Prime EdVerif.L := PrattChains.prime_l

instance fact_prime_P : Fact (Nat.Prime EdVerif.P) := ⟨prime_P⟩

instance fact_prime_L : Fact (Nat.Prime EdVerif.L) := ⟨prime_L⟩

end EdVerif.Spec
