import EdVerif.Spec.EdwardsPoly
import Mathlib.Algebra.Group.Defs
import Mathlib.Algebra.Group.Even
import Mathlib.Tactic.Ring
import Mathlib.Tactic.FieldSimp
import Mathlib.Tactic.LinearCombination

/-! The complete twisted Edwards curve `-x² + y² = 1 + d x² y²` (`a = -1` a square, `d` a
non-square) over any field of characteristic `≠ 2`, as an `AddCommGroup`. -/
namespace EdVerif.Spec.Edwards

/-- curve parameters: `d` a non-square, `i` a square root of `-1`, characteristic `≠ 2` -/
structure Params (K : Type*) [Field K] where
  d : K
  i : K
  hi : i ^ 2 = -1
  hd : ¬ IsSquare d
  h2 : (2 : K) ≠ 0

variable {K : Type*} [Field K] (c : Params K)

/-- the affine curve equation -/
def OnCurve (x y : K) : Prop := -x ^ 2 + y ^ 2 = 1 + c.d * x ^ 2 * y ^ 2

/-- affine points of the curve -/
@[ext] structure Pt where
  x : K
  y : K
  on : OnCurve c x y

variable {c}

theorem Params.sq_ne_d (c : Params K) (s : K) : s ^ 2 ≠ c.d := fun h => c.hd ⟨s, by rw [← h, sq]⟩

theorem eq_form {x y : K} (h : OnCurve c x y) : -x ^ 2 + y ^ 2 - 1 - c.d * x ^ 2 * y ^ 2 = 0 := by
  unfold OnCurve at h; linear_combination h

/-- completeness -/
theorem complete_sq {x1 y1 x2 y2 : K} (h1 : OnCurve c x1 y1) (h2 : OnCurve c x2 y2) :
    (c.d * x1 * x2 * y1 * y2) ^ 2 ≠ 1 := by
  intro he
  unfold OnCurve at h1 h2
  have hx1 : x1 ≠ 0 := by rintro rfl; simp at he
  have hy1 : y1 ≠ 0 := by rintro rfl; simp at he
  have hy2 : y2 ≠ 0 := by rintro rfl; simp at he
  have key : ∀ s : K, s ^ 2 = 1 →
      (c.i * x1 + s * (c.d * x1 * x2 * y1 * y2) * y1) ^ 2 = c.d * (x1 * y1 * (c.i * x2 + s * y2)) ^ 2 := by
    intro s hs
    linear_combination (x1 ^ 2 - c.d * x1 ^ 2 * y1 ^ 2 * x2 ^ 2) * c.hi
      + (y1 ^ 2 * (c.d * x1 * x2 * y1 * y2) ^ 2 - c.d * x1 ^ 2 * y1 ^ 2 * y2 ^ 2) * hs
      + (y1 ^ 2 - 1) * he + (1 : K) * h1 - (c.d * x1 ^ 2 * y1 ^ 2) * h2
  have nz : ∀ s : K, s ^ 2 = 1 → c.i * x2 + s * y2 = 0 := by
    intro s hs
    by_contra hne
    have hden : x1 * y1 * (c.i * x2 + s * y2) ≠ 0 := mul_ne_zero (mul_ne_zero hx1 hy1) hne
    apply c.sq_ne_d ((c.i * x1 + s * (c.d * x1 * x2 * y1 * y2) * y1) / (x1 * y1 * (c.i * x2 + s * y2)))
    rw [div_pow, key s hs]
    field_simp
  have a := nz 1 (by ring)
  have b := nz (-1) (by ring)
  have h2y : (2 : K) * y2 = 0 := by linear_combination a - b
  rcases mul_eq_zero.mp h2y with h | h
  · exact c.h2 h
  · exact hy2 h

/-- completeness: both denominators of the addition law are non-zero on curve points -/
theorem den_ne {x1 y1 x2 y2 : K} (h1 : OnCurve c x1 y1) (h2 : OnCurve c x2 y2) :
    1 + c.d * x1 * x2 * y1 * y2 ≠ 0 ∧ 1 - c.d * x1 * x2 * y1 * y2 ≠ 0 := by
  have h := complete_sq h1 h2
  constructor
  · intro e; apply h; linear_combination (c.d * x1 * x2 * y1 * y2 - 1) * e
  · intro e; apply h; linear_combination (-(c.d * x1 * x2 * y1 * y2) - 1) * e

theorem den_plus_ne_zero {x1 y1 x2 y2 : K} (h1 : OnCurve c x1 y1) (h2 : OnCurve c x2 y2) :
    1 + c.d * x1 * x2 * y1 * y2 ≠ 0 := (den_ne h1 h2).1

theorem den_minus_ne_zero {x1 y1 x2 y2 : K} (h1 : OnCurve c x1 y1) (h2 : OnCurve c x2 y2) :
    1 - c.d * x1 * x2 * y1 * y2 ≠ 0 := (den_ne h1 h2).2

variable (c) in
/-- x-coordinate of the sum -/
def addX (x1 y1 x2 y2 : K) : K := (x1 * y2 + y1 * x2) / (1 + c.d * x1 * x2 * y1 * y2)
variable (c) in
/-- y-coordinate of the sum -/
def addY (x1 y1 x2 y2 : K) : K := (y1 * y2 + x1 * x2) / (1 - c.d * x1 * x2 * y1 * y2)

/-- closure of the addition law -/
theorem add_on {x1 y1 x2 y2 : K} (h1 : OnCurve c x1 y1) (h2 : OnCurve c x2 y2) :
    OnCurve c (addX c x1 y1 x2 y2) (addY c x1 y1 x2 y2) := by
  obtain ⟨hp, hm⟩ := den_ne h1 h2
  have P := EdPoly.closure_poly c.d x1 y1 x2 y2 (eq_form h1) (eq_form h2)
  unfold OnCurve addX addY
  generalize hA : x1 * y2 + y1 * x2 = A at *
  generalize hB : y1 * y2 + x1 * x2 = B at *
  generalize hpp : 1 + c.d * x1 * x2 * y1 * y2 = pp at *
  generalize hmm : 1 - c.d * x1 * x2 * y1 * y2 = mm at *
  have num0 : -A ^ 2 * mm ^ 2 + B ^ 2 * pp ^ 2 - pp ^ 2 * mm ^ 2 - c.d * A ^ 2 * B ^ 2 = 0 := by
    subst hA hB hpp hmm; linear_combination P
  have key : -(A / pp) ^ 2 + (B / mm) ^ 2 - (1 + c.d * (A / pp) ^ 2 * (B / mm) ^ 2)
      = (-A ^ 2 * mm ^ 2 + B ^ 2 * pp ^ 2 - pp ^ 2 * mm ^ 2 - c.d * A ^ 2 * B ^ 2) / (pp ^ 2 * mm ^ 2) := by
    field_simp
    ring
  exact sub_eq_zero.mp (by rw [key, num0, zero_div])

theorem zero_on : OnCurve c 0 1 := by simp [OnCurve]

theorem neg_on {x y : K} (h : OnCurve c x y) : OnCurve c (-x) y := by
  unfold OnCurve at *; linear_combination h

instance : Add (Pt c) :=
  ⟨fun p q => ⟨addX c p.x p.y q.x q.y, addY c p.x p.y q.x q.y, add_on p.on q.on⟩⟩
instance : Zero (Pt c) := ⟨⟨0, 1, zero_on⟩⟩
instance : Neg (Pt c) := ⟨fun p => ⟨-p.x, p.y, neg_on p.on⟩⟩

@[simp] theorem add_x (p q : Pt c) :
    (p + q).x = (p.x * q.y + p.y * q.x) / (1 + c.d * p.x * q.x * p.y * q.y) := rfl
@[simp] theorem add_y (p q : Pt c) :
    (p + q).y = (p.y * q.y + p.x * q.x) / (1 - c.d * p.x * q.x * p.y * q.y) := rfl
@[simp] theorem zero_x : (0 : Pt c).x = 0 := rfl
@[simp] theorem zero_y : (0 : Pt c).y = 1 := rfl
@[simp] theorem neg_x (p : Pt c) : (-p).x = -p.x := rfl
@[simp] theorem neg_y (p : Pt c) : (-p).y = p.y := rfl

theorem add_def (p q : Pt c) :
    p + q = ⟨addX c p.x p.y q.x q.y, addY c p.x p.y q.x q.y, add_on p.on q.on⟩ := rfl

theorem add_comm' (p q : Pt c) : p + q = q + p := by
  ext <;> simp <;> ring_nf

theorem zero_add' (p : Pt c) : 0 + p = p := by
  ext <;> simp

theorem neg_add' (p : Pt c) : -p + p = 0 := by
  have h := p.on
  unfold OnCurve at h
  obtain ⟨hp, hm⟩ := den_ne (c := c) (-p).on p.on
  ext
  · simp only [add_x, neg_x, neg_y, zero_x]
    rw [div_eq_zero_iff]; left; ring
  · simp only [add_y, neg_x, neg_y, zero_y]
    simp only [neg_x, neg_y] at hm
    rw [div_eq_one_iff_eq hm]
    linear_combination h

/-- x of (A/pp, B/mm) + (x3, y3) as a single fraction -/
theorem addX_left (A B pp mm x3 y3 : K) (hp : pp ≠ 0) (hm : mm ≠ 0)
    (h : 1 + c.d * (A / pp) * x3 * (B / mm) * y3 ≠ 0) :
    pp * mm + c.d * A * B * x3 * y3 ≠ 0 ∧
    addX c (A / pp) (B / mm) x3 y3 = (A * y3 * mm + B * x3 * pp) / (pp * mm + c.d * A * B * x3 * y3) := by
  have e : pp * mm + c.d * A * B * x3 * y3 = pp * mm * (1 + c.d * (A / pp) * x3 * (B / mm) * y3) := by
    field_simp
  have hden : pp * mm + c.d * A * B * x3 * y3 ≠ 0 := by
    rw [e]; exact mul_ne_zero (mul_ne_zero hp hm) h
  refine ⟨hden, ?_⟩
  unfold addX
  rw [div_eq_div_iff h hden]
  field_simp

theorem addY_left (A B pp mm x3 y3 : K) (hp : pp ≠ 0) (hm : mm ≠ 0)
    (h : 1 - c.d * (A / pp) * x3 * (B / mm) * y3 ≠ 0) :
    pp * mm - c.d * A * B * x3 * y3 ≠ 0 ∧
    addY c (A / pp) (B / mm) x3 y3 = (B * y3 * pp + A * x3 * mm) / (pp * mm - c.d * A * B * x3 * y3) := by
  have e : pp * mm - c.d * A * B * x3 * y3 = pp * mm * (1 - c.d * (A / pp) * x3 * (B / mm) * y3) := by
    field_simp
  have hden : pp * mm - c.d * A * B * x3 * y3 ≠ 0 := by
    rw [e]; exact mul_ne_zero (mul_ne_zero hp hm) h
  refine ⟨hden, ?_⟩
  unfold addY
  rw [div_eq_div_iff h hden]
  field_simp

theorem add_assoc' (p q r : Pt c) : p + q + r = p + (q + r) := by
  have comm : ∀ a b : Pt c, a + b = b + a := add_comm'
  obtain ⟨x1, y1, h1⟩ := p
  obtain ⟨x2, y2, h2⟩ := q
  obtain ⟨x3, y3, h3⟩ := r
  obtain ⟨a1, a2⟩ := den_ne h1 h2
  obtain ⟨b1, b2⟩ := den_ne h2 h3
  obtain ⟨c1, c2⟩ := den_ne (add_on h1 h2) h3
  obtain ⟨d1, d2⟩ := den_ne (add_on h2 h3) h1
  have PX := EdPoly.assoc_x_poly c.d x1 y1 x2 y2 x3 y3 (eq_form h1) (eq_form h2) (eq_form h3)
  have PY := EdPoly.assoc_y_poly c.d x1 y1 x2 y2 x3 y3 (eq_form h1) (eq_form h2) (eq_form h3)
  -- (p+q)+r and (q+r)+p as single fractions
  unfold addX addY at c1 c2 d1 d2
  obtain ⟨nx1, ex1⟩ := addX_left (c := c) _ _ _ _ x3 y3 a1 a2 c1
  obtain ⟨ny1, ey1⟩ := addY_left (c := c) _ _ _ _ x3 y3 a1 a2 c2
  obtain ⟨nx2, ex2⟩ := addX_left (c := c) _ _ _ _ x1 y1 b1 b2 d1
  obtain ⟨ny2, ey2⟩ := addY_left (c := c) _ _ _ _ x1 y1 b1 b2 d2
  rw [comm ⟨x1, y1, h1⟩ (⟨x2, y2, h2⟩ + ⟨x3, y3, h3⟩)]
  ext
  · show addX c (addX c x1 y1 x2 y2) (addY c x1 y1 x2 y2) x3 y3 =
         addX c (addX c x2 y2 x3 y3) (addY c x2 y2 x3 y3) x1 y1
    simp only [addX, addY] at ex1 ex2 ⊢
    rw [ex1, ex2, div_eq_div_iff nx1 nx2]
    linear_combination PX
  · show addY c (addX c x1 y1 x2 y2) (addY c x1 y1 x2 y2) x3 y3 =
         addY c (addX c x2 y2 x3 y3) (addY c x2 y2 x3 y3) x1 y1
    simp only [addX, addY] at ey1 ey2 ⊢
    rw [ey1, ey2, div_eq_div_iff ny1 ny2]
    linear_combination PY

instance instAddCommGroup : AddCommGroup (Pt c) where
  add_assoc := add_assoc'
  zero_add := zero_add'
  add_zero p := by rw [add_comm', zero_add']
  neg_add_cancel := neg_add'
  add_comm := add_comm'
  nsmul := nsmulRec
  zsmul := zsmulRec

@[simp] theorem sub_x (p q : Pt c) :
    (p - q).x = (p.x * q.y - p.y * q.x) / (1 - c.d * p.x * q.x * p.y * q.y) := by
  rw [sub_eq_add_neg, add_x, neg_x, neg_y]; congr 1 <;> ring
@[simp] theorem sub_y (p q : Pt c) :
    (p - q).y = (p.y * q.y - p.x * q.x) / (1 + c.d * p.x * q.x * p.y * q.y) := by
  rw [sub_eq_add_neg, add_y, neg_x, neg_y]; congr 1 <;> ring

end EdVerif.Spec.Edwards
