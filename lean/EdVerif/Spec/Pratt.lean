import EdVerif.Spec.PowMod
import Mathlib.NumberTheory.LucasPrimality
import Mathlib.Data.ZMod.Basic
import Mathlib.Algebra.BigOperators.Group.List.Basic
import Mathlib.Data.Nat.Prime.Basic
import Mathlib.Tactic.NormNum.Prime

/-! Pratt certificates: `lucas_primality` with all side conditions phrased through the
kernel-evaluable `powMod`. -/
namespace EdVerif.Spec

theorem zmod_pow_eq_one_iff (p a n : ℕ) (hp : 1 < p) :
    ((a : ZMod p) ^ n = 1) ↔ a ^ n % p = 1 := by
  have : ((a : ZMod p) ^ n = 1) ↔ (((a ^ n : ℕ) : ZMod p) = ((1 : ℕ) : ZMod p)) := by push_cast; rfl
  rw [this, ZMod.natCast_eq_natCast_iff']
  rw [Nat.mod_eq_of_lt hp]

/-- prime divisors of a product of prime powers are among the bases -/
theorem prime_dvd_prod_pow (fs : List (ℕ × ℕ)) (hfs : ∀ f ∈ fs, f.1.Prime) (q : ℕ) (hq : q.Prime)
    (h : q ∣ (fs.map fun f => f.1 ^ f.2).prod) : q ∈ fs.map Prod.fst := by
  induction fs with
  | nil => simp at h; exact absurd h hq.one_lt.ne'
  | cons f fs ih =>
    simp only [List.map_cons, List.prod_cons] at h
    rcases (Nat.Prime.dvd_mul hq).mp h with h | h
    · have := (Nat.prime_dvd_prime_iff_eq hq (hfs f (by simp))).mp (hq.dvd_of_dvd_pow h)
      simp [this]
    · have := ih (fun g hg => hfs g (by simp [hg])) h
      simp only [List.map_cons, List.mem_cons]; right; exact this

/-- Pratt certificate step: `a` is a primitive root mod `p`, with `p - 1` fully factored into
primes `fs`. -/
theorem pratt (p a : ℕ) (fs : List (ℕ × ℕ)) (hp : 1 < p)
    (hfs : ∀ f ∈ fs, f.1.Prime)
    (hfac : p - 1 = (fs.map fun f => f.1 ^ f.2).prod)
    (h1 : powMod a (p - 1) p % p = 1)
    (h2 : ∀ f ∈ fs, powMod a ((p - 1) / f.1) p % p ≠ 1) : p.Prime := by
  apply lucas_primality p (a : ZMod p)
  · rw [zmod_pow_eq_one_iff p a _ hp, ← powMod_spec, h1]
  · intro q hq hdvd
    rw [hfac] at hdvd
    have hmem := prime_dvd_prod_pow fs hfs q hq hdvd
    obtain ⟨f, hf, rfl⟩ := List.mem_map.mp hmem
    rw [Ne, zmod_pow_eq_one_iff p a _ hp, ← powMod_spec]
    exact h2 f hf

end EdVerif.Spec
