import EdVerif.Spec.Curve25519
/-!
# RFC 7748 `X25519`, written down as the RFC does (section 5), over `ZMod p` and byte strings

This is the *specification* side of the last clause of C17: "for `P = [clamp(k)]B` the output of
`BytesMontgomery` is exactly the X25519 public key of `k`".  Nothing here mentions the Go code or
the executable model; it is the RFC's pseudo-code:

```
x_1 = u; x_2 = 1; z_2 = 0; x_3 = u; z_3 = 1; swap = 0
For t = bits-1 down to 0:
    k_t = (k >> t) & 1
    swap ^= k_t
    (x_2, x_3) = cswap(swap, x_2, x_3); (z_2, z_3) = cswap(swap, z_2, z_3)
    swap = k_t
    A = x_2 + z_2; AA = A^2; B = x_2 - z_2; BB = B^2; E = AA - BB
    C = x_3 + z_3; D = x_3 - z_3; DA = D * A; CB = C * B
    x_3 = (DA + CB)^2; z_3 = x_1 * (DA - CB)^2
    x_2 = AA * BB;     z_2 = E * (AA + a24 * E)
(x_2, x_3) = cswap(swap, x_2, x_3); (z_2, z_3) = cswap(swap, z_2, z_3)
Return x_2 * (z_2^(p - 2))
```
with `a24 = 121665`, `bits = 255`, `decodeScalar25519` (clamping) and `decodeUCoordinate` (mask the top bit,
little-endian, reduce mod p), `encodeUCoordinate` (32 bytes little-endian of the canonical representative).
-/
namespace EdVerif.Spec.X25519
open EdVerif.Spec

structure St where
  x2 : F
  z2 : F
  x3 : F
  z3 : F
  swap : Bool

def cswap (b : Bool) (a c : F) : F × F := if b then (c, a) else (a, c)

/-- one iteration of the RFC loop for bit `kt` -/
def ladderStep (x1 : F) (s : St) (kt : Bool) : St :=
  let sw := xor s.swap kt
  let (x2, x3) := cswap sw s.x2 s.x3
  let (z2, z3) := cswap sw s.z2 s.z3
  let A := x2 + z2
  let AA := A ^ 2
  let B := x2 - z2
  let BB := B ^ 2
  let E := AA - BB
  let C := x3 + z3
  let D := x3 - z3
  let DA := D * A
  let CB := C * B
  { x3 := (DA + CB) ^ 2, z3 := x1 * (DA - CB) ^ 2, x2 := AA * BB, z2 := E * (AA + 121665 * E), swap := kt }

/-- the loop `for t = n-1 downto 0` -/
def ladderLoop (x1 : F) (k : ℕ) : ℕ → St → St
  | 0, s => s
  | t + 1, s => ladderLoop x1 k t (ladderStep x1 s (k.testBit t))

/-- the RFC's function on decoded values (`k` an integer, `u` a field element) -/
def ladder (k : ℕ) (u : F) : F :=
  let s := ladderLoop u k 255 { x2 := 1, z2 := 0, x3 := u, z3 := 1, swap := false }
  let (x2, _) := cswap s.swap s.x2 s.x3
  let (z2, _) := cswap s.swap s.z2 s.z3
  x2 * z2 ^ (EdVerif.P - 2)

/-- little-endian value of a byte list -/
def leVal : List ℕ → ℕ
  | [] => 0
  | b :: bs => b + 256 * leVal bs

/-- `decodeScalar25519`: clear bits 0,1,2 and 255, set bit 254 -/
def decodeScalar (k : List ℕ) : ℕ :=
  let k := k.set 0 (k[0]! &&& 248)
  let k := k.set 31 (k[31]! &&& 127)
  let k := k.set 31 (k[31]! ||| 64)
  leVal k

/-- `decodeUCoordinate` for 255 bits -/
def decodeU (u : List ℕ) : F :=
  let u := u.set 31 (u[31]! &&& 127)
  ((leVal u : ℕ) : F)

/-- `encodeUCoordinate` -/
def encodeU (u : F) : List ℕ := (List.range 32).map fun i => (u.val / 256 ^ i) % 256

/-- `X25519(k, u)` on 32-byte strings -/
def x25519 (k u : List ℕ) : List ℕ := encodeU (ladder (decodeScalar k) (decodeU u))

/-- the base point `9` as a byte string -/
def nine : List ℕ := 9 :: List.replicate 31 0

/-- the X25519 public key of the private key `k` -/
def publicKey (k : List ℕ) : List ℕ := x25519 k nine

end EdVerif.Spec.X25519
