import EdVerif.Spec.Curve25519
import EdVerif.Spec.Projective
import Mathlib.FieldTheory.Finite.Basic

/-! The mathematics of `field.Element.SqrtRatio` (RFC 9496 §4.2 `SQRT_RATIO_M1`) over
`F = ZMod (2^255-19)`, `p ≡ 5 (mod 8)`:

`r0 = (u v³) (u v⁷)^((p-5)/8)`, `check = v r0²`.  Then `check = u · (u v⁷)^((p-1)/4)` and the
second factor is a fourth root of unity. -/
namespace EdVerif.Spec

/-- the exponent `(p-5)/8 = 2^252 - 3` of `Pow22523` -/
def sqrtExp : ℕ := (EdVerif.P - 5) / 8

theorem sqrtExp_eq : sqrtExp = 2 ^ 252 - 3 := by decide +kernel

theorem four_mul_sqrtExp : 4 * (2 * sqrtExp + 1) = EdVerif.P - 1 := by decide +kernel

theorem two_mul_sqrtExp : 2 * (2 * sqrtExp + 1) = EdVerif.P / 2 := by decide +kernel

/-- candidate root `r0 = (u v³) (u v⁷)^((p-5)/8)` -/
def sqrtRatioR0 (u v : F) : F := (u * v ^ 3) * (u * v ^ 7) ^ sqrtExp

/-- `check = v r0²` -/
def sqrtRatioCheck (u v : F) : F := v * sqrtRatioR0 u v ^ 2

/-- the fourth root of unity `(u v⁷)^((p-1)/4)` -/
def sqrtRatioT (u v : F) : F := (u * v ^ 7) ^ (2 * sqrtExp + 1)

theorem sqrtRatioCheck_eq (u v : F) : sqrtRatioCheck u v = u * sqrtRatioT u v := by
  unfold sqrtRatioCheck sqrtRatioR0 sqrtRatioT
  generalize sqrtExp = e
  have e1 : (u * v ^ 7) ^ (2 * e + 1) = ((u * v ^ 7) ^ e) ^ 2 * (u * v ^ 7) := by
    rw [pow_succ, pow_mul']
  rw [e1]
  generalize (u * v ^ 7) ^ e = g
  ring

theorem sqrtRatioR0_zero_left (v : F) : sqrtRatioR0 0 v = 0 := by simp [sqrtRatioR0]
theorem sqrtRatioR0_zero_right (u : F) : sqrtRatioR0 u 0 = 0 := by simp [sqrtRatioR0]
theorem sqrtRatioCheck_zero_left (v : F) : sqrtRatioCheck 0 v = 0 := by
  simp [sqrtRatioCheck, sqrtRatioR0_zero_left]
theorem sqrtRatioCheck_zero_right (u : F) : sqrtRatioCheck u 0 = 0 := by simp [sqrtRatioCheck]

theorem sqrtM1_ne_zero : sqrtM1 ≠ 0 := by
  intro h
  have := sqrtM1_sq
  rw [h] at this
  simp at this

/-- Fermat: `w^(p-1) = 1` -/
theorem pow_P_sub_one {w : F} (hw : w ≠ 0) : w ^ (EdVerif.P - 1) = 1 :=
  ZMod.pow_card_sub_one_eq_one hw

theorem sqrtRatioT_pow_four {u v : F} (hu : u ≠ 0) (hv : v ≠ 0) : sqrtRatioT u v ^ 4 = 1 := by
  unfold sqrtRatioT
  rw [← pow_mul', four_mul_sqrtExp]
  exact pow_P_sub_one (mul_ne_zero hu (pow_ne_zero 7 hv))

theorem sqrtRatioT_sq (u v : F) : sqrtRatioT u v ^ 2 = (u * v ^ 7) ^ (EdVerif.P / 2) := by
  unfold sqrtRatioT
  rw [← pow_mul', two_mul_sqrtExp]

/-- the fourth roots of unity in `F` are `±1, ±sqrtM1` -/
theorem fourth_root_cases {t : F} (h : t ^ 4 = 1) :
    t = 1 ∨ t = -1 ∨ t = -sqrtM1 ∨ t = sqrtM1 := by
  have hprod : (t - 1) * ((t + 1) * ((t + sqrtM1) * (t - sqrtM1))) = 0 := by
    linear_combination h - (t ^ 2 - 1) * sqrtM1_sq
  rcases mul_eq_zero.mp hprod with h1 | hprod
  · left; linear_combination h1
  rcases mul_eq_zero.mp hprod with h1 | hprod
  · right; left; linear_combination h1
  rcases mul_eq_zero.mp hprod with h1 | h1
  · right; right; left; linear_combination h1
  · right; right; right; linear_combination h1

theorem sq_eq_one_iff' {t : F} : t ^ 2 = 1 ↔ t = 1 ∨ t = -1 := by
  constructor
  · intro h
    have hprod : (t - 1) * (t + 1) = 0 := by linear_combination h
    rcases mul_eq_zero.mp hprod with h1 | h1
    · left; linear_combination h1
    · right; linear_combination h1
  · rintro (rfl | rfl) <;> ring

theorem isSquare_uv7_iff {u v : F} (hv : v ≠ 0) : IsSquare (u * v ^ 7) ↔ IsSquare (u / v) := by
  have hv4 : v ^ 4 ≠ 0 := pow_ne_zero 4 hv
  constructor
  · rintro ⟨r, hr⟩
    refine ⟨r / v ^ 4, ?_⟩
    rw [div_mul_div_comm, ← hr, div_eq_div_iff hv (mul_ne_zero hv4 hv4)]
    ring
  · rintro ⟨r, hr⟩
    refine ⟨r * v ^ 4, ?_⟩
    have hu : u = r * r * v := by rw [← hr]; field_simp
    rw [hu]; ring

/-- the four possible values of `check` -/
theorem sqrtRatio_cases {u v : F} (hu : u ≠ 0) (hv : v ≠ 0) :
    sqrtRatioCheck u v = u ∨ sqrtRatioCheck u v = -u ∨ sqrtRatioCheck u v = -u * sqrtM1 ∨
      sqrtRatioCheck u v = u * sqrtM1 := by
  rw [sqrtRatioCheck_eq]
  rcases fourth_root_cases (sqrtRatioT_pow_four hu hv) with h | h | h | h <;> rw [h]
  · left; ring
  · right; left; ring
  · right; right; left; ring
  · right; right; right; rfl

/-- `wasSquare` is correct: `check = ±u` iff `u/v` is a square -/
theorem sqrtRatio_wasSquare_iff {u v : F} (hu : u ≠ 0) (hv : v ≠ 0) :
    (sqrtRatioCheck u v = u ∨ sqrtRatioCheck u v = -u) ↔ IsSquare (u / v) := by
  have hw : u * v ^ 7 ≠ 0 := mul_ne_zero hu (pow_ne_zero 7 hv)
  rw [← isSquare_uv7_iff hv, ZMod.euler_criterion (p := EdVerif.P) hw, ← sqrtRatioT_sq,
    sq_eq_one_iff', sqrtRatioCheck_eq]
  constructor
  · rintro (h | h)
    · left; apply mul_left_cancel₀ hu; linear_combination h
    · right; apply mul_left_cancel₀ hu; linear_combination h
  · rintro (h | h) <;> rw [h]
    · left; ring
    · right; ring

/-! the root in each of the four cases -/

theorem sqrtRatio_root_of_check_eq {u v : F} (hv : v ≠ 0) (h : sqrtRatioCheck u v = u) :
    sqrtRatioR0 u v ^ 2 = u / v := by
  rw [eq_div_iff hv]; unfold sqrtRatioCheck at h; linear_combination h

theorem sqrtRatio_root_of_check_eq_neg {u v : F} (hv : v ≠ 0) (h : sqrtRatioCheck u v = -u) :
    (sqrtRatioR0 u v * sqrtM1) ^ 2 = u / v := by
  rw [eq_div_iff hv]; unfold sqrtRatioCheck at h
  linear_combination -h + v * sqrtRatioR0 u v ^ 2 * sqrtM1_sq

theorem sqrtRatio_root_of_check_eq_neg_i {u v : F} (hv : v ≠ 0)
    (h : sqrtRatioCheck u v = -u * sqrtM1) :
    (sqrtRatioR0 u v * sqrtM1) ^ 2 = sqrtM1 * (u / v) := by
  rw [mul_div_assoc', eq_div_iff hv]; unfold sqrtRatioCheck at h
  linear_combination -h + v * sqrtRatioR0 u v ^ 2 * sqrtM1_sq

theorem sqrtRatio_root_of_check_eq_i {u v : F} (hv : v ≠ 0) (h : sqrtRatioCheck u v = u * sqrtM1) :
    sqrtRatioR0 u v ^ 2 = sqrtM1 * (u / v) := by
  rw [mul_div_assoc', eq_div_iff hv]; unfold sqrtRatioCheck at h
  linear_combination h

/-- if `u/v` is not a square then `sqrtM1 · u/v` is -/
theorem isSquare_sqrtM1_mul_of_not_isSquare {u v : F} (hu : u ≠ 0) (hv : v ≠ 0)
    (h : ¬ IsSquare (u / v)) : IsSquare (sqrtM1 * (u / v)) := by
  rcases sqrtRatio_cases hu hv with h1 | h1 | h1 | h1
  · exact absurd ((sqrtRatio_wasSquare_iff hu hv).mp (Or.inl h1)) h
  · exact absurd ((sqrtRatio_wasSquare_iff hu hv).mp (Or.inr h1)) h
  · exact ⟨sqrtRatioR0 u v * sqrtM1, by rw [← sqrtRatio_root_of_check_eq_neg_i hv h1, sq]⟩
  · exact ⟨sqrtRatioR0 u v, by rw [← sqrtRatio_root_of_check_eq_i hv h1, sq]⟩

theorem isSquare_sqrtM1_mul_of_not_isSquare' {x : F} (hx : ¬ IsSquare x) : IsSquare (sqrtM1 * x) := by
  have hx0 : x ≠ 0 := by rintro rfl; exact hx ⟨0, by simp⟩
  simpa using isSquare_sqrtM1_mul_of_not_isSquare hx0 one_ne_zero (by simpa using hx)

/-! ### the value selected by the Go code (before `Absolute`) -/

open Classical in
/-- the root selected by `SqrtRatio` before taking the absolute value:
`r0 · sqrtM1` if `check = -u` or `check = -u · sqrtM1`, else `r0` -/
noncomputable def sqrtRatioR (u v : F) : F :=
  if sqrtRatioCheck u v = -u ∨ sqrtRatioCheck u v = -u * sqrtM1 then sqrtRatioR0 u v * sqrtM1
  else sqrtRatioR0 u v

/-- the flag returned by `SqrtRatio` -/
def sqrtRatioWasSquare (u v : F) : Prop := sqrtRatioCheck u v = u ∨ sqrtRatioCheck u v = -u

/-- `wasSquare = 1` : the selected `r` satisfies `v r² = u` (all `u`, `v`, including zero) -/
theorem sqrtRatioR_spec_square {u v : F} (h : sqrtRatioWasSquare u v) :
    v * sqrtRatioR u v ^ 2 = u := by
  by_cases hu : u = 0
  · subst hu
    unfold sqrtRatioR
    split <;> simp [sqrtRatioR0_zero_left]
  by_cases hv : v = 0
  · subst hv
    unfold sqrtRatioWasSquare at h
    rw [sqrtRatioCheck_zero_right] at h
    rcases h with h | h
    · exact absurd h.symm hu
    · exact absurd (neg_eq_zero.mp h.symm) hu
  have hi := sqrtM1_ne_zero
  have h2 := two_ne_zero
  unfold sqrtRatioR
  rcases h with h | h
  · have hnot : ¬ (sqrtRatioCheck u v = -u ∨ sqrtRatioCheck u v = -u * sqrtM1) := by
      rw [h]
      rintro (h' | h')
      · apply hu; apply mul_left_cancel₀ h2; linear_combination h'
      · -- u = -u * i  ⇒  u (1 + i) = 0 ⇒ i = -1 ⇒ i² = 1 ≠ -1
        have hi1 : sqrtM1 = -1 := by
          apply mul_left_cancel₀ hu; linear_combination h'
        have := sqrtM1_sq
        rw [hi1] at this
        apply h2; linear_combination this
    rw [if_neg hnot, sqrtRatio_root_of_check_eq hv h]; field_simp
  · rw [if_pos (Or.inl h), sqrtRatio_root_of_check_eq_neg hv h]; field_simp

/-- `wasSquare = 0` (and `u, v ≠ 0`) : the selected `r` satisfies `v r² = sqrtM1 · u` -/
theorem sqrtRatioR_spec_nonsquare {u v : F} (hu : u ≠ 0) (hv : v ≠ 0)
    (h : ¬ sqrtRatioWasSquare u v) : v * sqrtRatioR u v ^ 2 = sqrtM1 * u := by
  have hi := sqrtM1_ne_zero
  unfold sqrtRatioR
  rcases sqrtRatio_cases hu hv with h1 | h1 | h1 | h1
  · exact absurd (Or.inl h1) h
  · exact absurd (Or.inr h1) h
  · rw [if_pos (Or.inr h1), sqrtRatio_root_of_check_eq_neg_i hv h1]; field_simp
  · have hnot : ¬ (sqrtRatioCheck u v = -u ∨ sqrtRatioCheck u v = -u * sqrtM1) := by
      rw [h1]
      rintro (h' | h')
      · exact h (Or.inr (h1.trans h'))
      · apply hu; apply mul_left_cancel₀ (mul_ne_zero two_ne_zero hi); linear_combination h'
    rw [if_neg hnot, sqrtRatio_root_of_check_eq_i hv h1]; field_simp

/-- `wasSquare` characterised for all inputs: it holds iff `v x² = u` is solvable -/
theorem sqrtRatioWasSquare_iff (u v : F) : sqrtRatioWasSquare u v ↔ ∃ x : F, v * x ^ 2 = u := by
  constructor
  · intro h; exact ⟨_, sqrtRatioR_spec_square h⟩
  · rintro ⟨x, hx⟩
    by_cases hu : u = 0
    · subst hu; left; exact sqrtRatioCheck_zero_left v
    have hv : v ≠ 0 := by rintro rfl; apply hu; rw [← hx]; ring
    apply (sqrtRatio_wasSquare_iff hu hv).mpr
    exact ⟨x, by rw [← hx]; field_simp⟩

/-! ### point decoding: `x² = (y² - 1) / (d y² + 1)` -/

theorem onCurve_neg {x y : F} (h : onCurve x y) : onCurve (-x) y := by
  unfold onCurve at *; linear_combination h

/-- `SetBytes` accepts `y` iff some `x` puts `(x, y)` on the curve -/
theorem decode_wasSquare_iff (y : F) :
    sqrtRatioWasSquare (y ^ 2 - 1) (d * y ^ 2 + 1) ↔ ∃ x : F, onCurve x y := by
  rw [sqrtRatioWasSquare_iff]
  simp only [onCurve_iff_decode]

/-- the `x` recovered by `SqrtRatio` (and hence also `-x`) lies on the curve -/
theorem decode_onCurve {y : F} (h : sqrtRatioWasSquare (y ^ 2 - 1) (d * y ^ 2 + 1)) :
    onCurve (sqrtRatioR (y ^ 2 - 1) (d * y ^ 2 + 1)) y :=
  (onCurve_iff_decode _ _).mpr (sqrtRatioR_spec_square h)

/-- the two `x` for a given `y` differ by sign -/
theorem onCurve_x_unique {x x' y : F} (h : onCurve x y) (h' : onCurve x' y) : x' = x ∨ x' = -x := by
  rw [onCurve_iff_decode] at h h'
  have hv := decode_den_ne_zero y
  have hsq : x' ^ 2 = x ^ 2 := mul_left_cancel₀ hv (h'.trans h.symm)
  have hprod : (x' - x) * (x' + x) = 0 := by linear_combination hsq
  rcases mul_eq_zero.mp hprod with h1 | h1
  · left; linear_combination h1
  · right; linear_combination h1

end EdVerif.Spec
